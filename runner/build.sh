#!/bin/sh
# builds runner from the extracted model.ml (already written here by coqc) and main.ml
set -e
cd "$(dirname "$0")"
ocamlfind ocamlopt -O3 -w -a -package unix,zarith -linkpkg model.mli model.ml main.ml -o runner 2>&1
