(* main.ml — hand-written driver around the extracted model (model.ml).
   Protocol (stdin/stdout, one line each way):
     request : <op> <arg> <arg> ...        (bytes are hex, "-" is the empty string)
     reply   : = <tok> <tok> ...           (or  ! <message>  on a driver error)
   While computing a reply the model may call back for a cryptographic
   primitive:   ? <prim> <hex> ...   and reads one line  <hex>  as the answer. *)
module BZ = Z   (* Zarith, before the extracted model shadows Z *)
open Model

(* ---------- conversions ---------- *)
let byte_of_int (i : int) : byte = Obj.magic i
let int_of_byte (b : byte) : int = Obj.magic b

let rec pos_of_int i =
  if i = 1 then XH else if i land 1 = 0 then XO (pos_of_int (i lsr 1)) else XI (pos_of_int (i lsr 1))
let n_of_int i = if i = 0 then N0 else Npos (pos_of_int i)
let rec int_of_pos = function XH -> 1 | XO p -> 2 * int_of_pos p | XI p -> 2 * int_of_pos p + 1
let int_of_n = function N0 -> 0 | Npos p -> int_of_pos p
let rec nat_of_int i = if i = 0 then O else S (nat_of_int (i - 1))
let int_of_nat n = let rec go acc = function O -> acc | S m -> go (acc + 1) m in go 0 n

(* big N <-> decimal string through Zarith *)
let rec z_of_pos = function
  | XH -> BZ.one
  | XO p -> BZ.shift_left (z_of_pos p) 1
  | XI p -> BZ.succ (BZ.shift_left (z_of_pos p) 1)
let z_of_n = function N0 -> BZ.zero | Npos p -> z_of_pos p
let rec pos_of_z z =
  if BZ.equal z BZ.one then XH
  else if BZ.is_even z then XO (pos_of_z (BZ.shift_right z 1))
  else XI (pos_of_z (BZ.shift_right z 1))
let n_of_z z = if BZ.sign z = 0 then N0 else Npos (pos_of_z z)
let n_of_string s = n_of_z (BZ.of_string s)
let string_of_n n = BZ.to_string (z_of_n n)

let hexdig = "0123456789abcdef"
let bytes_to_hex (l : byte list) : string =
  match l with
  | [] -> "-"
  | _ ->
    let b = Buffer.create 64 in
    List.iter (fun x -> let i = int_of_byte x in
                Buffer.add_char b hexdig.[i lsr 4]; Buffer.add_char b hexdig.[i land 15]) l;
    Buffer.contents b
let hv c = match c with
  | '0'..'9' -> Char.code c - 48 | 'a'..'f' -> Char.code c - 87 | 'A'..'F' -> Char.code c - 55
  | _ -> failwith "bad hex"
let hex_to_bytes (s : string) : byte list =
  if s = "-" then [] else begin
    let n = String.length s / 2 in
    let rec go i acc = if i < 0 then acc
      else go (i - 1) (byte_of_int ((hv s.[2*i]) lsl 4 lor (hv s.[2*i+1])) :: acc) in
    go (n - 1) []
  end

let self_check () =
  for i = 0 to 255 do
    if int_of_n (to_N (byte_of_int i)) <> i then failwith "byte representation self-check failed"
  done

(* ---------- oracle callbacks ---------- *)
let oracle (prim : string) (args : byte list list) : string =
  print_string ("? " ^ prim);
  List.iter (fun a -> print_char ' '; print_string (bytes_to_hex a)) args;
  print_newline ();
  input_line stdin

(* ---------- operations ---------- *)
let enc_of = function
  | "b62" -> base62 | "b62s" -> base62_strict | "b58" -> base58 | "b58s" -> base58_strict
  | s -> failwith ("unknown encoding " ^ s)

let bx_err_str = function
  | None -> "ok"
  | Some (CorruptInput off) -> "corrupt:" ^ string_of_n off
  | Some InvalidEncodingLength -> "badlen"

(* ---------- crypto record backed by oracle callbacks ---------- *)
let h2b = hex_to_bytes
let cr : crypto = {
  sha512 = (fun x -> h2b (oracle "sha512" [x]));
  hmac512 = (fun k m -> h2b (oracle "hmac512" [k; m]));
  sb_seal = (fun k n m -> h2b (oracle "sb_seal" [k; n; m]));
  sb_open = (fun k n b -> match oracle "sb_open" [k; n; b] with "!" -> None | h -> Some (h2b h));
  dh_pub = (fun s -> h2b (oracle "dh_pub" [s]));
  dh_shared = (fun s p -> h2b (oracle "dh_shared" [s; p]));
  ed_pub = (fun s -> h2b (oracle "ed_pub" [s]));
  ed_sign = (fun s m -> h2b (oracle "ed_sign" [s; m]));
  ed_verify = (fun p m sg -> oracle "ed_verify" [p; m; sg] = "1");
}

(* ---------- more conversions ---------- *)
let z_of_int i = if i = 0 then Z0 else if i > 0 then Zpos (pos_of_int i) else Zneg (pos_of_int (-i))
let version_of s = match String.split_on_char '.' s with
  | [a; b] -> { vmaj = z_of_int (int_of_string a); vmin = z_of_int (int_of_string b) }
  | _ -> failwith "version"
let validator_of s =
  if s = "any" then AnyKnownMajor
  else match String.split_on_char ':' s with
    | ["single"; v] -> Single (version_of v)
    | _ -> failwith "validator"
(* list of byte strings: items joined by ','; "_" is the empty list *)
let blist_of s = if s = "_" then [] else List.map h2b (String.split_on_char ',' s)
let blist_str l = match l with [] -> "_" | _ -> String.concat "," (List.map bytes_to_hex l)

let err_str = function
  | EOF -> "EOF" | ErrUnexpectedEOF -> "ErrUnexpectedEOF"
  | ErrFailedToReadHeaderBytes -> "ErrFailedToReadHeaderBytes" | ErrDecode -> "ErrDecode"
  | ErrBadVersion -> "ErrBadVersion" | ErrWrongMessageType -> "ErrWrongMessageType"
  | ErrNotASaltpackMessage -> "ErrNotASaltpackMessage" | ErrNoSenderKey -> "ErrNoSenderKey"
  | ErrNoDecryptionKey -> "ErrNoDecryptionKey" | ErrBadEphemeralKey -> "ErrBadEphemeralKey"
  | ErrBadSenderKeySecretbox -> "ErrBadSenderKeySecretbox" | ErrBadBoxKey -> "ErrBadBoxKey"
  | ErrBadSymmetricKey -> "ErrBadSymmetricKey"
  | ErrBadTag n -> "ErrBadTag:" ^ string_of_n n | ErrBadCiphertext n -> "ErrBadCiphertext:" ^ string_of_n n
  | ErrBadSignature -> "ErrBadSignature" | ErrTrailingGarbage -> "ErrTrailingGarbage"
  | ErrUnexpectedEmptyBlock -> "ErrUnexpectedEmptyBlock" | ErrPacketOverflow -> "ErrPacketOverflow"
  | ErrDecryptionFailed -> "ErrDecryptionFailed" | ErrBadLookup -> "ErrBadLookup"
  | ErrWrongNumberOfKeys -> "ErrWrongNumberOfKeys" | ErrBadReceivers -> "ErrBadReceivers"
  | ErrRepeatedKey -> "ErrRepeatedKey" | ErrInvalidParameter -> "ErrInvalidParameter"
  | ErrRand -> "ErrRand" | ErrBadFrame -> "ErrBadFrame" | ErrOverflow -> "ErrOverflow"
  | ErrBxCorrupt n -> "ErrBxCorrupt:" ^ string_of_n n | ErrBxLength -> "ErrBxLength"
  | ErrIO -> "ErrIO" | ErrPunctuated -> "ErrPunctuated" | Unmodelled -> "Unmodelled" | Panic n -> "Panic:" ^ string_of_n n


let b01 b = if b then "1" else "0"
let sender_of s = if s = "anon" then None else Some (h2b s)
(* "pk:h" (hidden) or "pk:v" (visible), ','-joined; "_" empty *)
let rcpts_of s = if s = "_" then [] else
    List.map (fun it -> match String.split_on_char ':' it with
        | [pk; f] -> (h2b pk, f = "h") | _ -> failwith "rcpt") (String.split_on_char ',' s)
(* "a:b" pairs *)
let pairs_of s = if s = "_" then [] else
    List.map (fun it -> match String.split_on_char ':' it with
        | [a; b] -> (h2b a, h2b b) | _ -> failwith "pair") (String.split_on_char ',' s)
let ring_of keys senders =
  { kr_keys = pairs_of keys; kr_senders = (if senders = "all" then None else Some (blist_of senders)) }


let rec int_of_z = function Z0 -> 0 | Zpos p -> int_of_pos p | Zneg p -> - (int_of_pos p)
let cls_str = function
  | ClsShort -> "short" | ClsNot -> "not" | ClsUnmod -> "unmod"
  | Cls (t, v) -> Printf.sprintf "cls:%d:%d.%d" (int_of_z t) (int_of_z v.vmaj) (int_of_z v.vmin)


let err_of = function "EOF" -> EOF | "IO" -> ErrIO | "" -> EOF | s -> failwith ("err_of " ^ s)
(* segments: "hex:err" items joined by ','; err is "", "EOF" or "IO"; "_" is the empty list *)
let segs_of s = if s = "_" then [] else
    List.map (fun it -> match String.split_on_char ':' it with
        | [d; e] -> { seg_data = h2b d; seg_err = (if e = "" then None else Some (err_of e)) }
        | _ -> failwith "seg") (String.split_on_char ',' s)


let events_str evs = match evs with [] -> "_" | _ ->
  String.concat " " (List.map (function
    | KUnbox (k, p, n, b) -> String.concat ":" ["unbox"; bytes_to_hex k; bytes_to_hex p; bytes_to_hex n; bytes_to_hex b]
    | KPreUnbox (k, p, n, b) -> String.concat ":" ["preunbox"; bytes_to_hex k; bytes_to_hex p; bytes_to_hex n; bytes_to_hex b]
    | KBox (k, p, n, m) -> String.concat ":" ["box"; bytes_to_hex k; bytes_to_hex p; bytes_to_hex n; bytes_to_hex m]
    | KSign (k, m) -> String.concat ":" ["sign"; bytes_to_hex k; bytes_to_hex m]) evs)

let ints_to_str l = match l with [] -> "-" | _ -> String.concat "," (List.map string_of_int l)
let str_to_ints s = if s = "-" then [] else List.map int_of_string (String.split_on_char ',' s)

let ops : (string * (string list -> string)) list = [
  "ping", (fun _ -> "pong");
  (* ---- BaseX ---- *)
  "bx_encode", (function [e; h] -> bytes_to_hex (m_bx_encode (enc_of e) (hex_to_bytes h)) | _ -> failwith "args");
  "bx_decode", (function [e; h] ->
      let (out, err) = m_bx_decode (enc_of e) (hex_to_bytes h) in
      bytes_to_hex out ^ " " ^ bx_err_str err | _ -> failwith "args");
  "bx_lens", (function [e; n] ->
      let en = enc_of e and n = n_of_int (int_of_string n) in
      Printf.sprintf "%d %d %d" (int_of_n (m_bx_encoded_len en n)) (int_of_n (m_bx_decoded_len en n))
        (if m_bx_valid_len en n then 1 else 0) | _ -> failwith "args");
  "bx_obl", (function [e] -> string_of_int (int_of_n (m_bx_obl (enc_of e))) | _ -> failwith "args");
  (* ---- rand ---- *)
  "uint32n", (function [n; h] ->
      (match m_uint32n (n_of_string n) (hex_to_bytes h) with
       | None -> "err"
       | Some (k, rest) -> string_of_n k ^ " " ^ string_of_int (List.length rest)) | _ -> failwith "args");
  "shuffle", (function [n; h] ->
      let l = List.init (int_of_string n) n_of_int in
      (match m_shuffle_N l (hex_to_bytes h) with
       | None -> "err"
       | Some (l', rest) -> ints_to_str (List.map int_of_n l') ^ " " ^ string_of_int (List.length rest)) | _ -> failwith "args");
  "fisher_yates", (function [n; js] ->
      let l = List.init (int_of_string n) n_of_int in
      ints_to_str (List.map int_of_n (m_fisher_yates_N l (List.map nat_of_int (str_to_ints js)))) | _ -> failwith "args");
  (* ---- signing ---- *)
  "sign_attached", (function [v; sk; pieces; rng] ->
      (match m_sign_attached_stream cr (version_of v) (h2b sk) (blist_of pieces) (h2b rng) with
       | Ok (out, rest) -> "ok " ^ bytes_to_hex out ^ " " ^ string_of_int (List.length rest)
       | Err e -> "err " ^ err_str e) | _ -> failwith "args");
  "sign_detached", (function [v; sk; msg; rng] ->
      (match m_sign_detached cr (version_of v) (h2b sk) (h2b msg) (h2b rng) with
       | Ok (out, rest) -> "ok " ^ bytes_to_hex out ^ " " ^ string_of_int (List.length rest)
       | Err e -> "err " ^ err_str e) | _ -> failwith "args");
  "verify_stream", (function [vd; ring; input] ->
      (match m_verify_stream cr (validator_of vd) (blist_of ring) (h2b input) with
       | Ok (pk, out) -> "ok " ^ bytes_to_hex pk ^ " " ^ bytes_to_hex (List.concat out.so_chunks) ^ " " ^ err_str out.so_end
       | Err e -> "err " ^ err_str e) | _ -> failwith "args");
  "verify_detached", (function [vd; ring; msg; sg] ->
      (match m_verify_detached cr (validator_of vd) (blist_of ring) (h2b msg) (h2b sg) with
       | Ok pk -> "ok " ^ bytes_to_hex pk
       | Err e -> "err " ^ err_str e) | _ -> failwith "args");
  (* ---- encryption ---- *)
  "seal", (function [v; sender; rcpts; pieces; rng] ->
      (match m_seal_stream cr (version_of v) (sender_of sender) (rcpts_of rcpts) (blist_of pieces) (h2b rng) with
       | Ok (out, rest) -> "ok " ^ bytes_to_hex out ^ " " ^ string_of_int (List.length rest)
       | Err e -> "err " ^ err_str e) | _ -> failwith "args");
  "open", (function [vd; keys; senders; input] ->
      (match m_open_stream cr (validator_of vd) (ring_of keys senders) (h2b input) with
       | Ok (m, out) ->
         String.concat " " ["ok"; bytes_to_hex m.mki_sender; b01 m.mki_sender_anon; bytes_to_hex m.mki_receiver;
                            b01 m.mki_receiver_anon; blist_str m.mki_named; string_of_n m.mki_num_anon;
                            bytes_to_hex (List.concat out.so_chunks); err_str out.so_end]
       | Err e -> "err " ^ err_str e) | _ -> failwith "args");
  (* ---- signcryption ---- *)
  "sc_seal", (function [signer; boxes; syms; pieces; rng] ->
      (match m_signcrypt_seal_stream cr (sender_of signer) (blist_of boxes) (pairs_of syms) (blist_of pieces) (h2b rng) with
       | Ok (out, rest) -> "ok " ^ bytes_to_hex out ^ " " ^ string_of_int (List.length rest)
       | Err e -> "err " ^ err_str e) | _ -> failwith "args");
  "sc_open", (function [keys; signers; resolver; input] ->
      let rv = if resolver = "none" then None else Some (pairs_of resolver) in
      (match m_signcrypt_open_stream cr (ring_of keys "all") (blist_of signers) rv (h2b input) with
       | Ok (s, out) ->
         String.concat " " ["ok"; (match s with None -> "anon" | Some k -> bytes_to_hex k);
                            bytes_to_hex (List.concat out.so_chunks); err_str out.so_end]
       | Err e -> "err " ^ err_str e) | _ -> failwith "args");
  (* ---- armor / classify ---- *)
  "armor_seal", (function [payload; typ; brand] ->
      bytes_to_hex (m_armor62_seal (h2b payload) (z_of_int (int_of_string typ)) (h2b brand)) | _ -> failwith "args");
  "dearmor", (function [chk; input] ->
      let ck = if chk = "none" then None else Some (z_of_int (int_of_string chk)) in
      (match m_dearmor ck (h2b input) with
       | Ok d -> String.concat " " ["ok"; bytes_to_hex d.da_payload; bytes_to_hex d.da_brand; bytes_to_hex d.da_header; bytes_to_hex d.da_footer]
       | Err e -> "err " ^ err_str e) | _ -> failwith "args");
  "check_armor62", (function [hdr; ftr; typ] ->
      (match m_check_armor62 (h2b hdr) (h2b ftr) (z_of_int (int_of_string typ)) with
       | Ok b -> "ok " ^ bytes_to_hex b
       | Err e -> "err " ^ err_str e) | _ -> failwith "args");
  "make_frame", (function [which; typ; brand] ->
      bytes_to_hex (m_make_frame (if which = "h" then m_header_marker else m_footer_marker) (z_of_int (int_of_string typ)) (h2b brand)) | _ -> failwith "args");
  "binary_slice", (function [b] -> cls_str (m_binary_slice (h2b b)) | _ -> failwith "args");
  "armored_prefix", (function [b] ->
      let (brand, cl) = m_armored_prefix (h2b b) in bytes_to_hex brand ^ " " ^ cls_str cl | _ -> failwith "args");
  (* ---- stream state machines ---- *)
  "pr_sched", (function [segs; fin; sizes] ->
      let src = { src_segs = segs_of segs; src_final = err_of fin } in
      String.concat " " (List.map (function
        | PrData d -> "D:" ^ bytes_to_hex d
        | PrPunct d -> "P:" ^ bytes_to_hex d
        | PrErr (d, e) -> "E:" ^ bytes_to_hex d ^ ":" ^ err_str e)
        (m_pr_run (List.map nat_of_int (str_to_ints sizes)) (m_pr_init src))) | _ -> failwith "args");
  "bxd_sched", (function [e; segs; fin; sizes] ->
      let src = { src_segs = segs_of segs; src_final = err_of fin } in
      String.concat " " (List.map (function
        | BdData d -> "D:" ^ bytes_to_hex d
        | BdErr (d, x) -> "E:" ^ bytes_to_hex d ^ ":" ^ err_str x)
        (m_bxd_trace (enc_of e) (List.map nat_of_int (str_to_ints sizes)) src)) | _ -> failwith "args");
  "ad_sched", (function [chk; segs; fin; sizes] ->
      let src = { src_segs = segs_of segs; src_final = err_of fin } in
      let ck = if chk = "none" then None else Some (z_of_int (int_of_string chk)) in
      String.concat " " (List.map (function
        | BdData d -> "D:" ^ bytes_to_hex d
        | BdErr (d, x) -> "E:" ^ bytes_to_hex d ^ ":" ^ err_str x)
        (m_ad_trace ck (List.map nat_of_int (str_to_ints sizes)) src)) | _ -> failwith "args");
  "pr_until", (function [segs; fin; lim] ->
      let src = { src_segs = segs_of segs; src_final = err_of fin } in
      (match m_pr_until (nat_of_int 100000) (nat_of_int (int_of_string lim)) src with
       | Ok b -> "ok " ^ bytes_to_hex b
       | Err e -> "err " ^ err_str e) | _ -> failwith "args");
  "cr_sched", (function [chunks; sizes] ->
      let l = List.map (fun sg -> (sg.seg_data, sg.seg_err)) (segs_of chunks) in
      String.concat " " (List.map (fun (d, e) ->
          bytes_to_hex d ^ ":" ^ (match e with None -> "" | Some e -> err_str e))
        (m_cr_run (List.map nat_of_int (str_to_ints sizes)) { cr_prev = []; cr_err = None; cr_pending = l })) | _ -> failwith "args");
  "armor_stream", (function [hdr; ftr; pieces] -> bytes_to_hex (m_armor_stream (h2b hdr) (h2b ftr) (blist_of pieces)) | _ -> failwith "args");
  (* ---- key-object call traces ---- *)
  "open_events", (function [vd; keys; senders; input] ->
      events_str (m_open_events cr (validator_of vd) (ring_of keys senders) (h2b input)) | _ -> failwith "args");
  "sc_open_events", (function [keys; input] ->
      events_str (m_sc_open_events (ring_of keys "all") (h2b input)) | _ -> failwith "args");
  "sign_events", (function [mode; v; sk; pieces; rng] ->
      events_str (if mode = "att" then m_sign_attached_events cr (version_of v) (h2b sk) (blist_of pieces) (h2b rng)
                  else m_sign_detached_events cr (version_of v) (h2b sk) (List.concat (blist_of pieces)) (h2b rng)) | _ -> failwith "args");
]

let () =
  self_check ();
  try
    while true do
      let line = input_line stdin in
      match String.split_on_char ' ' (String.trim line) with
      | [] | [""] -> ()
      | op :: args ->
        (match List.assoc_opt op ops with
         | None -> print_string ("! unknown op " ^ op); print_newline ()
         | Some f ->
           (match f args with
            | r -> print_string ("= " ^ r); print_newline ()
            | exception Stack_overflow -> print_string "! stack overflow"; print_newline ()
            | exception e -> print_string ("! " ^ Printexc.to_string e); print_newline ()))
    done
  with End_of_file -> ()
