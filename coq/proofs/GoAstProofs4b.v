(* GoAstProofs4b.v — source ties for the per-packet glue of the three receivers and for the header
   reading of the signature receiver: verifyStream.getNextChunk / readHeader (verify_stream.go),
   decryptStream.getNextChunk (decrypt.go), signcryptOpenStream.getNextChunk (signcrypt_open.go), as
   translated on this run from /repo's Go syntax trees (gen/GoAst.v) and evaluated with the extended
   semantics of model/GoLang2.v (run_func2: outcome AND final environment).

   ENCODINGS.  The msgpackStream object is [g_mps_raw input s]: the input bytes not yet consumed and Go's
   packet counter s (uint64); [g_mps input n] is the stream about to read payload packet n of the model
   (Go's counter stands at (n+1) mod 2^64: the header was packet 0 of Go's counter, and the model's block
   number of Go's seqno s is [blocknum s] = uint64(s-1)).  So every lemma speaks about the input BYTES.
   The receiver objects are [g_vs] (mps, headerHash, header, publicKey), [g_ds] (the fields of
   GoAstProofs2.g_dec_state plus mps) and [g_sos] (the fields of GoAstProofs2.g_sc_state plus mps).
   Error values are the Go values the code builds ([g_err]: io.EOF, io.ErrUnexpectedEOF, "decode" for any
   go-codec error, ErrBadSignature, ErrBadTag{seqno}, ...).

   EXTERNS ([ext_chunk], [ext_vhdr]) interpret the calls by the MODEL's functions:
     msgpackStream.Read(&x)           mp_read on the remaining input, then the typed view of x's static type
                                      ([read_target]: the translator records that type in the SVar declaring x);
                                      returns (seqno, err) and then the advanced stream and the decoded value;
     readSignatureBlock / readEncryptionBlock (version, mps)
                                      mp_read + view_sig_block / view_enc_block (their five results, then the
                                      version unchanged and the advanced stream: the evaluator writes extra
                                      results back to the argument places in order); no value (= the callee
                                      panics) unless the major version is 1 or 2;
     verifyStream.processBlock        attached_sig_input + ed_verify          (go_verify_processBlock_outcome)
     decryptStream.processBlock       dec_block_step                          (go_decrypt_processBlock)
     signcryptOpenStream.processBlock sc_block_step                           (go_signcrypt_processBlock)
     checkDecodedChunkState           check_chunk_state at blocknum seqno     (go_checkDecodedChunkState, below)
     assertEndOfStream                assert_end_of_stream
     hashHeader, decodeFromBytes, SignatureHeader.validate
                                      sha512, mp_read + view_sig_header, validate_sig_header (go_SignatureHeader_validate)
   An extern has NO value where the model says Unmodelled (go-codec input outside the modelled subset, as
   ext_decode in GoAstProofs.v) or where the callee PANICS (the evaluator cannot propagate a callee's panic
   through an extern call): the evaluator is then stuck at that call, and the lemmas say exactly when.
   After a failed read the stream object is left as it was: no later code reads it (chunk_reader.go: after
   a non-nil error getNextChunk is never called again; newVerifyStream drops the stream on error).
   assertEndOfStream(v.mps) sits in expression position, so its consumption of the stream is not written
   back; its error is never nil, so again nothing reads the stream afterwards.

   TARGETS (all proved, all closed under the global context):
   - go_checkDecodedChunkState: checkDecodedChunkState(v, chunk, seqno, final) returns what
       check_chunk_state v |chunk| uint64(seqno-1) final says (nil / ErrUnexpectedEmptyBlock); stuck at the
       call of checkChunkState exactly when the model says Panic.  No hypothesis.
   - verify_loop_step, decrypt_loop_dec_step, sc_open_loop_step: one iteration of the model's verify_loop /
       decrypt_loop / sc_open_loop is [verify_step] / [dec_step] / [sc_step], then: error -> stop; final ->
       stop with assert_end_of_stream of the rest; else continue at n+1 on the rest.  No hypothesis.
   - go_verify_getNextChunk: verifyStream.getNextChunk on (header h, key pk, header hash hh, input, packet n)
       returns [chunk_spec] of verify_step: on Err e the pair (nil, Go value of e) (io.EOF already turned
       into io.ErrUnexpectedEOF); on a non-final packet (chunk, nil) AND the receiver object is the same
       object with the stream advanced to (rest, n+1); on a final packet (chunk, Go value of
       assert_end_of_stream rest).  Stuck only where the model says Unmodelled (verify_step_errors).
       Hypotheses: major version 1 or 2 (SignatureHeader.validate with a validator admitting only known
       majors has accepted it on this path; otherwise readSignatureBlock panics); n < 2^64 (Go's uint64 counter).
   - go_decrypt_getNextChunk: the same for decryptStream.getNextChunk and dec_step (the chunk is nil when
       empty, as processBlock returns it).  Stuck where the model says Unmodelled or Panic 1 (V1 packet whose
       emptiness disagrees with its final flag: checkChunkState panics; dec_step_errors).
       Hypotheses: major version 1 or 2 (processHeader has validated it); n < 2^64.
   - go_signcrypt_getNextChunk: the same for signcryptOpenStream.getNextChunk and sc_step, named or
       anonymous sender.  Stuck only where the model says Unmodelled (sc_step_errors).  Hypothesis: n < 2^64.
   - go_verify_readHeader: verifyStream.readHeader on a stream holding the input bytes returns what
       verify_read_header says: the error class (ErrFailedToReadHeaderBytes, decode error, ErrNotASaltpackMessage,
       ErrBadVersion, ErrWrongMessageType) or nil, and on nil the receiver object holds the remaining input
       with the counter advanced by one, the header hash sha512(header bytes) and the decoded header (version,
       type, sender public key, nonce); stuck at the call exactly when the model says Unmodelled.
       Hypothesis: msgType is MessageTypeAttachedSignature or MessageTypeDetachedSignature (the two constants
       the callers of newVerifyStream pass; otherwise validate returns ErrInvalidParameter, which the extern
       [g_sig_validate] reproduces but the model does not have).  Any start value s of the counter.
   - verify_step_errors, dec_step_errors, sc_step_errors: the errors the three steps can end with (so: the
       meaning of a stuck evaluator in the lemmas above).  Hypothesis: major version 1 or 2 (first two). *)
From Coq Require Import List String NArith ZArith Bool Lia.
From Coq.Strings Require Import Byte.
From SP Require Import Bytes Consts Params Msgpack Crypto Errors Nonce Packets Verify Decrypt Signcrypt
                       GoLang GoLang2 GoAst GoAstProofs GoAstProofs2 GoAstProofs3.
From SP Require Import GoAstRecv.
Import ListNotations.
Local Open Scope string_scope.

(* ---------- encodings shared by the four functions ---------- *)
Definition two64 : Z := 18446744073709551616.

(* the msgpackStream object: the input not yet consumed and Go's packet counter (uint64) *)
Definition g_mps_raw (input : bytes) (s : Z) : gval :=
  VStruct [("decoder", VBytes input); ("seqno", VInt s)].
(* the stream about to read payload packet number n (counted from 0; the header was packet 0 of
   Go's counter, so Go's counter stands at n+1, modulo 2^64 as the uint64 it is) *)
Definition g_mps (input : bytes) (n : N) : gval := g_mps_raw input ((Z.of_N n + 1) mod two64).

(* the model's block number of the packet Go numbers s: uint64(s - 1) *)
Definition blocknum (s : Z) : N := Z.to_N ((s - 1) mod two64).

(* error values: the class of the model as the Go value the code produces *)
Definition g_err (e : err) : option gval :=
  match e with
  | EOF => Some (VErr "io.EOF" [])
  | ErrUnexpectedEOF => Some (VErr "io.ErrUnexpectedEOF" [])
  | ErrDecode => Some (VErr "decode" [])
  | ErrBadSignature => Some (VErr "ErrBadSignature" [])
  | ErrUnexpectedEmptyBlock => Some (VErr "ErrUnexpectedEmptyBlock" [])
  | ErrTrailingGarbage => Some (VErr "ErrTrailingGarbage" [])
  | ErrPacketOverflow => Some (VErr "ErrPacketOverflow" [])
  | ErrBadTag s => Some (VErr "ErrBadTag" [VInt (Z.of_N s)])
  | ErrBadCiphertext s => Some (VErr "ErrBadCiphertext" [VInt (Z.of_N s)])
  | _ => None                     (* Unmodelled, Panic: no Go value *)
  end.

(* msgpackStream.Read(&x) at a Go type whose typed view is [view] *)
Inductive rd (A : Type) :=
| RdOk (a : A) (s : Z) (mps' : gval)      (* decoded value, the seqno returned, the advanced stream *)
| RdErr (e : gval)
| RdNone.                                   (* outside the modelled subset of go-codec *)
Arguments RdOk {A}. Arguments RdErr {A}. Arguments RdNone {A}.

Definition mps_read {A : Type} (view : mval -> dres A) (mps : gval) : rd A :=
  match mps with
  | VStruct [("decoder", VBytes input); ("seqno", VInt s)] =>
    match mp_read input with
    | POk m rest =>
      match view m with
      | DOk a => RdOk a s (g_mps_raw rest ((s + 1) mod two64))
      | DErr => RdErr (VErr "decode" [])
      | DUnmod => RdNone
      end
    | PShort => RdErr (VErr "io.EOF" [])
    | PBad => RdErr (VErr "decode" [])
    | PUnmod => RdNone
    end
  | _ => RdNone
  end.

Definition g_chunk_nil (b : bytes) : gval := match b with [] => VNil | _ => VBytes b end.

Definition field_vbytes (fs : list (string * gval)) (f : string) : option bytes :=
  match lookup f fs with Some (VBytes b) => Some b | _ => None end.

Definition as_dec_state (fs : list (string * gval)) : option dec_state :=
  match lookup "version" fs, field_vbytes fs "payloadKey", field_vbytes fs "macKey", lookup "position" fs, field_vbytes fs "headerHash" with
  | Some ver, Some pkey, Some mk, Some (VInt pos), Some hh =>
    match as_version ver with
    | Some v => if Z.ltb pos 0 then None else Some (mkDec v pkey mk (Z.to_N pos) hh)
    | None => None
    end
  | _, _, _, _, _ => None
  end.

(* the static type of the target of msgpackStream.Read in the function under study (the translator
   records it in the SVar that declares the target, not in the call) *)
Inductive read_target := TBytes | TSigncryptionBlock.

Definition g_sc_block (x : bytes * bool) : gval :=
  VStruct [("PayloadCiphertext", VBytes (fst x)); ("IsFinal", VBool (snd x))].

(* the major versions the block readers know (any other makes them panic) *)
Definition ver12 (v : version) : bool := ((vmaj v =? 1) || (vmaj v =? 2))%Z.

Section Recv.
Variable c : crypto.

Definition ret_err (e : err) (k : gval -> list gval) : option (list gval) :=
  match g_err e with Some ev => Some (k ev) | None => None end.

Definition ext_chunk (ty : read_target) : externs := fun fn args =>
  if String.eqb fn "readSignatureBlock" then
    match args with
    | [ver; mps] =>
      match as_version ver with
      | Some v =>
        if ver12 v then
          match mps_read (view_sig_block v) mps with
          | RdOk (sig, chunk, final) s mps' => Some [VBytes sig; VBytes chunk; VBool final; VInt s; VNil; ver; mps']
          | RdErr e => Some [VNil; VNil; VBool false; VInt 0; e; ver; mps]
          | RdNone => None
          end
        else None                                    (* the callee panics *)
      | None => None
      end
    | _ => None
    end
  else if String.eqb fn "readEncryptionBlock" then
    match args with
    | [ver; mps] =>
      match as_version ver with
      | Some v =>
        if ver12 v then
          match mps_read (view_enc_block v) mps with
          | RdOk (auths, ct, final) s mps' => Some [VBytes ct; VList (map VBytes auths); VBool final; VInt s; VNil; ver; mps']
          | RdErr e => Some [VNil; VNil; VBool false; VInt 0; e; ver; mps]
          | RdNone => None
          end
        else None
      | None => None
      end
    | _ => None
    end
  else if String.eqb fn "msgpackStream.Read" then
    match args with
    | [mps; cur] =>
      match ty with
      | TSigncryptionBlock =>
        match mps_read view_signcrypt_block mps with
        | RdOk x s mps' => Some [VInt s; VNil; mps'; g_sc_block x]
        | RdErr e => Some [VInt 0; e; mps; cur]
        | RdNone => None
        end
      | TBytes =>
        match mps_read as_bytes mps with
        | RdOk hb s mps' => Some [VInt s; VNil; mps'; VBytes hb]
        | RdErr e => Some [VInt 0; e; mps; cur]
        | RdNone => None
        end
      end
    | _ => None
    end
  else if String.eqb fn "verifyStream.processBlock" then
    match args with
    | [VStruct fs; VBytes sig; chunk; VBool final; VInt s] =>
      match field_vbytes fs "publicKey", lookup "header" fs, field_vbytes fs "headerHash", vbytes_of chunk with
      | Some pk, Some (VStruct hf), Some hh, Some ch =>
        match lookup "Version" hf with
        | Some ver =>
          match as_version ver with
          | Some v =>
            match attached_sig_input c v hh ch (blocknum s) final with
            | Some inp => if ed_verify c pk inp sig then Some [VNil] else Some [VErr "ErrBadSignature" []]
            | None => None
            end
          | None => None
          end
        | None => None
        end
      | _, _, _, _ => None
      end
    | _ => None
    end
  else if String.eqb fn "decryptStream.processBlock" then
    match args with
    | [VStruct fs; VBytes ct; VList la; VBool final; VInt s] =>
      match as_dec_state fs, as_bytes_list la with
      | Some st, Some auths =>
        match dec_block_step c st (blocknum s) auths ct final with
        | Ok chunk => Some [g_chunk_nil chunk; VNil]
        | Err e => ret_err e (fun ev => [VNil; ev])
        end
      | _, _ => None
      end
    | _ => None
    end
  else if String.eqb fn "signcryptOpenStream.processBlock" then
    match args with
    | [VStruct fs; VBytes ct; VBool final; VInt s] =>
      match field_vbytes fs "headerHash", field_vbytes fs "payloadKey", lookup "senderAnonymous" fs, lookup "signingPublicKey" fs with
      | Some hh, Some pkey, Some (VBool anon), Some spk =>
        match (if anon then Some None else match spk with VBytes pk => Some (Some pk) | _ => None end) with
        | Some signer =>
          match sc_block_step c pkey hh signer (blocknum s) ct final with
          | Ok chunk => Some [VBytes chunk; VNil]
          | Err e => ret_err e (fun ev => [VNil; ev])
          end
        | None => None
        end
      | _, _, _, _ => None
      end
    | _ => None
    end
  else if String.eqb fn "checkDecodedChunkState" then
    match args with
    | [ver; chunk; VInt s; VBool final] =>
      match as_version ver, vbytes_of chunk with
      | Some v, Some ch =>
        match check_chunk_state v (List.length ch) (blocknum s) final with
        | Ok _ => Some [VNil]
        | Err e => ret_err e (fun ev => [ev])      (* a panic of the callee: no value *)
        end
      | _, _ => None
      end
    | _ => None
    end
  else if String.eqb fn "assertEndOfStream" then
    match args with
    | [VStruct [("decoder", VBytes input); _]] => ret_err (assert_end_of_stream input) (fun ev => [ev])
    | _ => None
    end
  else if String.eqb fn "Version2" then Some [g_version v2]
  else None.

(* ---------- the receiver objects ---------- *)
Definition g_sig_header (h : header) : gval :=
  VStruct [("FormatName", VBytes (h_format h)); ("Version", g_version (h_version h)); ("Type", VInt (h_type h));
           ("SenderPublic", VBytes (h_a h)); ("Nonce", VBytes (h_b h))].

Definition g_vs (h : header) (pk hh : bytes) (mps : gval) : gval :=
  VStruct [("mps", mps); ("headerHash", VBytes hh); ("header", g_sig_header h); ("publicKey", VBytes pk)].

Definition g_ds (st : dec_state) (mps : gval) : gval :=
  VStruct [("version", g_version (ds_version st)); ("headerHash", VBytes (ds_hh st)); ("macKey", VBytes (ds_mac_key st));
           ("position", VInt (Z.of_N (ds_position st))); ("payloadKey", VBytes (ds_payload_key st)); ("mps", mps)].

Definition g_sos (pkey hh : bytes) (signer : option bytes) (mps : gval) : gval :=
  VStruct [("headerHash", VBytes hh); ("payloadKey", VBytes pkey);
           ("senderAnonymous", VBool (match signer with None => true | Some _ => false end));
           ("signingPublicKey", match signer with Some pk => VBytes pk | None => VNil end);
           ("mps", mps)].

(* ---------- one iteration of the three loops, in the model ---------- *)
Definition verify_step (v : version) (pk hh : bytes) (n : N) (input : bytes) : result (bytes * bool * bytes) :=
  match read_packet input with
  | Err e => Err e
  | Ok (m, rest) =>
    if negb ((vmaj v =? 1)%Z || (vmaj v =? 2)%Z) then Err (Panic 5)
    else
    match of_dres (view_sig_block v m) with
    | Err e => Err e
    | Ok (sig, chunk, final) =>
      match attached_sig_input c v hh chunk n final with
      | None => Err (Panic 3)
      | Some inp =>
        if negb (ed_verify c pk inp sig) then Err ErrBadSignature
        else match check_chunk_state v (List.length chunk) n final with
             | Err e => Err e
             | Ok _ => Ok (chunk, final, rest)
             end
      end
    end
  end.

Definition dec_step (st : dec_state) (n : N) (input : bytes) : result (bytes * bool * bytes) :=
  match read_packet input with
  | Err e => Err e
  | Ok (m, rest) =>
    let v := ds_version st in
    if negb ((vmaj v =? 1)%Z || (vmaj v =? 2)%Z) then Err (Panic 9)
    else match of_dres (view_enc_block v m) with
         | Err e => Err e
         | Ok (auths, ct, final) =>
           match dec_block_step c st n auths ct final with
           | Err e => Err e
           | Ok chunk =>
             match check_chunk_state v (List.length chunk) n final with
             | Err e => Err e
             | Ok _ => Ok (chunk, final, rest)
             end
           end
         end
  end.

Definition sc_step (pkey : bytes) (signer : option bytes) (hh : bytes) (n : N) (input : bytes) : result (bytes * bool * bytes) :=
  match read_packet input with
  | Err e => Err e
  | Ok (m, rest) =>
    match of_dres (view_signcrypt_block m) with
    | Err e => Err e
    | Ok (ct, final) =>
      match sc_block_step c pkey hh signer n ct final with
      | Err e => Err e
      | Ok chunk =>
        match check_chunk_state v2 (List.length chunk) n final with
        | Err e => Err e
        | Ok _ => Ok (chunk, final, rest)
        end
      end
    end
  end.

(* what getNextChunk returns and leaves behind, given the model's step *)
Definition chunk_spec (recv : string) (enc : bytes -> gval) (after : bytes -> gval)
           (step : result (bytes * bool * bytes)) (r : outcome * env) : Prop :=
  match step with
  | Ok (chunk, false, rest) =>
    fst r = ORet [enc chunk; VNil] /\ lookup recv (snd r) = Some (after rest)
  | Ok (chunk, true, rest) =>
    match g_err (assert_end_of_stream rest) with
    | Some ev => fst r = ORet [enc chunk; ev]
    | None => fst r = OStuck "return"
    end
  | Err e =>
    match g_err e with
    | Some ev => fst r = ORet [VNil; ev]
    | None => fst r = OStuck "call"
    end
  end.

(* ---------- readHeader of the signature receiver ---------- *)
Definition as_sig_header (v : gval) : option header :=
  match v with
  | VStruct [("FormatName", VBytes fmt); ("Version", ver); ("Type", VInt t); ("SenderPublic", VBytes a); ("Nonce", VBytes b)] =>
    match as_version ver with Some v => Some (mkHeader fmt v t a b []) | None => None end
  | _ => None
  end.

(* the message types SignatureHeader.validate admits as its parameter *)
Definition sig_type_ok (typ : Z) : bool := ((typ =? mt_attached) || (typ =? mt_detached))%Z.

(* SignatureHeader.validate(versionValidator, msgType): the Go value it returns *)
Definition g_sig_validate (vd : validator) (typ : Z) (h : header) : gval :=
  if negb (bytes_eqb (h_format h) format_name) then VErr "ErrNotASaltpackMessage" []
  else if negb (validate_version vd (h_version h)) then VErr "ErrBadVersion" [g_version (h_version h)]
  else if negb (h_type h =? typ)%Z then VErr "ErrWrongMessageType" [VInt typ; VInt (h_type h)]
  else if negb (sig_type_ok typ) then VErr "ErrInvalidParameter" []
  else VNil.

Definition ext_vhdr (vd : validator) : externs := fun fn args =>
  if String.eqb fn "hashHeader" then
    match args with
    | [hb] => match vbytes_of hb with Some b => Some [VBytes (sha512 c b)] | None => None end
    | _ => None
    end
  else if String.eqb fn "decodeFromBytes" then          (* at the type SignatureHeader *)
    match args with
    | [cur; hb] =>
      match vbytes_of hb with
      | Some b =>
        match mp_read b with
        | POk m _ =>
          match view_sig_header m with
          | DOk h => Some [VNil; g_sig_header h]
          | DErr => Some [VErr "decode" []; cur]
          | DUnmod => None
          end
        | PShort | PBad => Some [VErr "decode" []; cur]
        | PUnmod => None
        end
      | None => None
      end
    | _ => None
    end
  else if String.eqb fn "SignatureHeader.validate" then
    match args with
    | [hdr; _; VInt typ] =>
      match as_sig_header hdr with
      | Some h => Some [g_sig_validate vd typ h]
      | None => None
      end
    | _ => None
    end
  else ext_chunk TBytes fn args.

(* the error classes readHeader can return *)
Definition hdr_err_class (v : gval) : option err :=
  match v with
  | VErr n _ =>
    if String.eqb n "ErrFailedToReadHeaderBytes" then Some ErrFailedToReadHeaderBytes
    else if String.eqb n "decode" then Some ErrDecode
    else if String.eqb n "ErrNotASaltpackMessage" then Some ErrNotASaltpackMessage
    else if String.eqb n "ErrBadVersion" then Some ErrBadVersion
    else if String.eqb n "ErrWrongMessageType" then Some ErrWrongMessageType
    else None
  | _ => None
  end.

(* the verifyStream object readHeader leaves behind *)
Definition g_vs_after_header (h : header) (hh : bytes) (mps : gval) : gval :=
  VStruct [("mps", mps); ("headerHash", VBytes hh); ("header", g_sig_header h)].

End Recv.

(* ---------- stepping tactics (copies of those of GoAstProofs3.v, which are local to its section) ---------- *)
Ltac use_head_hyp4 :=
  lazymatch goal with
  | |- ?G =>
    let L := lazymatch G with (?L = _ -> _) => L | ?L = _ => L | _ => G end in
    let h := head_scrut3 L in
    match goal with H : h = _ |- _ => rewrite H end
  end; cbv beta iota.
Ltac ev_in4 h :=
  eval cbv -[Z.eqb Z.ltb Z.leb Z.add Z.sub Z.mul Z.modulo Z.rem Z.quot Z.shiftr Z.shiftl Z.opp
             Z.land Z.lor Z.lxor Z.lnot Z.of_nat Z.of_N Z.to_nat Z.to_N List.length nth_error
             firstn skipn bytes_eqb' bytes_eqb Byte.to_N Byte.of_N N.mul N.ltb N.eqb N.add N.leb b2n n2b Nat.eqb
             N.div N.modulo nth map app
             sha512 hmac512 sb_open sb_seal dh_shared box_seal box_open ed_verify
             two64 blocknum ver12 sig_type_ok mp_read view_sig_block view_enc_block view_signcrypt_block view_sig_header as_bytes
             attached_sig_input check_chunk_state dec_block_step sc_block_step assert_end_of_stream
             validate_version format_name as_bytes_list g_err
             range_loop2 exec2] in h.
Ltac ev_term4 X h :=
  lazymatch h with
  | X ?fn ?args => let h' := ev_in4 h in progress (change h with h'); cbv beta iota
  | _ =>
    let p := eval pattern X in h in
    lazymatch p with
    | ?g _ => let g' := ev_in4 g in
              let h' := eval cbv beta in (g' X) in
              progress (change h with h'); cbv beta iota
    end
  end.
Ltac norm_env4 h x f e ss k :=
  let e' := ev_in4 e in
  tryif constr_eq e e' then k e
  else (change h with (exec2 x (S f) e' ss); k e').
Ltac fix_lvars4 :=
  repeat match goal with
  | |- context [lvars ?l] => let r := eval cbv [lvars map] in (lvars l) in change (lvars l) with r
  end.
Ltac step4 X :=
  lazymatch goal with
  | |- ?G =>
    let L := lazymatch G with (?L = _ -> _) => L | ?L = _ => L | _ => G end in
    let h := head_scrut3 L in
    lazymatch h with
    | exec2 ?x (S ?f) ?e ?ss =>
      norm_env4 h x f e ss ltac:(fun e' => rewrite (exec2_S x f e' ss); cbv beta iota zeta); fix_lvars4; cbv beta iota
    | _ => ev_term4 X h
    end
  end.
Ltac extra4 := first [ match goal with H : blocknum _ = _ |- _ => rewrite H end | rewrite N2Z.id ].
Ltac steps4 X := repeat first [step4 X | use_head_hyp4 | lits1 | lits2 | lits3 | extra4].
Ltac run_hyp4 X HR := revert HR; cbv beta iota; steps4 X; intros HR.

(* ---------- arithmetic of Go's packet counter ---------- *)
Lemma blocknum_g (n : N) : (n < 18446744073709551616)%N -> blocknum ((Z.of_N n + 1) mod two64) = n.
Proof.
  intros H. unfold blocknum, two64. rewrite Zminus_mod_idemp_l.
  replace (Z.of_N n + 1 - 1)%Z with (Z.of_N n) by lia. rewrite Z.mod_small by lia. apply N2Z.id.
Qed.
Lemma seqno_next (n : N) : (((Z.of_N n + 1) mod two64 + 1) mod two64 = (Z.of_N (n + 1) + 1) mod two64)%Z.
Proof. unfold two64. rewrite Zplus_mod_idemp_l. f_equal. lia. Qed.

Lemma g_err_verr (e : err) (ev : gval) : g_err e = Some ev -> exists nm a, ev = VErr nm a.
Proof. destruct e; cbn [g_err]; intros H; try discriminate; injection H as <-; eexists; eexists; reflexivity. Qed.

(* ---------- checkDecodedChunkState itself (the extern of ext_chunk is this lemma's right-hand side) ---------- *)
Definition ext_ccs : externs := fun fn args =>
  if String.eqb fn "checkChunkState" then
    match args with
    | [ver; VInt l; VInt i; VBool f] =>
      match as_version ver with
      | Some v =>
        if Z.ltb l 0 then None
        else match check_chunk_state v (Z.to_nat l) (Z.to_N i) f with
             | Ok _ => Some [VNil]
             | Err e => match g_err e with Some ev => Some [ev] | None => None end    (* a panic: no value *)
             end
      | None => None
      end
    | _ => None
    end
  else None.

(* (TARGET) *)
Lemma go_checkDecodedChunkState (v : version) (chunk : bytes) (s : Z) (final : bool) :
  run_func ext_ccs f_saltpack_checkDecodedChunkState [g_version v; VBytes chunk; VInt s; VBool final]
  = match check_chunk_state v (List.length chunk) (blocknum s) final with
    | Ok _ => ORet [VNil]
    | Err e => match g_err e with Some ev => ORet [ev] | None => OStuck "return" end
    end.
Proof.
  destruct v as [ma mi].
  cbv -[check_chunk_state Z.modulo Z.sub Z.of_nat Z.to_nat Z.to_N Z.ltb List.length g_err].
  replace (Z.of_nat (List.length chunk) <? 0)%Z with false by lia.
  rewrite Nat2Z.id, Z.mod_mod by lia.
  destruct (check_chunk_state _ _ _ _) as [[]|e]; [reflexivity|].
  destruct (g_err e); reflexivity.
Qed.

Section RecvProofs.
Variable c : crypto.

(* (TARGET) the model's loop is its step, then the end-of-stream check or the next iteration *)
Lemma verify_loop_step (fuel : nat) (v : version) (pk hh : bytes) (n : N) (input : bytes) (acc : list bytes) :
  verify_loop c (S fuel) v pk hh n input acc =
  match verify_step c v pk hh n input with
  | Err e => mkOut (rev_append acc []) e
  | Ok (chunk, final, rest) =>
    if final then mkOut (rev_append (chunk :: acc) []) (assert_end_of_stream rest)
    else verify_loop c fuel v pk hh (n + 1) rest (chunk :: acc)
  end.
Proof.
  cbn [verify_loop]. unfold verify_step.
  destruct (read_packet input) as [[m rest]|e]; [|reflexivity].
  destruct (negb _); [reflexivity|].
  destruct (of_dres _) as [[[sig chunk] final]|e]; [|reflexivity].
  destruct (attached_sig_input _ _ _ _ _ _); [|reflexivity].
  destruct (negb (ed_verify _ _ _ _)); [reflexivity|].
  destruct (check_chunk_state _ _ _ _); reflexivity.
Qed.

(* (TARGET) *)
Lemma go_verify_getNextChunk (h : header) (pk hh : bytes) (n : N) (input : bytes) :
  (vmaj (h_version h) = 1 \/ vmaj (h_version h) = 2)%Z ->
  (n < 18446744073709551616)%N ->
  chunk_spec "v" VBytes (fun rest => g_vs h pk hh (g_mps rest (n + 1)))
             (verify_step c (h_version h) pk hh n input)
             (run_func2 (ext_chunk c TBytes) f_saltpack_verifyStream_getNextChunk [g_vs h pk hh (g_mps input n)]).
Proof.
  intros Hv Hn.
  pose proof (blocknum_g n Hn) as Hbn. pose proof (seqno_next n) as Hsn.
  unfold run_func2. cbn [f_params f_results f_saltpack_verifyStream_getNextChunk bind_params map app].
  remember (exec2 (ext_chunk c TBytes) 300 [("v", g_vs h pk hh (g_mps input n))]
                  (f_body f_saltpack_verifyStream_getNextChunk)) as R eqn:HR.
  symmetry in HR.
  destruct h as [fmt [ma mi] ty ea eb rcvs]. cbn [h_version vmaj] in *.
  cbv beta iota zeta delta [f_body f_saltpack_verifyStream_getNextChunk] in HR.
  unfold g_vs, g_sig_header, g_mps, g_mps_raw in HR. cbn [h_format h_version h_type h_a h_b h_rcvs] in HR.
  unfold verify_step, read_packet. cbn [vmaj].
  assert (Hvb : ((ma =? 1) || (ma =? 2))%Z = true) by (destruct Hv; subst ma; reflexivity).
  rewrite Hvb. cbn [negb]. change ((ma =? 1) || (ma =? 2))%Z with (ver12 (mkV ma mi)) in Hvb.
  destruct (mp_read input) as [m rest| | |] eqn:Hmp.
  2:{ run_hyp4 (ext_chunk c TBytes) HR; subst R; reflexivity. }
  2:{ run_hyp4 (ext_chunk c TBytes) HR; subst R; reflexivity. }
  2:{ run_hyp4 (ext_chunk c TBytes) HR; subst R; reflexivity. }
  destruct (view_sig_block (mkV ma mi) m) as [[[sig chunk] final]| |] eqn:Hview; cbn [of_dres].
  2:{ run_hyp4 (ext_chunk c TBytes) HR; subst R; reflexivity. }
  2:{ run_hyp4 (ext_chunk c TBytes) HR; subst R; reflexivity. }
  destruct (attached_sig_input c (mkV ma mi) hh chunk n final) as [inp|] eqn:Ea;
    [|exfalso; unfold attached_sig_input in Ea; cbn [vmaj] in Ea; destruct Hv; subst ma; discriminate].
  destruct (ed_verify c pk inp sig) eqn:Ev; cbn [negb].
  2:{ run_hyp4 (ext_chunk c TBytes) HR; subst R; reflexivity. }
  destruct (check_chunk_state (mkV ma mi) (List.length chunk) n final) as [[]|e] eqn:Hc.
  2:{ unfold chunk_spec; destruct (g_err e) as [ev|] eqn:Hge;
      [destruct (g_err_verr _ _ Hge) as (nm & ar & ->)|];
      run_hyp4 (ext_chunk c TBytes) HR; subst R; reflexivity. }
  destruct final.
  - unfold chunk_spec; destruct (g_err (assert_end_of_stream rest)) as [ev|] eqn:Hge;
      [destruct (g_err_verr _ _ Hge) as (nm & ar & ->)|];
      run_hyp4 (ext_chunk c TBytes) HR; subst R; reflexivity.
  - run_hyp4 (ext_chunk c TBytes) HR; subst R; (split; [reflexivity|]);
      cbn [snd]; unfold g_vs, g_sig_header, g_mps, g_mps_raw; rewrite <- Hsn; reflexivity.
Qed.

(* (TARGET) *)
Lemma go_decrypt_getNextChunk (st : dec_state) (n : N) (input : bytes) :
  (vmaj (ds_version st) = 1 \/ vmaj (ds_version st) = 2)%Z ->
  (n < 18446744073709551616)%N ->
  chunk_spec "ds" g_chunk_nil (fun rest => g_ds st (g_mps rest (n + 1)))
             (dec_step c st n input)
             (run_func2 (ext_chunk c TBytes) f_saltpack_decryptStream_getNextChunk [g_ds st (g_mps input n)]).
Proof.
  intros Hv Hn.
  pose proof (blocknum_g n Hn) as Hbn. pose proof (seqno_next n) as Hsn.
  unfold run_func2. cbn [f_params f_results f_saltpack_decryptStream_getNextChunk bind_params map app].
  remember (exec2 (ext_chunk c TBytes) 300 [("ds", g_ds st (g_mps input n))]
                  (f_body f_saltpack_decryptStream_getNextChunk)) as R eqn:HR.
  symmetry in HR.
  destruct st as [[ma mi] pkey mkey pos hh0]. cbn [ds_version vmaj] in *.
  cbv beta iota zeta delta [f_body f_saltpack_decryptStream_getNextChunk] in HR.
  unfold g_ds, g_mps, g_mps_raw in HR. cbn [ds_version ds_payload_key ds_mac_key ds_position ds_hh] in HR.
  unfold dec_step, read_packet. cbn [ds_version vmaj].
  assert (Hvb : ((ma =? 1) || (ma =? 2))%Z = true) by (destruct Hv; subst ma; reflexivity).
  rewrite Hvb. cbn [negb]. change ((ma =? 1) || (ma =? 2))%Z with (ver12 (mkV ma mi)) in Hvb.
  assert (Hpos0 : (Z.of_N pos <? 0)%Z = false) by lia.
  destruct (mp_read input) as [m rest| | |] eqn:Hmp.
  2:{ run_hyp4 (ext_chunk c TBytes) HR; subst R; reflexivity. }
  2:{ run_hyp4 (ext_chunk c TBytes) HR; subst R; reflexivity. }
  2:{ run_hyp4 (ext_chunk c TBytes) HR; subst R; reflexivity. }
  destruct (view_enc_block (mkV ma mi) m) as [[[auths ct] final]| |] eqn:Hview; cbn [of_dres].
  2:{ run_hyp4 (ext_chunk c TBytes) HR; subst R; reflexivity. }
  2:{ run_hyp4 (ext_chunk c TBytes) HR; subst R; reflexivity. }
  pose proof (as_bytes_list_map auths) as Habl.
  destruct (dec_block_step c (mkDec (mkV ma mi) pkey mkey pos hh0) n auths ct final) as [chunk|e] eqn:Hd.
  2:{ unfold chunk_spec; destruct (g_err e) as [ev|] eqn:Hge;
      [destruct (g_err_verr _ _ Hge) as (nm & ar & ->)|];
      run_hyp4 (ext_chunk c TBytes) HR; subst R; reflexivity. }
  destruct (check_chunk_state (mkV ma mi) (List.length chunk) n final) as [[]|e] eqn:Hc.
  2:{ unfold chunk_spec; destruct (g_err e) as [ev|] eqn:Hge;
      [destruct (g_err_verr _ _ Hge) as (nm & ar & ->)|];
      destruct chunk as [|x chunk]; try (change (List.length (@nil byte)) with O in Hc); run_hyp4 (ext_chunk c TBytes) HR; subst R; reflexivity. }
  destruct final.
  - unfold chunk_spec; destruct (g_err (assert_end_of_stream rest)) as [ev|] eqn:Hge;
      [destruct (g_err_verr _ _ Hge) as (nm & ar & ->)|];
      destruct chunk as [|x chunk]; try (change (List.length (@nil byte)) with O in Hc); run_hyp4 (ext_chunk c TBytes) HR; subst R; reflexivity.
  - destruct chunk as [|x chunk]; try (change (List.length (@nil byte)) with O in Hc); run_hyp4 (ext_chunk c TBytes) HR; subst R; (split; [reflexivity|]);
      cbn [snd]; unfold g_ds, g_mps, g_mps_raw; rewrite <- Hsn; reflexivity.
Qed.

(* (TARGET) *)
Lemma decrypt_loop_dec_step (fuel : nat) (st : dec_state) (n : N) (input : bytes) (acc : list bytes) :
  decrypt_loop c (S fuel) st n input acc =
  match dec_step c st n input with
  | Err e => mkOut (rev_append acc []) e
  | Ok (chunk, final, rest) =>
    if final then mkOut (rev_append (chunk :: acc) []) (assert_end_of_stream rest)
    else decrypt_loop c fuel st (n + 1) rest (chunk :: acc)
  end.
Proof.
  rewrite decrypt_loop_step. unfold dec_step.
  destruct (read_packet input) as [[m rest]|e]; [|reflexivity].
  cbv zeta. destruct (negb _); [reflexivity|].
  destruct (of_dres _) as [[[auths ct] final]|e]; [|reflexivity].
  destruct (dec_block_step _ _ _ _ _ _); [|reflexivity].
  destruct (check_chunk_state _ _ _ _); reflexivity.
Qed.

(* (TARGET) *)
Lemma sc_open_loop_step (fuel : nat) (pkey : bytes) (signer : option bytes) (hh : bytes) (n : N) (input : bytes) (acc : list bytes) :
  sc_open_loop c (S fuel) pkey signer hh n input acc =
  match sc_step c pkey signer hh n input with
  | Err e => mkOut (rev_append acc []) e
  | Ok (chunk, final, rest) =>
    if final then mkOut (rev_append (chunk :: acc) []) (assert_end_of_stream rest)
    else sc_open_loop c fuel pkey signer hh (n + 1) rest (chunk :: acc)
  end.
Proof.
  cbn [sc_open_loop]. unfold sc_step, sc_block_step.
  destruct (read_packet input) as [[m rest]|e]; [|reflexivity].
  destruct (of_dres _) as [[ct final]|e]; [|reflexivity].
  destruct (negb (block_number_ok n)); [reflexivity|].
  cbv zeta.
  destruct (sb_open _ _ _ _) as [att|]; [|reflexivity].
  destruct (Nat.ltb _ _); [reflexivity|].
  destruct signer as [pk|].
  - destruct (negb (ed_verify _ _ _ _)); [reflexivity|].
    destruct (check_chunk_state _ _ _ _); reflexivity.
  - cbn [negb]. destruct (check_chunk_state _ _ _ _); reflexivity.
Qed.

(* (TARGET) *)
Lemma go_signcrypt_getNextChunk (pkey hh : bytes) (signer : option bytes) (n : N) (input : bytes) :
  (n < 18446744073709551616)%N ->
  chunk_spec "sos" VBytes (fun rest => g_sos pkey hh signer (g_mps rest (n + 1)))
             (sc_step c pkey signer hh n input)
             (run_func2 (ext_chunk c TSigncryptionBlock) f_saltpack_signcryptOpenStream_getNextChunk
                        [g_sos pkey hh signer (g_mps input n)]).
Proof.
  intros Hn.
  pose proof (blocknum_g n Hn) as Hbn. pose proof (seqno_next n) as Hsn.
  unfold run_func2. cbn [f_params f_results f_saltpack_signcryptOpenStream_getNextChunk bind_params map app].
  remember (exec2 (ext_chunk c TSigncryptionBlock) 300 [("sos", g_sos pkey hh signer (g_mps input n))]
                  (f_body f_saltpack_signcryptOpenStream_getNextChunk)) as R eqn:HR.
  symmetry in HR.
  cbv beta iota zeta delta [f_body f_saltpack_signcryptOpenStream_getNextChunk] in HR.
  unfold g_sos, g_mps, g_mps_raw in HR.
  unfold sc_step, read_packet. unfold bytes in *.
  destruct (mp_read input) as [m rest| | |] eqn:Hmp.
  2:{ destruct signer; run_hyp4 (ext_chunk c TSigncryptionBlock) HR; subst R; reflexivity. }
  2:{ destruct signer; run_hyp4 (ext_chunk c TSigncryptionBlock) HR; subst R; reflexivity. }
  2:{ destruct signer; run_hyp4 (ext_chunk c TSigncryptionBlock) HR; subst R; reflexivity. }
  destruct (view_signcrypt_block m) as [[ct final]| |] eqn:Hview; cbn [of_dres].
  2:{ destruct signer; run_hyp4 (ext_chunk c TSigncryptionBlock) HR; subst R; reflexivity. }
  2:{ destruct signer; run_hyp4 (ext_chunk c TSigncryptionBlock) HR; subst R; reflexivity. }
  destruct (sc_block_step c pkey hh signer n ct final) as [chunk|e] eqn:Hd.
  2:{ unfold chunk_spec; destruct (g_err e) as [ev|] eqn:Hge;
      [destruct (g_err_verr _ _ Hge) as (nm & ar & ->)|];
      destruct signer; run_hyp4 (ext_chunk c TSigncryptionBlock) HR; subst R; reflexivity. }
  change v2 with (mkV (Z.of_N 2) (Z.of_N 0)).
  destruct (check_chunk_state (mkV (Z.of_N 2) (Z.of_N 0)) (List.length chunk) n final) as [[]|e] eqn:Hc.
  2:{ unfold chunk_spec; destruct (g_err e) as [ev|] eqn:Hge;
      [destruct (g_err_verr _ _ Hge) as (nm & ar & ->)|];
      destruct signer; run_hyp4 (ext_chunk c TSigncryptionBlock) HR; subst R; reflexivity. }
  destruct final.
  - unfold chunk_spec; destruct (g_err (assert_end_of_stream rest)) as [ev|] eqn:Hge;
      [destruct (g_err_verr _ _ Hge) as (nm & ar & ->)|];
      destruct signer; run_hyp4 (ext_chunk c TSigncryptionBlock) HR; subst R; reflexivity.
  - destruct signer; run_hyp4 (ext_chunk c TSigncryptionBlock) HR; subst R; (split; [reflexivity|]);
      cbn [snd]; unfold g_sos, g_mps, g_mps_raw; rewrite <- Hsn; reflexivity.
Qed.

(* (TARGET) *)
Lemma go_verify_readHeader (vd : validator) (typ : Z) (input : bytes) (s : Z) :
  typ = mt_attached \/ typ = mt_detached ->
  let r := run_func2 (ext_vhdr c vd) f_saltpack_verifyStream_readHeader
                     [VStruct [("mps", g_mps_raw input s)]; VNil; VInt typ] in
  match verify_read_header c vd typ input with
  | Ok (h, hh, rest) =>
    fst r = ORet [VNil] /\
    lookup "v" (snd r) = Some (g_vs_after_header h hh (g_mps_raw rest ((s + 1) mod two64)))
  | Err Unmodelled => fst r = OStuck "call"
  | Err e => exists ev, fst r = ORet [ev] /\ hdr_err_class ev = Some e
  end.
Proof.
  intros Ht. cbv zeta.
  assert (Hok : sig_type_ok typ = true) by (destruct Ht; subst typ; reflexivity).
  unfold run_func2. cbn [f_params f_results f_saltpack_verifyStream_readHeader bind_params map app].
  remember (exec2 (ext_vhdr c vd) 300 [("v", VStruct [("mps", g_mps_raw input s)]); ("versionValidator", VNil); ("msgType", VInt typ)]
                  (f_body f_saltpack_verifyStream_readHeader)) as R eqn:HR.
  symmetry in HR.
  cbv beta iota zeta delta [f_body f_saltpack_verifyStream_readHeader] in HR.
  unfold g_mps_raw in HR.
  unfold verify_read_header, read_header_bytes.
  destruct (mp_read input) as [m rest| | |] eqn:Hmp; cbn [bind].
  2:{ run_hyp4 (ext_vhdr c vd) HR; subst R; eexists; split; reflexivity. }
  2:{ run_hyp4 (ext_vhdr c vd) HR; subst R; eexists; split; reflexivity. }
  2:{ run_hyp4 (ext_vhdr c vd) HR; subst R; reflexivity. }
  destruct (as_bytes m) as [hb| |] eqn:Hab; cbn [bind fst snd].
  2:{ run_hyp4 (ext_vhdr c vd) HR; subst R; eexists; split; reflexivity. }
  2:{ run_hyp4 (ext_vhdr c vd) HR; subst R; reflexivity. }
  unfold decode_header.
  destruct (mp_read hb) as [m2 rest2| | |] eqn:Hmp2; cbn [bind].
  2:{ run_hyp4 (ext_vhdr c vd) HR; subst R; eexists; split; reflexivity. }
  2:{ run_hyp4 (ext_vhdr c vd) HR; subst R; eexists; split; reflexivity. }
  2:{ run_hyp4 (ext_vhdr c vd) HR; subst R; reflexivity. }
  destruct (view_sig_header m2) as [h| |] eqn:Hvh; cbn [of_dres bind].
  2:{ run_hyp4 (ext_vhdr c vd) HR; subst R; eexists; split; reflexivity. }
  2:{ run_hyp4 (ext_vhdr c vd) HR; subst R; reflexivity. }
  destruct h as [fmt [ma mi] ty ea eb rcvs].
  unfold validate_sig_header. cbn [h_format h_version h_type].
  destruct (bytes_eqb fmt format_name) eqn:Efmt; cbn [negb bind].
  2:{ run_hyp4 (ext_vhdr c vd) HR; subst R; eexists; split; reflexivity. }
  destruct (validate_version vd (mkV ma mi)) eqn:Evd; cbn [negb bind].
  2:{ run_hyp4 (ext_vhdr c vd) HR; subst R; eexists; split; reflexivity. }
  destruct (ty =? typ)%Z eqn:Ety; cbn [negb bind].
  2:{ run_hyp4 (ext_vhdr c vd) HR; subst R; eexists; split; reflexivity. }
  run_hyp4 (ext_vhdr c vd) HR; subst R. split; reflexivity.
Qed.

(* ---------- which errors the steps can end with (so: what a stuck evaluator means) ---------- *)
Lemma read_packet_err (input : bytes) (e : err) :
  read_packet input = Err e -> e = ErrUnexpectedEOF \/ e = ErrDecode \/ e = Unmodelled.
Proof. unfold read_packet. destruct (mp_read input); intros H; inversion H; auto. Qed.
Lemma of_dres_err {A} (d : dres A) (e : err) : of_dres d = Err e -> e = ErrDecode \/ e = Unmodelled.
Proof. destruct d; intros H; inversion H; auto. Qed.

Lemma view_sig_block_v1_final (mi : Z) (m : mval) (sig chunk : bytes) (final : bool) :
  view_sig_block (mkV 1 mi) m = DOk (sig, chunk, final) -> final = match chunk with [] => true | _ => false end.
Proof.
  unfold view_sig_block. cbn [vmaj]. change (1 =? 1)%Z with true. cbv iota.
  destruct (as_array m) as [l| |]; cbn [dbind]; try discriminate.
  destruct (as_bytes (field l 0)); cbn [dbind]; try discriminate.
  destruct (as_bytes (field l 1)); cbn [dbind]; try discriminate.
  intros H. inversion H. reflexivity.
Qed.

(* (TARGET) under the version hypothesis the signature step never panics: a stuck evaluator
   in go_verify_getNextChunk means input outside the modelled subset of go-codec *)
Lemma verify_step_errors (v : version) (pk hh : bytes) (n : N) (input : bytes) (e : err) :
  (vmaj v = 1 \/ vmaj v = 2)%Z ->
  verify_step c v pk hh n input = Err e ->
  e = ErrUnexpectedEOF \/ e = ErrDecode \/ e = Unmodelled \/ e = ErrBadSignature \/ e = ErrUnexpectedEmptyBlock.
Proof.
  intros Hv. unfold verify_step.
  destruct (read_packet input) as [[m rest]|e0] eqn:Hr.
  2:{ intros H; inversion H; subst. destruct (read_packet_err _ _ Hr) as [?|[?|?]]; auto. }
  destruct v as [ma mi]. cbn [vmaj] in *.
  assert (Hvb : ((ma =? 1) || (ma =? 2))%Z = true) by (destruct Hv; subst ma; reflexivity).
  rewrite Hvb. cbn [negb].
  destruct (view_sig_block (mkV ma mi) m) as [[[sig chunk] final]| |] eqn:Hview; cbn [of_dres];
    try (intros H; inversion H; auto; fail).
  destruct (attached_sig_input c (mkV ma mi) hh chunk n final) as [inp|] eqn:Ea;
    [|exfalso; unfold attached_sig_input in Ea; cbn [vmaj] in Ea; destruct Hv; subst ma; discriminate].
  destruct (ed_verify c pk inp sig); cbn [negb]; [|intros H; inversion H; auto].
  unfold check_chunk_state. cbn [vmaj].
  destruct Hv; subst ma.
  - pose proof (view_sig_block_v1_final _ _ _ _ _ Hview) as ->.
    change (1 =? 1)%Z with true. cbv iota.
    destruct chunk; cbn; intros H; discriminate.
  - change (2 =? 1)%Z with false. change (2 =? 2)%Z with true. cbv iota.
    destruct (_ && _); intros H; inversion H; auto 6.
Qed.

(* (TARGET) the decryption step: the only panic left is checkChunkState's for a V1 packet whose
   emptiness disagrees with its final flag (impossible with NaCl's secretbox, possible for an
   arbitrary record of primitives) *)
Lemma dec_step_errors (st : dec_state) (n : N) (input : bytes) (e : err) :
  (vmaj (ds_version st) = 1 \/ vmaj (ds_version st) = 2)%Z ->
  dec_step c st n input = Err e ->
  e = ErrUnexpectedEOF \/ e = ErrDecode \/ e = Unmodelled \/ e = ErrPacketOverflow \/ e = ErrBadTag (n + 1) \/
  e = ErrBadCiphertext (n + 1) \/ e = ErrUnexpectedEmptyBlock \/ (e = Panic 1 /\ vmaj (ds_version st) = 1%Z).
Proof.
  intros Hv. unfold dec_step.
  destruct (read_packet input) as [[m rest]|e0] eqn:Hr.
  2:{ intros H; inversion H; subst. destruct (read_packet_err _ _ Hr) as [?|[?|?]]; auto. }
  destruct st as [[ma mi] pkey mkey pos hh0]. cbn [ds_version vmaj] in *. cbv zeta.
  assert (Hvb : ((ma =? 1) || (ma =? 2))%Z = true) by (destruct Hv; subst ma; reflexivity).
  rewrite Hvb. cbn [negb].
  destruct (view_enc_block (mkV ma mi) m) as [[[auths ct] final]| |] eqn:Hview; cbn [of_dres];
    try (intros H; inversion H; auto; fail).
  destruct (dec_block_step c _ n auths ct final) as [chunk|e1] eqn:Hd.
  2:{ intros H; inversion H; subst e1. revert Hd. unfold dec_block_step.
      cbn [ds_version ds_payload_key ds_mac_key ds_position ds_hh].
      destruct (negb (block_number_ok n)); [intros H'; inversion H'; auto 8|].
      destruct (payload_hash c (mkV ma mi) hh0 _ ct final) as [ph|] eqn:Eph;
        [|exfalso; unfold payload_hash in Eph; cbn [vmaj] in Eph; destruct Hv; subst ma; discriminate].
      destruct (nth_error auths _); [|intros H'; inversion H'; auto 8].
      destruct (negb (bytes_eqb _ _)); [intros H'; inversion H'; auto 8|].
      destruct (sb_open c pkey _ ct); intros H'; inversion H'; auto 8. }
  unfold check_chunk_state. cbn [vmaj].
  destruct Hv; subst ma.
  - change (1 =? 1)%Z with true. cbv iota.
    destruct (Bool.eqb _ _); intros H; inversion H. right; right; right; right; right; right; right. split; reflexivity.
  - change (2 =? 1)%Z with false. change (2 =? 2)%Z with true. cbv iota.
    destruct (_ && _); intros H; inversion H; auto 8.
Qed.

(* (TARGET) the signcryption step never panics *)
Lemma sc_step_errors (pkey : bytes) (signer : option bytes) (hh : bytes) (n : N) (input : bytes) (e : err) :
  sc_step c pkey signer hh n input = Err e ->
  e = ErrUnexpectedEOF \/ e = ErrDecode \/ e = Unmodelled \/ e = ErrPacketOverflow \/
  e = ErrBadCiphertext (n + 1) \/ e = ErrBadSignature \/ e = ErrUnexpectedEmptyBlock.
Proof.
  unfold sc_step.
  destruct (read_packet input) as [[m rest]|e0] eqn:Hr.
  2:{ intros H; inversion H; subst. destruct (read_packet_err _ _ Hr) as [?|[?|?]]; auto. }
  destruct (view_signcrypt_block m) as [[ct final]| |] eqn:Hview; cbn [of_dres];
    try (intros H; inversion H; auto; fail).
  destruct (sc_block_step c pkey hh signer n ct final) as [chunk|e1] eqn:Hd.
  2:{ intros H; inversion H; subst e1. revert Hd. unfold sc_block_step.
      destruct (negb (block_number_ok n)); [intros H'; inversion H'; auto 8|].
      destruct (sb_open c pkey _ ct); [|intros H'; inversion H'; auto 8].
      destruct (Nat.ltb _ 64); [intros H'; inversion H'; auto 8|].
      destruct signer; [|discriminate].
      destruct (negb (ed_verify _ _ _ _)); intros H'; inversion H'; auto 8. }
  unfold check_chunk_state. change (vmaj v2 =? 1)%Z with false. change (vmaj v2 =? 2)%Z with true. cbv iota.
  destruct (_ && _); intros H; inversion H; auto 8.
Qed.

End RecvProofs.
