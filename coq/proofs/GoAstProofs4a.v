(* GoAstProofs4a.v — source ties for the header processing of the signcryption receiver
   (/repo/signcrypt_open.go): signcryptOpenStream.tryBoxSecretKeys, .trySharedSymmetricKeys and
   .processHeader, as translated from /repo's Go syntax trees (gen/GoAst.v) and evaluated with the
   extended semantics of model/GoLang2.v, compute exactly the model's sc_try_box / sc_try_sym /
   process_sc_header (model/Signcrypt.v) — results, error class and the state of the receiver object
   `sos` — for EVERY crypto record, keyring, signer ring, resolver, header hash and header.

   TARGETS (all proved with Qed; Print Assumptions: closed under the global context):

   - go_tryBoxSecretKeys
       Running the translated tryBoxSecretKeys on (sos, header, ephemeral key) returns exactly the
       encoding ([g_of_sc_try]) of sc_try_box over the keys derived (derived_box_key) from the keyring's
       box secret keys: (key, nil), (nil, nil), (nil, ErrDecryptionFailed) or (nil, ErrBadSymmetricKey);
       the receiver object is unchanged.
       Hypothesis: the number of receivers is < 2^63 (len() of a Go slice is an int; the receiver index
       is converted to uint64 for the nonce and the key identifier).
   - go_trySharedSymmetricKeys
       The same for trySharedSymmetricKeys and sc_try_sym over the model's resolver ((nil, nil) when
       there is no resolver, [sc_try_sym_rv]); the receiver object is unchanged.
       Hypotheses: (1) every HMAC-SHA512 digest has at least 32 bytes (Sum returns 64; the code slices
       [0:32] and would panic otherwise — crypto_ok.ok_hmac_len implies it); (2) a key the resolver
       returns is not the empty byte string (Go: a non-nil *SymmetricKey points to 32 bytes, and nil means
       "not resolved"; the encoding uses the key's bytes, so an empty key would read as nil);
       (3) the number of receivers is < 2^63, as above.
   - go_signcrypt_processHeader
       The translated processHeader gives exactly process_sc_header: on an error the same error class
       (ErrNotASaltpackMessage, ErrWrongMessageType, ErrBadVersion, ErrBadEphemeralKey,
       ErrDecryptionFailed, ErrBadSymmetricKey, ErrNoDecryptionKey, ErrBadSenderKeySecretbox,
       ErrNoSenderKey); on success it returns nil and leaves in `sos` the model's payload key, the
       signer's public key — or senderAnonymous = true and no key for the all-zero sender — and the
       header hash it was given: the object is literally [g_sos pkey hh signer rv].
       Hypotheses: NONE.
   - ext_sc_process_tryBox, ext_sc_process_trySym
       Composition: the meaning processHeader's externs give to the calls sos.tryBoxSecretKeys(hdr, eph) /
       sos.trySharedSymmetricKeys(hdr, eph) is the outcome of running the translated methods (by the two
       lemmas above; same hypotheses as those).
   - sos_fields_sc_state
       The four fields of [g_sos ..] that processBlock reads (headerHash, payloadKey, senderAnonymous,
       signingPublicKey) are those of [g_sc_state ..], the object go_signcrypt_processBlock
       (GoAstProofs2.v) is stated on.  No hypotheses.

   Meaning of the externs.  [ext_sc_try]: GetAllBoxSecretKeys = the keyring's box keys;
   derivedEphemeralKeyFromBoxKeys = derived_box_key; keyIdentifierFromDerivedKey = box_key_identifier;
   hmac.Equal = bytes_eqb; nonceForPayloadKeyBoxV2, symmetricKeyFromSlice, rawBoxKeyFromSlice = the model's
   (each has its own source tie in GoAstProofs2/3.v); ResolveKeys = map (resolve rs) over the identifiers,
   never failing; BoxPublicKey.ToKID = the key's bytes; hmac.New / Hash.Write / Hash.Sum / secretbox.Open
   = [ext_prims].  [ext_sc_process]: SigncryptionHeader.validate = validate_sc_header
   (go_SigncryptionHeader_validate, GoAstProofs.v); ImportBoxEphemeralKey = "32 bytes or nil";
   LookupSigningPublicKey = lookup_signer; nonceForSenderKeySecretBox, secretbox.Open, bytes.Equal = the
   model's; the two try* methods = the MODEL's sc_try_box / sc_try_sym_rv (justified by the two lemmas
   above, see the composition lemmas).

   NOT EXPRESSIBLE (the evaluator is stuck on a construct of the translated term; no equivalence stated):

   - f_saltpack_checkEncryptReceivers (encrypt.go): `if receiverSet[kidString]` is translated to
     `SIf [] (EMapGet (EVar "receiverSet") (EVar "kidString"))`; GoLang.eval's EMapGet yields VNil for an
     absent key (not VBool false, the zero value of a map[string]bool), so SIf is CStuck "if" on the FIRST
     receiver of every list that passes the count check.  Only the empty list runs (ErrBadReceivers).
     Recorded as lemma [stuck_checkEncryptReceivers] (for every extern table).

   History: with the first translation tryBoxSecretKeys / trySharedSymmetricKeys were not expressible
   either (`[]T{}` was `ELit "[]T" []` = VStruct [], on which append/range/len are undefined; `return
   f(x)` with a two-result callee was an SReturn [ECall ..], and eval's ECall takes one-result externs
   only); the translator now emits `makemap` (= VList []) and `r'0, r'1 := f(x); return r'0, r'1`. *)
From Coq Require Import List String NArith ZArith Bool Lia.
From Coq.Strings Require Import Byte.
From SP Require Import Bytes Consts Params Msgpack Crypto Errors Nonce Packets Verify Encrypt Decrypt Signcrypt
                       GoLang GoLang2 GoAst GoAstProofs GoAstProofs2 GoAstProofs3.
From SP Require Import GoAstRecv.
Import ListNotations.
Local Open Scope string_scope.

Section ScDefs.
Variable c : crypto.

(* ---------- encodings ---------- *)
(* the resolver field of the receiver object: nil, or an opaque non-nil object *)
Definition g_resolver (rv : resolver) : gval :=
  match rv with None => VNil | Some _ => VStruct [] end.

(* the signcryptOpenStream object as NewSigncryptOpenStream/readHeader hand it to processHeader:
   header hash set, everything else at its zero value *)
Definition g_sos0 (hh : bytes) (rv : resolver) : gval :=
  VStruct [("headerHash", VBytes hh); ("payloadKey", VNil); ("senderAnonymous", VBool false);
           ("signingPublicKey", VNil); ("keyring", VNil); ("resolver", g_resolver rv)].

(* the object after a successful processHeader: the fields of [g_sc_state], then keyring and resolver *)
Definition g_sos (pkey hh : bytes) (signer : option bytes) (rv : resolver) : gval :=
  VStruct [("headerHash", VBytes hh); ("payloadKey", VBytes pkey);
           ("senderAnonymous", VBool (match signer with None => true | Some _ => false end));
           ("signingPublicKey", match signer with Some pk => VBytes pk | None => VNil end);
           ("keyring", VNil); ("resolver", g_resolver rv)].

(* result of the two try* methods: (payload key, error) *)
Definition g_of_sc_try (r : result (option bytes)) : option (list gval) :=
  match r with
  | Ok (Some k) => Some [VBytes k; VNil]
  | Ok None => Some [VNil; VNil]
  | Err ErrDecryptionFailed => Some [VNil; VErr "ErrDecryptionFailed" []]
  | Err ErrBadSymmetricKey => Some [VNil; VErr "ErrBadSymmetricKey" []]
  | Err _ => None
  end.

(* the derived keys tryBoxSecretKeys computes from the keyring's box keys and the ephemeral key *)
Definition sc_derived_keys (kr : keyring) (eph : bytes) : list bytes :=
  map (fun k => derived_box_key c (fst k) eph) (kr_keys kr).

(* the model's meaning of trySharedSymmetricKeys: no resolver, no key *)
Definition sc_try_sym_rv (rv : resolver) (eph : bytes) (rcvs : list (bytes * bytes)) : result (option bytes) :=
  match rv with None => Ok None | Some rs => sc_try_sym c rs eph rcvs 0 end.

(* a resolved key: nil when the identifier does not resolve *)
Definition g_resolved (rs : list (bytes * bytes)) (ident : bytes) : gval :=
  match resolve rs ident with Some k => VBytes k | None => VNil end.

(* externs of the two try* methods: the keyring's box keys, the resolver, the primitives, and the
   saltpack helpers with the model's meaning *)
Definition ext_sc_try (kr : keyring) (rv : resolver) : externs := fun fn args =>
  if String.eqb fn "SigncryptKeyring.GetAllBoxSecretKeys" then Some [VList (map g_key (kr_keys kr))]
  else if String.eqb fn "derivedEphemeralKeyFromBoxKeys" then       (* (ephemeral public key, box secret key) *)
    match args with
    | [VBytes eph; k] => match as_key k with Some key => Some [VBytes (derived_box_key c (fst key) eph)] | None => None end
    | _ => None
    end
  else if String.eqb fn "keyIdentifierFromDerivedKey" then
    match args with
    | [VBytes d; VInt i] => Some [VBytes (box_key_identifier c d (Z.to_N i))]
    | _ => None
    end
  else if String.eqb fn "hmac.Equal" then
    match args with [VBytes a; VBytes b] => Some [VBool (bytes_eqb a b)] | _ => None end
  else if String.eqb fn "nonceForPayloadKeyBoxV2" then
    match args with [VInt n] => Some [VBytes (nonce_payload_key_box_v2 (Z.to_N n))] | _ => None end
  else if String.eqb fn "symmetricKeyFromSlice" then
    match args with
    | [v] => match vbytes_of v with
             | Some b => match sym_key b with Ok k => Some [VBytes k; VNil] | Err _ => Some [VNil; VErr "ErrBadSymmetricKey" []] end
             | None => None
             end
    | _ => None
    end
  else if String.eqb fn "rawBoxKeyFromSlice" then
    match args with
    | [v] => match vbytes_of v with
             | Some b => if Nat.eqb (List.length b) 32 then Some [VBytes b; VNil] else Some [VNil; VErr "ErrBadBoxKey" []]
             | None => None
             end
    | _ => None
    end
  else if String.eqb fn "SymmetricKeyResolver.ResolveKeys" then     (* resolver.ResolveKeys(identifiers) *)
    match args with
    | [_; ids] =>
      match rv, (match ids with VList l => as_bytes_list l | VNil => Some [] | _ => None end) with
      | Some rs, Some ks => Some [VList (map (g_resolved rs) ks); VNil]
      | _, _ => None
      end
    | _ => None
    end
  else if String.eqb fn "BoxPublicKey.ToKID" then
    match args with [VBytes b] => Some [VBytes b] | _ => None end
  else ext_prims c fn args.

(* ---------- processHeader: the keyring, the primitives and the callees as externs ---------- *)
Definition ext_sc_process (kr : keyring) (signers : sigring) (rv : resolver) : externs := fun fn args =>
  if String.eqb fn "SigncryptionHeader.validate" then
    match args with
    | [VStruct (("FormatName", VBytes fmt) :: ("Version", ver) :: ("Type", VInt t) :: _)] =>
      match as_version ver with
      | Some v =>
        if negb (bytes_eqb fmt format_name) then Some [VErr "ErrNotASaltpackMessage" []]
        else if negb (t =? mt_signcryption)%Z then Some [VErr "ErrWrongMessageType" [VInt mt_signcryption; VInt t]]
        else if negb (vmaj v =? vmaj v2)%Z then Some [VErr "ErrBadVersion" [ver]]
        else Some [VNil]
      | None => None
      end
    | _ => None
    end
  else if String.eqb fn "SigncryptKeyring.ImportBoxEphemeralKey" then
    match args with
    | [_; VBytes b] => if Nat.eqb (List.length b) 32 then Some [VBytes b] else Some [VNil]
    | _ => None
    end
  else if String.eqb fn "signcryptOpenStream.tryBoxSecretKeys" then
    match args with
    | [_; VStruct hf; VBytes eph] =>
      match lookup "Receivers" hf with
      | Some rc =>
        match as_header_rcvs rc with
        | Some rcvs => g_of_sc_try (sc_try_box c (sc_derived_keys kr eph) rcvs 0)
        | None => None
        end
      | None => None
      end
    | _ => None
    end
  else if String.eqb fn "signcryptOpenStream.trySharedSymmetricKeys" then
    match args with
    | [_; VStruct hf; VBytes eph] =>
      match lookup "Receivers" hf with
      | Some rc =>
        match as_header_rcvs rc with
        | Some rcvs => g_of_sc_try (sc_try_sym_rv rv eph rcvs)
        | None => None
        end
      | None => None
      end
    | _ => None
    end
  else if String.eqb fn "nonceForSenderKeySecretBox" then Some [VBytes nonce_sender_key_sbox]
  else if String.eqb fn "bytes.Equal" then
    match args with [VBytes a; VBytes b] => Some [VBool (bytes_eqb a b)] | _ => None end
  else if String.eqb fn "SigncryptKeyring.LookupSigningPublicKey" then
    match args with
    | [_; VBytes kid] => match lookup_signer signers kid with Some pk => Some [VBytes pk] | None => Some [VNil] end
    | _ => None
    end
  else ext_prims c fn args.

(* the error class of processHeader's single result *)
Definition g_sc_hdr_err (o : outcome) : option err :=
  match o with
  | ORet [VErr n _] =>
    if String.eqb n "ErrNotASaltpackMessage" then Some ErrNotASaltpackMessage
    else if String.eqb n "ErrWrongMessageType" then Some ErrWrongMessageType
    else if String.eqb n "ErrBadVersion" then Some ErrBadVersion
    else if String.eqb n "ErrBadEphemeralKey" then Some ErrBadEphemeralKey
    else if String.eqb n "ErrDecryptionFailed" then Some ErrDecryptionFailed
    else if String.eqb n "ErrBadSymmetricKey" then Some ErrBadSymmetricKey
    else if String.eqb n "ErrNoDecryptionKey" then Some ErrNoDecryptionKey
    else if String.eqb n "ErrBadSenderKeySecretbox" then Some ErrBadSenderKeySecretbox
    else if String.eqb n "ErrNoSenderKey" then Some ErrNoSenderKey
    else None
  | _ => None
  end.


End ScDefs.

(* ---------- stepping tactics (copies of those of GoAstProofs3.v, which are local to its section;
   the model functions of this file are kept folded) ---------- *)
Ltac use_head_hyp4 :=
  lazymatch goal with
  | |- ?G =>
    let L := lazymatch G with (?L = _ -> _) => L | ?L = _ => L | _ => G end in
    let h := head_scrut3 L in
    match goal with H : h = _ |- _ => rewrite H end
  end; cbv beta iota.
Ltac ev_in4 h :=
  eval cbv -[Z.eqb Z.ltb Z.leb Z.add Z.sub Z.mul Z.modulo Z.rem Z.quot Z.shiftr Z.shiftl Z.opp
             Z.land Z.lor Z.lxor Z.lnot Z.of_nat Z.of_N Z.to_nat Z.to_N List.length nth_error
             firstn skipn bytes_eqb' bytes_eqb Byte.to_N Byte.of_N N.mul N.ltb N.eqb N.add N.leb b2n n2b Nat.eqb
             N.div N.modulo nth map repeat all_zero
             app sha512 hmac512 sb_open sb_seal dh_shared box_seal box_open ed_verify
             nonce_payload_key_box nonce_payload_key_box_v2 nonce_sender_key_sbox
             sc_try_box sc_try_sym sc_try_derived sc_derived_keys derived_box_key derived_sym_key box_key_identifier lookup_signer sym_key
             resolve g_resolved as_bytes_list signcryption_symkey_context list_byte_of_string
             format_name mt_signcryption kr_keys g_resolver
             as_header_rcvs range_loop2 exec2] in h.
Ltac ev_term4 X h :=
  lazymatch h with
  | X ?fn ?args => let h' := ev_in4 h in progress (change h with h'); cbv beta iota
  | _ =>
    let p := eval pattern X in h in
    lazymatch p with
    | ?g _ => let g' := ev_in4 g in
              let h' := eval cbv beta in (g' X) in
              progress (change h with h'); cbv beta iota
    end
  end.
Ltac norm_env4 h x f e ss k :=
  let e' := ev_in4 e in
  tryif constr_eq e e' then k e
  else (change h with (exec2 x (S f) e' ss); k e').
Ltac fix_lvars4 :=
  repeat match goal with
  | |- context [lvars ?l] => let r := eval cbv [lvars map] in (lvars l) in change (lvars l) with r
  end.
Ltac step4 X :=
  lazymatch goal with
  | |- ?G =>
    let L := lazymatch G with (?L = _ -> _) => L | ?L = _ => L | _ => G end in
    let h := head_scrut3 L in
    lazymatch h with
    | exec2 ?x (S ?f) ?e (SRange ?k ?v ?coll ?b :: ?rest) =>
      norm_env4 h x f e (SRange k v coll b :: rest) ltac:(fun e' => rewrite exec2_range)
    | exec2 ?x (S ?f) ?e ?ss =>
      norm_env4 h x f e ss ltac:(fun e' => rewrite (exec2_S x f e' ss); cbv beta iota zeta); fix_lvars4; cbv beta iota
    | range_loop2 _ _ _ _ _ _ _ _ _ => fail
    | _ => ev_term4 X h
    end
  end.
Ltac steps4 X := repeat first [step4 X | use_head_hyp4 | lits1 | lits2 | lits3 | slice1].
(* replace the stuck head of the left-hand side using an equation about it (up to conversion) *)
Ltac rewrite_head4 Heq :=
  lazymatch goal with
  | |- ?L = _ =>
    let h := head_scrut3 L in
    lazymatch type of Heq with
    | _ = ?r => replace h with r by (symmetry; exact Heq)
    end
  end; cbv beta iota.
(* run the evaluator on the left of a hypothesis [HR : exec2 ... = R] until it is stuck *)
Ltac run_hyp4 X HR := revert HR; cbv beta iota; steps4 X; intros HR.

Section ScProofs.
Variable c : crypto.

(* ---------- facts about the model functions ---------- *)
Lemma sym_key_cases (pt : bytes) :
  match sym_key pt with Ok k => k = pt /\ List.length k = 32%nat | Err e => e = ErrBadSymmetricKey end.
Proof. unfold sym_key. destruct (Nat.eqb (List.length pt) 32) eqn:E; [apply Nat.eqb_eq in E; auto|reflexivity]. Qed.

Definition sc_try_ok (r : result (option bytes)) : Prop :=
  match r with
  | Ok (Some k) => List.length k = 32%nat
  | Ok None => True
  | Err e => e = ErrDecryptionFailed \/ e = ErrBadSymmetricKey
  end.

Lemma sc_try_derived_cases (derived : list bytes) (i : N) (kid box : bytes) :
  sc_try_ok (sc_try_derived c derived i kid box).
Proof.
  induction derived as [|d t IH]; cbn [sc_try_derived]; [exact I|].
  destruct (bytes_eqb _ kid); [|exact IH].
  destruct (sb_open c d _ box) as [pt|]; [|left; reflexivity].
  pose proof (sym_key_cases pt) as H. destruct (sym_key pt) as [k|e]; cbn [bind sc_try_ok].
  - apply H.
  - right; exact H.
Qed.

Lemma sc_try_box_cases (derived : list bytes) (rcvs : list (bytes * bytes)) (i : N) :
  sc_try_ok (sc_try_box c derived rcvs i).
Proof.
  revert i. induction rcvs as [|[kid box] t IH]; intros i; cbn [sc_try_box]; [exact I|].
  pose proof (sc_try_derived_cases derived i kid box) as H.
  destruct (sc_try_derived c derived i kid box) as [[k|]|e]; [exact H|apply IH|exact H].
Qed.

Lemma sc_try_sym_cases (rs : list (bytes * bytes)) (eph : bytes) (rcvs : list (bytes * bytes)) (i : N) :
  sc_try_ok (sc_try_sym c rs eph rcvs i).
Proof.
  revert i. induction rcvs as [|[kid box] t IH]; intros i; cbn [sc_try_sym]; [exact I|].
  destruct (resolve rs kid) as [key|]; [|apply IH].
  destruct (sb_open c _ _ box) as [pt|]; [|left; reflexivity].
  pose proof (sym_key_cases pt) as H. destruct (sym_key pt) as [k|e]; cbn [bind sc_try_ok].
  - apply H.
  - right; exact H.
Qed.

(* bytes.Equal(make([]byte, len(s)), s) is the model's all_zero *)
Lemma zeros_eqb (s : bytes) : bytes_eqb (repeat x00 (List.length s)) s = all_zero s.
Proof.
  induction s as [|b s IH]; cbn [List.length repeat bytes_eqb all_zero]; [reflexivity|].
  rewrite IH. destruct b; reflexivity.
Qed.

Lemma lookup_signer_some (signers : sigring) (kid pk : bytes) :
  lookup_signer signers kid = Some pk -> pk = kid.
Proof. unfold lookup_signer. destruct (existsb _ signers); congruence. Qed.

(* ---------- tryBoxSecretKeys ---------- *)
Definition tb_body1 : list gstmt :=
  Eval cbv in match nth 1 (f_body f_saltpack_signcryptOpenStream_tryBoxSecretKeys) SBreak with SRange _ _ _ b => b | _ => [] end.
Definition tb_rest1 : list gstmt :=
  Eval cbv in skipn 2 (f_body f_saltpack_signcryptOpenStream_tryBoxSecretKeys).
Definition tb_body2 : list gstmt :=
  Eval cbv in match nth 2 (f_body f_saltpack_signcryptOpenStream_tryBoxSecretKeys) SBreak with SRange _ _ _ b => b | _ => [] end.
Definition tb_rest2 : list gstmt :=
  Eval cbv in skipn 3 (f_body f_saltpack_signcryptOpenStream_tryBoxSecretKeys).
Definition tb_body3 : list gstmt :=
  Eval cbv in match nth 0 tb_body2 SBreak with SRange _ _ _ b => b | _ => [] end.

(* the environment from the first loop on *)
Definition envB (D H E : gval) (DK : list gval) (tl : env) : env :=
  ([("sos", D); ("hdr", H); ("ephemeralPub", E); ("derivedKeys", VList DK)] ++ tl)%list.
Definition tailB (tl : env) : Prop := exists a b, tl = [("receiverBoxSecretKey", a); ("derivedKey", b)].

Lemma tb_loop1 (kr : keyring) (rv : resolver) (D H : gval) (eph : bytes) (keys : list (bytes * bytes)) :
  forall (j : Z) (acc : list bytes) (tl : env), (tl = [] \/ tailB tl) ->
  exists tl', (keys = [] -> tl' = tl) /\ (keys <> [] -> tailB tl') /\
    range_loop2 (ext_sc_try c kr rv) 298 "_" "receiverBoxSecretKey" tb_body1 tb_rest1 j (map g_key keys)
                (envB D H (VBytes eph) (map VBytes acc) tl)
    = exec2 (ext_sc_try c kr rv) 298
            (envB D H (VBytes eph) (map VBytes (acc ++ map (fun k => derived_box_key c (fst k) eph) keys)) tl') tb_rest1.
Proof.
  induction keys as [|[ksk kpk] keys IH]; intros j acc tl Htl.
  - exists tl. split; [reflexivity|]. split; [congruence|].
    cbn [map]. rewrite app_nil_r. apply range_loop2_nil.
  - cbn [map fst].
    assert (Ht2 : tailB [("receiverBoxSecretKey", g_key (ksk, kpk)); ("derivedKey", VBytes (derived_box_key c ksk eph))])
      by (eexists; eexists; reflexivity).
    destruct (IH (j + 1)%Z (acc ++ [derived_box_key c ksk eph])%list _ (or_intror Ht2)) as (tl' & Hnil & Hcons & Heq).
    exists tl'. split; [discriminate|]. split.
    { intros _. destruct keys; [rewrite Hnil by reflexivity; exact Ht2|apply Hcons; discriminate]. }
    rewrite <- app_assoc in Heq. cbn [app] in Heq.
    etransitivity; [|exact Heq]. clear Heq IH.
    rewrite range_loop2_cons. unfold tb_body1, envB, g_key. cbn [fst snd].
    rewrite map_app. cbn [map].
    destruct Htl as [->|(a & b & ->)]; cbn [app]; steps4 (ext_sc_try c kr rv); reflexivity.
Qed.

(* an empty keyring: no derived key, the inner loop never runs *)
Lemma sc_try_box_nil (rcvs : list (bytes * bytes)) (i : N) : sc_try_box c [] rcvs i = Ok None.
Proof. revert i. induction rcvs as [|[kid box] t IH]; intros i; cbn [sc_try_box sc_try_derived]; [reflexivity|apply IH]. Qed.

Lemma tb_outer_nil (kr : keyring) (rv : resolver) (D H E : gval) (rcvs : list (bytes * bytes)) :
  forall (j : Z) (tl : env), (tl = [] \/ exists a b, tl = [("receiverIndex", a); ("receiver", b)]) ->
  exists e',
    range_loop2 (ext_sc_try c kr rv) 297 "receiverIndex" "receiver" tb_body2 tb_rest2 j (map g_rcv rcvs) (envB D H E [] tl)
    = CRet [VNil; VNil] e' /\ lookup "sos" e' = Some D.
Proof.
  induction rcvs as [|r rcvs IH]; intros j tl Htl.
  - cbn [map]. rewrite range_loop2_nil. unfold tb_rest2, envB.
    destruct Htl as [->|(a & b & ->)]; cbn [app]. all: eexists; (split; [steps4 (ext_sc_try c kr rv); reflexivity|reflexivity]).
  - cbn [map]. rewrite range_loop2_cons.
    assert (Hb : exec2 (ext_sc_try c kr rv) 297
                   (if "receiver" =? "_" then if "receiverIndex" =? "_" then envB D H E [] tl else update "receiverIndex" (VInt j) (envB D H E [] tl)
                    else update "receiver" (g_rcv r) (if "receiverIndex" =? "_" then envB D H E [] tl else update "receiverIndex" (VInt j) (envB D H E [] tl)))
                   tb_body2
                 = CNorm (envB D H E [] [("receiverIndex", VInt j); ("receiver", g_rcv r)])).
    { unfold tb_body2, envB.
      destruct Htl as [->|(a & b & ->)]; cbn [app]; steps4 (ext_sc_try c kr rv);
        rewrite range_loop2_nil; steps4 (ext_sc_try c kr rv); reflexivity. }
    rewrite Hb. apply IH. right. eexists; eexists; reflexivity.
Qed.

(* the environment inside the loop over the derived keys (the keyring is not empty, so "derivedKey" exists) *)
Definition envBI (D H E : gval) (DK : list gval) (rb dk ri rc : gval) (T : env) : env :=
  ([("sos", D); ("hdr", H); ("ephemeralPub", E); ("derivedKeys", VList DK); ("receiverBoxSecretKey", rb);
    ("derivedKey", dk); ("receiverIndex", ri); ("receiver", rc)] ++ T)%list.
Definition shapeI (T : env) : Prop := T = [] \/ exists x, T = [("identifier", x)].

Lemma tb_inner (kr : keyring) (rv : resolver) (D H E : gval) (DK : list gval) (rb : gval) (i : N) (kid box : bytes) :
  (i < 18446744073709551616)%N ->
  forall (ds : list bytes) (j : Z) (dk : gval) (T : env), shapeI T ->
  match sc_try_derived c ds i kid box with
  | Ok None => exists dk' T', shapeI T' /\
      range_loop2 (ext_sc_try c kr rv) 296 "_" "derivedKey" tb_body3 [] j (map VBytes ds)
                  (envBI D H E DK rb dk (VInt (Z.of_N i)) (g_rcv (kid, box)) T)
      = CNorm (envBI D H E DK rb dk' (VInt (Z.of_N i)) (g_rcv (kid, box)) T')
  | r => exists vs e',
      range_loop2 (ext_sc_try c kr rv) 296 "_" "derivedKey" tb_body3 [] j (map VBytes ds)
                  (envBI D H E DK rb dk (VInt (Z.of_N i)) (g_rcv (kid, box)) T)
      = CRet vs e' /\ lookup "sos" e' = Some D /\ g_of_sc_try r = Some vs
  end.
Proof.
  intros Hi.
  assert (Hmod : (Z.of_N i mod 18446744073709551616)%Z = Z.of_N i) by (apply Z.mod_small; lia).
  induction ds as [|d ds IH]; intros j dk T HT.
  - cbn [sc_try_derived map]. exists dk, T. split; [exact HT|]. reflexivity.
  - cbn [sc_try_derived map].
    destruct (bytes_eqb (box_key_identifier c d i) kid) eqn:Eid.
    + (* this derived key is the one: open the payload key box *)
      assert (Eid' : bytes_eqb (box_key_identifier c d (Z.to_N (Z.of_N i mod 18446744073709551616))) kid = true)
        by (rewrite Hmod, N2Z.id; exact Eid).
      destruct (sb_open c d (nonce_payload_key_box_v2 i) box) as [pt|] eqn:Esb.
      * assert (Esb' : sb_open c d (nonce_payload_key_box_v2 (Z.to_N (Z.of_N i mod 18446744073709551616))) box = Some pt)
          by (rewrite Hmod, N2Z.id; exact Esb).
        pose proof (sym_key_cases pt) as Hsk.
        destruct (sym_key pt) as [k|e] eqn:Esk; cbn [bind].
        -- rewrite range_loop2_cons. unfold tb_body3, envBI, g_rcv. cbn [fst snd].
           destruct HT as [->|(x & ->)]; cbn [app]. all: eexists; eexists;
             (split; [steps4 (ext_sc_try c kr rv); reflexivity|split; reflexivity]).
        -- subst e. rewrite range_loop2_cons. unfold tb_body3, envBI, g_rcv. cbn [fst snd].
           destruct HT as [->|(x & ->)]; cbn [app]. all: eexists; eexists;
             (split; [steps4 (ext_sc_try c kr rv); reflexivity|split; reflexivity]).
      * assert (Esb' : sb_open c d (nonce_payload_key_box_v2 (Z.to_N (Z.of_N i mod 18446744073709551616))) box = None)
          by (rewrite Hmod, N2Z.id; exact Esb).
        rewrite range_loop2_cons. unfold tb_body3, envBI, g_rcv. cbn [fst snd].
        destruct HT as [->|(x & ->)]; cbn [app]. all: eexists; eexists;
          (split; [steps4 (ext_sc_try c kr rv); reflexivity|split; reflexivity]).
    + (* not this one: next derived key *)
      assert (Eid' : bytes_eqb (box_key_identifier c d (Z.to_N (Z.of_N i mod 18446744073709551616))) kid = false)
        by (rewrite Hmod, N2Z.id; exact Eid).
      assert (Hstep : exists x,
        range_loop2 (ext_sc_try c kr rv) 296 "_" "derivedKey" tb_body3 [] j (VBytes d :: map VBytes ds)
                    (envBI D H E DK rb dk (VInt (Z.of_N i)) (g_rcv (kid, box)) T)
        = range_loop2 (ext_sc_try c kr rv) 296 "_" "derivedKey" tb_body3 [] (j + 1) (map VBytes ds)
                    (envBI D H E DK rb (VBytes d) (VInt (Z.of_N i)) (g_rcv (kid, box)) [("identifier", x)])).
      { rewrite range_loop2_cons. unfold tb_body3, envBI, g_rcv. cbn [fst snd].
        destruct HT as [->|(x & ->)]; cbn [app]; (eexists; steps4 (ext_sc_try c kr rv); reflexivity). }
      destruct Hstep as (x & Hstep).
      specialize (IH (j + 1)%Z (VBytes d) [("identifier", x)] (or_intror (ex_intro _ x eq_refl))).
      destruct (sc_try_derived c ds i kid box) as [[k|]|e].
      * destruct IH as (vs & e' & IH & Hl & Hg). exists vs, e'. split; [etransitivity; [exact Hstep|exact IH]|split; assumption].
      * destruct IH as (dk' & T' & HT' & IH). exists dk', T'. split; [exact HT'|]. etransitivity; [exact Hstep|exact IH].
      * destruct IH as (vs & e' & IH & Hl & Hg). exists vs, e'. split; [etransitivity; [exact Hstep|exact IH]|split; assumption].
Qed.

(* the loop over the receivers, non-empty keyring *)
Definition envBO (D H E : gval) (DK : list gval) (rb dk : gval) (T : env) : env :=
  ([("sos", D); ("hdr", H); ("ephemeralPub", E); ("derivedKeys", VList DK); ("receiverBoxSecretKey", rb);
    ("derivedKey", dk)] ++ T)%list.
Definition shapeBO (T : env) : Prop :=
  T = [] \/ exists a b T2, T = ("receiverIndex", a) :: ("receiver", b) :: T2 /\ shapeI T2.

Lemma tb_outer (kr : keyring) (rv : resolver) (D H E : gval) (rb : gval) (ds : list bytes) :
  forall (rcvs : list (bytes * bytes)) (i : N) (dk : gval) (T : env), shapeBO T ->
  (i + N.of_nat (List.length rcvs) <= 18446744073709551616)%N ->
  exists vs e',
    range_loop2 (ext_sc_try c kr rv) 297 "receiverIndex" "receiver" tb_body2 tb_rest2 (Z.of_N i) (map g_rcv rcvs)
                (envBO D H E (map VBytes ds) rb dk T)
    = CRet vs e' /\ lookup "sos" e' = Some D /\ g_of_sc_try (sc_try_box c ds rcvs i) = Some vs.
Proof.
  induction rcvs as [|[kid box] rcvs IH]; intros i dk T HT Hlen.
  - cbn [map sc_try_box]. rewrite range_loop2_nil. unfold tb_rest2, envBO.
    destruct HT as [->|(a & b & T2 & -> & [->|(x & ->)])]; cbn [app]. all: eexists; eexists;
      (split; [steps4 (ext_sc_try c kr rv); reflexivity|split; reflexivity]).
  - cbn [map sc_try_box]. cbn [List.length] in Hlen.
    assert (Hi : (i < 18446744073709551616)%N) by lia.
    (* the body of the outer loop is the inner loop *)
    assert (Hin : exists T2, shapeI T2 /\
       exec2 (ext_sc_try c kr rv) 297
             (if "receiver" =? "_" then if "receiverIndex" =? "_" then envBO D H E (map VBytes ds) rb dk T
                                        else update "receiverIndex" (VInt (Z.of_N i)) (envBO D H E (map VBytes ds) rb dk T)
              else update "receiver" (g_rcv (kid, box))
                     (if "receiverIndex" =? "_" then envBO D H E (map VBytes ds) rb dk T
                      else update "receiverIndex" (VInt (Z.of_N i)) (envBO D H E (map VBytes ds) rb dk T)))
             tb_body2
       = range_loop2 (ext_sc_try c kr rv) 296 "_" "derivedKey" tb_body3 [] 0 (map VBytes ds)
                     (envBI D H E (map VBytes ds) rb dk (VInt (Z.of_N i)) (g_rcv (kid, box)) T2)).
    { unfold tb_body2, envBO, envBI.
      destruct HT as [->|(a & b & T2 & -> & HT2)].
      - exists []. split; [left; reflexivity|]. cbn [app]. steps4 (ext_sc_try c kr rv). reflexivity.
      - exists T2. split; [exact HT2|]. cbn [app]. steps4 (ext_sc_try c kr rv). reflexivity. }
    destruct Hin as (T2 & HT2 & Hbody).
    pose proof (tb_inner kr rv D H E (map VBytes ds) rb i kid box Hi ds 0%Z dk T2 HT2) as Hinner.
    rewrite range_loop2_cons, Hbody.
    destruct (sc_try_derived c ds i kid box) as [[k|]|e].
    + destruct Hinner as (vs & e' & Hrun & Hl & Hg). exists vs, e'. rewrite Hrun. split; [reflexivity|split; assumption].
    + destruct Hinner as (dk' & T' & HT' & Hrun). rewrite Hrun.
      specialize (IH (i + 1)%N dk' (("receiverIndex", VInt (Z.of_N i)) :: ("receiver", g_rcv (kid, box)) :: T')).
      rewrite N2Z.inj_add in IH. change (Z.of_N 1) with 1%Z in IH.
      apply IH; [|lia]. right. do 3 eexists. split; [reflexivity|exact HT'].
    + destruct Hinner as (vs & e' & Hrun & Hl & Hg). exists vs, e'. rewrite Hrun. split; [reflexivity|split; assumption].
Qed.

(* (TARGET) tryBoxSecretKeys = the model's sc_try_box over the keys derived from the keyring's box keys:
   the two results are exactly the encoding of the model's result, and the receiver object is unchanged.
   Hypothesis: the number of receivers fits Go's int (len() of a slice). *)
Lemma go_tryBoxSecretKeys (kr : keyring) (rv : resolver) (hh : bytes) (h : header) (eph : bytes) :
  (N.of_nat (List.length (h_rcvs h)) < 9223372036854775808)%N ->
  let r := run_func2 (ext_sc_try c kr rv) f_saltpack_signcryptOpenStream_tryBoxSecretKeys
                     [g_sos0 hh rv; g_enc_header h; VBytes eph] in
  option_map ORet (g_of_sc_try (sc_try_box c (sc_derived_keys c kr eph) (h_rcvs h) 0)) = Some (fst r) /\
  lookup "sos" (snd r) = Some (g_sos0 hh rv).
Proof.
  intros Hlen. cbv zeta.
  assert (Hex : exists vs e',
    exec2 (ext_sc_try c kr rv) 300 [("sos", g_sos0 hh rv); ("hdr", g_enc_header h); ("ephemeralPub", VBytes eph)]
          (f_body f_saltpack_signcryptOpenStream_tryBoxSecretKeys) = CRet vs e' /\
    lookup "sos" e' = Some (g_sos0 hh rv) /\
    g_of_sc_try (sc_try_box c (sc_derived_keys c kr eph) (h_rcvs h) 0) = Some vs).
  { destruct (tb_loop1 kr rv (g_sos0 hh rv) (g_enc_header h) eph (kr_keys kr) 0%Z [] [] (or_introl eq_refl))
      as (tl' & Hnil & Hcons & Hl1).
    cbn [app map] in Hl1. fold (sc_derived_keys c kr eph) in Hl1.
    assert (Hrun : exec2 (ext_sc_try c kr rv) 300 [("sos", g_sos0 hh rv); ("hdr", g_enc_header h); ("ephemeralPub", VBytes eph)]
                         (f_body f_saltpack_signcryptOpenStream_tryBoxSecretKeys)
                   = range_loop2 (ext_sc_try c kr rv) 297 "receiverIndex" "receiver" tb_body2 tb_rest2 0 (map g_rcv (h_rcvs h))
                                 (envB (g_sos0 hh rv) (g_enc_header h) (VBytes eph) (map VBytes (sc_derived_keys c kr eph)) tl')).
    { cbv beta iota zeta delta [f_body f_saltpack_signcryptOpenStream_tryBoxSecretKeys].
      steps4 (ext_sc_try c kr rv).
      rewrite_head4 Hl1. unfold tb_rest1, envB.
      unfold g_enc_header.
      destruct (kr_keys kr) as [|k0 keys].
      - rewrite (Hnil eq_refl). cbn [app]. steps4 (ext_sc_try c kr rv). reflexivity.
      - destruct Hcons as (a & b & ->); [discriminate|]. cbn [app]. steps4 (ext_sc_try c kr rv). reflexivity. }
    rewrite Hrun. clear Hrun Hl1.
    destruct (kr_keys kr) as [|k0 keys] eqn:Ekeys.
    - rewrite (Hnil eq_refl).
      assert (Hd : sc_derived_keys c kr eph = []) by (unfold sc_derived_keys; rewrite Ekeys; reflexivity).
      rewrite Hd, sc_try_box_nil. cbn [map].
      destruct (tb_outer_nil kr rv (g_sos0 hh rv) (g_enc_header h) (VBytes eph) (h_rcvs h) 0%Z [] (or_introl eq_refl))
        as (e' & Hrun & Hl).
      exists [VNil; VNil], e'. split; [exact Hrun|split; [exact Hl|reflexivity]].
    - destruct Hcons as (a & b & ->); [discriminate|].
      apply (tb_outer kr rv (g_sos0 hh rv) (g_enc_header h) (VBytes eph) a (sc_derived_keys c kr eph) (h_rcvs h) 0%N b []).
      + left; reflexivity.
      + lia. }
  destruct Hex as (vs & e' & Hrun & Hl & Hg).
  unfold run_func2. cbn [f_params f_results f_saltpack_signcryptOpenStream_tryBoxSecretKeys bind_params map app].
  rewrite Hrun, Hg. cbn [fst snd option_map]. split; [reflexivity|exact Hl].
Qed.


(* ---------- trySharedSymmetricKeys ---------- *)
Definition ts_bodyA : list gstmt :=
  Eval cbv in match nth 1 (f_body f_saltpack_signcryptOpenStream_trySharedSymmetricKeys) SBreak with SRange _ _ _ b => b | _ => [] end.
Definition ts_restA : list gstmt :=
  Eval cbv in skipn 2 (f_body f_saltpack_signcryptOpenStream_trySharedSymmetricKeys).
Definition ts_bodyB : list gstmt :=
  Eval cbv in match nth 6 (f_body f_saltpack_signcryptOpenStream_trySharedSymmetricKeys) SBreak with SRange _ _ _ b => b | _ => [] end.
Definition ts_restB : list gstmt :=
  Eval cbv in skipn 7 (f_body f_saltpack_signcryptOpenStream_trySharedSymmetricKeys).

Definition envS (D H E : gval) (IDS : list gval) (tl : env) : env :=
  ([("sos", D); ("hdr", H); ("ephemeralPub", E); ("identifiers", VList IDS)] ++ tl)%list.
Definition tailS (tl : env) : Prop := exists a, tl = [("receiver", a)].

(* the first loop collects the receivers' key identifiers *)
Lemma ts_loopA (X : externs) (D H E : gval) (rcvs : list (bytes * bytes)) :
  forall (j : Z) (acc : list bytes) (tl : env), (tl = [] \/ tailS tl) ->
  exists tl', (rcvs = [] -> tl' = tl) /\ (rcvs <> [] -> tailS tl') /\
    range_loop2 X 298 "_" "receiver" ts_bodyA ts_restA j (map g_rcv rcvs) (envS D H E (map VBytes acc) tl)
    = exec2 X 298 (envS D H E (map VBytes (acc ++ map fst rcvs)) tl') ts_restA.
Proof.
  induction rcvs as [|[kid box] rcvs IH]; intros j acc tl Htl.
  - exists tl. split; [reflexivity|]. split; [congruence|].
    cbn [map]. rewrite app_nil_r. apply range_loop2_nil.
  - cbn [map fst].
    assert (Ht2 : tailS [("receiver", g_rcv (kid, box))]) by (eexists; reflexivity).
    destruct (IH (j + 1)%Z (acc ++ [kid])%list _ (or_intror Ht2)) as (tl' & Hnil & Hcons & Heq).
    exists tl'. split; [discriminate|]. split.
    { intros _. destruct rcvs; [rewrite Hnil by reflexivity; exact Ht2|apply Hcons; discriminate]. }
    rewrite <- app_assoc in Heq. cbn [app] in Heq.
    etransitivity; [|exact Heq]. clear Heq IH.
    rewrite range_loop2_cons. unfold ts_bodyA, envS, g_rcv. cbn [fst snd].
    rewrite map_app. cbn [map].
    destruct Htl as [->|(a & ->)]; cbn [app]; steps4 X; reflexivity.
Qed.

(* ----- the loop over the resolved keys ----- *)
Definition sym_ctx : bytes := list_byte_of_string "saltpack signcryption derived symmetric key".
Lemma sym_ctx_ok : signcryption_symkey_context = sym_ctx.
Proof. reflexivity. Qed.

Lemma skipn_cons_nth {A} (l : list A) : forall (n : nat) (x : A) (t : list A),
  skipn n l = x :: t -> nth_error l n = Some x /\ skipn (S n) l = t.
Proof.
  induction l as [|y l IH]; intros n x t Hs.
  - destruct n; discriminate.
  - destruct n as [|n]; cbn [skipn nth_error] in *.
    + injection Hs as -> ->. split; reflexivity.
    + apply IH. exact Hs.
Qed.

Definition resolver_keys_ok (rs : list (bytes * bytes)) : Prop := forall p, In p rs -> snd p <> [].

Lemma resolve_nonempty (rs : list (bytes * bytes)) (kid key : bytes) :
  resolver_keys_ok rs -> resolve rs kid = Some key -> key <> [].
Proof.
  intros Hok. unfold resolve. destruct (find _ rs) as [p|] eqn:Ef; [|discriminate].
  intros Hk. injection Hk as <-. apply Hok. apply (find_some _ _ Ef).
Qed.

Definition envSB (D H E : gval) (IDS : list gval) (rc : gval) (RK : list gval) (T : env) : env :=
  ([("sos", D); ("hdr", H); ("ephemeralPub", E); ("identifiers", VList IDS); ("receiver", rc);
    ("resolvedKeys", VList RK); ("err", VNil)] ++ T)%list.
Definition shapeSB (T : env) : Prop := T = [] \/ exists a b, T = [("index", a); ("resolved", b)].

Lemma ts_loopB (kr : keyring) (rs : list (bytes * bytes)) (D : gval) (h : header) (eph : bytes)
      (IDS : list gval) (rc : gval) (RK : list gval) :
  (forall k x, (32 <= List.length (hmac512 c k x))%nat) ->
  resolver_keys_ok rs ->
  forall (rest : list (bytes * bytes)) (i : N) (T : env), shapeSB T ->
  skipn (N.to_nat i) (h_rcvs h) = rest ->
  (i + N.of_nat (List.length rest) <= 18446744073709551616)%N ->
  exists vs e',
    range_loop2 (ext_sc_try c kr (Some rs)) 293 "index" "resolved" ts_bodyB ts_restB (Z.of_N i)
                (map (g_resolved rs) (map fst rest)) (envSB D (g_enc_header h) (VBytes eph) IDS rc RK T)
    = CRet vs e' /\ lookup "sos" e' = Some D /\ g_of_sc_try (sc_try_sym c rs eph rest i) = Some vs.
Proof.
  intros Hhm Hok.
  destruct h as [fmt [ma mi] ty ea eb rcvs]. cbn [h_rcvs].
  induction rest as [|[kid box] rest IH]; intros i T HT Hskip Hlen.
  - cbn [map sc_try_sym]. rewrite range_loop2_nil. unfold ts_restB, envSB.
    destruct HT as [->|(a & b & ->)]; cbn [app]. all: eexists; eexists;
      (split; [steps4 (ext_sc_try c kr (Some rs)); reflexivity|split; reflexivity]).
  - cbn [map fst sc_try_sym]. cbn [List.length] in Hlen.
    destruct (skipn_cons_nth rcvs _ _ _ Hskip) as [Hnth Hskip'].
    assert (Hi0 : (Z.of_N i <? 0)%Z = false) by lia.
    assert (Hmod : (Z.of_N i mod 18446744073709551616)%Z = Z.of_N i) by (apply Z.mod_small; lia).
    assert (HnthG : nth_error (map g_rcv rcvs) (Z.to_nat (Z.of_N i))
                    = Some (VStruct [("ReceiverKID", VBytes kid); ("PayloadKeyBox", VBytes box)])).
    { replace (Z.to_nat (Z.of_N i)) with (N.to_nat i) by lia. rewrite nth_error_map, Hnth. reflexivity. }
    unfold g_enc_header. cbn [h_format h_version h_type h_a h_b h_rcvs].
    remember (map g_rcv rcvs) as RL eqn:HRL.
    unfold g_resolved at 1.
    destruct (resolve rs kid) as [key|] eqn:Eres.
    + (* the identifier resolves: this receiver decides *)
      pose proof (resolve_nonempty rs kid key Hok Eres) as Hne.
      destruct key as [|k0 key']; [congruence|]. clear Hne.
      unfold derived_sym_key. rewrite sym_ctx_ok. unfold sym_ctx.
      pose proof (Hhm (list_byte_of_string "saltpack signcryption derived symmetric key") (eph ++ k0 :: key')%list) as Hh.
      assert (H1 : (Z.of_nat (List.length (hmac512 c (list_byte_of_string "saltpack signcryption derived symmetric key") (eph ++ k0 :: key')%list)) <? 32)%Z = false) by lia.
      assert (H2 : (List.length (firstn 32 (hmac512 c (list_byte_of_string "saltpack signcryption derived symmetric key") (eph ++ k0 :: key')%list)) =? 32)%nat = true)
        by (rewrite firstn_length_le by exact Hh; reflexivity).
      set (DKEY := firstn 32 (hmac512 c (list_byte_of_string "saltpack signcryption derived symmetric key") (eph ++ k0 :: key')%list)) in *.
      destruct (sb_open c DKEY (nonce_payload_key_box_v2 i) box) as [pt|] eqn:Esb.
      * assert (Esb' : sb_open c DKEY (nonce_payload_key_box_v2 (Z.to_N (Z.of_N i mod 18446744073709551616))) box = Some pt)
          by (rewrite Hmod, N2Z.id; exact Esb).
        pose proof (sym_key_cases pt) as Hsk.
        destruct (sym_key pt) as [k|e] eqn:Esk; cbn [bind]; [|subst e].
        all: subst DKEY.
        all: rewrite range_loop2_cons; unfold ts_bodyB, envSB.
        all: destruct HT as [->|(a & b & ->)]; cbn [app].
        all: eexists; eexists; (split; [steps4 (ext_sc_try c kr (Some rs)); reflexivity|split; reflexivity]).
      * assert (Esb' : sb_open c DKEY (nonce_payload_key_box_v2 (Z.to_N (Z.of_N i mod 18446744073709551616))) box = None)
          by (rewrite Hmod, N2Z.id; exact Esb).
        subst DKEY.
        rewrite range_loop2_cons; unfold ts_bodyB, envSB.
        destruct HT as [->|(a & b & ->)]; cbn [app].
        all: eexists; eexists; (split; [steps4 (ext_sc_try c kr (Some rs)); reflexivity|split; reflexivity]).
    + (* not resolved: continue with the next receiver *)
      assert (Hstep :
        range_loop2 (ext_sc_try c kr (Some rs)) 293 "index" "resolved" ts_bodyB ts_restB (Z.of_N i)
                    (VNil :: map (g_resolved rs) (map fst rest))
                    (envSB D (VStruct [("FormatName", VBytes fmt); ("Version", g_version (mkV ma mi)); ("Type", VInt ty);
                                       ("Ephemeral", VBytes ea); ("SenderSecretbox", VBytes eb); ("Receivers", VList RL)])
                           (VBytes eph) IDS rc RK T)
        = range_loop2 (ext_sc_try c kr (Some rs)) 293 "index" "resolved" ts_bodyB ts_restB (Z.of_N i + 1)
                    (map (g_resolved rs) (map fst rest))
                    (envSB D (VStruct [("FormatName", VBytes fmt); ("Version", g_version (mkV ma mi)); ("Type", VInt ty);
                                       ("Ephemeral", VBytes ea); ("SenderSecretbox", VBytes eb); ("Receivers", VList RL)])
                           (VBytes eph) IDS rc RK [("index", VInt (Z.of_N i)); ("resolved", VNil)])).
      { rewrite range_loop2_cons. unfold ts_bodyB, envSB.
        destruct HT as [->|(a & b & ->)]; cbn [app]; steps4 (ext_sc_try c kr (Some rs)); reflexivity. }
      rewrite Hstep. clear Hstep.
      specialize (IH (i + 1)%N [("index", VInt (Z.of_N i)); ("resolved", VNil)]).
      rewrite N2Z.inj_add in IH. change (Z.of_N 1) with 1%Z in IH.
      unfold g_enc_header in IH. cbn [h_format h_version h_type h_a h_b h_rcvs] in IH. rewrite <- HRL in IH.
      apply IH.
      * right. eexists; eexists; reflexivity.
      * replace (N.to_nat (i + 1)) with (S (N.to_nat i)) by lia. exact Hskip'.
      * lia.
Qed.


Definition resolver_ok (rv : resolver) : Prop :=
  match rv with None => True | Some rs => resolver_keys_ok rs end.

(* (TARGET) trySharedSymmetricKeys = the model's sc_try_sym over the resolver ((nil, nil) without a
   resolver): the two results are exactly the encoding of the model's result, and the receiver object is
   unchanged.  Hypotheses: HMAC-SHA512 digests have at least 32 bytes (they have 64); a key the resolver
   returns is not the empty string (it is a non-nil pointer to 32 bytes; nil = not resolved); the number of
   receivers fits Go's int. *)
Lemma go_trySharedSymmetricKeys (kr : keyring) (rv : resolver) (hh : bytes) (h : header) (eph : bytes) :
  (forall k x, (32 <= List.length (hmac512 c k x))%nat) ->
  resolver_ok rv ->
  (N.of_nat (List.length (h_rcvs h)) < 9223372036854775808)%N ->
  let r := run_func2 (ext_sc_try c kr rv) f_saltpack_signcryptOpenStream_trySharedSymmetricKeys
                     [g_sos0 hh rv; g_enc_header h; VBytes eph] in
  option_map ORet (g_of_sc_try (sc_try_sym_rv c rv eph (h_rcvs h))) = Some (fst r) /\
  lookup "sos" (snd r) = Some (g_sos0 hh rv).
Proof.
  intros Hhm Hok Hlen. cbv zeta.
  assert (Hex : exists vs e',
    exec2 (ext_sc_try c kr rv) 300 [("sos", g_sos0 hh rv); ("hdr", g_enc_header h); ("ephemeralPub", VBytes eph)]
          (f_body f_saltpack_signcryptOpenStream_trySharedSymmetricKeys) = CRet vs e' /\
    lookup "sos" e' = Some (g_sos0 hh rv) /\
    g_of_sc_try (sc_try_sym_rv c rv eph (h_rcvs h)) = Some vs).
  { destruct (ts_loopA (ext_sc_try c kr rv) (g_sos0 hh rv) (g_enc_header h) (VBytes eph) (h_rcvs h) 0%Z [] [] (or_introl eq_refl))
      as (tl' & Hnil & Hcons & Hl1).
    cbn [app map] in Hl1.
    assert (Hrun : exec2 (ext_sc_try c kr rv) 300 [("sos", g_sos0 hh rv); ("hdr", g_enc_header h); ("ephemeralPub", VBytes eph)]
                         (f_body f_saltpack_signcryptOpenStream_trySharedSymmetricKeys)
                   = exec2 (ext_sc_try c kr rv) 298
                           (envS (g_sos0 hh rv) (g_enc_header h) (VBytes eph) (map VBytes (map fst (h_rcvs h))) tl') ts_restA).
    { cbv beta iota zeta delta [f_body f_saltpack_signcryptOpenStream_trySharedSymmetricKeys].
      unfold g_enc_header at 1.
      steps4 (ext_sc_try c kr rv).
      rewrite_head4 Hl1. reflexivity. }
    rewrite Hrun. clear Hrun Hl1.
    pose proof (ts_loopB kr) as HloopB.
    destruct h as [fmt [ma mi] ty ea eb rcvs]. cbn [h_rcvs] in *.
    pose proof (as_bytes_list_map (map fst rcvs)) as Habl.
    unfold ts_restA, envS, sc_try_sym_rv.
    destruct rv as [rs|]; unfold g_sos0, g_resolver.
    - (* a resolver *)
      assert (Hleq : (Z.of_nat (List.length (map (g_resolved rs) (map fst rcvs)))
                      =? Z.of_nat (List.length (map VBytes (map fst rcvs))))%Z = true)
        by (rewrite !map_length; apply Z.eqb_refl).
      specialize (HloopB rs (g_sos0 hh (Some rs)) (mkHeader fmt (mkV ma mi) ty ea eb rcvs) eph
                         (map VBytes (map fst rcvs))).
      unfold g_enc_header in *. cbn [h_format h_version h_type h_a h_b h_rcvs] in *.
      remember (map g_rcv rcvs) as RL eqn:HRL.
      destruct rcvs as [|r0 rcvs0] eqn:Ercvs.
      + rewrite (Hnil eq_refl). cbn [app sc_try_sym]. unfold bytes in *.
        eexists; eexists. split.
        { cbn [map] in Habl.
          repeat first [progress steps4 (ext_sc_try c kr (Some rs)) | progress cbn [map List.length] | rewrite range_loop2_nil].
          reflexivity. }
        split; reflexivity.
      + rewrite <- Ercvs in *.
        destruct Hcons as (a & ->); [rewrite Ercvs; discriminate|]. cbn [app].
        specialize (HloopB a (map (g_resolved rs) (map fst rcvs)) Hhm Hok rcvs 0%N [] (or_introl eq_refl) eq_refl ltac:(lia)).
        destruct HloopB as (vs & e' & Hrun & Hl & Hg).
        exists vs, e'. split; [|split; [exact Hl|exact Hg]].
        rewrite <- Hrun. unfold envSB, g_sos0, g_resolver. cbn [app]. unfold bytes in *.
        clear Hrun Hg. remember (map fst rcvs) as IDL eqn:HIDL in *.
        steps4 (ext_sc_try c kr (Some rs)). reflexivity.
    - (* no resolver *)
      destruct rcvs as [|r0 rcvs0].
      + rewrite (Hnil eq_refl). cbn [app].
        eexists; eexists. split; [steps4 (ext_sc_try c kr None); reflexivity|split; reflexivity].
      + destruct Hcons as (a & ->); [discriminate|]. cbn [app].
        eexists; eexists. split; [steps4 (ext_sc_try c kr None); reflexivity|split; reflexivity]. }
  destruct Hex as (vs & e' & Hrun & Hl & Hg).
  unfold run_func2. cbn [f_params f_results f_saltpack_signcryptOpenStream_trySharedSymmetricKeys bind_params map app].
  rewrite Hrun, Hg. cbn [fst snd option_map]. split; [reflexivity|exact Hl].
Qed.



(* ---------- processHeader ---------- *)
(* processHeader from the sender secretbox on, once a payload key [k0 :: k'] is in sos.payloadKey *)
Ltac sc_tail X HR R k0 k' eb signers :=
  run_hyp4 X HR;
  let sender := fresh "sender" in let Esb := fresh "Esb" in
  destruct (sb_open c (k0 :: k') nonce_sender_key_sbox eb) as [sender|] eqn:Esb;
  [|run_hyp4 X HR; subst R; reflexivity];
  run_hyp4 X HR;
  revert HR; rewrite Nat2Z.id, zeros_eqb; intros HR;
  let Ez := fresh "Ez" in
  destruct (all_zero sender) eqn:Ez;
  [ run_hyp4 X HR; subst R; split; reflexivity
  | let pk := fresh "pk" in let Els := fresh "Els" in
    destruct (lookup_signer signers sender) as [pk|] eqn:Els;
    [ pose proof (lookup_signer_some signers sender pk Els); subst pk;
      let s0 := fresh "s0" in let sender' := fresh "sender'" in
      destruct sender as [|s0 sender']; [discriminate Ez|];
      run_hyp4 X HR; subst R; split; reflexivity
    | run_hyp4 X HR; subst R; reflexivity ] ].

(* (TARGET) processHeader = the model's process_sc_header: same error class, and on success the
   receiver object holds exactly the model's payload key and signer (or anonymity), next to the
   header hash it was given.  No hypotheses. *)
Lemma go_signcrypt_processHeader (kr : keyring) (signers : sigring) (rv : resolver) (hh : bytes) (h : header) :
  let r := run_func2 (ext_sc_process c kr signers rv) f_saltpack_signcryptOpenStream_processHeader
                     [g_sos0 hh rv; g_enc_header h] in
  match process_sc_header c kr signers rv h with
  | Err e => g_sc_hdr_err (fst r) = Some e
  | Ok (pkey, signer) =>
    fst r = ORet [VNil] /\ lookup "sos" (snd r) = Some (g_sos pkey hh signer rv)
  end.
Proof.
  cbv zeta.
  unfold run_func2. cbn [f_params f_results f_saltpack_signcryptOpenStream_processHeader bind_params map app].
  remember (exec2 (ext_sc_process c kr signers rv) 300 [("sos", g_sos0 hh rv); ("hdr", g_enc_header h)]
                  (f_body f_saltpack_signcryptOpenStream_processHeader)) as R eqn:HR.
  symmetry in HR.
  destruct h as [fmt [ma mi] ty ea eb rcvs].
  unfold process_sc_header, validate_sc_header. cbn [h_format h_version h_type h_a h_b h_rcvs vmaj] in *.
  change (vmaj v2) with 2%Z.
  cbv beta iota zeta delta [f_body f_saltpack_signcryptOpenStream_processHeader] in HR.
  unfold g_enc_header, g_sos0 in HR. cbn [h_format h_version h_type h_a h_b h_rcvs] in HR.
  pose proof (as_header_rcvs_map rcvs) as Hahr.
  remember (map g_rcv rcvs) as RL eqn:HRL.
  (* validate *)
  destruct (bytes_eqb fmt format_name) eqn:Efmt; cbn [negb bind].
  2:{ run_hyp4 (ext_sc_process c kr signers rv) HR. subst R. reflexivity. }
  destruct (ty =? mt_signcryption)%Z eqn:Ety; cbn [negb bind].
  2:{ run_hyp4 (ext_sc_process c kr signers rv) HR. subst R. reflexivity. }
  destruct (ma =? 2)%Z eqn:Ema; pose proof (Ema : (ma =? Z.of_N 2)%Z = _) as Ema'; cbn [negb bind].
  2:{ run_hyp4 (ext_sc_process c kr signers rv) HR. subst R. reflexivity. }
  (* the ephemeral key *)
  destruct (Nat.eqb (List.length ea) 32) eqn:Eea; cbn [negb bind].
  2:{ run_hyp4 (ext_sc_process c kr signers rv) HR. subst R. reflexivity. }
  assert (Hea : exists a0 ea', ea = a0 :: ea') by (destruct ea; [discriminate|eexists; eexists; reflexivity]).
  destruct Hea as (a0 & ea' & ->).
  run_hyp4 (ext_sc_process c kr signers rv) HR.
  change (map (fun k => derived_box_key c (fst k) (a0 :: ea')) (kr_keys kr)) with (sc_derived_keys c kr (a0 :: ea')).
  (* the box keys *)
  pose proof (sc_try_box_cases (sc_derived_keys c kr (a0 :: ea')) rcvs 0) as Hbox.
  destruct (sc_try_box c (sc_derived_keys c kr (a0 :: ea')) rcvs 0) as [[k|]|e] eqn:Ebox; cbn [bind sc_try_ok] in *.
  3:{ destruct Hbox as [->| ->]; run_hyp4 (ext_sc_process c kr signers rv) HR; subst R; reflexivity. }
  - destruct k as [|k0 k']; [discriminate Hbox|].
    sc_tail (ext_sc_process c kr signers rv) HR R k0 k' eb signers.
  - (* no box key fits: the resolver *)
    run_hyp4 (ext_sc_process c kr signers rv) HR.
    destruct rv as [rs|].
    + pose proof (sc_try_sym_cases rs (a0 :: ea') rcvs 0) as Hsym.
      destruct (sc_try_sym c rs (a0 :: ea') rcvs 0) as [[k|]|e] eqn:Esym; cbn [bind sc_try_ok] in *.
      3:{ destruct Hsym as [->| ->]; run_hyp4 (ext_sc_process c kr signers (Some rs)) HR; subst R; reflexivity. }
      * destruct k as [|k0 k']; [discriminate Hsym|].
        sc_tail (ext_sc_process c kr signers (Some rs)) HR R k0 k' eb signers.
      * run_hyp4 (ext_sc_process c kr signers (Some rs)) HR; subst R; reflexivity.
    + cbn [bind]. run_hyp4 (ext_sc_process c kr signers None) HR; subst R; reflexivity.
Qed.

(* ---------- composition: what processHeader's externs say about the two try* methods is what the
   translated methods compute (on the receiver object and header processHeader passes them) ---------- *)
(* (TARGET) *)
Lemma ext_sc_process_tryBox (kr : keyring) (signers : sigring) (rv : resolver) (hh : bytes) (h : header) (eph : bytes) :
  (N.of_nat (List.length (h_rcvs h)) < 9223372036854775808)%N ->
  option_map ORet (ext_sc_process c kr signers rv "signcryptOpenStream.tryBoxSecretKeys"
                                  [g_sos0 hh rv; g_enc_header h; VBytes eph])
  = Some (fst (run_func2 (ext_sc_try c kr rv) f_saltpack_signcryptOpenStream_tryBoxSecretKeys
                         [g_sos0 hh rv; g_enc_header h; VBytes eph])).
Proof.
  intros Hlen. destruct (go_tryBoxSecretKeys kr rv hh h eph Hlen) as [Hr _]. cbv zeta in Hr.
  rewrite <- Hr. clear Hr.
  pose proof (as_header_rcvs_map (h_rcvs h)) as Hahr.
  unfold ext_sc_process, g_sos0, g_enc_header.
  cbv [String.eqb Ascii.eqb Bool.eqb lookup]. rewrite Hahr. reflexivity.
Qed.

(* (TARGET) *)
Lemma ext_sc_process_trySym (kr : keyring) (signers : sigring) (rv : resolver) (hh : bytes) (h : header) (eph : bytes) :
  (forall k x, (32 <= List.length (hmac512 c k x))%nat) ->
  resolver_ok rv ->
  (N.of_nat (List.length (h_rcvs h)) < 9223372036854775808)%N ->
  option_map ORet (ext_sc_process c kr signers rv "signcryptOpenStream.trySharedSymmetricKeys"
                                  [g_sos0 hh rv; g_enc_header h; VBytes eph])
  = Some (fst (run_func2 (ext_sc_try c kr rv) f_saltpack_signcryptOpenStream_trySharedSymmetricKeys
                         [g_sos0 hh rv; g_enc_header h; VBytes eph])).
Proof.
  intros Hhm Hok Hlen. destruct (go_trySharedSymmetricKeys kr rv hh h eph Hhm Hok Hlen) as [Hr _]. cbv zeta in Hr.
  rewrite <- Hr. clear Hr.
  pose proof (as_header_rcvs_map (h_rcvs h)) as Hahr.
  unfold ext_sc_process, g_sos0, g_enc_header.
  cbv [String.eqb Ascii.eqb Bool.eqb lookup]. rewrite Hahr. reflexivity.
Qed.

(* (TARGET) the fields processBlock reads in the object processHeader leaves are those of [g_sc_state],
   the object go_signcrypt_processBlock (GoAstProofs2.v) is stated on *)
Lemma sos_fields_sc_state (pkey hh : bytes) (signer : option bytes) (rv : resolver) (f : string) :
  In f ["headerHash"; "payloadKey"; "senderAnonymous"; "signingPublicKey"] ->
  match g_sos pkey hh signer rv, g_sc_state pkey hh signer with
  | VStruct a, VStruct b => lookup f a = lookup f b
  | _, _ => False
  end.
Proof. intros [<-|[<-|[<-|[<-|[]]]]]; reflexivity. Qed.

End ScProofs.

(* checkEncryptReceivers: not expressible with the evaluator as it stands (EMapGet on an absent key yields
   VNil rather than the value type's zero); left for a later extension of model/GoLang.v. *)


