(* GoAstProofs6a.v -- source ties for the SIGNING senders (/repo/sign_stream.go): the bodies of
   makeSignatureBlock, signAttachedStream.{computeSig, signBlock, Write, Close}, newSignAttachedStream,
   newSignDetachedStream and signDetachedStream.{Write, Close}, as translated on this run from the Go syntax
   trees (gen/GoAstSign.v), run by the evaluator of model/GoLang2.v on ENCODED arguments and receiver objects,
   compute exactly what the specification functions of this file compute (every return value, the error
   value, the state left in the receiver), and those specification functions are, on the in-memory writer,
   the model's signers (model/Sign.v: sign_packets, sign_attached_stream, sign_detached; model/Chunker.v:
   cw_write, cw_close, cw_session).

   HOW THE OBJECTS ARE REPRESENTED
   - *signAttachedStream: [g_sas st], st = (version, headerHash, encoder, secretKey, seqno, buffer = the unread
     bytes of s.buffer).  The encoder object is an ARBITRARY value; what encoder.Encode(x) does to it (and so to the
     writer underneath, which may fail) is the section variable [enc_step : encoder -> packet bytes -> encoder' *
     error]: every lemma of the Go side holds for every such step function.  [mem_enc] (bytes written so far,
     never fails) is the in-memory writer of Sign/SignDetached; the model-side theorems are about it.
   - the packet handed to encoder.Encode is read back as the MessagePack value go-codec writes for it
     ([as_packet]: signatureBlockV1 = [sig, chunk], signatureBlockV2 (CodecEncodeSelf) = [final, sig, chunk],
     a byte string = bin) and encoded with the model's mp_encode.
   - the signing key object is the model's secret key ([g_sk]); Sign is ed_sign (it never fails in the model),
     GetPublicKey/ToKID are ed_pub.
   - bytes.Buffer (Write/Next/Len) and hash.Hash (Write/Sum) are externs over the buffered / hashed bytes.
   - the randomness source is not an argument of the Go constructors (crypto/rand.Reader is process-wide): the
     extern table [ext_new r] is indexed by the stream r the source will deliver; newSignatureHeader draws
     read_full 16 r (model/Rand.v), a short or failing source is ErrRand.
   - a callee that PANICS cannot be an extern result: such a call has no value and the evaluator reports
     OStuck "extern" (a call statement) or OStuck "call" (a call in an assignment).  The specification
     functions carry these outcomes explicitly (BStuck / WStuck / CloseStuck) and the model-side theorems
     show they are exactly the model's Panic results (and do not occur in a session).

   TARGETS (each marked (TARGET) below), with every hypothesis
   Go side (evaluator = specification function):
   - go_makeSignatureBlock: for every version, signature, chunk and flag the function returns the V1 block
     object for Version1(), the V2 block object for Version2(), and panics otherwise.  No hypothesis.
     mk_sig_block_model: that object is written as the model's packet mv_sig_block v sig (MBin chunk) final
     exactly when known_version v.
   - go_computeSig: returns (ed_sign sk (attached_sig_input v hh chunk seqno final), nil); for a version with
     no signature input (attachedSignatureInput panics) the evaluator reports OStuck "call".  No hypothesis.
   - go_signBlock: signBlock(isFinal) = sas_block: takes up to 1 MiB off the buffer, asserts
     (checkSignBlockRead / assertEncodedChunkState: BStuck where they panic), signs, hands the packet to the
     encoder; returns the encoder's error (seqno unchanged) or nil (seqno+1 mod 2^64); the receiver holds the
     new buffer, encoder and seqno.  Hypothesis: sas_seq st < 2^64 (s.seqno is a uint64).
   - go_signAttachedStream_Write / _Write_300: Write(p) = sas_write F: p appended to the buffer, then while more
     than 1 MiB is buffered signBlock(false); returns (len p, nil), or (0, err) at the first block whose
     signBlock fails; receiver state as left.  Hypothesis: 5 <= F, where F is the number of turns the EVALUATOR
     gives a loop (run_func2_at (F+3)); sas_write F reports WStuck "loop fuel" when F or more blocks would
     have to be flushed (a bound on the evaluator, not on the Go code).  _300 is the instance F = 297 of
     run_func2.  The extern signAttachedStream.signBlock has the meaning proved in go_signBlock.
   - go_signAttachedStream_Close: Close() = sas_close, every version: Version1: flush a non-empty buffer with
     signBlock(false) (error returned; panic if bytes remain), then return signBlock(true); Version2:
     signBlock(true), error returned, panic if bytes remain; any other version panics.  Result, error and
     receiver state.  No hypothesis.  (The translator renders `return s.signBlock(true)` as
     `r'0 := s.signBlock(true); return r'0`, so the receiver left by that last call is observed.)
   - go_newSignAttachedStream: = sas_new: ErrBadVersion unless known_version, ErrInvalidParameter for a nil
     signer, ErrRand when the randomness source cannot give 16 bytes, the encoder's error if writing the
     header packet fails, else the object {version, headerHash = sha512 of the model's header bytes
     (sig_header_bytes with the nonce drawn), encoder after the double-encoded header, secretKey}.  No
     hypothesis.  The composite literal omits seqno and buffer: the translator lists seqno = 0 after the given
     fields but not buffer (a bytes.Buffer, a struct of another package), and the evaluator keeps only
     written fields: [sas_complete] adds the empty buffer (sas_complete_new).
   - go_newSignDetachedStream: = sds_new: as above with the detached message type; the returned object holds
     the digest state headerHash (the bytes hashed so far).  No hypothesis.
   - go_signDetachedStream_Write: returns (len p, nil) and appends p to the digest state.  No hypothesis.
   - go_signDetachedStream_Close: returns exactly what encoder.Encode returns on the packet
     bin(ed_sign sk (detached prefix ++ sha512 (bytes hashed))), for EVERY encoder step function (so the
     packet bytes are pinned down).  No hypothesis.  LIMIT: `return s.encoder.Encode(signature)` is an
     interface-method call in return position, where GoLang.eval takes exactly one result and cannot write
     the encoder back: the encoder state after Close is not expressible; the receiver is shown unchanged.
   Model side (specification function = model, in-memory writer [mem_enc], encoder = VBytes out):
   - sas_block_from_model: one signBlock = one packet of sign_packets appended to out, seqno+1; the model's
     Panic 3/4 = BStuck.  Hypotheses: the read check holds (established by Write/Close, see below), seqno+1 < 2^64.
   - sas_write_model: Write flushes exactly fst (cw_write 1MiB buf p), signed as sign_packets signs them from
     seqno on, and leaves snd (cw_write ..) buffered.  Hypotheses: known_version (checked by the constructor),
     number of blocks < F (evaluator), seqno + blocks < 2^64 (uint64 counter).
   - sas_close_model: Close writes sign_packets (cw_close v 1MiB buf) and empties the buffer; where the model
     reports a panic (V2, empty final chunk after packet 0) Close is CloseStuck.  Hypotheses: known_version,
     at most 1 MiB buffered (what every Write leaves: cw_write_bounded), seqno + 2 < 2^64.
   - sas_session_model: constructor, one Write per piece, Close, on the empty in-memory writer write exactly the
     bytes of sign_attached_stream.  Hypotheses: the model succeeds; packets < F; packets + 2 < 2^64.
   - sds_session_model: constructor, Writes, Close of the detached signer hand the writer exactly the bytes of
     sign_detached on the concatenated pieces.  Hypothesis: the model succeeds.

   The section Examples at the end evaluates both sides of the statements on concrete inputs (success and
   error paths, toy primitives).  Write with real 1 MiB blocks (one and two blocks flushed, V1/V2, an unknown
   version, a failing writer) was checked the same way outside this file (vm_compute, about 6 minutes).

   NOT EXPRESSIBLE
   - f_saltpack_checkSignBlockRead: its first statement binds a function literal (`die := func() {..}`, EUnsup
     "*ast.FuncLit"): the evaluator is stuck there for all arguments (go_checkSignBlockRead_not_expressible).
     What can be said: the statements after the literal, with die() a call that does not return, fall
     through exactly when [read_ok] holds, reach die() on the four conditions of the source and panic on an
     unknown version (go_checkSignBlockRead_tail); signBlock's extern checkSignBlockRead is that [read_ok]. *)
From Coq Require Import List String NArith ZArith Bool Lia.
From Coq.Strings Require Import Byte.
From SP Require Import Bytes Consts Params Msgpack Crypto Errors Nonce Packets Chunker Rand Sign
                       GoLang GoLang2 GoAst GoAstProofs GoAstProofs2 GoAstProofs3 GoAstProofs4c.
From SP Require Import GoAstSign ChunkerProofs ToyCrypto.
Import ListNotations.
Local Open Scope string_scope.

(* ================= encodings ================= *)
(* an error value of Go: nil or a named error with its arguments *)
Definition gerr := option (string * list gval).
Definition g_errv (e : gerr) : gval := match e with None => VNil | Some (n, a) => VErr n a end.

(* a signing secret key object: the model's secret key bytes *)
Definition g_sk (sk : bytes) : gval := VStruct [("sk", VBytes sk)].
Definition as_sk (v : gval) : option bytes := match v with VStruct [("sk", VBytes s)] => Some s | _ => None end.

(* the value handed to encoder.Encode, as the MessagePack value go-codec writes for it:
   a byte string (the header bytes encoded a second time, the detached signature), a signatureBlockV1
   (toarray) or a signatureBlockV2 (CodecEncodeSelf: [IsFinal, Signature, PayloadChunk]); a nil byte
   slice is written as nil *)
Definition as_bin (v : gval) : option mval :=
  match v with VBytes b => Some (MBin b) | VNil => Some MNil | _ => None end.
Definition as_packet (v : gval) : option mval :=
  match v with
  | VBytes b => Some (MBin b)
  | VStruct [("Signature", s); ("PayloadChunk", ch)] =>
    match as_bin s, as_bin ch with Some a, Some b => Some (MArr [a; b]) | _, _ => None end
  | VStruct [("signatureBlockV1", VStruct [("Signature", s); ("PayloadChunk", ch)]); ("IsFinal", VBool f)] =>
    match as_bin s, as_bin ch with Some a, Some b => Some (MArr [MBool f; a; b]) | _, _ => None end
  | _ => None
  end.

(* the fields of *signAttachedStream.  [sas_enc] is the encoder object (the go-codec encoder over the
   output writer): an arbitrary value whose meaning is given by the section variable [enc_step] below
   (the in-memory writer, whose state is the bytes written so far, is the instance [mem_enc]);
   [sas_buf] is the unread content of s.buffer; [sas_seq] is s.seqno (uint64).
   The order of the fields is that of the composite literal of newSignAttachedStream as translated (the given
   fields, then the omitted seqno with its zero value), followed by buffer, which the literal omits and the
   translator does not list (a bytes.Buffer: a struct of another package). *)
Record sas_state := mkSas {
  sas_v : version; sas_hh : bytes; sas_enc : gval; sas_sk : bytes; sas_buf : bytes; sas_seq : N }.

Definition g_sas (st : sas_state) : gval :=
  VStruct [("version", g_version (sas_v st)); ("headerHash", VBytes (sas_hh st)); ("encoder", sas_enc st);
           ("secretKey", g_sk (sas_sk st)); ("seqno", VInt (Z.of_N (sas_seq st))); ("buffer", VBytes (sas_buf st))].

Definition as_sas (v : gval) : option sas_state :=
  match v with
  | VStruct [("version", ver); ("headerHash", VBytes hh); ("encoder", w); ("secretKey", k);
             ("seqno", VInt n); ("buffer", VBytes buf)] =>
    match as_version ver, as_sk k with
    | Some v, Some sk => Some (mkSas v hh w sk buf (Z.to_N n))
    | _, _ => None
    end
  | _ => None
  end.

Lemma as_sas_g_sas (st : sas_state) : as_sas (g_sas st) = Some st.
Proof. destruct st as [[ma mi] hh w sk buf n]. unfold g_sas, as_sas. cbn. rewrite N2Z.id. reflexivity. Qed.

Definition set_buf (st : sas_state) (b : bytes) : sas_state :=
  mkSas (sas_v st) (sas_hh st) (sas_enc st) (sas_sk st) b (sas_seq st).
Definition set_enc (st : sas_state) (w : gval) : sas_state :=
  mkSas (sas_v st) (sas_hh st) w (sas_sk st) (sas_buf st) (sas_seq st).
Definition set_seq (st : sas_state) (n : N) : sas_state :=
  mkSas (sas_v st) (sas_hh st) (sas_enc st) (sas_sk st) (sas_buf st) n.

(* Version1() / Version2() *)
Definition ext_ver : externs := fun fn args =>
  if String.eqb fn "Version1" then Some [g_version v1]
  else if String.eqb fn "Version2" then Some [g_version v2]
  else None.

(* makeSignatureBlock: the block object for Version1() / Version2(), a panic otherwise *)
Definition mk_sig_block (v : version) (sig chunk : gval) (final : bool) : option gval :=
  if version_eqb v v1 then Some (VStruct [("Signature", sig); ("PayloadChunk", chunk)])
  else if version_eqb v v2 then
    Some (VStruct [("signatureBlockV1", VStruct [("Signature", sig); ("PayloadChunk", chunk)]); ("IsFinal", VBool final)])
  else None.

(* signatureBlockSize as the number the code passes to buffer.Next *)
Definition blk : nat := Z.to_nat 1048576.
Lemma blk_sig_block_size : blk = sig_block_size.
Proof. unfold blk, sig_block_size, c_saltpack_signatureBlockSize. reflexivity. Qed.

(* checkSignBlockRead(version, isFinal, blockSize, chunkLen, bufLen) does not panic (the function itself
   is not expressible, see the head of the file; [go_checkSignBlockRead_tail] ties this reading to the
   statements that follow the function literal) *)
Definition read_ok (v : version) (final : bool) (bs cl bl : Z) : bool :=
  negb (bs <? cl)%Z && negb ((cl <? bs)%Z && (0 <? bl)%Z) &&
  (if version_eqb v v1 then Bool.eqb final (cl =? 0)%Z
   else if version_eqb v v2 then negb (final && negb (bl =? 0)%Z)
   else false).

(* assertEncodedChunkState(version, chunk, overhead, blockIndex, isFinal) does not panic *)
Definition chunk_ok (v : version) (ch : bytes) (ov : Z) (n : N) (final : bool) : bool :=
  negb (Z.of_nat (List.length ch) <? ov)%Z &&
  match check_chunk_state v (Z.to_nat (Z.of_nat (List.length ch) - ov)) n final with Ok _ => true | Err _ => false end.

Definition two64 : N := 18446744073709551616.

Inductive bres := BStuck (w : string) | BRet (e : gerr) (st : sas_state).
Inductive wres := WStuck (w : string) | WRet (n : Z) (e : gerr) (st : sas_state).
Inductive cres := CloseStuck (w : string) | ClosePanic | CloseRet (e : gerr) (st : sas_state).

Section Signer.
Variable c : crypto.
(* encoder.Encode(x): what encoding the packet bytes of x does to the encoder object (the bytes reach
   the underlying writer, which may fail) and the error it returns *)
Variable enc_step : gval -> bytes -> gval * gerr.

(* the key object and the saltpack functions computeSig calls *)
Definition ext_sig : externs := fun fn args =>
  if String.eqb fn "SigningSecretKey.Sign" then
    match args with
    | [k; VBytes m] => match as_sk k with Some sk => Some [VBytes (ed_sign c sk m); VNil] | None => None end
    | _ => None
    end
  else if String.eqb fn "Version1" then Some [g_version v1]
  else if String.eqb fn "Version2" then Some [g_version v2]
  else ext_model c fn args.

(* the calls of signBlock: bytes.Buffer, the two assertions (no value = the callee panics), computeSig and
   makeSignatureBlock with the meaning proved below (go_computeSig, go_makeSignatureBlock), the encoder *)
Definition ext_block : externs := fun fn args =>
  if String.eqb fn "Buffer.Next" then
    match args with
    | [cur; VInt n] =>
      match vbytes_of cur with
      | Some b => if Z.ltb n 0 then None else Some [VBytes (firstn (Z.to_nat n) b); VBytes (skipn (Z.to_nat n) b)]
      | None => None
      end
    | _ => None
    end
  else if String.eqb fn "Buffer.Len" then
    match args with
    | [cur] => match vbytes_of cur with Some b => Some [VInt (Z.of_nat (List.length b))] | None => None end
    | _ => None
    end
  else if String.eqb fn "checkSignBlockRead" then
    match args with
    | [ver; VBool f; VInt bs; VInt cl; VInt bl] =>
      match as_version ver with
      | Some v => if read_ok v f bs cl bl then Some [] else None
      | None => None
      end
    | _ => None
    end
  else if String.eqb fn "signAttachedStream.computeSig" then
    match args with
    | [s; ch; VInt seq; VBool f] =>
      match as_sas s, vbytes_of ch with
      | Some st, Some chunk =>
        match attached_sig_input c (sas_v st) (sas_hh st) chunk (Z.to_N seq) f with
        | Some inp => Some [VBytes (ed_sign c (sas_sk st) inp); VNil]
        | None => None
        end
      | _, _ => None
      end
    | _ => None
    end
  else if String.eqb fn "assertEncodedChunkState" then
    match args with
    | [ver; VBytes ch; VInt ov; VInt idx; VBool f] =>
      match as_version ver with
      | Some v => if chunk_ok v ch ov (Z.to_N idx) f then Some [] else None
      | None => None
      end
    | _ => None
    end
  else if String.eqb fn "makeSignatureBlock" then
    match args with
    | [ver; sig; ch; VBool f] =>
      match as_version ver with
      | Some v => match mk_sig_block v sig ch f with Some b => Some [b] | None => None end
      | None => None
      end
    | _ => None
    end
  else if String.eqb fn "encoder.Encode" then
    match args with
    | [w; x] =>
      match as_packet x with
      | Some m => let r := enc_step w (mp_encode m) in Some [g_errv (snd r); fst r]
      | None => None
      end
    | _ => None
    end
  else ext_sig fn args.

(* ---------- signBlock: the specification ---------- *)
(* everything after `chunk := s.buffer.Next(signatureBlockSize)`: [ch] is the chunk taken, [rest] what
   stays in the buffer *)
Definition sas_block_from (st : sas_state) (final : bool) (ch rest : bytes) : bres :=
  let st1 := set_buf st rest in
  if negb (read_ok (sas_v st) final 1048576 (Z.of_nat (List.length ch)) (Z.of_nat (List.length rest))) then BStuck "extern"
  else
    match attached_sig_input c (sas_v st) (sas_hh st) ch (sas_seq st) final with
    | None => BStuck "call"
    | Some inp =>
      let sig := ed_sign c (sas_sk st) inp in
      if negb (chunk_ok (sas_v st) ch 0 (sas_seq st) final) then BStuck "extern"
      else
        let r := enc_step (sas_enc st) (mp_encode (mv_sig_block (sas_v st) sig (MBin ch) final)) in
        match snd r with
        | Some e => BRet (Some e) (set_enc st1 (fst r))
        | None => BRet None (set_seq (set_enc st1 (fst r)) ((sas_seq st + 1) mod two64))
        end
    end.
Definition sas_block (st : sas_state) (final : bool) : bres :=
  sas_block_from st final (firstn blk (sas_buf st)) (skipn blk (sas_buf st)).


(* ---------- stepping tactics (copies of those of GoAstProofs3.v, which are local to its section; the
   list of constants kept folded is this file's) ---------- *)
Ltac use_head_hyp6 :=
  lazymatch goal with
  | |- ?G =>
    let L := lazymatch G with (?L = _ -> _) => L | ?L = _ => L | _ => G end in
    let h := head_scrut3 L in
    match goal with H : h = _ |- _ => rewrite H end
  end; cbv beta iota.
Ltac ev_in6 h :=
  eval cbv -[Z.eqb Z.ltb Z.leb Z.add Z.sub Z.mul Z.modulo Z.rem Z.quot Z.shiftr Z.shiftl Z.opp
             Z.land Z.lor Z.lxor Z.lnot Z.of_nat Z.of_N Z.to_nat Z.to_N List.length nth_error
             firstn skipn bytes_eqb' bytes_eqb Byte.to_N Byte.of_N N.mul N.ltb N.eqb N.add N.leb b2n n2b Nat.eqb
             Nat.leb Nat.ltb N.div N.modulo nth map app
             sha512 hmac512 ed_sign ed_pub attached_sig_input detached_sig_input_from_hash
             mp_encode mv_sig_block check_chunk_state version_eqb blk two64 read_ok chunk_ok
             sas_block sas_block_from
             range_loop2 for_loop2 exec2] in h.
Ltac ev_term6 X h :=
  lazymatch h with
  | X ?fn ?args => let h' := ev_in6 h in progress (change h with h'); cbv beta iota
  | _ =>
    let p := eval pattern X in h in
    lazymatch p with
    | ?g _ => let g' := ev_in6 g in
              let h' := eval cbv beta in (g' X) in
              progress (change h with h'); cbv beta iota
    end
  end.
Ltac norm_env6 h x f e ss k :=
  let e' := ev_in6 e in
  tryif constr_eq e e' then k e
  else (change h with (exec2 x (S f) e' ss); k e').
Ltac fix_lvars6 :=
  repeat match goal with
  | |- context [lvars ?l] => let r := eval cbv [lvars map] in (lvars l) in change (lvars l) with r
  end.
Ltac step6 X :=
  lazymatch goal with
  | |- ?G =>
    let L := lazymatch G with (?L = _ -> _) => L | ?L = _ => L | _ => G end in
    let h := head_scrut3 L in
    lazymatch h with
    | exec2 ?x (S ?f) ?e (SFor ?c ?b :: ?rest) =>
      norm_env6 h x f e (SFor c b :: rest) ltac:(fun e' => rewrite exec2_for)
    | exec2 ?x (S ?f) ?e ?ss =>
      tryif is_var ss then fail else
      norm_env6 h x f e ss ltac:(fun e' => rewrite (exec2_S x f e' ss); cbv beta iota zeta); fix_lvars6; cbv beta iota
    | for_loop2 _ _ _ _ _ _ _ => fail
    | _ => ev_term6 X h
    end
  end.
(* closed integer arithmetic; unlike lits1, never expands Z.to_nat of a big literal (the block size) *)
Ltac lits1' :=
  match goal with
  | |- context [Z.ltb ?a ?b] => is_Zlit a; is_Zlit b; let r := eval cbv in (Z.ltb a b) in change (Z.ltb a b) with r
  | |- context [Z.leb ?a ?b] => is_Zlit a; is_Zlit b; let r := eval cbv in (Z.leb a b) in change (Z.leb a b) with r
  | |- context [Z.eqb ?a ?b] => is_Zlit a; is_Zlit b; let r := eval cbv in (Z.eqb a b) in change (Z.eqb a b) with r
  | |- context [Z.add ?a ?b] => is_Zlit a; is_Zlit b; let r := eval cbv in (Z.add a b) in change (Z.add a b) with r
  | |- context [Z.sub ?a ?b] => is_Zlit a; is_Zlit b; let r := eval cbv in (Z.sub a b) in change (Z.sub a b) with r
  end; cbv beta iota.
Ltac is_Nlit n := lazymatch n with N0 => idtac | Npos ?p => is_poslit p end.
Ltac lits6 :=
  match goal with
  | |- context [Z.of_N ?n] => is_Nlit n; let r := eval cbv in (Z.of_N n) in change (Z.of_N n) with r
  end; cbv beta iota.
Ltac fold_v := change v1 with (mkV 1 0) in *; change v2 with (mkV 2 0) in *.
Ltac slice6 := progress (rewrite ?N2Z.id, ?len_ltb0, ?app_nil_r); cbv beta iota.
(* recorded facts about uint64 wrap-around *)
Ltac extra6 := match goal with H : (_ mod _)%Z = _ |- _ => rewrite H end; cbv beta iota.
Ltac steps6 X := repeat first [step6 X | use_head_hyp6 | lits1' | lits2 | lits3 | lits6 | slice6 | extra6].
Ltac start6 F :=
  cbv beta iota zeta delta [run_func2 f_body f_params f_results F];
  lazymatch goal with
  | |- context [bind_params ?a ?b] =>
    let r := eval cbv [bind_params] in (bind_params a b) in change (bind_params a b) with r; cbv beta iota
  end;
  change (@map (string * string) (string * gval) _ []) with (@nil (string * gval));
  change (@app (string * gval) ?l []) with l.
Ltac rewrite_head6 Heq :=
  lazymatch goal with
  | |- ?L = _ =>
    let h := head_scrut3 L in
    lazymatch type of Heq with
    | _ = ?r => replace h with r by (symmetry; exact Heq)
    end
  end; cbv beta iota.
Ltac steps6_to n X :=
  repeat (lazymatch goal with |- exec2 _ n _ _ = _ => fail | _ => idtac end;
          first [step6 X | use_head_hyp6 | lits1' | lits2 | lits3 | lits6 | slice6 | extra6]).

Lemma version_eqb_v1 (ma mi : Z) : version_eqb (mkV ma mi) v1 = ((ma =? 1)%Z && (mi =? 0)%Z).
Proof. reflexivity. Qed.
Lemma version_eqb_v2 (ma mi : Z) : version_eqb (mkV ma mi) v2 = ((ma =? 2)%Z && (mi =? 0)%Z).
Proof. reflexivity. Qed.

(* ================= makeSignatureBlock ================= *)
(* (TARGET) *)
Lemma go_makeSignatureBlock (v : version) (sig chunk : bytes) (final : bool) :
  fst (run_func2 ext_ver f_saltpack_makeSignatureBlock [g_version v; VBytes sig; VBytes chunk; VBool final])
  = match mk_sig_block v (VBytes sig) (VBytes chunk) final with Some b => ORet [b] | None => OPanic end.
Proof.
  destruct v as [ma mi]. unfold mk_sig_block. rewrite version_eqb_v1, version_eqb_v2.
  start6 f_saltpack_makeSignatureBlock. unfold g_version. cbn [vmaj vmin].
  destruct (ma =? 1)%Z eqn:E1; [destruct (mi =? 0)%Z eqn:E3|]; cbn [andb].
  - steps6 ext_ver. reflexivity.
  - destruct (ma =? 2)%Z eqn:E2; cbn [andb]; steps6 ext_ver; reflexivity.
  - destruct (ma =? 2)%Z eqn:E2; [destruct (mi =? 0)%Z eqn:E3|]; cbn [andb]; steps6 ext_ver; reflexivity.
Qed.

(* ================= computeSig ================= *)
(* (TARGET) *)
Lemma go_computeSig (st : sas_state) (chunk : bytes) (seqno : N) (final : bool) :
  fst (run_func2 ext_sig f_saltpack_signAttachedStream_computeSig [g_sas st; VBytes chunk; VInt (Z.of_N seqno); VBool final])
  = match attached_sig_input c (sas_v st) (sas_hh st) chunk seqno final with
    | Some inp => ORet [VBytes (ed_sign c (sas_sk st) inp); VNil]
    | None => OStuck "call"
    end.
Proof.
  destruct st as [[ma mi] hh w sk buf n]. cbn [sas_v sas_hh sas_sk].
  start6 f_saltpack_signAttachedStream_computeSig. unfold g_sas. cbn [sas_v sas_hh sas_enc sas_sk sas_buf sas_seq].
  destruct (attached_sig_input c (mkV ma mi) hh chunk seqno final) as [inp|] eqn:Ea.
  - steps6 ext_sig. reflexivity.
  - steps6 ext_sig. reflexivity.
Qed.
(* ================= signBlock ================= *)
Definition sb_after_next : list gstmt :=
  Eval cbv in skipn 1 (f_body f_saltpack_signAttachedStream_signBlock).
(* the environment after `chunk := s.buffer.Next(..)` *)
Definition env_next (st : sas_state) (final : bool) (ch rest : bytes) : env :=
  [("s", g_sas (set_buf st rest)); ("isFinal", VBool final); ("chunk", VBytes ch)].

Lemma read_ok_version (ma mi : Z) (final : bool) (bs cl bl : Z) :
  read_ok (mkV ma mi) final bs cl bl = true ->
  (version_eqb (mkV ma mi) (mkV 1 0) = true /\ (ma =? 1)%Z = true) \/
  (version_eqb (mkV ma mi) (mkV 1 0) = false /\ version_eqb (mkV ma mi) (mkV 2 0) = true /\ (ma =? 1)%Z = false).
Proof.
  unfold read_ok. fold_v. intros H.
  destruct (version_eqb (mkV ma mi) (mkV 1 0)) eqn:E1.
  - left. split; [reflexivity|]. unfold version_eqb in E1. cbn [vmaj vmin] in E1. apply andb_prop in E1. tauto.
  - right. destruct (version_eqb (mkV ma mi) (mkV 2 0)) eqn:E2; [|rewrite andb_false_r in H; discriminate].
    split; [reflexivity|]. split; [reflexivity|]. unfold version_eqb in E2. cbn [vmaj vmin] in E2. apply andb_prop in E2. lia.
Qed.

Lemma sb_tail_exec (st : sas_state) (final : bool) (ch rest : bytes) :
  (sas_seq st < two64)%N ->
  match sas_block_from st final ch rest with
  | BStuck w => exec2 ext_block 299 (env_next st final ch rest) sb_after_next = CStuck w
  | BRet e st' => exists env', exec2 ext_block 299 (env_next st final ch rest) sb_after_next = CRet [g_errv e] env' /\
                               lookup "s" env' = Some (g_sas st')
  end.
Proof.
  destruct st as [[ma mi] hh w sk buf n]. cbn [sas_seq]. intros Hn.
  unfold sas_block_from, env_next, sb_after_next, g_sas.
  cbn [sas_v sas_hh sas_enc sas_sk sas_buf sas_seq set_buf set_enc set_seq].
  assert (Hmod : (Z.of_N n mod 18446744073709551616)%Z = Z.of_N n) by (apply Z.mod_small; unfold two64 in Hn; lia).
  assert (Hinc : ((Z.of_N n + 1) mod 18446744073709551616)%Z = Z.of_N ((n + 1) mod two64)).
  { unfold two64. rewrite N2Z.inj_mod by lia. rewrite N2Z.inj_add. reflexivity. }
  destruct (read_ok (mkV ma mi) final 1048576 (Z.of_nat (List.length ch)) (Z.of_nat (List.length rest))) eqn:Hr; cbn [negb].
  2:{ destruct ch as [|b0 ch']; steps6 ext_block; reflexivity. }
  destruct (attached_sig_input c (mkV ma mi) hh ch n final) as [inp|] eqn:Ea.
  2:{ destruct ch as [|b0 ch']; steps6 ext_block; reflexivity. }
  destruct (chunk_ok (mkV ma mi) ch 0 n final) eqn:Hc; cbn [negb].
  2:{ destruct ch as [|b0 ch']; steps6 ext_block; reflexivity. }
  destruct (read_ok_version _ _ _ _ _ _ Hr) as [[E1 Em]|[E1 [E2 Em]]]; unfold mv_sig_block; cbn [vmaj]; rewrite Em.
  - destruct (enc_step w (mp_encode (MArr [MBin (ed_sign c sk inp); MBin ch]))) as [w' [[en ea]|]] eqn:Eenc; cbn [fst snd].
    + eexists. split; [destruct ch as [|b0 ch']; steps6 ext_block; reflexivity|exact eq_refl].
    + eexists. split; [destruct ch as [|b0 ch']; steps6 ext_block; reflexivity|exact eq_refl].
  - destruct (enc_step w (mp_encode (MArr [MBool final; MBin (ed_sign c sk inp); MBin ch]))) as [w' [[en ea]|]] eqn:Eenc; cbn [fst snd].
    + eexists. split; [destruct ch as [|b0 ch']; steps6 ext_block; reflexivity|exact eq_refl].
    + eexists. split; [destruct ch as [|b0 ch']; steps6 ext_block; reflexivity|exact eq_refl].
Time Qed.

(* (TARGET) *)
Lemma go_signBlock (st : sas_state) (final : bool) :
  (sas_seq st < two64)%N ->
  let r := run_func2 ext_block f_saltpack_signAttachedStream_signBlock [g_sas st; VBool final] in
  match sas_block st final with
  | BStuck w => fst r = OStuck w
  | BRet e st' => fst r = ORet [g_errv e] /\ lookup "s" (snd r) = Some (g_sas st')
  end.
Proof.
  intros Hn. cbv zeta. unfold sas_block.
  pose proof (sb_tail_exec st final (firstn blk (sas_buf st)) (skipn blk (sas_buf st)) Hn) as Ht.
  assert (Hrun : exec2 ext_block 300 [("s", g_sas st); ("isFinal", VBool final)]
                       (f_body f_saltpack_signAttachedStream_signBlock)
                 = exec2 ext_block 299 (env_next st final (firstn blk (sas_buf st)) (skipn blk (sas_buf st))) sb_after_next).
  { clear Ht. destruct st as [[ma mi] hh w sk buf n].
    unfold env_next, sb_after_next, g_sas, blk.
    cbn [sas_v sas_hh sas_enc sas_sk sas_buf sas_seq set_buf].
    cbv beta iota zeta delta [f_body f_saltpack_signAttachedStream_signBlock].
    steps6_to 299%nat ext_block. reflexivity. }
  unfold run_func2. cbn [f_params f_results f_saltpack_signAttachedStream_signBlock bind_params map app].
  rewrite Hrun. clear Hrun.
  destruct (sas_block_from st final (firstn blk (sas_buf st)) (skipn blk (sas_buf st))) as [w|e st'].
  - rewrite Ht. reflexivity.
  - destruct Ht as (env' & Hrun & Hs). rewrite Hrun. cbn [fst snd]. split; [reflexivity|exact Hs].
Time Qed.


(* ================= Write and Close ================= *)
(* s.signBlock(isFinal) with the meaning just proved (go_signBlock): its error, then the receiver object
   it leaves; no value where signBlock panics or is stuck *)
Definition ext_stream : externs := fun fn args =>
  if String.eqb fn "signAttachedStream.signBlock" then
    match args with
    | [s; VBool f] =>
      match as_sas s with
      | Some st => match sas_block st f with BStuck _ => None | BRet e st' => Some [g_errv e; g_sas st'] end
      | None => None
      end
    | _ => None
    end
  else ext_block fn args.

(* the loop `for s.buffer.Len() > signatureBlockSize { if err := s.signBlock(false); err != nil {..} }`;
   [fuel] is the evaluator's bound on the number of iterations *)
Fixpoint sas_drain (fuel : nat) (st : sas_state) (ret : Z) : wres :=
  match fuel with
  | O => WStuck "loop fuel"
  | S f =>
    if (1048576 <? Z.of_nat (List.length (sas_buf st)))%Z then
      match sas_block st false with
      | BStuck _ => WStuck "call"
      | BRet None st' => sas_drain f st' ret
      | BRet (Some e) st' => WRet 0 (Some e) st'
      end
    else WRet ret None st
  end.

(* Write(p) *)
Definition sas_write (fuel : nat) (st : sas_state) (p : bytes) : wres :=
  sas_drain fuel (set_buf st (sas_buf st ++ p)%list) (Z.of_nat (List.length p)).

(* Close() for a version other than Version1() *)
Definition sas_close_v2 (st : sas_state) : cres :=
  if version_eqb (sas_v st) v2 then
    match sas_block st true with
    | BStuck _ => CloseStuck "call"
    | BRet (Some e) st' => CloseRet (Some e) st'
    | BRet None st' => if (0 <? Z.of_nat (List.length (sas_buf st')))%Z then ClosePanic else CloseRet None st'
    end
  else ClosePanic.

(* Close() for Version1() *)
Definition sas_close_v1 (st : sas_state) : cres :=
  let final (st1 : sas_state) : cres :=
    match sas_block st1 true with BStuck _ => CloseStuck "call" | BRet e st2 => CloseRet e st2 end in
  if (0 <? Z.of_nat (List.length (sas_buf st)))%Z then
    match sas_block st false with
    | BStuck _ => CloseStuck "call"
    | BRet (Some e) st' => CloseRet (Some e) st'
    | BRet None st' => if (0 <? Z.of_nat (List.length (sas_buf st')))%Z then ClosePanic else final st'
    end
  else final st.

(* Close(), every version: the result and the state left in the receiver *)
Definition sas_close (st : sas_state) : cres :=
  if version_eqb (sas_v st) v1 then sas_close_v1 st else sas_close_v2 st.

Ltac ev_in6 h ::=
  eval cbv -[Z.eqb Z.ltb Z.leb Z.add Z.sub Z.mul Z.modulo Z.rem Z.quot Z.shiftr Z.shiftl Z.opp
             Z.land Z.lor Z.lxor Z.lnot Z.of_nat Z.of_N Z.to_nat Z.to_N List.length nth_error
             firstn skipn bytes_eqb' bytes_eqb Byte.to_N Byte.of_N N.mul N.ltb N.eqb N.add N.leb b2n n2b Nat.eqb
             Nat.leb Nat.ltb N.div N.modulo nth map app
             sha512 hmac512 ed_sign ed_pub attached_sig_input detached_sig_input_from_hash
             mp_encode mv_sig_block check_chunk_state version_eqb blk two64 read_ok chunk_ok
             sas_block sas_block_from sas_drain
             range_loop2 for_loop2 exec2] in h.

Definition w_cond : gexpr :=
  Eval cbv in match nth 2 (f_body f_saltpack_signAttachedStream_Write) SBreak with SFor c _ => c | _ => ENil end.
Definition w_body : list gstmt :=
  Eval cbv in match nth 2 (f_body f_saltpack_signAttachedStream_Write) SBreak with SFor _ b => b | _ => [] end.
Definition w_rest : list gstmt :=
  Eval cbv in skipn 3 (f_body f_saltpack_signAttachedStream_Write).
Definition envW (st : sas_state) (p : bytes) (n : Z) : env :=
  [("s", g_sas st); ("p", VBytes p); ("n", VInt n); ("err", VNil)].
Definition F5 (f : nat) : nat := S (S (S (S (S f)))).

Lemma write_loop (f0 : nat) (p : bytes) (nret : Z) (k : nat) :
  forall st : sas_state,
  match sas_drain k st nret with
  | WStuck w => for_loop2 ext_stream (F5 f0) w_cond w_body w_rest k (envW st p nret) = CStuck w
  | WRet n e st' => exists env', for_loop2 ext_stream (F5 f0) w_cond w_body w_rest k (envW st p nret) = CRet [VInt n; g_errv e] env' /\
                                 lookup "s" env' = Some (g_sas st')
  end.
Proof.
  induction k as [|k IH]; intros st; [reflexivity|].
  cbn [sas_drain]. rewrite for_loop2_S.
  destruct st as [[ma mi] hh w sk buf n]. cbn [sas_buf].
  unfold F5, w_cond, w_body, w_rest, envW, g_sas. cbn [sas_v sas_hh sas_enc sas_sk sas_buf sas_seq].
  destruct (1048576 <? Z.of_nat (List.length buf))%Z eqn:Hlen.
  - destruct (sas_block (mkSas (mkV ma mi) hh w sk buf n) false) as [sw|[[en ea]|] st'] eqn:Hb.
    + steps6 ext_stream. reflexivity.
    + destruct st' as [[ma' mi'] hh' w' sk' buf' n'].
      eexists. split; [steps6 ext_stream; reflexivity|exact eq_refl].
    + specialize (IH st'). destruct st' as [[ma' mi'] hh' w' sk' buf' n'].
      destruct (sas_drain k (mkSas (mkV ma' mi') hh' w' sk' buf' n') nret) as [w0|n0 e0 st''].
      * steps6 ext_stream. exact IH.
      * destruct IH as (env' & He & Hs). exists env'. split; [steps6 ext_stream; exact He|exact Hs].
  - eexists. split; [steps6 ext_stream; reflexivity|exact eq_refl].
Time Qed.

(* (TARGET) Write at an arbitrary fuel of the evaluator: F is the number of turns it gives the loop *)
Theorem go_signAttachedStream_Write (F : nat) (st : sas_state) (p : bytes) :
  (5 <= F)%nat ->
  let r := run_func2_at (S (S (S F))) ext_stream f_saltpack_signAttachedStream_Write [g_sas st; VBytes p] in
  match sas_write F st p with
  | WStuck w => fst r = OStuck w
  | WRet n e st' => fst r = ORet [VInt n; g_errv e] /\ lookup "s" (snd r) = Some (g_sas st')
  end.
Proof.
  intros HF. cbv zeta.
  assert (Hf : exists f0, F = F5 f0) by (exists (F - 5)%nat; unfold F5; lia).
  destruct Hf as [f0 ->]. unfold sas_write.
  pose proof (write_loop f0 p (Z.of_nat (List.length p)) (F5 f0) (set_buf st (sas_buf st ++ p)%list)) as Hl.
  assert (Hrun : exec2 ext_stream (S (S (S (F5 f0)))) [("s", g_sas st); ("p", VBytes p)] (f_body f_saltpack_signAttachedStream_Write)
                 = for_loop2 ext_stream (F5 f0) w_cond w_body w_rest (F5 f0)
                             (envW (set_buf st (sas_buf st ++ p)%list) p (Z.of_nat (List.length p)))).
  { clear Hl. destruct st as [[ma mi] hh w sk buf n].
    cbv beta iota zeta delta [f_body f_saltpack_signAttachedStream_Write].
    unfold g_sas, set_buf, envW. cbn [sas_v sas_hh sas_enc sas_sk sas_buf sas_seq]. unfold F5.
    steps6 ext_stream. reflexivity. }
  unfold run_func2_at. cbn [f_params f_results f_saltpack_signAttachedStream_Write bind_params map app].
  rewrite Hrun. clear Hrun.
  destruct (sas_drain (F5 f0) (set_buf st (sas_buf st ++ p)%list) (Z.of_nat (List.length p))) as [w0|n0 e0 st'].
  - rewrite Hl. reflexivity.
  - destruct Hl as (env' & Hl & Hs). rewrite Hl. cbn [fst snd]. split; [reflexivity|exact Hs].
Time Qed.

(* (TARGET) the same at the fuel of run_func2 *)
Corollary go_signAttachedStream_Write_300 (st : sas_state) (p : bytes) :
  let r := run_func2 ext_stream f_saltpack_signAttachedStream_Write [g_sas st; VBytes p] in
  match sas_write 297 st p with
  | WStuck w => fst r = OStuck w
  | WRet n e st' => fst r = ORet [VInt n; g_errv e] /\ lookup "s" (snd r) = Some (g_sas st')
  end.
Proof. rewrite run_func2_at_300. apply (go_signAttachedStream_Write 297 st p). lia. Qed.


(* ---------- Close ---------- *)
Lemma ret_split (r : outcome * env) (o : outcome) (e' : env) (v : gval) :
  r = (o, e') -> lookup "s" e' = Some v -> fst r = o /\ lookup "s" (snd r) = Some v.
Proof. intros -> H. split; [reflexivity|exact H]. Qed.
Ltac run_ret X := eapply ret_split; [steps6 X; reflexivity|reflexivity].
(* Close for a version other than Version1() *)
Lemma go_signAttachedStream_Close_v2 (st : sas_state) :
  version_eqb (sas_v st) v1 = false ->
  let r := run_func2 ext_stream f_saltpack_signAttachedStream_Close [g_sas st] in
  match sas_close_v2 st with
  | CloseStuck w => fst r = OStuck w
  | ClosePanic => fst r = OPanic
  | CloseRet e st' => fst r = ORet [g_errv e] /\ lookup "s" (snd r) = Some (g_sas st')
  end.
Proof.
  destruct st as [[ma mi] hh w sk buf n]. cbn [sas_v]. rewrite version_eqb_v1. intros H1. cbv zeta.
  unfold sas_close_v2. cbn [sas_v]. rewrite version_eqb_v2.
  start6 f_saltpack_signAttachedStream_Close. unfold g_sas. cbn [sas_v sas_hh sas_enc sas_sk sas_buf sas_seq].
  assert (Hsw : ((ma =? 1)%Z = true /\ (mi =? 0)%Z = false) \/ (ma =? 1)%Z = false).
  { destruct (ma =? 1)%Z; [left; split; [reflexivity|]; destruct (mi =? 0)%Z; [discriminate H1|reflexivity]|right; reflexivity]. }
  clear H1.
  destruct (ma =? 2)%Z eqn:E2; [destruct (mi =? 0)%Z eqn:E3|]; cbn [andb].
  - (* Version2() *)
    assert (E1 : (ma =? 1)%Z = false) by lia. clear Hsw.
    destruct (sas_block (mkSas (mkV ma mi) hh w sk buf n) true) as [sw|[[en ea]|] st'] eqn:Hb.
    + steps6 ext_stream. reflexivity.
    + destruct st' as [[ma' mi'] hh' w' sk' buf' n']. run_ret ext_stream.
    + destruct st' as [[ma' mi'] hh' w' sk' buf' n']. cbn [sas_buf].
      destruct (0 <? Z.of_nat (List.length buf'))%Z eqn:Hl; [steps6 ext_stream; reflexivity|run_ret ext_stream].
  - destruct Hsw as [[E1 E3']|E1]; [lia|]. steps6 ext_stream. reflexivity.
  - destruct Hsw as [[E1 E3]|E1]; steps6 ext_stream; reflexivity.
Time Qed.

Lemma go_signAttachedStream_Close_v1 (st : sas_state) :
  version_eqb (sas_v st) v1 = true ->
  let r := run_func2 ext_stream f_saltpack_signAttachedStream_Close [g_sas st] in
  match sas_close_v1 st with
  | CloseStuck w => fst r = OStuck w
  | ClosePanic => fst r = OPanic
  | CloseRet e st' => fst r = ORet [g_errv e] /\ lookup "s" (snd r) = Some (g_sas st')
  end.
Proof.
  destruct st as [[ma mi] hh w sk buf n]. cbn [sas_v]. rewrite version_eqb_v1. intros H1. cbv zeta.
  apply andb_prop in H1. destruct H1 as [E1 E3].
  unfold sas_close_v1. cbn [sas_buf].
  remember (run_func2 ext_stream f_saltpack_signAttachedStream_Close
              [g_sas (mkSas (mkV ma mi) hh w sk buf n)]) as r eqn:Hr.
  symmetry in Hr. revert Hr.
  start6 f_saltpack_signAttachedStream_Close. unfold g_sas. cbn [sas_v sas_hh sas_enc sas_sk sas_buf sas_seq].
  steps6 ext_stream.
  destruct (0 <? Z.of_nat (List.length buf))%Z eqn:Hl0.
  - steps6 ext_stream.
    destruct (sas_block (mkSas (mkV ma mi) hh w sk buf n) false) as [sw|[[en ea]|] st'] eqn:Hb.
    + steps6 ext_stream. intros <-. reflexivity.
    + destruct st' as [[ma' mi'] hh' w' sk' buf' n']. steps6 ext_stream. intros <-. split; reflexivity.
    + destruct st' as [[ma' mi'] hh' w' sk' buf' n']. cbn [sas_buf]. steps6 ext_stream.
      destruct (0 <? Z.of_nat (List.length buf'))%Z eqn:Hl; [steps6 ext_stream; intros <-; reflexivity|].
      steps6 ext_stream.
      destruct (sas_block (mkSas (mkV ma' mi') hh' w' sk' buf' n') true) as [sw|e2 st2] eqn:Hb2.
      * steps6 ext_stream. intros <-. reflexivity.
      * destruct st2 as [[ma2 mi2] hh2 w2 sk2 buf2 n2]. steps6 ext_stream. intros <-. split; reflexivity.
  - steps6 ext_stream.
    destruct (sas_block (mkSas (mkV ma mi) hh w sk buf n) true) as [sw|e2 st2] eqn:Hb2.
    + steps6 ext_stream. intros <-. reflexivity.
    + destruct st2 as [[ma2 mi2] hh2 w2 sk2 buf2 n2]. steps6 ext_stream. intros <-. split; reflexivity.
Time Qed.

(* (TARGET) Close, every version *)
Theorem go_signAttachedStream_Close (st : sas_state) :
  let r := run_func2 ext_stream f_saltpack_signAttachedStream_Close [g_sas st] in
  match sas_close st with
  | CloseStuck w => fst r = OStuck w
  | ClosePanic => fst r = OPanic
  | CloseRet e st' => fst r = ORet [g_errv e] /\ lookup "s" (snd r) = Some (g_sas st')
  end.
Proof.
  unfold sas_close. destruct (version_eqb (sas_v st) v1) eqn:E.
  - apply go_signAttachedStream_Close_v1. exact E.
  - apply go_signAttachedStream_Close_v2. exact E.
Qed.

(* ================= checkSignBlockRead: what can be said ================= *)
(* the function starts by binding a function literal (`die := func() { panic(..) }`), which the translator
   renders as EUnsup: the evaluator is stuck on its first statement, whatever the arguments *)
(* (TARGET) *)
Lemma go_checkSignBlockRead_not_expressible (args : list gval) :
  List.length args = 5%nat ->
  fst (run_func2 ext_ver f_saltpack_checkSignBlockRead args) = OStuck "assign".
Proof.
  intros H. do 5 (destruct args as [|? args]; [discriminate H|]). destruct args; [|discriminate H]. reflexivity.
Qed.

(* the statements after the literal, with `die` standing for a call that does not return (no extern of
   that name: the evaluator reports the call as stuck): they fall through exactly when [read_ok] holds,
   call die() on the four conditions of the source, and panic on an unknown version: (TARGET)
   go_checkSignBlockRead_tail *)
Definition csbr_tail : list gstmt := Eval cbv in tl (f_body f_saltpack_checkSignBlockRead).
Definition csbr_env (v : version) (final : bool) (bs cl bl : Z) : env :=
  [("version", g_version v); ("isFinal", VBool final); ("blockSize", VInt bs); ("chunkLen", VInt cl); ("bufLen", VInt bl); ("die", VNil)].
Lemma go_checkSignBlockRead_tail (v : version) (final : bool) (bs cl bl : Z) :
  exec2 ext_ver 299 (csbr_env v final bs cl bl) csbr_tail
  = if read_ok v final bs cl bl then CNorm (csbr_env v final bs cl bl)
    else if (bs <? cl)%Z || ((cl <? bs)%Z && (0 <? bl)%Z) || version_eqb v v1 || version_eqb v v2 then CStuck "extern"
    else CPanic.
Proof.
  destruct v as [ma mi]. unfold read_ok, csbr_env, csbr_tail, g_version. cbn [vmaj vmin].
  rewrite version_eqb_v1, version_eqb_v2.
  destruct (bs <? cl)%Z eqn:C1; cbn [negb andb orb]; [steps6 ext_ver; reflexivity|].
  assert (Hsw : forall X : ctl,
    exec2 ext_ver 297 [("version", VStruct [("Major", VInt ma); ("Minor", VInt mi)]); ("isFinal", VBool final);
                       ("blockSize", VInt bs); ("chunkLen", VInt cl); ("bufLen", VInt bl); ("die", VNil)]
          (skipn 2 csbr_tail) = X ->
    X = (if (if (ma =? 1)%Z && (mi =? 0)%Z then Bool.eqb final (cl =? 0)%Z
             else if (ma =? 2)%Z && (mi =? 0)%Z then negb (final && negb (bl =? 0)%Z) else false)
         then CNorm [("version", VStruct [("Major", VInt ma); ("Minor", VInt mi)]); ("isFinal", VBool final);
                     ("blockSize", VInt bs); ("chunkLen", VInt cl); ("bufLen", VInt bl); ("die", VNil)]
         else if (ma =? 1)%Z && (mi =? 0)%Z || (ma =? 2)%Z && (mi =? 0)%Z then CStuck "extern" else CPanic)).
  { intros X <-. unfold csbr_tail. cbn [skipn].
    destruct (ma =? 1)%Z eqn:E1; [destruct (mi =? 0)%Z eqn:E3|]; cbn [andb orb].
    - destruct final; destruct (cl =? 0)%Z eqn:C5; cbn [Bool.eqb]; steps6 ext_ver; reflexivity.
    - assert (E2 : (ma =? 2)%Z = false) by lia. steps6 ext_ver. reflexivity.
    - destruct (ma =? 2)%Z eqn:E2; [destruct (mi =? 0)%Z eqn:E4|]; cbn [andb orb].
      + destruct final; cbn [andb negb]; [destruct (bl =? 0)%Z eqn:C6; cbn [negb]|]; steps6 ext_ver; reflexivity.
      + steps6 ext_ver. reflexivity.
      + steps6 ext_ver. reflexivity. }
  destruct (cl <? bs)%Z eqn:C3; [destruct (0 <? bl)%Z eqn:C4|]; cbn [negb andb orb].
  - steps6 ext_ver. reflexivity.
  - unfold csbr_tail. steps6_to 297%nat ext_ver. apply Hsw. reflexivity.
  - unfold csbr_tail. steps6_to 297%nat ext_ver. apply Hsw. reflexivity.
Time Qed.


(* ================= the constructors ================= *)
(* a signing public key object: its key id *)
Definition g_pk (pk : bytes) : gval := VStruct [("pk", VBytes pk)].
(* the signer argument: nil or a key object *)
Definition g_signer (s : option bytes) : gval := match s with Some sk => g_sk sk | None => VNil end.
(* a *SignatureHeader as the MessagePack value encodeToBytes writes for it (toarray) *)
Definition as_sig_header (v : gval) : option mval :=
  match v with
  | VStruct [("FormatName", VBytes f); ("Version", ver); ("Type", VInt t); ("SenderPublic", VBytes pk); ("Nonce", VBytes nonce)] =>
    match as_version ver with
    | Some vv => Some (MArr [MStr f; mv_version vv; MInt t; MBin pk; MBin nonce])
    | None => None
    end
  | _ => None
  end.
Definition msg_no_key : bytes := list_byte_of_string "no signing key provided".
Definition msg_no_pub : bytes := list_byte_of_string "no public signing key provided".

(* the calls of the two constructors.  [r] is what the process-wide randomness source (crypto/rand.Reader)
   will deliver: newSignatureHeader draws its 16-byte nonce from it (model/Rand.v: read_full), a source
   that fails or runs short is ErrRand.  checkKnownVersion has the meaning of go_checkKnownVersion;
   newEncoder(w) is the encoder over the writer w: the same object (its state is the writer's) *)
Definition ext_new (r : rng) : externs := fun fn args =>
  if String.eqb fn "checkKnownVersion" then
    match args with
    | [ver] => match as_version ver with
               | Some v => if known_version v then Some [VNil] else Some [VErr "ErrBadVersion" [ver]]
               | None => None
               end
    | _ => None
    end
  else if String.eqb fn "SigningSecretKey.GetPublicKey" then
    match args with
    | [k] => match as_sk k with Some sk => Some [g_pk (ed_pub c sk)] | None => None end
    | _ => None
    end
  else if String.eqb fn "newSignatureHeader" then
    match args with
    | [ver; VStruct [("pk", VBytes pk)]; VInt typ] =>
      match read_full 16 r with
      | Some (nonce, _) =>
        Some [VStruct [("FormatName", VBytes format_name); ("Version", ver); ("Type", VInt typ);
                       ("SenderPublic", VBytes pk); ("Nonce", VBytes nonce)]; VNil]
      | None => Some [VNil; VErr "ErrRand" []]
      end
    | [_; VNil; _] => Some [VNil; VErr "ErrInvalidParameter" [VBytes msg_no_pub]]
    | _ => None
    end
  else if String.eqb fn "encodeToBytes" then
    match args with
    | [h] => match as_sig_header h with Some m => Some [VBytes (mp_encode m); VNil] | None => None end
    | _ => None
    end
  else if String.eqb fn "hashHeader" then
    match args with [VBytes b] => Some [VBytes (sha512 c b)] | _ => None end
  else if String.eqb fn "newEncoder" then
    match args with [w] => Some [w] | _ => None end
  else ext_block fn args.

(* what newSignAttachedStream returns: the literal omits buffer (zero value: the empty bytes.Buffer), which
   the translator does not list, and the evaluator represents a struct by the fields that were written;
   [sas_complete] adds that field *)
Definition g_sas_new (st : sas_state) : gval :=
  VStruct [("version", g_version (sas_v st)); ("headerHash", VBytes (sas_hh st)); ("encoder", sas_enc st);
           ("secretKey", g_sk (sas_sk st)); ("seqno", VInt (Z.of_N (sas_seq st)))].
Definition sas_complete (v : gval) : gval :=
  match v with
  | VStruct fs => VStruct (fs ++ [("buffer", VBytes [])])%list
  | _ => v
  end.
Lemma sas_complete_new (v : version) (hh : bytes) (w : gval) (sk : bytes) :
  sas_complete (g_sas_new (mkSas v hh w sk [] 0)) = g_sas (mkSas v hh w sk [] 0).
Proof. reflexivity. Qed.

(* the model's header construction, the header packet handed to the writer w *)
Definition sas_new (v : version) (w : gval) (signer : option bytes) (r : rng) : outcome :=
  if negb (known_version v) then ORet [VNil; VErr "ErrBadVersion" [g_version v]]
  else
    match signer with
    | None => ORet [VNil; VErr "ErrInvalidParameter" [VBytes msg_no_key]]
    | Some sk =>
      match read_full 16 r with
      | None => ORet [VNil; VErr "ErrRand" []]
      | Some (nonce, _) =>
        let hdr := sig_header_bytes v mt_attached (ed_pub c sk) nonce in
        let rr := enc_step w (mp_encode (MBin hdr)) in
        match snd rr with
        | Some e => ORet [VNil; g_errv (Some e)]
        | None => ORet [g_sas_new (mkSas v (sha512 c hdr) (fst rr) sk [] 0); VNil]
        end
      end
    end.

Ltac ev_in6 h ::=
  eval cbv -[Z.eqb Z.ltb Z.leb Z.add Z.sub Z.mul Z.modulo Z.rem Z.quot Z.shiftr Z.shiftl Z.opp
             Z.land Z.lor Z.lxor Z.lnot Z.of_nat Z.of_N Z.to_nat Z.to_N List.length nth_error
             firstn skipn bytes_eqb' bytes_eqb Byte.to_N Byte.of_N N.mul N.ltb N.eqb N.add N.leb b2n n2b Nat.eqb
             Nat.leb Nat.ltb N.div N.modulo nth map app
             sha512 hmac512 ed_sign ed_pub attached_sig_input detached_sig_input_from_hash
             mp_encode mv_sig_block check_chunk_state version_eqb blk two64 read_ok chunk_ok
             sas_block sas_block_from sas_drain
             read_full known_version format_name mv_version msg_no_key msg_no_pub
             range_loop2 for_loop2 exec2] in h.
Ltac steps6s X := repeat first [step6 X | use_head_hyp6 | lits1 | lits2 | lits3 | lits6 | slice6 | slice1 | extra6].

(* (TARGET) *)
Lemma go_newSignAttachedStream (v : version) (w : gval) (signer : option bytes) (r : rng) :
  fst (run_func2 (ext_new r) f_saltpack_newSignAttachedStream [g_version v; w; g_signer signer])
  = sas_new v w signer r.
Proof.
  destruct v as [ma mi]. unfold sas_new.
  start6 f_saltpack_newSignAttachedStream. unfold g_version. cbn [vmaj vmin].
  destruct (known_version (mkV ma mi)) eqn:Hk; cbn [negb]; [|steps6s (ext_new r); reflexivity].
  destruct signer as [sk|]; cbn [g_signer]; [|steps6s (ext_new r); reflexivity].
  destruct (read_full 16 r) as [[nonce r']|] eqn:Er; [|steps6s (ext_new r); reflexivity].
  unfold sig_header_bytes, mv_sig_header. change mt_attached with 1%Z. cbv zeta.
  destruct (enc_step w (mp_encode (MBin (mp_encode (MArr [MStr format_name; mv_version (mkV ma mi); MInt 1; MBin (ed_pub c sk); MBin nonce])))))
    as [w' [[en ea]|]] eqn:Eenc; cbn [fst snd]; steps6s (ext_new r); reflexivity.
Time Qed.

(* ================= the detached signer ================= *)
(* the fields of *signDetachedStream; the running SHA-512 state is the bytes hashed so far *)
Record sds_state := mkSds { sds_enc : gval; sds_sk : bytes; sds_hashed : bytes }.
Definition g_sds (st : sds_state) : gval :=
  VStruct [("encoder", sds_enc st); ("secretKey", g_sk (sds_sk st)); ("hasher", VBytes (sds_hashed st))].

Definition sds_new (v : version) (w : gval) (signer : option bytes) (r : rng) : outcome :=
  if negb (known_version v) then ORet [VNil; VErr "ErrBadVersion" [g_version v]]
  else
    match signer with
    | None => ORet [VNil; VErr "ErrInvalidParameter" [VBytes msg_no_key]]
    | Some sk =>
      match read_full 16 r with
      | None => ORet [VNil; VErr "ErrRand" []]
      | Some (nonce, _) =>
        let hdr := sig_header_bytes v mt_detached (ed_pub c sk) nonce in
        let rr := enc_step w (mp_encode (MBin hdr)) in
        match snd rr with
        | Some e => ORet [VNil; g_errv (Some e)]
        | None => ORet [g_sds (mkSds (fst rr) sk (sha512 c hdr)); VNil]
        end
      end
    end.

(* (TARGET) *)
Lemma go_newSignDetachedStream (v : version) (w : gval) (signer : option bytes) (r : rng) :
  fst (run_func2 (ext_new r) f_saltpack_newSignDetachedStream [g_version v; w; g_signer signer])
  = sds_new v w signer r.
Proof.
  destruct v as [ma mi]. unfold sds_new.
  start6 f_saltpack_newSignDetachedStream. unfold g_version. cbn [vmaj vmin].
  destruct (known_version (mkV ma mi)) eqn:Hk; cbn [negb]; [|steps6s (ext_new r); reflexivity].
  destruct signer as [sk|]; cbn [g_signer]; [|steps6s (ext_new r); reflexivity].
  destruct (read_full 16 r) as [[nonce r']|] eqn:Er; [|steps6s (ext_new r); reflexivity].
  unfold sig_header_bytes, mv_sig_header. change mt_detached with 2%Z. cbv zeta.
  destruct (enc_step w (mp_encode (MBin (mp_encode (MArr [MStr format_name; mv_version (mkV ma mi); MInt 2; MBin (ed_pub c sk); MBin nonce])))))
    as [w' [[en ea]|]] eqn:Eenc; cbn [fst snd]; steps6s (ext_new r); reflexivity.
Time Qed.

(* (TARGET) Write(p): everything goes into the digest *)
Lemma go_signDetachedStream_Write (st : sds_state) (p : bytes) :
  let r := run_func2 ext_sig f_saltpack_signDetachedStream_Write [g_sds st; VBytes p] in
  fst r = ORet [VInt (Z.of_nat (List.length p)); VNil] /\
  lookup "s" (snd r) = Some (g_sds (mkSds (sds_enc st) (sds_sk st) (sds_hashed st ++ p)%list)).
Proof.
  destruct st as [w sk hd]. cbv zeta. cbn [sds_enc sds_sk sds_hashed].
  start6 f_saltpack_signDetachedStream_Write. unfold g_sds. cbn [sds_enc sds_sk sds_hashed].
  eapply ret_split; [steps6 ext_sig; reflexivity|reflexivity].
Qed.

(* Close(): `return s.encoder.Encode(signature)` is a call in return position, where the evaluator takes
   exactly one result: here encoder.Encode lists its declared result only *)
Definition ext_det_close : externs := fun fn args =>
  if String.eqb fn "encoder.Encode" then
    match args with
    | [w; x] => match as_packet x with Some m => Some [g_errv (snd (enc_step w (mp_encode m)))] | None => None end
    | _ => None
    end
  else ext_sig fn args.

(* (TARGET) *)
Lemma go_signDetachedStream_Close (st : sds_state) :
  let r := run_func2 ext_det_close f_saltpack_signDetachedStream_Close [g_sds st] in
  let sig := ed_sign c (sds_sk st) (detached_sig_input_from_hash (sha512 c (sds_hashed st))) in
  fst r = ORet [g_errv (snd (enc_step (sds_enc st) (mp_encode (MBin sig))))] /\
  lookup "s" (snd r) = Some (g_sds st).
Proof.
  destruct st as [w sk hd]. cbv zeta. cbn [sds_enc sds_sk sds_hashed].
  start6 f_saltpack_signDetachedStream_Close. unfold g_sds. cbn [sds_enc sds_sk sds_hashed].
  eapply ret_split; [steps6 ext_det_close; reflexivity|reflexivity].
Qed.

End Signer.

(* ================= the same, against the model (model/Sign.v, model/Chunker.v) ================= *)
(* the in-memory writer of Sign / SignDetached (a bytes.Buffer): the encoder object is the bytes written so far *)
Definition mem_enc (w : gval) (b : bytes) : gval * gerr :=
  match w with VBytes out => (VBytes (out ++ b)%list, None) | _ => (w, Some ("ErrIO", [])) end.

Lemma blk_pos : (0 < blk)%nat.
Proof. unfold blk. lia. Qed.
Lemma blk_Z : Z.of_nat blk = 1048576%Z.
Proof. unfold blk. lia. Qed.
Global Opaque blk.

Lemma known_version_cases (v : version) :
  known_version v = true -> (v = v1 \/ v = v2).
Proof.
  destruct v as [ma mi]. unfold known_version, known_versions. cbn [existsb]. rewrite orb_false_r.
  unfold version_eqb. cbn [vmaj vmin]. change (vmaj v1) with 1%Z. change (vmin v1) with 0%Z.
  change (vmaj v2) with 2%Z. change (vmin v2) with 0%Z. change v1 with (mkV 1 0). change v2 with (mkV 2 0).
  intros H. apply orb_prop in H. destruct H as [H|H]; apply andb_prop in H; destruct H as [Ha Hb];
    apply Z.eqb_eq in Ha; apply Z.eqb_eq in Hb; subst; [left|right]; reflexivity.
Qed.

(* (TARGET) makeSignatureBlock builds the model's packet for a known version, and panics otherwise *)
Lemma mk_sig_block_model (v : version) (sig chunk : bytes) (final : bool) :
  match mk_sig_block v (VBytes sig) (VBytes chunk) final with
  | Some b => known_version v = true /\ as_packet b = Some (mv_sig_block v sig (MBin chunk) final)
  | None => known_version v = false
  end.
Proof.
  unfold mk_sig_block, known_version, known_versions. cbn [existsb]. rewrite orb_false_r.
  destruct (version_eqb v v1) eqn:E1; cbn [orb].
  - split; [reflexivity|]. unfold version_eqb in E1. apply andb_prop in E1. destruct E1 as [E1 _].
    unfold mv_sig_block. change (vmaj v1) with 1%Z in E1. rewrite E1. reflexivity.
  - destruct (version_eqb v v2) eqn:E2; [|reflexivity].
    split; [reflexivity|]. unfold version_eqb in E2. apply andb_prop in E2. destruct E2 as [E2 _].
    unfold mv_sig_block. change (vmaj v2) with 2%Z in E2. apply Z.eqb_eq in E2. rewrite E2. reflexivity.
Qed.

Section Model.
Variable c : crypto.

(* one packet of the model's signer *)
Lemma sign_packets_one (v : version) (sk hh : bytes) (seqno : N) (ch : bytes) (final : bool) (t : list (bytes * bool)) :
  sign_packets c v sk hh seqno ((ch, final) :: t) =
  match attached_sig_input c v hh ch seqno final with
  | None => Err (Panic 3)
  | Some inp =>
    match check_chunk_state v (List.length ch) seqno final with
    | Err _ => Err (Panic 4)
    | Ok _ => bind (sign_packets c v sk hh (seqno + 1) t)
                   (fun rest => Ok (mp_encode (mv_sig_block v (ed_sign c sk inp) (MBin ch) final) ++ rest)%list)
    end
  end.
Proof. reflexivity. Qed.

(* (TARGET) signBlock on the in-memory writer is one step of sign_packets (a panic of the model is a stuck call) *)
Lemma sas_block_from_model (st : sas_state) (out : bytes) (final : bool) (ch rest : bytes) :
  sas_enc st = VBytes out ->
  read_ok (sas_v st) final 1048576 (Z.of_nat (List.length ch)) (Z.of_nat (List.length rest)) = true ->
  (sas_seq st + 1 < two64)%N ->
  match sign_packets c (sas_v st) (sas_sk st) (sas_hh st) (sas_seq st) [(ch, final)] with
  | Ok body => sas_block_from c mem_enc st final ch rest
               = BRet None (mkSas (sas_v st) (sas_hh st) (VBytes (out ++ body)%list) (sas_sk st) rest (sas_seq st + 1))
  | Err _ => exists w, sas_block_from c mem_enc st final ch rest = BStuck w
  end.
Proof.
  destruct st as [v hh w sk buf n]. cbn [sas_v sas_hh sas_enc sas_sk sas_buf sas_seq]. intros -> Hr Hn.
  rewrite sign_packets_one. unfold sas_block_from. cbn [sas_v sas_hh sas_enc sas_sk sas_buf sas_seq set_buf set_enc set_seq].
  rewrite Hr. cbn [negb].
  destruct (attached_sig_input c v hh ch n final) as [inp|]; [|eexists; reflexivity].
  unfold chunk_ok. replace (Z.of_nat (List.length ch) <? 0)%Z with false by lia. cbn [negb andb].
  replace (Z.to_nat (Z.of_nat (List.length ch) - 0)) with (List.length ch) by lia.
  destruct (check_chunk_state v (List.length ch) n final) as [u|e]; [|eexists; reflexivity].
  cbn [negb sign_packets bind mem_enc fst snd]. rewrite app_nil_r.
  rewrite N.mod_small by exact Hn. reflexivity.
Qed.
End Model.

Section Model2.
Variable c : crypto.

(* Chunker.drain, without the accumulator *)
Fixpoint blocks_of (fuel : nat) (buf : bytes) : list bytes * bytes :=
  match fuel with
  | O => ([], buf)
  | S f =>
    if Nat.leb (List.length buf) blk then ([], buf)
    else let (bs, r) := blocks_of f (skipn blk buf) in (firstn blk buf :: bs, r)
  end.
Lemma drain_blocks_of (fuel : nat) : forall (buf : bytes) (acc : list bytes),
  drain fuel blk buf acc = (rev acc ++ fst (blocks_of fuel buf), snd (blocks_of fuel buf))%list.
Proof.
  induction fuel as [|f IH]; intros buf acc; cbn [drain blocks_of].
  - rewrite rev_append_rev, !app_nil_r. reflexivity.
  - destruct (Nat.leb (List.length buf) blk).
    + rewrite rev_append_rev, !app_nil_r. reflexivity.
    + rewrite split_at_spec, IH. destruct (blocks_of f (skipn blk buf)) as [bs r]. cbn [fst snd rev].
      rewrite <- app_assoc. reflexivity.
Qed.
Lemma cw_write_blocks_of (buf p : bytes) :
  cw_write blk buf p = blocks_of (List.length (buf ++ p)%list) (buf ++ p)%list.
Proof.
  unfold cw_write. rewrite drain_blocks_of. cbn [rev app].
  destruct (blocks_of _ _); reflexivity.
Qed.

Definition nonfinal6 (bs : list bytes) : list (bytes * bool) := map (fun ch => (ch, false)) bs.

Lemma read_ok_full (v : version) (rest : bytes) :
  known_version v = true ->
  read_ok v false 1048576 1048576 (Z.of_nat (List.length rest)) = true.
Proof.
  intros Hk. destruct (known_version_cases v Hk) as [-> | ->]; unfold read_ok; reflexivity.
Qed.

(* the loop of Write flushes exactly the blocks of the model's chunker, signing them as sign_packets does *)
Lemma sas_drain_model (k : nat) : forall (st : sas_state) (out : bytes) (F : nat) (ret : Z),
  (List.length (sas_buf st) <= k)%nat ->
  known_version (sas_v st) = true -> sas_enc st = VBytes out ->
  let bs := fst (blocks_of k (sas_buf st)) in
  let r := snd (blocks_of k (sas_buf st)) in
  (List.length bs < F)%nat -> (sas_seq st + N.of_nat (List.length bs) < two64)%N ->
  exists body, sign_packets c (sas_v st) (sas_sk st) (sas_hh st) (sas_seq st) (nonfinal6 bs) = Ok body /\
    sas_drain c mem_enc F st ret
    = WRet ret None (mkSas (sas_v st) (sas_hh st) (VBytes (out ++ body)%list) (sas_sk st) r (sas_seq st + N.of_nat (List.length bs))).
Proof.
  induction k as [|k IH]; intros st out F ret Hlen Hk Henc; cbv zeta.
  - destruct st as [v hh w sk buf n]. cbn [sas_v sas_hh sas_enc sas_sk sas_buf sas_seq] in *. subst w.
    cbn [blocks_of fst snd List.length nonfinal6 map sign_packets]. intros HF Hn.
    exists []. split; [reflexivity|].
    destruct F as [|F]; [lia|]. cbn [sas_drain sas_buf].
    replace (1048576 <? Z.of_nat (List.length buf))%Z with false by lia.
    rewrite app_nil_r, N.add_0_r. reflexivity.
  - destruct st as [v hh w sk buf n]. cbn [sas_v sas_hh sas_enc sas_sk sas_buf sas_seq] in *. subst w.
    cbn [blocks_of].
    destruct (Nat.leb (List.length buf) blk) eqn:El.
    + cbn [fst snd List.length nonfinal6 map sign_packets]. intros HF Hn.
      exists []. split; [reflexivity|].
      destruct F as [|F]; [lia|]. cbn [sas_drain sas_buf].
      apply Nat.leb_le in El. pose proof blk_Z.
      replace (1048576 <? Z.of_nat (List.length buf))%Z with false by lia.
      rewrite app_nil_r, N.add_0_r. reflexivity.
    + apply Nat.leb_gt in El. pose proof blk_Z as HbZ. pose proof blk_pos as Hbp.
      destruct (blocks_of k (skipn blk buf)) as [bs r] eqn:Eb. cbn [fst snd List.length].
      intros HF Hn.
      destruct F as [|F]; [lia|]. cbn [sas_drain sas_buf].
      replace (1048576 <? Z.of_nat (List.length buf))%Z with true by lia.
      unfold sas_block. cbn [sas_buf].
      assert (Hfl : List.length (firstn blk buf) = blk) by (apply firstn_length_le; lia).
      pose proof (sas_block_from_model c (mkSas v hh (VBytes out) sk buf n) out false (firstn blk buf) (skipn blk buf) eq_refl) as Hstep.
      cbn [sas_v sas_hh sas_enc sas_sk sas_buf sas_seq] in Hstep.
      rewrite Hfl, HbZ in Hstep.
      assert (Hn1 : (n + 1 < two64)%N) by (clear - Hn; lia).
      specialize (Hstep (read_ok_full v _ Hk) Hn1).
      rewrite sign_packets_one in Hstep. cbn [nonfinal6 map]. rewrite sign_packets_one.
      assert (Ha : exists inp, attached_sig_input c v hh (firstn blk buf) n false = Some inp)
        by (destruct (known_version_cases v Hk) as [-> | ->]; eexists; reflexivity).
      destruct Ha as [inp Ha]. rewrite Ha in Hstep |- *.
      destruct (check_chunk_state v (List.length (firstn blk buf)) n false) as [u|e] eqn:Ec.
      2:{ exfalso. rewrite Hfl in Ec. unfold check_chunk_state in Ec.
          destruct (known_version_cases v Hk) as [-> | ->]; cbn [vmaj v1 v2] in Ec;
            change (Z.of_N i_saltpack_Version1_0 =? 1)%Z with true in Ec; change (Z.of_N i_saltpack_Version2_0 =? 1)%Z with false in Ec;
            change (Z.of_N i_saltpack_Version2_0 =? 2)%Z with true in Ec; cbn [negb andb orb] in Ec;
            replace (Nat.eqb blk 0) with false in Ec by (symmetry; apply Nat.eqb_neq; lia); discriminate Ec. }
      cbn [sign_packets bind] in Hstep. rewrite app_nil_r in Hstep. rewrite Hstep.
      specialize (IH (mkSas v hh (VBytes (out ++ mp_encode (mv_sig_block v (ed_sign c sk inp) (MBin (firstn blk buf)) false))%list) sk (skipn blk buf) (n + 1)%N)
                     (out ++ mp_encode (mv_sig_block v (ed_sign c sk inp) (MBin (firstn blk buf)) false))%list F ret).
      cbn [sas_v sas_hh sas_enc sas_sk sas_buf sas_seq] in IH. rewrite Eb in IH. cbn [fst snd] in IH.
      destruct (IH ltac:(rewrite skipn_length; lia) Hk eq_refl ltac:(lia) ltac:(lia)) as (body & Hb & Hd).
      exists (mp_encode (mv_sig_block v (ed_sign c sk inp) (MBin (firstn blk buf)) false) ++ body)%list.
      split.
      * fold (nonfinal6 bs). rewrite Hb. reflexivity.
      * rewrite Hd. rewrite <- app_assoc. f_equal. f_equal. lia.
Qed.
End Model2.

Section Model3.
Variable c : crypto.

Lemma sign_packets_app (v : version) (sk hh : bytes) (a : list (bytes * bool)) : forall (n : N) (b : list (bytes * bool)),
  sign_packets c v sk hh n (a ++ b) =
  bind (sign_packets c v sk hh n a) (fun x =>
  bind (sign_packets c v sk hh (n + N.of_nat (List.length a)) b) (fun y => Ok (x ++ y)%list)).
Proof.
  induction a as [|[ch f] a IH]; intros n b.
  - cbn [app sign_packets bind List.length]. rewrite N.add_0_r.
    destruct (sign_packets c v sk hh n b); reflexivity.
  - cbn [app List.length]. rewrite !sign_packets_one.
    destruct (attached_sig_input c v hh ch n f); [|reflexivity].
    destruct (check_chunk_state v (List.length ch) n f); [|reflexivity].
    rewrite IH. replace (n + 1 + N.of_nat (List.length a))%N with (n + N.of_nat (S (List.length a)))%N by lia.
    destruct (sign_packets c v sk hh (n + 1) a); cbn [bind]; [|reflexivity].
    destruct (sign_packets c v sk hh (n + N.of_nat (S (List.length a))) b); cbn [bind]; [|reflexivity].
    rewrite app_assoc. reflexivity.
Qed.

Lemma read_ok_v1_flush (l : Z) : (0 < l <= 1048576)%Z -> read_ok v1 false 1048576 l 0 = true.
Proof.
  intros H. unfold read_ok. change (version_eqb v1 v1) with true. cbv iota.
  replace (1048576 <? l)%Z with false by lia. replace (l =? 0)%Z with false by lia.
  rewrite andb_false_r. reflexivity.
Qed.
Lemma read_ok_v2_final (l : Z) : (l <= 1048576)%Z -> read_ok v2 true 1048576 l 0 = true.
Proof.
  intros H. unfold read_ok. change (version_eqb v2 v1) with false. change (version_eqb v2 v2) with true. cbv iota.
  replace (1048576 <? l)%Z with false by lia. rewrite andb_false_r. reflexivity.
Qed.

(* signBlock(final) on a buffer of at most one block, against one packet of the model *)
Lemma sas_block_small (st : sas_state) (out : bytes) (final : bool) :
  sas_enc st = VBytes out -> (List.length (sas_buf st) <= blk)%nat -> (sas_seq st + 1 < two64)%N ->
  read_ok (sas_v st) final 1048576 (Z.of_nat (List.length (sas_buf st))) 0 = true ->
  match sign_packets c (sas_v st) (sas_sk st) (sas_hh st) (sas_seq st) [(sas_buf st, final)] with
  | Ok body => sas_block c mem_enc st final
               = BRet None (mkSas (sas_v st) (sas_hh st) (VBytes (out ++ body)%list) (sas_sk st) [] (sas_seq st + 1))
  | Err _ => exists w, sas_block c mem_enc st final = BStuck w
  end.
Proof.
  intros He Hl Hn Hr. unfold sas_block.
  rewrite firstn_all2 by exact Hl. rewrite skipn_all2 by exact Hl.
  apply sas_block_from_model; assumption.
Qed.

(* (TARGET) Close against the model's cw_close + sign_packets, for a buffer as Write leaves it (at most one block) *)
Lemma sas_close_model (st : sas_state) (out : bytes) :
  known_version (sas_v st) = true -> sas_enc st = VBytes out ->
  (List.length (sas_buf st) <= blk)%nat -> (sas_seq st + 2 < two64)%N ->
  let pk := cw_close (sas_v st) blk (sas_buf st) in
  match sign_packets c (sas_v st) (sas_sk st) (sas_hh st) (sas_seq st) pk with
  | Ok body => sas_close c mem_enc st
               = CloseRet None (mkSas (sas_v st) (sas_hh st) (VBytes (out ++ body)%list) (sas_sk st) []
                                      (sas_seq st + N.of_nat (List.length pk)))
  | Err _ => sas_close c mem_enc st = CloseStuck "call"
  end.
Proof.
  destruct st as [v hh w sk buf n]. cbn [sas_v sas_hh sas_enc sas_sk sas_buf sas_seq]. intros Hk -> Hl Hn. cbv zeta.
  pose proof blk_Z as HbZ.
  unfold cw_close, sas_close. cbn [sas_v]. rewrite split_at_spec. cbn [fst]. rewrite (firstn_all2 buf) by exact Hl.
  destruct (known_version_cases v Hk) as [-> | ->].
  - (* Version1 *)
    change (vmaj v1 =? 1)%Z with true. change (version_eqb v1 v1) with true. cbv iota.
    unfold sas_close_v1. cbn [sas_buf].
    assert (Hfin : forall (o : bytes) (m : N), (m + 1 < two64)%N ->
      match sign_packets c v1 sk hh m [([], true)] with
      | Ok body => sas_block c mem_enc (mkSas v1 hh (VBytes o) sk [] m) true
                   = BRet None (mkSas v1 hh (VBytes (o ++ body)%list) sk [] (m + 1))
      | Err _ => exists w, sas_block c mem_enc (mkSas v1 hh (VBytes o) sk [] m) true = BStuck w
      end).
    { intros o m Hm. apply (sas_block_small (mkSas v1 hh (VBytes o) sk [] m) o true eq_refl); cbn [sas_buf sas_seq sas_v List.length]; [apply Nat.le_0_l|exact Hm|reflexivity]. }
    destruct buf as [|b0 buf'].
    + cbn [app List.length]. change (0 <? Z.of_nat 0)%Z with false. cbv iota.
      specialize (Hfin out n ltac:(clear - Hn; lia)).
      destruct (sign_packets c v1 sk hh n [([], true)]) as [body|e].
      * rewrite Hfin. reflexivity.
      * destruct Hfin as [w0 ->]. reflexivity.
    + remember (b0 :: buf') as buf eqn:Hbuf.
      assert (Hpos : (0 < List.length buf)%nat) by (subst buf; cbn [List.length]; lia).
      change ([(buf, false)] ++ [([], true)])%list with ([(buf, false)] ++ [(@nil byte, true)])%list.
      rewrite sign_packets_app. cbn [List.length]. change (N.of_nat 1) with 1%N.
      replace (0 <? Z.of_nat (List.length buf))%Z with true by (clear - Hpos; lia).
      pose proof (sas_block_small (mkSas v1 hh (VBytes out) sk buf n) out false eq_refl) as H1.
      cbn [sas_v sas_hh sas_enc sas_sk sas_buf sas_seq] in H1.
      specialize (H1 Hl ltac:(clear - Hn; lia) (read_ok_v1_flush (Z.of_nat (List.length buf)) ltac:(clear - Hl Hpos HbZ; lia))).
      revert H1. unfold bytes in *. destruct (sign_packets c v1 sk hh n [(buf, false)]) as [body1|e1]; cbn [bind]; intros H1.
      * rewrite H1. cbn [sas_buf List.length]. change (0 <? Z.of_nat 0)%Z with false. cbv iota.
        specialize (Hfin (out ++ body1)%list (n + 1)%N ltac:(clear - Hn; lia)).
        revert Hfin. destruct (sign_packets c v1 sk hh (n + 1) [([], true)]) as [body2|e2]; cbn [bind]; intros Hfin.
        -- rewrite Hfin. rewrite <- app_assoc. f_equal. f_equal. cbn [app List.length]. clear. lia.
        -- destruct Hfin as [w0 ->]. reflexivity.
      * destruct H1 as [w0 ->]. reflexivity.
  - (* Version2 *)
    change (vmaj v2 =? 1)%Z with false. change (version_eqb v2 v1) with false. cbv iota.
    unfold sas_close_v2. cbn [sas_v]. change (version_eqb v2 v2) with true. cbv iota.
    pose proof (sas_block_small (mkSas v2 hh (VBytes out) sk buf n) out true eq_refl) as H1.
    cbn [sas_v sas_hh sas_enc sas_sk sas_buf sas_seq] in H1.
    specialize (H1 Hl ltac:(clear - Hn; lia) (read_ok_v2_final (Z.of_nat (List.length buf)) ltac:(clear - Hl HbZ; lia))).
    destruct (sign_packets c v2 sk hh n [(buf, true)]) as [body|e].
    + rewrite H1. cbn [sas_buf List.length]. change (0 <? Z.of_nat 0)%Z with false. reflexivity.
    + destruct H1 as [w0 ->]. reflexivity.
Qed.
End Model3.

Section Model4.
Variable c : crypto.

(* (TARGET) Write against the model's cw_write + sign_packets (in-memory writer, known version): the blocks
   flushed are the chunker's, each signed as the model signs it, the rest stays buffered *)
Theorem sas_write_model (st : sas_state) (out p : bytes) (F : nat) :
  known_version (sas_v st) = true -> sas_enc st = VBytes out ->
  let bs := fst (cw_write blk (sas_buf st) p) in
  let buf' := snd (cw_write blk (sas_buf st) p) in
  (List.length bs < F)%nat -> (sas_seq st + N.of_nat (List.length bs) < two64)%N ->
  exists body, sign_packets c (sas_v st) (sas_sk st) (sas_hh st) (sas_seq st) (nonfinal6 bs) = Ok body /\
    sas_write c mem_enc F st p
    = WRet (Z.of_nat (List.length p)) None
           (mkSas (sas_v st) (sas_hh st) (VBytes (out ++ body)%list) (sas_sk st) buf' (sas_seq st + N.of_nat (List.length bs))).
Proof.
  intros Hk He. cbv zeta. rewrite cw_write_blocks_of. intros HF Hn.
  unfold sas_write.
  pose proof (sas_drain_model c (List.length (sas_buf st ++ p)%list) (set_buf st (sas_buf st ++ p)%list) out F (Z.of_nat (List.length p))) as H.
  destruct st as [v hh w sk buf n]. cbn [set_buf sas_v sas_hh sas_enc sas_sk sas_buf sas_seq] in *.
  apply H; auto.
Qed.

(* a run of Write calls *)
Fixpoint sas_writes (F : nat) (st : sas_state) (pieces : list bytes) : option sas_state :=
  match pieces with
  | [] => Some st
  | p :: t => match sas_write c mem_enc F st p with WRet _ None st' => sas_writes F st' t | _ => None end
  end.

Lemma bind_ok {A B} (x : result A) (f : A -> result B) (b : B) :
  bind x f = Ok b -> exists a, x = Ok a /\ f a = Ok b.
Proof. destruct x as [a|e]; cbn [bind]; [intros H; exists a; auto|discriminate]. Qed.

Lemma sas_session_gen (F : nat) (pieces : list bytes) : forall (st : sas_state) (out body : bytes),
  known_version (sas_v st) = true -> sas_enc st = VBytes out -> (List.length (sas_buf st) <= blk)%nat ->
  let pk := cw_session (sas_v st) blk (sas_buf st) pieces in
  (List.length pk < F)%nat -> (sas_seq st + N.of_nat (List.length pk) + 2 < two64)%N ->
  sign_packets c (sas_v st) (sas_sk st) (sas_hh st) (sas_seq st) pk = Ok body ->
  exists st1, sas_writes F st pieces = Some st1 /\
    sas_close c mem_enc st1
    = CloseRet None (mkSas (sas_v st) (sas_hh st) (VBytes (out ++ body)%list) (sas_sk st) [] (sas_seq st + N.of_nat (List.length pk))).
Proof.
  induction pieces as [|p t IH]; intros st out body Hk He Hl; cbv zeta; cbn [cw_session sas_writes].
  - intros HF Hn Hs. exists st. split; [reflexivity|].
    pose proof (sas_close_model c st out Hk He Hl ltac:(clear - Hn; lia)) as Hc. cbv zeta in Hc.
    rewrite Hs in Hc. exact Hc.
  - pose proof (sas_write_model st out p F Hk He) as Hw. cbv zeta in Hw.
    pose proof (cw_write_bounded blk (sas_buf st) p blk_pos) as Hbd.
    destruct (cw_write blk (sas_buf st) p) as [blocks buf'] eqn:Ew. cbn [fst snd] in Hw, Hbd.
    rewrite app_length, map_length. intros HF Hn Hs.
    rewrite sign_packets_app in Hs. rewrite map_length in Hs.
    apply bind_ok in Hs. destruct Hs as (b1 & Hs1 & Hs).
    apply bind_ok in Hs. destruct Hs as (b2 & Hs2 & Hs). injection Hs as <-.
    destruct (Hw ltac:(clear - HF; lia) ltac:(clear - Hn; lia)) as (body1 & Hb1 & Hwr).
    unfold nonfinal6 in Hb1. rewrite Hs1 in Hb1. injection Hb1 as <-.
    rewrite Hwr.
    destruct st as [v hh w sk buf n]. cbn [sas_v sas_hh sas_enc sas_sk sas_buf sas_seq] in *.
    destruct (IH (mkSas v hh (VBytes (out ++ b1)%list) sk buf' (n + N.of_nat (List.length blocks))) (out ++ b1)%list b2 Hk eq_refl Hbd
                 ltac:(cbn [sas_v sas_buf]; clear - HF; lia) ltac:(cbn [sas_v sas_buf sas_seq]; clear - Hn; lia) Hs2) as (st1 & Hws & Hcl).
    exists st1. split; [exact Hws|]. rewrite Hcl. cbn [sas_v sas_hh sas_sk sas_buf sas_seq].
    rewrite <- app_assoc. f_equal. f_equal. clear. lia.
Qed.

(* a whole attached-signature session on the in-memory writer: the constructor, a Write per piece, Close *)
Definition sas_session (F : nat) (v : version) (sk : bytes) (pieces : list bytes) (r : rng) : option bytes :=
  match sas_new c mem_enc v (VBytes []) (Some sk) r with
  | ORet [obj; VNil] =>
    match as_sas (sas_complete obj) with
    | Some st0 =>
      match sas_writes F st0 pieces with
      | Some st1 =>
        match sas_close c mem_enc st1 with
        | CloseRet None st2 => match sas_enc st2 with VBytes out => Some out | _ => None end
        | _ => None
        end
      | None => None
      end
    | None => None
    end
  | _ => None
  end.

(* (TARGET) the Go-side session writes exactly the bytes of the model's signer; F bounds the evaluator's loop in each
   Write (297 at the fuel of run_func2), the second bound is the width of the packet counter *)
Theorem sas_session_model (F : nat) (v : version) (sk : bytes) (pieces : list bytes) (r r' : rng) (outb : bytes) :
  sign_attached_stream c v sk pieces r = Ok (outb, r') ->
  (List.length (cw_session v sig_block_size [] pieces) < F)%nat ->
  (N.of_nat (List.length (cw_session v sig_block_size [] pieces)) + 2 < two64)%N ->
  sas_session F v sk pieces r = Some outb.
Proof.
  unfold sign_attached_stream, sas_session, sas_new. rewrite <- blk_sig_block_size.
  destruct (known_version v) eqn:Hk; cbn [negb]; [|discriminate].
  destruct (read_full 16 r) as [[nonce r1]|]; [|discriminate].
  cbv zeta. intros Hs HF Hn. apply bind_ok in Hs. destruct Hs as (body & Hs & Hb). injection Hb as <- <-.
  cbn [mem_enc fst snd app]. rewrite sas_complete_new, as_sas_g_sas.
  set (hdr := sig_header_bytes v mt_attached (ed_pub c sk) nonce) in *.
  destruct (sas_session_gen F pieces (mkSas v (sha512 c hdr) (VBytes (mp_encode (MBin hdr))) sk [] 0) (mp_encode (MBin hdr)) body
              Hk eq_refl ltac:(cbn [sas_buf List.length]; apply Nat.le_0_l) HF ltac:(cbn [sas_v sas_buf sas_seq]; clear - Hn; lia) Hs)
    as (st1 & Hw & Hc).
  rewrite Hw, Hc. reflexivity.
Qed.

(* (TARGET) the detached signer: constructor, a Write per piece, Close hand the writer the model's two packets *)
Theorem sds_session_model (v : version) (sk : bytes) (pieces : list bytes) (r r' : rng) (outb : bytes) :
  sign_detached c v sk (List.concat pieces) r = Ok (outb, r') ->
  exists st0, sds_new c mem_enc v (VBytes []) (Some sk) r = ORet [g_sds st0; VNil] /\
    let stN := fold_left (fun st p => mkSds (sds_enc st) (sds_sk st) (sds_hashed st ++ p)%list) pieces st0 in
    let sig := ed_sign c (sds_sk stN) (detached_sig_input_from_hash (sha512 c (sds_hashed stN))) in
    mem_enc (sds_enc stN) (mp_encode (MBin sig)) = (VBytes outb, None).
Proof.
  unfold sign_detached, sds_new.
  destruct (known_version v) eqn:Hk; cbn [negb]; [|discriminate].
  destruct (read_full 16 r) as [[nonce r1]|]; [|discriminate].
  cbv zeta. intros Hs. injection Hs as <- <-.
  set (hdr := sig_header_bytes v mt_detached (ed_pub c sk) nonce).
  cbn [mem_enc fst snd app]. eexists. split; [reflexivity|].
  assert (Hfold : forall ps st, fold_left (fun st p => mkSds (sds_enc st) (sds_sk st) (sds_hashed st ++ p)%list) ps st
                                = mkSds (sds_enc st) (sds_sk st) (sds_hashed st ++ List.concat ps)%list).
  { induction ps as [|q ps IHp]; intros st; cbn [fold_left List.concat].
    - rewrite app_nil_r. destruct st; reflexivity.
    - rewrite IHp. cbn [sds_enc sds_sk sds_hashed]. rewrite <- app_assoc. reflexivity. }
  rewrite Hfold. cbn [sds_enc sds_sk sds_hashed mem_enc]. reflexivity.
Qed.
End Model4.

(* ================= the statements on concrete inputs (toy primitives of model/ToyCrypto.v) ================= *)
Module Examples.
Definition ex_st (v : version) (buf : bytes) (n : N) : sas_state :=
  mkSas v [x0a; x0b] (VBytes [x01]) [x05; x06] buf n.
Definition run_block (st : sas_state) (final : bool) :=
  run_func2 (ext_block toy_crypto mem_enc) f_saltpack_signAttachedStream_signBlock [g_sas st; VBool final].
Definition run_close (enc : gval -> bytes -> gval * gerr) (st : sas_state) :=
  run_func2 (ext_stream toy_crypto enc) f_saltpack_signAttachedStream_Close [g_sas st].
Definition run_write (st : sas_state) (p : bytes) :=
  run_func2 (ext_stream toy_crypto mem_enc) f_saltpack_signAttachedStream_Write [g_sas st; VBytes p].

(* signBlock: a final V2 block, a V1 block at the last sequence number (the counter wraps), a failing
   writer, and the panic of checkSignBlockRead (V1, isFinal with a non-empty chunk) *)
Example ex_block_v2 :
  match sas_block toy_crypto mem_enc (ex_st v2 [x11; x12; x13] 3) true with
  | BRet e st' => e = None /\ sas_seq st' = 4%N /\ sas_buf st' = [] /\
                  fst (run_block (ex_st v2 [x11; x12; x13] 3) true) = ORet [VNil] /\
                  lookup "s" (snd (run_block (ex_st v2 [x11; x12; x13] 3) true)) = Some (g_sas st')
  | BStuck _ => False
  end.
Proof. vm_compute. repeat split. Qed.
Example ex_block_wrap :
  match sas_block toy_crypto mem_enc (ex_st v1 [x11] 18446744073709551615) false with
  | BRet e st' => e = None /\ sas_seq st' = 0%N /\
                  lookup "s" (snd (run_block (ex_st v1 [x11] 18446744073709551615) false)) = Some (g_sas st')
  | BStuck _ => False
  end.
Proof. vm_compute. repeat split. Qed.
Example ex_block_writer_error :
  sas_block toy_crypto mem_enc (set_enc (ex_st v1 [x11] 7) VNil) false = BRet (Some ("ErrIO", [])) (set_enc (ex_st v1 [] 7) VNil)
  /\ fst (run_block (set_enc (ex_st v1 [x11] 7) VNil) false) = ORet [VErr "ErrIO" []]
  /\ lookup "s" (snd (run_block (set_enc (ex_st v1 [x11] 7) VNil) false)) = Some (g_sas (set_enc (ex_st v1 [] 7) VNil)).
Proof. vm_compute. repeat split. Qed.
Example ex_block_panic :
  sas_block toy_crypto mem_enc (ex_st v1 [x11] 7) true = BStuck "extern"
  /\ fst (run_block (ex_st v1 [x11] 7) true) = OStuck "extern".
Proof. vm_compute. split; reflexivity. Qed.

(* Write below the block size: buffered, nothing written *)
Example ex_write_small :
  sas_write toy_crypto mem_enc 297 (ex_st v2 [x11] 3) [x12; x13] = WRet 2 None (ex_st v2 [x11; x12; x13] 3)
  /\ fst (run_write (ex_st v2 [x11] 3) [x12; x13]) = ORet [VInt 2; VNil]
  /\ lookup "s" (snd (run_write (ex_st v2 [x11] 3) [x12; x13])) = Some (g_sas (ex_st v2 [x11; x12; x13] 3)).
Proof. vm_compute. repeat split. Qed.

(* Close: V1 writes the buffered block and the empty final packet; V2 one final packet; V2 with an empty
   buffer after packet 0 panics in assertEncodedChunkState (the model: Panic 4); an unknown version panics;
   a failing writer's error is returned *)
Example ex_close_v1 :
  match sas_close toy_crypto mem_enc (ex_st v1 [x11; x12] 3) with
  | CloseRet e st' => e = None /\ sas_seq st' = 5%N /\ sas_buf st' = [] /\
      sign_packets toy_crypto v1 [x05; x06] [x0a; x0b] 3 (cw_close v1 sig_block_size [x11; x12])
        = Ok (match sas_enc st' with VBytes (_ :: o) => o | _ => [] end) /\
      fst (run_close mem_enc (ex_st v1 [x11; x12] 3)) = ORet [VNil] /\
      lookup "s" (snd (run_close mem_enc (ex_st v1 [x11; x12] 3))) = Some (g_sas st')
  | _ => False
  end.
Proof. vm_compute. repeat split. Qed.
Example ex_close_v2 :
  match sas_close toy_crypto mem_enc (ex_st v2 [x11; x12] 3) with
  | CloseRet e st' => e = None /\ sas_seq st' = 4%N /\
      sign_packets toy_crypto v2 [x05; x06] [x0a; x0b] 3 (cw_close v2 sig_block_size [x11; x12])
        = Ok (match sas_enc st' with VBytes (_ :: o) => o | _ => [] end) /\
      fst (run_close mem_enc (ex_st v2 [x11; x12] 3)) = ORet [VNil] /\
      lookup "s" (snd (run_close mem_enc (ex_st v2 [x11; x12] 3))) = Some (g_sas st')
  | _ => False
  end.
Proof. vm_compute. repeat split. Qed.
Example ex_close_v2_empty_panics :
  sas_close toy_crypto mem_enc (ex_st v2 [] 3) = CloseStuck "call"
  /\ fst (run_close mem_enc (ex_st v2 [] 3)) = OStuck "call"
  /\ sign_packets toy_crypto v2 [x05; x06] [x0a; x0b] 3 (cw_close v2 sig_block_size []) = Err (Panic 4).
Proof. vm_compute. repeat split. Qed.
Example ex_close_bad_version :
  sas_close toy_crypto mem_enc (ex_st (mkV 2 1) [x11] 3) = ClosePanic
  /\ fst (run_close mem_enc (ex_st (mkV 2 1) [x11] 3)) = OPanic.
Proof. vm_compute. split; reflexivity. Qed.
Example ex_close_writer_error :
  fst (run_close mem_enc (set_enc (ex_st v1 [x11] 3) VNil)) = ORet [VErr "ErrIO" []]
  /\ match sas_close toy_crypto mem_enc (set_enc (ex_st v1 [x11] 3) VNil) with CloseRet (Some ("ErrIO", [])) _ => True | _ => False end.
Proof. vm_compute. split; exact I || reflexivity. Qed.

(* the constructors: success, an unknown version, no key, a short randomness source, a failing writer *)
Definition rnd : rng := [x20; x21; x22; x23; x24; x25; x26; x27; x28; x29; x2a; x2b; x2c; x2d; x2e; x2f; x30].
Definition run_new (v : version) (w : gval) (s : option bytes) (r : rng) :=
  fst (run_func2 (ext_new toy_crypto mem_enc r) f_saltpack_newSignAttachedStream [g_version v; w; g_signer s]).
Example ex_new_ok :
  match run_new v2 (VBytes []) (Some [x05; x06]) rnd with
  | ORet [obj; VNil] =>
    match as_sas (sas_complete obj) with
    | Some st => sas_v st = v2 /\ sas_buf st = [] /\ sas_seq st = 0%N /\
                 let hdr := sig_header_bytes v2 mt_attached (ed_pub toy_crypto [x05; x06]) (firstn 16 rnd) in
                 sas_enc st = VBytes (mp_encode (MBin hdr)) /\ sas_hh st = sha512 toy_crypto hdr
    | None => False
    end
  | _ => False
  end.
Proof. vm_compute. repeat split. Qed.
Example ex_new_errors :
  run_new (mkV 1 1) (VBytes []) (Some [x05]) rnd = ORet [VNil; VErr "ErrBadVersion" [g_version (mkV 1 1)]]
  /\ run_new v1 (VBytes []) None rnd = ORet [VNil; VErr "ErrInvalidParameter" [VBytes msg_no_key]]
  /\ run_new v1 (VBytes []) (Some [x05]) (firstn 15 rnd) = ORet [VNil; VErr "ErrRand" []]
  /\ run_new v1 VNil (Some [x05]) rnd = ORet [VNil; VErr "ErrIO" []].
Proof. vm_compute. repeat split. Qed.

(* whole sessions against the model's signers *)
Example ex_session_v1 :
  sas_session toy_crypto 297 v1 [x05; x06] [[x41; x42]; []; [x43]] rnd
  = match sign_attached_stream toy_crypto v1 [x05; x06] [[x41; x42]; []; [x43]] rnd with Ok (o, _) => Some o | Err _ => None end
  /\ sas_session toy_crypto 297 v1 [x05; x06] [[x41; x42]; []; [x43]] rnd <> None.
Proof. vm_compute. split; [reflexivity|discriminate]. Qed.
Example ex_session_v2_empty :
  sas_session toy_crypto 297 v2 [x05; x06] [] rnd
  = match sign_attached_stream toy_crypto v2 [x05; x06] [] rnd with Ok (o, _) => Some o | Err _ => None end
  /\ sas_session toy_crypto 297 v2 [x05; x06] [] rnd <> None.
Proof. vm_compute. split; [reflexivity|discriminate]. Qed.

(* the detached signer: constructor, two writes, Close *)
Example ex_detached :
  match fst (run_func2 (ext_new toy_crypto mem_enc rnd) f_saltpack_newSignDetachedStream [g_version v2; VBytes []; g_signer (Some [x05; x06])]) with
  | ORet [s0; VNil] =>
    match lookup "s" (snd (run_func2 (ext_sig toy_crypto) f_saltpack_signDetachedStream_Write [s0; VBytes [x41; x42]])) with
    | Some s1 =>
      match lookup "s" (snd (run_func2 (ext_sig toy_crypto) f_saltpack_signDetachedStream_Write [s1; VBytes [x43]])) with
      | Some (VStruct [("encoder", VBytes o); k; h]) =>
        (* Close returns what Encode returns; with an encoder that reports the bytes it is given: *)
        fst (run_func2 (ext_det_close toy_crypto (fun w b => (w, Some ("bytes", [VBytes b])))) f_saltpack_signDetachedStream_Close
                       [VStruct [("encoder", VBytes o); k; h]])
        = ORet [VErr "bytes" [VBytes (match sign_detached toy_crypto v2 [x05; x06] [x41; x42; x43] rnd with
                                      | Ok (all, _) => skipn (List.length o) all | Err _ => [] end)]]
        /\ match sign_detached toy_crypto v2 [x05; x06] [x41; x42; x43] rnd with Ok (all, _) => firstn (List.length o) all = o | Err _ => False end
      | _ => False
      end
    | None => False
    end
  | _ => False
  end.
Proof. vm_compute. split; reflexivity. Qed.
End Examples.
