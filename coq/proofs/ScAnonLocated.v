(* ScAnonLocated.v — C04, last clause: "an anonymous-sender message promises only integrity
   against parties who lack the payload key", as a reduction with LOCATED break witnesses.

   SETTING.  The receiver runs signcrypt_open_stream (or signcrypt_open_all) on ARBITRARY input
   bytes and obtains (None, out): the header's sender secretbox opened to all zeros, so no signature
   is checked; the only check per packet is that secretbox.Open succeeds under the payload key the
   receiver derived from the header with its own keys, with the nonce
   nonce_chunk_signcryption (sha512 header-bytes) final packet-number.

   HISTORY.  M : list sc_anon_msg — the anonymous messages honest senders produced.  A message is
   (sam_pkey, sam_msg) where sam_msg is the record sc_msg of ScAuthProofs.v (header BYTES, any
   recipients; packets = (plaintext chunk, final flag) with ANY spec-following chunking: sm_ok =
   fewer than 2^64 packets, the final flag on the last packet and on no other) and sam_pkey is the
   payload key the sender drew.  What the honest holders of a payload key sealed with it is computed
   from the history by a fixed function, `sc_hist_sealed M`: per message the sender-key secretbox
   (pkey, nonce_sender_key_sbox, seal(32 zero bytes)) and per packet
   (pkey, nonce_chunk_signcryption (sha512 header) final i, seal(64 zero bytes ++ chunk)) — exactly
   the sb_seal calls of signcrypt_core / signcrypt_packets with signer = None
   (`signcrypt_packets_anon_wire` and `signcrypt_core_anon_history` tie the list and the wire form of a
   history entry to the model's sender).
   THERE ARE NO EVENTS BY OTHER RECIPIENTS in the history: every recipient of a message knows its
   payload key and can seal anything with it.  The theorems below therefore say NOTHING when another
   recipient of the same message forges: such a forgery is, formally, an `ScAnonBoxForgeryL` witness
   (a box that opens and that no HONEST SENDER sealed), i.e. it lands in the break disjunct without
   any weakness of secretbox being involved.  `sc_anon_insider_forgery_accepted` (toy_crypto,
   vm_compute) shows the model accepts such an insider forgery: this is the documented limit of
   anonymous mode, not a defect.

   LOCATED BREAKS (ScAnonBreakL).  Every witness lies in a finite list computed by a fixed function
   from (the primitives, this input, the receiver's keys) or from (the primitives, the history):
     ScAnonBoxForgeryL k nonce ct : (k, nonce, ct) is one of the triples on which the receive loop
       CALLED secretbox.Open on this input (`sc_anon_opened_boxes`, an exact mirror of sc_open_loop:
       k is the payload key the receiver derived), the call SUCCEEDS, and (k, nonce, ct) is not in
       sc_hist_sealed M: nobody in the history sealed that ciphertext under that key and nonce.
       (The list holds the PACKET boxes only; the header's sender-key secretbox, which the receiver
       also opens with the payload key, is deliberately left out: a shorter list is a stronger claim.
       On the history side the sender-key secretbox IS listed, so replaying it as a packet is not
       counted as a forgery — the proof shows it is never released: it opens to 32 < 64 bytes.)
     ScAnonNonceCollisionL x y : x is a string the receiver fed to SHA-512 on this input
       (`sc_recv_hashed` of ScAuthLocated.v; for an anonymous sender that is the header bytes only),
       y is a header an honest sender hashed (`sc_anon_hist_hashed M`), x <> y, and the two hashes
       agree on `sc_nonce_prefix`: bytes 0..14 and the upper 7 bits of byte 15 (127 bits).
   !! DEVIATION FROM THE TASK TEXT, forced by the protocol: in anonymous mode the header hash enters
   the receiver's checks ONLY through the secretbox nonce, and the nonce carries only those 127 bits
   of it (nonce.go: nonceForChunkSigncryption copies headerHash[:16] and overwrites the low bit of
   byte 15; specs/saltpack_signcryption_v2.md: "Take the first 16 bytes of the header hash"; `sc_nonce_prefix_spec` proves that two hashes give the same nonces for all (final, i)
   IFF their sc_nonce_prefix agree).  A full SHA-512 collision CANNOT be extracted:
   `sc_anon_full_collision_insufficient` exhibits an instance of the primitives (64-byte hash,
   correct secretbox) and an input with a header DIFFERENT from the honest one whose packets are all
   released, with no box forgery and with sha512 of the two headers different.  So the collision
   disjunct is stated for the truncation (a full collision between the same two located strings
   implies it: `full_collision_implies_nonce_collision`).  Integrity of anonymous signcryption thus
   rests on 127-bit (second-preimage style: y is an honest header) resistance of truncated SHA-512.
     Two honest messages with the same header bytes are excluded by the hypothesis
   sam_headers_distinct, as sm_headers_distinct does in C04.

   ASSUMED OF THE PRIMITIVES (Section hypotheses Hsha, Hsb, nothing else):
     Hsha : forall x, length (sha512 c x) = 64
     Hsb  : forall k n m, sb_open c k n (sb_seal c k n m) = Some m    (functional correctness of
            secretbox, field ok_sb of crypto_ok; NOT a security assumption — it is what lets
            "the receiver opened an honestly sealed box" determine the plaintext it obtained; the
            secretbox-based reduction of C02, EncAuthLocated.v, uses ok_sb in the same way.  Without
            it the statement is false: `sc_anon_needs_sb_correctness` exhibits an instance whose
            sb_open returns a wrong plaintext for honestly sealed boxes and which releases bytes
            nobody sent, with no forgery and no collision located).

   (TARGET) list
   T1 signcrypt_anon_authentic_located
        Hypotheses: Hsha, Hsb, Forall sam_ok M, sam_headers_distinct M,
                    signcrypt_open_stream c kr signers rv input = Ok (None, out).
        Reading: for every input on which the streaming opener reports an anonymous sender, either
        (1) no chunk is released and the stream does not end cleanly, or (2) there is ONE message m
        of the history whose header bytes are exactly the input's header bytes and whose payload key
        is the key the receiver derived (sc_receiver_state), the released chunks are a prefix of m's
        chunks, and they are all of them if the stream ends with EOF, or (3) ScAnonBreakL.
   T2 signcrypt_anon_authentic_all_located
        Hypotheses: Hsha, Hsb, Forall sam_ok M, sam_headers_distinct M,
                    signcrypt_open_all c kr signers rv input = Ok (None, pt).
        Reading: the all-at-once opener returns, for an anonymous sender, exactly the concatenated
        plaintext of one history message with the input's header bytes — or ScAnonBreakL.
   T3 anon_located_implies_unlocated
        Hypotheses: none.
        Reading: ScAnonBreakL implies the plain (unlocated) statement: some (key, nonce, box) opens
        although it is not in sc_hist_sealed M, or two different strings have SHA-512 values with the
        same 127-bit nonce prefix.
   T4 sc_nonce_prefix_spec
        Hypotheses: none.  Reading: sc_nonce_prefix hh = sc_nonce_prefix hh' iff the two hashes give
        the same signcryption chunk nonce for every final flag and packet number.
   T5 full_collision_implies_nonce_collision
        Hypotheses: none.  Reading: a full SHA-512 collision between a receiver-hashed string and a
        different history header is an ScAnonBreakL.
   Examples (vm_compute; ex_M_ok: the example history satisfies sam_ok / sam_headers_distinct):
   sc_anon_ex_genuine (two-packet message on toy_crypto: all released, clean end, nothing located),
   sc_anon_ex_truncated (proper prefix, no clean end, nothing located), sc_anon_ex_reordered (the
   released chunk is not a prefix; a box forgery IS located), sc_anon_insider_forgery_accepted,
   sc_anon_full_collision_insufficient (on toy_crypto_h, see above), sc_anon_needs_sb_correctness
   (on toy_crypto_r), sc_anon_ex_wire_is_sender_output. *)
From Coq Require Import List NArith ZArith Bool Lia ZifyN ZifyNat ZifyBool.
From Coq.Strings Require Import Byte.
From SP Require Import Bytes Params Msgpack Crypto Errors Nonce Packets Chunker Rand Verify Encrypt Decrypt Signcrypt
     MsgpackProofs ChunkerProofs SignProofs SignAuthProofs ScAuthProofs ScAuthLocated.
Import ListNotations.
Open Scope N_scope.

(* ================================================================== *)
(* The 127 bits of the header hash that enter the nonce                *)
(* ================================================================== *)

Definition sc_nonce_prefix (hh : bytes) : bytes := firstn 15 hh ++ [set_low_bit (nth 15 hh x00) false].

Lemma anon_b2n_lt (b : byte) : b2n b < 256.
Proof. unfold b2n. pose proof (Byte.to_N_bounded b). lia. Qed.

Lemma set_low_bit_val (b : byte) (v : bool) :
  b2n (set_low_bit b v) = (b2n b / 2) * 2 + (if v then 1 else 0).
Proof.
  unfold set_low_bit. apply mp_b2n_n2b_small.
  pose proof (anon_b2n_lt b) as Hb.
  assert (b2n b / 2 < 128) by (apply N.div_lt_upper_bound; lia).
  destruct v; lia.
Qed.

Lemma set_low_bit_inj (b b' : byte) (v v' : bool) :
  set_low_bit b v = set_low_bit b' v' -> v = v' /\ set_low_bit b false = set_low_bit b' false.
Proof.
  intro E. pose proof (f_equal b2n E) as En. rewrite !set_low_bit_val in En.
  assert (Hd : b2n b / 2 = b2n b' / 2) by (destruct v, v'; lia).
  split; [destruct v, v'; try reflexivity; lia|].
  unfold set_low_bit. rewrite Hd. reflexivity.
Qed.

Lemma set_low_bit_flag (b b' : byte) (v : bool) :
  set_low_bit b false = set_low_bit b' false -> set_low_bit b v = set_low_bit b' v.
Proof.
  intro E. pose proof (f_equal b2n E) as En. rewrite !set_low_bit_val in En.
  assert (Hd : b2n b / 2 = b2n b' / 2) by lia.
  unfold set_low_bit. rewrite Hd. reflexivity.
Qed.

(* (TARGET) T4: the nonce depends on the header hash exactly through sc_nonce_prefix *)
Theorem sc_nonce_prefix_spec (hh hh' : bytes) :
  sc_nonce_prefix hh = sc_nonce_prefix hh' <->
  (forall (f : bool) (i : N), nonce_chunk_signcryption hh f i = nonce_chunk_signcryption hh' f i).
Proof.
  unfold sc_nonce_prefix, nonce_chunk_signcryption, hash16_flag_index. split.
  - intros E f i. apply app_inj_tail in E as [E1 E2].
    rewrite E1, (set_low_bit_flag _ _ f E2). reflexivity.
  - intro H. specialize (H false 0).
    rewrite !app_assoc in H. apply app_inv_tail in H. exact H.
Qed.

(* equal nonces: equal prefixes, flags and packet numbers *)
Lemma sc_anon_nonce_inj (hh hh' : bytes) (f f' : bool) (n n' : N) :
  length hh = 64%nat -> length hh' = 64%nat ->
  n < 18446744073709551616 -> n' < 18446744073709551616 ->
  nonce_chunk_signcryption hh f n = nonce_chunk_signcryption hh' f' n' ->
  sc_nonce_prefix hh = sc_nonce_prefix hh' /\ f = f' /\ n = n'.
Proof.
  intros Hl Hl' Hn Hn' E. unfold nonce_chunk_signcryption, hash16_flag_index in E.
  apply app_len_inj in E as [E1 E]; [|rewrite !firstn_length, Hl, Hl'; reflexivity].
  remember (be64 n) as bn eqn:Ebn. remember (be64 n') as bn' eqn:Ebn'.
  cbn [app] in E. injection E as Eb E. subst bn bn'.
  apply set_low_bit_inj in Eb as [Ef Eb].
  apply be64_inj in E; [|assumption|assumption].
  unfold sc_nonce_prefix. rewrite E1, Eb. auto.
Qed.

Lemma anon_ok_inj {A : Type} (a b : A) : Ok a = Ok b -> a = b.
Proof. intro H. injection H as H. exact H. Qed.

Lemma skipn_zeros_app (k : nat) (l : bytes) : skipn k (zeros k ++ l) = l.
Proof. unfold zeros. induction k as [|k IH]; [reflexivity|]. cbn [repeat app skipn]. exact IH. Qed.

Section Loc.
Variable c : crypto.

(* ================================================================== *)
(* History: anonymous messages of honest senders                       *)
(* ================================================================== *)

(* payload key + the sc_msg of ScAuthProofs (header bytes, packets with any chunking) *)
Record sc_anon_msg := mkScAnonMsg { sam_pkey : bytes; sam_msg : sc_msg }.
Definition sam_header (m : sc_anon_msg) : bytes := sm_header (sam_msg m).
Definition sam_packets (m : sc_anon_msg) : list (bytes * bool) := sm_packets (sam_msg m).

Definition sam_ok (m : sc_anon_msg) : Prop := sm_ok (sam_msg m).

Definition sam_headers_distinct (M : list sc_anon_msg) : Prop :=
  forall i j m1 m2, nth_error M i = Some m1 -> nth_error M j = Some m2 ->
    sam_header m1 = sam_header m2 -> i = j.

(* the (key, nonce, ciphertext) of each packet an anonymous sender seals: signcrypt_packets with
   signer = None, block numbers n, n+1, ... *)
Fixpoint sam_packet_seals (pkey hh : bytes) (n : N) (ps : list (bytes * bool)) : list (bytes * bytes * bytes) :=
  match ps with
  | [] => []
  | (chunk, final) :: t =>
    let nonce := nonce_chunk_signcryption hh final n in
    (pkey, nonce, sb_seal c pkey nonce (zeros 64 ++ chunk)) :: sam_packet_seals pkey hh (n + 1) t
  end.

(* everything the sender of m sealed UNDER THE PAYLOAD KEY: the sender-key secretbox of the header
   (32 zero bytes for an anonymous sender) and the packets.  (The per-recipient payload-key boxes are
   sealed under the recipients' derived keys, not under the payload key.) *)
Definition sam_sealed (m : sc_anon_msg) : list (bytes * bytes * bytes) :=
  (sam_pkey m, nonce_sender_key_sbox, sb_seal c (sam_pkey m) nonce_sender_key_sbox (zeros 32)) ::
  sam_packet_seals (sam_pkey m) (sha512 c (sam_header m)) 0 (sam_packets m).

Definition sc_hist_sealed (M : list sc_anon_msg) : list (bytes * bytes * bytes) := flat_map sam_sealed M.

(* the strings the honest anonymous senders fed to SHA-512: the header bytes (with no signer,
   signcrypt_packets computes no signature input, so no chunk is hashed) *)
Definition sc_anon_hist_hashed (M : list sc_anon_msg) : list bytes := map sam_header M.

(* tie to the model's sender: the packets signcrypt_packets emits for an anonymous sender carry
   exactly the ciphertexts of sam_packet_seals *)
Definition sc_wire_of_seals (ts : list (bytes * bytes * bytes)) (ps : list (bytes * bool)) : bytes :=
  concat (map (fun tp => mp_encode (mv_signcrypt_block (snd (fst tp)) (snd (snd tp)))) (combine ts ps)).

Lemma signcrypt_packets_anon_wire (pkey hh : bytes) : forall ps n body,
  signcrypt_packets c None pkey hh n ps = Ok body ->
  body = sc_wire_of_seals (sam_packet_seals pkey hh n ps) ps.
Proof.
  induction ps as [|[ch f] t IH]; intros n body H; cbn [signcrypt_packets] in H.
  - injection H as <-. reflexivity.
  - destruct (negb (block_number_ok n)); [discriminate|]. cbv zeta in H.
    destruct (signcrypt_packets c None pkey hh (n + 1) t) as [rest|e] eqn:Er;
      cbv beta iota delta [bind] in H; [|discriminate].
    injection H as <-. rewrite (IH (n + 1) rest Er). reflexivity.
Qed.

(* the whole output of the model's sender for an anonymous message is the wire form of a history
   entry: header bytes carrying the sender-key secretbox that heads sam_sealed, then the packets of
   sam_packet_seals *)
Lemma signcrypt_core_anon_history (eph_sk pkey : bytes) (rs : list sc_rcpt) (pieces : list bytes) (out : bytes) :
  signcrypt_core c None eph_sk pkey rs pieces = Ok out ->
  let hdr := mp_encode (mv_enc_header v2 mt_signcryption (dh_pub c eph_sk)
                          (sb_seal c pkey nonce_sender_key_sbox (zeros 32))
                          (mapi_from (sc_receiver_entry c eph_sk (dh_pub c eph_sk) pkey) 0 rs)) in
  let m := mkScAnonMsg pkey (mkScMsg hdr (cw_session v2 enc_block_size [] pieces)) in
  out = mp_encode (MBin (sam_header m)) ++ sc_wire_of_seals (tl (sam_sealed m)) (sam_packets m).
Proof.
  intro H. unfold signcrypt_core in H. cbv zeta in H.
  change (negb (Nat.eqb (length (zeros 32)) 32)) with false in H. cbv iota in H.
  destruct (signcrypt_packets c None pkey _ 0 (cw_session v2 enc_block_size [] pieces)) as [body|e] eqn:Eb;
    cbv beta iota delta [bind] in H; [|discriminate].
  apply anon_ok_inj in H. rewrite <- H. cbv zeta. unfold sam_sealed, sam_header, sam_packets. cbn [sam_pkey sam_msg sm_header sm_packets tl].
  rewrite (signcrypt_packets_anon_wire _ _ _ _ _ Eb). reflexivity.
Qed.

(* ================================================================== *)
(* Receiver: the boxes it tries to open                                *)
(* ================================================================== *)

(* exact mirror of sc_open_loop: the (key, nonce, ciphertext) of every secretbox.Open call; the
   mirror continues exactly when the loop continues *)
Fixpoint sc_loop_opened (fuel : nat) (payload_key : bytes) (signer : option bytes) (hh : bytes) (n : N)
         (input : bytes) : list (bytes * bytes * bytes) :=
  match fuel with
  | O => []
  | S f =>
    match read_packet input with
    | Err _ => []
    | Ok (m, rest) =>
      match of_dres (view_signcrypt_block m) with
      | Err _ => []
      | Ok (ct, final) =>
        if negb (block_number_ok n) then []
        else
        let nonce := nonce_chunk_signcryption hh final n in
        (payload_key, nonce, ct) ::
        match sb_open c payload_key nonce ct with
        | None => []
        | Some att =>
          if Nat.ltb (length att) 64 then []
          else
            let sig := firstn 64 att in
            let chunk := skipn 64 att in
            let sig_ok := match signer with
                          | None => true
                          | Some pk => ed_verify c pk (signcrypt_sig_input c hh nonce final chunk) sig
                          end in
            if negb sig_ok then []
            else
              match check_chunk_state v2 (length chunk) n final with
              | Err _ => []
              | Ok _ => if final then [] else sc_loop_opened f payload_key signer hh (n + 1) rest
              end
        end
      end
    end
  end.

(* the boxes the receive loop tries to open on [input] when the header names no sender (mirror of
   signcrypt_open_stream); the key component is the payload key the receiver derived *)
Definition sc_anon_opened_boxes (kr : keyring) (signers : sigring) (rv : resolver) (input : bytes)
  : list (bytes * bytes * bytes) :=
  match read_header_bytes input with
  | Err _ => []
  | Ok (hb, rest) =>
    match decode_header view_enc_header hb with
    | Err _ => []
    | Ok h =>
      match process_sc_header c kr signers rv h with
      | Ok (pkey, None) => sc_loop_opened (S (length rest)) pkey None (sha512 c hb) 0 rest
      | _ => []
      end
    end
  end.

(* ================================================================== *)
(* Breaks                                                              *)
(* ================================================================== *)

Inductive ScAnonBreakL (kr : keyring) (signers : sigring) (rv : resolver)
          (M : list sc_anon_msg) (input : bytes) : Prop :=
| ScAnonBoxForgeryL (k nonce ct : bytes) :
    In (k, nonce, ct) (sc_anon_opened_boxes kr signers rv input) ->
    sb_open c k nonce ct <> None ->
    ~ In (k, nonce, ct) (sc_hist_sealed M) ->
    ScAnonBreakL kr signers rv M input
| ScAnonNonceCollisionL (x y : bytes) :
    In x (sc_recv_hashed c kr signers rv input) ->
    In y (sc_anon_hist_hashed M) ->
    x <> y -> sc_nonce_prefix (sha512 c x) = sc_nonce_prefix (sha512 c y) ->
    ScAnonBreakL kr signers rv M input.

(* the unlocated statements *)
Inductive ScAnonBreak (M : list sc_anon_msg) : Prop :=
| ScAnonBoxForgery (k nonce ct : bytes) :
    sb_open c k nonce ct <> None -> ~ In (k, nonce, ct) (sc_hist_sealed M) -> ScAnonBreak M
| ScAnonNonceCollision (x y : bytes) :
    x <> y -> sc_nonce_prefix (sha512 c x) = sc_nonce_prefix (sha512 c y) -> ScAnonBreak M.

(* (TARGET) T3 *)
Theorem anon_located_implies_unlocated (kr : keyring) (signers : sigring) (rv : resolver)
        (M : list sc_anon_msg) (input : bytes) :
  ScAnonBreakL kr signers rv M input ->
  (exists k nonce ct, sb_open c k nonce ct <> None /\ ~ In (k, nonce, ct) (sc_hist_sealed M)) \/
  (exists x y, x <> y /\ sc_nonce_prefix (sha512 c x) = sc_nonce_prefix (sha512 c y)).
Proof.
  intros [k nonce ct _ Ho Hn|x y _ _ Hne He].
  - left. exists k, nonce, ct. split; assumption.
  - right. exists x, y. split; assumption.
Qed.

Lemma anon_located_implies_break (kr : keyring) (signers : sigring) (rv : resolver)
      (M : list sc_anon_msg) (input : bytes) :
  ScAnonBreakL kr signers rv M input -> ScAnonBreak M.
Proof.
  intros [k nonce ct _ Ho Hn|x y _ _ Hne He].
  - exact (ScAnonBoxForgery M k nonce ct Ho Hn).
  - exact (ScAnonNonceCollision M x y Hne He).
Qed.

(* (TARGET) T5 *)
Theorem full_collision_implies_nonce_collision (kr : keyring) (signers : sigring) (rv : resolver)
        (M : list sc_anon_msg) (input : bytes) (x y : bytes) :
  In x (sc_recv_hashed c kr signers rv input) -> In y (sc_anon_hist_hashed M) ->
  x <> y -> sha512 c x = sha512 c y -> ScAnonBreakL kr signers rv M input.
Proof.
  intros Hx Hy Hne He. apply (ScAnonNonceCollisionL kr signers rv M input x y Hx Hy Hne).
  rewrite He. reflexivity.
Qed.

(* ================================================================== *)
(* Reduction                                                           *)
(* ================================================================== *)

Hypothesis Hsha : forall x, length (sha512 c x) = 64%nat.
Hypothesis Hsb : forall k n m, sb_open c k n (sb_seal c k n m) = Some m.

Definition triple_eq_dec : forall a b : bytes * bytes * bytes, {a = b} + {a <> b}.
Proof.
  intros [[a1 a2] a3] [[b1 b2] b3].
  destruct (bytes_eq_dec a1 b1) as [->|H1]; [|right; intro E; injection E as E1 _ _; exact (H1 E1)].
  destruct (bytes_eq_dec a2 b2) as [->|H2]; [|right; intro E; injection E as E2 _; exact (H2 E2)].
  destruct (bytes_eq_dec a3 b3) as [->|H3]; [|right; intro E; injection E as E3; exact (H3 E3)].
  left. reflexivity.
Defined.

Lemma sam_packet_seals_in (pkey hh : bytes) (t : bytes * bytes * bytes) : forall ps n,
  In t (sam_packet_seals pkey hh n ps) ->
  exists k ch f, nth_error ps k = Some (ch, f) /\
    t = (pkey, nonce_chunk_signcryption hh f (n + N.of_nat k),
         sb_seal c pkey (nonce_chunk_signcryption hh f (n + N.of_nat k)) (zeros 64 ++ ch)).
Proof.
  induction ps as [|[ch f] ps IH]; intros n H; cbn [sam_packet_seals] in H; [destruct H|].
  destruct H as [<-|H].
  - exists 0%nat, ch, f. split; [reflexivity|]. rewrite N.add_0_r. reflexivity.
  - apply IH in H as (k & ch' & f' & Hn & Ht). exists (S k), ch', f'.
    split; [exact Hn|]. replace (n + N.of_nat (S k)) with (n + 1 + N.of_nat k) by (clear; lia). exact Ht.
Qed.

(* packet [i] released (chunk, final): a box listed in OB, tried under pkey with the nonce of
   (hh, final, i), opened to 64 bytes ++ chunk *)
Definition sc_anon_pkt (OB : list (bytes * bytes * bytes)) (pkey hh : bytes) (i : N) (ch : bytes) (f : bool) : Prop :=
  exists ct att,
    In (pkey, nonce_chunk_signcryption hh f i, ct) OB /\
    sb_open c pkey (nonce_chunk_signcryption hh f i) ct = Some att /\
    (64 <= length att)%nat /\ ch = skipn 64 att /\ i < 18446744073709551616.

Fixpoint sc_anon_rel (OB : list (bytes * bytes * bytes)) (pkey hh : bytes) (n : N) (rs : list (bytes * bool)) : Prop :=
  match rs with
  | [] => True
  | (ch, f) :: t => sc_anon_pkt OB pkey hh n ch f /\ sc_anon_rel OB pkey hh (n + 1) t
  end.

Lemma sc_anon_rel_cons (x : bytes * bytes * bytes) (OB : list (bytes * bytes * bytes)) (pkey hh : bytes) :
  forall rs n, sc_anon_rel OB pkey hh n rs -> sc_anon_rel (x :: OB) pkey hh n rs.
Proof.
  induction rs as [|[ch f] t IH]; intros n H; cbn [sc_anon_rel] in *; [exact I|].
  destruct H as [(ct & att & Hin & Ho & Hl & Hc & Hlt) H2]. split; [|exact (IH _ H2)].
  exists ct, att. split; [right; exact Hin|]. repeat (split; [assumption|]). assumption.
Qed.

(* ---------- the receiver's loop, anonymous sender ---------- *)
Lemma sc_anon_loop_inv (pkey hh : bytes) : forall fuel n inp acc,
  exists rs,
    so_chunks (sc_open_loop c fuel pkey None hh n inp acc) = rev acc ++ map fst rs /\
    sc_anon_rel (sc_loop_opened fuel pkey None hh n inp) pkey hh n rs /\
    (so_end (sc_open_loop c fuel pkey None hh n inp acc) = EOF -> ends_final rs).
Proof.
  assert (Stop : forall (acc : list bytes) (e : err) OB n, e <> EOF ->
            exists rs, so_chunks (mkOut (rev_append acc []) e) = rev acc ++ map fst rs /\
                       sc_anon_rel OB pkey hh n rs /\ (so_end (mkOut (rev_append acc []) e) = EOF -> ends_final rs)).
  { intros acc e OB n He. exists []. cbn [so_chunks so_end map sc_anon_rel].
    rewrite rev_append_rev, !app_nil_r. split; [reflexivity|]. split; [exact I|].
    intro E. contradiction. }
  induction fuel as [|fuel IH]; intros n inp acc; cbn [sc_open_loop sc_loop_opened].
  - apply Stop. discriminate.
  - destruct (read_packet inp) as [[m rest]|e] eqn:Er.
    2:{ apply Stop. intros ->. exact (read_packet_not_eof inp Er). }
    destruct (of_dres (view_signcrypt_block m)) as [[ct f]|e] eqn:Ev.
    2:{ apply Stop. intros ->. exact (of_dres_not_eof _ Ev). }
    destruct (block_number_ok n) eqn:Ebn; cbn [negb]; [|apply Stop; discriminate].
    cbv zeta.
    destruct (sb_open c pkey (nonce_chunk_signcryption hh f n) ct) as [att|] eqn:Esb; [|apply Stop; discriminate].
    destruct (Nat.ltb (length att) 64) eqn:Elt; [apply Stop; discriminate|].
    cbn [negb].
    destruct (check_chunk_state v2 (length (skipn 64 att)) n f) as [u|e] eqn:Ec.
    2:{ apply Stop. intros ->. exact (check_chunk_state_not_eof _ _ _ _ Ec). }
    assert (Hpk : forall OB, sc_anon_pkt ((pkey, nonce_chunk_signcryption hh f n, ct) :: OB) pkey hh n (skipn 64 att) f).
    { intro OB. exists ct, att. split; [left; reflexivity|]. split; [exact Esb|].
      split; [apply PeanoNat.Nat.ltb_ge in Elt; exact Elt|]. split; [reflexivity|].
      unfold block_number_ok in Ebn. apply N.ltb_lt in Ebn. clear - Ebn. lia. }
    destruct f.
    + exists [(skipn 64 att, true)]. cbn [so_chunks so_end map fst sc_anon_rel].
      rewrite rev_append_rev, app_nil_r. cbn [rev]. split; [reflexivity|].
      split; [split; [apply Hpk|exact I]|]. intros _. exists [], (skipn 64 att). reflexivity.
    + destruct (IH (n + 1) rest (skipn 64 att :: acc)) as (rs & Hc & Hr & He).
      exists ((skipn 64 att, false) :: rs). rewrite Hc. cbn [rev map fst sc_anon_rel]. rewrite <- app_assoc.
      split; [reflexivity|]. split; [split; [apply Hpk|apply sc_anon_rel_cons; exact Hr]|].
      intro E. destruct (He E) as (init & ch' & ->). exists ((skipn 64 att, false) :: init), ch'. reflexivity.
Qed.

(* ---------- one packet ---------- *)

(* packet [i] of an honest anonymous message with header bytes [hb] and payload key [pkey] is (chunk, final) *)
Definition sc_anon_pkt_auth (M : list sc_anon_msg) (hb pkey : bytes) (i : N) (ch : bytes) (f : bool) : Prop :=
  exists m, In m M /\ sam_header m = hb /\ sam_pkey m = pkey /\
            nth_error (sam_packets m) (N.to_nat i) = Some (ch, f).

Section Red.
Variables (kr : keyring) (signers : sigring) (rv : resolver) (M : list sc_anon_msg) (input : bytes).
Variables (hb pkey rest : bytes).
Hypothesis Hob : sc_anon_opened_boxes kr signers rv input =
                 sc_loop_opened (S (length rest)) pkey None (sha512 c hb) 0 rest.
Hypothesis Hhb : In hb (sc_recv_hashed c kr signers rv input).

Notation BrkL := (ScAnonBreakL kr signers rv M input).
Notation OB0 := (sc_loop_opened (S (length rest)) pkey None (sha512 c hb) 0 rest).

Lemma sc_anon_packet_reduction (i : N) (ch : bytes) (f : bool) :
  Forall sam_ok M ->
  sc_anon_pkt OB0 pkey (sha512 c hb) i ch f -> sc_anon_pkt_auth M hb pkey i ch f \/ BrkL.
Proof.
  intros Hok (ct & att & Hin & Ho & Hl & Hch & Hlt).
  set (nonce := nonce_chunk_signcryption (sha512 c hb) f i) in *.
  destruct (in_dec triple_eq_dec (pkey, nonce, ct) (sc_hist_sealed M)) as [Hs|Hns].
  2:{ right. apply (ScAnonBoxForgeryL kr signers rv M input pkey nonce ct).
      - rewrite Hob. exact Hin.
      - rewrite Ho. discriminate.
      - exact Hns. }
  unfold sc_hist_sealed in Hs. apply in_flat_map in Hs as (m & Hm & Hs).
  unfold sam_sealed in Hs. destruct Hs as [Hs|Hs].
  - (* the honest sender-key secretbox replayed as a packet: it opens to 32 bytes *)
    exfalso.
    pose proof (f_equal (fun t : bytes * bytes * bytes => fst (fst t)) Hs) as Ek;
    pose proof (f_equal (fun t : bytes * bytes * bytes => snd (fst t)) Hs) as En;
    pose proof (f_equal (fun t : bytes * bytes * bytes => snd t) Hs) as Ec; cbv beta in Ek, En, Ec; cbn [fst snd] in Ek, En, Ec. subst ct. rewrite <- Ek, <- En in Ho. rewrite Ek, Hsb in Ho.
    assert (Ea : att = zeros 32) by congruence. rewrite Ea in Hl.
    unfold zeros in Hl. rewrite repeat_length in Hl. clear - Hl. lia.
  - apply sam_packet_seals_in in Hs as (k & ch' & f' & Hnth & Ht). rewrite N.add_0_l in Ht.
    pose proof (f_equal (fun t : bytes * bytes * bytes => fst (fst t)) Ht) as Ek;
    pose proof (f_equal (fun t : bytes * bytes * bytes => snd (fst t)) Ht) as En;
    pose proof (f_equal (fun t : bytes * bytes * bytes => snd t) Ht) as Ec; cbv beta in Ek, En, Ec; cbn [fst snd] in Ek, En, Ec.
    pose proof (proj1 (Forall_forall _ _) Hok _ Hm) as [Hlen _].
    assert (Hk : (k < length (sam_packets m))%nat) by (apply nth_error_Some; congruence).
    unfold nonce in En.
    pose proof (sc_anon_nonce_inj (sha512 c hb) (sha512 c (sam_header m)) f f' i (N.of_nat k)
                  (Hsha _) (Hsha _) Hlt) as Hinj.
    destruct Hinj as (Ep & Ef & Ei); [unfold sam_packets in Hk; clear - Hlen Hk; lia|exact En|].
    subst f'.
    (* the plaintext the receiver obtained is the one the sender sealed *)
    assert (Ech : ch = ch').
    { rewrite Ec in Ho. fold nonce in En. rewrite En, Ek in Ho.
      rewrite Hsb in Ho. assert (Ea : att = zeros 64 ++ ch') by congruence. rewrite Hch, Ea.
      apply skipn_zeros_app. }
    subst ch'.
    destruct (bytes_eq_dec hb (sam_header m)) as [Eh|Hne].
    + left. exists m. split; [exact Hm|]. split; [symmetry; exact Eh|]. split; [symmetry; exact Ek|].
      rewrite Ei, Nat2N.id. exact Hnth.
    + right. apply (ScAnonNonceCollisionL kr signers rv M input hb (sam_header m) Hhb); [|exact Hne|exact Ep].
      unfold sc_anon_hist_hashed. exact (in_map sam_header _ _ Hm).
Qed.

(* ---------- all released packets ---------- *)
Fixpoint sc_anon_auth_from (n : N) (rs : list (bytes * bool)) : Prop :=
  match rs with
  | [] => True
  | (ch, f) :: t => sc_anon_pkt_auth M hb pkey n ch f /\ sc_anon_auth_from (n + 1) t
  end.

Lemma sc_anon_rel_auth :
  Forall sam_ok M ->
  forall rs n, sc_anon_rel OB0 pkey (sha512 c hb) n rs -> sc_anon_auth_from n rs \/ BrkL.
Proof.
  intros Hok. induction rs as [|[ch f] t IH]; intros n H; cbn [sc_anon_rel sc_anon_auth_from] in *.
  - left. exact I.
  - destruct H as [H1 H2].
    destruct (sc_anon_packet_reduction n ch f Hok H1) as [A|B]; [|right; exact B].
    destruct (IH (n + 1) H2) as [A'|B]; [|right; exact B].
    left. split; assumption.
Qed.

Lemma sc_anon_auth_from_nth : forall rs n k ch f,
  sc_anon_auth_from n rs -> nth_error rs k = Some (ch, f) -> sc_anon_pkt_auth M hb pkey (n + N.of_nat k) ch f.
Proof.
  induction rs as [|[ch0 f0] t IH]; intros n k ch f H Hn; [destruct k; discriminate|].
  cbn [sc_anon_auth_from] in H. destruct H as [H1 H2]. destruct k as [|k]; cbn [nth_error] in Hn.
  - injection Hn as <- <-. rewrite N.add_0_r. exact H1.
  - replace (n + N.of_nat (S k)) with (n + 1 + N.of_nat k) by (clear; lia). exact (IH _ _ _ _ H2 Hn).
Qed.

(* ---------- assembly: one message ---------- *)
Lemma sc_anon_assemble (r0 : bytes * bool) (rs : list (bytes * bool)) :
  sam_headers_distinct M -> Forall sam_ok M -> sc_anon_auth_from 0 (r0 :: rs) ->
  exists m t,
    In m M /\ sam_header m = hb /\ sam_pkey m = pkey /\
    sam_packets m = (r0 :: rs) ++ t /\ (ends_final (r0 :: rs) -> t = []).
Proof.
  intros Hd Hok Ha.
  destruct r0 as [ch0 f0].
  destruct (sc_anon_auth_from_nth _ 0 0%nat ch0 f0 Ha eq_refl) as (m0 & Hin0 & Hh0 & Hk0 & _).
  assert (Hall : forall k x, nth_error ((ch0, f0) :: rs) k = Some x -> nth_error (sam_packets m0) k = Some x).
  { intros k [ch f] Hk.
    destruct (sc_anon_auth_from_nth _ 0 k ch f Ha Hk) as (m & Hin & Hh & _ & Hn).
    rewrite N.add_0_l, Nat2N.id in Hn.
    destruct (In_nth_error _ _ Hin0) as [a Ea]. destruct (In_nth_error _ _ Hin) as [b Eb].
    assert (a = b) by (apply (Hd a b _ _ Ea Eb); congruence).
    subst b. rewrite Ea in Eb. injection Eb as <-. exact Hn. }
  apply nth_prefix in Hall as [t Et].
  exists m0, t. split; [exact Hin0|]. split; [exact Hh0|]. split; [exact Hk0|]. split; [exact Et|].
  intros (init & ch & Ei).
  pose proof (proj1 (Forall_forall _ _) Hok _ Hin0) as [_ Hfl].
  unfold sam_packets in Et. rewrite Et, Ei in Hfl. exact (flags_ok_last _ _ _ Hfl).
Qed.

End Red.

(* (TARGET) T1: C04, anonymous sender, located *)
Theorem signcrypt_anon_authentic_located (kr : keyring) (signers : sigring) (rv : resolver) (input : bytes)
        (out : stream_out) (M : list sc_anon_msg) :
  Forall sam_ok M -> sam_headers_distinct M ->
  signcrypt_open_stream c kr signers rv input = Ok (None, out) ->
  (so_chunks out = [] /\ so_end out <> EOF) \/
  (exists m hb rest,
      In m M /\ read_header_bytes input = Ok (hb, rest) /\ hb = sam_header m /\
      sc_receiver_state c kr signers rv input = Some (sha512 c hb, sam_pkey m, rest) /\
      list_prefix (so_chunks out) (map fst (sam_packets m)) /\
      (so_end out = EOF -> so_chunks out = map fst (sam_packets m)))
  \/ ScAnonBreakL kr signers rv M input.
Proof.
  intros Hok Hd Hv.
  unfold signcrypt_open_stream in Hv.
  destruct (read_header_bytes input) as [[hb rest]|e] eqn:Erh; cbv beta iota delta [bind fst snd] in Hv; [|discriminate].
  destruct (decode_header view_enc_header hb) as [h|e] eqn:Edh; cbv beta iota delta [bind] in Hv; [|discriminate].
  destruct (process_sc_header c kr signers rv h) as [[pkey sg]|e] eqn:Eph;
    cbv beta iota delta [bind fst snd] in Hv; [|discriminate].
  remember (sc_open_loop c _ _ _ _ _ _ _) as lp eqn:Elp in Hv.
  injection Hv as -> <-. subst lp.
  assert (Hst : sc_receiver_state c kr signers rv input = Some (sha512 c hb, pkey, rest)).
  { unfold sc_receiver_state. rewrite Erh, Edh, Eph. reflexivity. }
  assert (Hob : sc_anon_opened_boxes kr signers rv input =
                sc_loop_opened (S (length rest)) pkey None (sha512 c hb) 0 rest).
  { unfold sc_anon_opened_boxes. rewrite Erh, Edh, Eph. reflexivity. }
  assert (Hhb : In hb (sc_recv_hashed c kr signers rv input)).
  { unfold sc_recv_hashed. rewrite Erh. left. reflexivity. }
  destruct (sc_anon_loop_inv pkey (sha512 c hb) (S (length rest)) 0 rest []) as (rs & Hc & Hrel & Heof).
  destruct (sc_anon_rel_auth kr signers rv M input hb pkey rest Hob Hhb Hok rs 0 Hrel)
    as [Ha|B]; [|right; right; exact B].
  destruct rs as [|r0 rs].
  - left. split; [rewrite Hc; reflexivity|].
    intro E. destruct (Heof E) as (init & ch & E'). destruct init; discriminate.
  - right. left.
    destruct (sc_anon_assemble M hb pkey r0 rs Hd Hok Ha) as (m & t & Hin & Hh & Hk & Et & Hfin).
    exists m, hb, rest. split; [exact Hin|]. split; [reflexivity|]. split; [symmetry; exact Hh|].
    split; [rewrite Hk; exact Hst|].
    rewrite Hc. cbn [rev app]. split.
    + rewrite Et, map_app. apply list_prefix_app.
    + intro E. rewrite (Hfin (Heof E)) in Et. rewrite app_nil_r in Et. rewrite Et. reflexivity.
Qed.

(* (TARGET) T2: all-at-once form *)
Theorem signcrypt_anon_authentic_all_located (kr : keyring) (signers : sigring) (rv : resolver) (input : bytes)
        (pt : bytes) (M : list sc_anon_msg) :
  Forall sam_ok M -> sam_headers_distinct M ->
  signcrypt_open_all c kr signers rv input = Ok (None, pt) ->
  (exists m hb rest,
      In m M /\ read_header_bytes input = Ok (hb, rest) /\ hb = sam_header m /\
      sc_receiver_state c kr signers rv input = Some (sha512 c hb, sam_pkey m, rest) /\
      pt = concat (map fst (sam_packets m)))
  \/ ScAnonBreakL kr signers rv M input.
Proof.
  intros Hok Hd Hv. unfold signcrypt_open_all in Hv.
  destruct (signcrypt_open_stream c kr signers rv input) as [[sg out]|e] eqn:Es;
    cbv beta iota delta [bind fst snd] in Hv; [|discriminate].
  destruct (so_end out) eqn:Ee; try discriminate.
  injection Hv as -> <-.
  destruct (signcrypt_anon_authentic_located kr signers rv input out M Hok Hd Es)
    as [[_ Hne]|[(m & hb & rest & Hin & Hrh & Hh & Hst & _ & Hall)|B]].
  - contradiction.
  - left. exists m, hb, rest. repeat (split; [assumption|]). rewrite (Hall Ee). reflexivity.
  - right. exact B.
Qed.

End Loc.


(* ================================================================== *)
(* The statement tested on concrete instances (vm_compute)             *)
(* ================================================================== *)
From SP Require Import ToyCrypto ToyCryptoProofs.

(* decidable form of "a box forgery is located on this input" *)
Definition triple_eqb (a b : bytes * bytes * bytes) : bool :=
  bytes_eqb (fst (fst a)) (fst (fst b)) && bytes_eqb (snd (fst a)) (snd (fst b)) && bytes_eqb (snd a) (snd b).

Definition sc_anon_forged_b (c : crypto) (kr : keyring) (signers : sigring) (rv : resolver)
           (M : list sc_anon_msg) (input : bytes) : bool :=
  existsb (fun t => match sb_open c (fst (fst t)) (snd (fst t)) (snd t) with
                    | Some _ => negb (existsb (triple_eqb t) (sc_hist_sealed c M))
                    | None => false
                    end) (sc_anon_opened_boxes c kr signers rv input).

(* decidable form of "a FULL SHA-512 collision is located on this input" *)
Definition sc_anon_full_collision_b (c : crypto) (kr : keyring) (signers : sigring) (rv : resolver)
           (M : list sc_anon_msg) (input : bytes) : bool :=
  existsb (fun x => existsb (fun y => negb (bytes_eqb x y) && bytes_eqb (sha512 c x) (sha512 c y))
                            (sc_anon_hist_hashed M))
          (sc_recv_hashed c kr signers rv input).

(* decidable form of "a nonce-prefix collision (ScAnonNonceCollisionL) is located on this input" *)
Definition sc_anon_nonce_collision_b (c : crypto) (kr : keyring) (signers : sigring) (rv : resolver)
           (M : list sc_anon_msg) (input : bytes) : bool :=
  existsb (fun x => existsb (fun y => negb (bytes_eqb x y) &&
                                      bytes_eqb (sc_nonce_prefix (sha512 c x)) (sc_nonce_prefix (sha512 c y)))
                            (sc_anon_hist_hashed M))
          (sc_recv_hashed c kr signers rv input).

(* what ANOTHER RECIPIENT of an honest anonymous message can do: derive the payload key from the
   honest wire message with its own keys (process_sc_header), keep the header bytes, and seal any
   packets it likes with signcrypt_packets (signer = None).  Only the insider's keyring and the
   honest wire bytes are used. *)
Definition sc_insider_forge (c : crypto) (kr_insider : keyring) (honest_wire : bytes)
           (ps : list (bytes * bool)) : result bytes :=
  bind (read_header_bytes honest_wire) (fun hr =>
  bind (decode_header view_enc_header (fst hr)) (fun h =>
  bind (process_sc_header c kr_insider [] None h) (fun ks =>
  bind (signcrypt_packets c None (fst ks) (sha512 c (fst hr)) 0 ps) (fun body =>
  Ok (mp_encode (MBin (fst hr)) ++ body))))).

Section Ex.
Variable c : crypto.
Definition ex_sk := repeat x11 32.        (* the receiver *)
Definition ex_sk2 := repeat x22 32.       (* another recipient of the same message *)
Definition ex_eph := repeat x44 32.
Definition ex_pkey := repeat x55 32.
Definition ex_kr := mkRing [(ex_sk, dh_pub c ex_sk)] None.
Definition ex_kr2 := mkRing [(ex_sk2, dh_pub c ex_sk2)] None.
(* the anonymous header for recipients ex_sk, ex_sk2, as signcrypt_core builds it; [extra] = receiver
   entries appended by a tamperer *)
Definition ex_hdr (extra : list (option bytes * bytes)) : bytes :=
  let eph_pk := dh_pub c ex_eph in
  mp_encode (mv_enc_header v2 mt_signcryption eph_pk (sb_seal c ex_pkey nonce_sender_key_sbox (zeros 32))
     (mapi_from (sc_receiver_entry c ex_eph eph_pk ex_pkey) 0 [BoxRcpt (dh_pub c ex_sk); BoxRcpt (dh_pub c ex_sk2)]
      ++ extra)).
Definition ex_ps : list (bytes * bool) := [([x68], false); ([x69], true)].
Definition ex_M : list sc_anon_msg := [mkScAnonMsg ex_pkey (mkScMsg (ex_hdr []) ex_ps)].
(* the (ciphertext, final) pairs of the honest packets, from the history's seal list *)
Definition ex_cts : list (bytes * bool) :=
  map (fun tp => (snd (fst tp), snd (snd tp)))
      (combine (sam_packet_seals c ex_pkey (sha512 c (ex_hdr [])) 0 ex_ps) ex_ps).
Definition ex_wire (hdr : bytes) (cts : list (bytes * bool)) : bytes :=
  mp_encode (MBin hdr) ++ concat (map (fun p => mp_encode (mv_signcrypt_block (fst p) (snd p))) cts).
(* (sender, chunks, end, box forgery located?, nonce-prefix collision located?, full collision located?,
   header = honest header?) *)
Definition ex_run (input : bytes) :=
  match signcrypt_open_stream c ex_kr [] None input with
  | Ok (s, o) =>
    Some (s, so_chunks o, so_end o,
          sc_anon_forged_b c ex_kr [] None ex_M input,
          sc_anon_nonce_collision_b c ex_kr [] None ex_M input,
          sc_anon_full_collision_b c ex_kr [] None ex_M input,
          match read_header_bytes input with Ok (hb, _) => bytes_eqb hb (ex_hdr []) | Err _ => false end)
  | Err _ => None
  end.
End Ex.

(* the hypotheses of the theorems hold of the example history, for every instance *)
Lemma ex_M_ok (c : crypto) : Forall sam_ok (ex_M c) /\ sam_headers_distinct (ex_M c).
Proof.
  split.
  - constructor; [|constructor]. split; [reflexivity|].
    exists [([x68], false)], ([x69], true). split; [reflexivity|]. split; [reflexivity|].
    constructor; [reflexivity|constructor].
  - intros [|i] [|j] m1 m2 H1 H2 _; cbn [ex_M nth_error] in H1, H2; try reflexivity;
      try (destruct i; discriminate); destruct j; discriminate.
Qed.

(* the example wire message is what the model's sender emits for that header *)
Example sc_anon_ex_wire_is_sender_output :
  match signcrypt_packets toy_crypto None ex_pkey (sha512 toy_crypto (ex_hdr toy_crypto [])) 0 ex_ps with
  | Ok body => bytes_eqb (mp_encode (MBin (ex_hdr toy_crypto [])) ++ body)
                         (ex_wire (ex_hdr toy_crypto []) (ex_cts toy_crypto))
  | Err _ => false
  end = true.
Proof. vm_compute. reflexivity. Qed.

(* genuine two-packet anonymous message: everything released, clean end, nothing located *)
Example sc_anon_ex_genuine :
  ex_run toy_crypto (ex_wire (ex_hdr toy_crypto []) (ex_cts toy_crypto))
  = Some (None, [[x68]; [x69]], EOF, false, false, false, true).
Proof. vm_compute. reflexivity. Qed.

(* truncated after the first packet: a proper prefix, no clean end, nothing located *)
Example sc_anon_ex_truncated :
  ex_run toy_crypto (ex_wire (ex_hdr toy_crypto []) (firstn 1 (ex_cts toy_crypto)))
  = Some (None, [[x68]], ErrUnexpectedEOF, false, false, false, true).
Proof. vm_compute. reflexivity. Qed.

(* packets swapped: the toy secretbox ignores its nonce, so the final packet opens as packet 0 and
   [x69] is released — NOT a prefix of the honest plaintext; the theorem's third disjunct holds: the
   opened box (pkey, nonce of (final, 0), ct) was sealed by nobody (the honest seal has the nonce of
   (final, 1)), a located box forgery *)
Example sc_anon_ex_reordered :
  ex_run toy_crypto (ex_wire (ex_hdr toy_crypto []) (rev (ex_cts toy_crypto)))
  = Some (None, [[x69]], ErrTrailingGarbage, true, false, false, true).
Proof. vm_compute. reflexivity. Qed.

(* INSIDER FORGERY (the documented limit of anonymous mode): the second recipient derives the
   payload key from the honest message with its own key and seals a different plaintext under the
   honest header; the receiver accepts it as an anonymous message, clean end.  Formally the forged
   box is an ScAnonBoxForgeryL witness (no honest SENDER sealed it) — the theorem holds through its
   break disjunct and promises nothing here, because the history has no events of other recipients. *)
Example sc_anon_insider_forgery_accepted :
  match sc_insider_forge toy_crypto (ex_kr2 toy_crypto)
          (ex_wire (ex_hdr toy_crypto []) (ex_cts toy_crypto)) [([x41], true)] with
  | Ok forged => ex_run toy_crypto forged
  | Err _ => None
  end = Some (None, [[x41]], EOF, true, false, false, true).
Proof. vm_compute. reflexivity. Qed.

(* A FULL SHA-512 COLLISION IS NOT ENOUGH.  toy_crypto_h: as toy_crypto, but the hash is
   (first 16 bytes of x) ++ (first 48 bytes of rev x) — 64 bytes, and different for two strings with
   different endings.  A tamperer appends a receiver entry to the honest header: different header
   bytes, different hash, same first 16 hash bytes, hence the same chunk nonces.  All packets are
   released with a clean end; every box the receiver opened was honestly sealed (no forgery located);
   the receiver-hashed string (the tampered header) and the history's header do not collide.  So the
   theorem with "located full SHA-512 collision" in place of ScAnonNonceCollisionL would be FALSE of
   this instance, which satisfies Hsha and Hsb (toy_crypto_h_hyps) and whose history satisfies
   sam_ok / sam_headers_distinct (ex_M_ok).  The disjunct that does hold is the located nonce-prefix
   collision (fifth component true). *)
Definition toy_crypto_h : crypto := {|
  sha512 := fun x => fit 16 x ++ fit 48 (rev x);
  hmac512 := hmac512 toy_crypto;
  sb_seal := sb_seal toy_crypto;
  sb_open := sb_open toy_crypto;
  dh_pub := dh_pub toy_crypto;
  dh_shared := dh_shared toy_crypto;
  ed_pub := ed_pub toy_crypto;
  ed_sign := ed_sign toy_crypto;
  ed_verify := ed_verify toy_crypto
|}.

Lemma toy_crypto_h_hyps :
  (forall x, length (sha512 toy_crypto_h x) = 64%nat) /\
  (forall k n m, sb_open toy_crypto_h k n (sb_seal toy_crypto_h k n m) = Some m).
Proof.
  split.
  - intro x. cbn [toy_crypto_h sha512]. rewrite app_length, !fit_length. reflexivity.
  - intros k n m. exact (ok_sb toy_crypto toy_crypto_ok k n m).
Qed.

Example sc_anon_full_collision_insufficient :
  ex_run toy_crypto_h (ex_wire (ex_hdr toy_crypto_h [(Some (repeat x01 32), repeat x02 48)]) (ex_cts toy_crypto_h))
  = Some (None, [[x68]; [x69]], EOF, false, true, false, false).
Proof. vm_compute. reflexivity. Qed.

(* Hsb IS NEEDED.  toy_crypto_r: as toy_crypto, but secretbox.Open returns the plaintext REVERSED (it is
   not the inverse of Seal; the 64-byte hash is kept).  On the genuine wire message the header bytes
   are the honest ones, every opened box was honestly sealed, nothing collides — and the receiver
   releases [x00]; [x00], which nobody sent: all three disjuncts of T1 fail.  (Functional correctness
   of secretbox is therefore a hypothesis of the reduction, exactly as ok_sb is in EncAuthLocated.v.) *)
Definition toy_crypto_r : crypto := {|
  sha512 := sha512 toy_crypto;
  hmac512 := hmac512 toy_crypto;
  sb_seal := sb_seal toy_crypto;
  sb_open := fun k n b => match sb_open toy_crypto k n b with Some m => Some (rev m) | None => None end;
  dh_pub := dh_pub toy_crypto;
  dh_shared := dh_shared toy_crypto;
  ed_pub := ed_pub toy_crypto;
  ed_sign := ed_sign toy_crypto;
  ed_verify := ed_verify toy_crypto
|}.

Example sc_anon_needs_sb_correctness :
  ex_run toy_crypto_r (ex_wire (ex_hdr toy_crypto_r []) (ex_cts toy_crypto_r))
  = Some (None, [[x00]; [x00]], EOF, false, false, false, true).
Proof. vm_compute. reflexivity. Qed.

Print Assumptions signcrypt_anon_authentic_located.
Print Assumptions signcrypt_anon_authentic_all_located.
Print Assumptions anon_located_implies_unlocated.
Print Assumptions sc_nonce_prefix_spec.
Print Assumptions full_collision_implies_nonce_collision.
