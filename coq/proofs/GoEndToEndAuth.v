(* GoEndToEndAuth.v -- AUTHENTICITY AT THE LEVEL OF THE TRANSLATED GO CODE: the composition of
     (R) the receiver source ties of proofs/GoAstProofs7c.v (the bodies of /repo's Open, Verify, VerifyDetached,
         VerifyDetachedReader and SigncryptOpen, translated on this run from the Go syntax trees (gen/GoAstOpen.v)
         and run by the evaluator of model/GoLang2.v, return for EVERY input the outcome class of the model's
         open_all / verify_all / verify_detached / signcrypt_open_all), with
     (M) the model's all-at-once authenticity theorems with LOCATED break witnesses (proofs/EncAuthLocated.v,
         SignAuthLocated.v, ScAuthLocated.v, ScAnonLocated.v; restated as C02_all_at_once, C06_all_at_once,
         C07_authentic, C04_all_at_once in props/).
   Nothing is re-proved: each theorem is  go_X ; X_outcome_model ; X_authentic_all_located.

   SUCCESS is phrased in two ways, both about the value the EVALUATOR returns for the translated entry point:
     (class form)  as the (R) lemmas phrase it: open_class / verify_class / vd_class / scopen_class of the outcome
                   is Ok (...).  The class of the stuck evaluator (OStuck "call": the model says Unmodelled or a panic) is
                   Err Unmodelled, so a successful class is not stuck and the hypothesis "the outcome is not the stuck
                   evaluator" of open_outcome_model / verify_outcome_model / scopen_outcome_model is DISCHARGED here
                   (open_class_ok_not_stuck etc.), it is not a hypothesis of any theorem below.
     (nil-error form) as a Go caller phrases it: the outcome is ORet [x; body; VNil] (err == nil).  The theorems then also
                   say WHAT the other results are: x is the Go encoding of the model's MessageKeyInfo / signing key /
                   optional sender, body is VBytes pt, and (pt, sender) satisfy the model theorem's conclusion.
   The meaning of the externs (ext_open, ext_verify, ext_vdet, ext_vdet2, ext_scopen), of the encodings (g_mki, g_spk,
   g_signer, g_rdr) and the limits of (R) are those of GoAstProofs7c.v (its header): in particular, inside Open / Verify /
   SigncryptOpen the constructor New*Stream and io.ReadAll are externs with the model's meaning (open_stream, verify_stream,
   signcrypt_open_stream and "all chunks, then the ending error unless io.EOF"); pm (input -> value) is the MessageKeyInfo
   Open returns beside an error, which the model does not describe: every theorem holds for EVERY pm.

   TARGETS (all proved with Qed; each prints "Closed under the global context").  For each: reading, then ALL hypotheses.
   1. go_Open_authentic  (C02)
        For every primitives record c, every pm, validator vd, sender whitelist `senders`, opaque Go values VV RING, and EVERY
        input: if the translated saltpack.Open, run on (VV, input, RING) with the receiver's keyring
        kr = {(r_sk, dh_pub r_sk)} / senders, returns the class Ok (m, pt) with m naming the honest sender
        (mki_sender m = dh_pub c s_sk, not anonymous), then pt is the WHOLE plaintext (concatenated chunks) of ONE message msg
        of the honest history L whose recipient list holds this recipient's public key (at position pos) -- or
        EncBreakL c s_sk r_sk vd kr L input (a MAC forgery / SHA-512 collision LOCATED in this input and the history).
        Hypotheses: crypto_ok c (as C02_all_at_once); Forall (em_ok c s_sk) L; em_headers_distinct c s_sk L;
          |input| < 2^64; the Go call's class is Ok (m, pt); mki_sender m = dh_pub c s_sk; mki_sender_anon m = false.
      go_Open_authentic_nil_error: the same from  fst (run_func2 ...) = ORet [mk; body; VNil]: then mk = g_mki m k for the
        model's MessageKeyInfo m and the box key k found (snd k = mki_receiver m), body = VBytes pt, and if m names the
        honest sender the conclusion above holds.  Hypotheses: crypto_ok c; the two on L; |input| < 2^64.
   2. go_Verify_authentic  (C06)
        If the translated saltpack.Verify on (VV, input, KR), keyring kr, returns the class Ok (pk, msg), then msg is the whole
        message of one attached-signature event EvAttached v nonce ps of pk's honest history L -- or AttBreak c vd pk L input.
        Hypotheses: forall x, |sha512 c x| = 64; Forall event_ok L; headers_distinct pk L; |input| < 2^64; len pk < 2^32.
      go_Verify_authentic_nil_error: from ORet [sg; body; VNil]: sg = g_spk pk, body = VBytes msg and (given
        headers_distinct pk L, len pk < 2^32) the conclusion.  Hypotheses: the SHA length; Forall event_ok L; |input| < 2^64.
   3. go_VerifyDetached_authentic, go_VerifyDetachedReader_authentic  (C07)
        If the translated VerifyDetached on (VV, msg, sigfile, KR) [resp. VerifyDetachedReader on a reader delivering msg and
        then io.EOF or ANY read error rerr] returns the class Ok pk, then EvDetached v nonce msg is in pk's honest history L
        and the header bytes of sigfile are sig_header_bytes v mt_detached pk nonce -- or DetBreak c vd pk L msg sigfile.
        (With a read error the call never succeeds: vdet_outcome_ok.)
        Hypotheses: forall x, |sha512 c x| = 64; Forall event_ok L; len pk < 2^32.
      go_VerifyDetached_authentic_nil_error, go_VerifyDetachedReader_authentic_nil_error: from ORet [sg; VNil]:
        sg = g_spk pk and (given len pk < 2^32) the conclusion.  Hypotheses: the SHA length; Forall event_ok L.
   4. go_SigncryptOpen_authentic  (C04, named sender)
        If the translated SigncryptOpen on (input, KR, RV) returns the class Ok (Some pk, pt), then pt is the whole plaintext of
        one message of pk's signcryption history M -- or ScBreakL c kr signers rv pk M others input.
        Hypotheses: forall x, |sha512 c x| = 64; Forall sm_ok M; sm_headers_distinct M; Forall other_ok others; |input| < 2^64.
      go_SigncryptOpen_authentic_nil_error: from ORet [VBytes pk; body; VNil]: body = VBytes pt and the conclusion.
      go_SigncryptOpen_anonymous_authentic  (C04, anonymous sender; the model theorem is
        ScAnonLocated.signcrypt_anon_authentic_all_located -- props/C04.v has no C04_anonymous_all_at_once in this copy)
        If the class is Ok (None, pt), then pt is the whole plaintext of one message m of the history M of ANONYMOUS messages
        honest senders produced, whose header bytes are the input's and whose payload key is the key the receiver derived
        (sc_receiver_state) -- or ScAnonBreakL c kr signers rv M input (a secretbox nobody honest sealed that opens, or a
        collision on the 127 bits of the header hash the nonce carries; see ScAnonLocated.v for why not a full collision).
        Hypotheses: forall x, |sha512 c x| = 64; forall k n m, sb_open c k n (sb_seal c k n m) = Some m (functional
          correctness of secretbox, field ok_sb of crypto_ok: needed by the model theorem); Forall sam_ok M;
          sam_headers_distinct M.  (No bound on the input length: the model theorem has none.)
      go_SigncryptOpen_anonymous_authentic_nil_error: from ORet [VNil; body; VNil].
   STREAMING FORMS: not in this version (in progress). *)
From Coq Require Import List String NArith ZArith Bool Lia.
From Coq.Strings Require Import Byte.
From SP Require Import Bytes Consts Params Msgpack Crypto Errors Nonce Packets Chunker Rand Sign Verify Encrypt Decrypt Signcrypt
     SignAuthProofs EncryptProofs EncAuthProofs EncAuthLocated ScAuthProofs ScAuthLocated ScAnonLocated SignAuthLocated
     GoLang GoLang2 GoAst GoAstProofs GoAstProofs2 GoAstProofs3 GoAstProofs4a GoAstProofs4b GoAstProofs5a GoAstProofs7c.
From SP Require Import GoAstOpen.
Import ListNotations.
Local Open Scope string_scope.

(* ================= success of a class function excludes the stuck evaluator ================= *)
Lemma open_class_ok_not_stuck (o : outcome) (x : mki * bytes) : open_class o = Ok x -> o <> OStuck "call".
Proof. intros H E. rewrite E in H. discriminate H. Qed.
Lemma scopen_class_ok_not_stuck (o : outcome) (x : option bytes * bytes) : scopen_class o = Ok x -> o <> OStuck "call".
Proof. intros H E. rewrite E in H. discriminate H. Qed.
Lemma verify_class_ok_not_stuck (o : outcome) (x : bytes * bytes) : verify_class o = Ok x -> o <> OStuck "call".
Proof. intros H E. rewrite E in H. discriminate H. Qed.

(* the Go value of an error class is never nil *)
Lemma g_herr_not_nil (e : err) : g_herr e <> Some VNil.
Proof. intros H. destruct (g_herr_verr _ _ H) as (nm & E). discriminate E. Qed.
Lemma g_err4b_not_nil (e : err) : GoAstProofs4b.g_err e <> Some VNil.
Proof. destruct e; cbn [GoAstProofs4b.g_err]; intros H; discriminate H. Qed.

(* ================= what a nil error says about the outcomes of GoAstProofs7c.v ================= *)
Section Shapes.
Variable c : crypto.
Variable pm : bytes -> gval.

(* Open: err == nil exactly on the model's success; the first result is the Go MessageKeyInfo of the model's *)
Lemma open_outcome_nil_error (vd : validator) (kr : keyring) (input : bytes) (mk body : gval) :
  open_outcome c pm vd kr input = ORet [mk; body; VNil] ->
  exists m k pt, mk = g_mki m k /\ snd k = mki_receiver m /\ body = VBytes pt /\
                 open_class (open_outcome c pm vd kr input) = Ok (m, pt).
Proof.
  intros H. rewrite H. revert H. unfold open_outcome.
  pose proof (open_stream_header c vd kr input) as Hos.
  destruct (open_stream c vd kr input) as [[m [chunks e]]|e] eqn:Ho; cbn [so_end so_chunks].
  - destruct (dec_read_header c vd kr input) as [[[m' st] rest]|e'] eqn:Hh; cbn [bind fst snd] in Hos; [|discriminate].
    destruct (dec_header_key_some c vd kr input m' st rest Hh) as (_ & k & Hk & Hks). rewrite Hk.
    assert (m' = m) by congruence. subst m'.
    destruct e; cbn [GoAstProofs4b.g_err]; intros H; try discriminate H.
    injection H as <- <-. exists m, k, (List.concat chunks).
    split; [reflexivity|]. split; [exact Hks|]. split; [reflexivity|].
    cbn [open_class]. rewrite (as_mki_g m k Hks). reflexivity.
  - destruct (g_herr e) as [ev|] eqn:Hge; intros H; [|discriminate H].
    injection H as _ _ ->. exfalso. exact (g_herr_not_nil e Hge).
Qed.

Lemma scopen_outcome_nil_error (kr : keyring) (signers : sigring) (rv : resolver) (input : bytes) (sg body : gval) :
  scopen_outcome c kr signers rv input = ORet [sg; body; VNil] ->
  exists signer pt, sg = g_signer signer /\ body = VBytes pt /\
                    scopen_class (scopen_outcome c kr signers rv input) = Ok (signer, pt).
Proof.
  intros H. rewrite H. revert H. unfold scopen_outcome.
  destruct (signcrypt_open_stream c kr signers rv input) as [[signer [chunks e]]|e] eqn:Ho; cbn [so_end so_chunks].
  - destruct e; cbn [GoAstProofs4b.g_err]; intros H; try discriminate H.
    injection H as <- <-. exists signer, (List.concat chunks).
    split; [reflexivity|]. split; [reflexivity|]. destruct signer; reflexivity.
  - destruct (g_herr e) as [ev|] eqn:Hge; intros H; [|discriminate H].
    injection H as _ _ ->. exfalso. exact (g_herr_not_nil e Hge).
Qed.

Lemma verify_outcome_nil_error (vd : validator) (kr : sigring) (input : bytes) (sg body : gval) :
  verify_outcome c vd kr input = ORet [sg; body; VNil] ->
  exists pk msg, sg = g_spk pk /\ body = VBytes msg /\
                 verify_class (verify_outcome c vd kr input) = Ok (pk, msg).
Proof.
  intros H. rewrite H. revert H. unfold verify_outcome.
  destruct (verify_stream c vd kr input) as [[pk [chunks e]]|e] eqn:Ho; cbn [so_end so_chunks].
  - destruct e; cbn [GoAstProofs4b.g_err]; intros H; try discriminate H.
    injection H as <- <-. exists pk, (List.concat chunks). repeat split; reflexivity.
  - destruct (g_herr e) as [ev|] eqn:Hge; intros H; [|discriminate H].
    injection H as _ _ ->. exfalso. exact (g_herr_not_nil e Hge).
Qed.

(* VerifyDetachedReader: success (class Ok, or err == nil) only when the reader delivered the whole message
   without error, and then it is the model's verify_detached on exactly the bytes delivered *)
Lemma vdet_outcome_ok (vd : validator) (kr : sigring) (msg : bytes) (rv : option gval) (sigfile pk : bytes) :
  vd_class (vdet_outcome c vd kr msg rv sigfile) = Ok pk ->
  verify_detached c vd kr msg sigfile = Ok pk.
Proof.
  unfold vdet_outcome, verify_detached.
  destruct (verify_read_header c vd mt_detached sigfile) as [[[h hh] rest]|e] eqn:Hh; cbn [bind].
  - destruct (mp_read rest) as [m r2| | |]; try (intros H; discriminate H).
    destruct (as_bytes m) as [sig| |]; cbn [of_dres bind]; try (intros H; discriminate H).
    destruct (lookup_signer kr (h_a h)) as [pk'|]; [|intros H; discriminate H].
    destruct rv as [ev|].
    + intros H. exfalso. cbn [vd_class] in H. destruct ev; try discriminate H.
      repeat match type of H with (if ?b then _ else _) = _ => destruct b; try discriminate H end.
    + destruct (ed_verify c pk' (detached_sig_input c hh msg) sig); intros H; [exact H|discriminate H].
  - destruct (g_herr e) as [ev|] eqn:Hge; [|intros H; discriminate H].
    destruct (g_herr_verr _ _ Hge) as (nm & ->). intros H. exfalso. cbn [vd_class] in H.
    repeat match type of H with (if ?b then _ else _) = _ => destruct b; try discriminate H end.
Qed.

Lemma vdet_outcome_nil_error (vd : validator) (kr : sigring) (msg : bytes) (rerr : option (string * list gval))
      (sigfile : bytes) (sg : gval) :
  let rv := match rerr with Some (n, a) => Some (VErr n a) | None => None end in
  vdet_outcome c vd kr msg rv sigfile = ORet [sg; VNil] ->
  exists pk, sg = g_spk pk /\ vd_class (vdet_outcome c vd kr msg rv sigfile) = Ok pk.
Proof.
  cbv zeta. intros H. rewrite H. revert H. unfold vdet_outcome.
  destruct (verify_read_header c vd mt_detached sigfile) as [[[h hh] rest]|e] eqn:Hh.
  - destruct (mp_read rest) as [m r2| | |]; try (intros H; discriminate H).
    destruct (as_bytes m) as [sig| |]; try (intros H; discriminate H).
    destruct (lookup_signer kr (h_a h)) as [pk'|]; [|intros H; discriminate H].
    destruct rerr as [[n a]|]; [intros H; discriminate H|].
    destruct (ed_verify c pk' (detached_sig_input c hh msg) sig); intros H; [|discriminate H].
    injection H as <-. exists pk'. split; reflexivity.
  - destruct (g_herr e) as [ev|] eqn:Hge; intros H; [|discriminate H].
    injection H as _ ->. exfalso. exact (g_herr_not_nil e Hge).
Qed.
End Shapes.

(* ================= 1. Open (C02) ================= *)
Section OpenAuth.
Variable c : crypto.
Hypothesis Hc : crypto_ok c.
Variable pm : bytes -> gval.
Variables s_sk r_sk : bytes.

(* (TARGET) *)
Theorem go_Open_authentic (vd : validator) (senders : option (list bytes)) (VV RING : gval) (input : bytes)
        (m : mki) (pt : bytes) (L : list enc_msg) :
  Forall (em_ok c s_sk) L -> em_headers_distinct c s_sk L ->
  (N.of_nat (List.length input) < 18446744073709551616)%N ->
  let kr := mkRing [(r_sk, dh_pub c r_sk)] senders in
  open_class (fst (run_func2 (ext_open c pm vd kr) f_saltpack_Open [VV; VBytes input; RING])) = Ok (m, pt) ->
  mki_sender m = dh_pub c s_sk -> mki_sender_anon m = false ->
  (exists msg hide pos,
      In msg L /\ nth_error (em_rs msg) pos = Some (dh_pub c r_sk, hide) /\ pt = List.concat (map fst (em_packets msg)))
  \/ EncBreakL c s_sk r_sk vd kr L input.
Proof.
  intros HL Hd Hlen kr Hgo Hs Ha.
  rewrite (go_Open c pm vd kr VV RING input) in Hgo.
  rewrite (open_outcome_model c pm vd kr input (open_class_ok_not_stuck _ _ Hgo)) in Hgo.
  exact (open_authentic_all_located c Hc s_sk r_sk vd senders input m pt L HL Hd Hlen Hgo Hs Ha).
Qed.

(* (TARGET) the same with success phrased as a Go caller does: err == nil *)
Theorem go_Open_authentic_nil_error (vd : validator) (senders : option (list bytes)) (VV RING : gval) (input : bytes)
        (mk body : gval) (L : list enc_msg) :
  Forall (em_ok c s_sk) L -> em_headers_distinct c s_sk L ->
  (N.of_nat (List.length input) < 18446744073709551616)%N ->
  let kr := mkRing [(r_sk, dh_pub c r_sk)] senders in
  fst (run_func2 (ext_open c pm vd kr) f_saltpack_Open [VV; VBytes input; RING]) = ORet [mk; body; VNil] ->
  exists m k pt,
    mk = g_mki m k /\ snd k = mki_receiver m /\ body = VBytes pt /\
    (mki_sender m = dh_pub c s_sk -> mki_sender_anon m = false ->
     (exists msg hide pos,
         In msg L /\ nth_error (em_rs msg) pos = Some (dh_pub c r_sk, hide) /\ pt = List.concat (map fst (em_packets msg)))
     \/ EncBreakL c s_sk r_sk vd kr L input).
Proof.
  intros HL Hd Hlen kr Hgo.
  pose proof Hgo as Hgo'. rewrite (go_Open c pm vd kr VV RING input) in Hgo'.
  destruct (open_outcome_nil_error c pm vd kr input mk body Hgo') as (m & k & pt & -> & Hk & -> & Hcl).
  exists m, k, pt. split; [reflexivity|]. split; [exact Hk|]. split; [reflexivity|].
  intros Hs Ha. apply (go_Open_authentic vd senders VV RING input m pt L HL Hd Hlen); [|exact Hs|exact Ha].
  fold kr. rewrite (go_Open c pm vd kr VV RING input). exact Hcl.
Qed.
End OpenAuth.

(* ================= 2. Verify (C06) ================= *)
Section VerifyAuth.
Variable c : crypto.
Hypothesis Hsha : forall x, List.length (sha512 c x) = 64%nat.

(* (TARGET) *)
Theorem go_Verify_authentic (vd : validator) (kr : sigring) (VV KR : gval) (input pk msg : bytes) (L : list sign_event) :
  Forall event_ok L -> headers_distinct pk L ->
  (N.of_nat (List.length input) < 18446744073709551616)%N -> (len pk < 4294967296)%N ->
  verify_class (fst (run_func2 (ext_verify c vd kr) f_saltpack_Verify [VV; VBytes input; KR])) = Ok (pk, msg) ->
  (exists v nonce ps, In (EvAttached v nonce ps) L /\ msg = List.concat (map fst ps))
  \/ AttBreak c vd pk L input.
Proof.
  intros HL Hd Hlen Hpk Hgo.
  rewrite (go_Verify c vd kr VV KR input) in Hgo.
  rewrite (verify_outcome_model c vd kr input (verify_class_ok_not_stuck _ _ Hgo)) in Hgo.
  exact (attached_authentic_all_located c Hsha vd kr input pk msg L HL Hd Hlen Hpk Hgo).
Qed.

(* (TARGET) err == nil *)
Theorem go_Verify_authentic_nil_error (vd : validator) (kr : sigring) (VV KR : gval) (input : bytes) (sg body : gval)
        (L : list sign_event) :
  Forall event_ok L ->
  (N.of_nat (List.length input) < 18446744073709551616)%N ->
  fst (run_func2 (ext_verify c vd kr) f_saltpack_Verify [VV; VBytes input; KR]) = ORet [sg; body; VNil] ->
  exists pk msg,
    sg = g_spk pk /\ body = VBytes msg /\
    (headers_distinct pk L -> (len pk < 4294967296)%N ->
     (exists v nonce ps, In (EvAttached v nonce ps) L /\ msg = List.concat (map fst ps))
     \/ AttBreak c vd pk L input).
Proof.
  intros HL Hlen Hgo.
  pose proof Hgo as Hgo'. rewrite (go_Verify c vd kr VV KR input) in Hgo'.
  destruct (verify_outcome_nil_error c vd kr input sg body Hgo') as (pk & msg & -> & -> & Hcl).
  exists pk, msg. split; [reflexivity|]. split; [reflexivity|].
  intros Hd Hpk. apply (go_Verify_authentic vd kr VV KR input pk msg L HL Hd Hlen Hpk).
  rewrite (go_Verify c vd kr VV KR input). exact Hcl.
Qed.
End VerifyAuth.

(* ================= 3. VerifyDetached, VerifyDetachedReader (C07) ================= *)
Section DetachedAuth.
Variable c : crypto.
Hypothesis Hsha : forall x, List.length (sha512 c x) = 64%nat.

(* (TARGET) *)
Theorem go_VerifyDetached_authentic (vd : validator) (kr : sigring) (VV KR : gval) (msg sigfile pk : bytes)
        (L : list sign_event) :
  Forall event_ok L -> (len pk < 4294967296)%N ->
  vd_class (fst (run_func2 (ext_vdet2 c vd kr) f_saltpack_VerifyDetached [VV; VBytes msg; VBytes sigfile; KR])) = Ok pk ->
  (exists v nonce hdr rest,
      In (EvDetached v nonce msg) L /\
      read_header_bytes sigfile = Ok (hdr, rest) /\ hdr = sig_header_bytes v mt_detached pk nonce)
  \/ DetBreak c vd pk L msg sigfile.
Proof.
  intros HL Hpk Hgo.
  rewrite (go_VerifyDetached_model c vd kr VV KR msg sigfile) in Hgo.
  exact (detached_authentic_located c Hsha vd kr msg sigfile pk L HL Hpk Hgo).
Qed.

(* (TARGET) the reader form: whatever error (or none) the message reader ends with *)
Theorem go_VerifyDetachedReader_authentic (vd : validator) (kr : sigring) (VV KR : gval) (msg : bytes)
        (rerr : option (string * list gval)) (sigfile pk : bytes) (L : list sign_event) :
  Forall event_ok L -> (len pk < 4294967296)%N ->
  let rv := match rerr with Some (n, a) => Some (VErr n a) | None => None end in
  vd_class (fst (run_func2 (ext_vdet c vd kr) f_saltpack_VerifyDetachedReader [VV; g_rdr msg rv; VBytes sigfile; KR])) = Ok pk ->
  (exists v nonce hdr rest,
      In (EvDetached v nonce msg) L /\
      read_header_bytes sigfile = Ok (hdr, rest) /\ hdr = sig_header_bytes v mt_detached pk nonce)
  \/ DetBreak c vd pk L msg sigfile.
Proof.
  intros HL Hpk rv Hgo.
  pose proof (go_VerifyDetachedReader c vd kr VV KR msg rerr sigfile) as Hr. cbv zeta in Hr. fold rv in Hr.
  rewrite Hr in Hgo.
  exact (detached_authentic_located c Hsha vd kr msg sigfile pk L HL Hpk (vdet_outcome_ok c vd kr msg rv sigfile pk Hgo)).
Qed.

(* (TARGET) err == nil, both forms *)
Theorem go_VerifyDetached_authentic_nil_error (vd : validator) (kr : sigring) (VV KR : gval) (msg sigfile : bytes) (sg : gval)
        (L : list sign_event) :
  Forall event_ok L ->
  fst (run_func2 (ext_vdet2 c vd kr) f_saltpack_VerifyDetached [VV; VBytes msg; VBytes sigfile; KR]) = ORet [sg; VNil] ->
  exists pk,
    sg = g_spk pk /\
    ((len pk < 4294967296)%N ->
     (exists v nonce hdr rest,
         In (EvDetached v nonce msg) L /\
         read_header_bytes sigfile = Ok (hdr, rest) /\ hdr = sig_header_bytes v mt_detached pk nonce)
     \/ DetBreak c vd pk L msg sigfile).
Proof.
  intros HL Hgo.
  pose proof Hgo as Hgo'. rewrite (go_VerifyDetached c vd kr VV KR msg sigfile) in Hgo'.
  destruct (vdet_outcome_nil_error c vd kr msg None sigfile sg Hgo') as (pk & -> & Hcl).
  exists pk. split; [reflexivity|]. intros Hpk.
  apply (go_VerifyDetached_authentic vd kr VV KR msg sigfile pk L HL Hpk).
  rewrite (go_VerifyDetached c vd kr VV KR msg sigfile). exact Hcl.
Qed.

Theorem go_VerifyDetachedReader_authentic_nil_error (vd : validator) (kr : sigring) (VV KR : gval) (msg : bytes)
        (rerr : option (string * list gval)) (sigfile : bytes) (sg : gval) (L : list sign_event) :
  Forall event_ok L ->
  let rv := match rerr with Some (n, a) => Some (VErr n a) | None => None end in
  fst (run_func2 (ext_vdet c vd kr) f_saltpack_VerifyDetachedReader [VV; g_rdr msg rv; VBytes sigfile; KR]) = ORet [sg; VNil] ->
  exists pk,
    sg = g_spk pk /\
    ((len pk < 4294967296)%N ->
     (exists v nonce hdr rest,
         In (EvDetached v nonce msg) L /\
         read_header_bytes sigfile = Ok (hdr, rest) /\ hdr = sig_header_bytes v mt_detached pk nonce)
     \/ DetBreak c vd pk L msg sigfile).
Proof.
  intros HL rv Hgo.
  pose proof (go_VerifyDetachedReader c vd kr VV KR msg rerr sigfile) as Hr. cbv zeta in Hr. fold rv in Hr.
  pose proof Hgo as Hgo'. rewrite Hr in Hgo'.
  destruct (vdet_outcome_nil_error c vd kr msg rerr sigfile sg Hgo') as (pk & -> & Hcl).
  exists pk. split; [reflexivity|]. intros Hpk.
  apply (go_VerifyDetachedReader_authentic vd kr VV KR msg rerr sigfile pk L HL Hpk).
  fold rv. rewrite Hr. exact Hcl.
Qed.
End DetachedAuth.

(* ================= 4. SigncryptOpen, named and anonymous sender (C04) ================= *)
Section ScAuth.
Variable c : crypto.
Hypothesis Hsha : forall x, List.length (sha512 c x) = 64%nat.

(* (TARGET) named sender *)
Theorem go_SigncryptOpen_authentic (kr : keyring) (signers : sigring) (rv : resolver) (KR RV : gval) (input pk pt : bytes)
        (M : list sc_msg) (others : list sign_event) :
  Forall sm_ok M -> sm_headers_distinct M -> Forall other_ok others ->
  (N.of_nat (List.length input) < 18446744073709551616)%N ->
  scopen_class (fst (run_func2 (ext_scopen c kr signers rv) f_saltpack_SigncryptOpen [VBytes input; KR; RV])) = Ok (Some pk, pt) ->
  (exists m, In m M /\ pt = List.concat (map fst (sm_packets m)))
  \/ ScBreakL c kr signers rv pk M others input.
Proof.
  intros HM Hd Ho Hlen Hgo.
  rewrite (go_SigncryptOpen c kr signers rv KR RV input) in Hgo.
  rewrite (scopen_outcome_model c kr signers rv input (scopen_class_ok_not_stuck _ _ Hgo)) in Hgo.
  exact (signcrypt_authentic_all_located c Hsha kr signers rv input pk pt M others HM Hd Ho Hlen Hgo).
Qed.

(* (TARGET) named sender, err == nil and a non-nil sender key *)
Theorem go_SigncryptOpen_authentic_nil_error (kr : keyring) (signers : sigring) (rv : resolver) (KR RV : gval) (input pk : bytes)
        (body : gval) (M : list sc_msg) (others : list sign_event) :
  Forall sm_ok M -> sm_headers_distinct M -> Forall other_ok others ->
  (N.of_nat (List.length input) < 18446744073709551616)%N ->
  fst (run_func2 (ext_scopen c kr signers rv) f_saltpack_SigncryptOpen [VBytes input; KR; RV]) = ORet [VBytes pk; body; VNil] ->
  exists pt, body = VBytes pt /\
    ((exists m, In m M /\ pt = List.concat (map fst (sm_packets m)))
     \/ ScBreakL c kr signers rv pk M others input).
Proof.
  intros HM Hd Ho Hlen Hgo.
  pose proof Hgo as Hgo'. rewrite (go_SigncryptOpen c kr signers rv KR RV input) in Hgo'.
  destruct (scopen_outcome_nil_error c kr signers rv input _ body Hgo') as (signer & pt & Hsg & -> & Hcl).
  destruct signer as [pk'|]; cbn [g_signer] in Hsg; [|discriminate Hsg]. injection Hsg as <-.
  exists pt. split; [reflexivity|].
  apply (go_SigncryptOpen_authentic kr signers rv KR RV input pk pt M others HM Hd Ho Hlen).
  rewrite (go_SigncryptOpen c kr signers rv KR RV input). exact Hcl.
Qed.

Hypothesis Hsb : forall k n m, sb_open c k n (sb_seal c k n m) = Some m.

(* (TARGET) anonymous sender: integrity against parties who lack the payload key *)
Theorem go_SigncryptOpen_anonymous_authentic (kr : keyring) (signers : sigring) (rv : resolver) (KR RV : gval) (input pt : bytes)
        (M : list sc_anon_msg) :
  Forall (sam_ok) M -> sam_headers_distinct M ->
  scopen_class (fst (run_func2 (ext_scopen c kr signers rv) f_saltpack_SigncryptOpen [VBytes input; KR; RV])) = Ok (None, pt) ->
  (exists m hb rest,
      In m M /\ read_header_bytes input = Ok (hb, rest) /\ hb = sam_header m /\
      sc_receiver_state c kr signers rv input = Some (sha512 c hb, sam_pkey m, rest) /\
      pt = List.concat (map fst (sam_packets m)))
  \/ ScAnonBreakL c kr signers rv M input.
Proof.
  intros HM Hd Hgo.
  rewrite (go_SigncryptOpen c kr signers rv KR RV input) in Hgo.
  rewrite (scopen_outcome_model c kr signers rv input (scopen_class_ok_not_stuck _ _ Hgo)) in Hgo.
  exact (signcrypt_anon_authentic_all_located c Hsha Hsb kr signers rv input pt M HM Hd Hgo).
Qed.

(* (TARGET) anonymous sender, err == nil and a nil sender key *)
Theorem go_SigncryptOpen_anonymous_authentic_nil_error (kr : keyring) (signers : sigring) (rv : resolver) (KR RV : gval)
        (input : bytes) (body : gval) (M : list sc_anon_msg) :
  Forall (sam_ok) M -> sam_headers_distinct M ->
  fst (run_func2 (ext_scopen c kr signers rv) f_saltpack_SigncryptOpen [VBytes input; KR; RV]) = ORet [VNil; body; VNil] ->
  exists pt, body = VBytes pt /\
    ((exists m hb rest,
        In m M /\ read_header_bytes input = Ok (hb, rest) /\ hb = sam_header m /\
        sc_receiver_state c kr signers rv input = Some (sha512 c hb, sam_pkey m, rest) /\
        pt = List.concat (map fst (sam_packets m)))
     \/ ScAnonBreakL c kr signers rv M input).
Proof.
  intros HM Hd Hgo.
  pose proof Hgo as Hgo'. rewrite (go_SigncryptOpen c kr signers rv KR RV input) in Hgo'.
  destruct (scopen_outcome_nil_error c kr signers rv input _ body Hgo') as (signer & pt & Hsg & -> & Hcl).
  destruct signer as [pk'|]; cbn [g_signer] in Hsg; [discriminate Hsg|].
  exists pt. split; [reflexivity|].
  apply (go_SigncryptOpen_anonymous_authentic kr signers rv KR RV input pt M HM Hd).
  rewrite (go_SigncryptOpen c kr signers rv KR RV input). exact Hcl.
Qed.
End ScAuth.

Print Assumptions go_Open_authentic.
Print Assumptions go_Open_authentic_nil_error.
Print Assumptions go_Verify_authentic.
Print Assumptions go_Verify_authentic_nil_error.
Print Assumptions go_VerifyDetached_authentic.
Print Assumptions go_VerifyDetachedReader_authentic.
Print Assumptions go_VerifyDetached_authentic_nil_error.
Print Assumptions go_VerifyDetachedReader_authentic_nil_error.
Print Assumptions go_SigncryptOpen_authentic.
Print Assumptions go_SigncryptOpen_authentic_nil_error.
Print Assumptions go_SigncryptOpen_anonymous_authentic.
Print Assumptions go_SigncryptOpen_anonymous_authentic_nil_error.
