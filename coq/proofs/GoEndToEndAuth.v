(* GoEndToEndAuth.v -- AUTHENTICITY AT THE LEVEL OF THE TRANSLATED GO CODE: the composition of
     (R) the receiver source ties of proofs/GoAstProofs7c.v (the bodies of /repo's Open, Verify, VerifyDetached,
         VerifyDetachedReader and SigncryptOpen, translated on this run from the Go syntax trees (gen/GoAstOpen.v)
         and run by the evaluator of model/GoLang2.v, return for EVERY input the outcome class of the model's
         open_all / verify_all / verify_detached / signcrypt_open_all), with
     (M) the model's all-at-once authenticity theorems with LOCATED break witnesses (proofs/EncAuthLocated.v,
         SignAuthLocated.v, ScAuthLocated.v, ScAnonLocated.v; restated as C02_all_at_once, C06_all_at_once,
         C07_authentic, C04_all_at_once in props/).
   Nothing is re-proved: each theorem is  go_X ; X_outcome_model ; X_authentic_all_located.

   SUCCESS is phrased in two ways, both about the value the EVALUATOR returns for the translated entry point:
     (class form)  as the (R) lemmas phrase it: open_class / verify_class / vd_class / scopen_class of the outcome
                   is Ok (...).  The class of the stuck evaluator (OStuck "call": the model says Unmodelled or a panic) is
                   Err Unmodelled, so a successful class is not stuck and the hypothesis "the outcome is not the stuck
                   evaluator" of open_outcome_model / verify_outcome_model / scopen_outcome_model is DISCHARGED here
                   (open_class_ok_not_stuck etc.), it is not a hypothesis of any theorem below.
     (nil-error form) as a Go caller phrases it: the outcome is ORet [x; body; VNil] (err == nil).  The theorems then also
                   say WHAT the other results are: x is the Go encoding of the model's MessageKeyInfo / signing key /
                   optional sender, body is VBytes pt, and (pt, sender) satisfy the model theorem's conclusion.
   The meaning of the externs (ext_open, ext_verify, ext_vdet, ext_vdet2, ext_scopen), of the encodings (g_mki, g_spk,
   g_signer, g_rdr) and the limits of (R) are those of GoAstProofs7c.v (its header): in particular, inside Open / Verify /
   SigncryptOpen the constructor New*Stream and io.ReadAll are externs with the model's meaning (open_stream, verify_stream,
   signcrypt_open_stream and "all chunks, then the ending error unless io.EOF"); pm (input -> value) is the MessageKeyInfo
   Open returns beside an error, which the model does not describe: every theorem holds for EVERY pm.

   TARGETS (all proved with Qed; each prints "Closed under the global context").  For each: reading, then ALL hypotheses.
   1. go_Open_authentic  (C02)
        For every primitives record c, every pm, validator vd, sender whitelist `senders`, opaque Go values VV RING, and EVERY
        input: if the translated saltpack.Open, run on (VV, input, RING) with the receiver's keyring
        kr = {(r_sk, dh_pub r_sk)} / senders, returns the class Ok (m, pt) with m naming the honest sender
        (mki_sender m = dh_pub c s_sk, not anonymous), then pt is the WHOLE plaintext (concatenated chunks) of ONE message msg
        of the honest history L whose recipient list holds this recipient's public key (at position pos) -- or
        EncBreakL c s_sk r_sk vd kr L input (a MAC forgery / SHA-512 collision LOCATED in this input and the history).
        Hypotheses: crypto_ok c (as C02_all_at_once); Forall (em_ok c s_sk) L; em_headers_distinct c s_sk L;
          |input| < 2^64; the Go call's class is Ok (m, pt); mki_sender m = dh_pub c s_sk; mki_sender_anon m = false.
      go_Open_authentic_nil_error: the same from  fst (run_func2 ...) = ORet [mk; body; VNil]: then mk = g_mki m k for the
        model's MessageKeyInfo m and the box key k found (snd k = mki_receiver m), body = VBytes pt, and if m names the
        honest sender the conclusion above holds.  Hypotheses: crypto_ok c; the two on L; |input| < 2^64.
   2. go_Verify_authentic  (C06)
        If the translated saltpack.Verify on (VV, input, KR), keyring kr, returns the class Ok (pk, msg), then msg is the whole
        message of one attached-signature event EvAttached v nonce ps of pk's honest history L -- or AttBreak c vd pk L input.
        Hypotheses: forall x, |sha512 c x| = 64; Forall event_ok L; headers_distinct pk L; |input| < 2^64; len pk < 2^32.
      go_Verify_authentic_nil_error: from ORet [sg; body; VNil]: sg = g_spk pk, body = VBytes msg and (given
        headers_distinct pk L, len pk < 2^32) the conclusion.  Hypotheses: the SHA length; Forall event_ok L; |input| < 2^64.
   3. go_VerifyDetached_authentic, go_VerifyDetachedReader_authentic  (C07)
        If the translated VerifyDetached on (VV, msg, sigfile, KR) [resp. VerifyDetachedReader on a reader delivering msg and
        then io.EOF or ANY read error rerr] returns the class Ok pk, then EvDetached v nonce msg is in pk's honest history L
        and the header bytes of sigfile are sig_header_bytes v mt_detached pk nonce -- or DetBreak c vd pk L msg sigfile.
        (With a read error the call never succeeds: vdet_outcome_ok.)
        Hypotheses: forall x, |sha512 c x| = 64; Forall event_ok L; len pk < 2^32.
      go_VerifyDetached_authentic_nil_error, go_VerifyDetachedReader_authentic_nil_error: from ORet [sg; VNil]:
        sg = g_spk pk and (given len pk < 2^32) the conclusion.  Hypotheses: the SHA length; Forall event_ok L.
   4. go_SigncryptOpen_authentic  (C04, named sender)
        If the translated SigncryptOpen on (input, KR, RV) returns the class Ok (Some pk, pt), then pt is the whole plaintext of
        one message of pk's signcryption history M -- or ScBreakL c kr signers rv pk M others input.
        Hypotheses: forall x, |sha512 c x| = 64; Forall sm_ok M; sm_headers_distinct M; Forall other_ok others; |input| < 2^64.
      go_SigncryptOpen_authentic_nil_error: from ORet [VBytes pk; body; VNil]: body = VBytes pt and the conclusion.
      go_SigncryptOpen_anonymous_authentic  (C04, anonymous sender; the model theorem is
        ScAnonLocated.signcrypt_anon_authentic_all_located -- props/C04.v has no C04_anonymous_all_at_once in this copy)
        If the class is Ok (None, pt), then pt is the whole plaintext of one message m of the history M of ANONYMOUS messages
        honest senders produced, whose header bytes are the input's and whose payload key is the key the receiver derived
        (sc_receiver_state) -- or ScAnonBreakL c kr signers rv M input (a secretbox nobody honest sealed that opens, or a
        collision on the 127 bits of the header hash the nonce carries; see ScAnonLocated.v for why not a full collision).
        Hypotheses: forall x, |sha512 c x| = 64; forall k n m, sb_open c k n (sb_seal c k n m) = Some m (functional
          correctness of secretbox, field ok_sb of crypto_ok: needed by the model theorem); Forall sam_ok M;
          sam_headers_distinct M.  (No bound on the input length: the model theorem has none.)
      go_SigncryptOpen_anonymous_authentic_nil_error: from ORet [VNil; body; VNil].
   STREAMING FORMS (5-7): the constructors and the per-chunk release.
   What is composed.  (a) The constructor ties of GoAstProofs7c.v (go_NewDecryptStream, go_NewVerifyStream,
   go_NewSigncryptOpenStream): with err == nil the translated constructor returns the MessageKeyInfo / signing key / sender and
   newChunkReader(obj) = g_cr_new obj, obj being the receiver object that holds the model's state after the header (g_ds_done,
   g_vs_key, g_sos_done) and the input bytes not yet consumed.  (b) The per-chunk ties of GoAstProofs4b.v, RE-PROVED HERE ON
   THESE OBJECTS (go_decrypt_getNextChunk_obj, go_verify_getNextChunk_obj, go_signcrypt_getNextChunk_obj: the lemmas of 4b are
   stated on objects with only the fields getNextChunk uses; the constructors' objects have more fields, another order and,
   for verifyStream, the key OBJECT in publicKey; the same proof scripts go through).  For verifyStream the extern is
   [ext_chunk_key]: verifyStream.processBlock on a receiver holding the key object means what GoAstProofs4b.ext_chunk says on
   the receiver holding the key's bytes; every other call as ext_chunk.  go_verify_getNextChunk_obj_bad_version: for a major
   version other than 1, 2 (a Single validator can accept one) readSignatureBlock panics and the first call is stuck, so nothing
   is released: no hypothesis on the validator is needed.  For decryptStream a successful processHeader implies major 1 or 2
   (process_enc_header_ver12).  (c) The model's loops are iterations of their steps (4b: decrypt_loop_dec_step,
   verify_loop_step, sc_open_loop_step; here *_loop_step_loop).  (d) [go_drain ext fn recv F obj]: a caller's loop: at most F
   calls of the translated getNextChunk, each run by the evaluator ON THE OBJECT THE PREVIOUS CALL LEFT in the receiver,
   stopping at the first non-nil error; result: the chunks returned, in order, and the ending error (None: calls exhausted or
   evaluator stuck).  go_drain_step_loop / go_drain_canonical / go_drain_auth: for every F <= 2^64 these chunks are those the
   model's loop releases (a prefix of them if the calls ran out or the evaluator got stuck, i.e. the model says Unmodelled /
   panic) and the ending error is the Go value of the model's ending.  (e) The model's STREAMING authenticity theorems
   (open_authentic_located = C02_authentic, attached_authentic_located = C06_authentic, signcrypt_authentic_located =
   C04_authentic, signcrypt_anon_authentic_located).
   In the conclusions, d = go_drain ... F obj, fst d = chunks ++ tl with tl = [] or [[]]: the call that returns the non-nil
   error returns a chunk value too, and it is nil unless that call delivered the final packet (then the chunk, possibly empty, is
   the last of `chunks`, as in the model).  "clean end" is snd d = Some io.EOF.
   5. go_NewDecryptStream_authentic  (C02 streaming)
        If the translated NewDecryptStream on (VV, r, RING), r an error-free reader over `input`, returns [mk; rdr; nil], then
        mk = g_mki m k (snd k = mki_receiver m), rdr = g_cr_new obj, and if m names the honest sender then for EVERY F <= 2^64:
        either no chunk and no clean end; or `chunks` is a PREFIX of the chunk list of ONE message of L addressed to this
        recipient, and all of it if the end is clean; or EncBreakL.
        Hypotheses: crypto_ok c; Forall (em_ok c s_sk) L; em_headers_distinct c s_sk L; |input| < 2^64; rdr_bytes r = Some input
        (which bytes r holds); the call returns [mk; rdr; nil]; then mki_sender m = dh_pub c s_sk, mki_sender_anon m = false,
        N.of_nat F <= 2^64 (Go's uint64 packet counter: the 4b tie needs n < 2^64 at every call).
   6. go_NewVerifyStream_authentic  (C06 streaming)
        The same for NewVerifyStream: sg = g_spk pk, rdr = g_cr_new obj; prefix of map fst ps of ONE EvAttached v nonce ps of L.
        Hypotheses: forall x, |sha512 c x| = 64; Forall event_ok L; |input| < 2^64; rdr_bytes r = Some input; the call returns
        [sg; rdr; nil]; then headers_distinct pk L; len pk < 2^32; N.of_nat F <= 2^64.
   7. go_NewSigncryptOpenStream_authentic (named: the call returns [VBytes pk; rdr; nil]) and
      go_NewSigncryptOpenStream_anonymous_authentic ([nil; rdr; nil])  (C04 streaming)
        Hypotheses: forall x, |sha512 c x| = 64; (anonymous: secretbox correctness Hsb); Forall sm_ok M; sm_headers_distinct M;
        Forall other_ok others (anonymous: Forall sam_ok M; sam_headers_distinct M); |input| < 2^64 (needed here also in the
        anonymous case, for the packet counter of the 4b tie); rdr_bytes r = Some input; N.of_nat F <= 2^64.
   ex_streams: the statements on concrete inputs (toy primitives): genuine messages are released whole with io.EOF, a truncated
   one gives io.ErrUnexpectedEOF, trailing garbage ErrTrailingGarbage.
   WHAT IS NOT COMPOSED (streaming).  (1) chunkReader.Read, which re-slices the chunks into the caller's buffers, is tied in
   GoAstProofs4c.v (go_chunkReader_Read) on an encoding where r.chunker is the LIST of the chunker's pending (chunk, error)
   results and r.chunker.getNextChunk() an extern that pops it (chunks as VBytes, errors under 4c's names).  Composing it with
   go_drain needs go_chunkReader_Read re-proved for an extern that RUNS the translated getNextChunk on the receiver object
   (possible: an extern may call run_func2) and for 4b's encodings (nil for an empty chunk, 4b's error values): a re-proof of the
   for-loop argument of 4c, not done here.  What links the two now: the sequence of (chunk, error) results go_drain observes
   is the sequence of results r.chunker.getNextChunk() delivers, and go_chunkReader_Read says Read hands out exactly those
   chunks, in order, re-sliced, and then the error (at the model level StreamProofs.cr_drain_sound / cr_drain_complete: whatever
   buffer sizes the caller uses, the bytes read are the concatenation of the pending chunks up to the first error).  So 5-7 speak about the sequence of getNextChunk results, not about the
   bytes Read puts into p.  (2) Inside Open / Verify / SigncryptOpen the pair (constructor, io.ReadAll) is an extern with the
   model's meaning; 5-7 justify that meaning up to (1).  (3) The limits of GoAstProofs7c.v: error-free reader over given
   bytes, value copies for &ds.mki and newChunkReader(ds), opaque validator / keyring / resolver values. *)
From Coq Require Import List String NArith ZArith Bool Lia.
From Coq.Strings Require Import Byte.
From SP Require Import Bytes Consts Params Msgpack Crypto Errors Nonce Packets Chunker Rand Sign Verify Encrypt Decrypt Signcrypt
     SignAuthProofs EncryptProofs EncAuthProofs EncAuthLocated ScAuthProofs ScAuthLocated ScAnonLocated SignAuthLocated
     GoLang GoLang2 GoAst GoAstProofs GoAstProofs2 GoAstProofs3 GoAstProofs4a GoAstProofs4b GoAstProofs5a GoAstProofs7c.
From SP Require Import GoAstOpen GoAstRecv.
Import ListNotations.
Local Open Scope string_scope.

(* ================= success of a class function excludes the stuck evaluator ================= *)
Lemma open_class_ok_not_stuck (o : outcome) (x : mki * bytes) : open_class o = Ok x -> o <> OStuck "call".
Proof. intros H E. rewrite E in H. discriminate H. Qed.
Lemma scopen_class_ok_not_stuck (o : outcome) (x : option bytes * bytes) : scopen_class o = Ok x -> o <> OStuck "call".
Proof. intros H E. rewrite E in H. discriminate H. Qed.
Lemma verify_class_ok_not_stuck (o : outcome) (x : bytes * bytes) : verify_class o = Ok x -> o <> OStuck "call".
Proof. intros H E. rewrite E in H. discriminate H. Qed.

(* the Go value of an error class is never nil *)
Lemma g_herr_not_nil (e : err) : g_herr e <> Some VNil.
Proof. intros H. destruct (g_herr_verr _ _ H) as (nm & E). discriminate E. Qed.
Lemma g_err4b_not_nil (e : err) : GoAstProofs4b.g_err e <> Some VNil.
Proof. destruct e; cbn [GoAstProofs4b.g_err]; intros H; discriminate H. Qed.

(* ================= what a nil error says about the outcomes of GoAstProofs7c.v ================= *)
Section Shapes.
Variable c : crypto.
Variable pm : bytes -> gval.

(* Open: err == nil exactly on the model's success; the first result is the Go MessageKeyInfo of the model's *)
Lemma open_outcome_nil_error (vd : validator) (kr : keyring) (input : bytes) (mk body : gval) :
  open_outcome c pm vd kr input = ORet [mk; body; VNil] ->
  exists m k pt, mk = g_mki m k /\ snd k = mki_receiver m /\ body = VBytes pt /\
                 open_class (open_outcome c pm vd kr input) = Ok (m, pt).
Proof.
  intros H. rewrite H. revert H. unfold open_outcome.
  pose proof (open_stream_header c vd kr input) as Hos.
  destruct (open_stream c vd kr input) as [[m [chunks e]]|e] eqn:Ho; cbn [so_end so_chunks].
  - destruct (dec_read_header c vd kr input) as [[[m' st] rest]|e'] eqn:Hh; cbn [bind fst snd] in Hos; [|discriminate].
    destruct (dec_header_key_some c vd kr input m' st rest Hh) as (_ & k & Hk & Hks). rewrite Hk.
    assert (m' = m) by congruence. subst m'.
    destruct e; cbn [GoAstProofs4b.g_err]; intros H; try discriminate H.
    injection H as <- <-. exists m, k, (List.concat chunks).
    split; [reflexivity|]. split; [exact Hks|]. split; [reflexivity|].
    cbn [open_class]. rewrite (as_mki_g m k Hks). reflexivity.
  - destruct (g_herr e) as [ev|] eqn:Hge; intros H; [|discriminate H].
    injection H as _ _ ->. exfalso. exact (g_herr_not_nil e Hge).
Qed.

Lemma scopen_outcome_nil_error (kr : keyring) (signers : sigring) (rv : resolver) (input : bytes) (sg body : gval) :
  scopen_outcome c kr signers rv input = ORet [sg; body; VNil] ->
  exists signer pt, sg = g_signer signer /\ body = VBytes pt /\
                    scopen_class (scopen_outcome c kr signers rv input) = Ok (signer, pt).
Proof.
  intros H. rewrite H. revert H. unfold scopen_outcome.
  destruct (signcrypt_open_stream c kr signers rv input) as [[signer [chunks e]]|e] eqn:Ho; cbn [so_end so_chunks].
  - destruct e; cbn [GoAstProofs4b.g_err]; intros H; try discriminate H.
    injection H as <- <-. exists signer, (List.concat chunks).
    split; [reflexivity|]. split; [reflexivity|]. destruct signer; reflexivity.
  - destruct (g_herr e) as [ev|] eqn:Hge; intros H; [|discriminate H].
    injection H as _ _ ->. exfalso. exact (g_herr_not_nil e Hge).
Qed.

Lemma verify_outcome_nil_error (vd : validator) (kr : sigring) (input : bytes) (sg body : gval) :
  verify_outcome c vd kr input = ORet [sg; body; VNil] ->
  exists pk msg, sg = g_spk pk /\ body = VBytes msg /\
                 verify_class (verify_outcome c vd kr input) = Ok (pk, msg).
Proof.
  intros H. rewrite H. revert H. unfold verify_outcome.
  destruct (verify_stream c vd kr input) as [[pk [chunks e]]|e] eqn:Ho; cbn [so_end so_chunks].
  - destruct e; cbn [GoAstProofs4b.g_err]; intros H; try discriminate H.
    injection H as <- <-. exists pk, (List.concat chunks). repeat split; reflexivity.
  - destruct (g_herr e) as [ev|] eqn:Hge; intros H; [|discriminate H].
    injection H as _ _ ->. exfalso. exact (g_herr_not_nil e Hge).
Qed.

(* VerifyDetachedReader: success (class Ok, or err == nil) only when the reader delivered the whole message
   without error, and then it is the model's verify_detached on exactly the bytes delivered *)
Lemma vdet_outcome_ok (vd : validator) (kr : sigring) (msg : bytes) (rv : option gval) (sigfile pk : bytes) :
  vd_class (vdet_outcome c vd kr msg rv sigfile) = Ok pk ->
  verify_detached c vd kr msg sigfile = Ok pk.
Proof.
  unfold vdet_outcome, verify_detached.
  destruct (verify_read_header c vd mt_detached sigfile) as [[[h hh] rest]|e] eqn:Hh; cbn [bind].
  - destruct (mp_read rest) as [m r2| | |]; try (intros H; discriminate H).
    destruct (as_bytes m) as [sig| |]; cbn [of_dres bind]; try (intros H; discriminate H).
    destruct (lookup_signer kr (h_a h)) as [pk'|]; [|intros H; discriminate H].
    destruct rv as [ev|].
    + intros H. exfalso. cbn [vd_class] in H. destruct ev; try discriminate H.
      repeat match type of H with (if ?b then _ else _) = _ => destruct b; try discriminate H end.
    + destruct (ed_verify c pk' (detached_sig_input c hh msg) sig); intros H; [exact H|discriminate H].
  - destruct (g_herr e) as [ev|] eqn:Hge; [|intros H; discriminate H].
    destruct (g_herr_verr _ _ Hge) as (nm & ->). intros H. exfalso. cbn [vd_class] in H.
    repeat match type of H with (if ?b then _ else _) = _ => destruct b; try discriminate H end.
Qed.

Lemma vdet_outcome_nil_error (vd : validator) (kr : sigring) (msg : bytes) (rerr : option (string * list gval))
      (sigfile : bytes) (sg : gval) :
  let rv := match rerr with Some (n, a) => Some (VErr n a) | None => None end in
  vdet_outcome c vd kr msg rv sigfile = ORet [sg; VNil] ->
  exists pk, sg = g_spk pk /\ vd_class (vdet_outcome c vd kr msg rv sigfile) = Ok pk.
Proof.
  cbv zeta. intros H. rewrite H. revert H. unfold vdet_outcome.
  destruct (verify_read_header c vd mt_detached sigfile) as [[[h hh] rest]|e] eqn:Hh.
  - destruct (mp_read rest) as [m r2| | |]; try (intros H; discriminate H).
    destruct (as_bytes m) as [sig| |]; try (intros H; discriminate H).
    destruct (lookup_signer kr (h_a h)) as [pk'|]; [|intros H; discriminate H].
    destruct rerr as [[n a]|]; [intros H; discriminate H|].
    destruct (ed_verify c pk' (detached_sig_input c hh msg) sig); intros H; [|discriminate H].
    injection H as <-. exists pk'. split; reflexivity.
  - destruct (g_herr e) as [ev|] eqn:Hge; intros H; [|discriminate H].
    injection H as _ ->. exfalso. exact (g_herr_not_nil e Hge).
Qed.
End Shapes.

(* ================= 1. Open (C02) ================= *)
Section OpenAuth.
Variable c : crypto.
Hypothesis Hc : crypto_ok c.
Variable pm : bytes -> gval.
Variables s_sk r_sk : bytes.

(* (TARGET) *)
Theorem go_Open_authentic (vd : validator) (senders : option (list bytes)) (VV RING : gval) (input : bytes)
        (m : mki) (pt : bytes) (L : list enc_msg) :
  Forall (em_ok c s_sk) L -> em_headers_distinct c s_sk L ->
  (N.of_nat (List.length input) < 18446744073709551616)%N ->
  let kr := mkRing [(r_sk, dh_pub c r_sk)] senders in
  open_class (fst (run_func2 (ext_open c pm vd kr) f_saltpack_Open [VV; VBytes input; RING])) = Ok (m, pt) ->
  mki_sender m = dh_pub c s_sk -> mki_sender_anon m = false ->
  (exists msg hide pos,
      In msg L /\ nth_error (em_rs msg) pos = Some (dh_pub c r_sk, hide) /\ pt = List.concat (map fst (em_packets msg)))
  \/ EncBreakL c s_sk r_sk vd kr L input.
Proof.
  intros HL Hd Hlen kr Hgo Hs Ha.
  rewrite (go_Open c pm vd kr VV RING input) in Hgo.
  rewrite (open_outcome_model c pm vd kr input (open_class_ok_not_stuck _ _ Hgo)) in Hgo.
  exact (open_authentic_all_located c Hc s_sk r_sk vd senders input m pt L HL Hd Hlen Hgo Hs Ha).
Qed.

(* (TARGET) the same with success phrased as a Go caller does: err == nil *)
Theorem go_Open_authentic_nil_error (vd : validator) (senders : option (list bytes)) (VV RING : gval) (input : bytes)
        (mk body : gval) (L : list enc_msg) :
  Forall (em_ok c s_sk) L -> em_headers_distinct c s_sk L ->
  (N.of_nat (List.length input) < 18446744073709551616)%N ->
  let kr := mkRing [(r_sk, dh_pub c r_sk)] senders in
  fst (run_func2 (ext_open c pm vd kr) f_saltpack_Open [VV; VBytes input; RING]) = ORet [mk; body; VNil] ->
  exists m k pt,
    mk = g_mki m k /\ snd k = mki_receiver m /\ body = VBytes pt /\
    (mki_sender m = dh_pub c s_sk -> mki_sender_anon m = false ->
     (exists msg hide pos,
         In msg L /\ nth_error (em_rs msg) pos = Some (dh_pub c r_sk, hide) /\ pt = List.concat (map fst (em_packets msg)))
     \/ EncBreakL c s_sk r_sk vd kr L input).
Proof.
  intros HL Hd Hlen kr Hgo.
  pose proof Hgo as Hgo'. rewrite (go_Open c pm vd kr VV RING input) in Hgo'.
  destruct (open_outcome_nil_error c pm vd kr input mk body Hgo') as (m & k & pt & -> & Hk & -> & Hcl).
  exists m, k, pt. split; [reflexivity|]. split; [exact Hk|]. split; [reflexivity|].
  intros Hs Ha. apply (go_Open_authentic vd senders VV RING input m pt L HL Hd Hlen); [|exact Hs|exact Ha].
  fold kr. rewrite (go_Open c pm vd kr VV RING input). exact Hcl.
Qed.
End OpenAuth.

(* ================= 2. Verify (C06) ================= *)
Section VerifyAuth.
Variable c : crypto.
Hypothesis Hsha : forall x, List.length (sha512 c x) = 64%nat.

(* (TARGET) *)
Theorem go_Verify_authentic (vd : validator) (kr : sigring) (VV KR : gval) (input pk msg : bytes) (L : list sign_event) :
  Forall event_ok L -> headers_distinct pk L ->
  (N.of_nat (List.length input) < 18446744073709551616)%N -> (len pk < 4294967296)%N ->
  verify_class (fst (run_func2 (ext_verify c vd kr) f_saltpack_Verify [VV; VBytes input; KR])) = Ok (pk, msg) ->
  (exists v nonce ps, In (EvAttached v nonce ps) L /\ msg = List.concat (map fst ps))
  \/ AttBreak c vd pk L input.
Proof.
  intros HL Hd Hlen Hpk Hgo.
  rewrite (go_Verify c vd kr VV KR input) in Hgo.
  rewrite (verify_outcome_model c vd kr input (verify_class_ok_not_stuck _ _ Hgo)) in Hgo.
  exact (attached_authentic_all_located c Hsha vd kr input pk msg L HL Hd Hlen Hpk Hgo).
Qed.

(* (TARGET) err == nil *)
Theorem go_Verify_authentic_nil_error (vd : validator) (kr : sigring) (VV KR : gval) (input : bytes) (sg body : gval)
        (L : list sign_event) :
  Forall event_ok L ->
  (N.of_nat (List.length input) < 18446744073709551616)%N ->
  fst (run_func2 (ext_verify c vd kr) f_saltpack_Verify [VV; VBytes input; KR]) = ORet [sg; body; VNil] ->
  exists pk msg,
    sg = g_spk pk /\ body = VBytes msg /\
    (headers_distinct pk L -> (len pk < 4294967296)%N ->
     (exists v nonce ps, In (EvAttached v nonce ps) L /\ msg = List.concat (map fst ps))
     \/ AttBreak c vd pk L input).
Proof.
  intros HL Hlen Hgo.
  pose proof Hgo as Hgo'. rewrite (go_Verify c vd kr VV KR input) in Hgo'.
  destruct (verify_outcome_nil_error c vd kr input sg body Hgo') as (pk & msg & -> & -> & Hcl).
  exists pk, msg. split; [reflexivity|]. split; [reflexivity|].
  intros Hd Hpk. apply (go_Verify_authentic vd kr VV KR input pk msg L HL Hd Hlen Hpk).
  rewrite (go_Verify c vd kr VV KR input). exact Hcl.
Qed.
End VerifyAuth.

(* ================= 3. VerifyDetached, VerifyDetachedReader (C07) ================= *)
Section DetachedAuth.
Variable c : crypto.
Hypothesis Hsha : forall x, List.length (sha512 c x) = 64%nat.

(* (TARGET) *)
Theorem go_VerifyDetached_authentic (vd : validator) (kr : sigring) (VV KR : gval) (msg sigfile pk : bytes)
        (L : list sign_event) :
  Forall event_ok L -> (len pk < 4294967296)%N ->
  vd_class (fst (run_func2 (ext_vdet2 c vd kr) f_saltpack_VerifyDetached [VV; VBytes msg; VBytes sigfile; KR])) = Ok pk ->
  (exists v nonce hdr rest,
      In (EvDetached v nonce msg) L /\
      read_header_bytes sigfile = Ok (hdr, rest) /\ hdr = sig_header_bytes v mt_detached pk nonce)
  \/ DetBreak c vd pk L msg sigfile.
Proof.
  intros HL Hpk Hgo.
  rewrite (go_VerifyDetached_model c vd kr VV KR msg sigfile) in Hgo.
  exact (detached_authentic_located c Hsha vd kr msg sigfile pk L HL Hpk Hgo).
Qed.

(* (TARGET) the reader form: whatever error (or none) the message reader ends with *)
Theorem go_VerifyDetachedReader_authentic (vd : validator) (kr : sigring) (VV KR : gval) (msg : bytes)
        (rerr : option (string * list gval)) (sigfile pk : bytes) (L : list sign_event) :
  Forall event_ok L -> (len pk < 4294967296)%N ->
  let rv := match rerr with Some (n, a) => Some (VErr n a) | None => None end in
  vd_class (fst (run_func2 (ext_vdet c vd kr) f_saltpack_VerifyDetachedReader [VV; g_rdr msg rv; VBytes sigfile; KR])) = Ok pk ->
  (exists v nonce hdr rest,
      In (EvDetached v nonce msg) L /\
      read_header_bytes sigfile = Ok (hdr, rest) /\ hdr = sig_header_bytes v mt_detached pk nonce)
  \/ DetBreak c vd pk L msg sigfile.
Proof.
  intros HL Hpk rv Hgo.
  pose proof (go_VerifyDetachedReader c vd kr VV KR msg rerr sigfile) as Hr. cbv zeta in Hr. fold rv in Hr.
  rewrite Hr in Hgo.
  exact (detached_authentic_located c Hsha vd kr msg sigfile pk L HL Hpk (vdet_outcome_ok c vd kr msg rv sigfile pk Hgo)).
Qed.

(* (TARGET) err == nil, both forms *)
Theorem go_VerifyDetached_authentic_nil_error (vd : validator) (kr : sigring) (VV KR : gval) (msg sigfile : bytes) (sg : gval)
        (L : list sign_event) :
  Forall event_ok L ->
  fst (run_func2 (ext_vdet2 c vd kr) f_saltpack_VerifyDetached [VV; VBytes msg; VBytes sigfile; KR]) = ORet [sg; VNil] ->
  exists pk,
    sg = g_spk pk /\
    ((len pk < 4294967296)%N ->
     (exists v nonce hdr rest,
         In (EvDetached v nonce msg) L /\
         read_header_bytes sigfile = Ok (hdr, rest) /\ hdr = sig_header_bytes v mt_detached pk nonce)
     \/ DetBreak c vd pk L msg sigfile).
Proof.
  intros HL Hgo.
  pose proof Hgo as Hgo'. rewrite (go_VerifyDetached c vd kr VV KR msg sigfile) in Hgo'.
  destruct (vdet_outcome_nil_error c vd kr msg None sigfile sg Hgo') as (pk & -> & Hcl).
  exists pk. split; [reflexivity|]. intros Hpk.
  apply (go_VerifyDetached_authentic vd kr VV KR msg sigfile pk L HL Hpk).
  rewrite (go_VerifyDetached c vd kr VV KR msg sigfile). exact Hcl.
Qed.

(* (TARGET) *)
Theorem go_VerifyDetachedReader_authentic_nil_error (vd : validator) (kr : sigring) (VV KR : gval) (msg : bytes)
        (rerr : option (string * list gval)) (sigfile : bytes) (sg : gval) (L : list sign_event) :
  Forall event_ok L ->
  let rv := match rerr with Some (n, a) => Some (VErr n a) | None => None end in
  fst (run_func2 (ext_vdet c vd kr) f_saltpack_VerifyDetachedReader [VV; g_rdr msg rv; VBytes sigfile; KR]) = ORet [sg; VNil] ->
  exists pk,
    sg = g_spk pk /\
    ((len pk < 4294967296)%N ->
     (exists v nonce hdr rest,
         In (EvDetached v nonce msg) L /\
         read_header_bytes sigfile = Ok (hdr, rest) /\ hdr = sig_header_bytes v mt_detached pk nonce)
     \/ DetBreak c vd pk L msg sigfile).
Proof.
  intros HL rv Hgo.
  pose proof (go_VerifyDetachedReader c vd kr VV KR msg rerr sigfile) as Hr. cbv zeta in Hr. fold rv in Hr.
  pose proof Hgo as Hgo'. rewrite Hr in Hgo'.
  destruct (vdet_outcome_nil_error c vd kr msg rerr sigfile sg Hgo') as (pk & -> & Hcl).
  exists pk. split; [reflexivity|]. intros Hpk.
  apply (go_VerifyDetachedReader_authentic vd kr VV KR msg rerr sigfile pk L HL Hpk).
  fold rv. rewrite Hr. exact Hcl.
Qed.
End DetachedAuth.

(* ================= 4. SigncryptOpen, named and anonymous sender (C04) ================= *)
Section ScAuth.
Variable c : crypto.
Hypothesis Hsha : forall x, List.length (sha512 c x) = 64%nat.

(* (TARGET) named sender *)
Theorem go_SigncryptOpen_authentic (kr : keyring) (signers : sigring) (rv : resolver) (KR RV : gval) (input pk pt : bytes)
        (M : list sc_msg) (others : list sign_event) :
  Forall sm_ok M -> sm_headers_distinct M -> Forall other_ok others ->
  (N.of_nat (List.length input) < 18446744073709551616)%N ->
  scopen_class (fst (run_func2 (ext_scopen c kr signers rv) f_saltpack_SigncryptOpen [VBytes input; KR; RV])) = Ok (Some pk, pt) ->
  (exists m, In m M /\ pt = List.concat (map fst (sm_packets m)))
  \/ ScBreakL c kr signers rv pk M others input.
Proof.
  intros HM Hd Ho Hlen Hgo.
  rewrite (go_SigncryptOpen c kr signers rv KR RV input) in Hgo.
  rewrite (scopen_outcome_model c kr signers rv input (scopen_class_ok_not_stuck _ _ Hgo)) in Hgo.
  exact (signcrypt_authentic_all_located c Hsha kr signers rv input pk pt M others HM Hd Ho Hlen Hgo).
Qed.

(* (TARGET) named sender, err == nil and a non-nil sender key *)
Theorem go_SigncryptOpen_authentic_nil_error (kr : keyring) (signers : sigring) (rv : resolver) (KR RV : gval) (input pk : bytes)
        (body : gval) (M : list sc_msg) (others : list sign_event) :
  Forall sm_ok M -> sm_headers_distinct M -> Forall other_ok others ->
  (N.of_nat (List.length input) < 18446744073709551616)%N ->
  fst (run_func2 (ext_scopen c kr signers rv) f_saltpack_SigncryptOpen [VBytes input; KR; RV]) = ORet [VBytes pk; body; VNil] ->
  exists pt, body = VBytes pt /\
    ((exists m, In m M /\ pt = List.concat (map fst (sm_packets m)))
     \/ ScBreakL c kr signers rv pk M others input).
Proof.
  intros HM Hd Ho Hlen Hgo.
  pose proof Hgo as Hgo'. rewrite (go_SigncryptOpen c kr signers rv KR RV input) in Hgo'.
  destruct (scopen_outcome_nil_error c kr signers rv input _ body Hgo') as (signer & pt & Hsg & -> & Hcl).
  destruct signer as [pk'|]; cbn [g_signer] in Hsg; [|discriminate Hsg]. injection Hsg as <-.
  exists pt. split; [reflexivity|].
  apply (go_SigncryptOpen_authentic kr signers rv KR RV input pk pt M others HM Hd Ho Hlen).
  rewrite (go_SigncryptOpen c kr signers rv KR RV input). exact Hcl.
Qed.

Hypothesis Hsb : forall k n m, sb_open c k n (sb_seal c k n m) = Some m.

(* (TARGET) anonymous sender: integrity against parties who lack the payload key *)
Theorem go_SigncryptOpen_anonymous_authentic (kr : keyring) (signers : sigring) (rv : resolver) (KR RV : gval) (input pt : bytes)
        (M : list sc_anon_msg) :
  Forall (sam_ok) M -> sam_headers_distinct M ->
  scopen_class (fst (run_func2 (ext_scopen c kr signers rv) f_saltpack_SigncryptOpen [VBytes input; KR; RV])) = Ok (None, pt) ->
  (exists m hb rest,
      In m M /\ read_header_bytes input = Ok (hb, rest) /\ hb = sam_header m /\
      sc_receiver_state c kr signers rv input = Some (sha512 c hb, sam_pkey m, rest) /\
      pt = List.concat (map fst (sam_packets m)))
  \/ ScAnonBreakL c kr signers rv M input.
Proof.
  intros HM Hd Hgo.
  rewrite (go_SigncryptOpen c kr signers rv KR RV input) in Hgo.
  rewrite (scopen_outcome_model c kr signers rv input (scopen_class_ok_not_stuck _ _ Hgo)) in Hgo.
  exact (signcrypt_anon_authentic_all_located c Hsha Hsb kr signers rv input pt M HM Hd Hgo).
Qed.

(* (TARGET) anonymous sender, err == nil and a nil sender key *)
Theorem go_SigncryptOpen_anonymous_authentic_nil_error (kr : keyring) (signers : sigring) (rv : resolver) (KR RV : gval)
        (input : bytes) (body : gval) (M : list sc_anon_msg) :
  Forall (sam_ok) M -> sam_headers_distinct M ->
  fst (run_func2 (ext_scopen c kr signers rv) f_saltpack_SigncryptOpen [VBytes input; KR; RV]) = ORet [VNil; body; VNil] ->
  exists pt, body = VBytes pt /\
    ((exists m hb rest,
        In m M /\ read_header_bytes input = Ok (hb, rest) /\ hb = sam_header m /\
        sc_receiver_state c kr signers rv input = Some (sha512 c hb, sam_pkey m, rest) /\
        pt = List.concat (map fst (sam_packets m)))
     \/ ScAnonBreakL c kr signers rv M input).
Proof.
  intros HM Hd Hgo.
  pose proof Hgo as Hgo'. rewrite (go_SigncryptOpen c kr signers rv KR RV input) in Hgo'.
  destruct (scopen_outcome_nil_error c kr signers rv input _ body Hgo') as (signer & pt & Hsg & -> & Hcl).
  destruct signer as [pk'|]; cbn [g_signer] in Hsg; [discriminate Hsg|].
  exists pt. split; [reflexivity|].
  apply (go_SigncryptOpen_anonymous_authentic kr signers rv KR RV input pt M HM Hd).
  rewrite (go_SigncryptOpen c kr signers rv KR RV input). exact Hcl.
Qed.
End ScAuth.


(* ====================================================================================================== *)
(* ================= STREAMING FORMS: the constructors and repeated getNextChunk ================= *)
(* ====================================================================================================== *)

(* ---------- list_prefix ---------- *)
Lemma list_prefix_nil_r {A} (p : list A) : list_prefix p [] -> p = [].
Proof. destruct p; [reflexivity|intros []]. Qed.
Lemma list_prefix_refl {A} (p : list A) : list_prefix p p.
Proof. induction p; cbn [list_prefix]; auto. Qed.
Lemma list_prefix_trans {A} (p q r : list A) : list_prefix p q -> list_prefix q r -> list_prefix p r.
Proof.
  revert q r. induction p as [|x p IH]; intros q r H1 H2; [exact I|].
  destruct q as [|y q]; [destruct H1|]. destruct r as [|z r]; [destruct H2|].
  cbn [list_prefix] in *. destruct H1 as [-> H1]. destruct H2 as [-> H2]. split; [reflexivity|]. exact (IH q r H1 H2).
Qed.

(* ================= a caller draining a receiver object by repeated getNextChunk ================= *)
Section Drain.
Variables (ext : externs) (fn : gfunc) (recv : string).

(* at most [fuel] calls of the translated getNextChunk, each run by the evaluator on the object the previous call
   left in the receiver; stops at the first non-nil error.  Result: the chunks the calls returned, in order (nil
   = the empty chunk), and the error that ended the stream (None: the calls ran out, or the evaluator was stuck /
   panicked / returned something else) *)
Fixpoint go_drain (fuel : nat) (obj : gval) : list bytes * option gval :=
  match fuel with
  | O => ([], None)
  | S f =>
    let r := run_func2 ext fn [obj] in
    match fst r with
    | ORet [ch; VNil] =>
      match vbytes_of ch, lookup recv (snd r) with
      | Some b, Some obj' => let cs := go_drain f obj' in (b :: fst cs, snd cs)
      | _, _ => ([], None)
      end
    | ORet [ch; ev] => match vbytes_of ch with Some b => ([b], Some ev) | None => ([], None) end
    | _ => ([], None)
    end
  end.

(* the model's loops, as a function of their step *)
Variable step : N -> bytes -> result (bytes * bool * bytes).
Fixpoint step_loop (fuel : nat) (n : N) (input : bytes) : list bytes * err :=
  match fuel with
  | O => ([], Unmodelled)
  | S f =>
    match step n input with
    | Err e => ([], e)
    | Ok (ch, true, rest) => ([ch], assert_end_of_stream rest)
    | Ok (ch, false, rest) => let r := step_loop f (n + 1) rest in (ch :: fst r, snd r)
    end
  end.

Hypothesis step_shrinks : forall n input ch final rest,
  step n input = Ok (ch, final, rest) -> (List.length rest < List.length input)%nat.

Lemma step_loop_enough : forall F F' n input,
  (List.length input < F)%nat -> (List.length input < F')%nat -> step_loop F n input = step_loop F' n input.
Proof.
  induction F as [|F IH]; intros F' n input H1 H2; [lia|].
  destruct F' as [|F']; [lia|]. cbn [step_loop].
  destruct (step n input) as [[[ch final] rest]|e] eqn:Es; [|reflexivity].
  destruct final; [reflexivity|].
  pose proof (step_shrinks _ _ _ _ _ Es) as Hs.
  rewrite (IH F' (n + 1)%N rest); [reflexivity|lia|lia].
Qed.
Lemma step_loop_stable : forall F F' n input,
  GoAstProofs4b.g_err (snd (step_loop F n input)) <> None -> (F <= F')%nat -> step_loop F' n input = step_loop F n input.
Proof.
  induction F as [|F IH]; intros F' n input H1 H2; [exfalso; apply H1; reflexivity|].
  destruct F' as [|F']; [lia|]. cbn [step_loop] in *.
  destruct (step n input) as [[[ch final] rest]|e] eqn:Es; [|reflexivity].
  destruct final; [reflexivity|]. cbn [snd] in H1.
  rewrite (IH F' (n + 1)%N rest H1); [reflexivity|lia].
Qed.
Lemma step_loop_prefix : forall F F' n input,
  (F <= F')%nat -> list_prefix (fst (step_loop F n input)) (fst (step_loop F' n input)).
Proof.
  induction F as [|F IH]; intros F' n input H; [exact I|].
  destruct F' as [|F']; [lia|]. cbn [step_loop].
  destruct (step n input) as [[[ch final] rest]|e] eqn:Es; [|exact I].
  destruct final; [apply list_prefix_refl|]. cbn [fst list_prefix]. split; [reflexivity|]. apply IH. lia.
Qed.

Variables (enc : bytes -> gval) (obj : N -> bytes -> gval).
Hypothesis enc_bytes : forall b, vbytes_of (enc b) = Some b.
Hypothesis Hspec : forall n input, (n < 18446744073709551616)%N ->
  chunk_spec recv enc (fun rest => obj (n + 1)%N rest) (step n input) (run_func2 ext fn [obj n input]).

Lemma go_drain_step_loop : forall F n input,
  (n + N.of_nat F <= 18446744073709551616)%N ->
  match GoAstProofs4b.g_err (snd (step_loop F n input)) with
  | Some ev => exists tl, (tl = [] \/ tl = [[]]) /\ go_drain F (obj n input) = ((fst (step_loop F n input) ++ tl)%list, Some ev)
  | None => exists cs, list_prefix cs (fst (step_loop F n input)) /\ go_drain F (obj n input) = (cs, None)
  end.
Proof.
  induction F as [|F IH]; intros n input Hn.
  - cbn [step_loop snd GoAstProofs4b.g_err go_drain]. exists []. split; [exact I|reflexivity].
  - assert (Hn1 : (n < 18446744073709551616)%N) by lia.
    pose proof (Hspec n input Hn1) as Hs. unfold chunk_spec in Hs.
    cbn [step_loop go_drain]. cbv zeta.
    destruct (step n input) as [[[ch final] rest]|e] eqn:Es.
    + destruct final.
      * cbn [fst snd].
        destruct (GoAstProofs4b.g_err (assert_end_of_stream rest)) as [ev|] eqn:Hge.
        -- destruct (g_err_verr _ _ Hge) as (nm & ar & ->). rewrite Hs, (enc_bytes ch).
           exists []. split; [left; reflexivity|reflexivity].
        -- rewrite Hs. exists []. split; [exact I|reflexivity].
      * destruct Hs as [Hs1 Hs2]. rewrite Hs1, Hs2, (enc_bytes ch). cbn [fst snd].
        assert (Hn2 : (n + 1 + N.of_nat F <= 18446744073709551616)%N) by lia.
        specialize (IH (n + 1)%N rest Hn2).
        destruct (GoAstProofs4b.g_err (snd (step_loop F (n + 1) rest))) as [ev|].
        -- destruct IH as (tl & Htl & ->). exists tl. split; [exact Htl|reflexivity].
        -- destruct IH as (cs & Hcs & ->). exists (ch :: cs). split; [split; [reflexivity|exact Hcs]|reflexivity].
    + cbn [fst snd]. destruct (GoAstProofs4b.g_err e) as [ev|] eqn:Hge.
      * destruct (g_err_verr _ _ Hge) as (nm & ar & ->). rewrite Hs. cbn [vbytes_of].
        exists [[]]. split; [right; reflexivity|reflexivity].
      * rewrite Hs. exists []. split; [exact I|reflexivity].
Qed.

(* whatever number F <= 2^64 of calls the caller allows: the chunks returned are, up to one trailing nil chunk
   returned together with the error, a prefix of what the model's loop releases at any sufficient fuel Fc; and if the
   calls ended with an error value, they are all of it and the error is the Go value of the model's ending *)
Lemma go_drain_canonical (F Fc : nat) (n : N) (input : bytes) :
  (n + N.of_nat F <= 18446744073709551616)%N -> (List.length input < Fc)%nat ->
  exists chunks tl,
    fst (go_drain F (obj n input)) = (chunks ++ tl)%list /\ (tl = [] \/ tl = [[]]) /\
    list_prefix chunks (fst (step_loop Fc n input)) /\
    (forall ev, snd (go_drain F (obj n input)) = Some ev ->
                chunks = fst (step_loop Fc n input) /\ GoAstProofs4b.g_err (snd (step_loop Fc n input)) = Some ev).
Proof.
  intros Hn HFc. pose proof (go_drain_step_loop F n input Hn) as H.
  destruct (GoAstProofs4b.g_err (snd (step_loop F n input))) as [ev|] eqn:Hge.
  - destruct H as (tl & Htl & Hd).
    assert (Heq : step_loop Fc n input = step_loop F n input).
    { destruct (Nat.le_gt_cases F Fc) as [Hle|Hgt].
      - apply step_loop_stable; [rewrite Hge; discriminate|exact Hle].
      - apply step_loop_enough; lia. }
    exists (fst (step_loop F n input)), tl. rewrite Hd, Heq. cbn [fst snd].
    split; [reflexivity|]. split; [exact Htl|]. split; [apply list_prefix_refl|].
    intros ev' Hev. injection Hev as <-. split; [reflexivity|exact Hge].
  - destruct H as (cs & Hcs & Hd). exists cs, []. rewrite Hd. cbn [fst snd]. rewrite app_nil_r.
    split; [reflexivity|]. split; [left; reflexivity|]. split; [|intros ev Hev; discriminate Hev].
    apply (list_prefix_trans _ _ _ Hcs).
    destruct (Nat.le_gt_cases F Fc) as [Hle|Hgt].
    + apply step_loop_prefix. exact Hle.
    + rewrite (step_loop_enough Fc F n input); [apply list_prefix_refl|lia|lia].
Qed.
End Drain.

Lemma g_err4b_eof_inv (e : err) : GoAstProofs4b.g_err e = Some (VErr "io.EOF" []) -> e = EOF.
Proof. destruct e; cbn [GoAstProofs4b.g_err]; intros H; try discriminate H; reflexivity. Qed.

(* the shape of the model's streaming authenticity statements: nothing released and no clean end; or a prefix of one
   candidate chunk list, all of it on a clean end; or the break *)
Definition auth_shape (Cand : list bytes -> Prop) (B : Prop) (chunks : list bytes) (clean : Prop) : Prop :=
  (chunks = [] /\ ~ clean) \/
  (exists full, Cand full /\ list_prefix chunks full /\ (clean -> chunks = full)) \/ B.

Section DrainAuth.
Variables (ext : externs) (fn : gfunc) (recv : string).
Variable step : N -> bytes -> result (bytes * bool * bytes).
Hypothesis step_shrinks : forall n input ch final rest,
  step n input = Ok (ch, final, rest) -> (List.length rest < List.length input)%nat.
Variables (enc : bytes -> gval) (obj : N -> bytes -> gval).
Hypothesis enc_bytes : forall b, vbytes_of (enc b) = Some b.
Hypothesis Hspec : forall n input, (n < 18446744073709551616)%N ->
  chunk_spec recv enc (fun rest => obj (n + 1)%N rest) (step n input) (run_func2 ext fn [obj n input]).

Lemma go_drain_auth (Cand : list bytes -> Prop) (B : Prop) (F Fc : nat) (n : N) (input : bytes) :
  (n + N.of_nat F <= 18446744073709551616)%N -> (List.length input < Fc)%nat ->
  auth_shape Cand B (fst (step_loop step Fc n input)) (snd (step_loop step Fc n input) = EOF) ->
  exists chunks tl,
    fst (go_drain ext fn recv F (obj n input)) = (chunks ++ tl)%list /\ (tl = [] \/ tl = [[]]) /\
    auth_shape Cand B chunks (snd (go_drain ext fn recv F (obj n input)) = Some (VErr "io.EOF" [])).
Proof.
  intros Hn HFc HA.
  destruct (go_drain_canonical ext fn recv step step_shrinks enc obj enc_bytes Hspec F Fc n input Hn HFc)
    as (chunks & tl & Hd & Htl & Hp & Hev).
  exists chunks, tl. split; [exact Hd|]. split; [exact Htl|].
  destruct HA as [[H0 Hne]|[(full & Hc & Hpf & Hall)|Hb]].
  - left. rewrite H0 in Hp. split; [exact (list_prefix_nil_r _ Hp)|].
    intros Hcl. destruct (Hev _ Hcl) as [_ Hg]. exact (Hne (g_err4b_eof_inv _ Hg)).
  - right; left. exists full. split; [exact Hc|]. split; [exact (list_prefix_trans _ _ _ Hp Hpf)|].
    intros Hcl. destruct (Hev _ Hcl) as [-> Hg]. exact (Hall (g_err4b_eof_inv _ Hg)).
  - right; right. exact Hb.
Qed.
End DrainAuth.

(* ================= the model's three loops are step_loop of their steps ================= *)
Section Loops.
Variable c : crypto.

Lemma decrypt_loop_step_loop (st : dec_state) : forall F n input acc,
  decrypt_loop c F st n input acc =
  mkOut (rev acc ++ fst (step_loop (dec_step c st) F n input)) (snd (step_loop (dec_step c st) F n input)).
Proof.
  induction F as [|F IH]; intros n input acc.
  - cbn [decrypt_loop step_loop fst snd]. rewrite rev_append_rev. reflexivity.
  - rewrite decrypt_loop_dec_step. cbn [step_loop].
    destruct (dec_step c st n input) as [[[ch final] rest]|e]; [destruct final|]; cbn [fst snd].
    + rewrite rev_append_rev. cbn [rev]. rewrite app_nil_r. reflexivity.
    + rewrite IH. cbn [rev]. rewrite <- app_assoc. reflexivity.
    + rewrite rev_append_rev. reflexivity.
Qed.
Lemma verify_loop_step_loop (v : version) (pk hh : bytes) : forall F n input acc,
  verify_loop c F v pk hh n input acc =
  mkOut (rev acc ++ fst (step_loop (verify_step c v pk hh) F n input)) (snd (step_loop (verify_step c v pk hh) F n input)).
Proof.
  induction F as [|F IH]; intros n input acc.
  - cbn [verify_loop step_loop fst snd]. rewrite rev_append_rev. reflexivity.
  - rewrite verify_loop_step. cbn [step_loop].
    destruct (verify_step c v pk hh n input) as [[[ch final] rest]|e]; [destruct final|]; cbn [fst snd].
    + rewrite rev_append_rev. cbn [rev]. rewrite app_nil_r. reflexivity.
    + rewrite IH. cbn [rev]. rewrite <- app_assoc. reflexivity.
    + rewrite rev_append_rev. reflexivity.
Qed.
Lemma sc_open_loop_step_loop (pkey : bytes) (signer : option bytes) (hh : bytes) : forall F n input acc,
  sc_open_loop c F pkey signer hh n input acc =
  mkOut (rev acc ++ fst (step_loop (sc_step c pkey signer hh) F n input)) (snd (step_loop (sc_step c pkey signer hh) F n input)).
Proof.
  induction F as [|F IH]; intros n input acc.
  - cbn [sc_open_loop step_loop fst snd]. rewrite rev_append_rev. reflexivity.
  - rewrite sc_open_loop_step. cbn [step_loop].
    destruct (sc_step c pkey signer hh n input) as [[[ch final] rest]|e]; [destruct final|]; cbn [fst snd].
    + rewrite rev_append_rev. cbn [rev]. rewrite app_nil_r. reflexivity.
    + rewrite IH. cbn [rev]. rewrite <- app_assoc. reflexivity.
    + rewrite rev_append_rev. reflexivity.
Qed.

Lemma dec_step_shrinks (st : dec_state) n input ch final rest :
  dec_step c st n input = Ok (ch, final, rest) -> (List.length rest < List.length input)%nat.
Proof.
  unfold dec_step. destruct (read_packet input) as [[m r]|e] eqn:E; [|discriminate].
  apply read_packet_suffix in E. cbv zeta. intros H.
  destruct (negb _); [discriminate H|]. destruct (of_dres _) as [[[a b] f]|]; [|discriminate H].
  destruct (dec_block_step _ _ _ _ _ _); [|discriminate H]. destruct (check_chunk_state _ _ _ _); [|discriminate H].
  injection H as _ _ <-. exact E.
Qed.
Lemma verify_step_shrinks v pk hh n input ch final rest :
  verify_step c v pk hh n input = Ok (ch, final, rest) -> (List.length rest < List.length input)%nat.
Proof.
  unfold verify_step. destruct (read_packet input) as [[m r]|e] eqn:E; [|discriminate].
  apply read_packet_suffix in E. intros H.
  destruct (negb _); [discriminate H|]. destruct (of_dres _) as [[[a b] f]|]; [|discriminate H].
  destruct (attached_sig_input _ _ _ _ _ _); [|discriminate H]. destruct (negb _); [discriminate H|].
  destruct (check_chunk_state _ _ _ _); [|discriminate H].
  injection H as _ _ <-. exact E.
Qed.
Lemma sc_step_shrinks pkey signer hh n input ch final rest :
  sc_step c pkey signer hh n input = Ok (ch, final, rest) -> (List.length rest < List.length input)%nat.
Proof.
  unfold sc_step. destruct (read_packet input) as [[m r]|e] eqn:E; [|discriminate].
  apply read_packet_suffix in E. intros H.
  destruct (of_dres _) as [[a f]|]; [|discriminate H].
  destruct (sc_block_step _ _ _ _ _ _ _); [|discriminate H]. destruct (check_chunk_state _ _ _ _); [|discriminate H].
  injection H as _ _ <-. exact E.
Qed.

(* processHeader succeeds only for major version 1 or 2 (computeMACKeyReceiver panics otherwise: Panic 8) *)
Lemma process_enc_header_ver12 (vd : validator) (kr : keyring) (hh : bytes) (h : header) (m : mki) (st : dec_state) :
  process_enc_header c vd kr hh h = Ok (m, st) -> (vmaj (ds_version st) = 1 \/ vmaj (ds_version st) = 2)%Z.
Proof.
  assert (Hk : forall v i a b d e x, mac_key_receiver c v i a b d e = Some x -> (vmaj v = 1 \/ vmaj v = 2)%Z).
  { intros v i a b d e x. unfold mac_key_receiver.
    destruct (vmaj v =? 1)%Z eqn:E1; [left; lia|]. destruct (vmaj v =? 2)%Z eqn:E2; [right; lia|discriminate]. }
  unfold process_enc_header.
  destruct (validate_enc_header vd h); cbn [bind]; [|discriminate].
  destruct (negb (Nat.eqb (List.length (h_a h)) 32)); [discriminate|].
  destruct (try_visible c kr (h_version h) (h_a h) (h_rcvs h)) as [[[[k pk] pos]|]|e]; cbn [bind]; [| |discriminate].
  - intros H.
    destruct (sb_open c pk nonce_sender_key_sbox (h_b h)) as [sender|]; [|discriminate].
    destruct (negb (Nat.eqb (List.length sender) 32)); [discriminate|].
    destruct (if bytes_eqb (h_a h) sender then _ else _) as [sa|]; cbn [bind] in H; [|discriminate].
    destruct (mac_key_receiver c (h_version h) pos (fst k) (fst sa) (h_a h) hh) eqn:Emk; [|discriminate].
    injection H as _ <-. cbn [ds_version]. exact (Hk _ _ _ _ _ _ _ Emk).
  - destruct (try_hidden c (kr_keys kr) (h_version h) (h_a h) (h_rcvs h)) as [[[[k pk] pos]|]|e]; cbn [bind]; [| discriminate |discriminate].
    intros H.
    destruct (sb_open c pk nonce_sender_key_sbox (h_b h)) as [sender|]; [|discriminate].
    destruct (negb (Nat.eqb (List.length sender) 32)); [discriminate|].
    destruct (if bytes_eqb (h_a h) sender then _ else _) as [sa|]; cbn [bind] in H; [|discriminate].
    destruct (mac_key_receiver c (h_version h) pos (fst k) (fst sa) (h_a h) hh) eqn:Emk; [|discriminate].
    injection H as _ <-. cbn [ds_version]. exact (Hk _ _ _ _ _ _ _ Emk).
Qed.
End Loops.

(* ================= getNextChunk on the objects the constructors return ================= *)
(* The three lemmas of GoAstProofs4b.v are stated on receiver objects holding only the fields getNextChunk uses
   (g_ds, g_sos, g_vs); the constructors return objects with MORE fields, in another order, and (verifyStream) the
   key OBJECT in publicKey (g_ds_done, g_sos_done, g_vs_key).  The same proof scripts go through on these objects. *)

Section ReplayDec.
Variable c : crypto.
Lemma go_decrypt_getNextChunk_obj (VV RING SK MK : gval) (st : dec_state) (n : N) (input : bytes) :
  (vmaj (ds_version st) = 1 \/ vmaj (ds_version st) = 2)%Z ->
  (n < 18446744073709551616)%N ->
  let obj := fun mps => VStruct [("versionValidator", VV); ("ring", RING); ("mps", mps); ("version", g_version (ds_version st));
           ("payloadKey", VBytes (ds_payload_key st)); ("senderKey", SK); ("headerHash", VBytes (ds_hh st)); ("macKey", VBytes (ds_mac_key st));
           ("position", VInt (Z.of_N (ds_position st))); ("mki", MK)] in
  chunk_spec "ds" g_chunk_nil (fun rest => obj (g_mps rest (n + 1)))
             (dec_step c st n input)
             (run_func2 (ext_chunk c TBytes) f_saltpack_decryptStream_getNextChunk [obj (g_mps input n)]).
Proof.
  intros Hv Hn obj. subst obj. cbv beta.
  pose proof (blocknum_g n Hn) as Hbn. pose proof (seqno_next n) as Hsn.
  unfold run_func2. cbn [f_params f_results f_saltpack_decryptStream_getNextChunk bind_params map app].
  match goal with |- context [exec2 ?x 300 ?e ?b] => remember (exec2 x 300 e b) as R eqn:HR end.
  symmetry in HR.
  destruct st as [[ma mi] pkey mkey pos hh0]. cbn [ds_version vmaj] in *.
  cbv beta iota zeta delta [f_body f_saltpack_decryptStream_getNextChunk] in HR.
  unfold g_mps, g_mps_raw in HR. cbn [ds_version ds_payload_key ds_mac_key ds_position ds_hh] in HR.
  unfold dec_step, read_packet. cbn [ds_version vmaj].
  assert (Hvb : ((ma =? 1) || (ma =? 2))%Z = true) by (destruct Hv; subst ma; reflexivity).
  rewrite Hvb. cbn [negb]. change ((ma =? 1) || (ma =? 2))%Z with (ver12 (mkV ma mi)) in Hvb.
  assert (Hpos0 : (Z.of_N pos <? 0)%Z = false) by lia.
  destruct (mp_read input) as [m rest| | |] eqn:Hmp.
  2:{ run_hyp4 (ext_chunk c TBytes) HR; subst R; reflexivity. }
  2:{ run_hyp4 (ext_chunk c TBytes) HR; subst R; reflexivity. }
  2:{ run_hyp4 (ext_chunk c TBytes) HR; subst R; reflexivity. }
  destruct (view_enc_block (mkV ma mi) m) as [[[auths ct] final]| |] eqn:Hview; cbn [of_dres].
  2:{ run_hyp4 (ext_chunk c TBytes) HR; subst R; reflexivity. }
  2:{ run_hyp4 (ext_chunk c TBytes) HR; subst R; reflexivity. }
  pose proof (as_bytes_list_map auths) as Habl.
  destruct (dec_block_step c (mkDec (mkV ma mi) pkey mkey pos hh0) n auths ct final) as [chunk|e] eqn:Hd.
  2:{ unfold chunk_spec; destruct (GoAstProofs4b.g_err e) as [ev|] eqn:Hge;
      [destruct (g_err_verr _ _ Hge) as (nm & ar & ->)|];
      run_hyp4 (ext_chunk c TBytes) HR; subst R; reflexivity. }
  destruct (check_chunk_state (mkV ma mi) (List.length chunk) n final) as [[]|e] eqn:Hc.
  2:{ unfold chunk_spec; destruct (GoAstProofs4b.g_err e) as [ev|] eqn:Hge;
      [destruct (g_err_verr _ _ Hge) as (nm & ar & ->)|];
      destruct chunk as [|x chunk]; try (change (List.length (@nil byte)) with O in Hc); run_hyp4 (ext_chunk c TBytes) HR; subst R; reflexivity. }
  destruct final.
  - unfold chunk_spec; destruct (GoAstProofs4b.g_err (assert_end_of_stream rest)) as [ev|] eqn:Hge;
      [destruct (g_err_verr _ _ Hge) as (nm & ar & ->)|];
      destruct chunk as [|x chunk]; try (change (List.length (@nil byte)) with O in Hc); run_hyp4 (ext_chunk c TBytes) HR; subst R; reflexivity.
  - destruct chunk as [|x chunk]; try (change (List.length (@nil byte)) with O in Hc); run_hyp4 (ext_chunk c TBytes) HR; subst R; (split; [reflexivity|]);
      cbn [snd]; unfold g_mps, g_mps_raw; rewrite <- Hsn; reflexivity.
Qed.
End ReplayDec.

(* verifyStream.processBlock on a receiver whose publicKey field holds the key OBJECT (as NewVerifyStream stores it):
   the meaning GoAstProofs4b.ext_chunk gives it on the receiver holding the key's bytes *)
Definition ext_chunk_key (c : crypto) (ty : read_target) : externs := fun fn args =>
  if String.eqb fn "verifyStream.processBlock" then
    match args with
    | VStruct fs :: rest =>
      match lookup "publicKey" fs with
      | Some (VStruct [("spk", VBytes pk)]) => ext_chunk c ty fn (VStruct (set_field fs "publicKey" (VBytes pk)) :: rest)
      | _ => None
      end
    | _ => None
    end
  else ext_chunk c ty fn args.

Section ReplaySigVer.
Variable c : crypto.

Lemma go_signcrypt_getNextChunk_obj (KR RV : gval) (pkey hh : bytes) (signer : option bytes) (n : N) (input : bytes) :
  (n < 18446744073709551616)%N ->
  chunk_spec "sos" VBytes (fun rest => g_sos_done (g_mps rest (n + 1)) KR RV pkey hh signer)
             (sc_step c pkey signer hh n input)
             (run_func2 (ext_chunk c TSigncryptionBlock) f_saltpack_signcryptOpenStream_getNextChunk
                        [g_sos_done (g_mps input n) KR RV pkey hh signer]).
Proof.
  intros Hn.
  pose proof (blocknum_g n Hn) as Hbn. pose proof (seqno_next n) as Hsn.
  unfold run_func2. cbn [f_params f_results f_saltpack_signcryptOpenStream_getNextChunk bind_params map app].
  match goal with |- context [exec2 ?x 300 ?e ?b] => remember (exec2 x 300 e b) as R eqn:HR end.
  symmetry in HR.
  cbv beta iota zeta delta [f_body f_saltpack_signcryptOpenStream_getNextChunk] in HR.
  unfold g_sos_done, g_signer, g_mps, g_mps_raw in HR.
  unfold sc_step, read_packet. unfold bytes in *.
  destruct (mp_read input) as [m rest| | |] eqn:Hmp.
  2:{ destruct signer; run_hyp4 (ext_chunk c TSigncryptionBlock) HR; subst R; reflexivity. }
  2:{ destruct signer; run_hyp4 (ext_chunk c TSigncryptionBlock) HR; subst R; reflexivity. }
  2:{ destruct signer; run_hyp4 (ext_chunk c TSigncryptionBlock) HR; subst R; reflexivity. }
  destruct (view_signcrypt_block m) as [[ct final]| |] eqn:Hview; cbn [of_dres].
  2:{ destruct signer; run_hyp4 (ext_chunk c TSigncryptionBlock) HR; subst R; reflexivity. }
  2:{ destruct signer; run_hyp4 (ext_chunk c TSigncryptionBlock) HR; subst R; reflexivity. }
  destruct (sc_block_step c pkey hh signer n ct final) as [chunk|e] eqn:Hd.
  2:{ unfold chunk_spec; destruct (GoAstProofs4b.g_err e) as [ev|] eqn:Hge;
      [destruct (g_err_verr _ _ Hge) as (nm & ar & ->)|];
      destruct signer; run_hyp4 (ext_chunk c TSigncryptionBlock) HR; subst R; reflexivity. }
  change v2 with (mkV (Z.of_N 2) (Z.of_N 0)).
  destruct (check_chunk_state (mkV (Z.of_N 2) (Z.of_N 0)) (List.length chunk) n final) as [[]|e] eqn:Hc.
  2:{ unfold chunk_spec; destruct (GoAstProofs4b.g_err e) as [ev|] eqn:Hge;
      [destruct (g_err_verr _ _ Hge) as (nm & ar & ->)|];
      destruct signer; run_hyp4 (ext_chunk c TSigncryptionBlock) HR; subst R; reflexivity. }
  destruct final.
  - unfold chunk_spec; destruct (GoAstProofs4b.g_err (assert_end_of_stream rest)) as [ev|] eqn:Hge;
      [destruct (g_err_verr _ _ Hge) as (nm & ar & ->)|];
      destruct signer; run_hyp4 (ext_chunk c TSigncryptionBlock) HR; subst R; reflexivity.
  - destruct signer; run_hyp4 (ext_chunk c TSigncryptionBlock) HR; subst R; (split; [reflexivity|]);
      cbn [snd]; unfold g_sos_done, g_signer, g_mps, g_mps_raw; rewrite <- Hsn; reflexivity.
Qed.

Lemma go_verify_getNextChunk_obj (h : header) (pk hh : bytes) (n : N) (input : bytes) :
  (vmaj (h_version h) = 1 \/ vmaj (h_version h) = 2)%Z ->
  (n < 18446744073709551616)%N ->
  chunk_spec "v" VBytes (fun rest => g_vs_key h hh pk (g_mps rest (n + 1)))
             (verify_step c (h_version h) pk hh n input)
             (run_func2 (ext_chunk_key c TBytes) f_saltpack_verifyStream_getNextChunk [g_vs_key h hh pk (g_mps input n)]).
Proof.
  intros Hv Hn.
  pose proof (blocknum_g n Hn) as Hbn. pose proof (seqno_next n) as Hsn.
  unfold run_func2. cbn [f_params f_results f_saltpack_verifyStream_getNextChunk bind_params map app].
  match goal with |- context [exec2 ?x 300 ?e ?b] => remember (exec2 x 300 e b) as R eqn:HR end.
  symmetry in HR.
  destruct h as [fmt [ma mi] ty ea eb rcvs]. cbn [h_version vmaj] in *.
  cbv beta iota zeta delta [f_body f_saltpack_verifyStream_getNextChunk] in HR.
  unfold g_vs_key, g_spk, g_sig_header, g_mps, g_mps_raw in HR. cbn [h_format h_version h_type h_a h_b h_rcvs] in HR.
  unfold verify_step, read_packet. cbn [vmaj].
  assert (Hvb : ((ma =? 1) || (ma =? 2))%Z = true) by (destruct Hv; subst ma; reflexivity).
  rewrite Hvb. cbn [negb]. change ((ma =? 1) || (ma =? 2))%Z with (ver12 (mkV ma mi)) in Hvb.
  destruct (mp_read input) as [m rest| | |] eqn:Hmp.
  2:{ run_hyp4 (ext_chunk_key c TBytes) HR; subst R; reflexivity. }
  2:{ run_hyp4 (ext_chunk_key c TBytes) HR; subst R; reflexivity. }
  2:{ run_hyp4 (ext_chunk_key c TBytes) HR; subst R; reflexivity. }
  destruct (view_sig_block (mkV ma mi) m) as [[[sig chunk] final]| |] eqn:Hview; cbn [of_dres].
  2:{ run_hyp4 (ext_chunk_key c TBytes) HR; subst R; reflexivity. }
  2:{ run_hyp4 (ext_chunk_key c TBytes) HR; subst R; reflexivity. }
  destruct (attached_sig_input c (mkV ma mi) hh chunk n final) as [inp|] eqn:Ea;
    [|exfalso; unfold attached_sig_input in Ea; cbn [vmaj] in Ea; destruct Hv; subst ma; discriminate].
  destruct (ed_verify c pk inp sig) eqn:Ev; cbn [negb].
  2:{ run_hyp4 (ext_chunk_key c TBytes) HR; subst R; reflexivity. }
  destruct (check_chunk_state (mkV ma mi) (List.length chunk) n final) as [[]|e] eqn:Hc.
  2:{ unfold chunk_spec; destruct (GoAstProofs4b.g_err e) as [ev|] eqn:Hge;
      [destruct (g_err_verr _ _ Hge) as (nm & ar & ->)|];
      run_hyp4 (ext_chunk_key c TBytes) HR; subst R; reflexivity. }
  destruct final.
  - unfold chunk_spec; destruct (GoAstProofs4b.g_err (assert_end_of_stream rest)) as [ev|] eqn:Hge;
      [destruct (g_err_verr _ _ Hge) as (nm & ar & ->)|];
      run_hyp4 (ext_chunk_key c TBytes) HR; subst R; reflexivity.
  - run_hyp4 (ext_chunk_key c TBytes) HR; subst R; (split; [reflexivity|]);
      cbn [snd]; unfold g_vs_key, g_spk, g_sig_header, g_mps, g_mps_raw; rewrite <- Hsn; reflexivity.
Qed.

(* for any other major version readSignatureBlock panics: the evaluator is stuck at that call *)
Lemma go_verify_getNextChunk_obj_bad_version (h : header) (pk hh : bytes) (mps : gval) :
  ver12 (h_version h) = false ->
  fst (run_func2 (ext_chunk_key c TBytes) f_saltpack_verifyStream_getNextChunk [g_vs_key h hh pk mps]) = OStuck "call".
Proof.
  intros Hvb.
  unfold run_func2. cbn [f_params f_results f_saltpack_verifyStream_getNextChunk bind_params map app].
  match goal with |- context [exec2 ?x 300 ?e ?b] => remember (exec2 x 300 e b) as R eqn:HR end.
  symmetry in HR.
  destruct h as [fmt [ma mi] ty ea eb rcvs]. cbn [h_version] in *.
  cbv beta iota zeta delta [f_body f_saltpack_verifyStream_getNextChunk] in HR.
  unfold g_vs_key, g_spk, g_sig_header in HR. cbn [h_format h_version h_type h_a h_b h_rcvs] in HR.
  run_hyp4 (ext_chunk_key c TBytes) HR. subst R. reflexivity.
Qed.
End ReplaySigVer.


Lemma vbytes_of_chunk_nil (b : bytes) : vbytes_of (g_chunk_nil b) = Some b.
Proof. destruct b; reflexivity. Qed.
Lemma vbytes_of_VBytes (b : bytes) : vbytes_of (VBytes b) = Some b.
Proof. reflexivity. Qed.

(* ================= 5. NewDecryptStream (C02, streaming) ================= *)
Section DecStream.
Variable c : crypto.
Hypothesis Hc : crypto_ok c.
Variable pm : bytes -> gval.
Variables s_sk r_sk : bytes.

(* (TARGET) *)
Theorem go_NewDecryptStream_authentic (vd : validator) (senders : option (list bytes)) (VV r RING : gval) (input : bytes)
        (mk rdr : gval) (L : list enc_msg) :
  Forall (em_ok c s_sk) L -> em_headers_distinct c s_sk L ->
  (N.of_nat (List.length input) < 18446744073709551616)%N ->
  rdr_bytes r = Some input ->
  let kr := mkRing [(r_sk, dh_pub c r_sk)] senders in
  fst (run_func2 (ext_nds c pm vd kr) f_saltpack_NewDecryptStream [VV; r; RING]) = ORet [mk; rdr; VNil] ->
  exists m k obj,
    mk = g_mki m k /\ snd k = mki_receiver m /\ rdr = g_cr_new obj /\
    (mki_sender m = dh_pub c s_sk -> mki_sender_anon m = false ->
     forall F, (N.of_nat F <= 18446744073709551616)%N ->
       let d := go_drain (ext_chunk c TBytes) f_saltpack_decryptStream_getNextChunk "ds" F obj in
       exists chunks tl,
         fst d = (chunks ++ tl)%list /\ (tl = [] \/ tl = [[]]) /\
         ((chunks = [] /\ snd d <> Some (VErr "io.EOF" [])) \/
          (exists msg hide pos,
              In msg L /\ nth_error (em_rs msg) pos = Some (dh_pub c r_sk, hide) /\
              list_prefix chunks (map fst (em_packets msg)) /\
              (snd d = Some (VErr "io.EOF" []) -> chunks = map fst (em_packets msg)))
          \/ EncBreakL c s_sk r_sk vd kr L input)).
Proof.
  intros HL Hd Hlen Hr kr Hgo.
  rewrite (go_NewDecryptStream c pm vd kr VV r RING input Hr) in Hgo. unfold nds_outcome in Hgo.
  pose proof (open_stream_header c vd kr input) as Hos.
  destruct (dec_read_header c vd kr input) as [[[m st] rest]|e] eqn:Hh; cbn [bind fst snd] in Hos.
  2:{ destruct (g_herr e) as [ev|] eqn:Hge; [|discriminate Hgo].
      injection Hgo as _ _ ->. exfalso. exact (g_herr_not_nil e Hge). }
  destruct (dec_header_key_some c vd kr input m st rest Hh) as (_ & k & Hk & Hks). rewrite Hk in Hgo.
  injection Hgo as <- <-.
  exists m, k, (g_ds_done VV RING (g_mps_raw rest 1) VNil m st k).
  split; [reflexivity|]. split; [exact Hks|]. split; [reflexivity|].
  intros Hs Ha F HF d.
  (* facts about the header stage *)
  assert (Hver : (vmaj (ds_version st) = 1 \/ vmaj (ds_version st) = 2)%Z /\ (List.length rest <= List.length input)%nat).
  { revert Hh. unfold dec_read_header.
    destruct (read_header_bytes input) as [[hb rest0]|e] eqn:Erh; cbn [bind fst snd]; [|discriminate].
    destruct (decode_header view_enc_header hb) as [h|e]; cbn [bind]; [|discriminate].
    destruct (process_enc_header c vd kr (sha512 c hb) h) as [[m' st']|e] eqn:Hp; cbn [bind]; [|discriminate].
    intros H. injection H as _ <- <-. split; [exact (process_enc_header_ver12 c vd kr _ h m' st' Hp)|].
    exact (read_header_bytes_suffix _ _ _ Erh). }
  destruct Hver as [Hver Hrest].
  pose proof (open_authentic_located c Hc s_sk r_sk vd senders input m _ L HL Hd Hlen Hos Hs Ha) as HA.
  rewrite decrypt_loop_step_loop in HA. cbn [so_chunks so_end rev app] in HA.
  set (Cand := fun full : list bytes => exists msg hide pos,
                 In msg L /\ nth_error (em_rs msg) pos = Some (dh_pub c r_sk, hide) /\ full = map fst (em_packets msg)).
  assert (HA' : auth_shape Cand (EncBreakL c s_sk r_sk vd kr L input)
                           (fst (step_loop (dec_step c st) (S (List.length rest)) 0 rest))
                           (snd (step_loop (dec_step c st) (S (List.length rest)) 0 rest) = EOF)).
  { destruct HA as [H0|[(msg & hide & pos & Hin & Hn & Hp & Hall)|Hb]].
    - left. exact H0.
    - right; left. exists (map fst (em_packets msg)). split; [exists msg, hide, pos; repeat split; assumption|]. split; assumption.
    - right; right. exact Hb. }
  destruct (go_drain_auth (ext_chunk c TBytes) f_saltpack_decryptStream_getNextChunk "ds" (dec_step c st)
              (dec_step_shrinks c st) g_chunk_nil
              (fun n inp => g_ds_done VV RING (g_mps inp n) VNil m st k) vbytes_of_chunk_nil
              (fun n inp Hn => go_decrypt_getNextChunk_obj c VV RING VNil (g_mki m k) st n inp Hver Hn)
              Cand _ F (S (List.length rest)) 0%N rest ltac:(lia) ltac:(lia) HA')
    as (chunks & tl & Hd1 & Htl & Hsh).
  exists chunks, tl. split; [exact Hd1|]. split; [exact Htl|].
  destruct Hsh as [H0|[(full & (msg & hide & pos & Hin & Hn & ->) & Hp & Hall)|Hb]].
  - left. exact H0.
  - right; left. exists msg, hide, pos. repeat split; assumption.
  - right; right. exact Hb.
Qed.
End DecStream.

(* a receiver whose first call is stuck releases nothing *)
Lemma go_drain_stuck (ext : externs) (fn : gfunc) (recv : string) (obj : gval) (w : string) (F : nat) :
  fst (run_func2 ext fn [obj]) = OStuck w -> go_drain ext fn recv F obj = ([], None).
Proof. intros H. destruct F as [|F]; [reflexivity|]. cbn [go_drain]. cbv zeta. rewrite H. reflexivity. Qed.

(* ================= 6. NewVerifyStream (C06, streaming) ================= *)
Section VerStream.
Variable c : crypto.
Hypothesis Hsha : forall x, List.length (sha512 c x) = 64%nat.

(* (TARGET) *)
Theorem go_NewVerifyStream_authentic (vd : validator) (kr : sigring) (VV r KR : gval) (input : bytes)
        (sg rdr : gval) (L : list sign_event) :
  Forall event_ok L ->
  (N.of_nat (List.length input) < 18446744073709551616)%N ->
  rdr_bytes r = Some input ->
  fst (run_func2 (ext_NVS c vd kr) f_saltpack_NewVerifyStream [VV; r; KR]) = ORet [sg; rdr; VNil] ->
  exists pk obj,
    sg = g_spk pk /\ rdr = g_cr_new obj /\
    (headers_distinct pk L -> (len pk < 4294967296)%N ->
     forall F, (N.of_nat F <= 18446744073709551616)%N ->
       let d := go_drain (ext_chunk_key c TBytes) f_saltpack_verifyStream_getNextChunk "v" F obj in
       exists chunks tl,
         fst d = (chunks ++ tl)%list /\ (tl = [] \/ tl = [[]]) /\
         ((chunks = [] /\ snd d <> Some (VErr "io.EOF" [])) \/
          (exists v nonce ps,
              In (EvAttached v nonce ps) L /\
              list_prefix chunks (map fst ps) /\
              (snd d = Some (VErr "io.EOF" []) -> chunks = map fst ps))
          \/ AttBreak c vd pk L input)).
Proof.
  intros HL Hlen Hr Hgo.
  rewrite (go_NewVerifyStream c vd kr VV r KR input Hr) in Hgo. unfold nvs_outcome in Hgo.
  assert (Hvs : verify_stream c vd kr input =
                bind (verify_read_header c vd mt_attached input) (fun x =>
                  let '(h, hh, rest) := x in
                  match lookup_signer kr (h_a h) with
                  | None => Err ErrNoSenderKey
                  | Some pk => Ok (pk, verify_loop c (S (List.length rest)) (h_version h) pk hh 0 rest [])
                  end)) by reflexivity.
  destruct (verify_read_header c vd mt_attached input) as [[[h hh] rest]|e] eqn:Hh; cbn [bind] in Hvs.
  2:{ destruct (g_herr e) as [ev|] eqn:Hge; [|discriminate Hgo].
      injection Hgo as _ _ ->. exfalso. exact (g_herr_not_nil e Hge). }
  destruct (lookup_signer kr (h_a h)) as [pk|] eqn:Hls; [|discriminate Hgo].
  injection Hgo as <- <-.
  exists pk, (g_vs_key h hh pk (g_mps_raw rest 1)). split; [reflexivity|]. split; [reflexivity|].
  intros Hd Hpk F HF d.
  assert (Hrest : (List.length rest <= List.length input)%nat).
  { revert Hh. unfold verify_read_header.
    destruct (read_header_bytes input) as [[hb rest0]|e] eqn:Erh; cbn [bind fst snd]; [|discriminate].
    destruct (decode_header view_sig_header hb) as [h'|e]; cbn [bind]; [|discriminate].
    destruct (validate_sig_header vd mt_attached h'); cbn [bind]; [|discriminate].
    intros H. injection H as _ _ <-. exact (read_header_bytes_suffix _ _ _ Erh). }
  destruct (ver12 (h_version h)) eqn:Hvb.
  2:{ (* another major version: readSignatureBlock panics, the first call is stuck, nothing is released *)
      subst d. rewrite (go_drain_stuck _ _ _ _ _ F (go_verify_getNextChunk_obj_bad_version c h pk hh _ Hvb)).
      exists [], []. split; [reflexivity|]. split; [left; reflexivity|]. left. split; [reflexivity|discriminate]. }
  assert (Hver : (vmaj (h_version h) = 1 \/ vmaj (h_version h) = 2)%Z).
  { unfold ver12 in Hvb. apply orb_true_iff in Hvb. destruct Hvb as [E|E]; apply Z.eqb_eq in E; auto. }
  pose proof (attached_authentic_located c Hsha vd kr input pk _ L HL Hd Hlen Hpk Hvs) as HA.
  rewrite verify_loop_step_loop in HA. cbn [so_chunks so_end rev app] in HA.
  set (Cand := fun full : list bytes => exists v nonce ps, In (EvAttached v nonce ps) L /\ full = map fst ps).
  assert (HA' : auth_shape Cand (AttBreak c vd pk L input)
                           (fst (step_loop (verify_step c (h_version h) pk hh) (S (List.length rest)) 0 rest))
                           (snd (step_loop (verify_step c (h_version h) pk hh) (S (List.length rest)) 0 rest) = EOF)).
  { destruct HA as [H0|[(v & nonce & ps & Hin & Hp & Hall)|Hb]].
    - left. exact H0.
    - right; left. exists (map fst ps). split; [exists v, nonce, ps; split; [assumption|reflexivity]|]. split; assumption.
    - right; right. exact Hb. }
  destruct (go_drain_auth (ext_chunk_key c TBytes) f_saltpack_verifyStream_getNextChunk "v" (verify_step c (h_version h) pk hh)
              (verify_step_shrinks c (h_version h) pk hh) VBytes
              (fun n inp => g_vs_key h hh pk (g_mps inp n)) vbytes_of_VBytes
              (fun n inp Hn => go_verify_getNextChunk_obj c h pk hh n inp Hver Hn)
              Cand _ F (S (List.length rest)) 0%N rest ltac:(lia) ltac:(lia) HA')
    as (chunks & tl & Hd1 & Htl & Hsh).
  exists chunks, tl. split; [exact Hd1|]. split; [exact Htl|].
  destruct Hsh as [H0|[(full & (v & nonce & ps & Hin & ->) & Hp & Hall)|Hb]].
  - left. exact H0.
  - right; left. exists v, nonce, ps. repeat split; assumption.
  - right; right. exact Hb.
Qed.
End VerStream.

(* ================= 7. NewSigncryptOpenStream (C04, streaming) ================= *)
Section ScStream.
Variable c : crypto.
Hypothesis Hsha : forall x, List.length (sha512 c x) = 64%nat.

Lemma sc_read_header_rest (kr : keyring) (signers : sigring) (rv : resolver) (input : bytes) pkey signer hh rest :
  sc_read_header c kr signers rv input = Ok (pkey, signer, hh, rest) -> (List.length rest <= List.length input)%nat.
Proof.
  unfold sc_read_header.
  destruct (read_header_bytes input) as [[hb rest0]|e] eqn:Erh; cbn [bind fst snd]; [|discriminate].
  destruct (decode_header view_enc_header hb) as [h'|e]; cbn [bind]; [|discriminate].
  destruct (process_sc_header c kr signers rv h'); cbn [bind]; [|discriminate].
  intros H. injection H as _ _ _ <-. exact (read_header_bytes_suffix _ _ _ Erh).
Qed.

(* (TARGET) named sender *)
Theorem go_NewSigncryptOpenStream_authentic (kr : keyring) (signers : sigring) (rv : resolver) (r KR RV : gval) (input pk : bytes)
        (rdr : gval) (M : list sc_msg) (others : list sign_event) :
  Forall sm_ok M -> sm_headers_distinct M -> Forall other_ok others ->
  (N.of_nat (List.length input) < 18446744073709551616)%N ->
  rdr_bytes r = Some input ->
  fst (run_func2 (ext_nsos c kr signers rv) f_saltpack_NewSigncryptOpenStream [r; KR; RV]) = ORet [VBytes pk; rdr; VNil] ->
  exists obj,
    rdr = g_cr_new obj /\
    forall F, (N.of_nat F <= 18446744073709551616)%N ->
      let d := go_drain (ext_chunk c TSigncryptionBlock) f_saltpack_signcryptOpenStream_getNextChunk "sos" F obj in
      exists chunks tl,
        fst d = (chunks ++ tl)%list /\ (tl = [] \/ tl = [[]]) /\
        ((chunks = [] /\ snd d <> Some (VErr "io.EOF" [])) \/
         (exists m hb rest,
             In m M /\ read_header_bytes input = Ok (hb, rest) /\ hb = sm_header m /\
             list_prefix chunks (map fst (sm_packets m)) /\
             (snd d = Some (VErr "io.EOF" []) -> chunks = map fst (sm_packets m)))
         \/ ScBreakL c kr signers rv pk M others input).
Proof.
  intros HM Hd Ho Hlen Hr Hgo.
  rewrite (go_NewSigncryptOpenStream c kr signers rv r KR RV input Hr) in Hgo. unfold nsos_outcome in Hgo.
  pose proof (signcrypt_open_stream_header c kr signers rv input) as Hos.
  destruct (sc_read_header c kr signers rv input) as [[[[pkey signer] hh] rest]|e] eqn:Hh; cbn [bind] in Hos.
  2:{ destruct (g_herr e) as [ev|] eqn:Hge; [|discriminate Hgo].
      injection Hgo as _ _ ->. exfalso. exact (g_herr_not_nil e Hge). }
  destruct signer as [pk'|]; cbn [g_signer] in Hgo; [|discriminate Hgo].
  injection Hgo as -> <-.
  exists (g_sos_done (g_mps_raw rest 1) KR RV pkey hh (Some pk)). split; [reflexivity|].
  intros F HF d.
  pose proof (sc_read_header_rest kr signers rv input _ _ _ _ Hh) as Hrest.
  pose proof (signcrypt_authentic_located c Hsha kr signers rv input pk _ M others HM Hd Ho Hlen Hos) as HA.
  rewrite sc_open_loop_step_loop in HA. cbn [so_chunks so_end rev app] in HA.
  set (Cand := fun full : list bytes => exists m hb rest',
                 In m M /\ read_header_bytes input = Ok (hb, rest') /\ hb = sm_header m /\ full = map fst (sm_packets m)).
  assert (HA' : auth_shape Cand (ScBreakL c kr signers rv pk M others input)
                           (fst (step_loop (sc_step c pkey (Some pk) hh) (S (List.length rest)) 0 rest))
                           (snd (step_loop (sc_step c pkey (Some pk) hh) (S (List.length rest)) 0 rest) = EOF)).
  { destruct HA as [H0|[(m & hb & rest' & Hin & Hrh & Hhb & Hp & Hall)|Hb]].
    - left. exact H0.
    - right; left. exists (map fst (sm_packets m)). split; [exists m, hb, rest'; repeat split; assumption|]. split; assumption.
    - right; right. exact Hb. }
  destruct (go_drain_auth (ext_chunk c TSigncryptionBlock) f_saltpack_signcryptOpenStream_getNextChunk "sos" (sc_step c pkey (Some pk) hh)
              (sc_step_shrinks c pkey (Some pk) hh) VBytes
              (fun n inp => g_sos_done (g_mps inp n) KR RV pkey hh (Some pk)) vbytes_of_VBytes
              (fun n inp Hn => go_signcrypt_getNextChunk_obj c KR RV pkey hh (Some pk) n inp Hn)
              Cand _ F (S (List.length rest)) 0%N rest ltac:(lia) ltac:(lia) HA')
    as (chunks & tl & Hd1 & Htl & Hsh).
  exists chunks, tl. split; [exact Hd1|]. split; [exact Htl|].
  destruct Hsh as [H0|[(full & (m & hb & rest' & Hin & Hrh & Hhb & ->) & Hp & Hall)|Hb]].
  - left. exact H0.
  - right; left. exists m, hb, rest'. repeat split; assumption.
  - right; right. exact Hb.
Qed.

Hypothesis Hsb : forall k n m, sb_open c k n (sb_seal c k n m) = Some m.

(* (TARGET) anonymous sender *)
Theorem go_NewSigncryptOpenStream_anonymous_authentic (kr : keyring) (signers : sigring) (rv : resolver) (r KR RV : gval)
        (input : bytes) (rdr : gval) (M : list sc_anon_msg) :
  Forall sam_ok M -> sam_headers_distinct M ->
  (N.of_nat (List.length input) < 18446744073709551616)%N ->
  rdr_bytes r = Some input ->
  fst (run_func2 (ext_nsos c kr signers rv) f_saltpack_NewSigncryptOpenStream [r; KR; RV]) = ORet [VNil; rdr; VNil] ->
  exists obj,
    rdr = g_cr_new obj /\
    forall F, (N.of_nat F <= 18446744073709551616)%N ->
      let d := go_drain (ext_chunk c TSigncryptionBlock) f_saltpack_signcryptOpenStream_getNextChunk "sos" F obj in
      exists chunks tl,
        fst d = (chunks ++ tl)%list /\ (tl = [] \/ tl = [[]]) /\
        ((chunks = [] /\ snd d <> Some (VErr "io.EOF" [])) \/
         (exists m hb rest,
             In m M /\ read_header_bytes input = Ok (hb, rest) /\ hb = sam_header m /\
             sc_receiver_state c kr signers rv input = Some (sha512 c hb, sam_pkey m, rest) /\
             list_prefix chunks (map fst (sam_packets m)) /\
             (snd d = Some (VErr "io.EOF" []) -> chunks = map fst (sam_packets m)))
         \/ ScAnonBreakL c kr signers rv M input).
Proof.
  intros HM Hd Hlen Hr Hgo.
  rewrite (go_NewSigncryptOpenStream c kr signers rv r KR RV input Hr) in Hgo. unfold nsos_outcome in Hgo.
  pose proof (signcrypt_open_stream_header c kr signers rv input) as Hos.
  destruct (sc_read_header c kr signers rv input) as [[[[pkey signer] hh] rest]|e] eqn:Hh; cbn [bind] in Hos.
  2:{ destruct (g_herr e) as [ev|] eqn:Hge; [|discriminate Hgo].
      injection Hgo as _ ->. exfalso. exact (g_herr_not_nil e Hge). }
  destruct signer as [pk'|]; cbn [g_signer] in Hgo; [discriminate Hgo|].
  injection Hgo as <-.
  exists (g_sos_done (g_mps_raw rest 1) KR RV pkey hh None). split; [reflexivity|].
  intros F HF d.
  pose proof (sc_read_header_rest kr signers rv input _ _ _ _ Hh) as Hrest.
  pose proof (signcrypt_anon_authentic_located c Hsha Hsb kr signers rv input _ M HM Hd Hos) as HA.
  rewrite sc_open_loop_step_loop in HA. cbn [so_chunks so_end rev app] in HA.
  set (Cand := fun full : list bytes => exists m hb rest',
                 In m M /\ read_header_bytes input = Ok (hb, rest') /\ hb = sam_header m /\
                 sc_receiver_state c kr signers rv input = Some (sha512 c hb, sam_pkey m, rest') /\
                 full = map fst (sam_packets m)).
  assert (HA' : auth_shape Cand (ScAnonBreakL c kr signers rv M input)
                           (fst (step_loop (sc_step c pkey None hh) (S (List.length rest)) 0 rest))
                           (snd (step_loop (sc_step c pkey None hh) (S (List.length rest)) 0 rest) = EOF)).
  { destruct HA as [H0|[(m & hb & rest' & Hin & Hrh & Hhb & Hst & Hp & Hall)|Hb]].
    - left. exact H0.
    - right; left. exists (map fst (sam_packets m)). split; [exists m, hb, rest'; repeat split; assumption|]. split; assumption.
    - right; right. exact Hb. }
  destruct (go_drain_auth (ext_chunk c TSigncryptionBlock) f_saltpack_signcryptOpenStream_getNextChunk "sos" (sc_step c pkey None hh)
              (sc_step_shrinks c pkey None hh) VBytes
              (fun n inp => g_sos_done (g_mps inp n) KR RV pkey hh None) vbytes_of_VBytes
              (fun n inp Hn => go_signcrypt_getNextChunk_obj c KR RV pkey hh None n inp Hn)
              Cand _ F (S (List.length rest)) 0%N rest ltac:(lia) ltac:(lia) HA')
    as (chunks & tl & Hd1 & Htl & Hsh).
  exists chunks, tl. split; [exact Hd1|]. split; [exact Htl|].
  destruct Hsh as [H0|[(full & (m & hb & rest' & Hin & Hrh & Hhb & Hst & ->) & Hp & Hall)|Hb]].
  - left. exact H0.
  - right; left. exists m, hb, rest'. repeat split; assumption.
  - right; right. exact Hb.
Qed.
End ScStream.

(* ================= the streaming statements on concrete inputs (toy primitives of GoAstProofs7c.v) ================= *)
(* run a constructor, take the receiver object out of the chunk reader it returns, drain it with at most F calls *)
Definition go_stream (ext_ctor : externs) (ctor : gfunc) (args : list gval) (ext : externs) (fn : gfunc) (recv : string) (F : nat)
  : option (gval * (list bytes * option gval)) :=
  match fst (run_func2 ext_ctor ctor args) with
  | ORet [x; VStruct [("chunker", obj); ("prevChunk", VNil); ("prevErr", VNil)]; VNil] => Some (x, go_drain ext fn recv F obj)
  | _ => None
  end.
(* genuine attached signature / encryption / signcryption: the message, then io.EOF; a truncated signature: nothing and
   io.ErrUnexpectedEOF (with the nil chunk of that call); trailing garbage after a signcrypted message: the chunk with
   ErrTrailingGarbage; one call only: the chunk (non-final packets would go on), no ending yet *)
Example ex_streams :
  go_stream (ext_NVS toy7c AnyKnownMajor [x7c_spk]) f_saltpack_NewVerifyStream [VNil; VBytes x7c_att; VNil]
            (ext_chunk_key toy7c TBytes) f_saltpack_verifyStream_getNextChunk "v" 5
  = Some (g_spk x7c_spk, ([[x68; x69]], Some (VErr "io.EOF" [])))
  /\ go_stream (ext_NVS toy7c AnyKnownMajor [x7c_spk]) f_saltpack_NewVerifyStream [VNil; VBytes (firstn 130 x7c_att); VNil]
            (ext_chunk_key toy7c TBytes) f_saltpack_verifyStream_getNextChunk "v" 5
  = Some (g_spk x7c_spk, ([[]], Some (VErr "io.ErrUnexpectedEOF" [])))
  /\ option_map snd (go_stream (ext_nds toy7c (fun _ => VNil) AnyKnownMajor x7c_kr) f_saltpack_NewDecryptStream [VNil; VBytes x7c_ct; VNil]
            (ext_chunk toy7c TBytes) f_saltpack_decryptStream_getNextChunk "ds" 5)
  = Some ([[x68; x69]], Some (VErr "io.EOF" []))
  /\ go_stream (ext_nsos toy7c x7c_kr [x7c_spk] None) f_saltpack_NewSigncryptOpenStream [VBytes x7c_sc; VNil; VNil]
            (ext_chunk toy7c TSigncryptionBlock) f_saltpack_signcryptOpenStream_getNextChunk "sos" 5
  = Some (VBytes x7c_spk, ([[x68; x69]], Some (VErr "io.EOF" [])))
  /\ option_map snd (go_stream (ext_nsos toy7c x7c_kr [x7c_spk] None) f_saltpack_NewSigncryptOpenStream [VBytes (x7c_sc ++ [x01])%list; VNil; VNil]
            (ext_chunk toy7c TSigncryptionBlock) f_saltpack_signcryptOpenStream_getNextChunk "sos" 5)
  = Some ([[x68; x69]], Some (VErr "ErrTrailingGarbage" []))
  /\ option_map snd (go_stream (ext_nsos toy7c x7c_kr [x7c_spk] None) f_saltpack_NewSigncryptOpenStream [VBytes x7c_sc; VNil; VNil]
            (ext_chunk toy7c TSigncryptionBlock) f_saltpack_signcryptOpenStream_getNextChunk "sos" 0)
  = Some ([], None).
Proof. vm_compute. repeat split. Qed.


Print Assumptions go_Open_authentic.
Print Assumptions go_Open_authentic_nil_error.
Print Assumptions go_Verify_authentic.
Print Assumptions go_Verify_authentic_nil_error.
Print Assumptions go_VerifyDetached_authentic.
Print Assumptions go_VerifyDetachedReader_authentic.
Print Assumptions go_VerifyDetached_authentic_nil_error.
Print Assumptions go_VerifyDetachedReader_authentic_nil_error.
Print Assumptions go_SigncryptOpen_authentic.
Print Assumptions go_SigncryptOpen_authentic_nil_error.
Print Assumptions go_SigncryptOpen_anonymous_authentic.
Print Assumptions go_SigncryptOpen_anonymous_authentic_nil_error.
Print Assumptions go_NewDecryptStream_authentic.
Print Assumptions go_NewVerifyStream_authentic.
Print Assumptions go_NewSigncryptOpenStream_authentic.
Print Assumptions go_NewSigncryptOpenStream_anonymous_authentic.
