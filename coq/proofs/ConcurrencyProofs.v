(* ConcurrencyProofs.v — C20: with a read-only shared environment, every interleaving
   gives every thread the result it would obtain running alone. *)
From Coq Require Import List String.
From SP Require Import Concurrency SharedState.
Import ListNotations.

Section P.
Variables Env Local : Type.

Lemma sched_one_outcomes (env : Env) (i : nat) (s : sys Env Local) :
  outcomes Env Local env (sched_one Env Local env i s) = outcomes Env Local env s.
Proof.
  revert i. induction s as [|[t l] rest IH]; intros i; [destruct i; reflexivity|].
  destruct i as [|i'].
  - cbn [sched_one]. destruct t as [|st t']; reflexivity.
  - cbn [sched_one outcomes map]. f_equal. apply IH.
Qed.

(* for every schedule: the threads' final results are those of running each alone *)
Lemma interleaving_independent (env : Env) (sch : list nat) (s : sys Env Local) :
  outcomes Env Local env (run_sched Env Local env sch s) = outcomes Env Local env s.
Proof.
  revert s. induction sch as [|i sch IH]; intro s; [reflexivity|].
  cbn [run_sched]. rewrite IH. apply sched_one_outcomes.
Qed.
End P.

(* the inventory regenerated from /repo: no construct writes through a package-level
   variable or through a shared Encoding / armorParams value outside initialisation *)
Lemma no_shared_writes : shared_writes = [] /\ shared_pointer_method_calls = [].
Proof. split; reflexivity. Qed.

(* ... and the package-level variables are the four encodings, the armor parameters, the
   frame checkers and error values (all assigned once, at initialisation) *)
Lemma package_vars_are_immutable_values :
  forallb (fun v => orb (String.eqb (substring 0 10 v) "basex.Base")
                   (orb (String.eqb (substring 0 9 v) "basex.Err")
                   (orb (String.eqb (substring 0 12 v) "saltpack.Err")
                   (orb (String.eqb (substring 0 16 v) "saltpack.armor62")
                        (String.eqb (substring 0 22 v) "saltpack.Armor62Params"))))) package_vars = true.
Proof. vm_compute. reflexivity. Qed.
