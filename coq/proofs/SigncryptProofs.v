(* SigncryptProofs.v — signcryption: box-key holders and holders of a resolvable
   symmetric key recover the plaintext and the signer; strangers get
   ErrNoDecryptionKey.  Statements marked (TARGET) are used verbatim by props/. *)
From Coq Require Import List NArith ZArith Bool Lia ZifyN ZifyNat ZifyBool Permutation.
From Coq.Strings Require Import Byte.
From SP Require Import Bytes Params Msgpack Crypto Errors Nonce Packets Chunker Rand Verify Encrypt Decrypt Signcrypt
     MsgpackProofs ChunkerProofs RandProofs.
Import ListNotations.
Open Scope N_scope.

(* ---------- generic helpers ---------- *)

Lemma sc_bytes_eqb_refl (a : bytes) : bytes_eqb a a = true.
Proof.
  induction a as [|x a IH]; cbn [bytes_eqb]; [reflexivity|].
  rewrite IH, (Byte.byte_dec_lb (eq_refl x)). reflexivity.
Qed.

Lemma sc_bytes_eqb_true (a : bytes) : forall b, bytes_eqb a b = true -> a = b.
Proof.
  induction a as [|x a IH]; intros [|y b] H; cbn [bytes_eqb] in H; try discriminate; [reflexivity|].
  apply andb_true_iff in H as [H1 H2].
  apply Byte.byte_dec_bl in H1. apply IH in H2. congruence.
Qed.

Lemma sc_bytes_eqb_neq (a b : bytes) : a <> b -> bytes_eqb a b = false.
Proof.
  intro H. destruct (bytes_eqb a b) eqn:E; [|reflexivity].
  apply sc_bytes_eqb_true in E. contradiction.
Qed.

Lemma sc_zeros_length k : length (zeros k) = k.
Proof. apply repeat_length. Qed.

Lemma sc_all_zero_zeros k : all_zero (zeros k) = true.
Proof. induction k as [|k IH]; [reflexivity|]. cbn [zeros repeat all_zero]. exact IH. Qed.

Lemma sc_skipn_skipn {A} (a b : nat) : forall l : list A, skipn a (skipn b l) = skipn (b + a) l.
Proof.
  induction b as [|b IH]; intro l; [reflexivity|].
  destruct l as [|x l]; cbn [skipn Nat.add]; [destruct a; reflexivity|apply IH].
Qed.

Lemma sc_mapi_from_length {A B} (f : N -> A -> B) : forall l s, length (mapi_from f s l) = length l.
Proof. induction l as [|x l IH]; intro s; cbn [mapi_from length]; [reflexivity|]. rewrite IH. reflexivity. Qed.

Lemma sc_nth_error_mapi_from {A B} (f : N -> A -> B) : forall l s i,
  nth_error (mapi_from f s l) i = option_map (f (s + N.of_nat i)) (nth_error l i).
Proof.
  induction l as [|x l IH]; intros s i.
  - destruct i; reflexivity.
  - destruct i as [|i]; cbn [mapi_from nth_error option_map].
    + rewrite N.add_0_r. reflexivity.
    + rewrite IH. replace (s + 1 + N.of_nat i) with (s + N.of_nat (S i)) by lia. reflexivity.
Qed.

Lemma sc_ebs_eq : Z.of_nat enc_block_size = 1048576%Z.
Proof. unfold enc_block_size. rewrite Z2Nat.id; [reflexivity|]. discriminate. Qed.
Lemma sc_ebs_pos : (0 < enc_block_size)%nat.
Proof. pose proof sc_ebs_eq. lia. Qed.
Lemma sc_ebs_lt : N.of_nat enc_block_size < 4294967296.
Proof. pose proof sc_ebs_eq. lia. Qed.

Lemma sc_read_full_some k r : (k <= length r)%nat -> read_full k r = Some (firstn k r, skipn k r).
Proof. intro H. unfold read_full. destruct (Nat.leb_spec k (length r)); [reflexivity|lia]. Qed.
Lemma sc_read_full_none k r : (length r < k)%nat -> read_full k r = None.
Proof. intro H. unfold read_full. destruct (Nat.leb_spec k (length r)); [lia|reflexivity]. Qed.
Lemma sc_read_full_inv k r a r' : read_full k r = Some (a, r') ->
  (k <= length r)%nat /\ a = firstn k r /\ r' = skipn k r.
Proof.
  unfold read_full. destruct (Nat.leb_spec k (length r)) as [Hk|Hk]; [|discriminate].
  intro H. injection H as <- <-. auto.
Qed.

Lemma sc_Ok_inj {A} (a b : A) : Ok a = Ok b -> a = b.
Proof. intro H. injection H as H. exact H. Qed.

(* ---------- the top-level sender ---------- *)

Lemma sc_check_receivers_inv boxes syms : sc_check_receivers boxes syms = Ok tt ->
  (length boxes + length syms <> 0)%nat /\ (Z.of_nat (length boxes + length syms) <= 4294967295)%Z.
Proof.
  unfold sc_check_receivers.
  destruct (Nat.eqb_spec (length boxes + length syms) 0) as [|Hn]; [discriminate|].
  change max_receiver_count with 4294967295%Z.
  destruct (Z.ltb_spec 4294967295 (Z.of_nat (length boxes + length syms))); [discriminate|].
  intros _. split; assumption.
Qed.

(* ---------- msgpack: a value whose encoding is shorter than 2^32 is well formed ---------- *)

Definition sc_ints_all (ok : mval -> Prop) (l : list mval) : Prop :=
  (fix all (l : list mval) : Prop := match l with [] => True | x :: t => ok x /\ all t end) l.

Fixpoint sc_ints_ok (v : mval) : Prop :=
  match v with
  | MInt z => (-9223372036854775808 <= z < 18446744073709551616)%Z
  | MArr l => (fix all (l : list mval) : Prop := match l with [] => True | x :: t => sc_ints_ok x /\ all t end) l
  | _ => True
  end.

Lemma sc_wf_of_fits (v : mval) : sc_ints_ok v -> len (mp_encode v) < 4294967296 -> wf v.
Proof.
  induction v as [|b|z|b|b|l IH] using mval_ind'; intros Hi Hl.
  - exact I.
  - exact I.
  - exact Hi.
  - cbn [wf]. cbn [mp_encode] in Hl. rewrite mp_len_app in Hl. unfold len in *. lia.
  - cbn [wf]. cbn [mp_encode] in Hl. rewrite mp_len_app in Hl. unfold len in *. lia.
  - rewrite mp_encode_arr, mp_len_app in Hl.
    assert (Hl' : len (enc_list l) < 4294967296) by lia. clear Hl.
    change (N.of_nat (length l) < 4294967296 /\ wf_all l).
    change (sc_ints_all sc_ints_ok l) in Hi.
    split.
    + assert (Hlen : (length l <= length (enc_list l))%nat).
      { clear. induction l as [|x t IHt]; [cbn; lia|].
        cbn [length enc_list]. rewrite app_length. pose proof (mp_encode_len x). lia. }
      unfold len in Hl'. lia.
    + induction IH as [|x t Hx Ht IHt]; [exact I|].
      destruct Hi as [Hix Hit]. cbn [enc_list] in Hl'. rewrite mp_len_app in Hl'.
      unfold len in *.
      split; [apply Hx; [exact Hix|unfold len; lia]|apply IHt; [exact Hit|lia]].
Qed.

(* ---------- the header as the receiver decodes it ---------- *)

Definition sc_rcvs (entries : list (option bytes * bytes)) : list (bytes * bytes) :=
  map (fun e => (match fst e with Some k => k | None => [] end, snd e)) entries.

Lemma sc_view_receivers (entries : list (option bytes * bytes)) :
  view_list view_receiver (map mv_receiver entries) = DOk (sc_rcvs entries).
Proof.
  induction entries as [|[k b] t IH]; [reflexivity|].
  cbn [map view_list]. rewrite IH.
  destruct k; reflexivity.
Qed.

Lemma sc_ints_receivers (entries : list (option bytes * bytes)) :
  sc_ints_all sc_ints_ok (map mv_receiver entries).
Proof.
  induction entries as [|[k b] t IH]; [exact I|].
  split; [|exact IH]. destruct k; cbn; auto.
Qed.

Lemma sc_header_wf (eph sbox : bytes) (entries : list (option bytes * bytes)) :
  len (mp_encode (mv_enc_header v2 mt_signcryption eph sbox entries)) < 4294967296 ->
  wf (mv_enc_header v2 mt_signcryption eph sbox entries).
Proof.
  apply sc_wf_of_fits.
  unfold mv_enc_header, mv_version.
  change (sc_ints_all sc_ints_ok
            [MStr format_name; MArr [MInt (vmaj v2); MInt (vmin v2)]; MInt mt_signcryption;
             MBin eph; MBin sbox; MArr (map mv_receiver entries)]).
  assert (Hr : forall z, (0 <= z <= 3)%Z -> (-9223372036854775808 <= z < 18446744073709551616)%Z) by (intros; lia).
  split; [exact I|]. split.
  { split; [apply Hr; vm_compute; split; discriminate|].
    split; [apply Hr; vm_compute; split; discriminate|exact I]. }
  split; [apply Hr; vm_compute; split; discriminate|].
  split; [exact I|]. split; [exact I|]. split; [|exact I].
  apply sc_ints_receivers.
Qed.

Lemma sc_decode_header (eph sbox : bytes) (entries : list (option bytes * bytes)) :
  wf (mv_enc_header v2 mt_signcryption eph sbox entries) ->
  decode_header view_enc_header (mp_encode (mv_enc_header v2 mt_signcryption eph sbox entries)) =
  Ok (mkHeader format_name v2 mt_signcryption eph sbox (sc_rcvs entries)).
Proof.
  intro Hwf. unfold decode_header.
  rewrite <- (app_nil_r (mp_encode _)), mp_read_encode by exact Hwf.
  unfold mv_enc_header, view_enc_header, mv_version.
  cbn [as_array dbind field nth as_string].
  rewrite sc_view_receivers. reflexivity.
Qed.

Lemma sc_read_header_bytes (hdr body : bytes) : len hdr < 4294967296 ->
  read_header_bytes (mp_encode (MBin hdr) ++ body) = Ok (hdr, body).
Proof.
  intro H. unfold read_header_bytes. rewrite mp_read_encode by exact H. reflexivity.
Qed.

Lemma sc_plan_v2_eq (B : nat) (m : bytes) : plan v2 B m = plan_v2 B m.
Proof. reflexivity. Qed.

Lemma sc_assert_end_nil : assert_end_of_stream [] = EOF.
Proof. unfold assert_end_of_stream. rewrite mp_read_nil. reflexivity. Qed.

Lemma sc_firstn_exact (n : nat) (a b : bytes) : length a = n -> firstn n (a ++ b) = a.
Proof. intros <-. apply firstn_len_app. Qed.
Lemma sc_skipn_exact (n : nat) (a b : bytes) : length a = n -> skipn n (a ++ b) = b.
Proof. intros <-. apply skipn_len_app. Qed.

Section RT.
Variable c : crypto.
Hypothesis Hc : crypto_ok c.

(* the recipient identifiers as they appear in the header built by signcrypt_core *)
Definition sc_header_kids (eph_sk pkey : bytes) (rs : list sc_rcpt) : list bytes :=
  map (fun e => match fst e with Some k => k | None => [] end)
      (mapi_from (sc_receiver_entry c eph_sk (dh_pub c eph_sk) pkey) 0 rs).

(* the pieces of the header built by signcrypt_core *)
Definition sc_sender_pub (signer : option bytes) : bytes :=
  match signer with None => zeros 32 | Some sk => ed_pub c sk end.

Definition sc_entries (eph_sk pkey : bytes) (s : N) (rs : list sc_rcpt) : list (option bytes * bytes) :=
  mapi_from (sc_receiver_entry c eph_sk (dh_pub c eph_sk) pkey) s rs.

Definition sc_sbox (signer : option bytes) (pkey : bytes) : bytes :=
  sb_seal c pkey nonce_sender_key_sbox (sc_sender_pub signer).

Definition sc_header_mval (signer : option bytes) (eph_sk pkey : bytes) (rs : list sc_rcpt) : mval :=
  mv_enc_header v2 mt_signcryption (dh_pub c eph_sk) (sc_sbox signer pkey) (sc_entries eph_sk pkey 0 rs).

Definition sc_header_bytes (signer : option bytes) (eph_sk pkey : bytes) (rs : list sc_rcpt) : bytes :=
  mp_encode (sc_header_mval signer eph_sk pkey rs).

(* (EXTRA HYPOTHESIS of the three C03 lemmas below)  The encoded header is itself
   wrapped as a msgpack bin object, whose length field has 32 bits.  The bound
   [N.of_nat (length rs) < 4294967296] does not imply this: 2^27 box recipients
   (85 header bytes each) or one symmetric-key recipient with a 4 GiB identifier
   already give a header of 2^32 bytes or more, whose bin32 length prefix wraps
   around, and the receiver then fails to read the header. *)
Definition header_fits (signer : option bytes) (eph_sk pkey : bytes) (rs : list sc_rcpt) : Prop :=
  len (sc_header_bytes signer eph_sk pkey rs) < 4294967296.

Lemma signcrypt_core_eq signer eph_sk pkey rs pieces :
  signcrypt_core c signer eph_sk pkey rs pieces =
  if negb (Nat.eqb (length (sc_sender_pub signer)) 32) then Err (Panic 10)
  else bind (signcrypt_packets c signer pkey (sha512 c (sc_header_bytes signer eph_sk pkey rs)) 0
               (cw_session v2 enc_block_size [] pieces))
         (fun body => Ok (mp_encode (MBin (sc_header_bytes signer eph_sk pkey rs)) ++ body)).
Proof. reflexivity. Qed.

Lemma signcrypt_core_inv signer eph_sk pkey rs pieces out :
  signcrypt_core c signer eph_sk pkey rs pieces = Ok out ->
  exists body,
    signcrypt_packets c signer pkey (sha512 c (sc_header_bytes signer eph_sk pkey rs)) 0
       (plan_v2 enc_block_size (concat pieces)) = Ok body /\
    out = mp_encode (MBin (sc_header_bytes signer eph_sk pkey rs)) ++ body.
Proof.
  rewrite signcrypt_core_eq.
  destruct (negb (Nat.eqb (length (sc_sender_pub signer)) 32)); [discriminate|].
  rewrite cw_session_plan by exact sc_ebs_pos. rewrite sc_plan_v2_eq.
  destruct (signcrypt_packets _ _ _ _ _ _) as [body|e]; cbn [bind]; [|discriminate].
  intro H. apply sc_Ok_inj in H. subst out. exists body. split; reflexivity.
Qed.

(* ---------- the packet loop ---------- *)

Definition sc_sig (signer : option bytes) (hh nonce : bytes) (final : bool) (chunk : bytes) : bytes :=
  match signer with
  | None => zeros 64
  | Some sk => ed_sign c sk (signcrypt_sig_input c hh nonce final chunk)
  end.

Lemma sc_sig_length signer hh nonce final chunk : length (sc_sig signer hh nonce final chunk) = 64%nat.
Proof. destruct signer; cbn [sc_sig]; [apply (ok_sig_len c Hc)|apply sc_zeros_length]. Qed.

Lemma signcrypt_packets_cons signer pkey hh n (chunk : bytes) final t :
  signcrypt_packets c signer pkey hh n ((chunk, final) :: t) =
  if negb (block_number_ok n) then Err ErrPacketOverflow
  else bind (signcrypt_packets c signer pkey hh (n + 1) t) (fun rest =>
       Ok (mp_encode (mv_signcrypt_block
             (sb_seal c pkey (nonce_chunk_signcryption hh final n)
                (sc_sig signer hh (nonce_chunk_signcryption hh final n) final chunk ++ chunk)) final) ++ rest)).
Proof. reflexivity. Qed.

Lemma sc_open_loop_S f pk sg hh n input acc :
  sc_open_loop c (S f) pk sg hh n input acc =
    match read_packet input with
    | Err e => mkOut (rev_append acc []) e
    | Ok (m, rest) =>
      match of_dres (view_signcrypt_block m) with
      | Err e => mkOut (rev_append acc []) e
      | Ok (ct, final) =>
        if negb (block_number_ok n) then mkOut (rev_append acc []) ErrPacketOverflow
        else
        match sb_open c pk (nonce_chunk_signcryption hh final n) ct with
        | None => mkOut (rev_append acc []) (ErrBadCiphertext (n + 1))
        | Some att =>
          if Nat.ltb (length att) 64 then mkOut (rev_append acc []) (ErrBadCiphertext (n + 1))
          else
            if negb (match sg with
                     | None => true
                     | Some pk' => ed_verify c pk' (signcrypt_sig_input c hh (nonce_chunk_signcryption hh final n)
                                                      final (skipn 64 att)) (firstn 64 att)
                     end) then mkOut (rev_append acc []) ErrBadSignature
            else
              match check_chunk_state v2 (length (skipn 64 att)) n final with
              | Err e => mkOut (rev_append acc []) e
              | Ok _ =>
                if final then mkOut (rev_append (skipn 64 att :: acc) []) (assert_end_of_stream rest)
                else sc_open_loop c f pk sg hh (n + 1) rest (skipn 64 att :: acc)
              end
        end
      end
    end.
Proof. reflexivity. Qed.

Lemma sc_packet_step signer pkey hh n (chunk : bytes) final (rest : bytes) f (acc : list bytes) :
  block_number_ok n = true -> (length chunk <= enc_block_size)%nat ->
  check_chunk_state v2 (length chunk) n final = Ok tt ->
  sc_open_loop c (S f) pkey (option_map (ed_pub c) signer) hh n
    (mp_encode (mv_signcrypt_block
        (sb_seal c pkey (nonce_chunk_signcryption hh final n)
           (sc_sig signer hh (nonce_chunk_signcryption hh final n) final chunk ++ chunk)) final) ++ rest) acc =
  if final then mkOut (rev_append (chunk :: acc) []) (assert_end_of_stream rest)
  else sc_open_loop c f pkey (option_map (ed_pub c) signer) hh (n + 1) rest (chunk :: acc).
Proof.
  intros Hbn Hlen Hcs.
  set (nonce := nonce_chunk_signcryption hh final n).
  pose proof (sc_sig_length signer hh nonce final chunk) as Hsig.
  set (sig := sc_sig signer hh nonce final chunk) in *.
  rewrite sc_open_loop_S. fold nonce.
  unfold read_packet. rewrite mp_read_encode.
  2:{ unfold mv_signcrypt_block. cbn [wf]. split; [cbn; lia|].
      split; [|split; exact I].
      unfold len. rewrite (ok_sb_len c Hc), app_length, Hsig.
      pose proof sc_ebs_eq. lia. }
  unfold mv_signcrypt_block, view_signcrypt_block.
  cbn [as_array dbind field nth as_bytes as_bool of_dres].
  rewrite Hbn. cbn [negb].
  rewrite (ok_sb c Hc).
  destruct (Nat.ltb_spec (length (sig ++ chunk)) 64) as [Hl|_].
  { rewrite app_length, Hsig in Hl. lia. }
  rewrite (sc_firstn_exact 64 sig chunk Hsig), (sc_skipn_exact 64 sig chunk Hsig).
  subst nonce.
  assert (Hv : match option_map (ed_pub c) signer with
               | None => true
               | Some pk' => ed_verify c pk' (signcrypt_sig_input c hh (nonce_chunk_signcryption hh final n) final chunk) sig
               end = true).
  { destruct signer as [sk|]; cbn [option_map]; [|reflexivity].
    unfold sig. cbn [sc_sig]. apply (ok_ed c Hc). }
  rewrite Hv. cbn [negb]. rewrite Hcs. reflexivity.
Qed.

Lemma sc_packets_length signer pkey hh : forall ps n body,
  signcrypt_packets c signer pkey hh n ps = Ok body -> (length ps <= length body)%nat.
Proof.
  induction ps as [|[chunk final] t IH]; intros n body H.
  - cbn [length]. lia.
  - rewrite signcrypt_packets_cons in H.
    destruct (negb (block_number_ok n)); [discriminate|].
    destruct (signcrypt_packets c signer pkey hh (n + 1) t) as [rest|e] eqn:E; cbn [bind] in H; [|discriminate].
    apply sc_Ok_inj in H. subst body. apply IH in E. rewrite app_length. cbn [length].
    pose proof (mp_encode_len (mv_signcrypt_block
             (sb_seal c pkey (nonce_chunk_signcryption hh final n)
                (sc_sig signer hh (nonce_chunk_signcryption hh final n) final chunk ++ chunk)) final)). lia.
Qed.

Lemma sc_loop signer pkey hh : forall (init : list bytes) (lastc : bytes) n (body : bytes) (acc : list bytes) fuel,
  signcrypt_packets c signer pkey hh n (nonfinal init ++ [(lastc, true)]) = Ok body ->
  (forall k chunk final, nth_error (nonfinal init ++ [(lastc, true)]) k = Some (chunk, final) ->
      check_chunk_state v2 (length chunk) (n + N.of_nat k) final = Ok tt) ->
  Forall (fun p => (length (fst p) <= enc_block_size)%nat) (nonfinal init ++ [(lastc, true)]) ->
  (length init < fuel)%nat ->
  sc_open_loop c fuel pkey (option_map (ed_pub c) signer) hh n body acc =
    mkOut (rev acc ++ init ++ [lastc]) EOF.
Proof.
  induction init as [|x init IH]; intros lastc n body acc fuel Hp Hcs Hb Hf.
  - cbn [nonfinal map app] in *.
    rewrite signcrypt_packets_cons in Hp.
    destruct (block_number_ok n) eqn:Hbn; cbn [negb] in Hp; [|discriminate].
    cbn [signcrypt_packets bind] in Hp. apply sc_Ok_inj in Hp. subst body.
    destruct fuel as [|f]; [cbn in Hf; lia|].
    rewrite sc_packet_step.
    + rewrite sc_assert_end_nil, rev_append_rev, app_nil_r. reflexivity.
    + exact Hbn.
    + inversion Hb; subst. assumption.
    + specialize (Hcs 0%nat lastc true eq_refl). rewrite N.add_0_r in Hcs. exact Hcs.
  - cbn [nonfinal map app] in *. fold (nonfinal init) in *.
    rewrite signcrypt_packets_cons in Hp.
    destruct (block_number_ok n) eqn:Hbn; cbn [negb] in Hp; [|discriminate].
    destruct (signcrypt_packets c signer pkey hh (n + 1) (nonfinal init ++ [(lastc, true)])) as [rest|e] eqn:E;
      cbn [bind] in Hp; [|discriminate].
    apply sc_Ok_inj in Hp. subst body.
    destruct fuel as [|f]; [cbn in Hf; lia|].
    rewrite sc_packet_step.
    + rewrite (IH lastc (n + 1) rest (x :: acc) f E).
      * cbn [rev]. rewrite <- app_assoc. reflexivity.
      * intros k chunk final Hk. specialize (Hcs (S k) chunk final Hk).
        replace (n + 1 + N.of_nat k) with (n + N.of_nat (S k)) by lia. exact Hcs.
      * inversion Hb; subst. assumption.
      * cbn [length] in Hf. lia.
    + exact Hbn.
    + inversion Hb; subst. assumption.
    + specialize (Hcs 0%nat x false eq_refl). rewrite N.add_0_r in Hcs. exact Hcs.
Qed.

(* the whole body: what signcrypt_packets emitted for the plan of [msg] is read back as [msg] *)
Lemma sc_loop_plan signer pkey hh msg body :
  signcrypt_packets c signer pkey hh 0 (plan_v2 enc_block_size msg) = Ok body ->
  exists chunks,
    sc_open_loop c (S (length body)) pkey (option_map (ed_pub c) signer) hh 0 body [] = mkOut chunks EOF /\
    concat chunks = msg.
Proof.
  intro Hp.
  destruct (plan_v2_shape enc_block_size msg sc_ebs_pos) as (init & lastc & E & _ & _ & _ & Hcat).
  pose proof (sc_packets_length _ _ _ _ _ _ Hp) as Hlen.
  pose proof (plan_chunk_state v2 enc_block_size msg sc_ebs_pos (or_intror eq_refl)) as Hcs.
  pose proof (plan_chunk_bound v2 enc_block_size msg sc_ebs_pos) as Hb.
  rewrite sc_plan_v2_eq in Hcs, Hb.
  rewrite E in *.
  exists (init ++ [lastc]). split.
  - rewrite (sc_loop signer pkey hh init lastc 0 body [] (S (length body)) Hp).
    + reflexivity.
    + intros k chunk final Hk. rewrite N.add_0_l. apply Hcs. exact Hk.
    + exact Hb.
    + rewrite app_length in Hlen. unfold nonfinal in Hlen. rewrite map_length in Hlen.
      cbn [length] in Hlen. lia.
  - rewrite concat_app. cbn [concat]. rewrite app_nil_r. exact Hcat.
Qed.

(* ---------- finding the payload key ---------- *)

Definition sc_kid_of (e : option bytes * bytes) : bytes :=
  match fst e with Some k => k | None => [] end.

Lemma sc_entries_cons eph_sk pkey s r rs :
  sc_entries eph_sk pkey s (r :: rs) =
  sc_receiver_entry c eph_sk (dh_pub c eph_sk) pkey s r :: sc_entries eph_sk pkey (s + 1) rs.
Proof. reflexivity. Qed.

Lemma sc_rcvs_cons e t : sc_rcvs (e :: t) = (sc_kid_of e, snd e) :: sc_rcvs t.
Proof. reflexivity. Qed.

Lemma sc_rcvs_fst entries : map fst (sc_rcvs entries) = map sc_kid_of entries.
Proof. unfold sc_rcvs. rewrite map_map. reflexivity. Qed.

Lemma sc_derived_comm sk eph_sk :
  derived_box_key c sk (dh_pub c eph_sk) = derived_box_key c eph_sk (dh_pub c sk).
Proof. unfold derived_box_key, box_seal. rewrite (ok_dh c Hc). reflexivity. Qed.

Lemma sc_sym_key_ok (pk : bytes) : length pk = 32%nat -> sym_key pk = Ok pk.
Proof. intro H. unfold sym_key. rewrite H. reflexivity. Qed.

Lemma sc_try_box_nil : forall rcvs s, sc_try_box c [] rcvs s = Ok None.
Proof.
  induction rcvs as [|[kid box] t IH]; intro s; [reflexivity|].
  cbn [sc_try_box sc_try_derived]. apply IH.
Qed.

Lemma sc_try_box1_cons d kid box t s :
  sc_try_box c [d] ((kid, box) :: t) s =
  if bytes_eqb (box_key_identifier c d s) kid then
    match sb_open c d (nonce_payload_key_box_v2 s) box with
    | None => Err ErrDecryptionFailed
    | Some pk => match sym_key pk with Ok k => Ok (Some k) | Err e => Err e end
    end
  else sc_try_box c [d] t (s + 1).
Proof.
  cbn [sc_try_box sc_try_derived].
  destruct (bytes_eqb (box_key_identifier c d s) kid); [|reflexivity].
  destruct (sb_open c d (nonce_payload_key_box_v2 s) box) as [pk|]; [|reflexivity].
  destruct (sym_key pk); reflexivity.
Qed.

Lemma sc_try_sym_cons rsl eph kid box t s :
  sc_try_sym c rsl eph ((kid, box) :: t) s =
  match resolve rsl kid with
  | None => sc_try_sym c rsl eph t (s + 1)
  | Some key =>
    match sb_open c (derived_sym_key c eph key) (nonce_payload_key_box_v2 s) box with
    | None => Err ErrDecryptionFailed
    | Some pk => bind (sym_key pk) (fun k => Ok (Some k))
    end
  end.
Proof. reflexivity. Qed.

Lemma sc_Some_inj {A} (a b : A) : Some a = Some b -> a = b.
Proof. intro H. injection H as H. exact H. Qed.

(* the holder of the box key at position i: found, unless an earlier identifier collides *)
Lemma sc_try_box_found eph_sk pkey sk : length pkey = 32%nat ->
  forall rs s i, nth_error rs i = Some (BoxRcpt (dh_pub c sk)) ->
  sc_try_box c [derived_box_key c sk (dh_pub c eph_sk)] (sc_rcvs (sc_entries eph_sk pkey s rs)) s
    = Ok (Some pkey) \/
  exists j kid, (j < i)%nat /\ nth_error (map sc_kid_of (sc_entries eph_sk pkey s rs)) j = Some kid /\
     box_key_identifier c (derived_box_key c sk (dh_pub c eph_sk)) (s + N.of_nat j) = kid.
Proof.
  intro Hpk. induction rs as [|r rs IH]; intros s i Hi.
  - destruct i; discriminate.
  - rewrite sc_entries_cons, sc_rcvs_cons, sc_try_box1_cons.
    destruct i as [|i].
    + cbn [nth_error] in Hi. apply sc_Some_inj in Hi. subst r. left.
      cbn [sc_receiver_entry sc_kid_of fst snd].
      rewrite <- (sc_derived_comm sk eph_sk).
      rewrite sc_bytes_eqb_refl, (ok_sb c Hc), (sc_sym_key_ok pkey Hpk). reflexivity.
    + cbn [nth_error] in Hi.
      destruct (bytes_eqb (box_key_identifier c (derived_box_key c sk (dh_pub c eph_sk)) s)
                  (sc_kid_of (sc_receiver_entry c eph_sk (dh_pub c eph_sk) pkey s r))) eqn:E.
      * right. exists 0%nat, (sc_kid_of (sc_receiver_entry c eph_sk (dh_pub c eph_sk) pkey s r)).
        split; [lia|]. split; [reflexivity|].
        apply sc_bytes_eqb_true in E. rewrite N.add_0_r. exact E.
      * destruct (IH (s + 1) i Hi) as [H|(j & kid & Hj & Hn & Hk)]; [left; exact H|].
        right. exists (S j), kid. split; [lia|]. split; [exact Hn|].
        replace (s + N.of_nat (S j)) with (s + 1 + N.of_nat j) by lia. exact Hk.
Qed.

(* a resolver knowing only genuine pairs, at least one: the first resolvable entry opens *)
Lemma sc_try_sym_found rsl eph_sk pkey : length pkey = 32%nat ->
  forall rs s i key ident,
  nth_error rs i = Some (SymRcpt key ident) -> resolve rsl ident = Some key ->
  (forall j kid, nth_error (map sc_kid_of (sc_entries eph_sk pkey s rs)) j = Some kid ->
     forall key, resolve rsl kid = Some key -> nth_error rs j = Some (SymRcpt key kid)) ->
  sc_try_sym c rsl (dh_pub c eph_sk) (sc_rcvs (sc_entries eph_sk pkey s rs)) s = Ok (Some pkey).
Proof.
  intro Hpk. induction rs as [|r rs IH]; intros s i key ident Hi Hres Hgen.
  - destruct i; discriminate.
  - pose proof (Hgen 0%nat _ eq_refl) as Hg0.
    rewrite sc_entries_cons, sc_rcvs_cons, sc_try_sym_cons.
    destruct r as [pk|k id]; cbn [sc_receiver_entry sc_kid_of fst snd] in *.
    + destruct (resolve rsl (box_key_identifier c (derived_box_key c eph_sk pk) s)) as [key'|] eqn:E.
      * specialize (Hg0 key' eq_refl). discriminate.
      * destruct i as [|i]; [discriminate|]. cbn [nth_error] in Hi.
        apply (IH (s + 1) i key ident Hi Hres).
        intros j kid Hj. exact (Hgen (S j) kid Hj).
    + destruct (resolve rsl id) as [key'|] eqn:E.
      * specialize (Hg0 key' eq_refl). apply sc_Some_inj in Hg0.
        assert (k = key') by congruence. subst key'.
        rewrite (ok_sb c Hc), (sc_sym_key_ok pkey Hpk). reflexivity.
      * destruct i as [|i].
        { apply sc_Some_inj in Hi. assert (id = ident) by congruence. subst id. congruence. }
        cbn [nth_error] in Hi.
        apply (IH (s + 1) i key ident Hi Hres).
        intros j kid Hj. exact (Hgen (S j) kid Hj).
Qed.

Lemma sc_try_box_none d : forall rcvs s,
  (forall j kid, nth_error (map fst rcvs) j = Some kid ->
     box_key_identifier c d (s + N.of_nat j) <> kid) ->
  sc_try_box c [d] rcvs s = Ok None.
Proof.
  induction rcvs as [|[kid box] t IH]; intros s H; [reflexivity|].
  rewrite sc_try_box1_cons.
  rewrite sc_bytes_eqb_neq.
  - apply IH. intros j kid' Hj. replace (s + 1 + N.of_nat j) with (s + N.of_nat (S j)) by lia.
    apply H. exact Hj.
  - specialize (H 0%nat kid eq_refl). rewrite N.add_0_r in H. exact H.
Qed.

Lemma sc_try_sym_none rsl eph : forall rcvs s,
  (forall kid, In kid (map fst rcvs) -> resolve rsl kid = None) ->
  sc_try_sym c rsl eph rcvs s = Ok None.
Proof.
  induction rcvs as [|[kid box] t IH]; intros s H; [reflexivity|].
  rewrite sc_try_sym_cons, (H kid) by (left; reflexivity).
  apply IH. intros k Hk. apply H. right. exact Hk.
Qed.

(* ---------- processHeader on the header built by signcrypt_core ---------- *)

Definition sc_find (kr : keyring) (rv : resolver) (eph : bytes) (rcvs : list (bytes * bytes))
  : result (option bytes) :=
  bind (sc_try_box c (map (fun k => derived_box_key c (fst k) eph) (kr_keys kr)) rcvs 0) (fun b =>
  match b with
  | Some k => Ok (Some k)
  | None => match rv with
            | None => Ok None
            | Some rs => sc_try_sym c rs eph rcvs 0
            end
  end).

Definition sc_finish (signers : sigring) (sbox : bytes) (found : option bytes) : result (bytes * option bytes) :=
  match found with
  | None => Err ErrNoDecryptionKey
  | Some payload_key =>
    match sb_open c payload_key nonce_sender_key_sbox sbox with
    | None => Err ErrBadSenderKeySecretbox
    | Some sender =>
      if all_zero sender then Ok (payload_key, None)
      else match lookup_signer signers sender with
           | None => Err ErrNoSenderKey
           | Some pk => Ok (payload_key, Some pk)
           end
    end
  end.

Lemma sc_process_header_eq kr signers rv eph_sk sbox rcvs :
  process_sc_header c kr signers rv (mkHeader format_name v2 mt_signcryption (dh_pub c eph_sk) sbox rcvs) =
  bind (sc_find kr rv (dh_pub c eph_sk) rcvs) (sc_finish signers sbox).
Proof.
  unfold process_sc_header, validate_sc_header, sc_find, sc_finish.
  cbn [h_format h_type h_version h_a h_b h_rcvs].
  rewrite sc_bytes_eqb_refl, !Z.eqb_refl. cbn [negb bind].
  rewrite (ok_dh_pub_len c Hc), Nat.eqb_refl. cbn [negb].
  destruct (sc_try_box c _ rcvs 0) as [[k|]|e]; reflexivity.
Qed.

Lemma sc_sender_ok signer signers pkey :
  (forall s, signer = Some s -> In (ed_pub c s) signers /\ all_zero (ed_pub c s) = false) ->
  sc_finish signers (sc_sbox signer pkey) (Some pkey) = Ok (pkey, option_map (ed_pub c) signer).
Proof.
  intro H. unfold sc_finish, sc_sbox. rewrite (ok_sb c Hc).
  destruct signer as [s|]; cbn [sc_sender_pub option_map].
  - destruct (H s eq_refl) as [Hin Hz]. rewrite Hz. unfold lookup_signer.
    assert (E : existsb (bytes_eqb (ed_pub c s)) signers = true).
    { apply existsb_exists. exists (ed_pub c s). split; [exact Hin|apply sc_bytes_eqb_refl]. }
    rewrite E. reflexivity.
  - rewrite sc_all_zero_zeros. reflexivity.
Qed.

Lemma sc_decode_header_bytes signer eph_sk pkey rs :
  header_fits signer eph_sk pkey rs ->
  decode_header view_enc_header (sc_header_bytes signer eph_sk pkey rs) =
  Ok (mkHeader format_name v2 mt_signcryption (dh_pub c eph_sk) (sc_sbox signer pkey)
        (sc_rcvs (sc_entries eph_sk pkey 0 rs))).
Proof.
  intro Hf. unfold sc_header_bytes, sc_header_mval.
  apply sc_decode_header. apply sc_header_wf. exact Hf.
Qed.

Lemma sc_open_stream_eq signer eph_sk pkey rs (body : bytes) kr signers rv :
  header_fits signer eph_sk pkey rs ->
  signcrypt_open_stream c kr signers rv (mp_encode (MBin (sc_header_bytes signer eph_sk pkey rs)) ++ body) =
  bind (bind (sc_find kr rv (dh_pub c eph_sk) (sc_rcvs (sc_entries eph_sk pkey 0 rs)))
             (sc_finish signers (sc_sbox signer pkey)))
    (fun ks => Ok (snd ks, sc_open_loop c (S (length body)) (fst ks) (snd ks)
                             (sha512 c (sc_header_bytes signer eph_sk pkey rs)) 0 body [])).
Proof.
  intro Hf. unfold signcrypt_open_stream.
  rewrite sc_read_header_bytes by exact Hf. cbn [bind fst snd].
  rewrite sc_decode_header_bytes by exact Hf. cbn [bind].
  rewrite sc_process_header_eq. reflexivity.
Qed.

Lemma sc_open_found signer eph_sk pkey rs pieces out kr signers rv :
  header_fits signer eph_sk pkey rs ->
  signcrypt_core c signer eph_sk pkey rs pieces = Ok out ->
  (forall s, signer = Some s -> In (ed_pub c s) signers /\ all_zero (ed_pub c s) = false) ->
  sc_find kr rv (dh_pub c eph_sk) (sc_rcvs (sc_entries eph_sk pkey 0 rs)) = Ok (Some pkey) ->
  exists chunks,
      signcrypt_open_stream c kr signers rv out = Ok (option_map (ed_pub c) signer, mkOut chunks EOF) /\
      concat chunks = concat pieces /\
      signcrypt_open_all c kr signers rv out = Ok (option_map (ed_pub c) signer, concat pieces).
Proof.
  intros Hf Hcore Hsg Hfind.
  destruct (signcrypt_core_inv _ _ _ _ _ _ Hcore) as (body & Hp & ->).
  destruct (sc_loop_plan _ _ _ _ _ Hp) as (chunks & Hl & Hcat).
  exists chunks.
  assert (Hs : signcrypt_open_stream c kr signers rv
                 (mp_encode (MBin (sc_header_bytes signer eph_sk pkey rs)) ++ body) =
               Ok (option_map (ed_pub c) signer, mkOut chunks EOF)).
  { rewrite sc_open_stream_eq by exact Hf. rewrite Hfind. cbn [bind].
    rewrite (sc_sender_ok signer signers pkey Hsg). cbn [bind fst snd].
    rewrite Hl. reflexivity. }
  split; [exact Hs|]. split; [exact Hcat|].
  unfold signcrypt_open_all. rewrite Hs. cbn [bind fst snd so_end so_chunks].
  rewrite Hcat. reflexivity.
Qed.

Lemma sc_open_notfound signer eph_sk pkey rs pieces out kr signers rv :
  header_fits signer eph_sk pkey rs ->
  signcrypt_core c signer eph_sk pkey rs pieces = Ok out ->
  sc_find kr rv (dh_pub c eph_sk) (sc_rcvs (sc_entries eph_sk pkey 0 rs)) = Ok None ->
  signcrypt_open_stream c kr signers rv out = Err ErrNoDecryptionKey /\
  signcrypt_open_all c kr signers rv out = Err ErrNoDecryptionKey.
Proof.
  intros Hf Hcore Hfind.
  destruct (signcrypt_core_inv _ _ _ _ _ _ Hcore) as (body & Hp & ->).
  assert (Hs : signcrypt_open_stream c kr signers rv
                 (mp_encode (MBin (sc_header_bytes signer eph_sk pkey rs)) ++ body) =
               Err ErrNoDecryptionKey).
  { rewrite sc_open_stream_eq by exact Hf. rewrite Hfind. reflexivity. }
  split; [exact Hs|]. unfold signcrypt_open_all. rewrite Hs. reflexivity.
Qed.

(* ---------- the C03 statements ---------- *)

(* an identifier at another position equals the HMAC-derived box identifier of the
   opener's key at that position: an HMAC-SHA512 collision, or an application-chosen
   symmetric-key identifier crafted to collide.  Not excluded by [crypto_ok]. *)
Definition IdentifierCollision (eph_sk pkey : bytes) (rs : list sc_rcpt) (sk : bytes) (i : nat) : Prop :=
  exists j kid, j <> i /\ nth_error (sc_header_kids eph_sk pkey rs) j = Some kid /\
    box_key_identifier c (derived_box_key c sk (dh_pub c eph_sk)) (N.of_nat j) = kid.

(* (TARGET) C03, box-key recipients: the holder of the box secret key at any
   position recovers the plaintext and the signer (None for an anonymous sender).
   Extra hypothesis w.r.t. the first draft of this statement: [header_fits]. *)
Lemma signcrypt_core_open_box (signer : option bytes) (eph_sk pkey : bytes) (rs : list sc_rcpt)
      (pieces : list bytes) (out : bytes) (sk : bytes) (i : nat) (signers : sigring) (rv : resolver) :
  length pkey = 32%nat -> N.of_nat (length rs) < 4294967296 ->
  header_fits signer eph_sk pkey rs ->                                  (* EXTRA *)
  signcrypt_core c signer eph_sk pkey rs pieces = Ok out ->
  nth_error rs i = Some (BoxRcpt (dh_pub c sk)) ->
  (forall s, signer = Some s -> In (ed_pub c s) signers /\ all_zero (ed_pub c s) = false) ->
  let kr := mkRing [(sk, dh_pub c sk)] None in
  (exists chunks,
      signcrypt_open_stream c kr signers rv out = Ok (option_map (ed_pub c) signer, mkOut chunks EOF) /\
      concat chunks = concat pieces /\
      signcrypt_open_all c kr signers rv out = Ok (option_map (ed_pub c) signer, concat pieces))
  \/ IdentifierCollision eph_sk pkey rs sk i.
Proof.
  intros Hpk _ Hf Hcore Hi Hsg kr.
  destruct (sc_try_box_found eph_sk pkey sk Hpk rs 0 i Hi) as [Hfound|(j & kid & Hj & Hn & Hk)].
  - left. apply (sc_open_found signer eph_sk pkey rs pieces out kr signers rv Hf Hcore Hsg).
    unfold sc_find, kr. cbn [kr_keys map fst]. rewrite Hfound. reflexivity.
  - right. exists j, kid. split; [lia|]. split; [exact Hn|].
    rewrite N.add_0_l in Hk. exact Hk.
Qed.

(* a resolver that only knows genuine (identifier, key) pairs of this message *)
Definition resolver_genuine (rsl : list (bytes * bytes)) (eph_sk pkey : bytes) (rs : list sc_rcpt) : Prop :=
  forall j kid, nth_error (sc_header_kids eph_sk pkey rs) j = Some kid ->
    forall key, resolve rsl kid = Some key -> nth_error rs j = Some (SymRcpt key kid).

(* (TARGET) C03, symmetric-key recipients: a holder of no box key whose resolver
   resolves any subset of the identifiers containing at least one, each to its
   genuine key, recovers the plaintext and the signer.
   Extra hypothesis w.r.t. the first draft of this statement: [header_fits]. *)
Lemma signcrypt_core_open_sym (signer : option bytes) (eph_sk pkey : bytes) (rs : list sc_rcpt)
      (pieces : list bytes) (out : bytes) (rsl : list (bytes * bytes)) (i : nat) (key ident : bytes)
      (signers : sigring) :
  length pkey = 32%nat -> N.of_nat (length rs) < 4294967296 ->
  header_fits signer eph_sk pkey rs ->                                  (* EXTRA *)
  signcrypt_core c signer eph_sk pkey rs pieces = Ok out ->
  nth_error rs i = Some (SymRcpt key ident) -> resolve rsl ident = Some key ->
  resolver_genuine rsl eph_sk pkey rs ->
  (forall s, signer = Some s -> In (ed_pub c s) signers /\ all_zero (ed_pub c s) = false) ->
  let kr := mkRing [] None in
  exists chunks,
      signcrypt_open_stream c kr signers (Some rsl) out = Ok (option_map (ed_pub c) signer, mkOut chunks EOF) /\
      concat chunks = concat pieces /\
      signcrypt_open_all c kr signers (Some rsl) out = Ok (option_map (ed_pub c) signer, concat pieces).
Proof.
  intros Hpk _ Hf Hcore Hi Hres Hgen Hsg kr.
  apply (sc_open_found signer eph_sk pkey rs pieces out kr signers (Some rsl) Hf Hcore Hsg).
  unfold sc_find, kr. cbn [kr_keys map]. rewrite sc_try_box_nil. cbn [bind].
  apply (sc_try_sym_found rsl eph_sk pkey Hpk rs 0 i key ident Hi Hres).
  exact Hgen.
Qed.

(* (TARGET) C03: holders of no recipient key (a box key that is not a recipient's,
   and a resolver that resolves none of the identifiers) get ErrNoDecryptionKey.
   Extra hypothesis w.r.t. the first draft of this statement: [header_fits]. *)
Lemma signcrypt_core_open_stranger (signer : option bytes) (eph_sk pkey : bytes) (rs : list sc_rcpt)
      (pieces : list bytes) (out : bytes) (sk : bytes) (rsl : list (bytes * bytes)) (signers : sigring) :
  N.of_nat (length rs) < 4294967296 ->
  header_fits signer eph_sk pkey rs ->                                  (* EXTRA *)
  signcrypt_core c signer eph_sk pkey rs pieces = Ok out ->
  (forall kid, In kid (sc_header_kids eph_sk pkey rs) -> resolve rsl kid = None) ->
  (forall j kid, nth_error (sc_header_kids eph_sk pkey rs) j = Some kid ->
     box_key_identifier c (derived_box_key c sk (dh_pub c eph_sk)) (N.of_nat j) <> kid) ->
  let kr := mkRing [(sk, dh_pub c sk)] None in
  signcrypt_open_stream c kr signers (Some rsl) out = Err ErrNoDecryptionKey /\
  signcrypt_open_all c kr signers (Some rsl) out = Err ErrNoDecryptionKey.
Proof.
  intros _ Hf Hcore Hres Hbox kr.
  apply (sc_open_notfound signer eph_sk pkey rs pieces out kr signers (Some rsl) Hf Hcore).
  unfold sc_find, kr. cbn [kr_keys map fst].
  rewrite sc_try_box_none.
  - cbn [bind]. apply sc_try_sym_none. rewrite sc_rcvs_fst. exact Hres.
  - rewrite sc_rcvs_fst. intros j kid Hj. rewrite N.add_0_l. apply Hbox. exact Hj.
Qed.

(* ---------- a simple sufficient condition for [header_fits] ---------- *)

Lemma sc_enc_bin_hdr_le n : (length (enc_bin_hdr n) <= 5)%nat.
Proof.
  unfold enc_bin_hdr. destruct (n <? 256); [cbn [length]; lia|].
  destruct (n <? 65536); cbn [length]; unfold be16, be32; rewrite mp_be_bytes_length; lia.
Qed.

Lemma sc_enc_arr_hdr_le n : (length (enc_arr_hdr n) <= 5)%nat.
Proof.
  unfold enc_arr_hdr. destruct (n <? 16); [cbn [length]; lia|].
  destruct (n <? 65536); cbn [length]; unfold be16, be32; rewrite mp_be_bytes_length; lia.
Qed.

Lemma sc_enc_bin_le (b : bytes) : (length (mp_encode (MBin b)) <= 5 + length b)%nat.
Proof. cbn [mp_encode]. rewrite app_length. pose proof (sc_enc_bin_hdr_le (len b)). lia. Qed.

Lemma sc_box_key_identifier_length d s : length (box_key_identifier c d s) = 32%nat.
Proof. unfold box_key_identifier. rewrite firstn_length, (ok_hmac_len c Hc). reflexivity. Qed.

Lemma sc_entries_enc_le eph_sk pkey (m : nat) : length pkey = 32%nat -> (32 <= m)%nat ->
  forall rs s,
  (forall key ident, In (SymRcpt key ident) rs -> (length ident <= m)%nat) ->
  (length (enc_list (map mv_receiver (sc_entries eph_sk pkey s rs))) <= length rs * (m + 63))%nat.
Proof.
  intros Hpk Hm. induction rs as [|r rs IH]; intros s Hid; [cbn; lia|].
  rewrite sc_entries_cons. cbn [map enc_list length]. rewrite app_length, Nat.mul_succ_l.
  specialize (IH (s + 1) (fun key ident H => Hid key ident (or_intror H))).
  assert (Hr : (length (mp_encode (mv_receiver (sc_receiver_entry c eph_sk (dh_pub c eph_sk) pkey s r)))
                <= m + 63)%nat).
  { unfold mv_receiver. rewrite mp_encode_arr. cbn [enc_list length]. rewrite !app_length.
    pose proof (sc_enc_arr_hdr_le (N.of_nat 2)) as H0. cbn [length]. rewrite Nat.add_0_r.
    destruct r as [pk|key ident]; cbn [sc_receiver_entry fst snd].
    - pose proof (sc_enc_bin_le (box_key_identifier c (derived_box_key c eph_sk pk) s)) as H1.
      rewrite sc_box_key_identifier_length in H1.
      pose proof (sc_enc_bin_le (sb_seal c (derived_box_key c eph_sk pk) (nonce_payload_key_box_v2 s) pkey)) as H2.
      rewrite (ok_sb_len c Hc), Hpk in H2. lia.
    - pose proof (sc_enc_bin_le ident) as H1.
      pose proof (Hid key ident (or_introl eq_refl)) as H3.
      pose proof (sc_enc_bin_le (sb_seal c (derived_sym_key c (dh_pub c eph_sk) key) (nonce_payload_key_box_v2 s) pkey)) as H2.
      rewrite (ok_sb_len c Hc), Hpk in H2. lia. }
  lia.
Qed.

(* [header_fits] holds e.g. for at most 10^6 recipients whose symmetric-key
   identifiers have at most 4000 bytes (m = 4000) *)
Lemma header_fits_bound signer eph_sk pkey rs (m : nat) :
  length pkey = 32%nat -> (32 <= m)%nat ->
  (forall key ident, In (SymRcpt key ident) rs -> (length ident <= m)%nat) ->
  N.of_nat (length rs) * (N.of_nat m + 63) + 113 < 4294967296 ->
  header_fits signer eph_sk pkey rs.
Proof.
  intros Hpk Hm Hid Hb.
  pose proof (sc_entries_enc_le eph_sk pkey m Hpk Hm rs 0 Hid) as He.
  unfold header_fits, sc_header_bytes, sc_header_mval, mv_enc_header, len.
  rewrite mp_encode_arr. cbn [enc_list]. rewrite !app_length.
  rewrite (mp_encode_arr (map mv_receiver _)), app_length.
  pose proof (sc_enc_arr_hdr_le (N.of_nat (length [MStr format_name; mv_version v2; MInt mt_signcryption;
      MBin (dh_pub c eph_sk); MBin (sc_sbox signer pkey);
      MArr (map mv_receiver (sc_entries eph_sk pkey 0 rs))]))) as H0.
  pose proof (sc_enc_arr_hdr_le (N.of_nat (length (map mv_receiver (sc_entries eph_sk pkey 0 rs))))) as H5.
  assert (H1 : length (mp_encode (MStr format_name)) = 9%nat) by reflexivity.
  assert (H2 : length (mp_encode (mv_version v2)) = 3%nat) by reflexivity.
  assert (H3 : length (mp_encode (MInt mt_signcryption)) = 1%nat) by reflexivity.
  pose proof (sc_enc_bin_le (dh_pub c eph_sk)) as H4. rewrite (ok_dh_pub_len c Hc) in H4.
  pose proof (sc_enc_bin_le (sc_sbox signer pkey)) as H6.
  unfold sc_sbox in H6 at 2. rewrite (ok_sb_len c Hc) in H6.
  assert (H7 : length (sc_sender_pub signer) = 32%nat).
  { destruct signer; cbn [sc_sender_pub]; [apply (ok_ed_pub_len c Hc)|apply sc_zeros_length]. }
  rewrite H7 in H6. cbn [length] in *. lia.
Qed.

(* (TARGET) the top-level sender: checks, draws (shuffle, ephemeral secret, payload key), core *)
Lemma signcrypt_seal_stream_core (signer : option bytes) (boxes : list bytes) (syms : list (bytes * bytes))
      (pieces : list bytes) (r r' : rng) (out : bytes) :
  signcrypt_seal_stream c signer boxes syms pieces r = Ok (out, r') ->
  let all := map BoxRcpt boxes ++ map (fun s => SymRcpt (fst s) (snd s)) syms in
  all <> [] /\ N.of_nat (length all) < 4294967296 /\
  exists rs r1 eph_sk pkey,
    shuffle all r = Some (rs, r1) /\ Permutation all rs /\
    eph_sk = firstn 32 r1 /\ pkey = firstn 32 (skipn 32 r1) /\ r' = skipn 64 r1 /\
    (64 <= length r1)%nat /\
    signcrypt_core c signer eph_sk pkey rs pieces = Ok out.
Proof.
  intros H all. unfold signcrypt_seal_stream in H.
  destruct (sc_check_receivers boxes syms) as [[]|e] eqn:Ec; cbn [bind] in H; [|discriminate].
  apply sc_check_receivers_inv in Ec as [Hn Hm].
  fold all in H.
  assert (Hlen : length all = (length boxes + length syms)%nat).
  { unfold all. rewrite app_length, !map_length. reflexivity. }
  split; [|split].
  - intro E. rewrite E in Hlen. cbn in Hlen. lia.
  - rewrite Hlen. lia.
  - destruct (shuffle all r) as [[rs r1]|] eqn:Es; [|discriminate].
    destruct (read_full 32 r1) as [[eph_sk r2]|] eqn:E1; [|discriminate].
    destruct (read_full 32 r2) as [[pkey r3]|] eqn:E2; [|discriminate].
    destruct (signcrypt_core c signer eph_sk pkey rs pieces) as [o|e] eqn:E3; cbn [bind] in H; [|discriminate].
    apply sc_Ok_inj in H. apply pair_equal_spec in H as [-> ->].
    apply sc_read_full_inv in E1 as (L1 & -> & ->).
    apply sc_read_full_inv in E2 as (L2 & -> & ->).
    rewrite skipn_length in L2.
    exists rs, r1, (firstn 32 r1), (firstn 32 (skipn 32 r1)).
    split; [reflexivity|]. split.
    { destruct (shuffle_is_fisher_yates all rs r r1) as (js & _ & ->).
      - unfold two32. rewrite Hlen. lia.
      - exact Es.
      - apply fisher_yates_perm. }
    split; [reflexivity|]. split; [reflexivity|].
    split; [apply (sc_skipn_skipn 32 32)|]. split; [lia|exact E3].
Qed.

(* (TARGET) C13: independence of the Write splits *)
Lemma signcrypt_stream_oneshot (signer : option bytes) boxes syms (pieces : list bytes) (r : rng) :
  signcrypt_seal_stream c signer boxes syms pieces r =
  signcrypt_seal_stream c signer boxes syms [concat pieces] r.
Proof.
  assert (Hcore : forall eph_sk pkey rs,
            signcrypt_core c signer eph_sk pkey rs pieces =
            signcrypt_core c signer eph_sk pkey rs [concat pieces]).
  { intros eph_sk pkey rs. rewrite !signcrypt_core_eq.
    rewrite !(cw_session_plan v2 enc_block_size) by exact sc_ebs_pos.
    cbn [concat]. rewrite app_nil_r. reflexivity. }
  unfold signcrypt_seal_stream.
  destruct (sc_check_receivers boxes syms) as [u|e]; cbn [bind]; [|reflexivity].
  destruct (shuffle _ r) as [[rs r1]|]; [|reflexivity].
  destruct (read_full 32 r1) as [[eph_sk r2]|]; [|reflexivity].
  destruct (read_full 32 r2) as [[pkey r3]|]; [|reflexivity].
  rewrite Hcore. reflexivity.
Qed.

End RT.

(* (TARGET) C18: fail closed *)
Lemma signcrypt_rng_fail (c : crypto) signer boxes syms pieces (r : rng) :
  sc_check_receivers boxes syms = Ok tt ->
  let all := map BoxRcpt boxes ++ map (fun s => SymRcpt (fst s) (snd s)) syms in
  (shuffle all r = None \/
   (exists rs r1, shuffle all r = Some (rs, r1) /\ (length r1 < 64)%nat)) ->
  signcrypt_seal_stream c signer boxes syms pieces r = Err ErrRand.
Proof.
  intros Hck all H. unfold signcrypt_seal_stream. rewrite Hck. cbn [bind]. fold all.
  destruct H as [H|(rs & r1 & H & Hl)]; rewrite H; [reflexivity|].
  destruct (Nat.le_gt_cases 32 (length r1)) as [H32|H32].
  - rewrite (sc_read_full_some 32 r1 H32).
    rewrite sc_read_full_none; [reflexivity|]. rewrite skipn_length. lia.
  - rewrite sc_read_full_none by lia. reflexivity.
Qed.
