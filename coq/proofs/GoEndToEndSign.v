(* GoEndToEndSign.v -- END-TO-END round trips of the SIGNATURE modes AT THE LEVEL OF THE TRANSLATED GO CODE
   (properties C05: attached signatures, C07: detached signatures).

   Three proved layers are composed: (S) the source ties of the signing senders (GoAstProofs6a.v: the translated
   newSignAttachedStream / signAttachedStream.Write / .Close, newSignDetachedStream / signDetachedStream.Write / .Close
   of /repo/sign_stream.go compute sas_new / sas_write / sas_close / sds_new ..., and those, on the in-memory writer
   mem_enc, write the bytes of the model's sign_attached_stream / sign_detached); (M) the model round trips of
   SignProofs.v (sign_verify_roundtrip, sign_verify_loop, detached_roundtrip, the mode gate, the unknown signer);
   (R) the source ties of the receivers (GoAstProofs7c.v: go_Verify, go_NewVerifyStream, go_VerifyDetached,
   go_VerifyDetachedReader; GoAstProofs4b.v: go_verify_getNextChunk).  The statements below mention ONLY terms generated
   from /repo on this run (gen/GoAstSign.v, GoAstOpen.v, GoAstRecv.v), the evaluator run_func2 / run_func2_at, the extern
   tables and encodings of the files above, and the inputs: the model is the bridge in the proofs, not in the
   statements (except where a conjunct says so on purpose).

   BRIDGING DEFINITIONS (this file)
   - go_sign_session c F v sk pieces r : option bytes -- the attached signer RUN AS GO CODE on the empty in-memory
     writer: run_func2 (ext_new c mem_enc r) f_saltpack_newSignAttachedStream [version; VBytes []; key] must return
     (obj, nil); the stream object is sas_complete obj (GoAstProofs6a: the composite literal omits the bytes.Buffer
     field, sas_complete adds the empty buffer); then for each piece p in order
     run_func2_at (F+3) (ext_stream c mem_enc) f_saltpack_signAttachedStream_Write [object; VBytes p] must return
     (len p, nil) and the next object is what the evaluator left in the receiver variable "s" (go_sas_writes); then
     run_func2 (ext_stream c mem_enc) f_saltpack_signAttachedStream_Close [object] must return nil, and the result is
     the byte string held by the "encoder" field of the receiver left by Close = the bytes in the writer
     (go_sas_finish).  None if any step does anything else.  r is the stream the process-wide randomness source
     delivers (extern table ext_new ... r); F is the number of turns the EVALUATOR gives the loop of Write
     (F = 297 is run_func2 itself: run_func2_at 300, GoAstProofs4c.run_func2_at_300; go_sas_writes_297 restates the
     Write step at F = 297 with run_func2).
   - go_signdet_session c v sk pieces r : option bytes -- the detached signer run as Go code: the constructor
     f_saltpack_newSignDetachedStream on the empty in-memory writer, f_saltpack_signDetachedStream_Write per piece
     (must return (len p, nil); next object = receiver variable "s") (go_sds_open), then
     f_saltpack_signDetachedStream_Close.  GoAstProofs6a's LIMIT applies: `return s.encoder.Encode(signature)` cannot
     write the encoder back in the evaluator, so the bytes Close writes are not in the receiver afterwards.  They are
     read off instead: Close under the in-memory writer (ext_det_close c mem_enc) must return nil, Close under the
     encoder spy_enc (which reports the packet it is handed, in its error value) yields the packet pkt, and the
     session's result is w ++ pkt, w the bytes the "encoder" field holds before Close.  go_signdet_session_model
     shows this reading does not depend on the spy: for EVERY encoder step function es, Close returns
     g_errv (snd (es (VBytes w) pkt)) for that same w and pkt.
   - go_vs_drain c k obj [] -- the streaming receiver packet by packet: f_saltpack_verifyStream_getNextChunk run on
     the verifyStream object again and again (next object = receiver variable "v") until it returns a non-nil error,
     at most k calls: the chunks returned, in order, and that error.  This is what chunkReader.Read does with its
     chunker (chunk_reader.go).
   - vs_recode -- the verifyStream object NewVerifyStream builds (GoAstProofs7c.g_vs_key: publicKey holds the key
     OBJECT) in the encoding GoAstProofs4b's getNextChunk tie uses (g_vs: publicKey holds the key's BYTES, headerHash
     listed before header).  An encoding convention that differs between the two files, not a property of the code.

   HYPOTHESES used below, with their origin
     (Hc)   crypto_ok c: SHA-512 / Ed25519 functional correctness (SignProofs; trusted base).
     (HF)   5 <= F: go_signAttachedStream_Write's hypothesis on the evaluator's fuel.
     (Hv)   v = v1 \/ v = v2: the versions the sender accepts (checkKnownVersion).
     (Hr)   16 <= length r: the randomness source delivers the 16-byte nonce; with (Hv) this IS "the model's sender
            returns Ok" (go_sign_Verify_end_to_end_model takes that form instead).
     (Hin)  In (ed_pub c sk) kr: the keyring holds the signer's public key.
     (Hvd)  good_validator vd v: the validator is CheckKnownMajorVersion or SingleVersionValidator(v).
     (Hps)  every piece p has len p + 1048576 < F * 1048576 (for F = 297: pieces shorter than 296 MiB; the number of
            pieces and the total length are NOT bounded by this): one Write flushes fewer than F blocks (sas_write_model:
            a bound on the EVALUATOR's loop fuel, not on the Go code).
     (Hlen) len (concat pieces) < 2^64: fewer than 2^64 - 2 packets (s.seqno is a uint64; sas_session_gen's bound),
            also n < 2^64 in go_verify_getNextChunk.
   "The outcome is not the stuck evaluator" (verify_outcome_model's hypothesis) is NOT assumed anywhere: the receivers'
   outcome VALUES are derived from the success of the model (verify_outcome_ok, vdet_outcome_ok), which is stronger
   than the class statement of the *_outcome_model lemmas.  The detached theorems have no evaluator bound at all.

   TARGETS (each marked (TARGET); all Qed; Print Assumptions at the end: closed under the global context)
   ATTACHED (C05)
   1. go_sign_Verify_end_to_end.  Hyp: Hc HF Hv Hr Hin Hvd Hps Hlen.  For every crypto record, fuel F, version, signing
      key, split of the plaintext into Write calls, randomness stream, keyring, validator and opaque validator / keyring
      objects VV, KR: the Go sender session returns bytes out (go_sign_session = Some out), and the translated Verify
      run on out returns exactly (the signer's public key object, concat pieces, nil):
        fst (run_func2 (ext_verify c vd kr) f_saltpack_Verify [VV; VBytes out; KR])
        = ORet [g_spk (ed_pub c sk); VBytes (concat pieces); VNil].
   2. go_sign_Verify_end_to_end_model.  The same with "sign_attached_stream c v sk pieces r = Ok (out, r')" in place
      of Hv, Hr, and the conclusion about THAT out (so: the Go session's bytes are the model sender's).
   3. go_sign_NewVerifyStream_end_to_end.  Same hypotheses as 1.  The translated NewVerifyStream, on any error-free
      reader rd over out (rdr_bytes rd = Some out), returns (signer's key object, chunk reader over the verifyStream
      object g_vs_key h hh key (stream at rest, counter 1), nil), where (h, hh, rest) is the model's header stage on
      out, and the model's verify_loop from that state releases chunks whose concatenation is concat pieces and ends
      with io.EOF.  (The loop here is the model's; 4 states it for the Go code.)
   4. go_sign_stream_end_to_end.  Same hypotheses.  The streaming receiver as Go code: NewVerifyStream as in 3 returns
      (key object, rdobj, nil); the "chunker" field of rdobj, recoded by vs_recode, drained by the translated
      getNextChunk (go_vs_drain) yields (chunks, io.EOF) with concat chunks = concat pieces; and these key / chunks /
      io.EOF are exactly the results the extern "NewVerifyStream" of ext_verify (the table Verify is run with in 1)
      returns on a reader over out -- so on the sender's bytes the meaning GoAstProofs7c gives that call inside
      Verify is what the translated constructor and per-packet code compute.
   5. go_sign_Verify_unknown_signer.  Hyp as 1 with ~ In (ed_pub c sk) kr instead of Hin: Verify returns
      (nil, nil, ErrNoSenderKey) (the class name; 7c's g_herr drops the arguments of header-stage errors).
   6. go_sign_refused_by_VerifyDetached.  Hyp: Hc HF Hv Hr Hvd Hps Hlen (any keyring, any message msg): the attached
      signer's bytes are refused by the translated VerifyDetached and VerifyDetachedReader with ErrWrongMessageType.
   DETACHED (C07)
   7. go_signDetached_Verify_end_to_end.  Hyp: Hc Hv Hr Hin Hvd (no bound).  The Go detached session returns a
      signature file sigfile (go_signdet_session = Some sigfile), and both translated entry points accept it for the
      message concat pieces with the signer's key:
        fst (run_func2 (ext_vdet2 c vd kr) f_saltpack_VerifyDetached [VV; VBytes (concat pieces); VBytes sigfile; KR])
        = ORet [g_spk (ed_pub c sk); VNil], and the same for
        run_func2 (ext_vdet c vd kr) f_saltpack_VerifyDetachedReader [VV; g_rdr (concat pieces) None; VBytes sigfile; KR]
      (the message reader delivers concat pieces, then io.EOF).
   8. go_signdet_session_model (bridge, also a TARGET).  Hyp: sign_detached c v sk (concat pieces) r = Ok (outb, r').
      The Go constructor and Writes reach an object obj whose encoder holds w, outb = w ++ pkt, for EVERY encoder
      step function es Close returns g_errv (snd (es (VBytes w) pkt)), and go_signdet_session = Some outb.
   9. go_signDetached_unknown_signer.  Hyp: Hc Hv Hr, ~ In (ed_pub c sk) kr, Hvd: both detached entry points return
      (nil, ErrNoSenderKey{the signer's public key}).
   10. go_signDetached_refused_by_Verify.  Hyp: Hc Hv Hr Hvd (any keyring): the signature file is refused by the
      translated Verify and NewVerifyStream with (nil, nil, ErrWrongMessageType).
   Supporting lemmas of independent use: go_sas_finish_model / go_sign_session_model (the Go session = the model's
   bytes under Hps and the packet-count bound; finer than GoAstProofs6a.sas_session_model, whose bound is on the TOTAL
   number of packets < F), go_vs_drain_loop (the model's verify_loop ending with any error Go has a value for = the
   iterated translated getNextChunk), packets_bound, pieces_bound, cw_write_count, plan_count.

   GAPS THAT REMAIN (precisely)
   - The in-memory writer: the sender theorems are about mem_enc started empty (the model-side ties of 6a are); the
     Go-side ties hold for every encoder step function, but the round trip needs the bytes.
   - Verify (1, 2, 5, 10): inside Verify the calls NewVerifyStream and io.ReadAll are externs with the model's meaning
     (GoAstProofs7c LIMIT 4).  4 closes this for the sender's bytes as far as the evaluator can observe: constructor
     and getNextChunk are run as Go code and agree with the extern.  What stays outside: chunkReader.Read's copy of
     each chunk into the caller's buffer (GoAstProofs4c LIMIT: the evaluator cannot observe writes through a slice
     expression) and io.ReadAll itself (library).
   - getNextChunk is run under GoAstProofs4b.ext_chunk (processBlock, readSignatureBlock, checkDecodedChunkState,
     assertEndOfStream = the model's functions, each with its own tie in 2 / 4b / 7c) and on the 4b ENCODING of the
     object (vs_recode above).
   - Detached Close: see go_signdet_session above (encoder state after Close not expressible in the evaluator).
   - The readers handed to the receivers are error-free readers over given bytes (7c LIMIT 1).

   The section Examples evaluates sender and receiver terms with vm_compute on model/ToyCrypto.v's toy_crypto
   (two Writes "he" + "llo", V1 and V2) and instantiates theorems 1 and 7 with every hypothesis discharged. *)
From Coq Require Import List String NArith ZArith Bool Lia.
From Coq.Strings Require Import Byte.
From SP Require Import Bytes Consts Params Msgpack Crypto Errors Nonce Packets Chunker Rand Sign Verify
                       GoLang GoLang2 GoAst GoAstProofs GoAstProofs2 GoAstProofs3 GoAstProofs4a GoAstProofs4b
                       GoAstProofs4c GoAstProofs5a.
From SP Require Import GoAstRecv GoAstSign GoAstOpen ChunkerProofs SignProofs GoAstProofs7c.
From SP Require Import GoAstProofs6a.
Import ListNotations.
Local Open Scope string_scope.

(* a field of a Go struct value *)
Definition go_field (f : string) (obj : gval) : option gval :=
  match obj with VStruct fs => lookup f fs | _ => None end.

Lemma ok_pair_fst {A B : Type} (a b : A) (x y : B) : Ok (a, x) = Ok (b, y) -> b = a.
Proof. intros H. injection H as <- <-. reflexivity. Qed.

Section GoSession.
Variable c : crypto.

(* ================= the attached signer, run as Go code ================= *)
(* s.Write(p1); ...; s.Write(pn) *)
Fixpoint go_sas_writes (F : nat) (obj : gval) (pieces : list bytes) : option gval :=
  match pieces with
  | [] => Some obj
  | p :: t =>
    let r := run_func2_at (S (S (S F))) (ext_stream c mem_enc) f_saltpack_signAttachedStream_Write [obj; VBytes p] in
    match fst r, lookup "s" (snd r) with
    | ORet [VInt n; VNil], Some obj' =>
      if (n =? Z.of_nat (List.length p))%Z then go_sas_writes F obj' t else None
    | _, _ => None
    end
  end.


(* at F = 297 the Write step is run_func2 itself (its fuel is 300) *)
Lemma go_sas_writes_297 (obj : gval) (p : bytes) (t : list bytes) :
  go_sas_writes 297 obj (p :: t)
  = let r := run_func2 (ext_stream c mem_enc) f_saltpack_signAttachedStream_Write [obj; VBytes p] in
    match fst r, lookup "s" (snd r) with
    | ORet [VInt n; VNil], Some obj' => if (n =? Z.of_nat (List.length p))%Z then go_sas_writes 297 obj' t else None
    | _, _ => None
    end.
Proof.
  cbn [go_sas_writes].
  set (a := run_func2_at _ _ _ _). set (b := run_func2 _ _ _).
  assert (Hab : a = b) by (unfold a, b; symmetry; apply run_func2_at_300).
  clearbody a b. subst a. reflexivity.
Qed.

(* the Writes, then s.Close(); the bytes the in-memory writer holds afterwards *)
Definition go_sas_finish (F : nat) (obj : gval) (pieces : list bytes) : option bytes :=
  match go_sas_writes F obj pieces with
  | Some obj1 =>
    let rc := run_func2 (ext_stream c mem_enc) f_saltpack_signAttachedStream_Close [obj1] in
    match fst rc, lookup "s" (snd rc) with
    | ORet [VNil], Some obj2 => match go_field "encoder" obj2 with Some (VBytes out) => Some out | _ => None end
    | _, _ => None
    end
  | None => None
  end.

Definition go_sign_session (F : nat) (v : version) (sk : bytes) (pieces : list bytes) (r : rng) : option bytes :=
  match fst (run_func2 (ext_new c mem_enc r) f_saltpack_newSignAttachedStream [g_version v; VBytes []; g_signer (Some sk)]) with
  | ORet [obj; VNil] => go_sas_finish F (sas_complete obj) pieces
  | _ => None
  end.

Lemma concat_full_length (B : nat) (l : list bytes) :
  Forall (fun x : bytes => List.length x = B) l -> List.length (List.concat l) = (List.length l * B)%nat.
Proof.
  induction 1 as [|x l Hx Hl IH]; [reflexivity|]. cbn [List.concat List.length]. rewrite app_length, IH, Hx. lia.
Qed.

Lemma cw_write_count (F : nat) (buf p : bytes) :
  (List.length buf <= blk)%nat -> (List.length p + blk < F * blk)%nat ->
  (List.length (fst (cw_write blk buf p)) < F)%nat.
Proof.
  intros Hb Hp.
  destruct (cw_write_conserves blk buf p blk_pos) as [Hc Hf].
  pose proof (concat_full_length blk _ Hf) as Hlen.
  apply (f_equal (@List.length byte)) in Hc. rewrite !app_length, Hlen in Hc.
  assert (H : (List.length (fst (cw_write blk buf p)) * blk < F * blk)%nat) by lia.
  apply Nat.mul_lt_mono_pos_r in H; [exact H|exact blk_pos].
Qed.

Lemma go_field_encoder (st : sas_state) : go_field "encoder" (g_sas st) = Some (sas_enc st).
Proof. reflexivity. Qed.

Lemma go_sas_finish_model (F : nat) (pieces : list bytes) : (5 <= F)%nat -> forall (st : sas_state) (out body : bytes),
  known_version (sas_v st) = true -> sas_enc st = VBytes out -> (List.length (sas_buf st) <= blk)%nat ->
  Forall (fun p : bytes => (List.length p + blk < F * blk)%nat) pieces ->
  let pk := cw_session (sas_v st) blk (sas_buf st) pieces in
  (sas_seq st + N.of_nat (List.length pk) + 2 < two64)%N ->
  sign_packets c (sas_v st) (sas_sk st) (sas_hh st) (sas_seq st) pk = Ok body ->
  go_sas_finish F (g_sas st) pieces = Some (out ++ body)%list.
Proof.
  intros HF5. induction pieces as [|p t IH]; intros st out body Hk He Hl Hps; cbv zeta; cbn [cw_session].
  - intros Hn Hs. unfold go_sas_finish. cbn [go_sas_writes].
    pose proof (sas_close_model c st out Hk He Hl ltac:(clear - Hn; lia)) as Hc. cbv zeta in Hc.
    rewrite Hs in Hc.
    pose proof (go_signAttachedStream_Close c mem_enc st) as Hgo. cbv zeta in Hgo. rewrite Hc in Hgo.
    destruct Hgo as [Hg1 Hg2]. cbv zeta. rewrite Hg1, Hg2. cbn [g_errv]. rewrite go_field_encoder. reflexivity.
  - pose proof (sas_write_model c st out p F Hk He) as Hw. cbv zeta in Hw.
    pose proof (cw_write_bounded blk (sas_buf st) p blk_pos) as Hbd.
    pose proof (cw_write_count F (sas_buf st) p Hl (Forall_inv Hps)) as Hcnt.
    destruct (cw_write blk (sas_buf st) p) as [blocks buf'] eqn:Ew. cbn [fst snd] in Hw, Hbd, Hcnt.
    rewrite app_length, map_length. intros Hn Hs.
    rewrite sign_packets_app in Hs. rewrite map_length in Hs.
    apply bind_ok in Hs. destruct Hs as (b1 & Hs1 & Hs).
    apply bind_ok in Hs. destruct Hs as (b2 & Hs2 & Hs). injection Hs as <-.
    destruct (Hw Hcnt ltac:(clear - Hn; lia)) as (body1 & Hb1 & Hwr).
    unfold nonfinal6 in Hb1. rewrite Hs1 in Hb1. injection Hb1 as <-.
    pose proof (go_signAttachedStream_Write c mem_enc F st p HF5) as Hgo. cbv zeta in Hgo. rewrite Hwr in Hgo.
    destruct Hgo as [Hg1 Hg2].
    unfold go_sas_finish. cbn [go_sas_writes]. cbv zeta. rewrite Hg1, Hg2. cbn [g_errv]. rewrite Z.eqb_refl.
    destruct st as [v hh w sk buf n]. cbn [sas_v sas_hh sas_enc sas_sk sas_buf sas_seq] in *.
    pose proof (IH (mkSas v hh (VBytes (out ++ b1)%list) sk buf' (n + N.of_nat (List.length blocks))) (out ++ b1)%list b2 Hk eq_refl Hbd
                 (Forall_inv_tail Hps) ltac:(cbn [sas_v sas_buf sas_seq]; clear - Hn; lia) Hs2) as Hfin.
    unfold go_sas_finish in Hfin. rewrite Hfin. rewrite <- app_assoc. reflexivity.
Qed.

(* (TARGET) the Go-side session emits the model signer's bytes *)
Lemma go_sign_session_model (F : nat) (v : version) (sk : bytes) (pieces : list bytes) (r r' : rng) (outb : bytes) :
  (5 <= F)%nat ->
  sign_attached_stream c v sk pieces r = Ok (outb, r') ->
  Forall (fun p : bytes => (List.length p + blk < F * blk)%nat) pieces ->
  (N.of_nat (List.length (cw_session v sig_block_size [] pieces)) + 2 < two64)%N ->
  go_sign_session F v sk pieces r = Some outb.
Proof.
  intros HF5. unfold sign_attached_stream, go_sign_session. rewrite go_newSignAttachedStream. unfold sas_new.
  rewrite <- blk_sig_block_size.
  destruct (known_version v) eqn:Hk; cbn [negb]; [|discriminate].
  destruct (read_full 16 r) as [[nonce r1]|]; [|discriminate].
  cbv zeta. intros Hs Hps Hn. apply bind_ok in Hs. destruct Hs as (body & Hs & Hb). injection Hb as <- <-.
  cbn [mem_enc fst snd app]. rewrite sas_complete_new.
  set (hdr := sig_header_bytes v mt_attached (ed_pub c sk) nonce) in *.
  exact (go_sas_finish_model F pieces HF5 (mkSas v (sha512 c hdr) (VBytes (mp_encode (MBin hdr))) sk [] 0) (mp_encode (MBin hdr)) body
              Hk eq_refl ltac:(cbn [sas_buf List.length]; apply Nat.le_0_l) Hps ltac:(cbn [sas_v sas_buf sas_seq]; clear - Hn; lia) Hs).
Qed.


(* ---------- the bounds in primitive form ---------- *)
Lemma mark_last_length (l : list bytes) : List.length (mark_last l) = List.length l.
Proof.
  induction l as [|x [|y t] IH]; [reflexivity|reflexivity|].
  change (mark_last (x :: y :: t)) with ((x, false) :: mark_last (y :: t)). cbn [List.length] in *. rewrite IH. reflexivity.
Qed.

Lemma plan_count (v : version) (B : nat) (msg : bytes) : (0 < B)%nat ->
  exists k, (List.length (plan v B msg) <= k + 2)%nat /\ (k * B <= List.length msg)%nat.
Proof.
  intros HB. destruct (chunks_shape B HB msg) as (init & lastc & E & Fi & L & N & C).
  exists (List.length init). split.
  - unfold plan. destruct (vmaj v =? 1)%Z.
    + unfold plan_v1. destruct msg; rewrite app_length, ?map_length, ?E, ?app_length; cbn [List.length]; lia.
    + unfold plan_v2. rewrite mark_last_length, E, app_length. cbn [List.length]. lia.
  - rewrite <- C, app_length, (concat_full_length B init Fi). lia.
Qed.

Lemma packets_bound (v : version) (pieces : list bytes) :
  (len (List.concat pieces) < two64)%N ->
  (N.of_nat (List.length (cw_session v sig_block_size [] pieces)) + 2 < two64)%N.
Proof.
  intros Hlen. rewrite cw_session_plan by exact sig_block_size_pos.
  destruct (plan_count v sig_block_size (List.concat pieces) sig_block_size_pos) as (k & Hk & Hm).
  pose proof sig_block_size_N as HB. unfold len, two64 in *.
  assert (N.of_nat k * 1048576 <= N.of_nat (List.length (List.concat pieces)))%N by (rewrite <- HB; lia).
  lia.
Qed.

Lemma pieces_bound (F : nat) (pieces : list bytes) :
  Forall (fun p : bytes => (len p + 1048576 < N.of_nat F * 1048576)%N) pieces ->
  Forall (fun p : bytes => (List.length p + blk < F * blk)%nat) pieces.
Proof.
  intros H. eapply Forall_impl; [|exact H]. cbv beta. intros p Hp. unfold len in Hp.
  pose proof blk_Z as HB. nia.
Qed.

(* ---------- the receivers' outcome on an input the model accepts ---------- *)
Lemma verify_outcome_ok (vd : validator) (kr : sigring) (input pk : bytes) (chunks : list bytes) :
  verify_stream c vd kr input = Ok (pk, mkOut chunks EOF) ->
  verify_outcome c vd kr input = ORet [g_spk pk; VBytes (List.concat chunks); VNil].
Proof. intros H. unfold verify_outcome. rewrite H. reflexivity. Qed.

Lemma vdet_outcome_ok (vd : validator) (kr : sigring) (msg sigfile pk : bytes) :
  verify_detached c vd kr msg sigfile = Ok pk ->
  vdet_outcome c vd kr msg None sigfile = ORet [g_spk pk; VNil].
Proof.
  unfold vdet_outcome, verify_detached.
  destruct (verify_read_header c vd mt_detached sigfile) as [[[h hh] rest]|e]; cbn [bind]; [|discriminate].
  destruct (mp_read rest) as [m r2| | |]; try discriminate.
  destruct (as_bytes m) as [sig| |]; cbn [of_dres bind]; try discriminate.
  destruct (lookup_signer kr (h_a h)) as [pk'|]; [|discriminate].
  destruct (ed_verify c pk' (detached_sig_input c hh msg) sig); [|discriminate].
  intros H. injection H as <-. reflexivity.
Qed.



Lemma vdet_outcome_other_ring (vd : validator) (kr0 kr : sigring) (msg sigfile pk : bytes) :
  verify_detached c vd kr0 msg sigfile = Ok pk -> lookup_signer kr pk = None ->
  vdet_outcome c vd kr msg None sigfile = ORet [VNil; VErr "ErrNoSenderKey" [VBytes pk]].
Proof.
  unfold vdet_outcome, verify_detached.
  destruct (verify_read_header c vd mt_detached sigfile) as [[[h hh] rest]|e]; cbn [bind]; [|discriminate].
  destruct (mp_read rest) as [m r2| | |]; try discriminate.
  destruct (as_bytes m) as [sig| |]; cbn [of_dres bind]; try discriminate.
  unfold lookup_signer at 1. destruct (existsb (bytes_eqb (h_a h)) kr0); [|discriminate].
  destruct (ed_verify c (h_a h) (detached_sig_input c hh msg) sig); [|discriminate].
  intros H. injection H as <-. intros ->. reflexivity.
Qed.

(* ---------- the streaming receiver, packet by packet, run as Go code ---------- *)
(* v.getNextChunk() called again and again on the verifyStream object until it returns a non-nil error, as
   chunkReader.Read does (chunk_reader.go): the chunks returned, in order, and that error.  [k] bounds the number
   of calls; None = more calls needed, or a call did not return such a pair *)
Fixpoint go_vs_drain (k : nat) (obj : gval) (acc : list bytes) : option (list bytes * gval) :=
  match k with
  | O => None
  | S k' =>
    let r := run_func2 (ext_chunk c TBytes) f_saltpack_verifyStream_getNextChunk [obj] in
    match fst r with
    | ORet [VBytes ch; VNil] =>
      match lookup "v" (snd r) with Some obj' => go_vs_drain k' obj' (ch :: acc) | None => None end
    | ORet [VBytes ch; VErr nm a] => Some (rev_append (ch :: acc) [], VErr nm a)
    | ORet [VNil; VErr nm a] => Some (rev_append acc [], VErr nm a)
    | _ => None
    end
  end.

(* GoAstProofs7c.v stores the signer's key OBJECT in the publicKey field of the verifyStream object NewVerifyStream
   builds ([g_vs_key]); GoAstProofs4b.v's tie of getNextChunk reads that field as the key's BYTES ([g_vs]; the
   extern verifyStream.processBlock takes them from there) and lists headerHash before header: the same object
   in the other file's encoding *)
Definition vs_recode (obj : gval) : option gval :=
  match obj with
  | VStruct [("mps", mps); ("header", hd); ("headerHash", hh); ("publicKey", VStruct [("spk", VBytes pk)])] =>
    Some (VStruct [("mps", mps); ("headerHash", hh); ("header", hd); ("publicKey", VBytes pk)])
  | _ => None
  end.
Lemma vs_recode_key (h : header) (hh pk : bytes) (mps : gval) : vs_recode (g_vs_key h hh pk mps) = Some (g_vs h pk hh mps).
Proof. reflexivity. Qed.

(* the model's loop, when it ends with an error Go has a value for, is that iteration of the translated getNextChunk *)
Lemma go_vs_drain_loop (h : header) (pk hh : bytes) :
  (vmaj (h_version h) = 1 \/ vmaj (h_version h) = 2)%Z ->
  forall (fuel : nat) (n : N) (input : bytes) (acc cs : list bytes) (e : err) (ev : gval),
  (n + N.of_nat fuel <= two64)%N ->
  verify_loop c fuel (h_version h) pk hh n input acc = mkOut cs e -> GoAstProofs4b.g_err e = Some ev ->
  go_vs_drain fuel (g_vs h pk hh (g_mps input n)) acc = Some (cs, ev).
Proof.
  intros Hv. induction fuel as [|f IH]; intros n input acc cs e ev Hn Hl He.
  - cbn [verify_loop] in Hl. injection Hl as <- <-. discriminate.
  - rewrite GoAstProofs4b.verify_loop_step in Hl.
    pose proof (go_verify_getNextChunk c h pk hh n input Hv ltac:(unfold two64 in Hn; lia)) as Hgo.
    cbn [go_vs_drain]. cbv zeta.
    destruct (verify_step c (h_version h) pk hh n input) as [[[chunk final] rest]|e0]; cbn [chunk_spec] in Hgo.
    + destruct final.
      * injection Hl as <- <-. rewrite He in Hgo. rewrite Hgo.
        destruct (GoAstProofs4b.g_err_verr _ _ He) as (nm & a & ->). reflexivity.
      * destruct Hgo as [Hg1 Hg2]. rewrite Hg1, Hg2.
        apply (IH (n + 1)%N rest (chunk :: acc) cs e ev); [lia|exact Hl|exact He].
    + injection Hl as <- <-. rewrite He in Hgo. rewrite Hgo.
      destruct (GoAstProofs4b.g_err_verr _ _ He) as (nm & a & ->). reflexivity.
Qed.

(* ================= ATTACHED SIGNATURES, end to end (C05) ================= *)
Section Attached.
Hypothesis Hc : crypto_ok c.

(* (TARGET) *)
Theorem go_sign_Verify_end_to_end (F : nat) (v : version) (sk : bytes) (pieces : list bytes) (r : rng)
        (kr : sigring) (vd : validator) (VV KR : gval) :
  (5 <= F)%nat -> v = v1 \/ v = v2 -> (16 <= List.length r)%nat -> In (ed_pub c sk) kr -> good_validator vd v ->
  Forall (fun p : bytes => (len p + 1048576 < N.of_nat F * 1048576)%N) pieces ->
  (len (List.concat pieces) < two64)%N ->
  exists out,
    go_sign_session F v sk pieces r = Some out /\
    fst (run_func2 (ext_verify c vd kr) f_saltpack_Verify [VV; VBytes out; KR])
    = ORet [g_spk (ed_pub c sk); VBytes (List.concat pieces); VNil].
Proof.
  intros HF Hv Hr Hin Hvd Hps Hlen.
  destruct (sign_verify_roundtrip c Hc v sk pieces r kr vd Hv Hr Hin Hvd) as (out & chunks & Hs & Hvs & Hcc & _).
  exists out. split.
  - exact (go_sign_session_model F v sk pieces r _ out HF Hs (pieces_bound F pieces Hps) (packets_bound v pieces Hlen)).
  - rewrite go_Verify, (verify_outcome_ok vd kr out _ chunks Hvs), Hcc. reflexivity.
Qed.

(* (TARGET) the same with "the model's sender succeeds" as the hypothesis on version and randomness *)
Theorem go_sign_Verify_end_to_end_model (F : nat) (v : version) (sk : bytes) (pieces : list bytes) (r r' : rng) (out : bytes)
        (kr : sigring) (vd : validator) (VV KR : gval) :
  (5 <= F)%nat -> sign_attached_stream c v sk pieces r = Ok (out, r') ->
  In (ed_pub c sk) kr -> good_validator vd v ->
  Forall (fun p : bytes => (len p + 1048576 < N.of_nat F * 1048576)%N) pieces ->
  (len (List.concat pieces) < two64)%N ->
  go_sign_session F v sk pieces r = Some out /\
  fst (run_func2 (ext_verify c vd kr) f_saltpack_Verify [VV; VBytes out; KR])
  = ORet [g_spk (ed_pub c sk); VBytes (List.concat pieces); VNil].
Proof.
  intros HF Hs Hin Hvd Hps Hlen.
  assert (Hv : v = v1 \/ v = v2).
  { apply known_version_cases. revert Hs. unfold sign_attached_stream. destruct (known_version v); [reflexivity|discriminate]. }
  destruct (sign_attached_stream_shape c v sk pieces r r' out Hs) as (_ & _ & _ & Hr).
  destruct (go_sign_Verify_end_to_end F v sk pieces r kr vd VV KR HF Hv Hr Hin Hvd Hps Hlen) as (out' & Hg & Hver).
  pose proof (go_sign_session_model F v sk pieces r r' out HF Hs (pieces_bound F pieces Hps) (packets_bound v pieces Hlen)) as Hg2.
  assert (out' = out) by congruence. subst out'. split; assumption.
Qed.

(* (TARGET) the streaming receiver's constructor *)
Theorem go_sign_NewVerifyStream_end_to_end (F : nat) (v : version) (sk : bytes) (pieces : list bytes) (r : rng)
        (kr : sigring) (vd : validator) (VV KR : gval) :
  (5 <= F)%nat -> v = v1 \/ v = v2 -> (16 <= List.length r)%nat -> In (ed_pub c sk) kr -> good_validator vd v ->
  Forall (fun p : bytes => (len p + 1048576 < N.of_nat F * 1048576)%N) pieces ->
  (len (List.concat pieces) < two64)%N ->
  exists out h hh rest chunks,
    go_sign_session F v sk pieces r = Some out /\
    (forall rd, rdr_bytes rd = Some out ->
       fst (run_func2 (ext_NVS c vd kr) f_saltpack_NewVerifyStream [VV; rd; KR])
       = ORet [g_spk (ed_pub c sk); g_cr_new (g_vs_key h hh (ed_pub c sk) (g_mps_raw rest 1)); VNil]) /\
    verify_read_header c vd mt_attached out = Ok (h, hh, rest) /\
    verify_loop c (S (List.length rest)) (h_version h) (ed_pub c sk) hh 0 rest [] = mkOut chunks EOF /\
    List.concat chunks = List.concat pieces.
Proof.
  intros HF Hv Hr Hin Hvd Hps Hlen.
  destruct (sign_verify_roundtrip c Hc v sk pieces r kr vd Hv Hr Hin Hvd) as (out & chunks & Hs & Hvs & Hcc & _).
  pose proof (nvs_outcome_model c vd kr out) as Hn. rewrite Hvs in Hn. destruct Hn as (h & hh & rest & Hh & Ho & Hl).
  exists out, h, hh, rest, chunks. split; [|split; [|split; [|split]]].
  - exact (go_sign_session_model F v sk pieces r _ out HF Hs (pieces_bound F pieces Hps) (packets_bound v pieces Hlen)).
  - intros rd Hrd. rewrite (go_NewVerifyStream c vd kr VV rd KR out Hrd). exact Ho.
  - exact Hh.
  - symmetry. exact Hl.
  - exact Hcc.
Qed.


(* the model round trip with the verifier's loop exposed at the fuel "number of packets" *)
Lemma sign_verify_roundtrip_loop (v : version) (sk : bytes) (pieces : list bytes) (r : rng) (vd : validator) :
  v = v1 \/ v = v2 -> (16 <= List.length r)%nat -> good_validator vd v ->
  exists out h hh rest,
    sign_attached_stream c v sk pieces r = Ok (out, skipn 16 r) /\
    verify_read_header c vd mt_attached out = Ok (h, hh, rest) /\
    h_a h = ed_pub c sk /\ h_version h = v /\
    (List.length (cw_session v sig_block_size [] pieces) <= List.length rest)%nat /\
    forall fuel, (List.length (cw_session v sig_block_size [] pieces) <= fuel)%nat ->
      verify_loop c fuel v (ed_pub c sk) hh 0 rest [] = mkOut (map fst (cw_session v sig_block_size [] pieces)) EOF.
Proof.
  intros Hv Hr Hvd.
  pose proof (vmaj_v v Hv) as Hmaj.
  rewrite cw_session_plan by exact sig_block_size_pos.
  set (nonce := firstn 16 r).
  set (hdr := mp_encode (mv_sig_header v mt_attached (ed_pub c sk) nonce)).
  set (ps := plan v sig_block_size (List.concat pieces)).
  destruct (sign_verify_loop c Hc v sk (sha512 c hdr) Hmaj ps 0 (plan_pk_ok v (List.concat pieces) Hmaj))
    as (body & Eb & Lb & Hloop).
  exists (mp_encode (MBin hdr) ++ body)%list, (sig_hdr v mt_attached (ed_pub c sk) nonce), (sha512 c hdr), body.
  split; [|split; [|split; [|split; [|split]]]].
  - unfold sign_attached_stream, sig_header_bytes.
    rewrite known_version_v by exact Hv. cbn [negb].
    rewrite read_full_ok by exact Hr.
    rewrite cw_session_plan by exact sig_block_size_pos.
    fold nonce. fold hdr. fold ps. rewrite Eb. reflexivity.
  - unfold hdr. rewrite (verify_read_header_sig c); auto.
    2:{ apply (ok_ed_pub_len c Hc). }
    2:{ unfold nonce. apply firstn_length_le'. exact Hr. }
    rewrite validate_good by assumption. cbn [negb]. rewrite Z.eqb_refl. reflexivity.
  - reflexivity.
  - reflexivity.
  - exact Lb.
  - intros fuel Hf. rewrite (Hloop fuel [] Hf). reflexivity.
Qed.

(* (TARGET) the streaming receiver: constructor and per-packet code *)
Theorem go_sign_stream_end_to_end (F : nat) (v : version) (sk : bytes) (pieces : list bytes) (r : rng)
        (kr : sigring) (vd : validator) (VV KR : gval) :
  (5 <= F)%nat -> v = v1 \/ v = v2 -> (16 <= List.length r)%nat -> In (ed_pub c sk) kr -> good_validator vd v ->
  Forall (fun p : bytes => (len p + 1048576 < N.of_nat F * 1048576)%N) pieces ->
  (len (List.concat pieces) < two64)%N ->
  exists out rdobj vsobj vsobj' k chunks,
    go_sign_session F v sk pieces r = Some out /\
    (forall rd, rdr_bytes rd = Some out ->
       fst (run_func2 (ext_NVS c vd kr) f_saltpack_NewVerifyStream [VV; rd; KR]) = ORet [g_spk (ed_pub c sk); rdobj; VNil]) /\
    go_field "chunker" rdobj = Some vsobj /\ vs_recode vsobj = Some vsobj' /\
    go_vs_drain k vsobj' [] = Some (chunks, VErr "io.EOF" []) /\
    List.concat chunks = List.concat pieces /\
    (forall rd, rdr_bytes rd = Some out ->
       ext_verify c vd kr "NewVerifyStream" [VV; rd; KR] = Some [g_spk (ed_pub c sk); g_stream (mkOut chunks EOF); VNil]).
Proof.
  intros HF Hv Hr Hin Hvd Hps Hlen.
  destruct (sign_verify_roundtrip_loop v sk pieces r vd Hv Hr Hvd) as (out & h & hh & rest & Hs & Hh & Hha & Hhv & Hle & Hloop).
  pose proof (packets_bound v pieces Hlen) as Hpk.
  exists out, (g_cr_new (g_vs_key h hh (ed_pub c sk) (g_mps_raw rest 1))), (g_vs_key h hh (ed_pub c sk) (g_mps_raw rest 1)),
         (g_vs h (ed_pub c sk) hh (g_mps rest 0)), (List.length (cw_session v sig_block_size [] pieces)),
         (map fst (cw_session v sig_block_size [] pieces)).
  split; [|split; [|split; [|split; [|split; [|split]]]]].
  - exact (go_sign_session_model F v sk pieces r _ out HF Hs (pieces_bound F pieces Hps) Hpk).
  - intros rd Hrd. rewrite (go_NewVerifyStream c vd kr VV rd KR out Hrd). unfold nvs_outcome.
    rewrite Hh, Hha, (lookup_signer_in kr _ Hin). reflexivity.
  - reflexivity.
  - reflexivity.
  - apply (go_vs_drain_loop h (ed_pub c sk) hh ltac:(rewrite Hhv; exact (vmaj_v v Hv))
             (List.length (cw_session v sig_block_size [] pieces)) 0%N rest [] _ EOF).
    + clear - Hpk. lia.
    + rewrite Hhv. exact (Hloop _ (le_n _)).
    + reflexivity.
  - rewrite cw_session_plan by exact sig_block_size_pos. apply plan_concat. exact sig_block_size_pos.
  - intros rd Hrd.
    assert (Hvs : verify_stream c vd kr out = Ok (ed_pub c sk, mkOut (map fst (cw_session v sig_block_size [] pieces)) EOF)).
    { unfold verify_stream. rewrite Hh. cbn [bind]. rewrite Hha, (lookup_signer_in kr _ Hin), Hhv.
      rewrite (Hloop (S (List.length rest)) ltac:(clear - Hle; lia)). reflexivity. }
    unfold ext_verify. cbv [String.eqb Ascii.eqb Bool.eqb]. rewrite Hrd, Hvs. reflexivity.
Qed.

(* (TARGET) a keyring that does not hold the signer's key *)
Theorem go_sign_Verify_unknown_signer (F : nat) (v : version) (sk : bytes) (pieces : list bytes) (r : rng)
        (kr : sigring) (vd : validator) (VV KR : gval) :
  (5 <= F)%nat -> v = v1 \/ v = v2 -> (16 <= List.length r)%nat -> ~ In (ed_pub c sk) kr -> good_validator vd v ->
  Forall (fun p : bytes => (len p + 1048576 < N.of_nat F * 1048576)%N) pieces ->
  (len (List.concat pieces) < two64)%N ->
  exists out,
    go_sign_session F v sk pieces r = Some out /\
    fst (run_func2 (ext_verify c vd kr) f_saltpack_Verify [VV; VBytes out; KR])
    = ORet [VNil; VNil; VErr "ErrNoSenderKey" []].
Proof.
  intros HF Hv Hr Hnin Hvd Hps Hlen.
  destruct (sign_verify_roundtrip c Hc v sk pieces r [ed_pub c sk] vd Hv Hr (or_introl eq_refl) Hvd) as (out & _ & Hs & _).
  destruct (verify_unknown_signer c Hc v sk pieces r _ kr vd out Hv Hvd Hs Hnin) as [Hvs _].
  exists out. split.
  - exact (go_sign_session_model F v sk pieces r _ out HF Hs (pieces_bound F pieces Hps) (packets_bound v pieces Hlen)).
  - rewrite go_Verify. unfold verify_outcome. rewrite Hvs. reflexivity.
Qed.

(* (TARGET) the mode gate: what the attached signer emits is refused by the detached entry points *)
Theorem go_sign_refused_by_VerifyDetached (F : nat) (v : version) (sk : bytes) (pieces : list bytes) (r : rng)
        (kr : sigring) (vd : validator) (VV KR : gval) (msg : bytes) :
  (5 <= F)%nat -> v = v1 \/ v = v2 -> (16 <= List.length r)%nat -> good_validator vd v ->
  Forall (fun p : bytes => (len p + 1048576 < N.of_nat F * 1048576)%N) pieces ->
  (len (List.concat pieces) < two64)%N ->
  exists out,
    go_sign_session F v sk pieces r = Some out /\
    fst (run_func2 (ext_vdet2 c vd kr) f_saltpack_VerifyDetached [VV; VBytes msg; VBytes out; KR])
    = ORet [VNil; VErr "ErrWrongMessageType" []] /\
    fst (run_func2 (ext_vdet c vd kr) f_saltpack_VerifyDetachedReader [VV; g_rdr msg None; VBytes out; KR])
    = ORet [VNil; VErr "ErrWrongMessageType" []].
Proof.
  intros HF Hv Hr Hvd Hps Hlen.
  destruct (sign_verify_roundtrip c Hc v sk pieces r [ed_pub c sk] vd Hv Hr (or_introl eq_refl) Hvd) as (out & _ & Hs & _).
  exists out. split.
  { exact (go_sign_session_model F v sk pieces r _ out HF Hs (pieces_bound F pieces Hps) (packets_bound v pieces Hlen)). }
  assert (Ho : vdet_outcome c vd kr msg None out = ORet [VNil; VErr "ErrWrongMessageType" []]).
  { apply sign_attached_stream_shape in Hs as (body & -> & _ & _).
    unfold vdet_outcome. rewrite (verify_read_header_sig c); auto.
    2:{ apply (ok_ed_pub_len c Hc). }
    2:{ apply firstn_length_le'. exact Hr. }
    rewrite validate_good by assumption. cbn [negb]. rewrite mt_attached_detached. reflexivity. }
  split.
  - rewrite go_VerifyDetached. exact Ho.
  - rewrite (go_VerifyDetachedReader c vd kr VV KR msg None out). exact Ho.
Qed.
End Attached.

(* ================= DETACHED SIGNATURES, end to end (C07) ================= *)
(* s.Write(p1); ...; s.Write(pn) of the detached signer *)
Fixpoint go_sds_writes (obj : gval) (pieces : list bytes) : option gval :=
  match pieces with
  | [] => Some obj
  | p :: t =>
    let r := run_func2 (ext_sig c) f_saltpack_signDetachedStream_Write [obj; VBytes p] in
    match fst r, lookup "s" (snd r) with
    | ORet [VInt n; VNil], Some obj' =>
      if (n =? Z.of_nat (List.length p))%Z then go_sds_writes obj' t else None
    | _, _ => None
    end
  end.

(* the constructor on the empty in-memory writer, then the Writes: the stream object before Close *)
Definition go_sds_open (v : version) (sk : bytes) (pieces : list bytes) (r : rng) : option gval :=
  match fst (run_func2 (ext_new c mem_enc r) f_saltpack_newSignDetachedStream [g_version v; VBytes []; g_signer (Some sk)]) with
  | ORet [obj; VNil] => go_sds_writes obj pieces
  | _ => None
  end.

(* an encoder that reports the packet it is handed (in its error value) instead of writing it *)
Definition spy_enc (w : gval) (b : bytes) : gval * gerr := (w, Some ("packet", [VBytes b])).

(* the whole session: Close on the in-memory writer returns nil, and the writer then holds what it held before
   Close followed by the packet Close hands to encoder.Encode (read off with [spy_enc]: the evaluator cannot
   write the encoder back in Close, GoAstProofs6a.v LIMIT) *)
Definition go_signdet_session (v : version) (sk : bytes) (pieces : list bytes) (r : rng) : option bytes :=
  match go_sds_open v sk pieces r with
  | Some obj =>
    match go_field "encoder" obj,
          fst (run_func2 (ext_det_close c mem_enc) f_saltpack_signDetachedStream_Close [obj]),
          fst (run_func2 (ext_det_close c spy_enc) f_saltpack_signDetachedStream_Close [obj]) with
    | Some (VBytes w), ORet [VNil], ORet [VErr "packet" [VBytes pkt]] => Some (w ++ pkt)%list
    | _, _, _ => None
    end
  | None => None
  end.

Lemma go_sds_writes_spec (pieces : list bytes) : forall st : sds_state,
  go_sds_writes (g_sds st) pieces
  = Some (g_sds (fold_left (fun st p => mkSds (sds_enc st) (sds_sk st) (sds_hashed st ++ p)%list) pieces st)).
Proof.
  induction pieces as [|p t IH]; intros st; [reflexivity|].
  cbn [go_sds_writes fold_left]. cbv zeta.
  destruct (go_signDetachedStream_Write c st p) as [H1 H2]. rewrite H1, H2, Z.eqb_refl. apply IH.
Qed.

Section Detached.
Hypothesis Hc : crypto_ok c.

(* (TARGET) the sender session against the model, with the packet exposed *)
Lemma go_signdet_session_model (v : version) (sk : bytes) (pieces : list bytes) (r r' : rng) (outb : bytes) :
  sign_detached c v sk (List.concat pieces) r = Ok (outb, r') ->
  exists obj w pkt,
    go_sds_open v sk pieces r = Some obj /\ go_field "encoder" obj = Some (VBytes w) /\ outb = (w ++ pkt)%list /\
    (forall es : gval -> bytes -> gval * gerr,
       fst (run_func2 (ext_det_close c es) f_saltpack_signDetachedStream_Close [obj]) = ORet [g_errv (snd (es (VBytes w) pkt))]) /\
    go_signdet_session v sk pieces r = Some outb.
Proof.
  intros Hs. destruct (sds_session_model c v sk pieces r r' outb Hs) as (st0 & Hnew & Hclose). cbv zeta in Hclose.
  set (stN := fold_left (fun st p => mkSds (sds_enc st) (sds_sk st) (sds_hashed st ++ p)%list) pieces st0) in *.
  set (pkt := mp_encode (MBin (ed_sign c (sds_sk stN) (detached_sig_input_from_hash (sha512 c (sds_hashed stN)))))) in *.
  assert (Hopen : go_sds_open v sk pieces r = Some (g_sds stN)).
  { unfold go_sds_open. rewrite go_newSignDetachedStream, Hnew. apply go_sds_writes_spec. }
  destruct (sds_enc stN) as [z|b|w|fs|l| |nm ar] eqn:Hw; cbn [mem_enc] in Hclose; try discriminate.
  injection Hclose as <-.
  assert (Hany : forall es : gval -> bytes -> gval * gerr,
       fst (run_func2 (ext_det_close c es) f_saltpack_signDetachedStream_Close [g_sds stN]) = ORet [g_errv (snd (es (VBytes w) pkt))]).
  { intros es. destruct (go_signDetachedStream_Close c es stN) as [H1 _]. rewrite H1, Hw. reflexivity. }
  exists (g_sds stN), w, pkt. split; [exact Hopen|]. split; [cbn [go_field g_sds lookup]; rewrite <- Hw; reflexivity|].
  split; [reflexivity|]. split; [exact Hany|].
  unfold go_signdet_session. rewrite Hopen, (Hany mem_enc), (Hany spy_enc).
  replace (go_field "encoder" (g_sds stN)) with (Some (VBytes w)) by (rewrite <- Hw; reflexivity).
  reflexivity.
Qed.

(* (TARGET) *)
Theorem go_signDetached_Verify_end_to_end (v : version) (sk : bytes) (pieces : list bytes) (r : rng)
        (kr : sigring) (vd : validator) (VV KR : gval) :
  v = v1 \/ v = v2 -> (16 <= List.length r)%nat -> In (ed_pub c sk) kr -> good_validator vd v ->
  exists sigfile,
    go_signdet_session v sk pieces r = Some sigfile /\
    fst (run_func2 (ext_vdet2 c vd kr) f_saltpack_VerifyDetached [VV; VBytes (List.concat pieces); VBytes sigfile; KR])
    = ORet [g_spk (ed_pub c sk); VNil] /\
    fst (run_func2 (ext_vdet c vd kr) f_saltpack_VerifyDetachedReader [VV; g_rdr (List.concat pieces) None; VBytes sigfile; KR])
    = ORet [g_spk (ed_pub c sk); VNil].
Proof.
  intros Hv Hr Hin Hvd.
  destruct (detached_roundtrip c Hc v sk (List.concat pieces) r kr vd Hv Hr Hin Hvd) as (sigfile & Hs & Hver).
  destruct (go_signdet_session_model v sk pieces r _ sigfile Hs) as (_ & _ & _ & _ & _ & _ & _ & Hg).
  exists sigfile. split; [exact Hg|]. split.
  - rewrite go_VerifyDetached. apply vdet_outcome_ok. exact Hver.
  - rewrite (go_VerifyDetachedReader c vd kr VV KR (List.concat pieces) None sigfile). apply vdet_outcome_ok. exact Hver.
Qed.

(* (TARGET) a keyring that does not hold the signer's key *)
Theorem go_signDetached_unknown_signer (v : version) (sk : bytes) (pieces : list bytes) (r : rng)
        (kr : sigring) (vd : validator) (VV KR : gval) :
  v = v1 \/ v = v2 -> (16 <= List.length r)%nat -> ~ In (ed_pub c sk) kr -> good_validator vd v ->
  exists sigfile,
    go_signdet_session v sk pieces r = Some sigfile /\
    fst (run_func2 (ext_vdet2 c vd kr) f_saltpack_VerifyDetached [VV; VBytes (List.concat pieces); VBytes sigfile; KR])
    = ORet [VNil; VErr "ErrNoSenderKey" [VBytes (ed_pub c sk)]] /\
    fst (run_func2 (ext_vdet c vd kr) f_saltpack_VerifyDetachedReader [VV; g_rdr (List.concat pieces) None; VBytes sigfile; KR])
    = ORet [VNil; VErr "ErrNoSenderKey" [VBytes (ed_pub c sk)]].
Proof.
  intros Hv Hr Hnin Hvd.
  destruct (detached_roundtrip c Hc v sk (List.concat pieces) r [ed_pub c sk] vd Hv Hr (or_introl eq_refl) Hvd) as (sigfile & Hs & Hver).
  destruct (go_signdet_session_model v sk pieces r _ sigfile Hs) as (_ & _ & _ & _ & _ & _ & _ & Hg).
  exists sigfile. split; [exact Hg|].
  assert (Ho : vdet_outcome c vd kr (List.concat pieces) None sigfile = ORet [VNil; VErr "ErrNoSenderKey" [VBytes (ed_pub c sk)]]).
  { apply (vdet_outcome_other_ring vd [ed_pub c sk] kr _ _ _ Hver). apply lookup_signer_notin. exact Hnin. }
  split.
  - rewrite go_VerifyDetached. exact Ho.
  - rewrite (go_VerifyDetachedReader c vd kr VV KR (List.concat pieces) None sigfile). exact Ho.
Qed.

(* (TARGET) the mode gate: a detached signature file is refused by the attached entry points *)
Theorem go_signDetached_refused_by_Verify (v : version) (sk : bytes) (pieces : list bytes) (r : rng)
        (kr : sigring) (vd : validator) (VV KR : gval) :
  v = v1 \/ v = v2 -> (16 <= List.length r)%nat -> good_validator vd v ->
  exists sigfile,
    go_signdet_session v sk pieces r = Some sigfile /\
    fst (run_func2 (ext_verify c vd kr) f_saltpack_Verify [VV; VBytes sigfile; KR])
    = ORet [VNil; VNil; VErr "ErrWrongMessageType" []] /\
    (forall rd, rdr_bytes rd = Some sigfile ->
       fst (run_func2 (ext_NVS c vd kr) f_saltpack_NewVerifyStream [VV; rd; KR])
       = ORet [VNil; VNil; VErr "ErrWrongMessageType" []]).
Proof.
  intros Hv Hr Hvd.
  destruct (detached_roundtrip c Hc v sk (List.concat pieces) r [ed_pub c sk] vd Hv Hr (or_introl eq_refl) Hvd) as (sigfile & Hs & _).
  destruct (go_signdet_session_model v sk pieces r _ sigfile Hs) as (_ & _ & _ & _ & _ & _ & _ & Hg).
  exists sigfile. split; [exact Hg|].
  pose proof (attached_rejects_detached c Hc v sk (List.concat pieces) r _ kr vd sigfile Hv Hvd Hs) as Hvs.
  split.
  - rewrite go_Verify. unfold verify_outcome. rewrite Hvs. reflexivity.
  - intros rd Hrd. rewrite (go_NewVerifyStream c vd kr VV rd KR sigfile Hrd).
    pose proof (nvs_outcome_model c vd kr sigfile) as Hn. rewrite Hvs in Hn. cbn [g_herr] in Hn.
    destruct Hn as [a Hn]. rewrite Hn.
    revert Hn. unfold nvs_outcome.
    destruct (verify_read_header c vd mt_attached sigfile) as [[[h hh] rest]|e].
    + destruct (lookup_signer kr (h_a h)); intros Hn; inversion Hn.
    + destruct (g_herr e) as [ev|] eqn:Hge; [|discriminate].
      destruct (g_herr_verr _ _ Hge) as (nm & ->). intros Hn. inversion Hn. reflexivity.
Qed.
End Detached.

End GoSession.

(* ================= the statements on concrete inputs (toy primitives of model/ToyCrypto.v) ================= *)
From SP Require Import ToyCrypto ToyCryptoProofs.
Module Examples.
Definition x_sk : bytes := repeat x07 64.
Definition x_pk : bytes := ed_pub toy_crypto x_sk.
Definition x_pieces : list bytes := [[x68; x65]; [x6c; x6c; x6f]].

(* the translated Go sender (constructor, two Writes, Close) run by the evaluator, its bytes handed to the translated
   Go Verify: the signer's key and "hello"; both versions *)
Example ex_attached_computes :
  (match go_sign_session toy_crypto 297 v2 x_sk x_pieces (repeat x01 16) with
   | Some out => fst (run_func2 (ext_verify toy_crypto AnyKnownMajor [x_pk]) f_saltpack_Verify [VNil; VBytes out; VNil])
   | None => OStuck "sender"
   end = ORet [g_spk x_pk; VBytes [x68; x65; x6c; x6c; x6f]; VNil]) /\
  (match go_sign_session toy_crypto 297 v1 x_sk x_pieces (repeat x01 16) with
   | Some out => fst (run_func2 (ext_verify toy_crypto (Single v1) [x_pk]) f_saltpack_Verify [VNil; VBytes out; VNil])
   | None => OStuck "sender"
   end = ORet [g_spk x_pk; VBytes [x68; x65; x6c; x6c; x6f]; VNil]) /\
  go_sign_session toy_crypto 297 v2 x_sk x_pieces (repeat x01 16)
  = match sign_attached_stream toy_crypto v2 x_sk x_pieces (repeat x01 16) with Ok (out, _) => Some out | Err _ => None end.
Proof. vm_compute. repeat split. Qed.

(* the hypotheses of the theorem are satisfiable: its instance on these inputs, every hypothesis discharged *)
Example ex_attached_instance :
  exists out,
    go_sign_session toy_crypto 297 v2 x_sk x_pieces (repeat x01 16) = Some out /\
    fst (run_func2 (ext_verify toy_crypto AnyKnownMajor [x_pk]) f_saltpack_Verify [VNil; VBytes out; VNil])
    = ORet [g_spk x_pk; VBytes (List.concat x_pieces); VNil].
Proof.
  apply (go_sign_Verify_end_to_end toy_crypto toy_crypto_ok 297 v2 x_sk x_pieces (repeat x01 16) [x_pk] AnyKnownMajor VNil VNil).
  - lia.
  - right; reflexivity.
  - vm_compute. lia.
  - left; reflexivity.
  - left; reflexivity.
  - repeat constructor.
  - reflexivity.
Qed.


(* the streaming receiver: the translated NewVerifyStream on the sender's bytes, then the translated getNextChunk
   called until it reports an error: the signer's key, the chunks, io.EOF (V2: one final chunk; V1: the chunk and
   the empty final one) *)
Definition x_stream (v : version) (vd : validator) : option (gval * (list bytes * gval)) :=
  match go_sign_session toy_crypto 297 v x_sk x_pieces (repeat x01 16) with
  | Some out =>
    match fst (run_func2 (ext_NVS toy_crypto vd [x_pk]) f_saltpack_NewVerifyStream [VNil; VBytes out; VNil]) with
    | ORet [key; rdobj; VNil] =>
      match go_field "chunker" rdobj with
      | Some vs => match vs_recode vs with
                   | Some vs' => option_map (fun x => (key, x)) (go_vs_drain toy_crypto 5 vs' [])
                   | None => None
                   end
      | None => None
      end
    | _ => None
    end
  | None => None
  end.
Example ex_stream_computes :
  x_stream v2 AnyKnownMajor = Some (g_spk x_pk, ([[x68; x65; x6c; x6c; x6f]], VErr "io.EOF" [])) /\
  x_stream v1 (Single v1) = Some (g_spk x_pk, ([[x68; x65; x6c; x6c; x6f]; []], VErr "io.EOF" [])).
Proof. vm_compute. split; reflexivity. Qed.

(* the detached signer: constructor, two Writes, Close; the signature file handed to VerifyDetached and to
   VerifyDetachedReader *)
Example ex_detached_computes :
  (match go_signdet_session toy_crypto v1 x_sk x_pieces (repeat x02 16) with
   | Some sg => fst (run_func2 (ext_vdet2 toy_crypto (Single v1) [x_pk]) f_saltpack_VerifyDetached
                               [VNil; VBytes (List.concat x_pieces); VBytes sg; VNil])
   | None => OStuck "sender"
   end = ORet [g_spk x_pk; VNil]) /\
  (match go_signdet_session toy_crypto v2 x_sk x_pieces (repeat x02 16) with
   | Some sg => fst (run_func2 (ext_vdet toy_crypto AnyKnownMajor [x_pk]) f_saltpack_VerifyDetachedReader
                               [VNil; g_rdr (List.concat x_pieces) None; VBytes sg; VNil])
   | None => OStuck "sender"
   end = ORet [g_spk x_pk; VNil]) /\
  go_signdet_session toy_crypto v2 x_sk x_pieces (repeat x02 16)
  = match sign_detached toy_crypto v2 x_sk (List.concat x_pieces) (repeat x02 16) with Ok (out, _) => Some out | Err _ => None end.
Proof. vm_compute. repeat split. Qed.

Example ex_detached_instance :
  exists sg,
    go_signdet_session toy_crypto v1 x_sk x_pieces (repeat x02 16) = Some sg /\
    fst (run_func2 (ext_vdet2 toy_crypto (Single v1) [x_pk]) f_saltpack_VerifyDetached [VNil; VBytes (List.concat x_pieces); VBytes sg; VNil])
    = ORet [g_spk x_pk; VNil] /\
    fst (run_func2 (ext_vdet toy_crypto (Single v1) [x_pk]) f_saltpack_VerifyDetachedReader
                   [VNil; g_rdr (List.concat x_pieces) None; VBytes sg; VNil])
    = ORet [g_spk x_pk; VNil].
Proof.
  apply (go_signDetached_Verify_end_to_end toy_crypto toy_crypto_ok v1 x_sk x_pieces (repeat x02 16) [x_pk] (Single v1) VNil VNil).
  - left; reflexivity.
  - vm_compute. lia.
  - left; reflexivity.
  - right; reflexivity.
Qed.
End Examples.

Print Assumptions go_sign_session_model.
Print Assumptions go_vs_drain_loop.
Print Assumptions go_sign_Verify_end_to_end.
Print Assumptions go_sign_Verify_end_to_end_model.
Print Assumptions go_sign_NewVerifyStream_end_to_end.
Print Assumptions go_sign_stream_end_to_end.
Print Assumptions go_sign_Verify_unknown_signer.
Print Assumptions go_sign_refused_by_VerifyDetached.
Print Assumptions go_signdet_session_model.
Print Assumptions go_signDetached_Verify_end_to_end.
Print Assumptions go_signDetached_unknown_signer.
Print Assumptions go_signDetached_refused_by_Verify.

(* UNFINISHED STATEMENTS: none.  Everything listed under TARGETS is proved; what cannot be stated is under GAPS. *)
