(* GoAstProofs7b.v — source ties for the base-X codec loops and the base-X STREAM DECODER
   (/repo/encoding/basex/encoding.go: Encoding.getByteType, .IsValidByte, .hasSkipBytes, .decode, .Decode, .Encode;
   /repo/encoding/basex/stream.go: filteringReader.Read, decoder.Read), as translated on this run from /repo's Go
   syntax trees (gen/GoAstDearmor.v) and run by the extended evaluator of model/GoLang2.v (run_func2: outcome AND
   final environment) on ENCODED arguments, against model/BaseX.v (digit_of / is_skip, decode, encode) and the
   state machine of model/BxStream.v (fr_read, bd_read).

   ENCODINGS.  An *Encoding object is [g_encoding en], built from the model's record en : BaseX.encoding for EVERY
   en: decodeMap is the 256-entry table whose entry b is a *big.Int object ([g_big d], a struct, hence != nil) when
   digit_of en b = Some d and nil otherwise; skipMap the 256-entry table of the booleans is_skip en b; skipBytes,
   encode, base256BlockLen = ibl, baseXBlockLen = obl = min_chars ibl, base, baseBig.  (NewEncoding fills
   decodeMap[encoder[i]] = i for ascending i, so for an alphabet with a repeated character Go keeps the LAST index
   and digit_of the first; the functions tied here only test entries against nil, and the digit values are used by
   decodeBlock only, which is an extern = the model's decode_block.)  A byte argument is [g_byte b] = VInt of its
   value, for b : byte (so 0 <= b < 256 is the bound Go's type imposes).  Errors are GoAstProofs4c.g_err /
   g_err_opt (CorruptInputError(n) = VErr "basex.CorruptInputError" [n]); [g_bx_opt] maps the model's bx_err.
   An underlying io.Reader is GoAstProofs4c.g_source s, s : Streams.source, read by src_read.

   FUEL.  As in GoAstProofs4c/5b: [run_func2_at F] is run_func2 with the evaluator's fuel as a parameter
   (run_func2 = run_func2_at 300); a `for` loop gets as many turns as there is fuel where it starts, so the loop
   theorems are stated for every fuel above a bound that grows with the input ([decode_turns] = blocks scanned by
   the model's decode loop, <= len(src); [encode_turns] = ceil(len(src)/ibl)); the _300 corollaries are the instances
   for run_func2.  These are bounds on the EVALUATOR, not on the Go code.

   TARGETS (all proved with Qed; Print Assumptions: closed under the global context).
   - go_getByteType         enc.getByteType(b) = [byte_type en b]: 0 (normal) if digit_of en b is Some, else 1 (skip) if
                            is_skip en b, else 2 (invalid) — the case analysis of BxStream.fr_filter; receiver unchanged.
                            For every encoding, every byte, every extern table.  No hypothesis.
   - go_IsValidByte         enc.IsValidByte(b) = [valid_byte en b] (digit or skip character); for base62 this is
                            Armor.valid_armor_byte ([valid_byte_base62]).  No hypothesis.
   - go_hasSkipBytes        enc.hasSkipBytes() = [has_skip en] (skipBytes non-empty), the test of BxStream.under_read.
                            No hypothesis.   (_shipped: the instances for Base62StdEncoding, ..Strict, Base58StdEncoding,
                            ..Strict; go_hasSkipBytes_shipped gives true/false/true/false.)
   - go_Encoding_decode     enc.decode(dst, src) returns (len d, e) for (d, e) = BaseX.decode en src — all blocks decoded
     (and _300)             before the first error, and that error: CorruptInputError(offset) / ErrInvalidEncodingLength / nil —
                            when d fits dst; when it does not, the evaluator is stuck at the call of decodeBlock whose
                            block no longer fits (OStuck "call": the Go code panics there, slice bounds out of range;
                            an extern cannot panic).  enc / src unchanged.  The callee enc.decodeBlock(dst[dp:],
                            src[sp:], sp) is the extern [ext_dec] = the model's decode_block (math/big).
                            WHAT IS OBSERVED OF dst: nothing.  decodeBlock writes through the slice EXPRESSION dst[dp:],
                            which GoLang2.expr_lval does not treat as a place, so the decoded bytes cannot be written back:
                            the theorem ties count and error and shows "dst" unchanged in the evaluator (same limit as
                            GoAstProofs4c.go_chunkReader_Read).  Hypothesis: decode_turns en src + 8 <= F (evaluator fuel).
   - go_Encoding_Decode     enc.Decode(dst, src) = enc.decode(dst, src): here dst is a VARIABLE of the caller, so the extern
                            "Encoding.decode" ([ext_Dec]) has the meaning of go_Encoding_decode PLUS the bytes (dst comes back
                            with the decoded bytes at its front, [put_front]); the theorem gives (len d, e) and the final
                            dst.  No hypothesis (stuck where the callee panics, as above).
   - go_Encoding_Encode     enc.Encode(dst, src): dst ends as [put_front dst (BaseX.encode en src)] — the encoding at the
     (and _300)             front, the rest of dst untouched — when the encoding fits; otherwise PANIC (encodeBlock indexes
                            past its window), exactly when len(encode en src) > len(dst).  The callee enc.encodeBlock is the
                            extern [ext_enc] = the model's encode_block written at the front of its window dst[dp:dLim]
                            (SSliceCall: the window IS a place here), panicking when the window is too short.
                            [genc] is the Go loop literally, [genc_model] its equality with BaseX.encode_fuel (uses:
                            min_chars is monotone for EVERY alphabet, [min_chars_mono]).
                            Hypotheses: 0 < base256BlockLen (with 0 the Go loop does not terminate; NewEncoding is never
                            called with 0: [shipped_ibl_pos]); encode_turns src + 10 <= F (evaluator fuel).
   - go_filteringReader_Read_range_stuck    NOT EXPRESSIBLE (see below): the exact account of what the evaluator does.
   - go_decoder_Read_nofill the two paths of decoder.Read that do not reach the fill loop, for every object and every p:
                            a sticky d.err is returned as (0, d.err), nothing changes; otherwise non-empty leftover output
                            d.out is copied: (min(len p, len out), nil), p gets the bytes at its front, d.out loses them —
                            the first two cases of BxStream.bd_read.  No hypothesis.
   - go_decoder_Read_exits  decoder.Read from a state with d.err = nil and d.out empty, over an ARBITRARY underlying reader
                            (a state type U with a read function uread : nat -> U -> (bytes * option err) * U; Section
                            Fill): nn is [gd_nn] (len(p)/ibl*obl, at least obl, at most len(d.buf)); the loop
                            `for d.nbuf < obl && d.err == nil` makes exactly the reads [gd_fill] describes — one
                            d.r.Read(d.buf[d.nbuf:nn]) of nn - d.nbuf bytes per turn, d.nbuf += n, d.err = err — and when it
                            ends with an error other than io.EOF, or with io.EOF and d.nbuf = 0, Read returns (0, that error)
                            at once, leaving d.err = the error, d.nbuf and d.r as the loop left them, p untouched.  (The
                            other endings go on to the decoding part: NOT EXPRESSIBLE 2, 3.)  The object is
                            [g_decU er out buf nbuf scratch u]; d.buf is the whole array and stays as it was (the bytes
                            read cannot be stored, see below: on these paths no later code looks at them, d.err is sticky).
                            Hypotheses: 0 < base256BlockLen (len(p)/ibl; Go would panic dividing by zero),
                            baseXBlockLen <= len(d.buf) (newDecoder: len(d.buf) = 8192*ibl; otherwise d.buf[d.nbuf:nn] can be
                            out of range), 13 <= F, and the reader encoding can be decoded ([as_U_g]).  When the loop
                            needs more than F - 7 turns the evaluator is out of fuel (stated: OStuck "loop fuel").
   - go_decoder_Read_exits_model   the same for the reader of model/BxStream.v (U = fr_state, uread = under_read: the raw
                            source for a strict encoding, source + filteringReader state otherwise; [g_rd]) against bd_read:
                            on those paths bd_read returns BdErr [] x with state (Some x, [], buffered characters, reader)
                            and the Go code returns (0, x) leaving d.err = x, d.nbuf = the number of buffered characters and
                            d.r = the model's reader ([gd_fill_model]: gd_fill is bd_fill).  Hypotheses as above with
                            len(d.buf) = input_cap (newDecoder), bd_err st = None, bd_out st = [].

   NOT EXPRESSIBLE in model/GoLang2.v (reported, not worked around):
   1. f_basex_filteringReader_Read: `for i, b := range p[:n]`, translated to
        SRange "i" "b" (ESlice (EVar "p") None (Some (EVar "n"))) [...].
      GoLang.eval gives ESlice a meaning on VBytes only (result VBytes), and GoLang2.exec2 gives SRange a meaning on
      VList / VNil only ("range" otherwise): a byte slice cannot be ranged over.  [go_filteringReader_Read_range_stuck]:
      for every state and p the run is the model's when the first Read of the wrapped reader delivers no byte
      ((0, err) returned as is, fr_read's first case) and OStuck "range" in every other case.  Missing: SRange over
      VBytes (index, byte value).  (Also: CorruptInputError(r.nRead) is the composite literal ELit "CorruptInputError",
      which eval turns into a struct, not an error value; the name does not start with "Err".)
      The statements AROUND the range header are tied, for every state:
      - fr_body_step     one turn of the range body on (i, b): the step of BxStream.fr_filter — a foreign byte returns
                         (0, CorruptInputError(r.nRead)) [as the struct just mentioned], otherwise r.nRead++, a skip byte
                         `continue`s, an alphabet byte is stored at p[offset] (when i != offset) and offset++.
                         Hypothesis: offset < len(p).
      - fr_after_exec    after the range: `return offset, err` when something was kept or the reader failed, else the
                         next r.wrapped.Read(p) (src_read; r.wrapped and p written back) — fr_read's last match.
      - gfr_range_filter (no evaluator) the iteration [gfr_range] of fr_body_step over p[:n] IS fr_filter: same verdict,
                         same nRead, and the kept characters are p[:offset] afterwards (the in-place compaction).
   2. f_basex_decoder_Read, the fill loop `n, d.err = d.r.Read(d.buf[d.nbuf:nn])`, translated to
        SAssignL [LVar "n"; LField (LVar "d") "err"]
                 [ECall "Reader.Read" [ESel (EVar "d") "r"; ESlice (ESel (EVar "d") "buf") (Some d.nbuf) (Some nn)]],
      and the final `copy(d.buf[0:d.nbuf], d.buf[numBytesToDecode:numBytesToDecode+d.nbuf])` (SExpr (ECall "copy" [ESlice ..; ESlice ..])).
      call_assign writes the extra results of an extern back to [mutable_places args] only, and expr_lval knows
      EVar / EAddr / ESel: a slice of a field is not a place ([decoder_Read_read_places]: the only place of the Read call
      is d.r; [decoder_Read_copy_places]: the copy has none).  So the bytes the underlying reader delivers can never
      appear in d.buf, which the rest of Read decodes, and the leftover input is never moved to the front.  Missing: a
      window place (LSlice l lo hi) in glval / expr_lval (SSliceCall has a VARIABLE target only), or reference values.
   3. f_basex_decoder_Read again: `ret = copy(p, d.out)` (SAssign ["ret"] [ECall "copy" ..]) and the statement
      `copy(d.buf[0:d.nbuf], ..)` (SExpr (ECall "copy" ..)) call the same extern "copy" on two byte strings.  exec2 hands
      ALL results of a statement call to write_back2 (so with no place among the arguments the extern must return []),
      and takes the first result of an assigned call as the value (so it must return at least the count):
      [copy_sites_conflict].  The extern table is a function of the argument VALUES, which can coincide at the two sites,
      so no table serves both calls on all inputs; every run of the decoding part reaches the second one.
      What is expressible is proved: the two paths that do not reach the loop (go_decoder_Read_nofill), and the loop
      with every exit that does not decode (go_decoder_Read_exits, _model).
      THE DECODING PART (numBytesToDecode .. the final return) is tied SEGMENT BY SEGMENT, for every state of the object
      — so for whatever d.buf holds —, the two segments being separated by the buffer shift, the one statement that
      cannot be run (f_body = rd_pre ++ SFor rd_cond rd_loop_body :: rd_post, rd_post = 2 statements ++ rd_post2,
      rd_post2 = rd_mid ++ rd_shift :: rd_fin; all by reflexivity on the generated term):
      - rd_pre_exec / rd_loop / rd_post_exec   the prefix (nn), the fill loop turn by turn, the eof / error dispatch;
      - rd_mid_exec      statements 10..15 = [gd_mid]: numBytesToDecode (all of d.nbuf at eof, else whole blocks),
                         DecodedLen, then Decode into d.scratchbuf + copy into p + surplus kept in d.out when the output
                         exceeds len(p), or Decode straight into p; d.err = the decode error; d.nbuf -= numBytesToDecode;
                         the bytes delivered are observed in p (p is a variable: Decode / copy write it back).  Stuck
                         ("call") exactly when Decode's destination is too short (the Go code would panic).
                         Hypotheses: 0 < obl, d.nbuf <= len(d.buf), "n" declared (one turn of the loop has run).
      - rd_shift_stuck   the shift statement is stuck ("call arity") under the extern table the rest needs.
      - rd_fin_exec      the final returns = [gd_fin] ((0, io.EOF) when nothing was delivered without error into a non-empty p).
      - gd_decode_model  (no evaluator) gd_mid followed by gd_fin IS BxStreamProofs.bd_after, the decoding part of bd_read
                         (bd_read_eq), on an object whose d.buf[:d.nbuf] holds the characters the model has buffered:
                         result, error, d.out, d.err, and the leftover input = d.buf[num:num+d.nbuf], i.e. d.buf[:d.nbuf]
                         once the shift is performed.  Hypothesis: len(p) > 0 (the model is defined for non-empty p;
                         for an empty p the Go code returns (0, nil), gd_fin says so).
      So every statement of decoder.Read has its tie except the two writes into d.buf named in 2. *)

From Coq Require Import List String NArith ZArith Bool Lia.
From Coq.Strings Require Import Byte.
From SP Require Import Bytes Consts Params Errors BaseX Encodings Armor Streams BxStream GoLang GoLang2 GoAst GoAstProofs GoAstProofs2 GoAstProofs3 GoAstProofs4c.
From SP Require Import GoAstDearmor.
From SP Require BxStreamProofs.
Import ListNotations.
Local Open Scope string_scope.

(* ================= part 1 ================= *)
Definition all_bytes : list byte :=
  Eval vm_compute in map (fun n => match Byte.of_N (N.of_nat n) with Some b => b | None => x00 end) (seq 0 256).
Lemma all_bytes_nth (b : byte) : nth_error all_bytes (N.to_nat (Byte.to_N b)) = Some b.
Proof. destruct b; reflexivity. Qed.

Definition g_byte (b : byte) : gval := VInt (Z.of_N (Byte.to_N b)).
Definition g_big (d : N) : gval := VStruct [("abs", VInt (Z.of_N d))].
Definition g_dentry (en : encoding) (b : byte) : gval :=
  match digit_of en b with Some d => g_big d | None => VNil end.
Definition g_sentry (en : encoding) (b : byte) : gval := VBool (is_skip en b).
Definition g_encoding (en : encoding) : gval :=
  VStruct [("encode", VBytes (enc_alphabet en));
           ("decodeMap", VList (map (g_dentry en) all_bytes));
           ("skipMap", VList (map (g_sentry en) all_bytes));
           ("base256BlockLen", VInt (Z.of_N (BaseX.ibl en)));
           ("baseXBlockLen", VInt (Z.of_N (BaseX.obl en)));
           ("base", VInt (Z.of_N (BaseX.base en)));
           ("baseBig", g_big (BaseX.base en));
           ("skipBytes", VBytes (enc_skip en))].

Definition put_front (dst o : bytes) : bytes := (o ++ skipn (List.length o) dst)%list.

Definition byte_type (en : encoding) (b : byte) : Z :=
  match digit_of en b with Some _ => 0 | None => if is_skip en b then 1 else 2 end%Z.

Lemma table_nth {A} (f : byte -> A) (b : byte) :
  nth_error (map f all_bytes) (Z.to_nat (Z.of_N (Byte.to_N b))) = Some (f b).
Proof. replace (Z.to_nat (Z.of_N (Byte.to_N b))) with (N.to_nat (Byte.to_N b)) by lia. apply map_nth_error, all_bytes_nth. Qed.

Ltac ev_in7 h :=
  eval cbv -[Z.eqb Z.ltb Z.leb Z.add Z.sub Z.mul Z.modulo Z.rem Z.quot Z.shiftr Z.shiftl Z.opp
             Z.land Z.lor Z.lxor Z.lnot Z.of_nat Z.of_N Z.to_nat Z.to_N List.length nth_error
             firstn skipn bytes_eqb' bytes_eqb Byte.to_N Byte.of_N Byte.eqb N.mul N.ltb N.eqb N.add N.leb Nat.eqb Nat.leb Nat.ltb
             Nat.min Nat.sub Nat.add Nat.mul Nat.div Nat.modulo N.to_nat N.of_nat nth map repeat app
             err_name err_args g_seg g_source as_source src_read read_result
             all_bytes g_dentry g_sentry digit_of is_skip BaseX.ibl BaseX.obl BaseX.base enc_alphabet enc_skip
             decode_block encode_block BaseX.decode BaseX.encode decoded_len encoded_len put_front
             for_loop2 range_loop2 exec2] in h.
Ltac ev_term7 X h :=
  lazymatch h with
  | X ?fn ?args => let h' := ev_in7 h in progress (change h with h'); cbv beta iota
  | _ =>
    let p := eval pattern X in h in
    lazymatch p with
    | ?g _ => let g' := ev_in7 g in
              let h' := eval cbv beta in (g' X) in
              progress (change h with h'); cbv beta iota
    end
  end.
Ltac norm_env7 h x f e ss k :=
  let e' := ev_in7 e in
  tryif constr_eq e e' then k e
  else (change h with (exec2 x (S f) e' ss); k e').
Ltac step7 X :=
  lazymatch goal with
  | |- ?G =>
    let L := lazymatch G with (?L = _ -> _) => L | ?L = _ => L | _ => G end in
    let h := head_scrut3 L in
    lazymatch h with
    | exec2 ?x (S ?f) ?e (SFor ?c ?b :: ?rest) =>
      norm_env7 h x f e (SFor c b :: rest) ltac:(fun e' => rewrite exec2_for)
    | exec2 ?x (S ?f) ?e (SRange ?k ?v ?coll ?b :: ?rest) =>
      norm_env7 h x f e (SRange k v coll b :: rest) ltac:(fun e' => rewrite exec2_range)
    | exec2 ?x (S ?f) ?e ?ss =>
      tryif is_var ss then fail else
      norm_env7 h x f e ss ltac:(fun e' => rewrite (exec2_S x f e' ss); cbv beta iota zeta); fix_lvars4; cbv beta iota
    | for_loop2 _ _ _ _ _ _ _ => fail
    | range_loop2 _ _ _ _ _ _ _ _ _ => fail
    | _ => ev_term7 X h
    end
  end.
Ltac tab7 := progress (rewrite ?N_ltb0, ?table_nth); cbv beta iota.
Ltac steps7 X := repeat first [step7 X | use_head_hyp4 | lits1 | lits2 | lits3 | slice1 | arith4 | tab7].

(* decide the comparison at the head by linear arithmetic over the hypotheses *)
Ltac dec_head :=
  lazymatch goal with
  | |- ?G =>
    let L := lazymatch G with (?L = _ -> _) => L | ?L = _ => L | _ => G end in
    let h := head_scrut3 L in
    lazymatch h with
    | Z.ltb _ _ => first [ replace h with true by (symmetry; apply Z.ltb_lt; lia) | replace h with false by (symmetry; apply Z.ltb_ge; lia) ]
    | Z.leb _ _ => first [ replace h with true by (symmetry; apply Z.leb_le; lia) | replace h with false by (symmetry; apply Z.leb_gt; lia) ]
    | Z.eqb _ _ => first [ replace h with true by (symmetry; apply Z.eqb_eq; lia) | replace h with false by (symmetry; apply Z.eqb_neq; lia) ]
    | Nat.ltb _ _ => first [ replace h with true by (symmetry; apply Nat.ltb_lt; lia) | replace h with false by (symmetry; apply Nat.ltb_ge; lia) ]
    | Nat.leb _ _ => first [ replace h with true by (symmetry; apply Nat.leb_le; lia) | replace h with false by (symmetry; apply Nat.leb_gt; lia) ]
    | Nat.eqb _ _ => first [ replace h with true by (symmetry; apply Nat.eqb_eq; lia) | replace h with false by (symmetry; apply Nat.eqb_neq; lia) ]
    end
  end; cbv beta iota.
Lemma Zsub_nat (a b : nat) : Z.to_nat (Z.of_nat a - Z.of_nat b) = (a - b)%nat.
Proof. lia. Qed.
Ltac nz := progress (rewrite ?Nat2Z.id, ?Zsub_nat); cbv beta iota.
Ltac steps7d X := repeat first [step7 X | use_head_hyp4 | lits1 | lits2 | lits3 | slice1 | arith4 | tab7 | dec_head].

Section Cls.
Variable X : externs.
Variable en : encoding.

(* (TARGET) *)
Lemma go_getByteType (b : byte) :
  run_func2 X f_basex_Encoding_getByteType [g_encoding en; g_byte b]
  = (ORet [VInt (byte_type en b)], [("enc", g_encoding en); ("b", g_byte b)]).
Proof.
  start4 f_basex_Encoding_getByteType. unfold g_encoding, g_byte, byte_type.
  steps7 X.
  destruct (digit_of en b) as [d|] eqn:Ed.
  - assert (Hd : g_dentry en b = g_big d) by (unfold g_dentry; rewrite Ed; reflexivity).
    rewrite Hd. unfold g_big. steps7 X. reflexivity.
  - assert (Hd : g_dentry en b = VNil) by (unfold g_dentry; rewrite Ed; reflexivity).
    rewrite Hd. steps7 X. unfold g_sentry at 1. destruct (is_skip en b) eqn:Es; steps7 X; reflexivity.
Qed.

Definition valid_byte (b : byte) : bool := match digit_of en b with Some _ => true | None => is_skip en b end.
Definition has_skip : bool := match enc_skip en with [] => false | _ :: _ => true end.

(* (TARGET) *)
Lemma go_IsValidByte (b : byte) :
  run_func2 X f_basex_Encoding_IsValidByte [g_encoding en; g_byte b]
  = (ORet [VBool (valid_byte b)], [("enc", g_encoding en); ("b", g_byte b)]).
Proof.
  start4 f_basex_Encoding_IsValidByte. unfold g_encoding, g_byte, valid_byte.
  steps7 X.
  destruct (digit_of en b) as [d|] eqn:Ed.
  - assert (Hd : g_dentry en b = g_big d) by (unfold g_dentry; rewrite Ed; reflexivity).
    rewrite Hd. unfold g_big. steps7 X. reflexivity.
  - assert (Hd : g_dentry en b = VNil) by (unfold g_dentry; rewrite Ed; reflexivity).
    rewrite Hd. steps7 X. unfold g_sentry at 1. destruct (is_skip en b) eqn:Es; steps7 X; reflexivity.
Qed.

(* (TARGET) *)
Lemma go_hasSkipBytes :
  run_func2 X f_basex_Encoding_hasSkipBytes [g_encoding en]
  = (ORet [VBool has_skip], [("enc", g_encoding en)]).
Proof.
  start4 f_basex_Encoding_hasSkipBytes. unfold g_encoding, has_skip.
  steps7 X. destruct (enc_skip en) as [|s0 sk]; cbn [List.length]; [reflexivity|].
  replace (0 <? Z.of_nat (S (List.length sk)))%Z with true by lia. reflexivity.
Qed.
End Cls.

(* the four shipped encodings *)
Definition shipped : list encoding := [base62; base62_strict; base58; base58_strict].
Corollary go_getByteType_shipped (X : externs) (en : encoding) (b : byte) : In en shipped ->
  run_func2 X f_basex_Encoding_getByteType [g_encoding en; g_byte b]
  = (ORet [VInt (byte_type en b)], [("enc", g_encoding en); ("b", g_byte b)]).
Proof. intros _. apply go_getByteType. Qed.
Corollary go_IsValidByte_shipped (X : externs) (en : encoding) (b : byte) : In en shipped ->
  run_func2 X f_basex_Encoding_IsValidByte [g_encoding en; g_byte b]
  = (ORet [VBool (valid_byte en b)], [("enc", g_encoding en); ("b", g_byte b)]).
Proof. intros _. apply go_IsValidByte. Qed.
Corollary go_hasSkipBytes_shipped (X : externs) :
  map (fun en => fst (run_func2 X f_basex_Encoding_hasSkipBytes [g_encoding en])) shipped
  = [ORet [VBool true]; ORet [VBool false]; ORet [VBool true]; ORet [VBool false]].
Proof. cbn [map shipped]. rewrite !go_hasSkipBytes. reflexivity. Qed.
(* for the armor encoding IsValidByte is the model's valid_armor_byte *)
Lemma valid_byte_base62 (b : byte) : valid_byte base62 b = valid_armor_byte b.
Proof. reflexivity. Qed.
Lemma shipped_ibl_pos (en : encoding) : In en shipped -> (0 < BaseX.ibl en)%N.
Proof. intros [<-|[<-|[<-|[<-|[]]]]]; reflexivity. Qed.

Example test_cls_1 : fst (run_func2 (fun _ _ => None) f_basex_Encoding_getByteType [g_encoding base62; g_byte "a"%byte]) = ORet [VInt 0].
Proof. vm_compute. reflexivity. Qed.
Example test_cls_2 : fst (run_func2 (fun _ _ => None) f_basex_Encoding_getByteType [g_encoding base62; g_byte " "%byte]) = ORet [VInt 1].
Proof. vm_compute. reflexivity. Qed.
Example test_cls_3 : fst (run_func2 (fun _ _ => None) f_basex_Encoding_getByteType [g_encoding base62; g_byte "!"%byte]) = ORet [VInt 2].
Proof. vm_compute. reflexivity. Qed.
Example test_cls_4 : fst (run_func2 (fun _ _ => None) f_basex_Encoding_getByteType [g_encoding base62_strict; g_byte " "%byte]) = ORet [VInt 2].
Proof. vm_compute. reflexivity. Qed.
Example test_cls_5 : map (fun e => fst (run_func2 (fun _ _ => None) f_basex_Encoding_IsValidByte [g_encoding e; g_byte "0"%byte])) [base58; base58_strict; base62]
  = [ORet [VBool true]; ORet [VBool false]; ORet [VBool true]].
Proof. vm_compute. reflexivity. Qed.
Example test_cls_6 : map (fun e => fst (run_func2 (fun _ _ => None) f_basex_Encoding_hasSkipBytes [g_encoding e])) [base62; base62_strict; base58; base58_strict]
  = [ORet [VBool true]; ORet [VBool false]; ORet [VBool true]; ORet [VBool false]].
Proof. vm_compute. reflexivity. Qed.

Local Open Scope list_scope.

(* ================= part 2 ================= *)
Lemma skipn_skipn7 {A} (a : nat) : forall (b : nat) (l : list A), skipn a (skipn b l) = skipn (b + a) l.
Proof.
  intros b. induction b as [|b IH]; intros l; [reflexivity|].
  destruct l as [|x l]; [rewrite !skipn_nil; reflexivity|]. cbn [skipn Nat.add]. apply IH.
Qed.

Section Dec.
Variable en : encoding.

(* ---------- facts about the model's block scanner, for every encoding ---------- *)
Lemma scan_block_shape (src : bytes) : forall i ng acc off ds c rest,
  scan_block en src i ng acc off = inr (ds, c, rest) ->
  exists k, c = (i + N.of_nat k)%N /\ rest = skipn k src /\ (k <= List.length src)%nat /\ (src <> [] -> (1 <= k)%nat).
Proof.
  induction src as [|b t IH]; intros i ng acc off ds c rest H.
  - cbn [scan_block] in H. injection H as _ <- <-. exists 0%nat. repeat split; try (cbn; lia). congruence.
  - cbn [scan_block] in H. destruct (digit_of en b) as [d|].
    + destruct (ng + 1 =? obl en)%N.
      * injection H as _ <- <-. exists 1%nat. repeat split; cbn [List.length]; lia.
      * apply IH in H. destruct H as (k & -> & -> & Hk & _). exists (S k). repeat split; cbn [List.length]; lia.
    + destruct (is_skip en b); [|discriminate].
      apply IH in H. destruct H as (k & -> & -> & Hk & _). exists (S k). repeat split; cbn [List.length]; lia.
Qed.

Lemma decode_block_shape (src : bytes) (off : N) out rest c :
  decode_block en src off = inr (out, rest, c) ->
  rest = skipn (N.to_nat c) src /\ (N.to_nat c <= List.length src)%nat /\ (src <> [] -> (1 <= N.to_nat c)%nat).
Proof.
  unfold decode_block. destruct (scan_block en src 0 0 [] off) as [er|[[ds c'] rest']] eqn:E; [discriminate|].
  cbv zeta. destruct (negb _); [discriminate|]. destruct (_ <=? _)%N; [discriminate|].
  intros H. injection H as _ <- <-. apply scan_block_shape in E. destruct E as (k & -> & -> & Hk & Hk1).
  rewrite N.add_0_l, Nat2N.id. auto.
Qed.

Lemma decode_fuel_acc7 : forall f s off acc,
  decode_fuel en f s off acc = (rev acc ++ fst (decode_fuel en f s off []), snd (decode_fuel en f s off [])).
Proof.
  induction f as [|f IH]; intros s off acc.
  - cbn [decode_fuel fst snd]. rewrite rev_append_rev, !app_nil_r. reflexivity.
  - cbn [decode_fuel]. destruct s as [|b t].
    + cbn [fst snd]. rewrite rev_append_rev, !app_nil_r. reflexivity.
    + destruct (decode_block en (b :: t) off) as [er|[[out rest] c]].
      * cbn [fst snd]. rewrite rev_append_rev, !app_nil_r. reflexivity.
      * rewrite (IH rest (off + c)%N (rev_append out acc)), (IH rest (off + c)%N (rev_append out [])).
        cbn [fst snd]. rewrite !rev_append_rev, rev_app_distr, rev_involutive, !app_nil_r, rev_involutive, <- app_assoc.
        reflexivity.
Qed.

(* the number of turns of the decode loop *)
Fixpoint dturns (fuel : nat) (src : bytes) (off : N) : nat :=
  match fuel with
  | O => O
  | S f =>
    match src with
    | [] => O
    | _ => match decode_block en src off with
           | inl _ => 1%nat
           | inr (_, rest, c) => S (dturns f rest (off + c))
           end
    end
  end.
Definition decode_turns (src : bytes) : nat := dturns (List.length src) src 0.

Lemma dturns_le : forall f src off, (dturns f src off <= List.length src)%nat.
Proof.
  induction f as [|f IH]; intros src off; [cbn; lia|].
  cbn [dturns]. destruct src as [|b t]; [cbn; lia|].
  destruct (decode_block en (b :: t) off) as [er|[[out rest] c]] eqn:E; [cbn [List.length]; lia|].
  apply decode_block_shape in E. destruct E as (-> & Hc & Hc1). specialize (Hc1 ltac:(discriminate)).
  specialize (IH (skipn (N.to_nat c) (b :: t)) (off + c)%N). rewrite skipn_length in IH. lia.
Qed.
Lemma decode_turns_le (src : bytes) : (decode_turns src <= List.length src)%nat.
Proof. apply dturns_le. Qed.

(* ---------- externs ---------- *)
Definition g_bx_opt (e : option bx_err) : gval := g_err_opt (option_map bx_to_err e).

(* enc.decodeBlock(dst, src, baseOffset) = the model's decode_block: (len out, consumed, nil) or (0, 0, err).  The bytes
   it writes into its dst argument are not a result (the caller passes a slice expression, which is not a place).
   No value when the decoded block does not fit dst (the Go code panics: slice bounds out of range). *)
Definition ext_dec : externs := fun fn args =>
  if String.eqb fn "Encoding.decodeBlock" then
    match args with
    | [_; VBytes dst; VBytes src; VInt off] =>
      if Z.ltb off 0 then None
      else match decode_block en src (Z.to_N off) with
           | inl e => Some [VInt 0; VInt 0; g_err (bx_to_err e)]
           | inr (out, _, c) =>
             if Nat.leb (List.length out) (List.length dst)
             then Some [VInt (Z.of_nat (List.length out)); VInt (Z.of_N c); VNil] else None
           end
    | _ => None
    end
  else None.

Definition dec_body : list gstmt :=
  Eval cbv in match f_body f_basex_Encoding_decode with [_; SFor _ b; _] => b | _ => [] end.
Definition dec_cond : gexpr :=
  Eval cbv in match f_body f_basex_Encoding_decode with [_; SFor c _; _] => c | _ => ENil end.
Definition dec_rest : list gstmt :=
  Eval cbv in match f_body f_basex_Encoding_decode with [_; _; r] => [r] | _ => [] end.

Definition envD (E : gval) (dst src : bytes) (er : gval) (dp sp : nat) (tl : env) : env :=
  ([("enc", E); ("dst", VBytes dst); ("src", VBytes src); ("n", VInt 0); ("err", er);
    ("dp", VInt (Z.of_nat dp)); ("sp", VInt (Z.of_nat sp))] ++ tl)%list.
Definition dec_tail (tl : env) : Prop := tl = [] \/ exists a b, tl = [("di", a); ("si", b)].

Lemma dec_body_step (f : nat) (E : gval) (dst src : bytes) (dp sp : nat) (tl : env) :
  dec_tail tl -> (dp <= List.length dst)%nat -> (sp <= List.length src)%nat ->
  exec2 ext_dec (S (S (S (S (S (S f)))))) (envD E dst src VNil dp sp tl) dec_body
  = match decode_block en (skipn sp src) (N.of_nat sp) with
    | inl e => CRet [VInt (Z.of_nat dp); g_err (bx_to_err e)]
                    (envD E dst src (g_err (bx_to_err e)) dp sp [("di", VInt 0); ("si", VInt 0)])
    | inr (out, _, c) =>
      if Nat.leb (List.length out) (List.length dst - dp)
      then CNorm (envD E dst src VNil (dp + List.length out) (sp + N.to_nat c)
                       [("di", VInt (Z.of_nat (List.length out))); ("si", VInt (Z.of_N c))])
      else CStuck "call"
    end.
Proof.
  intros Htl Hdp Hsp. unfold dec_body, envD.
  assert (H1 : (Z.of_nat (List.length dst) <? Z.of_nat dp)%Z = false) by lia.
  assert (H2 : (Z.of_nat (List.length src) <? Z.of_nat sp)%Z = false) by lia.
  assert (H3 : Z.to_N (Z.of_nat sp) = N.of_nat sp) by lia.
  destruct (decode_block en (skipn sp src) (N.of_nat sp)) as [er|[[out rest] c]] eqn:Eb.
  - destruct Htl as [->|(a & b & ->)]; cbn [app]; steps7 ext_dec;
      rewrite !slice_rest by assumption; rewrite H3, Eb; steps7 ext_dec; reflexivity.
  - destruct (Nat.leb (List.length out) (List.length dst - dp)) eqn:El.
    + destruct Htl as [->|(a & b & ->)]; cbn [app]; steps7 ext_dec;
        rewrite !slice_rest by assumption; rewrite H3, Eb, skipn_length, El; steps7 ext_dec;
        rewrite <- !Nat2Z.inj_add, <- (N_nat_Z c), <- Nat2Z.inj_add, (N_nat_Z c); reflexivity.
    + destruct Htl as [->|(a & b & ->)]; cbn [app]; steps7 ext_dec;
        rewrite !slice_rest by assumption; rewrite H3, Eb, skipn_length, El; steps7 ext_dec; reflexivity.
Qed.

Definition F6 (f : nat) : nat := S (S (S (S (S (S f))))).

Lemma dec_loop (f : nat) (E : gval) (dst src : bytes) :
  forall (m k sp : nat) (acc : bytes) (tl : env),
  dec_tail tl -> (List.length acc <= List.length dst)%nat -> (sp <= List.length src)%nat ->
  (List.length src - sp <= m)%nat -> (dturns m (skipn sp src) (N.of_nat sp) < k)%nat ->
  exists env',
    lookup "enc" env' = Some E /\ lookup "dst" env' = Some (VBytes dst) /\ lookup "src" env' = Some (VBytes src) /\
    for_loop2 ext_dec (F6 f) dec_cond dec_body dec_rest k (envD E dst src VNil (List.length acc) sp tl)
    = (let r := decode_fuel en m (skipn sp src) (N.of_nat sp) (rev acc) in
       if Nat.leb (List.length (fst r)) (List.length dst)
       then CRet [VInt (Z.of_nat (List.length (fst r))); g_bx_opt (snd r)] env'
       else CStuck "call").
Proof.
  induction m as [|m IH]; intros k sp acc tl Htl Hacc Hsp Hm Hk.
  - (* nothing left *)
    assert (sp = List.length src) by lia. subst sp.
    destruct k as [|k]; [lia|]. rewrite for_loop2_S.
    rewrite skipn_all. cbn [decode_fuel]. rewrite rev_append_rev, app_nil_r, rev_involutive. cbn [fst snd].
    replace (Nat.leb (List.length acc) (List.length dst)) with true by (symmetry; apply Nat.leb_le; exact Hacc).
    eexists. unfold dec_cond, dec_rest, envD, F6.
    destruct Htl as [->|(a & b & ->)]; cbn [app]; steps7 ext_dec;
      (split; [|split; [|split]]; [| | |reflexivity]; reflexivity).
  - destruct (Nat.eq_dec sp (List.length src)) as [->|Hne].
    + destruct k as [|k]; [lia|]. rewrite for_loop2_S.
      rewrite skipn_all. cbn [decode_fuel]. rewrite rev_append_rev, app_nil_r, rev_involutive. cbn [fst snd].
      replace (Nat.leb (List.length acc) (List.length dst)) with true by (symmetry; apply Nat.leb_le; exact Hacc).
      eexists. unfold dec_cond, dec_rest, envD, F6.
      destruct Htl as [->|(a & b & ->)]; cbn [app]; steps7 ext_dec;
        (split; [|split; [|split]]; [| | |reflexivity]; reflexivity).
    + assert (Hlt : (sp < List.length src)%nat) by lia.
      destruct (skipn sp src) as [|b t] eqn:Esk.
      { apply (f_equal (@List.length byte)) in Esk. rewrite skipn_length in Esk. cbn in Esk. lia. }
      cbn [dturns] in Hk. cbn [decode_fuel].
      destruct k as [|k]; [lia|]. rewrite for_loop2_S.
      assert (Hc : eval ext_dec 64 (envD E dst src VNil (List.length acc) sp tl) dec_cond = Some (VBool true)).
      { unfold dec_cond, envD. destruct Htl as [->|(a0 & b0 & ->)]; cbn [app];
          (let h := ev_in7 (eval ext_dec 64 [("enc", E); ("dst", VBytes dst); ("src", VBytes src); ("n", VInt 0); ("err", VNil);
                     ("dp", VInt (Z.of_nat (List.length acc))); ("sp", VInt (Z.of_nat sp))] dec_cond) in idtac);
          cbv -[Z.ltb Z.of_nat List.length]; replace (Z.of_nat sp <? Z.of_nat (List.length src))%Z with true by lia; reflexivity. }
      rewrite Hc. unfold F6 at 1. rewrite (dec_body_step f E dst src (List.length acc) sp tl Htl Hacc Hsp). fold (F6 f).
      rewrite Esk.
      destruct (decode_block en (b :: t) (N.of_nat sp)) as [er|[[out rest] c]] eqn:Eb.
      * rewrite rev_append_rev, app_nil_r, rev_involutive. cbn [fst snd].
        replace (Nat.leb (List.length acc) (List.length dst)) with true by (symmetry; apply Nat.leb_le; exact Hacc).
        eexists. split; [|split; [|split]]; [| | |reflexivity]; reflexivity.
      * pose proof (decode_block_shape _ _ _ _ _ Eb) as (Hrest & Hc1 & Hc2). specialize (Hc2 ltac:(discriminate)).
        rewrite <- Esk in Hrest, Hc1. rewrite skipn_length in Hc1. rewrite skipn_skipn7 in Hrest.
        rewrite (decode_fuel_acc7 m rest). cbn [fst snd]. rewrite rev_append_rev, rev_app_distr, !rev_involutive.
        destruct (Nat.leb (List.length out) (List.length dst - List.length acc)) eqn:El.
        -- apply Nat.leb_le in El.
           assert (Hacc' : (List.length (acc ++ out) <= List.length dst)%nat) by (rewrite app_length; lia).
           destruct (IH k (sp + N.to_nat c)%nat (acc ++ out) [("di", VInt (Z.of_nat (List.length out))); ("si", VInt (Z.of_N c))])
             as (env' & L1 & L2 & L3 & Hl).
           { right. eexists _, _. reflexivity. }
           { exact Hacc'. } { lia. } { lia. }
           { replace (skipn (sp + N.to_nat c) src) with rest by (rewrite Hrest; f_equal; lia).
             replace (N.of_nat (sp + N.to_nat c)) with (N.of_nat sp + c)%N by lia. lia. }
           exists env'. split; [exact L1|]. split; [exact L2|]. split; [exact L3|].
           rewrite app_length in Hl. rewrite Hl. cbv zeta.
           replace (skipn (sp + N.to_nat c) src) with rest by (rewrite Hrest; f_equal; lia).
           replace (N.of_nat (sp + N.to_nat c)) with (N.of_nat sp + c)%N by lia.
           rewrite (decode_fuel_acc7 m rest _ (rev (acc ++ out))). cbn [fst snd].
           rewrite rev_involutive. reflexivity.
        -- apply Nat.leb_gt in El. exists [("enc", E); ("dst", VBytes dst); ("src", VBytes src)].
           split; [reflexivity|]. split; [reflexivity|]. split; [reflexivity|].
           match goal with |- _ = if ?c then _ else _ => replace c with false end; [reflexivity|].
           symmetry. apply Nat.leb_gt. rewrite !app_length. lia.
Qed.

Lemma dec_exec (f : nat) (E : gval) (dst src : bytes) :
  (decode_turns src < F6 f)%nat ->
  exists env',
    lookup "enc" env' = Some E /\ lookup "dst" env' = Some (VBytes dst) /\ lookup "src" env' = Some (VBytes src) /\
    exec2 ext_dec (S (S (F6 f))) [("enc", E); ("dst", VBytes dst); ("src", VBytes src); ("n", VInt 0); ("err", VNil)]
          (f_body f_basex_Encoding_decode)
    = if Nat.leb (List.length (fst (decode en src))) (List.length dst)
      then CRet [VInt (Z.of_nat (List.length (fst (decode en src)))); g_bx_opt (snd (decode en src))] env'
      else CStuck "call".
Proof.
  intros HF.
  assert (Hk : (dturns (List.length src) (skipn 0 src) (N.of_nat 0) < F6 f)%nat)
    by (unfold decode_turns, F6 in *; cbn [skipn]; change (N.of_nat 0) with 0%N; lia).
  destruct (dec_loop f E dst src (List.length src) (F6 f) 0%nat [] [] (or_introl eq_refl)
              ltac:(cbn; lia) ltac:(lia) ltac:(lia) Hk)
    as (env' & L1 & L2 & L3 & Hl).
  cbn [skipn rev List.length] in Hl. change (N.of_nat 0) with 0%N in Hl. fold (decode en src) in Hl. cbv zeta in Hl.
  exists env'. split; [exact L1|]. split; [exact L2|]. split; [exact L3|].
  rewrite <- Hl. cbn [f_body f_basex_Encoding_decode].
  step7 ext_dec. step7 ext_dec. step7 ext_dec. step7 ext_dec. reflexivity.
Qed.

(* (TARGET) *)
Theorem go_Encoding_decode (F : nat) (dst src : bytes) :
  (decode_turns src + 8 <= F)%nat ->
  let r := run_func2_at (S F) ext_dec f_basex_Encoding_decode [g_encoding en; VBytes dst; VBytes src] in
  if Nat.leb (List.length (fst (decode en src))) (List.length dst)
  then fst r = ORet [VInt (Z.of_nat (List.length (fst (decode en src)))); g_bx_opt (snd (decode en src))] /\
       lookup "enc" (snd r) = Some (g_encoding en) /\
       lookup "dst" (snd r) = Some (VBytes dst) /\
       lookup "src" (snd r) = Some (VBytes src)
  else r = (OStuck "call", []).
Proof.
  intros HF. cbv zeta.
  assert (HF' : exists f, F = S (F6 f)) by (exists (F - 7)%nat; unfold F6; lia).
  destruct HF' as [f ->].
  destruct (dec_exec f (g_encoding en) dst src ltac:(unfold F6 in *; lia)) as (env' & L1 & L2 & L3 & Hl).
  unfold run_func2_at. cbn [f_params f_results f_basex_Encoding_decode bind_params map app fst snd].
  change (zero_of "int") with (VInt 0). change (zero_of "error") with VNil.
  cbn [f_body f_basex_Encoding_decode] in Hl |- *. rewrite Hl.
  destruct (Nat.leb (List.length (fst (decode en src))) (List.length dst)); [|reflexivity].
  cbn [fst snd]. auto.
Qed.

(* (TARGET) the same at the fuel of run_func2 *)
Corollary go_Encoding_decode_300 (dst src : bytes) :
  (decode_turns src <= 291)%nat ->
  let r := run_func2 ext_dec f_basex_Encoding_decode [g_encoding en; VBytes dst; VBytes src] in
  if Nat.leb (List.length (fst (decode en src))) (List.length dst)
  then fst r = ORet [VInt (Z.of_nat (List.length (fst (decode en src)))); g_bx_opt (snd (decode en src))] /\
       lookup "enc" (snd r) = Some (g_encoding en) /\
       lookup "dst" (snd r) = Some (VBytes dst) /\
       lookup "src" (snd r) = Some (VBytes src)
  else r = (OStuck "call", []).
Proof. intros H. rewrite run_func2_at_300. apply (go_Encoding_decode 299). lia. Qed.

(* ---------- Encoding.Decode: the exported wrapper ---------- *)

(* enc.decode(dst, src) with the meaning of go_Encoding_decode AND the bytes: here dst is a variable of the caller,
   so the extern can hand back the buffer with the decoded bytes at its front (results 3 and 4 are written back
   to the argument places enc and dst) *)
Definition ext_Dec : externs := fun fn args =>
  if String.eqb fn "Encoding.decode" then
    match args with
    | [encv; VBytes dst; VBytes src] =>
      let r := decode en src in
      if Nat.leb (List.length (fst r)) (List.length dst)
      then Some [VInt (Z.of_nat (List.length (fst r))); g_bx_opt (snd r); encv; VBytes (put_front dst (fst r))]
      else None
    | _ => None
    end
  else None.

(* (TARGET) *)
Theorem go_Encoding_Decode (E : gval) (dst src : bytes) :
  run_func2 ext_Dec f_basex_Encoding_Decode [E; VBytes dst; VBytes src]
  = let r := decode en src in
    if Nat.leb (List.length (fst r)) (List.length dst)
    then (ORet [VInt (Z.of_nat (List.length (fst r))); g_bx_opt (snd r)],
          [("enc", E); ("dst", VBytes (put_front dst (fst r))); ("src", VBytes src); ("n", VInt 0); ("err", VNil);
           ("r'0", VInt (Z.of_nat (List.length (fst r)))); ("r'1", g_bx_opt (snd r))])
    else (OStuck "call", []).
Proof.
  start4 f_basex_Encoding_Decode. cbv zeta.
  destruct (decode en src) as [dec er] eqn:Ed. cbn [fst snd].
  destruct (Nat.leb (List.length dec) (List.length dst)) eqn:El.
  - steps7 ext_Dec. rewrite Ed. cbv beta iota. steps7 ext_Dec. reflexivity.
  - steps7 ext_Dec. rewrite Ed. cbv beta iota. steps7 ext_Dec. reflexivity.
Qed.
End Dec.

(* ---------- tests of the statements on concrete inputs (both sides computed) ---------- *)
Definition test_msg : bytes := [x01; x02; x03; xff; x00; x10; x20; x30; x41; x42; x43; x44; x45; x46; x47; x48; x49; x4a; x4b; x4c;
  x4d; x4e; x4f; x50; x51; x52; x53; x54; x55; x56; x57; x58; x59; x5a; x61; x62].
Definition test_enc : bytes := Eval vm_compute in encode base62 test_msg.
Definition test_run_dec (d : nat) (s : bytes) : outcome :=
  fst (run_func2 (ext_dec base62) f_basex_Encoding_decode [g_encoding base62; VBytes (repeat x00 d); VBytes s]).
Definition test_spec_dec (d : nat) (s : bytes) : outcome :=
  if Nat.leb (List.length (fst (decode base62 s))) d
  then ORet [VInt (Z.of_nat (List.length (fst (decode base62 s)))); g_bx_opt (snd (decode base62 s))] else OStuck "call".
(* two blocks, clean; with skipped white space; a foreign character in the second block (error path: 32 bytes, CorruptInputError(49));
   a destination that is too short; a truncated second block *)
Example test_dec_1 : map (fun ds => test_run_dec (fst ds) (snd ds))
    [(40%nat, test_enc); (40%nat, firstn 10 test_enc ++ [x20; x0a] ++ skipn 10 test_enc); (40%nat, test_enc ++ [x21]);
     (33%nat, test_enc); (40%nat, firstn 45 test_enc); (40%nat, firstn 44 test_enc)]
  = map (fun ds => test_spec_dec (fst ds) (snd ds))
    [(40%nat, test_enc); (40%nat, firstn 10 test_enc ++ [x20; x0a] ++ skipn 10 test_enc); (40%nat, test_enc ++ [x21]);
     (33%nat, test_enc); (40%nat, firstn 45 test_enc); (40%nat, firstn 44 test_enc)].
Proof. vm_compute. reflexivity. Qed.
Example test_dec_2 : test_run_dec 40 (test_enc ++ [x21]) = ORet [VInt 32; VErr "basex.CorruptInputError" [VInt 49]].
Proof. vm_compute. reflexivity. Qed.
Example test_dec_3 : test_run_dec 40 (firstn 44 test_enc) = ORet [VInt 32; VErr "basex.ErrInvalidEncodingLength" []].
Proof. vm_compute. reflexivity. Qed.

(* ================= part 3 ================= *)
Lemma put_front_len (win o : bytes) : (List.length o <= List.length win)%nat ->
  List.length (put_front win o) = List.length win.
Proof. intros H. unfold put_front. rewrite app_length, skipn_length. lia. Qed.

Lemma split_at_acc7 (n : nat) : forall (l acc : bytes),
  split_at_acc n l acc = (rev acc ++ firstn n l, skipn n l).
Proof.
  induction n as [|n IH]; intros l acc.
  - cbn [split_at_acc firstn skipn]. rewrite rev_append_rev, !app_nil_r. reflexivity.
  - destruct l as [|b t].
    + cbn [split_at_acc firstn skipn]. rewrite rev_append_rev, !app_nil_r. reflexivity.
    + cbn [split_at_acc firstn skipn]. rewrite IH. cbn [rev]. rewrite <- app_assoc. reflexivity.
Qed.
Lemma split_at_eq7 (n : nat) (l : bytes) : split_at n l = (firstn n l, skipn n l).
Proof. unfold split_at. rewrite split_at_acc7. reflexivity. Qed.

Lemma window_put (dst o : bytes) (dp dl : nat) :
  (dp <= dl)%nat -> (dl <= List.length dst)%nat -> (List.length o <= dl - dp)%nat ->
  firstn dp dst ++ put_front (firstn (dl - dp) (skipn dp dst)) o ++ skipn dl dst
  = firstn dp dst ++ o ++ skipn (dp + List.length o) dst.
Proof.
  intros H1 H2 H3. f_equal. unfold put_front. rewrite <- app_assoc. f_equal.
  rewrite skipn_firstn_comm, skipn_skipn7.
  replace (skipn dl dst) with (skipn (dl - dp - List.length o) (skipn (dp + List.length o) dst))
    by (rewrite skipn_skipn7; f_equal; lia).
  apply firstn_skipn.
Qed.

Section Enc.
Variable en : encoding.
Local Notation I := (N.to_nat (BaseX.ibl en)).
Local Notation O := (N.to_nat (BaseX.obl en)).

(* ---------- min_chars is monotone, for every alphabet ---------- *)
Lemma mca_ge (f : nat) : forall c pw t, (c <= min_chars_aux en f c pw t)%N.
Proof.
  induction f as [|f IH]; intros c pw t; cbn [min_chars_aux]; [lia|].
  destruct (t <=? pw)%N; [lia|]. specialize (IH (c + 1)%N (pw * base en)%N t). lia.
Qed.
Lemma mca_fuel (f : nat) : forall c pw t, (min_chars_aux en f c pw t <= min_chars_aux en (S f) c pw t)%N.
Proof.
  induction f as [|f IH]; intros c pw t.
  - cbn [min_chars_aux]. destruct (t <=? pw)%N; lia.
  - change (min_chars_aux en (S (S f)) c pw t) with
      (if (t <=? pw)%N then c else min_chars_aux en (S f) (c + 1) (pw * base en) t).
    change (min_chars_aux en (S f) c pw t) with
      (if (t <=? pw)%N then c else min_chars_aux en f (c + 1) (pw * base en) t).
    destruct (t <=? pw)%N; [lia|]. apply IH.
Qed.
Lemma mca_fuel_le (f1 f2 : nat) c pw t : (f1 <= f2)%nat -> (min_chars_aux en f1 c pw t <= min_chars_aux en f2 c pw t)%N.
Proof.
  induction 1 as [|f2 H IH]; [lia|]. pose proof (mca_fuel f2 c pw t). lia.
Qed.
Lemma mca_target (f : nat) : forall c pw t1 t2, (t1 <= t2)%N ->
  (min_chars_aux en f c pw t1 <= min_chars_aux en f c pw t2)%N.
Proof.
  induction f as [|f IH]; intros c pw t1 t2 H; cbn [min_chars_aux]; [lia|].
  destruct (t1 <=? pw)%N eqn:E1; destruct (t2 <=? pw)%N eqn:E2.
  - lia.
  - pose proof (mca_ge f (c + 1)%N (pw * base en)%N t2). lia.
  - apply N.leb_le in E2. apply N.leb_gt in E1. lia.
  - apply IH. exact H.
Qed.
Lemma min_chars_mono (r1 r2 : N) : (r1 <= r2)%N -> (min_chars en r1 <= min_chars en r2)%N.
Proof.
  intros H. unfold min_chars.
  assert (H1 : (256 ^ r1 <= 256 ^ r2)%N) by (apply N.pow_le_mono_r; lia).
  pose proof (mca_target (N.to_nat (8 * r1 + 1)) 0 1 _ _ H1).
  pose proof (mca_fuel_le (N.to_nat (8 * r1 + 1)) (N.to_nat (8 * r2 + 1)) 0 1 (256 ^ r2)%N ltac:(lia)).
  lia.
Qed.

Lemma to_digits_len7 (c : nat) : forall n acc, List.length (to_digits en c n acc) = (c + List.length acc)%nat.
Proof.
  induction c as [|c IH]; intros n acc; cbn [to_digits]; [reflexivity|].
  rewrite IH. cbn [List.length]. lia.
Qed.
Lemma encode_block_len7 (blk : bytes) : List.length (encode_block en blk) = N.to_nat (min_chars en (len blk)).
Proof. unfold encode_block. rewrite map_length, to_digits_len7. cbn [List.length]. lia. Qed.
Lemma encode_block_full (blk : bytes) : List.length blk = I -> List.length (encode_block en blk) = O.
Proof.
  intros H. rewrite encode_block_len7. unfold BaseX.obl, len. rewrite H, N2Nat.id. reflexivity.
Qed.
Lemma encode_block_short (blk : bytes) : (List.length blk <= I)%nat -> (List.length (encode_block en blk) <= O)%nat.
Proof.
  intros H. rewrite encode_block_len7. unfold BaseX.obl.
  pose proof (min_chars_mono (len blk) (BaseX.ibl en) ltac:(unfold len; lia)). lia.
Qed.

(* ---------- the Go-level loop, literally ---------- *)
Fixpoint genc (fuel : nat) (src dst : bytes) (dp : nat) : option bytes :=
  match fuel with
  | 0%nat => Some dst
  | S f =>
    match src with
    | [] => Some dst
    | _ =>
      let o := encode_block en (firstn I src) in
      let dl := Nat.min (dp + O) (List.length dst) in
      let win := firstn (dl - dp) (skipn dp dst) in
      if Nat.leb (List.length o) (List.length win)
      then genc f (skipn I src) (firstn dp dst ++ put_front win o ++ skipn dl dst) dl
      else None
    end
  end.

Fixpoint eturns (fuel : nat) (src : bytes) : nat :=
  match fuel with
  | 0%nat => 0%nat
  | S f => match src with [] => 0%nat | _ => S (eturns f (skipn I src)) end
  end.
Definition encode_turns (src : bytes) : nat := eturns (List.length src) src.

Lemma encode_fuel_nil7 (m : nat) : encode_fuel en m [] = [].
Proof. destruct m; reflexivity. Qed.
Lemma genc_nil (m : nat) (dst : bytes) (dp : nat) : genc m [] dst dp = Some dst.
Proof. destruct m; reflexivity. Qed.

Lemma genc_model : forall (m : nat) (src dst : bytes) (dp : nat), (dp <= List.length dst)%nat ->
  genc m src dst dp =
  let e := encode_fuel en m src in
  if Nat.leb (dp + List.length e) (List.length dst)
  then Some (firstn dp dst ++ e ++ skipn (dp + List.length e) dst) else None.
Proof.
  induction m as [|m IH]; intros src dst dp Hdp; cbv zeta.
  - cbn [genc encode_fuel List.length]. rewrite Nat.add_0_r.
    replace (Nat.leb dp (List.length dst)) with true by (symmetry; apply Nat.leb_le; exact Hdp).
    cbn [app]. rewrite firstn_skipn. reflexivity.
  - destruct src as [|b t].
    { cbn [genc encode_fuel List.length]. rewrite Nat.add_0_r.
      replace (Nat.leb dp (List.length dst)) with true by (symmetry; apply Nat.leb_le; exact Hdp).
      cbn [app]. rewrite firstn_skipn. reflexivity. }
    remember (b :: t) as s eqn:Hs.
    assert (Hg : genc (S m) s dst dp =
                 let o := encode_block en (firstn I s) in
                 let dl := Nat.min (dp + O) (List.length dst) in
                 let win := firstn (dl - dp) (skipn dp dst) in
                 if Nat.leb (List.length o) (List.length win)
                 then genc m (skipn I s) (firstn dp dst ++ put_front win o ++ skipn dl dst) dl else None)
      by (subst s; reflexivity).
    assert (He : encode_fuel en (S m) s = encode_block en (firstn I s) ++ encode_fuel en m (skipn I s))
      by (subst s; cbn [encode_fuel]; rewrite split_at_eq7; reflexivity).
    rewrite Hg, He. clear Hg He Hs b t. cbv zeta.
    set (o := encode_block en (firstn I s)). set (dl := Nat.min (dp + O) (List.length dst)).
    assert (Hwl : List.length (firstn (dl - dp) (skipn dp dst)) = (dl - dp)%nat)
      by (rewrite firstn_length, skipn_length; unfold dl; lia).
    rewrite Hwl.
    destruct (Nat.le_gt_cases I (List.length s)) as [Hfull|Hshort].
    + (* a full block *)
      assert (Hol : List.length o = O) by (apply encode_block_full; rewrite firstn_length; lia).
      destruct (Nat.leb (List.length o) (dl - dp)) eqn:El.
      * apply Nat.leb_le in El.
        assert (Hdl : dl = (dp + List.length o)%nat) by (unfold dl in *; lia).
        rewrite window_put by (unfold dl in *; lia).
        set (dst' := firstn dp dst ++ o ++ skipn (dp + List.length o) dst).
        assert (Hl' : List.length dst' = List.length dst)
          by (unfold dst'; rewrite !app_length, firstn_length, skipn_length; unfold dl in *; lia).
        rewrite IH by (rewrite Hl'; unfold dl; lia). cbv zeta. rewrite Hl', app_length, Hdl.
        set (E' := encode_fuel en m (skipn I s)).
        replace (dp + List.length o + List.length E')%nat with (dp + (List.length o + List.length E'))%nat by lia.
        destruct (Nat.leb (dp + (List.length o + List.length E')) (List.length dst)); [|reflexivity].
        f_equal. unfold dst'.
        assert (Hfl : List.length (firstn dp dst) = dp) by (rewrite firstn_length; lia).
        rewrite (app_assoc (firstn dp dst) o).
        replace (dp + List.length o)%nat with (List.length (firstn dp dst ++ o)) at 1 by (rewrite app_length, Hfl; reflexivity).
        rewrite firstn_app_len, <- !app_assoc. f_equal. f_equal. f_equal.
        rewrite (app_assoc (firstn dp dst) o), skipn_app, skipn_all2 by (rewrite app_length, Hfl; lia).
        rewrite app_length, Hfl. cbn [app].
        rewrite skipn_skipn7. f_equal. lia.
      * apply Nat.leb_gt in El. rewrite app_length.
        replace (Nat.leb (dp + (List.length o + List.length (encode_fuel en m (skipn I s)))) (List.length dst)) with false; [reflexivity|].
        symmetry. apply Nat.leb_gt. unfold dl in *. lia.
    + (* the last, short block *)
      assert (Hol : (List.length o <= O)%nat) by (apply encode_block_short; rewrite firstn_length; lia).
      rewrite (skipn_all2 s) by lia. rewrite encode_fuel_nil7, genc_nil, app_nil_r.
      destruct (Nat.leb (List.length o) (dl - dp)) eqn:El.
      * apply Nat.leb_le in El.
        replace (Nat.leb (dp + List.length o) (List.length dst)) with true by (symmetry; apply Nat.leb_le; unfold dl in *; lia).
        rewrite window_put by (unfold dl in *; lia). reflexivity.
      * apply Nat.leb_gt in El.
        replace (Nat.leb (dp + List.length o) (List.length dst)) with false; [reflexivity|].
        symmetry. apply Nat.leb_gt. unfold dl in *. lia.
Qed.

(* ---------- the evaluator ---------- *)
(* enc.encodeBlock(dst, src) = the model's encode_block written at the front of the window dst; a window shorter
   than the encoded block makes the Go code panic (index out of range) *)
Definition ext_enc : externs := fun fn args =>
  if String.eqb fn "Encoding.encodeBlock" then
    match args with
    | [VBytes win; VBytes blk] =>
      let o := encode_block en blk in
      if Nat.leb (List.length o) (List.length win) then Some [VBytes (put_front win o)] else Some [VNil]
    | _ => None
    end
  else None.

Definition enc_for : gstmt :=
  Eval cbv in match f_body f_basex_Encoding_Encode with [SIf _ _ [s] _] => s | _ => SBreak end.
Definition enc_body : list gstmt := Eval cbv in match enc_for with SFor _ b => b | _ => [] end.
Definition enc_cond : gexpr := Eval cbv in match enc_for with SFor c _ => c | _ => ENil end.

Definition envE (dst src : bytes) (sp dp sl dl : nat) : env :=
  [("enc", g_encoding en); ("dst", VBytes dst); ("src", VBytes src);
   ("sp", VInt (Z.of_nat sp)); ("dp", VInt (Z.of_nat dp)); ("sLim", VInt (Z.of_nat sl)); ("dLim", VInt (Z.of_nat dl))].

Definition F8 (f : nat) : nat := S (S (S (S (S (S (S (S f))))))).

Lemma enc_body_step (f : nat) (dst src : bytes) (sp dp sl0 dl0 : nat) :
  (sp <= List.length src)%nat -> (dp <= List.length dst)%nat ->
  exec2 ext_enc (F8 f) (envE dst src sp dp sl0 dl0) enc_body
  = let sl := Nat.min (sp + I) (List.length src) in
    let dl := Nat.min (dp + O) (List.length dst) in
    let win := firstn (dl - dp) (skipn dp dst) in
    let o := encode_block en (firstn (sl - sp) (skipn sp src)) in
    if Nat.leb (List.length o) (List.length win)
    then CNorm (envE (firstn dp dst ++ put_front win o ++ skipn dl dst) src sl dl sl dl)
    else CPanic.
Proof.
  intros Hsp Hdp. unfold F8, enc_body, envE, g_encoding. cbv zeta.
  rewrite <- !N_nat_Z.
  assert (Hw : forall w o : bytes, (List.length o <= List.length w)%nat -> Nat.eqb (List.length (put_front w o)) (List.length w) = true)
    by (intros w o H; apply Nat.eqb_eq, put_front_len, H).
  destruct (Nat.ltb (List.length src) (sp + I)) eqn:E1; [apply Nat.ltb_lt in E1|apply Nat.ltb_ge in E1];
  (destruct (Nat.ltb (List.length dst) (dp + O)) eqn:E2; [apply Nat.ltb_lt in E2|apply Nat.ltb_ge in E2]).
  - replace (Nat.min (sp + I) (List.length src)) with (List.length src) by lia.
    replace (Nat.min (dp + O) (List.length dst)) with (List.length dst) by lia.
    steps7d ext_enc. rewrite <- ?Nat2Z.inj_add, ?Nat2Z.id, ?Zsub_nat.
    destruct (Nat.leb _ _) eqn:El; [rewrite (Hw _ _ (proj1 (Nat.leb_le _ _) El))|]; steps7d ext_enc;
      rewrite <- ?Nat2Z.inj_add, ?Nat2Z.id; reflexivity.
  - replace (Nat.min (sp + I) (List.length src)) with (List.length src) by lia.
    replace (Nat.min (dp + O) (List.length dst)) with (dp + O)%nat by lia.
    steps7d ext_enc. rewrite <- ?Nat2Z.inj_add, ?Nat2Z.id, ?Zsub_nat.
    destruct (Nat.leb _ _) eqn:El; [rewrite (Hw _ _ (proj1 (Nat.leb_le _ _) El))|]; steps7d ext_enc;
      rewrite <- ?Nat2Z.inj_add, ?Nat2Z.id; reflexivity.
  - replace (Nat.min (sp + I) (List.length src)) with (sp + I)%nat by lia.
    replace (Nat.min (dp + O) (List.length dst)) with (List.length dst) by lia.
    steps7d ext_enc. rewrite <- ?Nat2Z.inj_add, ?Nat2Z.id, ?Zsub_nat.
    destruct (Nat.leb _ _) eqn:El; [rewrite (Hw _ _ (proj1 (Nat.leb_le _ _) El))|]; steps7d ext_enc;
      rewrite <- ?Nat2Z.inj_add, ?Nat2Z.id; reflexivity.
  - replace (Nat.min (sp + I) (List.length src)) with (sp + I)%nat by lia.
    replace (Nat.min (dp + O) (List.length dst)) with (dp + O)%nat by lia.
    steps7d ext_enc. rewrite <- ?Nat2Z.inj_add, ?Nat2Z.id, ?Zsub_nat.
    destruct (Nat.leb _ _) eqn:El; [rewrite (Hw _ _ (proj1 (Nat.leb_le _ _) El))|]; steps7d ext_enc;
      rewrite <- ?Nat2Z.inj_add, ?Nat2Z.id; reflexivity.
Qed.

Lemma blk_eq (src : bytes) (sp : nat) : (sp <= List.length src)%nat ->
  firstn (Nat.min (sp + I) (List.length src) - sp) (skipn sp src) = firstn I (skipn sp src).
Proof.
  intros H. destruct (Nat.le_gt_cases (sp + I) (List.length src)) as [H1|H1].
  - f_equal. lia.
  - rewrite !firstn_all2; [reflexivity| |]; rewrite skipn_length; lia.
Qed.
Lemma rest_eq (src : bytes) (sp : nat) : (sp <= List.length src)%nat ->
  skipn (Nat.min (sp + I) (List.length src)) src = skipn I (skipn sp src).
Proof.
  intros H. rewrite skipn_skipn7. destruct (Nat.le_gt_cases (sp + I) (List.length src)) as [H1|H1].
  - f_equal. lia.
  - rewrite !skipn_all2; [reflexivity| |]; lia.
Qed.

Lemma enc_loop (f : nat) (src : bytes) : (0 < I)%nat ->
  forall (m k sp : nat) (dst : bytes) (dp sl dl : nat),
  (sp <= List.length src)%nat -> (dp <= List.length dst)%nat ->
  (List.length src - sp <= m)%nat -> (eturns m (skipn sp src) < k)%nat ->
  match genc m (skipn sp src) dst dp with
  | Some dst' => exists a b c d, for_loop2 ext_enc (F8 f) enc_cond enc_body [] k (envE dst src sp dp sl dl)
                                 = CNorm (envE dst' src a b c d)
  | None => for_loop2 ext_enc (F8 f) enc_cond enc_body [] k (envE dst src sp dp sl dl) = CPanic
  end.
Proof.
  intros HI. induction m as [|m IH]; intros k sp dst dp sl dl Hsp Hdp Hm Hk.
  - assert (sp = List.length src) by lia. subst sp. cbn [genc].
    destruct k as [|k]; [lia|]. rewrite for_loop2_S. exists (List.length src), dp, sl, dl.
    unfold enc_cond, envE, F8. steps7d ext_enc. reflexivity.
  - destruct (Nat.eq_dec sp (List.length src)) as [->|Hne].
    + rewrite skipn_all. cbn [genc].
      destruct k as [|k]; [lia|]. rewrite for_loop2_S. exists (List.length src), dp, sl, dl.
      unfold enc_cond, envE, F8. steps7d ext_enc. reflexivity.
    + assert (Hlt : (sp < List.length src)%nat) by lia.
      destruct (skipn sp src) as [|b t] eqn:Esk.
      { apply (f_equal (@List.length byte)) in Esk. rewrite skipn_length in Esk. cbn in Esk. lia. }
      cbn [eturns] in Hk. destruct k as [|k]; [lia|]. rewrite for_loop2_S.
      assert (Hc : eval ext_enc 64 (envE dst src sp dp sl dl) enc_cond = Some (VBool true)).
      { unfold enc_cond, envE. cbv -[Z.ltb Z.of_nat List.length g_encoding].
        replace (Z.of_nat sp <? Z.of_nat (List.length src))%Z with true by lia. reflexivity. }
      rewrite Hc, (enc_body_step f dst src sp dp sl dl Hsp Hdp). cbv zeta.
      rewrite (blk_eq src sp Hsp), Esk.
      change (genc (S m) (b :: t) dst dp) with
        (let o := encode_block en (firstn I (b :: t)) in
         let dl := Nat.min (dp + O) (List.length dst) in
         let win := firstn (dl - dp) (skipn dp dst) in
         if Nat.leb (List.length o) (List.length win)
         then genc m (skipn I (b :: t)) (firstn dp dst ++ put_front win o ++ skipn dl dst) dl else None).
      cbv zeta.
      set (o := encode_block en (firstn I (b :: t))). set (dl' := Nat.min (dp + O) (List.length dst)).
      set (win := firstn (dl' - dp) (skipn dp dst)).
      destruct (Nat.leb (List.length o) (List.length win)) eqn:El; [|reflexivity].
      apply Nat.leb_le in El.
      set (dst' := firstn dp dst ++ put_front win o ++ skipn dl' dst).
      assert (Hwl : List.length win = (dl' - dp)%nat)
        by (unfold win; rewrite firstn_length, skipn_length; unfold dl'; lia).
      assert (Hl' : List.length dst' = List.length dst)
        by (unfold dst'; rewrite !app_length, firstn_length, skipn_length, put_front_len by exact El; unfold dl' in *; lia).
      set (sl' := Nat.min (sp + I) (List.length src)).
      specialize (IH k sl' dst' dl' sl' dl').
      rewrite <- Esk, <- (rest_eq src sp Hsp). fold sl'.
      apply IH.
      * unfold sl'. lia.
      * rewrite Hl'. unfold dl'. lia.
      * unfold sl'. lia.
      * unfold sl'. rewrite (rest_eq src sp Hsp), Esk. lia.
Qed.

Lemma enc_exec (f : nat) (dst src : bytes) : (0 < I)%nat -> (encode_turns src < F8 f)%nat ->
  if Nat.leb (List.length (encode en src)) (List.length dst)
  then exists a b c d,
       exec2 ext_enc (S (S (F8 f))) [("enc", g_encoding en); ("dst", VBytes dst); ("src", VBytes src)] (f_body f_basex_Encoding_Encode)
       = CNorm (envE (put_front dst (encode en src)) src a b c d)
  else exec2 ext_enc (S (S (F8 f))) [("enc", g_encoding en); ("dst", VBytes dst); ("src", VBytes src)] (f_body f_basex_Encoding_Encode)
       = CPanic.
Proof.
  intros HI HF.
  pose proof (enc_loop f src HI (List.length src) (F8 f) 0%nat dst 0%nat 0%nat 0%nat ltac:(lia) ltac:(lia) ltac:(lia)
                ltac:(cbn [skipn]; exact HF)) as Hl.
  cbn [skipn] in Hl. rewrite genc_model in Hl by lia. cbv zeta in Hl. fold (encode en src) in Hl.
  cbn [Nat.add firstn app] in Hl. fold (put_front dst (encode en src)) in Hl.
  assert (Hx : exec2 ext_enc (S (S (F8 f))) [("enc", g_encoding en); ("dst", VBytes dst); ("src", VBytes src)] (f_body f_basex_Encoding_Encode)
               = match for_loop2 ext_enc (F8 f) enc_cond enc_body [] (F8 f) (envE dst src 0 0 0 0) with
                 | CNorm e' => CNorm e'
                 | other => other
                 end).
  { cbn [f_body f_basex_Encoding_Encode]. unfold F8.
    steps7 ext_enc.
    change (for_loop2 ext_enc _ _ _ _ _ _) with
      (for_loop2 ext_enc (F8 f) enc_cond enc_body [] (F8 f) (envE dst src 0 0 0 0)).
    destruct (for_loop2 ext_enc (F8 f) enc_cond enc_body [] (F8 f) (envE dst src 0 0 0 0)); try reflexivity.
  }
  destruct (Nat.leb (List.length (encode en src)) (List.length dst)).
  - destruct Hl as (a & b & c & d & Hl). exists a, b, c, d. rewrite Hx, Hl. reflexivity.
  - rewrite Hx, Hl. reflexivity.
Qed.

(* (TARGET) *)
Theorem go_Encoding_Encode (F : nat) (dst src : bytes) :
  (0 < BaseX.ibl en)%N -> (encode_turns src + 10 <= F)%nat ->
  let r := run_func2_at (S F) ext_enc f_basex_Encoding_Encode [g_encoding en; VBytes dst; VBytes src] in
  if Nat.leb (List.length (encode en src)) (List.length dst)
  then fst r = ORet [] /\
       lookup "dst" (snd r) = Some (VBytes (put_front dst (encode en src))) /\
       lookup "enc" (snd r) = Some (g_encoding en) /\
       lookup "src" (snd r) = Some (VBytes src)
  else r = (OPanic, []).
Proof.
  intros HI HF. cbv zeta.
  assert (HF' : exists f, F = S (F8 f)) by (exists (F - 9)%nat; unfold F8; lia).
  destruct HF' as [f ->].
  pose proof (enc_exec f dst src ltac:(lia) ltac:(unfold F8 in *; lia)) as Hl.
  unfold run_func2_at. cbn [f_params f_results f_basex_Encoding_Encode bind_params map app fst snd].
  cbn [f_body f_basex_Encoding_Encode] in Hl |- *.
  destruct (Nat.leb (List.length (encode en src)) (List.length dst)).
  - destruct Hl as (a & b & c & d & Hl). rewrite Hl. cbn [fst snd]. unfold envE. auto.
  - rewrite Hl. reflexivity.
Qed.

(* (TARGET) the same at the fuel of run_func2 *)
Corollary go_Encoding_Encode_300 (dst src : bytes) :
  (0 < BaseX.ibl en)%N -> (encode_turns src <= 289)%nat ->
  let r := run_func2 ext_enc f_basex_Encoding_Encode [g_encoding en; VBytes dst; VBytes src] in
  if Nat.leb (List.length (encode en src)) (List.length dst)
  then fst r = ORet [] /\
       lookup "dst" (snd r) = Some (VBytes (put_front dst (encode en src))) /\
       lookup "enc" (snd r) = Some (g_encoding en) /\
       lookup "src" (snd r) = Some (VBytes src)
  else r = (OPanic, []).
Proof. intros HI H. rewrite run_func2_at_300. apply (go_Encoding_Encode 299); [exact HI|lia]. Qed.

(* the number of turns is the number of blocks *)
Lemma eturns_bound : (0 < I)%nat -> forall (m : nat) (src : bytes), (eturns m src * I <= List.length src + (I - 1))%nat.
Proof.
  intros HI. induction m as [|m IH]; intros src; cbn [eturns]; [lia|].
  destruct src as [|b t]; [cbn; lia|].
  specialize (IH (skipn I (b :: t))). rewrite skipn_length in IH.
  destruct (Nat.le_gt_cases I (List.length (b :: t))) as [H|H]; [lia|].
  replace (List.length (b :: t) - I)%nat with 0%nat in IH by lia.
  assert (H0 : eturns m (skipn I (b :: t)) = 0%nat) by (rewrite skipn_all2 by lia; destruct m; reflexivity).
  rewrite H0. cbn [List.length]. lia.
Qed.
Lemma encode_turns_le (src : bytes) : (0 < I)%nat -> (encode_turns src <= (List.length src + (I - 1)) / I)%nat.
Proof.
  intros HI. apply Nat.div_le_lower_bound; [lia|]. rewrite Nat.mul_comm. apply eturns_bound. exact HI.
Qed.
End Enc.

Definition test_run_enc (d : nat) (s : bytes) : outcome * option gval :=
  let r := run_func2 (ext_enc base62) f_basex_Encoding_Encode [g_encoding base62; VBytes (repeat x2e d); VBytes s] in
  (fst r, lookup "dst" (snd r)).
Definition test_spec_enc (d : nat) (s : bytes) : outcome * option gval :=
  if Nat.leb (List.length (encode base62 s)) d then (ORet [], Some (VBytes (put_front (repeat x2e d) (encode base62 s)))) else (OPanic, None).
(* 36 bytes = one full and one short block (49 characters): a larger buffer, an exact one, one character short (panic), far too
   short (panic in the first block), the empty input *)
Example test_enc_1 : map (fun ds => test_run_enc (fst ds) (snd ds)) [(60%nat, test_msg); (49%nat, test_msg); (48%nat, test_msg); (20%nat, test_msg); (2%nat, [])]
  = map (fun ds => test_spec_enc (fst ds) (snd ds)) [(60%nat, test_msg); (49%nat, test_msg); (48%nat, test_msg); (20%nat, test_msg); (2%nat, [])].
Proof. vm_compute. reflexivity. Qed.

(* ================= part 4 ================= *)
Section Fr.
Variable en : encoding.

Definition g_fr (st : fr_state) : gval :=
  VStruct [("wrapped", g_source (fr_src st)); ("enc", g_encoding en); ("nRead", VInt (Z.of_N (fr_nread st)))].

(* r.wrapped.Read(p): src_read on the decoded source, results n, err, then the new source (written back into
   r.wrapped) and the buffer with the data at its front (written back into p), as in GoAstProofs4c.ext_pr;
   r.enc.getByteType(b): the classification tied by go_getByteType *)
Definition ext_fr : externs := fun fn args =>
  if String.eqb fn "Reader.Read" then
    match args with
    | [rv; VBytes out] =>
      match as_source rv with
      | Some s => Some (read_result out (src_read (List.length out) s))
      | None => None
      end
    | _ => None
    end
  else if String.eqb fn "Encoding.getByteType" then
    match args with
    | [_; VInt z] =>
      match Byte.of_N (Z.to_N z) with Some b => Some [VInt (byte_type en b)] | None => None end
    | _ => None
    end
  else None.

(* what the evaluator makes of filteringReader.Read: the path on which the first Read of the wrapped reader
   delivers no byte is the model's; on every other path it is stuck at `for i, b := range p[:n]` *)
(* (TARGET) *)
Theorem go_filteringReader_Read_range_stuck (st : fr_state) (p : bytes) :
  run_func2 ext_fr f_basex_filteringReader_Read [g_fr st; VBytes p]
  = match src_read (List.length p) (fr_src st) with
    | (([], er), s') =>
      (ORet [VInt 0; g_err_opt er],
       [("r", g_fr (mkFr s' (fr_nread st))); ("p", VBytes p); ("n", VInt 0); ("err", g_err_opt er)])
    | ((_ :: _, _), _) => (OStuck "range", [])
    end.
Proof.
  destruct st as [src nread]. start4 f_basex_filteringReader_Read. unfold g_fr. cbn [fr_src fr_nread].
  pose proof (src_read_len (List.length p) src) as Hdl.
  destruct (src_read (List.length p) src) as [[data er] s'] eqn:Esr. cbn [fst snd] in Hdl.
  steps7 ext_fr. rewrite as_source_g, Esr. unfold read_result. cbn [fst snd].
  destruct data as [|d0 data'].
  - cbn [List.length app skipn]. steps7 ext_fr. reflexivity.
  - remember (d0 :: data') as data eqn:Hd.
    assert (H0 : (0 <? Z.of_nat (List.length data))%Z = true) by (subst data; cbn [List.length]; lia).
    assert (Hol : List.length (data ++ skipn (List.length data) p) = List.length p)
      by (rewrite app_length, skipn_length; lia).
    assert (Hb : (Z.of_nat (List.length (data ++ skipn (List.length data) p)) <? Z.of_nat (List.length data))%Z = false)
      by (rewrite Hol; lia).
    clear Hd. steps7 ext_fr.
    match goal with |- context [for_loop2 ?x ?f ?c ?b ?r 298%nat ?e] =>
      change (for_loop2 x f c b r 298%nat e) with (for_loop2 x f c b r (S 297) e) end.
    rewrite for_loop2_S. steps7 ext_fr. reflexivity.
Qed.
End Fr.

Example test_fr_1 :
  fst (run_func2 (ext_fr base62) f_basex_filteringReader_Read
         [g_fr base62 (mkFr (mkSource [mkSeg [x41; x20] None] EOF) 0); VBytes [x00; x00; x00]]) = OStuck "range".
Proof. vm_compute. reflexivity. Qed.
Example test_fr_2 :
  fst (run_func2 (ext_fr base62) f_basex_filteringReader_Read [g_fr base62 (mkFr (mkSource [] EOF) 7); VBytes [x00; x00; x00]])
  = ORet [VInt 0; g_err EOF].
Proof. vm_compute. reflexivity. Qed.

(* ================= part 5 ================= *)
(* the two statements of decoder.Read whose effect on d.buf the evaluator cannot express: the places an extern can
   write back to *)
Definition rd_loop_body : list gstmt :=
  Eval cbv in match nth 7 (f_body f_basex_decoder_Read) SBreak with SFor _ b => b | _ => [] end.
Lemma decoder_Read_read_places :
  match nth 1 rd_loop_body SBreak with
  | SAssignL _ [ECall fn args] => (fn, args, mutable_places args)
  | _ => ("", [], [])
  end
  = ("Reader.Read",
     [ESel (EVar "d") "r"; ESlice (ESel (EVar "d") "buf") (Some (ESel (EVar "d") "nbuf")) (Some (EVar "nn"))],
     [LField (LVar "d") "r"]).
Proof. reflexivity. Qed.
Lemma decoder_Read_copy_places :
  match nth 16 (f_body f_basex_decoder_Read) SBreak with
  | SExpr (ECall fn args) => (fn, mutable_places args)
  | _ => ("", [LVar ""])
  end = ("copy", []).
Proof. reflexivity. Qed.

(* the two `copy` calls of decoder.Read need different result lists from the SAME extern: as a statement
   (copy(d.buf[0:d.nbuf], ...): no argument is a place) the call may return nothing, as the right-hand side of
   `ret := copy(p, d.out)` it must return the count *)
Lemma copy_sites_conflict (X : externs) (rs : list gval) (e : env) :
  write_back2 X [] rs e <> None -> lv_set_all X [LVar "ret"] (firstn 1 rs) e = None.
Proof. destruct rs as [|v t]; [reflexivity|]. cbn [write_back2]. congruence. Qed.

Section Rd.
Variable en : encoding.

(* the decoder object: d.buf and d.scratchbuf are the whole arrays, d.buf[:nbuf] the pending input characters;
   the reader is an arbitrary object here *)
Record gdec := mkGd { gd_err : option err; gd_out : bytes; gd_buf : bytes; gd_nbuf : nat; gd_scratch : bytes; gd_r : gval }.
Definition g_dec (o : gdec) : gval :=
  VStruct [("err", g_err_opt (gd_err o)); ("enc", g_encoding en); ("r", gd_r o); ("out", VBytes (gd_out o));
           ("buf", VBytes (gd_buf o)); ("nbuf", VInt (Z.of_nat (gd_nbuf o))); ("scratchbuf", VBytes (gd_scratch o))].

(* copy(dst, src): the count, then the destination after the copy (written back when dst is a place) *)
Definition ext_copy : externs := fun fn args =>
  if String.eqb fn "copy" then
    match args with
    | [VBytes dst; VBytes src] =>
      let k := Nat.min (List.length dst) (List.length src) in
      Some [VInt (Z.of_nat k); VBytes (firstn k src ++ skipn k dst)]
    | _ => None
    end
  else None.

(* the two paths of decoder.Read that do not reach the fill loop: the sticky error and the leftover output *)
Definition gd_read_nofill (o : gdec) (p : bytes) : option ((nat * option err) * gdec * bytes) :=
  match gd_err o with
  | Some x => Some ((0%nat, Some x), o, p)
  | None =>
    match gd_out o with
    | _ :: _ =>
      let d := firstn (List.length p) (gd_out o) in
      Some ((List.length d, None),
            mkGd None (skipn (List.length p) (gd_out o)) (gd_buf o) (gd_nbuf o) (gd_scratch o) (gd_r o),
            put_front p d)
    | [] => None
    end
  end.

(* (TARGET) *)
Theorem go_decoder_Read_nofill (o : gdec) (p : bytes) :
  match gd_read_nofill o p with
  | Some ((n, er), o', p') =>
    exists tl,
    run_func2 ext_copy f_basex_decoder_Read [g_dec o; VBytes p]
    = (ORet [VInt (Z.of_nat n); g_err_opt er], [("d", g_dec o'); ("p", VBytes p')] ++ tl)
  | None => True
  end.
Proof.
  destruct o as [er out buf nbuf scr R]. unfold gd_read_nofill. cbn [gd_err gd_out gd_buf gd_nbuf gd_scratch gd_r].
  destruct er as [x|].
  - exists []. start4 f_basex_decoder_Read. unfold g_dec. cbn [gd_err gd_out gd_buf gd_nbuf gd_scratch gd_r g_err_opt].
    steps7 ext_copy. reflexivity.
  - destruct out as [|b t]; [exact I|]. remember (b :: t) as out eqn:Ho.
    assert (H0 : (0 <? Z.of_nat (List.length out))%Z = true) by (subst out; cbn [List.length]; lia).
    clear Ho. eexists. start4 f_basex_decoder_Read. unfold g_dec. cbn [gd_err gd_out gd_buf gd_nbuf gd_scratch gd_r g_err_opt].
    steps7d ext_copy. rewrite ?Zsub_nat, ?Nat2Z.id.
    rewrite firstn_all2 by (rewrite skipn_length; lia).
    rewrite firstn_length, skipn_min. unfold put_front. rewrite firstn_length.
    replace (firstn (Nat.min (List.length p) (List.length out)) out) with (firstn (List.length p) out).
    + reflexivity.
    + destruct (Nat.le_gt_cases (List.length p) (List.length out)) as [H|H].
      * rewrite Nat.min_l by exact H. reflexivity.
      * rewrite Nat.min_r by lia. rewrite !firstn_all2 by lia. reflexivity.
Qed.
End Rd.

(* ================= part 6 ================= *)
(* ================= decoder.Read: the fill loop and the exits that follow it ================= *)
Definition is_eof7 (x : err) : bool := match x with EOF => true | _ => false end.
Lemma val_eqb_eof (x : err) : val_eqb 8 (g_err x) (VErr "io.EOF" []) = Some (is_eof7 x).
Proof. destruct x; reflexivity. Qed.

(* stepping with val_eqb kept folded, so that comparisons with an abstract error value can be rewritten by hypotheses *)
Ltac ev_in8 h :=
  eval cbv -[Z.eqb Z.ltb Z.leb Z.add Z.sub Z.mul Z.modulo Z.rem Z.quot Z.shiftr Z.shiftl Z.opp
             Z.land Z.lor Z.lxor Z.lnot Z.of_nat Z.of_N Z.to_nat Z.to_N List.length nth_error
             firstn skipn bytes_eqb' bytes_eqb Byte.to_N Byte.of_N Byte.eqb N.mul N.ltb N.eqb N.add N.leb Nat.eqb Nat.leb Nat.ltb
             Nat.min Nat.sub Nat.add Nat.mul Nat.div Nat.modulo N.to_nat N.of_nat nth map repeat app
             err_name err_args g_seg g_source as_source src_read read_result
             all_bytes g_dentry g_sentry digit_of is_skip BaseX.ibl BaseX.obl BaseX.base enc_alphabet enc_skip
             decode_block encode_block BaseX.decode BaseX.encode decoded_len encoded_len put_front
             val_eqb for_loop2 range_loop2 exec2] in h.
Ltac ev_term8 X h :=
  lazymatch h with
  | val_eqb _ _ _ => let h' := ev_in7 h in progress (change h with h'); cbv beta iota
  | X ?fn ?args => let h' := ev_in8 h in progress (change h with h'); cbv beta iota
  | _ =>
    let p := eval pattern X in h in
    lazymatch p with
    | ?g _ => let g' := ev_in8 g in
              let h' := eval cbv beta in (g' X) in
              progress (change h with h'); cbv beta iota
    end
  end.
Ltac norm_env8 h x f e ss k :=
  let e' := ev_in8 e in
  tryif constr_eq e e' then k e
  else (change h with (exec2 x (S f) e' ss); k e').
Ltac step8 X :=
  lazymatch goal with
  | |- ?G =>
    let L := lazymatch G with (?L = _ -> _) => L | ?L = _ => L | _ => G end in
    let h := head_scrut3 L in
    lazymatch h with
    | exec2 ?x (S ?f) ?e (SFor ?c ?b :: ?rest) =>
      norm_env8 h x f e (SFor c b :: rest) ltac:(fun e' => rewrite exec2_for)
    | exec2 ?x (S ?f) ?e ?ss =>
      tryif first [is_var ss | is_const ss] then fail else
      norm_env8 h x f e ss ltac:(fun e' => rewrite (exec2_S x f e' ss); cbv beta iota zeta); fix_lvars4; cbv beta iota
    | for_loop2 _ _ _ _ _ _ _ => fail
    | range_loop2 _ _ _ _ _ _ _ _ _ => fail
    | _ => ev_term8 X h
    end
  end.
Ltac steps8d X := repeat first [use_head_hyp4 | step8 X | lits1 | lits2 | lits3 | slice1 | arith4 | tab7 | dec_head].

Definition rd_cond : gexpr :=
  Eval cbv in match nth 7 (f_body f_basex_decoder_Read) SBreak with SFor c _ => c | _ => ENil end.
Definition rd_pre : list gstmt := Eval cbv in firstn 7 (f_body f_basex_decoder_Read).
Definition rd_post : list gstmt := Eval cbv in skipn 8 (f_body f_basex_decoder_Read).
Definition rd_post2 : list gstmt := Eval cbv in skipn 10 (f_body f_basex_decoder_Read).

Lemma quot_nat (a b : nat) : (0 < b)%nat -> Z.quot (Z.of_nat a) (Z.of_nat b) = Z.of_nat (a / b).
Proof. intros H. rewrite Z.quot_div_nonneg by lia. symmetry. apply Nat2Z.inj_div. Qed.

Section Fill.
Variable en : encoding.
Local Notation I := (N.to_nat (BaseX.ibl en)).
Local Notation O := (N.to_nat (BaseX.obl en)).

Lemma obl_pos7 : (0 < I)%nat -> (0 < O)%nat.
Proof.
  intros HI. unfold BaseX.obl, min_chars.
  assert (Hf : exists f, N.to_nat (8 * BaseX.ibl en + 1) = S f) by (exists (N.to_nat (8 * BaseX.ibl en)); lia).
  destruct Hf as [f ->]. cbn [min_chars_aux].
  assert (Ht : (256 ^ BaseX.ibl en <=? 1)%N = false).
  { apply N.leb_gt. assert (H1 : (256 ^ 1 <= 256 ^ BaseX.ibl en)%N) by (apply N.pow_le_mono_r; lia). rewrite N.pow_1_r in H1. lia. }
  rewrite Ht. pose proof (mca_ge en f (0 + 1)%N (1 * base en)%N (256 ^ BaseX.ibl en)%N). lia.
Qed.

(* ---------- the underlying reader: an arbitrary state machine ---------- *)
Variable U : Type.
Variable uread : nat -> U -> (bytes * option err) * U.       (* Read(p) with len(p) = n *)
Variable g_U : U -> gval.
Variable as_U : gval -> option U.
(* decoding an encoded reader gives a reader with the same behaviour (the same one, when the encoding is injective) *)
Hypothesis as_U_g : forall u, exists u', as_U (g_U u) = Some u' /\
  forall n, fst (uread n u') = fst (uread n u) /\ g_U (snd (uread n u')) = g_U (snd (uread n u)).

(* d.r.Read(win): results n, err, then the new reader (written back into d.r).  The bytes are NOT a result: the
   argument d.buf[d.nbuf:nn] is a slice expression, not a place.  d.enc.DecodedLen = decoded_len; d.enc.Decode(dst, src)
   with the meaning go_Encoding_Decode proves (count, error, then enc and dst written back); copy = ext_copy *)
Definition ext_rd : externs := fun fn args =>
  if String.eqb fn "Reader.Read" then
    match args with
    | [rv; VBytes win] =>
      match as_U rv with
      | Some u => let r := uread (List.length win) u in
                  Some [VInt (Z.of_nat (List.length (fst (fst r)))); g_err_opt (snd (fst r)); g_U (snd r)]
      | None => None
      end
    | _ => None
    end
  else if String.eqb fn "Encoding.DecodedLen" then
    match args with
    | [_; VInt n] => if Z.ltb n 0 then None else Some [VInt (Z.of_N (decoded_len en (Z.to_N n)))]
    | _ => None
    end
  else if String.eqb fn "Encoding.Decode" then          (* the meaning go_Encoding_Decode proves *)
    match args with
    | [encv; VBytes dst; VBytes src] =>
      let r := decode en src in
      if Nat.leb (List.length (fst r)) (List.length dst)
      then Some [VInt (Z.of_nat (List.length (fst r))); g_bx_opt (snd r); encv; VBytes (put_front dst (fst r))]
      else None
    | _ => None
    end
  else ext_copy fn args.

(* the fill loop at the Go level, turn by turn: the count of buffered characters, d.err and the reader; None = the
   evaluator's loop fuel is used up *)
Fixpoint gd_fill (fuel : nat) (nn nbuf : nat) (er : option err) (u : U) : option (nat * option err * U) :=
  match fuel with
  | 0%nat => None
  | S f =>
    if Nat.ltb nbuf O && (match er with None => true | Some _ => false end) then
      let '((data, er'), u') := uread (nn - nbuf) u in gd_fill f nn (nbuf + List.length data) er' u'
    else Some (nbuf, er, u)
  end.

Definition g_decU (er : option err) (out buf : bytes) (nbuf : nat) (scr : bytes) (u : U) : gval :=
  g_dec en (mkGd er out buf nbuf scr (g_U u)).

Definition envL (D : gval) (p : bytes) (nn : nat) (tl : env) : env :=
  [("d", D); ("p", VBytes p); ("ibl", VInt (Z.of_nat I)); ("obl", VInt (Z.of_nat O)); ("nn", VInt (Z.of_nat nn))] ++ tl.
Definition rd_tl (tl : env) : Prop := tl = [] \/ exists x, tl = [("n", x)].

Lemma rd_body_step (f : nat) (out buf : bytes) (nbuf : nat) (scr : bytes) (u : U) (p : bytes) (nn : nat) (tl : env) :
  rd_tl tl -> (nbuf <= nn)%nat -> (nn <= List.length buf)%nat ->
  exec2 ext_rd (S (S (S (S (S f))))) (envL (g_decU None out buf nbuf scr u) p nn tl) rd_loop_body
  = let '((data, er), u') := uread (nn - nbuf) u in
    CNorm (envL (g_decU er out buf (nbuf + List.length data) scr u') p nn [("n", VInt (Z.of_nat (List.length data)))]).
Proof.
  intros Htl H1 H2. unfold rd_loop_body, envL, g_decU, g_dec, g_encoding.
  cbn [gd_err gd_out gd_buf gd_nbuf gd_scratch gd_r g_err_opt].
  destruct (as_U_g u) as (u0 & Hu0 & Hbeh). specialize (Hbeh (nn - nbuf)%nat).
  destruct (uread (nn - nbuf) u) as [[data er] u'] eqn:Eu.
  destruct (uread (nn - nbuf) u0) as [[data0 er0] u0'] eqn:Eu0.
  cbn [fst snd] in Hbeh. destruct Hbeh as [Hb1 Hb2]. injection Hb1 as -> ->.
  assert (Hwl : List.length (firstn (Z.to_nat (Z.of_nat nn - Z.of_nat nbuf)) (skipn (Z.to_nat (Z.of_nat nbuf)) buf)) = (nn - nbuf)%nat)
    by (rewrite Zsub_nat, Nat2Z.id, firstn_length, skipn_length; lia).
  destruct Htl as [->|(x & ->)]; cbn [app]; steps7d ext_rd;
    rewrite Hwl, Eu0; cbv beta iota; rewrite Hb2, <- Nat2Z.inj_add; reflexivity.
Qed.

Definition F5 (f : nat) : nat := S (S (S (S (S f)))).

Lemma rd_cond_eval (er : option err) (out buf : bytes) (nbuf : nat) (scr : bytes) (u : U) (p : bytes) (nn : nat) (tl : env) :
  rd_tl tl ->
  eval ext_rd 64 (envL (g_decU er out buf nbuf scr u) p nn tl) rd_cond
  = Some (VBool (Nat.ltb nbuf O && (match er with None => true | Some _ => false end))).
Proof.
  intros Htl. unfold rd_cond, envL, g_decU, g_dec. cbn [gd_err gd_out gd_buf gd_nbuf gd_scratch gd_r].
  destruct Htl as [->|(x & ->)]; cbn [app];
  (match goal with |- ?L = _ => let l := ev_in7 L in change L with l end;
   destruct (Nat.ltb nbuf O) eqn:E; [apply Nat.ltb_lt in E|apply Nat.ltb_ge in E];
   [ replace (Z.of_nat nbuf <? Z.of_nat O)%Z with true by lia; destruct er; reflexivity
   | replace (Z.of_nat nbuf <? Z.of_nat O)%Z with false by lia; reflexivity ]).
Qed.

Lemma rd_loop (f : nat) (out buf scr p : bytes) (nn : nat) (rest : list gstmt) :
  (nn <= List.length buf)%nat -> (O <= nn)%nat ->
  forall (k nbuf : nat) (er : option err) (u : U) (tl : env), rd_tl tl ->
  match gd_fill k nn nbuf er u with
  | None => for_loop2 ext_rd (F5 f) rd_cond rd_loop_body rest k (envL (g_decU er out buf nbuf scr u) p nn tl) = CStuck "loop fuel"
  | Some (nbuf', er', u') =>
    exists tl', rd_tl tl' /\
    for_loop2 ext_rd (F5 f) rd_cond rd_loop_body rest k (envL (g_decU er out buf nbuf scr u) p nn tl)
    = exec2 ext_rd (F5 f) (envL (g_decU er' out buf nbuf' scr u') p nn tl') rest
  end.
Proof.
  intros H1 H2. induction k as [|k IH]; intros nbuf er u tl Htl; [reflexivity|].
  cbn [gd_fill]. rewrite for_loop2_S, (rd_cond_eval er out buf nbuf scr u p nn tl Htl).
  destruct (Nat.ltb nbuf O && match er with None => true | Some _ => false end) eqn:Ec.
  - apply andb_prop in Ec. destruct Ec as [Ec1 Ec2]. destruct er as [x|]; [discriminate|].
    apply Nat.ltb_lt in Ec1.
    assert (Hb := rd_body_step f out buf nbuf scr u p nn tl Htl ltac:(lia) H1). fold (F5 f) in Hb.
    rewrite Hb. clear Hb.
    destruct (uread (nn - nbuf) u) as [[data er'] u']. cbv beta iota.
    apply (IH (nbuf + List.length data)%nat er' u' [("n", VInt (Z.of_nat (List.length data)))]). right. eexists. reflexivity.
  - exists tl. split; [exact Htl|reflexivity].
Qed.

(* nn: how far the buffer may be filled *)
Definition gd_nn (buflen np : nat) : nat :=
  let nn0 := (np / I * O)%nat in
  let nn1 := if Nat.ltb nn0 O then O else nn0 in
  if Nat.ltb buflen nn1 then buflen else nn1.

Lemma rd_pre_exec (f : nat) (buf : bytes) (nbuf : nat) (scr : bytes) (u : U) (p : bytes) (rest : list gstmt) :
  (0 < I)%nat ->
  exec2 ext_rd (S (S (S (S (S (S (S (S (S f))))))))) [("d", g_decU None [] buf nbuf scr u); ("p", VBytes p)] (rd_pre ++ rest)
  = exec2 ext_rd (S (S f)) (envL (g_decU None [] buf nbuf scr u) p (gd_nn (List.length buf) (List.length p)) []) rest.
Proof.
  intros HI. unfold rd_pre, envL, g_decU, g_dec, g_encoding, gd_nn. cbn [app gd_err gd_out gd_buf gd_nbuf gd_scratch gd_r g_err_opt].
  rewrite <- !N_nat_Z. cbv zeta.
  steps7d ext_rd. rewrite (quot_nat _ _ HI), <- Nat2Z.inj_mul.
  destruct (Nat.ltb (List.length p / I * O) O) eqn:E1; [apply Nat.ltb_lt in E1|apply Nat.ltb_ge in E1].
  - steps7d ext_rd.
    destruct (Nat.ltb (List.length buf) O) eqn:E2; [apply Nat.ltb_lt in E2|apply Nat.ltb_ge in E2]; steps7d ext_rd; reflexivity.
  - steps7d ext_rd.
    destruct (Nat.ltb (List.length buf) (List.length p / I * O)) eqn:E2; [apply Nat.ltb_lt in E2|apply Nat.ltb_ge in E2];
      steps7d ext_rd; reflexivity.
Qed.

(* after the loop: the exits taken before any decoding, or the entry of the decoding part with the flag eof *)
Lemma rd_post_exec (f : nat) (er : option err) (out buf : bytes) (nbuf : nat) (scr : bytes) (u : U) (p : bytes) (nn : nat) (tl : env) :
  rd_tl tl ->
  exec2 ext_rd (S (S (S (S (S (S f)))))) (envL (g_decU er out buf nbuf scr u) p nn tl) rd_post
  = match er with
    | Some x =>
      if is_eof7 x && negb (Nat.eqb nbuf 0)
      then exec2 ext_rd (S (S (S (S f)))) (envL (g_decU None out buf nbuf scr u) p nn (tl ++ [("eof", VBool true)])) rd_post2
      else CRet [VInt 0; g_err x] (envL (g_decU er out buf nbuf scr u) p nn (tl ++ [("eof", VBool false)]))
    | None => exec2 ext_rd (S (S (S (S f)))) (envL (g_decU None out buf nbuf scr u) p nn (tl ++ [("eof", VBool false)])) rd_post2
    end.
Proof.
  intros Htl. unfold rd_post, envL, g_decU, g_dec. cbn [gd_err gd_out gd_buf gd_nbuf gd_scratch gd_r].
  fold rd_post2. generalize (g_encoding en). intros E.
  destruct er as [x|]; cbn [g_err_opt].
  - pose proof (val_eqb_eof x) as He. pose proof (g_err_not_nil x) as Hn. unfold g_err in *.
    remember (err_name x) as nm eqn:Hnm. remember (err_args x) as ar eqn:Har. clear Hnm Har.
    destruct (is_eof7 x) eqn:Ex; cbn [andb].
    + destruct (Nat.eqb nbuf 0) eqn:E0; [apply Nat.eqb_eq in E0|apply Nat.eqb_neq in E0]; cbn [negb];
        destruct Htl as [->|(y & ->)]; cbn [app]; steps8d ext_rd; reflexivity.
    + destruct Htl as [->|(y & ->)]; cbn [app]; steps8d ext_rd; reflexivity.
  - destruct Htl as [->|(y & ->)]; cbn [app]; steps8d ext_rd; reflexivity.
Qed.

Lemma gd_nn_bounds (buflen np : nat) : (O <= buflen)%nat -> (O <= gd_nn buflen np)%nat /\ (gd_nn buflen np <= buflen)%nat.
Proof.
  intros H. unfold gd_nn. cbv zeta.
  destruct (Nat.ltb (np / I * O) O) eqn:E1; [apply Nat.ltb_lt in E1|apply Nat.ltb_ge in E1].
  - destruct (Nat.ltb buflen O) eqn:E2; [apply Nat.ltb_lt in E2|apply Nat.ltb_ge in E2]; lia.
  - destruct (Nat.ltb buflen (np / I * O)) eqn:E2; [apply Nat.ltb_lt in E2|apply Nat.ltb_ge in E2]; lia.
Qed.

Lemma rd_body_split : f_body f_basex_decoder_Read = rd_pre ++ SFor rd_cond rd_loop_body :: rd_post.
Proof. reflexivity. Qed.

(* (TARGET) *)
(* decoder.Read from a state without sticky error and without leftover output: the fill loop makes the reads
   gd_fill describes, and when it ends with an error that is not io.EOF, or with io.EOF and nothing buffered, Read returns
   (0, that error) at once; d.err, d.nbuf and the reader are the loop's.  (The other endings go on to the decoding part,
   which the evaluator cannot run faithfully: NOT EXPRESSIBLE 2 and 3.) *)
Theorem go_decoder_Read_exits (F : nat) (buf : bytes) (nbuf : nat) (scr : bytes) (u : U) (p : bytes) :
  (0 < I)%nat -> (O <= List.length buf)%nat -> (13 <= F)%nat ->
  let r := run_func2_at (S F) ext_rd f_basex_decoder_Read [g_decU None [] buf nbuf scr u; VBytes p] in
  match gd_fill (F - 7) (gd_nn (List.length buf) (List.length p)) nbuf None u with
  | None => r = (OStuck "loop fuel", [])
  | Some (nbuf', Some x, u') =>
    if is_eof7 x && negb (Nat.eqb nbuf' 0) then True
    else fst r = ORet [VInt 0; g_err x] /\
         lookup "d" (snd r) = Some (g_decU (Some x) [] buf nbuf' scr u') /\
         lookup "p" (snd r) = Some (VBytes p)
  | Some (_, None, _) => True
  end.
Proof.
  intros HI Hcap HF. cbv zeta.
  assert (HF' : exists f, F = S (S (S (S (S (S (S (S (S (S (S (S (S f))))))))))))) by (exists (F - 13)%nat; lia).
  destruct HF' as [f ->].
  replace (S (S (S (S (S (S (S (S (S (S (S (S (S f)))))))))))) - 7)%nat with (F5 (S f)) by (unfold F5; lia).
  destruct (gd_nn_bounds (List.length buf) (List.length p) Hcap) as [Hn1 Hn2].
  set (nn := gd_nn (List.length buf) (List.length p)) in *.
  pose proof (rd_loop (S f) [] buf scr p nn rd_post Hn2 Hn1 (F5 (S f)) nbuf None u [] (or_introl eq_refl)) as Hl.
  unfold run_func2_at. cbn [f_params f_results f_basex_decoder_Read bind_params map app fst snd].
  rewrite rd_body_split.
  rewrite (rd_pre_exec (S (S (S (S (S f))))) buf nbuf scr u p _ HI). fold nn.
  rewrite exec2_for. change (S (S (S (S (S (S f)))))) with (F5 (S f)).
  destruct (gd_fill (F5 (S f)) nn nbuf None u) as [[[nbuf' er'] u']|].
  - destruct Hl as (tl' & Htl' & Hl). rewrite Hl. unfold F5.
    rewrite (rd_post_exec f er' [] buf nbuf' scr u' p nn tl' Htl').
    destruct er' as [x|]; [|exact Logic.I].
    destruct (is_eof7 x && negb (Nat.eqb nbuf' 0)); [exact Logic.I|].
    cbn [fst snd]. unfold envL. cbn [lookup String.eqb Ascii.eqb Bool.eqb app]. auto.
  - rewrite Hl. reflexivity.
Qed.
End Fill.

(* ================= part 7 ================= *)
(* ================= the instance: the reader of BxStream.v (a source, behind the filtering reader when the
   encoding has skip characters) ================= *)
Section Inst.
Variable en : encoding.
Local Notation I := (N.to_nat (BaseX.ibl en)).
Local Notation O := (N.to_nat (BaseX.obl en)).

Lemma fr_filter_len (l : bytes) : forall nread acc kept nread',
  fr_filter en l nread acc = inl (kept, nread') -> (List.length kept <= List.length acc + List.length l)%nat.
Proof.
  induction l as [|b t IH]; intros nread acc kept nread' H; cbn [fr_filter] in H.
  - injection H as <- _. rewrite rev_append_rev, app_nil_r, rev_length. cbn. lia.
  - destruct (digit_of en b).
    + apply IH in H. cbn [List.length] in *. lia.
    + destruct (is_skip en b); [|discriminate]. apply IH in H. cbn [List.length] in *. lia.
Qed.
Lemma fr_read_len : forall (fuel n : nat) (st : fr_state), (List.length (fst (fst (fr_read en fuel n st))) <= n)%nat.
Proof.
  induction fuel as [|f IH]; intros n st; cbn [fr_read]; [cbn; lia|].
  pose proof (src_read_len n (fr_src st)) as Hl.
  destruct (src_read n (fr_src st)) as [[data er] s']. cbn [fst] in Hl.
  destruct data as [|d0 data']; [cbn; lia|].
  destruct (fr_filter en (d0 :: data') (fr_nread st) []) as [[kept nread']|off] eqn:Ef; [|cbn; lia].
  apply fr_filter_len in Ef. cbn [List.length] in Ef.
  destruct kept as [|k0 kept'].
  - destruct er; [cbn; lia|]. apply IH.
  - cbn [fst]. cbn [List.length] in *. lia.
Qed.
Lemma under_read_len (n : nat) (r : fr_state) : (List.length (fst (fst (under_read en n r))) <= n)%nat.
Proof.
  unfold under_read. destruct (enc_skip en).
  - pose proof (src_read_len n (fr_src r)) as Hl. destruct (src_read n (fr_src r)) as [res s']. exact Hl.
  - apply fr_read_len.
Qed.

(* the reader object: the raw source for a strict encoding, the filteringReader object otherwise (newDecoder) *)
Definition g_rd (r : fr_state) : gval :=
  match enc_skip en with [] => g_source (fr_src r) | _ :: _ => g_fr en r end.
Definition as_fr (v : gval) : option fr_state :=
  match v with
  | VStruct [("wrapped", sv); ("enc", _); ("nRead", VInt z)] =>
    match as_source sv with
    | Some s => if Z.ltb z 0 then None else Some (mkFr s (Z.to_N z))
    | None => None
    end
  | _ => None
  end.
Definition as_rd (v : gval) : option fr_state :=
  match enc_skip en with
  | [] => match as_source v with Some s => Some (mkFr s 0) | None => None end
  | _ :: _ => as_fr v
  end.
Lemma as_fr_g (r : fr_state) : as_fr (g_fr en r) = Some r.
Proof. destruct r as [s n]. unfold as_fr, g_fr. cbn [fr_src fr_nread]. rewrite as_source_g, N_ltb0, N2Z.id. reflexivity. Qed.
Lemma as_rd_g (r : fr_state) : exists r', as_rd (g_rd r) = Some r' /\
  forall n, fst (under_read en n r') = fst (under_read en n r) /\ g_rd (snd (under_read en n r')) = g_rd (snd (under_read en n r)).
Proof.
  unfold as_rd, g_rd, under_read. destruct (enc_skip en) as [|s0 sk].
  - exists (mkFr (fr_src r) 0). rewrite as_source_g. split; [reflexivity|]. intros n. cbn [fr_src fr_nread].
    destruct (src_read n (fr_src r)) as [res s']. split; reflexivity.
  - exists r. rewrite as_fr_g. split; [reflexivity|]. intros n. split; reflexivity.
Qed.

Definition ext_bd : externs := ext_rd en fr_state (under_read en) g_rd as_rd.

(* the Go-level fill loop is the model's bd_fill (as long as the loop fuel lasts) *)
Lemma gd_fill_err (k nn nbuf : nat) (x : err) (r : fr_state) :
  gd_fill en fr_state (under_read en) (S k) nn nbuf (Some x) r = Some (nbuf, Some x, r).
Proof. cbn [gd_fill]. rewrite andb_false_r. reflexivity. Qed.
Lemma gd_fill_model : forall (k nn : nat) (buf : bytes) (r : fr_state),
  match gd_fill en fr_state (under_read en) k nn (List.length buf) None r with
  | Some (n', er, r') => exists buf', bd_fill en k nn buf r = (buf', er, r') /\ List.length buf' = n'
  | None => True
  end.
Proof.
  induction k as [|k IH]; intros nn buf r; [exact Logic.I|].
  cbn [gd_fill bd_fill]. rewrite andb_true_r.
  destruct (Nat.ltb (List.length buf) O).
  - destruct (under_read en (nn - List.length buf) r) as [[data er'] r'].
    destruct er' as [x|].
    + destruct k as [|k]; [exact Logic.I|]. rewrite gd_fill_err. exists (buf ++ data). split; [reflexivity|apply app_length].
    + specialize (IH nn (buf ++ data) r'). rewrite app_length in IH. exact IH.
  - exists buf. split; reflexivity.
Qed.

(* (TARGET) *)
(* decoder.Read over the model's reader, against BxStream.bd_read, on the paths that leave Read right after the
   fill loop.  The object is the one newDecoder builds (len(d.buf) = 8192 * base256BlockLen = input_cap) in a state
   without sticky error or leftover output, d.buf[:d.nbuf] standing for the model's bd_buf (only its LENGTH matters on
   these paths). *)
Theorem go_decoder_Read_exits_model (F : nat) (st : bd_state) (buf scr p : bytes) :
  bd_err st = None -> bd_out st = [] ->
  (0 < I)%nat -> List.length buf = input_cap en -> (O <= input_cap en)%nat -> (13 <= F)%nat ->
  let r := run_func2_at (S F) ext_bd f_basex_decoder_Read
             [g_decU en fr_state g_rd None [] buf (List.length (bd_buf st)) scr (bd_r st); VBytes p] in
  match gd_fill en fr_state (under_read en) (F - 7) (gd_nn en (List.length buf) (List.length p)) (List.length (bd_buf st)) None (bd_r st) with
  | None => r = (OStuck "loop fuel", [])
  | Some (n', Some x, _) =>
    if is_eof7 x && negb (Nat.eqb n' 0) then True           (* io.EOF with characters buffered: Read goes on to decode them *)
    else
    let '(res, st') := bd_read en (F - 7) (List.length p) st in
         res = BdErr [] x /\ bd_err st' = Some x /\ bd_out st' = [] /\
         fst r = ORet [VInt 0; g_err x] /\
         lookup "d" (snd r) = Some (g_decU en fr_state g_rd (bd_err st') [] buf (List.length (bd_buf st')) scr (bd_r st')) /\
         lookup "p" (snd r) = Some (VBytes p)
  | Some (_, None, _) => True
  end.
Proof.
  intros He Ho HI Hlen Hcap HF. cbv zeta.
  pose proof (go_decoder_Read_exits en fr_state (under_read en) g_rd as_rd as_rd_g F buf (List.length (bd_buf st)) scr (bd_r st) p HI
                ltac:(rewrite Hlen; exact Hcap) HF) as Hgo. cbv zeta in Hgo.
  pose proof (gd_fill_model (F - 7) (gd_nn en (List.length buf) (List.length p)) (bd_buf st) (bd_r st)) as Hm.
  fold ext_bd in Hgo.
  destruct (gd_fill en fr_state (under_read en) (F - 7) (gd_nn en (List.length buf) (List.length p)) (List.length (bd_buf st)) None (bd_r st))
    as [[[n' er] r']|]; [|exact Hgo].
  destruct er as [x|]; [|exact Logic.I].
  destruct Hm as (buf' & Hm & Hn').
  unfold bd_read. rewrite He, Ho. cbv zeta.
  rewrite Hlen in Hm. unfold gd_nn in Hm. cbv zeta in Hm.
  change (N.to_nat (BaseX.ibl en)) with I. change (N.to_nat (BaseX.obl en)) with O.
  rewrite Hm.
  destruct x; cbn [is_eof7 andb] in *;
    try (destruct Hgo as (G1 & G2 & G3); cbn [bd_buf bd_r bd_err bd_out]; rewrite Hn'; repeat split; assumption).
  (* io.EOF *)
  destruct buf' as [|b0 buf''].
  - cbn [List.length] in Hn'. subst n'. cbn [Nat.eqb negb] in *. destruct Hgo as (G1 & G2 & G3).
    cbn [bd_buf bd_r bd_err bd_out List.length Nat.eqb negb]. repeat split; assumption.
  - cbn [List.length] in Hn'. subst n'. cbn [Nat.eqb negb] in *. exact Logic.I.
Qed.
End Inst.

(* tests of the decoder.Read statements on concrete inputs (a 64-byte d.buf; both sides computed) *)
Definition test_obj (e : encoding) (er : option err) (nbuf : nat) (r : fr_state) : gval :=
  g_decU e fr_state (g_rd e) er [] (repeat x2e 64) nbuf (repeat x2d 64) r.
Definition test_run_rd (e : encoding) (nbuf : nat) (s : source) : outcome * option gval :=
  let r := run_func2 (ext_bd e) f_basex_decoder_Read [test_obj e None nbuf (mkFr s 0); VBytes (repeat x00 10)] in
  (fst r, lookup "d" (snd r)).
Definition test_src : source := mkSource [mkSeg [x41; x42; x20; x43] None; mkSeg [x44] (Some ErrIO)] EOF.
(* a strict encoding at the end of its source: (0, io.EOF), d.err = io.EOF *)
Example test_rd_1 : test_run_rd base62_strict 0 (mkSource [] EOF)
  = (ORet [VInt 0; g_err EOF], Some (test_obj base62_strict (Some EOF) 0 (mkFr (mkSource [] EOF) 0))).
Proof. vm_compute. reflexivity. Qed.
(* data, then data with an I/O error: two turns of the loop through the filtering reader (one blank dropped: 4 characters
   buffered, 5 examined), (0, ErrIO); the model returns the same *)
Example test_rd_2 : test_run_rd base62 0 test_src
  = (ORet [VInt 0; g_err ErrIO], Some (test_obj base62 (Some ErrIO) 4 (mkFr (mkSource [] ErrIO) 5))).
Proof. vm_compute. reflexivity. Qed.
Example test_rd_2m : fst (bd_read base62 293 10 (mkBd None [] [] (mkFr test_src 0))) = BdErr [] ErrIO.
Proof. vm_compute. reflexivity. Qed.
(* a foreign character behind three buffered ones: CorruptInputError(1) from the filtering reader *)
Example test_rd_3 : fst (test_run_rd base62 3 (mkSource [mkSeg [x41; x21] None] EOF)) = ORet [VInt 0; g_err (ErrBxCorrupt 1)].
Proof. vm_compute. reflexivity. Qed.
(* leftover output: two of three bytes fit *)
Example test_rd_4 :
  let r := run_func2 (ext_bd base62) f_basex_decoder_Read [g_dec base62 (mkGd None [x01; x02; x03] [] 0 [] VNil); VBytes [x00; x00]] in
  (fst r, lookup "p" (snd r), lookup "d" (snd r))
  = (ORet [VInt 2; VNil], Some (VBytes [x01; x02]), Some (g_dec base62 (mkGd None [x03] [] 0 [] VNil))).
Proof. vm_compute. reflexivity. Qed.

(* ================= part 8 ================= *)
(* ================= decoder.Read: the decoding part, segment by segment ================= *)
(* statements 10..15 (numBytesToDecode .. d.nbuf -= numBytesToDecode), the buffer shift (16), the final returns (17, 18) *)
Definition rd_mid : list gstmt := Eval cbv in firstn 6 rd_post2.
Definition rd_shift : gstmt := Eval cbv in nth 6 rd_post2 SBreak.
Definition rd_fin : list gstmt := Eval cbv in skipn 7 rd_post2.
Lemma rd_post2_split : rd_post2 = rd_mid ++ rd_shift :: rd_fin.
Proof. reflexivity. Qed.

Lemma Zsub0_nat (k : nat) : Z.to_nat (Z.of_nat k - 0) = k. Proof. lia. Qed.
Lemma Z2N_nat (k : nat) : Z.to_N (Z.of_nat k) = N.of_nat k. Proof. lia. Qed.

Lemma firstn_put_front (dst o : bytes) : firstn (List.length o) (put_front dst o) = o.
Proof. unfold put_front. apply firstn_app_len. Qed.
Lemma firstn_min_len (n : nat) (l : bytes) : firstn (Nat.min n (List.length l)) l = firstn n l.
Proof.
  destruct (Nat.le_gt_cases n (List.length l)) as [H|H].
  - rewrite Nat.min_l by exact H. reflexivity.
  - rewrite Nat.min_r by lia. rewrite !firstn_all2 by lia. reflexivity.
Qed.
Lemma copy_is_put_front (p dec : bytes) :
  firstn (Nat.min (List.length p) (List.length dec)) dec ++ skipn (Nat.min (List.length p) (List.length dec)) p
  = put_front p (firstn (List.length p) dec).
Proof. unfold put_front. rewrite firstn_min_len, firstn_length. reflexivity. Qed.

Lemma out_rest (n : nat) (dec : bytes) :
  firstn (List.length dec - Nat.min n (List.length dec)) (skipn (Nat.min n (List.length dec)) dec) = skipn n dec.
Proof. rewrite firstn_all2 by (rewrite skipn_length; lia). apply skipn_min. Qed.

Section Mid.
Variable en : encoding.
Local Notation I := (N.to_nat (BaseX.ibl en)).
Local Notation O := (N.to_nat (BaseX.obl en)).
Variable U : Type.
Variable uread : nat -> U -> (bytes * option err) * U.
Variable g_U : U -> gval.
Variable as_U : gval -> option U.
Definition Xm : externs := ext_rd en U uread g_U as_U.

(* what statements 10..15 do: (ret, the object, p); None = Decode's destination is too short (the Go code panics) *)
Definition gd_mid (eof : bool) (o : gdec) (p : bytes) : option (nat * gdec * bytes) :=
  let num := if eof then gd_nbuf o else (gd_nbuf o / O * O)%nat in
  let nout := N.to_nat (decoded_len en (N.of_nat num)) in
  let r := decode en (firstn num (gd_buf o)) in
  let derr := option_map bx_to_err (snd r) in
  if Nat.ltb (List.length p) nout then
    (* too much for p: decoded into the scratch buffer, the surplus kept in d.out *)
    if Nat.leb (List.length (fst r)) (List.length (gd_scratch o)) then
      let ret := firstn (List.length p) (fst r) in
      Some (List.length ret,
            mkGd derr (skipn (List.length p) (fst r)) (gd_buf o) (gd_nbuf o - num) (put_front (gd_scratch o) (fst r)) (gd_r o),
            put_front p ret)
    else None
  else
    if Nat.leb (List.length (fst r)) (List.length p) then
      Some (List.length (fst r), mkGd derr (gd_out o) (gd_buf o) (gd_nbuf o - num) (gd_scratch o) (gd_r o), put_front p (fst r))
    else None.

Definition envM (D : gval) (p : bytes) (nn : nat) (nv : gval) (eof : bool) (num : nat) (nout : N) (ret : nat) : env :=
  [("d", D); ("p", VBytes p); ("ibl", VInt (Z.of_nat I)); ("obl", VInt (Z.of_nat O)); ("nn", VInt (Z.of_nat nn)); ("n", nv);
   ("eof", VBool eof); ("numBytesToDecode", VInt (Z.of_nat num)); ("numBytesToOutput", VInt (Z.of_N nout));
   ("ret", VInt (Z.of_nat ret))].

Ltac steps9 X := repeat first [step7 X | use_head_hyp4 | lits1 | lits2 | lits3 | dec_head].

Lemma rd_mid_exec (f : nat) (eof : bool) (out buf : bytes) (nbuf : nat) (scr : bytes) (R : gval) (p : bytes) (nn : nat) (x : gval)
      (rest : list gstmt) :
  (0 < O)%nat -> (nbuf <= List.length buf)%nat ->
  let o := mkGd None out buf nbuf scr R in
  let num := if eof then nbuf else (nbuf / O * O)%nat in
  let nout := decoded_len en (N.of_nat num) in
  exec2 Xm (S (S (S (S (S (S (S (S (S (S (S (S f))))))))))))
        [("d", g_dec en o); ("p", VBytes p); ("ibl", VInt (Z.of_nat I)); ("obl", VInt (Z.of_nat O)); ("nn", VInt (Z.of_nat nn));
         ("n", x); ("eof", VBool eof)] (rd_mid ++ rest)
  = match gd_mid eof o p with
    | Some (ret, o', p') =>
      exec2 Xm (S (S (S (S (S (S f))))))
            (envM (g_dec en o') p' nn
                  (if Nat.ltb (List.length p) (N.to_nat nout) then VInt (Z.of_nat (List.length (fst (decode en (firstn num buf))))) else x)
                  eof num nout ret) rest
    | None => CStuck "call"
    end.
Proof.
  intros HO Hnb. cbv zeta. unfold gd_mid, envM, g_dec. cbn [gd_err gd_out gd_buf gd_nbuf gd_scratch gd_r g_err_opt].
  generalize (g_encoding en). intros E.
  assert (Hdiv : (nbuf / O * O <= nbuf)%nat) by (rewrite Nat.mul_comm; apply Nat.mul_div_le; lia).
  unfold rd_mid. cbn [app].
  destruct eof.
  - destruct (decode en (firstn nbuf buf)) as [dec derr] eqn:Ed. cbn [fst snd].
    assert (Ed' : decode en (firstn (Z.to_nat (Z.of_nat nbuf - 0)) (skipn 0 buf)) = (dec, derr)) by (rewrite Zsub0_nat; exact Ed).
    steps9 Xm. rewrite Z2N_nat.
    destruct (Nat.ltb (List.length p) (N.to_nat (decoded_len en (N.of_nat nbuf)))) eqn:Enout;
      [apply Nat.ltb_lt in Enout|apply Nat.ltb_ge in Enout].
    + steps9 Xm. rewrite Ed'. cbv beta iota.
      destruct (Nat.leb (List.length dec) (List.length scr)) eqn:Efit; [apply Nat.leb_le in Efit|apply Nat.leb_gt in Efit].
      * pose proof (put_front_len scr dec Efit) as Hpl.
        steps9 Xm. rewrite Zsub0_nat. change (skipn 0 (put_front scr dec)) with (put_front scr dec). rewrite firstn_put_front.
        steps9 Xm. rewrite ?Zsub_nat, ?Nat2Z.id, ?out_rest, ?copy_is_put_front, ?firstn_length.
        rewrite <- ?Nat2Z.inj_sub by lia. reflexivity.
      * steps9 Xm. reflexivity.
    + steps9 Xm. rewrite Ed'. cbv beta iota.
      destruct (Nat.leb (List.length dec) (List.length p)) eqn:Efit; [apply Nat.leb_le in Efit|apply Nat.leb_gt in Efit].
      * pose proof (put_front_len p dec Efit) as Hpl.
        steps9 Xm. rewrite <- ?Nat2Z.inj_sub by lia. reflexivity.
      * steps9 Xm. reflexivity.
  - remember (nbuf / O * O)%nat as num eqn:Hnumdef.
    destruct (decode en (firstn num buf)) as [dec derr] eqn:Ed. cbn [fst snd].
    assert (Hq : (Z.quot (Z.of_nat nbuf) (Z.of_nat O) * Z.of_nat O)%Z = Z.of_nat num)
      by (subst num; rewrite (quot_nat _ _ HO), <- Nat2Z.inj_mul; reflexivity).
    assert (Ed' : decode en (firstn (Z.to_nat (Z.of_nat num - 0)) (skipn 0 buf)) = (dec, derr)) by (rewrite Zsub0_nat; exact Ed).
    steps9 Xm. rewrite ?Hq, ?Z2N_nat. steps9 Xm. rewrite ?Hq, ?Z2N_nat.
    destruct (Nat.ltb (List.length p) (N.to_nat (decoded_len en (N.of_nat num)))) eqn:Enout;
      [apply Nat.ltb_lt in Enout|apply Nat.ltb_ge in Enout].
    + steps9 Xm. rewrite Ed'. cbv beta iota.
      destruct (Nat.leb (List.length dec) (List.length scr)) eqn:Efit; [apply Nat.leb_le in Efit|apply Nat.leb_gt in Efit].
      * pose proof (put_front_len scr dec Efit) as Hpl.
        steps9 Xm. rewrite Zsub0_nat. change (skipn 0 (put_front scr dec)) with (put_front scr dec). rewrite firstn_put_front.
        steps9 Xm. rewrite ?Zsub_nat, ?Nat2Z.id, ?out_rest, ?copy_is_put_front, ?firstn_length.
        rewrite <- ?Nat2Z.inj_sub by lia. reflexivity.
      * steps9 Xm. reflexivity.
    + steps9 Xm. rewrite Ed'. cbv beta iota.
      destruct (Nat.leb (List.length dec) (List.length p)) eqn:Efit; [apply Nat.leb_le in Efit|apply Nat.leb_gt in Efit].
      * pose proof (put_front_len p dec Efit) as Hpl.
        steps9 Xm. rewrite <- ?Nat2Z.inj_sub by lia. reflexivity.
      * steps9 Xm. reflexivity.
Qed.

(* the final returns: a Read that delivers nothing, without error, into a non-empty p reports io.EOF *)
Definition gd_fin (ret : nat) (derr : option err) (np : nat) : nat * option err :=
  if Nat.eqb ret 0 && (match derr with None => true | Some _ => false end) && negb (Nat.eqb np 0)
  then (0%nat, Some EOF) else (ret, derr).

Lemma rd_fin_exec (f : nat) (o' : gdec) (p' : bytes) (nn : nat) (nv : gval) (eof : bool) (num : nat) (nout : N) (ret : nat) :
  exec2 Xm (S (S (S (S f)))) (envM (g_dec en o') p' nn nv eof num nout ret) rd_fin
  = CRet [VInt (Z.of_nat (fst (gd_fin ret (gd_err o') (List.length p')))); g_err_opt (snd (gd_fin ret (gd_err o') (List.length p')))]
         (envM (g_dec en o') p' nn nv eof num nout ret).
Proof.
  destruct o' as [er out buf nbuf scr R]. unfold rd_fin, envM, g_dec, gd_fin. cbn [gd_err gd_out gd_buf gd_nbuf gd_scratch gd_r].
  generalize (g_encoding en). intros E.
  destruct (Nat.eqb ret 0) eqn:E1; [apply Nat.eqb_eq in E1|apply Nat.eqb_neq in E1]; cbn [andb].
  - destruct er as [e|]; cbn [g_err_opt andb].
    + steps7d Xm. reflexivity.
    + destruct (Nat.eqb (List.length p') 0) eqn:E2; [apply Nat.eqb_eq in E2|apply Nat.eqb_neq in E2]; cbn [negb];
        steps7d Xm; reflexivity.
  - steps7d Xm. reflexivity.
Qed.

(* the buffer shift between the two: under this extern table (copy returns the count and the destination, as the
   assignment `ret = copy(p, d.out)` needs) the statement call is stuck; see NOT EXPRESSIBLE 2 and 3 *)
Lemma rd_shift_stuck (f : nat) (o' : gdec) (p' : bytes) (nn : nat) (nv : gval) (eof : bool) (num : nat) (nout : N) (ret : nat)
      (rest : list gstmt) :
  (num + gd_nbuf o' <= List.length (gd_buf o'))%nat ->
  exec2 Xm (S (S f)) (envM (g_dec en o') p' nn nv eof num nout ret) (rd_shift :: rest) = CStuck "call arity".
Proof.
  intros H. destruct o' as [er out buf nbuf scr R]. unfold rd_shift, envM, g_dec. cbn [gd_err gd_out gd_buf gd_nbuf gd_scratch gd_r] in *.
  generalize (g_encoding en). intros E. steps7d Xm. reflexivity.
Qed.
End Mid.

(* ---------- the decoding part against the model: gd_mid; (the buffer shift); gd_fin is BxStream's `after` ---------- *)
Section MidModel.
Variable en : encoding.
Local Notation O := (N.to_nat (BaseX.obl en)).

Definition res_of (ne : nat * option err) (p' : bytes) : bd_result :=
  match snd ne with None => BdData (firstn (fst ne) p') | Some x => BdErr (firstn (fst ne) p') x end.

Lemma bd_emit_fin (retb out rest p : bytes) (r' : fr_state) (derr' : option err) :
  (List.length retb <= List.length p)%nat -> (0 < List.length p)%nat ->
  BxStreamProofs.bd_emit retb out rest r' derr'
  = (res_of (gd_fin (List.length retb) derr' (List.length (put_front p retb))) (put_front p retb), mkBd derr' out rest r').
Proof.
  intros H1 H2. rewrite (put_front_len p retb H1). unfold gd_fin, res_of, BxStreamProofs.bd_emit.
  replace (Nat.eqb (List.length p) 0) with false by (symmetry; apply Nat.eqb_neq; lia).
  destruct retb as [|b0 t]; destruct derr' as [x|]; cbn [List.length Nat.eqb andb negb fst snd firstn]; try reflexivity.
  - unfold put_front. cbn [List.length app skipn firstn]. rewrite firstn_app_len. reflexivity.
  - unfold put_front. cbn [List.length app skipn firstn]. rewrite firstn_app_len. reflexivity.
Qed.

(* the object after the pending shift copy(d.buf[0:d.nbuf], d.buf[num:num+d.nbuf]) holds [firstn nbuf' (skipn num buf)] in
   d.buf[:d.nbuf]: the model's leftover input *)
Theorem gd_decode_model (eof : bool) (buf : bytes) (nbuf : nat) (scr : bytes) (R : gval) (r' : fr_state) (p : bytes) :
  (nbuf <= List.length buf)%nat -> (0 < List.length p)%nat ->
  let o := mkGd None [] buf nbuf scr R in
  let num := if eof then nbuf else (nbuf / O * O)%nat in
  match gd_mid en eof o p with
  | Some (ret, o', p') =>
    BxStreamProofs.bd_after en (List.length p) (firstn nbuf buf) r' eof
    = (res_of (gd_fin ret (gd_err o') (List.length p')) p',
       mkBd (gd_err o') (gd_out o') (firstn (gd_nbuf o') (skipn num buf)) r')
  | None => True
  end.
Proof.
  intros Hnb Hp. cbv zeta. unfold gd_mid, BxStreamProofs.bd_after. cbn [gd_err gd_out gd_buf gd_nbuf gd_scratch gd_r]. cbv zeta.
  assert (Hl : List.length (firstn nbuf buf) = nbuf) by (rewrite firstn_length; lia).
  rewrite Hl.
  set (num := if eof then nbuf else (nbuf / O * O)%nat).
  assert (Hnum : (num <= nbuf)%nat).
  { unfold num. destruct eof; [lia|]. destruct (Nat.eq_dec O 0) as [H0|H0]; [rewrite H0; cbn; lia|].
    rewrite Nat.mul_comm. apply Nat.mul_div_le. exact H0. }
  assert (Hf : firstn num (firstn nbuf buf) = firstn num buf) by (rewrite firstn_firstn; f_equal; lia).
  assert (Hr : skipn num (firstn nbuf buf) = firstn (nbuf - num) (skipn num buf)) by apply skipn_firstn_comm.
  rewrite Hf, Hr.
  destruct (decode en (firstn num buf)) as [dec derr]. cbn [fst snd].
  change (match derr with Some b => Some (bx_to_err b) | None => None end) with (option_map bx_to_err derr).
  destruct (Nat.ltb (List.length p) (N.to_nat (decoded_len en (N.of_nat num)))).
  - destruct (Nat.leb (List.length dec) (List.length scr)); [|exact Logic.I].
    cbn [gd_err gd_out gd_nbuf].
    apply bd_emit_fin; [rewrite firstn_length; lia|exact Hp].
  - destruct (Nat.leb (List.length dec) (List.length p)) eqn:Ef; [|exact Logic.I]. apply Nat.leb_le in Ef.
    cbn [gd_err gd_out gd_nbuf]. apply bd_emit_fin; assumption.
Qed.
End MidModel.

(* ================= part 9 ================= *)
(* ================= filteringReader.Read: the statements around the range header ================= *)
Definition fr_for_body : list gstmt :=
  Eval cbv in match nth 1 (f_body f_basex_filteringReader_Read) SBreak with SFor _ b => b | _ => [] end.
Definition fr_rbody : list gstmt :=
  Eval cbv in match nth 1 fr_for_body SBreak with SRange _ _ _ b => b | _ => [] end.
Definition fr_after : list gstmt := Eval cbv in skipn 2 fr_for_body.

Lemma byte_mod_id (b : byte) :
  match Byte.of_N (Z.to_N (Z.of_N (Byte.to_N b) mod 256)) with Some c => c | None => x00 end = b.
Proof. destruct b; reflexivity. Qed.

Section FrSeg.
Variable en : encoding.

Definition set_nth (k : nat) (b : byte) (p : bytes) : bytes := firstn k p ++ b :: skipn (S k) p.

Definition envR (st : fr_state) (p : bytes) (n : Z) (ev : gval) (off i : nat) (b : byte) (tl : env) : env :=
  [("r", g_fr en st); ("p", VBytes p); ("n", VInt n); ("err", ev); ("offset", VInt (Z.of_nat off));
   ("i", VInt (Z.of_nat i)); ("b", g_byte b)] ++ tl.
Definition fr_tl (tl : env) : Prop := tl = [] \/ exists x, tl = [("typ", x)].

(* one turn of `for i, b := range p[:n]` on the byte b at index i, with offset bytes kept so far: the step of
   BxStream.fr_filter.  CorruptInputError(r.nRead) is the value the evaluator gives the composite literal: a struct. *)
Lemma fr_body_step (f : nat) (st : fr_state) (p : bytes) (n : Z) (ev : gval) (off i : nat) (b : byte) (tl : env) :
  fr_tl tl -> (off < List.length p)%nat ->
  exec2 (ext_fr en) (S (S (S (S (S (S (S (S f)))))))) (envR st p n ev off i b tl) fr_rbody
  = match digit_of en b with
    | Some _ => CNorm (envR (mkFr (fr_src st) (fr_nread st + 1)) (if Nat.eqb i off then p else set_nth off b p) n ev (off + 1) i b
                            [("typ", VInt 0)])
    | None =>
      if is_skip en b then CCont (envR (mkFr (fr_src st) (fr_nread st + 1)) p n ev off i b [("typ", VInt 1)])
      else CRet [VInt 0; VStruct [("0", VInt (Z.of_N (fr_nread st)))]] (envR st p n ev off i b [("typ", VInt 2)])
    end.
Proof.
  intros Htl Hoff. destruct st as [src nread]. unfold fr_rbody, envR, g_fr, g_byte, set_nth. cbn [fr_src fr_nread].
  generalize (g_encoding en). intros E.
  assert (Hb : Byte.of_N (Z.to_N (Z.of_N (Byte.to_N b))) = Some b) by (rewrite N2Z.id; apply Byte.of_to_N).
  pose proof (byte_mod_id b) as Hm.
  unfold byte_type in *.
  destruct (digit_of en b) as [d|] eqn:Ed.
  - destruct (Nat.eqb i off) eqn:Ei; [apply Nat.eqb_eq in Ei|apply Nat.eqb_neq in Ei];
      destruct Htl as [->|(x & ->)]; cbn [app]; steps7d (ext_fr en); unfold byte_type; rewrite ?Ed; steps7d (ext_fr en);
      rewrite ?Z.mod_mod by lia; rewrite ?Hm, ?Nat2Z.id, ?Nat2Z.inj_add, ?N2Z.inj_add; reflexivity.
  - destruct (is_skip en b) eqn:Es;
      destruct Htl as [->|(x & ->)]; cbn [app]; steps7d (ext_fr en); unfold byte_type; rewrite ?Ed, ?Es; steps7d (ext_fr en);
      rewrite ?N2Z.inj_add; reflexivity.
Qed.

(* after the range loop: return what was kept (or the reader's error), or read again when everything was skipped *)
Definition envA (st : fr_state) (p : bytes) (n : Z) (ev : gval) (off : nat) (xi xb xt : gval) : env :=
  [("r", g_fr en st); ("p", VBytes p); ("n", VInt n); ("err", ev); ("offset", VInt (Z.of_nat off));
   ("i", xi); ("b", xb); ("typ", xt)].
Lemma fr_after_exec (f : nat) (st : fr_state) (p : bytes) (n : Z) (er : option err) (off : nat) (xi xb xt : gval) :
  exec2 (ext_fr en) (S (S (S (S (S f))))) (envA st p n (g_err_opt er) off xi xb xt) fr_after
  = if Nat.ltb 0 off || (match er with Some _ => true | None => false end)
    then CRet [VInt (Z.of_nat off); g_err_opt er] (envA st p n (g_err_opt er) off xi xb xt)
    else let '((data, er'), s') := src_read (List.length p) (fr_src st) in
         CNorm (envA (mkFr s' (fr_nread st)) (data ++ skipn (List.length data) p) (Z.of_nat (List.length data)) (g_err_opt er') off xi xb xt).
Proof.
  destruct st as [src nread]. unfold fr_after, envA, g_fr. cbn [fr_src fr_nread].
  generalize (g_encoding en). intros E.
  destruct (Nat.ltb 0 off) eqn:E0; [apply Nat.ltb_lt in E0|apply Nat.ltb_ge in E0]; cbn [orb].
  - steps7d (ext_fr en). reflexivity.
  - destruct er as [e|]; cbn [g_err_opt].
    + steps7d (ext_fr en). reflexivity.
    + destruct (src_read (List.length p) src) as [[data er'] s'] eqn:Esr.
      steps7d (ext_fr en). rewrite as_source_g, Esr. unfold read_result. cbn [fst snd]. steps7d (ext_fr en). reflexivity.
Qed.
End FrSeg.

(* ---------- the range loop as the iteration of fr_body_step, against the model's fr_filter ---------- *)
Section FrRange.
Variable en : encoding.

Fixpoint gfr_range (l : bytes) (i off : nat) (p : bytes) (nread : N) : (bytes * nat * N) + N :=
  match l with
  | [] => inl (p, off, nread)
  | b :: t =>
    match digit_of en b with
    | Some _ => gfr_range t (S i) (off + 1) (if Nat.eqb i off then p else set_nth off b p) (nread + 1)
    | None => if is_skip en b then gfr_range t (S i) off p (nread + 1) else inr nread
    end
  end.

Lemma set_nth_len (k : nat) (b : byte) (p : bytes) : (k < List.length p)%nat -> List.length (set_nth k b p) = List.length p.
Proof. intros H. unfold set_nth. rewrite app_length, firstn_length. cbn [List.length]. rewrite skipn_length. lia. Qed.
Lemma set_nth_firstn (k : nat) (b : byte) (p : bytes) : (k < List.length p)%nat ->
  firstn (k + 1) (set_nth k b p) = firstn k p ++ [b].
Proof.
  intros H. unfold set_nth.
  assert (Hl : List.length (firstn k p) = k) by (rewrite firstn_length; lia).
  rewrite firstn_app, Hl, firstn_all2 by lia.
  replace (k + 1 - k)%nat with 1%nat by lia. reflexivity.
Qed.
Lemma set_nth_skipn (k j : nat) (b : byte) (p : bytes) : (k < j)%nat -> (k < List.length p)%nat ->
  skipn j (set_nth k b p) = skipn j p.
Proof.
  intros H1 H2. unfold set_nth.
  assert (Hl : List.length (firstn k p) = k) by (rewrite firstn_length; lia).
  rewrite skipn_app, Hl, skipn_all2 by lia. cbn [app].
  replace (j - k)%nat with (S (j - k - 1)) by lia. rewrite skipn_cons.
  rewrite skipn_skipn7. f_equal. lia.
Qed.
Lemma firstn_S_skipn (k : nat) (b : byte) (r p : bytes) : skipn k p = b :: r -> firstn (k + 1) p = firstn k p ++ [b].
Proof.
  intros H. rewrite <- (firstn_skipn k p) at 1. rewrite H.
  assert (Hk : (k <= List.length p)%nat).
  { destruct (Nat.le_gt_cases k (List.length p)) as [Hc|Hc]; [exact Hc|]. rewrite skipn_all2 in H by lia. discriminate. }
  assert (Hl : List.length (firstn k p) = k) by (rewrite firstn_length; lia).
  rewrite firstn_app, Hl, firstn_all2 by lia.
  replace (k + 1 - k)%nat with 1%nat by lia. reflexivity.
Qed.

Lemma gfr_range_filter : forall (l : bytes) (i off : nat) (p : bytes) (nread : N) (acc post : bytes),
  (off <= i)%nat -> (i <= List.length p)%nat -> skipn i p = l ++ post -> firstn off p = rev acc ->
  match fr_filter en l nread acc with
  | inl (kept, nread') =>
    exists p', gfr_range l i off p nread = inl (p', List.length kept, nread') /\
               firstn (List.length kept) p' = kept /\ List.length p' = List.length p
  | inr x => gfr_range l i off p nread = inr x
  end.
Proof.
  induction l as [|b t IH]; intros i off p nread acc post Hoi Hip Hsk Hfo.
  - cbn [fr_filter gfr_range]. rewrite rev_append_rev, app_nil_r.
    assert (Hl : List.length (rev acc) = off) by (rewrite <- Hfo, firstn_length; lia).
    exists p. rewrite Hl. auto.
  - cbn [fr_filter gfr_range]. cbn [app] in Hsk.
    assert (Hi : (i < List.length p)%nat).
    { destruct (Nat.le_gt_cases (List.length p) i) as [Hc|Hc]; [|exact Hc]. rewrite skipn_all2 in Hsk by lia. discriminate. }
    assert (Hsk' : skipn (S i) p = t ++ post).
    { replace (S i) with (i + 1)%nat by lia. rewrite <- skipn_skipn7, Hsk. reflexivity. }
    destruct (digit_of en b) as [d|].
    + set (p1 := if Nat.eqb i off then p else set_nth off b p).
      assert (Hl1 : List.length p1 = List.length p).
      { unfold p1. destruct (Nat.eqb i off); [reflexivity|]. apply set_nth_len. lia. }
      specialize (IH (S i) (off + 1)%nat p1 (nread + 1)%N (b :: acc) post).
      assert (H1 : skipn (S i) p1 = t ++ post).
      { unfold p1. destruct (Nat.eqb i off) eqn:Ei; [exact Hsk'|]. apply Nat.eqb_neq in Ei.
        rewrite set_nth_skipn by lia. exact Hsk'. }
      assert (H2 : firstn (off + 1) p1 = rev (b :: acc)).
      { cbn [rev]. rewrite <- Hfo. unfold p1. destruct (Nat.eqb i off) eqn:Ei.
        - apply Nat.eqb_eq in Ei. subst i. eapply firstn_S_skipn. exact Hsk.
        - apply set_nth_firstn. lia. }
      specialize (IH ltac:(lia) ltac:(lia) H1 H2).
      destruct (fr_filter en t (nread + 1) (b :: acc)) as [[kept nread']|x]; [|exact IH].
      destruct IH as (p' & G1 & G2 & G3). exists p'. rewrite G3, Hl1. auto.
    + destruct (is_skip en b); [|reflexivity].
      specialize (IH (S i) off p (nread + 1)%N acc post ltac:(lia) ltac:(lia) Hsk' Hfo). exact IH.
Qed.
End FrRange.
