(* GoAstProofs7b.v — source ties for the base-X codec loops and the base-X STREAM DECODER
   (/repo/encoding/basex/encoding.go: Encoding.getByteType, .IsValidByte, .hasSkipBytes, .decode, .Decode, .Encode;
   /repo/encoding/basex/stream.go: filteringReader.Read, decoder.Read), as translated on this run from /repo's Go
   syntax trees (gen/GoAstDearmor.v) and run by the extended evaluator of model/GoLang2.v (run_func2: outcome AND
   final environment) on ENCODED arguments, against model/BaseX.v (digit_of / is_skip, decode, encode) and the
   state machine of model/BxStream.v (fr_read, bd_read).

   ENCODINGS.  An *Encoding object is [g_encoding en], built from the model's record en : BaseX.encoding for EVERY
   en: decodeMap is the 256-entry table whose entry b is a *big.Int object ([g_big d], a struct, hence != nil) when
   digit_of en b = Some d and nil otherwise; skipMap the 256-entry table of the booleans is_skip en b; skipBytes,
   encode, base256BlockLen = ibl, baseXBlockLen = obl = min_chars ibl, base, baseBig.  (NewEncoding fills
   decodeMap[encoder[i]] = i for ascending i, so for an alphabet with a repeated character Go keeps the LAST index
   and digit_of the first; the functions tied here only test entries against nil, and the digit values are used by
   decodeBlock only, which is an extern = the model's decode_block.)  A byte argument is [g_byte b] = VInt of its
   value, for b : byte (so 0 <= b < 256 is the bound Go's type imposes).  Errors are GoAstProofs4c.g_err /
   g_err_opt (CorruptInputError(n) = VErr "basex.CorruptInputError" [n]); [g_bx_opt] maps the model's bx_err.
   An underlying io.Reader is GoAstProofs4c.g_source s, s : Streams.source, read by src_read.

   FUEL.  As in GoAstProofs4c/5b: [run_func2_at F] is run_func2 with the evaluator's fuel as a parameter
   (run_func2 = run_func2_at 300); a `for` loop gets as many turns as there is fuel where it starts, so the loop
   theorems are stated for every fuel above a bound that grows with the input ([decode_turns] = blocks scanned by
   the model's decode loop, <= len(src); [encode_turns] = ceil(len(src)/ibl)); the _300 corollaries are the instances
   for run_func2.  These are bounds on the EVALUATOR, not on the Go code.

   TARGETS (all proved with Qed; Print Assumptions: closed under the global context).
   - go_getByteType         enc.getByteType(b) = [byte_type en b]: 0 (normal) if digit_of en b is Some, else 1 (skip) if
                            is_skip en b, else 2 (invalid) — the case analysis of BxStream.fr_filter; receiver unchanged.
                            For every encoding, every byte, every extern table.  No hypothesis.
   - go_IsValidByte         enc.IsValidByte(b) = [valid_byte en b] (digit or skip character); for base62 this is
                            Armor.valid_armor_byte ([valid_byte_base62]).  No hypothesis.
   - go_hasSkipBytes        enc.hasSkipBytes() = [has_skip en] (skipBytes non-empty), the test of BxStream.under_read.
                            No hypothesis.   (_shipped: the instances for Base62StdEncoding, ..Strict, Base58StdEncoding,
                            ..Strict; go_hasSkipBytes_shipped gives true/false/true/false.)
   - go_Encoding_decode     enc.decode(dst, src) returns (len d, e) for (d, e) = BaseX.decode en src — all blocks decoded
     (and _300)             before the first error, and that error: CorruptInputError(offset) / ErrInvalidEncodingLength / nil —
                            when d fits dst; when it does not, the evaluator is stuck at the call of decodeBlock whose
                            block no longer fits (OStuck "call": the Go code panics there, slice bounds out of range;
                            an extern cannot panic).  enc / src unchanged.  The callee enc.decodeBlock(dst[dp:],
                            src[sp:], sp) is the extern [ext_dec] = the model's decode_block (math/big).
                            WHAT IS OBSERVED OF dst: nothing.  decodeBlock writes through the slice EXPRESSION dst[dp:],
                            which GoLang2.expr_lval does not treat as a place, so the decoded bytes cannot be written back:
                            the theorem ties count and error and shows "dst" unchanged in the evaluator (same limit as
                            GoAstProofs4c.go_chunkReader_Read).  Hypothesis: decode_turns en src + 8 <= F (evaluator fuel).
   - go_Encoding_Decode     enc.Decode(dst, src) = enc.decode(dst, src): here dst is a VARIABLE of the caller, so the extern
                            "Encoding.decode" ([ext_Dec]) has the meaning of go_Encoding_decode PLUS the bytes (dst comes back
                            with the decoded bytes at its front, [put_front]); the theorem gives (len d, e) and the final
                            dst.  No hypothesis (stuck where the callee panics, as above).
   - go_Encoding_Encode     enc.Encode(dst, src): dst ends as [put_front dst (BaseX.encode en src)] — the encoding at the
     (and _300)             front, the rest of dst untouched — when the encoding fits; otherwise PANIC (encodeBlock indexes
                            past its window), exactly when len(encode en src) > len(dst).  The callee enc.encodeBlock is the
                            extern [ext_enc] = the model's encode_block written at the front of its window dst[dp:dLim]
                            (SSliceCall: the window IS a place here), panicking when the window is too short.
                            [genc] is the Go loop literally, [genc_model] its equality with BaseX.encode_fuel (uses:
                            min_chars is monotone for EVERY alphabet, [min_chars_mono]).
                            Hypotheses: 0 < base256BlockLen (with 0 the Go loop does not terminate; NewEncoding is never
                            called with 0: [shipped_ibl_pos]); encode_turns src + 10 <= F (evaluator fuel).
   - go_filteringReader_Read_range_stuck    NOT EXPRESSIBLE (see below): the exact account of what the evaluator does.
   - go_decoder_Read_nofill the two paths of decoder.Read that do not reach the fill loop, for every object and every p:
                            a sticky d.err is returned as (0, d.err), nothing changes; otherwise non-empty leftover output
                            d.out is copied: (min(len p, len out), nil), p gets the bytes at its front, d.out loses them —
                            the first two cases of BxStream.bd_read.  No hypothesis.

   NOT EXPRESSIBLE in model/GoLang2.v (reported, not worked around):
   1. f_basex_filteringReader_Read: `for i, b := range p[:n]`, translated to
        SRange "i" "b" (ESlice (EVar "p") None (Some (EVar "n"))) [...].
      GoLang.eval gives ESlice a meaning on VBytes only (result VBytes), and GoLang2.exec2 gives SRange a meaning on
      VList / VNil only ("range" otherwise): a byte slice cannot be ranged over.  [go_filteringReader_Read_range_stuck]:
      for every state and p the run is the model's when the first Read of the wrapped reader delivers no byte
      ((0, err) returned as is, fr_read's first case) and OStuck "range" in every other case.  Missing: SRange over
      VBytes (index, byte value).  (Also: CorruptInputError(r.nRead) is the composite literal ELit "CorruptInputError",
      which eval turns into a struct, not an error value; the name does not start with "Err".)
   2. f_basex_decoder_Read, the fill loop `n, d.err = d.r.Read(d.buf[d.nbuf:nn])`, translated to
        SAssignL [LVar "n"; LField (LVar "d") "err"]
                 [ECall "Reader.Read" [ESel (EVar "d") "r"; ESlice (ESel (EVar "d") "buf") (Some d.nbuf) (Some nn)]],
      and the final `copy(d.buf[0:d.nbuf], d.buf[numBytesToDecode:numBytesToDecode+d.nbuf])` (SExpr (ECall "copy" [ESlice ..; ESlice ..])).
      call_assign writes the extra results of an extern back to [mutable_places args] only, and expr_lval knows
      EVar / EAddr / ESel: a slice of a field is not a place ([decoder_Read_read_places]: the only place of the Read call
      is d.r; [decoder_Read_copy_places]: the copy has none).  So the bytes the underlying reader delivers can never
      appear in d.buf, which the rest of Read decodes, and the leftover input is never moved to the front.  Missing: a
      window place (LSlice l lo hi) in glval / expr_lval (SSliceCall has a VARIABLE target only), or reference values.
      What is expressible is proved: the two paths that do not reach the loop (go_decoder_Read_nofill). *)

From Coq Require Import List String NArith ZArith Bool Lia.
From Coq.Strings Require Import Byte.
From SP Require Import Bytes Consts Params Errors BaseX Encodings Armor Streams BxStream GoLang GoLang2 GoAst GoAstProofs GoAstProofs2 GoAstProofs3 GoAstProofs4c.
From SP Require Import GoAstDearmor.
Import ListNotations.
Local Open Scope string_scope.

(* ================= part 1 ================= *)
Definition all_bytes : list byte :=
  Eval vm_compute in map (fun n => match Byte.of_N (N.of_nat n) with Some b => b | None => x00 end) (seq 0 256).
Lemma all_bytes_nth (b : byte) : nth_error all_bytes (N.to_nat (Byte.to_N b)) = Some b.
Proof. destruct b; reflexivity. Qed.

Definition g_byte (b : byte) : gval := VInt (Z.of_N (Byte.to_N b)).
Definition g_big (d : N) : gval := VStruct [("abs", VInt (Z.of_N d))].
Definition g_dentry (en : encoding) (b : byte) : gval :=
  match digit_of en b with Some d => g_big d | None => VNil end.
Definition g_sentry (en : encoding) (b : byte) : gval := VBool (is_skip en b).
Definition g_encoding (en : encoding) : gval :=
  VStruct [("encode", VBytes (enc_alphabet en));
           ("decodeMap", VList (map (g_dentry en) all_bytes));
           ("skipMap", VList (map (g_sentry en) all_bytes));
           ("base256BlockLen", VInt (Z.of_N (BaseX.ibl en)));
           ("baseXBlockLen", VInt (Z.of_N (BaseX.obl en)));
           ("base", VInt (Z.of_N (BaseX.base en)));
           ("baseBig", g_big (BaseX.base en));
           ("skipBytes", VBytes (enc_skip en))].

Definition put_front (dst o : bytes) : bytes := (o ++ skipn (List.length o) dst)%list.

Definition byte_type (en : encoding) (b : byte) : Z :=
  match digit_of en b with Some _ => 0 | None => if is_skip en b then 1 else 2 end%Z.

Lemma table_nth {A} (f : byte -> A) (b : byte) :
  nth_error (map f all_bytes) (Z.to_nat (Z.of_N (Byte.to_N b))) = Some (f b).
Proof. replace (Z.to_nat (Z.of_N (Byte.to_N b))) with (N.to_nat (Byte.to_N b)) by lia. apply map_nth_error, all_bytes_nth. Qed.

Ltac ev_in7 h :=
  eval cbv -[Z.eqb Z.ltb Z.leb Z.add Z.sub Z.mul Z.modulo Z.rem Z.quot Z.shiftr Z.shiftl Z.opp
             Z.land Z.lor Z.lxor Z.lnot Z.of_nat Z.of_N Z.to_nat Z.to_N List.length nth_error
             firstn skipn bytes_eqb' bytes_eqb Byte.to_N Byte.of_N Byte.eqb N.mul N.ltb N.eqb N.add N.leb Nat.eqb Nat.leb Nat.ltb
             Nat.min Nat.sub Nat.add Nat.mul Nat.div Nat.modulo N.to_nat N.of_nat nth map repeat app
             err_name err_args g_seg g_source as_source src_read read_result
             all_bytes g_dentry g_sentry digit_of is_skip BaseX.ibl BaseX.obl BaseX.base enc_alphabet enc_skip
             decode_block encode_block BaseX.decode BaseX.encode decoded_len encoded_len put_front
             for_loop2 range_loop2 exec2] in h.
Ltac ev_term7 X h :=
  lazymatch h with
  | X ?fn ?args => let h' := ev_in7 h in progress (change h with h'); cbv beta iota
  | _ =>
    let p := eval pattern X in h in
    lazymatch p with
    | ?g _ => let g' := ev_in7 g in
              let h' := eval cbv beta in (g' X) in
              progress (change h with h'); cbv beta iota
    end
  end.
Ltac norm_env7 h x f e ss k :=
  let e' := ev_in7 e in
  tryif constr_eq e e' then k e
  else (change h with (exec2 x (S f) e' ss); k e').
Ltac step7 X :=
  lazymatch goal with
  | |- ?G =>
    let L := lazymatch G with (?L = _ -> _) => L | ?L = _ => L | _ => G end in
    let h := head_scrut3 L in
    lazymatch h with
    | exec2 ?x (S ?f) ?e (SFor ?c ?b :: ?rest) =>
      norm_env7 h x f e (SFor c b :: rest) ltac:(fun e' => rewrite exec2_for)
    | exec2 ?x (S ?f) ?e (SRange ?k ?v ?coll ?b :: ?rest) =>
      norm_env7 h x f e (SRange k v coll b :: rest) ltac:(fun e' => rewrite exec2_range)
    | exec2 ?x (S ?f) ?e ?ss =>
      tryif is_var ss then fail else
      norm_env7 h x f e ss ltac:(fun e' => rewrite (exec2_S x f e' ss); cbv beta iota zeta); fix_lvars4; cbv beta iota
    | for_loop2 _ _ _ _ _ _ _ => fail
    | range_loop2 _ _ _ _ _ _ _ _ _ => fail
    | _ => ev_term7 X h
    end
  end.
Ltac tab7 := progress (rewrite ?N_ltb0, ?table_nth); cbv beta iota.
Ltac steps7 X := repeat first [step7 X | use_head_hyp4 | lits1 | lits2 | lits3 | slice1 | arith4 | tab7].

(* decide the comparison at the head by linear arithmetic over the hypotheses *)
Ltac dec_head :=
  lazymatch goal with
  | |- ?G =>
    let L := lazymatch G with (?L = _ -> _) => L | ?L = _ => L | _ => G end in
    let h := head_scrut3 L in
    lazymatch h with
    | Z.ltb _ _ => first [ replace h with true by (symmetry; apply Z.ltb_lt; lia) | replace h with false by (symmetry; apply Z.ltb_ge; lia) ]
    | Z.leb _ _ => first [ replace h with true by (symmetry; apply Z.leb_le; lia) | replace h with false by (symmetry; apply Z.leb_gt; lia) ]
    | Z.eqb _ _ => first [ replace h with true by (symmetry; apply Z.eqb_eq; lia) | replace h with false by (symmetry; apply Z.eqb_neq; lia) ]
    | Nat.ltb _ _ => first [ replace h with true by (symmetry; apply Nat.ltb_lt; lia) | replace h with false by (symmetry; apply Nat.ltb_ge; lia) ]
    | Nat.leb _ _ => first [ replace h with true by (symmetry; apply Nat.leb_le; lia) | replace h with false by (symmetry; apply Nat.leb_gt; lia) ]
    | Nat.eqb _ _ => first [ replace h with true by (symmetry; apply Nat.eqb_eq; lia) | replace h with false by (symmetry; apply Nat.eqb_neq; lia) ]
    end
  end; cbv beta iota.
Lemma Zsub_nat (a b : nat) : Z.to_nat (Z.of_nat a - Z.of_nat b) = (a - b)%nat.
Proof. lia. Qed.
Ltac nz := progress (rewrite ?Nat2Z.id, ?Zsub_nat); cbv beta iota.
Ltac steps7d X := repeat first [step7 X | use_head_hyp4 | lits1 | lits2 | lits3 | slice1 | arith4 | tab7 | dec_head].

Section Cls.
Variable X : externs.
Variable en : encoding.

(* (TARGET) *)
Lemma go_getByteType (b : byte) :
  run_func2 X f_basex_Encoding_getByteType [g_encoding en; g_byte b]
  = (ORet [VInt (byte_type en b)], [("enc", g_encoding en); ("b", g_byte b)]).
Proof.
  start4 f_basex_Encoding_getByteType. unfold g_encoding, g_byte, byte_type.
  steps7 X.
  destruct (digit_of en b) as [d|] eqn:Ed.
  - assert (Hd : g_dentry en b = g_big d) by (unfold g_dentry; rewrite Ed; reflexivity).
    rewrite Hd. unfold g_big. steps7 X. reflexivity.
  - assert (Hd : g_dentry en b = VNil) by (unfold g_dentry; rewrite Ed; reflexivity).
    rewrite Hd. steps7 X. unfold g_sentry at 1. destruct (is_skip en b) eqn:Es; steps7 X; reflexivity.
Qed.

Definition valid_byte (b : byte) : bool := match digit_of en b with Some _ => true | None => is_skip en b end.
Definition has_skip : bool := match enc_skip en with [] => false | _ :: _ => true end.

(* (TARGET) *)
Lemma go_IsValidByte (b : byte) :
  run_func2 X f_basex_Encoding_IsValidByte [g_encoding en; g_byte b]
  = (ORet [VBool (valid_byte b)], [("enc", g_encoding en); ("b", g_byte b)]).
Proof.
  start4 f_basex_Encoding_IsValidByte. unfold g_encoding, g_byte, valid_byte.
  steps7 X.
  destruct (digit_of en b) as [d|] eqn:Ed.
  - assert (Hd : g_dentry en b = g_big d) by (unfold g_dentry; rewrite Ed; reflexivity).
    rewrite Hd. unfold g_big. steps7 X. reflexivity.
  - assert (Hd : g_dentry en b = VNil) by (unfold g_dentry; rewrite Ed; reflexivity).
    rewrite Hd. steps7 X. unfold g_sentry at 1. destruct (is_skip en b) eqn:Es; steps7 X; reflexivity.
Qed.

(* (TARGET) *)
Lemma go_hasSkipBytes :
  run_func2 X f_basex_Encoding_hasSkipBytes [g_encoding en]
  = (ORet [VBool has_skip], [("enc", g_encoding en)]).
Proof.
  start4 f_basex_Encoding_hasSkipBytes. unfold g_encoding, has_skip.
  steps7 X. destruct (enc_skip en) as [|s0 sk]; cbn [List.length]; [reflexivity|].
  replace (0 <? Z.of_nat (S (List.length sk)))%Z with true by lia. reflexivity.
Qed.
End Cls.

(* the four shipped encodings *)
Definition shipped : list encoding := [base62; base62_strict; base58; base58_strict].
Corollary go_getByteType_shipped (X : externs) (en : encoding) (b : byte) : In en shipped ->
  run_func2 X f_basex_Encoding_getByteType [g_encoding en; g_byte b]
  = (ORet [VInt (byte_type en b)], [("enc", g_encoding en); ("b", g_byte b)]).
Proof. intros _. apply go_getByteType. Qed.
Corollary go_IsValidByte_shipped (X : externs) (en : encoding) (b : byte) : In en shipped ->
  run_func2 X f_basex_Encoding_IsValidByte [g_encoding en; g_byte b]
  = (ORet [VBool (valid_byte en b)], [("enc", g_encoding en); ("b", g_byte b)]).
Proof. intros _. apply go_IsValidByte. Qed.
Corollary go_hasSkipBytes_shipped (X : externs) :
  map (fun en => fst (run_func2 X f_basex_Encoding_hasSkipBytes [g_encoding en])) shipped
  = [ORet [VBool true]; ORet [VBool false]; ORet [VBool true]; ORet [VBool false]].
Proof. cbn [map shipped]. rewrite !go_hasSkipBytes. reflexivity. Qed.
(* for the armor encoding IsValidByte is the model's valid_armor_byte *)
Lemma valid_byte_base62 (b : byte) : valid_byte base62 b = valid_armor_byte b.
Proof. reflexivity. Qed.
Lemma shipped_ibl_pos (en : encoding) : In en shipped -> (0 < BaseX.ibl en)%N.
Proof. intros [<-|[<-|[<-|[<-|[]]]]]; reflexivity. Qed.

Example test_cls_1 : fst (run_func2 (fun _ _ => None) f_basex_Encoding_getByteType [g_encoding base62; g_byte "a"%byte]) = ORet [VInt 0].
Proof. vm_compute. reflexivity. Qed.
Example test_cls_2 : fst (run_func2 (fun _ _ => None) f_basex_Encoding_getByteType [g_encoding base62; g_byte " "%byte]) = ORet [VInt 1].
Proof. vm_compute. reflexivity. Qed.
Example test_cls_3 : fst (run_func2 (fun _ _ => None) f_basex_Encoding_getByteType [g_encoding base62; g_byte "!"%byte]) = ORet [VInt 2].
Proof. vm_compute. reflexivity. Qed.
Example test_cls_4 : fst (run_func2 (fun _ _ => None) f_basex_Encoding_getByteType [g_encoding base62_strict; g_byte " "%byte]) = ORet [VInt 2].
Proof. vm_compute. reflexivity. Qed.
Example test_cls_5 : map (fun e => fst (run_func2 (fun _ _ => None) f_basex_Encoding_IsValidByte [g_encoding e; g_byte "0"%byte])) [base58; base58_strict; base62]
  = [ORet [VBool true]; ORet [VBool false]; ORet [VBool true]].
Proof. vm_compute. reflexivity. Qed.
Example test_cls_6 : map (fun e => fst (run_func2 (fun _ _ => None) f_basex_Encoding_hasSkipBytes [g_encoding e])) [base62; base62_strict; base58; base58_strict]
  = [ORet [VBool true]; ORet [VBool false]; ORet [VBool true]; ORet [VBool false]].
Proof. vm_compute. reflexivity. Qed.

Local Open Scope list_scope.

(* ================= part 2 ================= *)
Lemma skipn_skipn7 {A} (a : nat) : forall (b : nat) (l : list A), skipn a (skipn b l) = skipn (b + a) l.
Proof.
  intros b. induction b as [|b IH]; intros l; [reflexivity|].
  destruct l as [|x l]; [rewrite !skipn_nil; reflexivity|]. cbn [skipn Nat.add]. apply IH.
Qed.

Section Dec.
Variable en : encoding.

(* ---------- facts about the model's block scanner, for every encoding ---------- *)
Lemma scan_block_shape (src : bytes) : forall i ng acc off ds c rest,
  scan_block en src i ng acc off = inr (ds, c, rest) ->
  exists k, c = (i + N.of_nat k)%N /\ rest = skipn k src /\ (k <= List.length src)%nat /\ (src <> [] -> (1 <= k)%nat).
Proof.
  induction src as [|b t IH]; intros i ng acc off ds c rest H.
  - cbn [scan_block] in H. injection H as _ <- <-. exists 0%nat. repeat split; try (cbn; lia). congruence.
  - cbn [scan_block] in H. destruct (digit_of en b) as [d|].
    + destruct (ng + 1 =? obl en)%N.
      * injection H as _ <- <-. exists 1%nat. repeat split; cbn [List.length]; lia.
      * apply IH in H. destruct H as (k & -> & -> & Hk & _). exists (S k). repeat split; cbn [List.length]; lia.
    + destruct (is_skip en b); [|discriminate].
      apply IH in H. destruct H as (k & -> & -> & Hk & _). exists (S k). repeat split; cbn [List.length]; lia.
Qed.

Lemma decode_block_shape (src : bytes) (off : N) out rest c :
  decode_block en src off = inr (out, rest, c) ->
  rest = skipn (N.to_nat c) src /\ (N.to_nat c <= List.length src)%nat /\ (src <> [] -> (1 <= N.to_nat c)%nat).
Proof.
  unfold decode_block. destruct (scan_block en src 0 0 [] off) as [er|[[ds c'] rest']] eqn:E; [discriminate|].
  cbv zeta. destruct (negb _); [discriminate|]. destruct (_ <=? _)%N; [discriminate|].
  intros H. injection H as _ <- <-. apply scan_block_shape in E. destruct E as (k & -> & -> & Hk & Hk1).
  rewrite N.add_0_l, Nat2N.id. auto.
Qed.

Lemma decode_fuel_acc7 : forall f s off acc,
  decode_fuel en f s off acc = (rev acc ++ fst (decode_fuel en f s off []), snd (decode_fuel en f s off [])).
Proof.
  induction f as [|f IH]; intros s off acc.
  - cbn [decode_fuel fst snd]. rewrite rev_append_rev, !app_nil_r. reflexivity.
  - cbn [decode_fuel]. destruct s as [|b t].
    + cbn [fst snd]. rewrite rev_append_rev, !app_nil_r. reflexivity.
    + destruct (decode_block en (b :: t) off) as [er|[[out rest] c]].
      * cbn [fst snd]. rewrite rev_append_rev, !app_nil_r. reflexivity.
      * rewrite (IH rest (off + c)%N (rev_append out acc)), (IH rest (off + c)%N (rev_append out [])).
        cbn [fst snd]. rewrite !rev_append_rev, rev_app_distr, rev_involutive, !app_nil_r, rev_involutive, <- app_assoc.
        reflexivity.
Qed.

(* the number of turns of the decode loop *)
Fixpoint dturns (fuel : nat) (src : bytes) (off : N) : nat :=
  match fuel with
  | O => O
  | S f =>
    match src with
    | [] => O
    | _ => match decode_block en src off with
           | inl _ => 1%nat
           | inr (_, rest, c) => S (dturns f rest (off + c))
           end
    end
  end.
Definition decode_turns (src : bytes) : nat := dturns (List.length src) src 0.

Lemma dturns_le : forall f src off, (dturns f src off <= List.length src)%nat.
Proof.
  induction f as [|f IH]; intros src off; [cbn; lia|].
  cbn [dturns]. destruct src as [|b t]; [cbn; lia|].
  destruct (decode_block en (b :: t) off) as [er|[[out rest] c]] eqn:E; [cbn [List.length]; lia|].
  apply decode_block_shape in E. destruct E as (-> & Hc & Hc1). specialize (Hc1 ltac:(discriminate)).
  specialize (IH (skipn (N.to_nat c) (b :: t)) (off + c)%N). rewrite skipn_length in IH. lia.
Qed.
Lemma decode_turns_le (src : bytes) : (decode_turns src <= List.length src)%nat.
Proof. apply dturns_le. Qed.

(* ---------- externs ---------- *)
Definition g_bx_opt (e : option bx_err) : gval := g_err_opt (option_map bx_to_err e).

(* enc.decodeBlock(dst, src, baseOffset) = the model's decode_block: (len out, consumed, nil) or (0, 0, err).  The bytes
   it writes into its dst argument are not a result (the caller passes a slice expression, which is not a place).
   No value when the decoded block does not fit dst (the Go code panics: slice bounds out of range). *)
Definition ext_dec : externs := fun fn args =>
  if String.eqb fn "Encoding.decodeBlock" then
    match args with
    | [_; VBytes dst; VBytes src; VInt off] =>
      if Z.ltb off 0 then None
      else match decode_block en src (Z.to_N off) with
           | inl e => Some [VInt 0; VInt 0; g_err (bx_to_err e)]
           | inr (out, _, c) =>
             if Nat.leb (List.length out) (List.length dst)
             then Some [VInt (Z.of_nat (List.length out)); VInt (Z.of_N c); VNil] else None
           end
    | _ => None
    end
  else None.

Definition dec_body : list gstmt :=
  Eval cbv in match f_body f_basex_Encoding_decode with [_; SFor _ b; _] => b | _ => [] end.
Definition dec_cond : gexpr :=
  Eval cbv in match f_body f_basex_Encoding_decode with [_; SFor c _; _] => c | _ => ENil end.
Definition dec_rest : list gstmt :=
  Eval cbv in match f_body f_basex_Encoding_decode with [_; _; r] => [r] | _ => [] end.

Definition envD (E : gval) (dst src : bytes) (er : gval) (dp sp : nat) (tl : env) : env :=
  ([("enc", E); ("dst", VBytes dst); ("src", VBytes src); ("n", VInt 0); ("err", er);
    ("dp", VInt (Z.of_nat dp)); ("sp", VInt (Z.of_nat sp))] ++ tl)%list.
Definition dec_tail (tl : env) : Prop := tl = [] \/ exists a b, tl = [("di", a); ("si", b)].

Lemma dec_body_step (f : nat) (E : gval) (dst src : bytes) (dp sp : nat) (tl : env) :
  dec_tail tl -> (dp <= List.length dst)%nat -> (sp <= List.length src)%nat ->
  exec2 ext_dec (S (S (S (S (S (S f)))))) (envD E dst src VNil dp sp tl) dec_body
  = match decode_block en (skipn sp src) (N.of_nat sp) with
    | inl e => CRet [VInt (Z.of_nat dp); g_err (bx_to_err e)]
                    (envD E dst src (g_err (bx_to_err e)) dp sp [("di", VInt 0); ("si", VInt 0)])
    | inr (out, _, c) =>
      if Nat.leb (List.length out) (List.length dst - dp)
      then CNorm (envD E dst src VNil (dp + List.length out) (sp + N.to_nat c)
                       [("di", VInt (Z.of_nat (List.length out))); ("si", VInt (Z.of_N c))])
      else CStuck "call"
    end.
Proof.
  intros Htl Hdp Hsp. unfold dec_body, envD.
  assert (H1 : (Z.of_nat (List.length dst) <? Z.of_nat dp)%Z = false) by lia.
  assert (H2 : (Z.of_nat (List.length src) <? Z.of_nat sp)%Z = false) by lia.
  assert (H3 : Z.to_N (Z.of_nat sp) = N.of_nat sp) by lia.
  destruct (decode_block en (skipn sp src) (N.of_nat sp)) as [er|[[out rest] c]] eqn:Eb.
  - destruct Htl as [->|(a & b & ->)]; cbn [app]; steps7 ext_dec;
      rewrite !slice_rest by assumption; rewrite H3, Eb; steps7 ext_dec; reflexivity.
  - destruct (Nat.leb (List.length out) (List.length dst - dp)) eqn:El.
    + destruct Htl as [->|(a & b & ->)]; cbn [app]; steps7 ext_dec;
        rewrite !slice_rest by assumption; rewrite H3, Eb, skipn_length, El; steps7 ext_dec;
        rewrite <- !Nat2Z.inj_add, <- (N_nat_Z c), <- Nat2Z.inj_add, (N_nat_Z c); reflexivity.
    + destruct Htl as [->|(a & b & ->)]; cbn [app]; steps7 ext_dec;
        rewrite !slice_rest by assumption; rewrite H3, Eb, skipn_length, El; steps7 ext_dec; reflexivity.
Qed.

Definition F6 (f : nat) : nat := S (S (S (S (S (S f))))).

Lemma dec_loop (f : nat) (E : gval) (dst src : bytes) :
  forall (m k sp : nat) (acc : bytes) (tl : env),
  dec_tail tl -> (List.length acc <= List.length dst)%nat -> (sp <= List.length src)%nat ->
  (List.length src - sp <= m)%nat -> (dturns m (skipn sp src) (N.of_nat sp) < k)%nat ->
  exists env',
    lookup "enc" env' = Some E /\ lookup "dst" env' = Some (VBytes dst) /\ lookup "src" env' = Some (VBytes src) /\
    for_loop2 ext_dec (F6 f) dec_cond dec_body dec_rest k (envD E dst src VNil (List.length acc) sp tl)
    = (let r := decode_fuel en m (skipn sp src) (N.of_nat sp) (rev acc) in
       if Nat.leb (List.length (fst r)) (List.length dst)
       then CRet [VInt (Z.of_nat (List.length (fst r))); g_bx_opt (snd r)] env'
       else CStuck "call").
Proof.
  induction m as [|m IH]; intros k sp acc tl Htl Hacc Hsp Hm Hk.
  - (* nothing left *)
    assert (sp = List.length src) by lia. subst sp.
    destruct k as [|k]; [lia|]. rewrite for_loop2_S.
    rewrite skipn_all. cbn [decode_fuel]. rewrite rev_append_rev, app_nil_r, rev_involutive. cbn [fst snd].
    replace (Nat.leb (List.length acc) (List.length dst)) with true by (symmetry; apply Nat.leb_le; exact Hacc).
    eexists. unfold dec_cond, dec_rest, envD, F6.
    destruct Htl as [->|(a & b & ->)]; cbn [app]; steps7 ext_dec;
      (split; [|split; [|split]]; [| | |reflexivity]; reflexivity).
  - destruct (Nat.eq_dec sp (List.length src)) as [->|Hne].
    + destruct k as [|k]; [lia|]. rewrite for_loop2_S.
      rewrite skipn_all. cbn [decode_fuel]. rewrite rev_append_rev, app_nil_r, rev_involutive. cbn [fst snd].
      replace (Nat.leb (List.length acc) (List.length dst)) with true by (symmetry; apply Nat.leb_le; exact Hacc).
      eexists. unfold dec_cond, dec_rest, envD, F6.
      destruct Htl as [->|(a & b & ->)]; cbn [app]; steps7 ext_dec;
        (split; [|split; [|split]]; [| | |reflexivity]; reflexivity).
    + assert (Hlt : (sp < List.length src)%nat) by lia.
      destruct (skipn sp src) as [|b t] eqn:Esk.
      { apply (f_equal (@List.length byte)) in Esk. rewrite skipn_length in Esk. cbn in Esk. lia. }
      cbn [dturns] in Hk. cbn [decode_fuel].
      destruct k as [|k]; [lia|]. rewrite for_loop2_S.
      assert (Hc : eval ext_dec 64 (envD E dst src VNil (List.length acc) sp tl) dec_cond = Some (VBool true)).
      { unfold dec_cond, envD. destruct Htl as [->|(a0 & b0 & ->)]; cbn [app];
          (let h := ev_in7 (eval ext_dec 64 [("enc", E); ("dst", VBytes dst); ("src", VBytes src); ("n", VInt 0); ("err", VNil);
                     ("dp", VInt (Z.of_nat (List.length acc))); ("sp", VInt (Z.of_nat sp))] dec_cond) in idtac);
          cbv -[Z.ltb Z.of_nat List.length]; replace (Z.of_nat sp <? Z.of_nat (List.length src))%Z with true by lia; reflexivity. }
      rewrite Hc. unfold F6 at 1. rewrite (dec_body_step f E dst src (List.length acc) sp tl Htl Hacc Hsp). fold (F6 f).
      rewrite Esk.
      destruct (decode_block en (b :: t) (N.of_nat sp)) as [er|[[out rest] c]] eqn:Eb.
      * rewrite rev_append_rev, app_nil_r, rev_involutive. cbn [fst snd].
        replace (Nat.leb (List.length acc) (List.length dst)) with true by (symmetry; apply Nat.leb_le; exact Hacc).
        eexists. split; [|split; [|split]]; [| | |reflexivity]; reflexivity.
      * pose proof (decode_block_shape _ _ _ _ _ Eb) as (Hrest & Hc1 & Hc2). specialize (Hc2 ltac:(discriminate)).
        rewrite <- Esk in Hrest, Hc1. rewrite skipn_length in Hc1. rewrite skipn_skipn7 in Hrest.
        rewrite (decode_fuel_acc7 m rest). cbn [fst snd]. rewrite rev_append_rev, rev_app_distr, !rev_involutive.
        destruct (Nat.leb (List.length out) (List.length dst - List.length acc)) eqn:El.
        -- apply Nat.leb_le in El.
           assert (Hacc' : (List.length (acc ++ out) <= List.length dst)%nat) by (rewrite app_length; lia).
           destruct (IH k (sp + N.to_nat c)%nat (acc ++ out) [("di", VInt (Z.of_nat (List.length out))); ("si", VInt (Z.of_N c))])
             as (env' & L1 & L2 & L3 & Hl).
           { right. eexists _, _. reflexivity. }
           { exact Hacc'. } { lia. } { lia. }
           { replace (skipn (sp + N.to_nat c) src) with rest by (rewrite Hrest; f_equal; lia).
             replace (N.of_nat (sp + N.to_nat c)) with (N.of_nat sp + c)%N by lia. lia. }
           exists env'. split; [exact L1|]. split; [exact L2|]. split; [exact L3|].
           rewrite app_length in Hl. rewrite Hl. cbv zeta.
           replace (skipn (sp + N.to_nat c) src) with rest by (rewrite Hrest; f_equal; lia).
           replace (N.of_nat (sp + N.to_nat c)) with (N.of_nat sp + c)%N by lia.
           rewrite (decode_fuel_acc7 m rest _ (rev (acc ++ out))). cbn [fst snd].
           rewrite rev_involutive. reflexivity.
        -- apply Nat.leb_gt in El. exists [("enc", E); ("dst", VBytes dst); ("src", VBytes src)].
           split; [reflexivity|]. split; [reflexivity|]. split; [reflexivity|].
           match goal with |- _ = if ?c then _ else _ => replace c with false end; [reflexivity|].
           symmetry. apply Nat.leb_gt. rewrite !app_length. lia.
Qed.

Lemma dec_exec (f : nat) (E : gval) (dst src : bytes) :
  (decode_turns src < F6 f)%nat ->
  exists env',
    lookup "enc" env' = Some E /\ lookup "dst" env' = Some (VBytes dst) /\ lookup "src" env' = Some (VBytes src) /\
    exec2 ext_dec (S (S (F6 f))) [("enc", E); ("dst", VBytes dst); ("src", VBytes src); ("n", VInt 0); ("err", VNil)]
          (f_body f_basex_Encoding_decode)
    = if Nat.leb (List.length (fst (decode en src))) (List.length dst)
      then CRet [VInt (Z.of_nat (List.length (fst (decode en src)))); g_bx_opt (snd (decode en src))] env'
      else CStuck "call".
Proof.
  intros HF.
  assert (Hk : (dturns (List.length src) (skipn 0 src) (N.of_nat 0) < F6 f)%nat)
    by (unfold decode_turns, F6 in *; cbn [skipn]; change (N.of_nat 0) with 0%N; lia).
  destruct (dec_loop f E dst src (List.length src) (F6 f) 0%nat [] [] (or_introl eq_refl)
              ltac:(cbn; lia) ltac:(lia) ltac:(lia) Hk)
    as (env' & L1 & L2 & L3 & Hl).
  cbn [skipn rev List.length] in Hl. change (N.of_nat 0) with 0%N in Hl. fold (decode en src) in Hl. cbv zeta in Hl.
  exists env'. split; [exact L1|]. split; [exact L2|]. split; [exact L3|].
  rewrite <- Hl. cbn [f_body f_basex_Encoding_decode].
  step7 ext_dec. step7 ext_dec. step7 ext_dec. step7 ext_dec. reflexivity.
Qed.

(* (TARGET) *)
Theorem go_Encoding_decode (F : nat) (dst src : bytes) :
  (decode_turns src + 8 <= F)%nat ->
  let r := run_func2_at (S F) ext_dec f_basex_Encoding_decode [g_encoding en; VBytes dst; VBytes src] in
  if Nat.leb (List.length (fst (decode en src))) (List.length dst)
  then fst r = ORet [VInt (Z.of_nat (List.length (fst (decode en src)))); g_bx_opt (snd (decode en src))] /\
       lookup "enc" (snd r) = Some (g_encoding en) /\
       lookup "dst" (snd r) = Some (VBytes dst) /\
       lookup "src" (snd r) = Some (VBytes src)
  else r = (OStuck "call", []).
Proof.
  intros HF. cbv zeta.
  assert (HF' : exists f, F = S (F6 f)) by (exists (F - 7)%nat; unfold F6; lia).
  destruct HF' as [f ->].
  destruct (dec_exec f (g_encoding en) dst src ltac:(unfold F6 in *; lia)) as (env' & L1 & L2 & L3 & Hl).
  unfold run_func2_at. cbn [f_params f_results f_basex_Encoding_decode bind_params map app fst snd].
  change (zero_of "int") with (VInt 0). change (zero_of "error") with VNil.
  cbn [f_body f_basex_Encoding_decode] in Hl |- *. rewrite Hl.
  destruct (Nat.leb (List.length (fst (decode en src))) (List.length dst)); [|reflexivity].
  cbn [fst snd]. auto.
Qed.

(* (TARGET) the same at the fuel of run_func2 *)
Corollary go_Encoding_decode_300 (dst src : bytes) :
  (decode_turns src <= 291)%nat ->
  let r := run_func2 ext_dec f_basex_Encoding_decode [g_encoding en; VBytes dst; VBytes src] in
  if Nat.leb (List.length (fst (decode en src))) (List.length dst)
  then fst r = ORet [VInt (Z.of_nat (List.length (fst (decode en src)))); g_bx_opt (snd (decode en src))] /\
       lookup "enc" (snd r) = Some (g_encoding en) /\
       lookup "dst" (snd r) = Some (VBytes dst) /\
       lookup "src" (snd r) = Some (VBytes src)
  else r = (OStuck "call", []).
Proof. intros H. rewrite run_func2_at_300. apply (go_Encoding_decode 299). lia. Qed.

(* ---------- Encoding.Decode: the exported wrapper ---------- *)

(* enc.decode(dst, src) with the meaning of go_Encoding_decode AND the bytes: here dst is a variable of the caller,
   so the extern can hand back the buffer with the decoded bytes at its front (results 3 and 4 are written back
   to the argument places enc and dst) *)
Definition ext_Dec : externs := fun fn args =>
  if String.eqb fn "Encoding.decode" then
    match args with
    | [encv; VBytes dst; VBytes src] =>
      let r := decode en src in
      if Nat.leb (List.length (fst r)) (List.length dst)
      then Some [VInt (Z.of_nat (List.length (fst r))); g_bx_opt (snd r); encv; VBytes (put_front dst (fst r))]
      else None
    | _ => None
    end
  else None.

(* (TARGET) *)
Theorem go_Encoding_Decode (E : gval) (dst src : bytes) :
  run_func2 ext_Dec f_basex_Encoding_Decode [E; VBytes dst; VBytes src]
  = let r := decode en src in
    if Nat.leb (List.length (fst r)) (List.length dst)
    then (ORet [VInt (Z.of_nat (List.length (fst r))); g_bx_opt (snd r)],
          [("enc", E); ("dst", VBytes (put_front dst (fst r))); ("src", VBytes src); ("n", VInt 0); ("err", VNil);
           ("r'0", VInt (Z.of_nat (List.length (fst r)))); ("r'1", g_bx_opt (snd r))])
    else (OStuck "call", []).
Proof.
  start4 f_basex_Encoding_Decode. cbv zeta.
  destruct (decode en src) as [dec er] eqn:Ed. cbn [fst snd].
  destruct (Nat.leb (List.length dec) (List.length dst)) eqn:El.
  - steps7 ext_Dec. rewrite Ed. cbv beta iota. steps7 ext_Dec. reflexivity.
  - steps7 ext_Dec. rewrite Ed. cbv beta iota. steps7 ext_Dec. reflexivity.
Qed.
End Dec.

(* ---------- tests of the statements on concrete inputs (both sides computed) ---------- *)
Definition test_msg : bytes := [x01; x02; x03; xff; x00; x10; x20; x30; x41; x42; x43; x44; x45; x46; x47; x48; x49; x4a; x4b; x4c;
  x4d; x4e; x4f; x50; x51; x52; x53; x54; x55; x56; x57; x58; x59; x5a; x61; x62].
Definition test_enc : bytes := Eval vm_compute in encode base62 test_msg.
Definition test_run_dec (d : nat) (s : bytes) : outcome :=
  fst (run_func2 (ext_dec base62) f_basex_Encoding_decode [g_encoding base62; VBytes (repeat x00 d); VBytes s]).
Definition test_spec_dec (d : nat) (s : bytes) : outcome :=
  if Nat.leb (List.length (fst (decode base62 s))) d
  then ORet [VInt (Z.of_nat (List.length (fst (decode base62 s)))); g_bx_opt (snd (decode base62 s))] else OStuck "call".
(* two blocks, clean; with skipped white space; a foreign character in the second block (error path: 32 bytes, CorruptInputError(49));
   a destination that is too short; a truncated second block *)
Example test_dec_1 : map (fun ds => test_run_dec (fst ds) (snd ds))
    [(40%nat, test_enc); (40%nat, firstn 10 test_enc ++ [x20; x0a] ++ skipn 10 test_enc); (40%nat, test_enc ++ [x21]);
     (33%nat, test_enc); (40%nat, firstn 45 test_enc); (40%nat, firstn 44 test_enc)]
  = map (fun ds => test_spec_dec (fst ds) (snd ds))
    [(40%nat, test_enc); (40%nat, firstn 10 test_enc ++ [x20; x0a] ++ skipn 10 test_enc); (40%nat, test_enc ++ [x21]);
     (33%nat, test_enc); (40%nat, firstn 45 test_enc); (40%nat, firstn 44 test_enc)].
Proof. vm_compute. reflexivity. Qed.
Example test_dec_2 : test_run_dec 40 (test_enc ++ [x21]) = ORet [VInt 32; VErr "basex.CorruptInputError" [VInt 49]].
Proof. vm_compute. reflexivity. Qed.
Example test_dec_3 : test_run_dec 40 (firstn 44 test_enc) = ORet [VInt 32; VErr "basex.ErrInvalidEncodingLength" []].
Proof. vm_compute. reflexivity. Qed.

(* ================= part 3 ================= *)
Lemma put_front_len (win o : bytes) : (List.length o <= List.length win)%nat ->
  List.length (put_front win o) = List.length win.
Proof. intros H. unfold put_front. rewrite app_length, skipn_length. lia. Qed.

Lemma split_at_acc7 (n : nat) : forall (l acc : bytes),
  split_at_acc n l acc = (rev acc ++ firstn n l, skipn n l).
Proof.
  induction n as [|n IH]; intros l acc.
  - cbn [split_at_acc firstn skipn]. rewrite rev_append_rev, !app_nil_r. reflexivity.
  - destruct l as [|b t].
    + cbn [split_at_acc firstn skipn]. rewrite rev_append_rev, !app_nil_r. reflexivity.
    + cbn [split_at_acc firstn skipn]. rewrite IH. cbn [rev]. rewrite <- app_assoc. reflexivity.
Qed.
Lemma split_at_eq7 (n : nat) (l : bytes) : split_at n l = (firstn n l, skipn n l).
Proof. unfold split_at. rewrite split_at_acc7. reflexivity. Qed.

Lemma window_put (dst o : bytes) (dp dl : nat) :
  (dp <= dl)%nat -> (dl <= List.length dst)%nat -> (List.length o <= dl - dp)%nat ->
  firstn dp dst ++ put_front (firstn (dl - dp) (skipn dp dst)) o ++ skipn dl dst
  = firstn dp dst ++ o ++ skipn (dp + List.length o) dst.
Proof.
  intros H1 H2 H3. f_equal. unfold put_front. rewrite <- app_assoc. f_equal.
  rewrite skipn_firstn_comm, skipn_skipn7.
  replace (skipn dl dst) with (skipn (dl - dp - List.length o) (skipn (dp + List.length o) dst))
    by (rewrite skipn_skipn7; f_equal; lia).
  apply firstn_skipn.
Qed.

Section Enc.
Variable en : encoding.
Local Notation I := (N.to_nat (BaseX.ibl en)).
Local Notation O := (N.to_nat (BaseX.obl en)).

(* ---------- min_chars is monotone, for every alphabet ---------- *)
Lemma mca_ge (f : nat) : forall c pw t, (c <= min_chars_aux en f c pw t)%N.
Proof.
  induction f as [|f IH]; intros c pw t; cbn [min_chars_aux]; [lia|].
  destruct (t <=? pw)%N; [lia|]. specialize (IH (c + 1)%N (pw * base en)%N t). lia.
Qed.
Lemma mca_fuel (f : nat) : forall c pw t, (min_chars_aux en f c pw t <= min_chars_aux en (S f) c pw t)%N.
Proof.
  induction f as [|f IH]; intros c pw t.
  - cbn [min_chars_aux]. destruct (t <=? pw)%N; lia.
  - change (min_chars_aux en (S (S f)) c pw t) with
      (if (t <=? pw)%N then c else min_chars_aux en (S f) (c + 1) (pw * base en) t).
    change (min_chars_aux en (S f) c pw t) with
      (if (t <=? pw)%N then c else min_chars_aux en f (c + 1) (pw * base en) t).
    destruct (t <=? pw)%N; [lia|]. apply IH.
Qed.
Lemma mca_fuel_le (f1 f2 : nat) c pw t : (f1 <= f2)%nat -> (min_chars_aux en f1 c pw t <= min_chars_aux en f2 c pw t)%N.
Proof.
  induction 1 as [|f2 H IH]; [lia|]. pose proof (mca_fuel f2 c pw t). lia.
Qed.
Lemma mca_target (f : nat) : forall c pw t1 t2, (t1 <= t2)%N ->
  (min_chars_aux en f c pw t1 <= min_chars_aux en f c pw t2)%N.
Proof.
  induction f as [|f IH]; intros c pw t1 t2 H; cbn [min_chars_aux]; [lia|].
  destruct (t1 <=? pw)%N eqn:E1; destruct (t2 <=? pw)%N eqn:E2.
  - lia.
  - pose proof (mca_ge f (c + 1)%N (pw * base en)%N t2). lia.
  - apply N.leb_le in E2. apply N.leb_gt in E1. lia.
  - apply IH. exact H.
Qed.
Lemma min_chars_mono (r1 r2 : N) : (r1 <= r2)%N -> (min_chars en r1 <= min_chars en r2)%N.
Proof.
  intros H. unfold min_chars.
  assert (H1 : (256 ^ r1 <= 256 ^ r2)%N) by (apply N.pow_le_mono_r; lia).
  pose proof (mca_target (N.to_nat (8 * r1 + 1)) 0 1 _ _ H1).
  pose proof (mca_fuel_le (N.to_nat (8 * r1 + 1)) (N.to_nat (8 * r2 + 1)) 0 1 (256 ^ r2)%N ltac:(lia)).
  lia.
Qed.

Lemma to_digits_len7 (c : nat) : forall n acc, List.length (to_digits en c n acc) = (c + List.length acc)%nat.
Proof.
  induction c as [|c IH]; intros n acc; cbn [to_digits]; [reflexivity|].
  rewrite IH. cbn [List.length]. lia.
Qed.
Lemma encode_block_len7 (blk : bytes) : List.length (encode_block en blk) = N.to_nat (min_chars en (len blk)).
Proof. unfold encode_block. rewrite map_length, to_digits_len7. cbn [List.length]. lia. Qed.
Lemma encode_block_full (blk : bytes) : List.length blk = I -> List.length (encode_block en blk) = O.
Proof.
  intros H. rewrite encode_block_len7. unfold BaseX.obl, len. rewrite H, N2Nat.id. reflexivity.
Qed.
Lemma encode_block_short (blk : bytes) : (List.length blk <= I)%nat -> (List.length (encode_block en blk) <= O)%nat.
Proof.
  intros H. rewrite encode_block_len7. unfold BaseX.obl.
  pose proof (min_chars_mono (len blk) (BaseX.ibl en) ltac:(unfold len; lia)). lia.
Qed.

(* ---------- the Go-level loop, literally ---------- *)
Fixpoint genc (fuel : nat) (src dst : bytes) (dp : nat) : option bytes :=
  match fuel with
  | 0%nat => Some dst
  | S f =>
    match src with
    | [] => Some dst
    | _ =>
      let o := encode_block en (firstn I src) in
      let dl := Nat.min (dp + O) (List.length dst) in
      let win := firstn (dl - dp) (skipn dp dst) in
      if Nat.leb (List.length o) (List.length win)
      then genc f (skipn I src) (firstn dp dst ++ put_front win o ++ skipn dl dst) dl
      else None
    end
  end.

Fixpoint eturns (fuel : nat) (src : bytes) : nat :=
  match fuel with
  | 0%nat => 0%nat
  | S f => match src with [] => 0%nat | _ => S (eturns f (skipn I src)) end
  end.
Definition encode_turns (src : bytes) : nat := eturns (List.length src) src.

Lemma encode_fuel_nil7 (m : nat) : encode_fuel en m [] = [].
Proof. destruct m; reflexivity. Qed.
Lemma genc_nil (m : nat) (dst : bytes) (dp : nat) : genc m [] dst dp = Some dst.
Proof. destruct m; reflexivity. Qed.

Lemma genc_model : forall (m : nat) (src dst : bytes) (dp : nat), (dp <= List.length dst)%nat ->
  genc m src dst dp =
  let e := encode_fuel en m src in
  if Nat.leb (dp + List.length e) (List.length dst)
  then Some (firstn dp dst ++ e ++ skipn (dp + List.length e) dst) else None.
Proof.
  induction m as [|m IH]; intros src dst dp Hdp; cbv zeta.
  - cbn [genc encode_fuel List.length]. rewrite Nat.add_0_r.
    replace (Nat.leb dp (List.length dst)) with true by (symmetry; apply Nat.leb_le; exact Hdp).
    cbn [app]. rewrite firstn_skipn. reflexivity.
  - destruct src as [|b t].
    { cbn [genc encode_fuel List.length]. rewrite Nat.add_0_r.
      replace (Nat.leb dp (List.length dst)) with true by (symmetry; apply Nat.leb_le; exact Hdp).
      cbn [app]. rewrite firstn_skipn. reflexivity. }
    remember (b :: t) as s eqn:Hs.
    assert (Hg : genc (S m) s dst dp =
                 let o := encode_block en (firstn I s) in
                 let dl := Nat.min (dp + O) (List.length dst) in
                 let win := firstn (dl - dp) (skipn dp dst) in
                 if Nat.leb (List.length o) (List.length win)
                 then genc m (skipn I s) (firstn dp dst ++ put_front win o ++ skipn dl dst) dl else None)
      by (subst s; reflexivity).
    assert (He : encode_fuel en (S m) s = encode_block en (firstn I s) ++ encode_fuel en m (skipn I s))
      by (subst s; cbn [encode_fuel]; rewrite split_at_eq7; reflexivity).
    rewrite Hg, He. clear Hg He Hs b t. cbv zeta.
    set (o := encode_block en (firstn I s)). set (dl := Nat.min (dp + O) (List.length dst)).
    assert (Hwl : List.length (firstn (dl - dp) (skipn dp dst)) = (dl - dp)%nat)
      by (rewrite firstn_length, skipn_length; unfold dl; lia).
    rewrite Hwl.
    destruct (Nat.le_gt_cases I (List.length s)) as [Hfull|Hshort].
    + (* a full block *)
      assert (Hol : List.length o = O) by (apply encode_block_full; rewrite firstn_length; lia).
      destruct (Nat.leb (List.length o) (dl - dp)) eqn:El.
      * apply Nat.leb_le in El.
        assert (Hdl : dl = (dp + List.length o)%nat) by (unfold dl in *; lia).
        rewrite window_put by (unfold dl in *; lia).
        set (dst' := firstn dp dst ++ o ++ skipn (dp + List.length o) dst).
        assert (Hl' : List.length dst' = List.length dst)
          by (unfold dst'; rewrite !app_length, firstn_length, skipn_length; unfold dl in *; lia).
        rewrite IH by (rewrite Hl'; unfold dl; lia). cbv zeta. rewrite Hl', app_length, Hdl.
        set (E' := encode_fuel en m (skipn I s)).
        replace (dp + List.length o + List.length E')%nat with (dp + (List.length o + List.length E'))%nat by lia.
        destruct (Nat.leb (dp + (List.length o + List.length E')) (List.length dst)); [|reflexivity].
        f_equal. unfold dst'.
        assert (Hfl : List.length (firstn dp dst) = dp) by (rewrite firstn_length; lia).
        rewrite (app_assoc (firstn dp dst) o).
        replace (dp + List.length o)%nat with (List.length (firstn dp dst ++ o)) at 1 by (rewrite app_length, Hfl; reflexivity).
        rewrite firstn_app_len, <- !app_assoc. f_equal. f_equal. f_equal.
        rewrite (app_assoc (firstn dp dst) o), skipn_app, skipn_all2 by (rewrite app_length, Hfl; lia).
        rewrite app_length, Hfl. cbn [app].
        rewrite skipn_skipn7. f_equal. lia.
      * apply Nat.leb_gt in El. rewrite app_length.
        replace (Nat.leb (dp + (List.length o + List.length (encode_fuel en m (skipn I s)))) (List.length dst)) with false; [reflexivity|].
        symmetry. apply Nat.leb_gt. unfold dl in *. lia.
    + (* the last, short block *)
      assert (Hol : (List.length o <= O)%nat) by (apply encode_block_short; rewrite firstn_length; lia).
      rewrite (skipn_all2 s) by lia. rewrite encode_fuel_nil7, genc_nil, app_nil_r.
      destruct (Nat.leb (List.length o) (dl - dp)) eqn:El.
      * apply Nat.leb_le in El.
        replace (Nat.leb (dp + List.length o) (List.length dst)) with true by (symmetry; apply Nat.leb_le; unfold dl in *; lia).
        rewrite window_put by (unfold dl in *; lia). reflexivity.
      * apply Nat.leb_gt in El.
        replace (Nat.leb (dp + List.length o) (List.length dst)) with false; [reflexivity|].
        symmetry. apply Nat.leb_gt. unfold dl in *. lia.
Qed.

(* ---------- the evaluator ---------- *)
(* enc.encodeBlock(dst, src) = the model's encode_block written at the front of the window dst; a window shorter
   than the encoded block makes the Go code panic (index out of range) *)
Definition ext_enc : externs := fun fn args =>
  if String.eqb fn "Encoding.encodeBlock" then
    match args with
    | [VBytes win; VBytes blk] =>
      let o := encode_block en blk in
      if Nat.leb (List.length o) (List.length win) then Some [VBytes (put_front win o)] else Some [VNil]
    | _ => None
    end
  else None.

Definition enc_for : gstmt :=
  Eval cbv in match f_body f_basex_Encoding_Encode with [SIf _ _ [s] _] => s | _ => SBreak end.
Definition enc_body : list gstmt := Eval cbv in match enc_for with SFor _ b => b | _ => [] end.
Definition enc_cond : gexpr := Eval cbv in match enc_for with SFor c _ => c | _ => ENil end.

Definition envE (dst src : bytes) (sp dp sl dl : nat) : env :=
  [("enc", g_encoding en); ("dst", VBytes dst); ("src", VBytes src);
   ("sp", VInt (Z.of_nat sp)); ("dp", VInt (Z.of_nat dp)); ("sLim", VInt (Z.of_nat sl)); ("dLim", VInt (Z.of_nat dl))].

Definition F8 (f : nat) : nat := S (S (S (S (S (S (S (S f))))))).

Lemma enc_body_step (f : nat) (dst src : bytes) (sp dp sl0 dl0 : nat) :
  (sp <= List.length src)%nat -> (dp <= List.length dst)%nat ->
  exec2 ext_enc (F8 f) (envE dst src sp dp sl0 dl0) enc_body
  = let sl := Nat.min (sp + I) (List.length src) in
    let dl := Nat.min (dp + O) (List.length dst) in
    let win := firstn (dl - dp) (skipn dp dst) in
    let o := encode_block en (firstn (sl - sp) (skipn sp src)) in
    if Nat.leb (List.length o) (List.length win)
    then CNorm (envE (firstn dp dst ++ put_front win o ++ skipn dl dst) src sl dl sl dl)
    else CPanic.
Proof.
  intros Hsp Hdp. unfold F8, enc_body, envE, g_encoding. cbv zeta.
  rewrite <- !N_nat_Z.
  assert (Hw : forall w o : bytes, (List.length o <= List.length w)%nat -> Nat.eqb (List.length (put_front w o)) (List.length w) = true)
    by (intros w o H; apply Nat.eqb_eq, put_front_len, H).
  destruct (Nat.ltb (List.length src) (sp + I)) eqn:E1; [apply Nat.ltb_lt in E1|apply Nat.ltb_ge in E1];
  (destruct (Nat.ltb (List.length dst) (dp + O)) eqn:E2; [apply Nat.ltb_lt in E2|apply Nat.ltb_ge in E2]).
  - replace (Nat.min (sp + I) (List.length src)) with (List.length src) by lia.
    replace (Nat.min (dp + O) (List.length dst)) with (List.length dst) by lia.
    steps7d ext_enc. rewrite <- ?Nat2Z.inj_add, ?Nat2Z.id, ?Zsub_nat.
    destruct (Nat.leb _ _) eqn:El; [rewrite (Hw _ _ (proj1 (Nat.leb_le _ _) El))|]; steps7d ext_enc;
      rewrite <- ?Nat2Z.inj_add, ?Nat2Z.id; reflexivity.
  - replace (Nat.min (sp + I) (List.length src)) with (List.length src) by lia.
    replace (Nat.min (dp + O) (List.length dst)) with (dp + O)%nat by lia.
    steps7d ext_enc. rewrite <- ?Nat2Z.inj_add, ?Nat2Z.id, ?Zsub_nat.
    destruct (Nat.leb _ _) eqn:El; [rewrite (Hw _ _ (proj1 (Nat.leb_le _ _) El))|]; steps7d ext_enc;
      rewrite <- ?Nat2Z.inj_add, ?Nat2Z.id; reflexivity.
  - replace (Nat.min (sp + I) (List.length src)) with (sp + I)%nat by lia.
    replace (Nat.min (dp + O) (List.length dst)) with (List.length dst) by lia.
    steps7d ext_enc. rewrite <- ?Nat2Z.inj_add, ?Nat2Z.id, ?Zsub_nat.
    destruct (Nat.leb _ _) eqn:El; [rewrite (Hw _ _ (proj1 (Nat.leb_le _ _) El))|]; steps7d ext_enc;
      rewrite <- ?Nat2Z.inj_add, ?Nat2Z.id; reflexivity.
  - replace (Nat.min (sp + I) (List.length src)) with (sp + I)%nat by lia.
    replace (Nat.min (dp + O) (List.length dst)) with (dp + O)%nat by lia.
    steps7d ext_enc. rewrite <- ?Nat2Z.inj_add, ?Nat2Z.id, ?Zsub_nat.
    destruct (Nat.leb _ _) eqn:El; [rewrite (Hw _ _ (proj1 (Nat.leb_le _ _) El))|]; steps7d ext_enc;
      rewrite <- ?Nat2Z.inj_add, ?Nat2Z.id; reflexivity.
Qed.

Lemma blk_eq (src : bytes) (sp : nat) : (sp <= List.length src)%nat ->
  firstn (Nat.min (sp + I) (List.length src) - sp) (skipn sp src) = firstn I (skipn sp src).
Proof.
  intros H. destruct (Nat.le_gt_cases (sp + I) (List.length src)) as [H1|H1].
  - f_equal. lia.
  - rewrite !firstn_all2; [reflexivity| |]; rewrite skipn_length; lia.
Qed.
Lemma rest_eq (src : bytes) (sp : nat) : (sp <= List.length src)%nat ->
  skipn (Nat.min (sp + I) (List.length src)) src = skipn I (skipn sp src).
Proof.
  intros H. rewrite skipn_skipn7. destruct (Nat.le_gt_cases (sp + I) (List.length src)) as [H1|H1].
  - f_equal. lia.
  - rewrite !skipn_all2; [reflexivity| |]; lia.
Qed.

Lemma enc_loop (f : nat) (src : bytes) : (0 < I)%nat ->
  forall (m k sp : nat) (dst : bytes) (dp sl dl : nat),
  (sp <= List.length src)%nat -> (dp <= List.length dst)%nat ->
  (List.length src - sp <= m)%nat -> (eturns m (skipn sp src) < k)%nat ->
  match genc m (skipn sp src) dst dp with
  | Some dst' => exists a b c d, for_loop2 ext_enc (F8 f) enc_cond enc_body [] k (envE dst src sp dp sl dl)
                                 = CNorm (envE dst' src a b c d)
  | None => for_loop2 ext_enc (F8 f) enc_cond enc_body [] k (envE dst src sp dp sl dl) = CPanic
  end.
Proof.
  intros HI. induction m as [|m IH]; intros k sp dst dp sl dl Hsp Hdp Hm Hk.
  - assert (sp = List.length src) by lia. subst sp. cbn [genc].
    destruct k as [|k]; [lia|]. rewrite for_loop2_S. exists (List.length src), dp, sl, dl.
    unfold enc_cond, envE, F8. steps7d ext_enc. reflexivity.
  - destruct (Nat.eq_dec sp (List.length src)) as [->|Hne].
    + rewrite skipn_all. cbn [genc].
      destruct k as [|k]; [lia|]. rewrite for_loop2_S. exists (List.length src), dp, sl, dl.
      unfold enc_cond, envE, F8. steps7d ext_enc. reflexivity.
    + assert (Hlt : (sp < List.length src)%nat) by lia.
      destruct (skipn sp src) as [|b t] eqn:Esk.
      { apply (f_equal (@List.length byte)) in Esk. rewrite skipn_length in Esk. cbn in Esk. lia. }
      cbn [eturns] in Hk. destruct k as [|k]; [lia|]. rewrite for_loop2_S.
      assert (Hc : eval ext_enc 64 (envE dst src sp dp sl dl) enc_cond = Some (VBool true)).
      { unfold enc_cond, envE. cbv -[Z.ltb Z.of_nat List.length g_encoding].
        replace (Z.of_nat sp <? Z.of_nat (List.length src))%Z with true by lia. reflexivity. }
      rewrite Hc, (enc_body_step f dst src sp dp sl dl Hsp Hdp). cbv zeta.
      rewrite (blk_eq src sp Hsp), Esk.
      change (genc (S m) (b :: t) dst dp) with
        (let o := encode_block en (firstn I (b :: t)) in
         let dl := Nat.min (dp + O) (List.length dst) in
         let win := firstn (dl - dp) (skipn dp dst) in
         if Nat.leb (List.length o) (List.length win)
         then genc m (skipn I (b :: t)) (firstn dp dst ++ put_front win o ++ skipn dl dst) dl else None).
      cbv zeta.
      set (o := encode_block en (firstn I (b :: t))). set (dl' := Nat.min (dp + O) (List.length dst)).
      set (win := firstn (dl' - dp) (skipn dp dst)).
      destruct (Nat.leb (List.length o) (List.length win)) eqn:El; [|reflexivity].
      apply Nat.leb_le in El.
      set (dst' := firstn dp dst ++ put_front win o ++ skipn dl' dst).
      assert (Hwl : List.length win = (dl' - dp)%nat)
        by (unfold win; rewrite firstn_length, skipn_length; unfold dl'; lia).
      assert (Hl' : List.length dst' = List.length dst)
        by (unfold dst'; rewrite !app_length, firstn_length, skipn_length, put_front_len by exact El; unfold dl' in *; lia).
      set (sl' := Nat.min (sp + I) (List.length src)).
      specialize (IH k sl' dst' dl' sl' dl').
      rewrite <- Esk, <- (rest_eq src sp Hsp). fold sl'.
      apply IH.
      * unfold sl'. lia.
      * rewrite Hl'. unfold dl'. lia.
      * unfold sl'. lia.
      * unfold sl'. rewrite (rest_eq src sp Hsp), Esk. lia.
Qed.

Lemma enc_exec (f : nat) (dst src : bytes) : (0 < I)%nat -> (encode_turns src < F8 f)%nat ->
  if Nat.leb (List.length (encode en src)) (List.length dst)
  then exists a b c d,
       exec2 ext_enc (S (S (F8 f))) [("enc", g_encoding en); ("dst", VBytes dst); ("src", VBytes src)] (f_body f_basex_Encoding_Encode)
       = CNorm (envE (put_front dst (encode en src)) src a b c d)
  else exec2 ext_enc (S (S (F8 f))) [("enc", g_encoding en); ("dst", VBytes dst); ("src", VBytes src)] (f_body f_basex_Encoding_Encode)
       = CPanic.
Proof.
  intros HI HF.
  pose proof (enc_loop f src HI (List.length src) (F8 f) 0%nat dst 0%nat 0%nat 0%nat ltac:(lia) ltac:(lia) ltac:(lia)
                ltac:(cbn [skipn]; exact HF)) as Hl.
  cbn [skipn] in Hl. rewrite genc_model in Hl by lia. cbv zeta in Hl. fold (encode en src) in Hl.
  cbn [Nat.add firstn app] in Hl. fold (put_front dst (encode en src)) in Hl.
  assert (Hx : exec2 ext_enc (S (S (F8 f))) [("enc", g_encoding en); ("dst", VBytes dst); ("src", VBytes src)] (f_body f_basex_Encoding_Encode)
               = match for_loop2 ext_enc (F8 f) enc_cond enc_body [] (F8 f) (envE dst src 0 0 0 0) with
                 | CNorm e' => CNorm e'
                 | other => other
                 end).
  { cbn [f_body f_basex_Encoding_Encode]. unfold F8.
    steps7 ext_enc.
    change (for_loop2 ext_enc _ _ _ _ _ _) with
      (for_loop2 ext_enc (F8 f) enc_cond enc_body [] (F8 f) (envE dst src 0 0 0 0)).
    destruct (for_loop2 ext_enc (F8 f) enc_cond enc_body [] (F8 f) (envE dst src 0 0 0 0)); try reflexivity.
  }
  destruct (Nat.leb (List.length (encode en src)) (List.length dst)).
  - destruct Hl as (a & b & c & d & Hl). exists a, b, c, d. rewrite Hx, Hl. reflexivity.
  - rewrite Hx, Hl. reflexivity.
Qed.

(* (TARGET) *)
Theorem go_Encoding_Encode (F : nat) (dst src : bytes) :
  (0 < BaseX.ibl en)%N -> (encode_turns src + 10 <= F)%nat ->
  let r := run_func2_at (S F) ext_enc f_basex_Encoding_Encode [g_encoding en; VBytes dst; VBytes src] in
  if Nat.leb (List.length (encode en src)) (List.length dst)
  then fst r = ORet [] /\
       lookup "dst" (snd r) = Some (VBytes (put_front dst (encode en src))) /\
       lookup "enc" (snd r) = Some (g_encoding en) /\
       lookup "src" (snd r) = Some (VBytes src)
  else r = (OPanic, []).
Proof.
  intros HI HF. cbv zeta.
  assert (HF' : exists f, F = S (F8 f)) by (exists (F - 9)%nat; unfold F8; lia).
  destruct HF' as [f ->].
  pose proof (enc_exec f dst src ltac:(lia) ltac:(unfold F8 in *; lia)) as Hl.
  unfold run_func2_at. cbn [f_params f_results f_basex_Encoding_Encode bind_params map app fst snd].
  cbn [f_body f_basex_Encoding_Encode] in Hl |- *.
  destruct (Nat.leb (List.length (encode en src)) (List.length dst)).
  - destruct Hl as (a & b & c & d & Hl). rewrite Hl. cbn [fst snd]. unfold envE. auto.
  - rewrite Hl. reflexivity.
Qed.

(* (TARGET) the same at the fuel of run_func2 *)
Corollary go_Encoding_Encode_300 (dst src : bytes) :
  (0 < BaseX.ibl en)%N -> (encode_turns src <= 289)%nat ->
  let r := run_func2 ext_enc f_basex_Encoding_Encode [g_encoding en; VBytes dst; VBytes src] in
  if Nat.leb (List.length (encode en src)) (List.length dst)
  then fst r = ORet [] /\
       lookup "dst" (snd r) = Some (VBytes (put_front dst (encode en src))) /\
       lookup "enc" (snd r) = Some (g_encoding en) /\
       lookup "src" (snd r) = Some (VBytes src)
  else r = (OPanic, []).
Proof. intros HI H. rewrite run_func2_at_300. apply (go_Encoding_Encode 299); [exact HI|lia]. Qed.

(* the number of turns is the number of blocks *)
Lemma eturns_bound : (0 < I)%nat -> forall (m : nat) (src : bytes), (eturns m src * I <= List.length src + (I - 1))%nat.
Proof.
  intros HI. induction m as [|m IH]; intros src; cbn [eturns]; [lia|].
  destruct src as [|b t]; [cbn; lia|].
  specialize (IH (skipn I (b :: t))). rewrite skipn_length in IH.
  destruct (Nat.le_gt_cases I (List.length (b :: t))) as [H|H]; [lia|].
  replace (List.length (b :: t) - I)%nat with 0%nat in IH by lia.
  assert (H0 : eturns m (skipn I (b :: t)) = 0%nat) by (rewrite skipn_all2 by lia; destruct m; reflexivity).
  rewrite H0. cbn [List.length]. lia.
Qed.
Lemma encode_turns_le (src : bytes) : (0 < I)%nat -> (encode_turns src <= (List.length src + (I - 1)) / I)%nat.
Proof.
  intros HI. apply Nat.div_le_lower_bound; [lia|]. rewrite Nat.mul_comm. apply eturns_bound. exact HI.
Qed.
End Enc.

Definition test_run_enc (d : nat) (s : bytes) : outcome * option gval :=
  let r := run_func2 (ext_enc base62) f_basex_Encoding_Encode [g_encoding base62; VBytes (repeat x2e d); VBytes s] in
  (fst r, lookup "dst" (snd r)).
Definition test_spec_enc (d : nat) (s : bytes) : outcome * option gval :=
  if Nat.leb (List.length (encode base62 s)) d then (ORet [], Some (VBytes (put_front (repeat x2e d) (encode base62 s)))) else (OPanic, None).
(* 36 bytes = one full and one short block (49 characters): a larger buffer, an exact one, one character short (panic), far too
   short (panic in the first block), the empty input *)
Example test_enc_1 : map (fun ds => test_run_enc (fst ds) (snd ds)) [(60%nat, test_msg); (49%nat, test_msg); (48%nat, test_msg); (20%nat, test_msg); (2%nat, [])]
  = map (fun ds => test_spec_enc (fst ds) (snd ds)) [(60%nat, test_msg); (49%nat, test_msg); (48%nat, test_msg); (20%nat, test_msg); (2%nat, [])].
Proof. vm_compute. reflexivity. Qed.

(* ================= part 4 ================= *)
Section Fr.
Variable en : encoding.

Definition g_fr (st : fr_state) : gval :=
  VStruct [("wrapped", g_source (fr_src st)); ("enc", g_encoding en); ("nRead", VInt (Z.of_N (fr_nread st)))].

(* r.wrapped.Read(p): src_read on the decoded source, results n, err, then the new source (written back into
   r.wrapped) and the buffer with the data at its front (written back into p), as in GoAstProofs4c.ext_pr;
   r.enc.getByteType(b): the classification tied by go_getByteType *)
Definition ext_fr : externs := fun fn args =>
  if String.eqb fn "Reader.Read" then
    match args with
    | [rv; VBytes out] =>
      match as_source rv with
      | Some s => Some (read_result out (src_read (List.length out) s))
      | None => None
      end
    | _ => None
    end
  else if String.eqb fn "Encoding.getByteType" then
    match args with
    | [_; VInt z] =>
      match Byte.of_N (Z.to_N z) with Some b => Some [VInt (byte_type en b)] | None => None end
    | _ => None
    end
  else None.

(* what the evaluator makes of filteringReader.Read: the path on which the first Read of the wrapped reader
   delivers no byte is the model's; on every other path it is stuck at `for i, b := range p[:n]` *)
(* (TARGET) *)
Theorem go_filteringReader_Read_range_stuck (st : fr_state) (p : bytes) :
  run_func2 ext_fr f_basex_filteringReader_Read [g_fr st; VBytes p]
  = match src_read (List.length p) (fr_src st) with
    | (([], er), s') =>
      (ORet [VInt 0; g_err_opt er],
       [("r", g_fr (mkFr s' (fr_nread st))); ("p", VBytes p); ("n", VInt 0); ("err", g_err_opt er)])
    | ((_ :: _, _), _) => (OStuck "range", [])
    end.
Proof.
  destruct st as [src nread]. start4 f_basex_filteringReader_Read. unfold g_fr. cbn [fr_src fr_nread].
  pose proof (src_read_len (List.length p) src) as Hdl.
  destruct (src_read (List.length p) src) as [[data er] s'] eqn:Esr. cbn [fst snd] in Hdl.
  steps7 ext_fr. rewrite as_source_g, Esr. unfold read_result. cbn [fst snd].
  destruct data as [|d0 data'].
  - cbn [List.length app skipn]. steps7 ext_fr. reflexivity.
  - remember (d0 :: data') as data eqn:Hd.
    assert (H0 : (0 <? Z.of_nat (List.length data))%Z = true) by (subst data; cbn [List.length]; lia).
    assert (Hol : List.length (data ++ skipn (List.length data) p) = List.length p)
      by (rewrite app_length, skipn_length; lia).
    assert (Hb : (Z.of_nat (List.length (data ++ skipn (List.length data) p)) <? Z.of_nat (List.length data))%Z = false)
      by (rewrite Hol; lia).
    clear Hd. steps7 ext_fr.
    match goal with |- context [for_loop2 ?x ?f ?c ?b ?r 298%nat ?e] =>
      change (for_loop2 x f c b r 298%nat e) with (for_loop2 x f c b r (S 297) e) end.
    rewrite for_loop2_S. steps7 ext_fr. reflexivity.
Qed.
End Fr.

(* ================= part 5 ================= *)
(* the two statements of decoder.Read whose effect on d.buf the evaluator cannot express: the places an extern can
   write back to *)
Definition rd_loop_body : list gstmt :=
  Eval cbv in match nth 7 (f_body f_basex_decoder_Read) SBreak with SFor _ b => b | _ => [] end.
Lemma decoder_Read_read_places :
  match nth 1 rd_loop_body SBreak with
  | SAssignL _ [ECall fn args] => (fn, args, mutable_places args)
  | _ => ("", [], [])
  end
  = ("Reader.Read",
     [ESel (EVar "d") "r"; ESlice (ESel (EVar "d") "buf") (Some (ESel (EVar "d") "nbuf")) (Some (EVar "nn"))],
     [LField (LVar "d") "r"]).
Proof. reflexivity. Qed.
Lemma decoder_Read_copy_places :
  match nth 16 (f_body f_basex_decoder_Read) SBreak with
  | SExpr (ECall fn args) => (fn, mutable_places args)
  | _ => ("", [LVar ""])
  end = ("copy", []).
Proof. reflexivity. Qed.

Section Rd.
Variable en : encoding.

(* the decoder object: d.buf and d.scratchbuf are the whole arrays, d.buf[:nbuf] the pending input characters;
   the reader is an arbitrary object here *)
Record gdec := mkGd { gd_err : option err; gd_out : bytes; gd_buf : bytes; gd_nbuf : nat; gd_scratch : bytes; gd_r : gval }.
Definition g_dec (o : gdec) : gval :=
  VStruct [("err", g_err_opt (gd_err o)); ("enc", g_encoding en); ("r", gd_r o); ("out", VBytes (gd_out o));
           ("buf", VBytes (gd_buf o)); ("nbuf", VInt (Z.of_nat (gd_nbuf o))); ("scratchbuf", VBytes (gd_scratch o))].

(* copy(dst, src): the count, then the destination after the copy (written back when dst is a place) *)
Definition ext_copy : externs := fun fn args =>
  if String.eqb fn "copy" then
    match args with
    | [VBytes dst; VBytes src] =>
      let k := Nat.min (List.length dst) (List.length src) in
      Some [VInt (Z.of_nat k); VBytes (firstn k src ++ skipn k dst)]
    | _ => None
    end
  else None.

(* the two paths of decoder.Read that do not reach the fill loop: the sticky error and the leftover output *)
Definition gd_read_nofill (o : gdec) (p : bytes) : option ((nat * option err) * gdec * bytes) :=
  match gd_err o with
  | Some x => Some ((0%nat, Some x), o, p)
  | None =>
    match gd_out o with
    | _ :: _ =>
      let d := firstn (List.length p) (gd_out o) in
      Some ((List.length d, None),
            mkGd None (skipn (List.length p) (gd_out o)) (gd_buf o) (gd_nbuf o) (gd_scratch o) (gd_r o),
            put_front p d)
    | [] => None
    end
  end.

(* (TARGET) *)
Theorem go_decoder_Read_nofill (o : gdec) (p : bytes) :
  match gd_read_nofill o p with
  | Some ((n, er), o', p') =>
    exists tl,
    run_func2 ext_copy f_basex_decoder_Read [g_dec o; VBytes p]
    = (ORet [VInt (Z.of_nat n); g_err_opt er], [("d", g_dec o'); ("p", VBytes p')] ++ tl)
  | None => True
  end.
Proof.
  destruct o as [er out buf nbuf scr R]. unfold gd_read_nofill. cbn [gd_err gd_out gd_buf gd_nbuf gd_scratch gd_r].
  destruct er as [x|].
  - exists []. start4 f_basex_decoder_Read. unfold g_dec. cbn [gd_err gd_out gd_buf gd_nbuf gd_scratch gd_r g_err_opt].
    steps7 ext_copy. reflexivity.
  - destruct out as [|b t]; [exact I|]. remember (b :: t) as out eqn:Ho.
    assert (H0 : (0 <? Z.of_nat (List.length out))%Z = true) by (subst out; cbn [List.length]; lia).
    clear Ho. eexists. start4 f_basex_decoder_Read. unfold g_dec. cbn [gd_err gd_out gd_buf gd_nbuf gd_scratch gd_r g_err_opt].
    steps7d ext_copy. rewrite ?Zsub_nat, ?Nat2Z.id.
    rewrite firstn_all2 by (rewrite skipn_length; lia).
    rewrite firstn_length, skipn_min. unfold put_front. rewrite firstn_length.
    replace (firstn (Nat.min (List.length p) (List.length out)) out) with (firstn (List.length p) out).
    + reflexivity.
    + destruct (Nat.le_gt_cases (List.length p) (List.length out)) as [H|H].
      * rewrite Nat.min_l by exact H. reflexivity.
      * rewrite Nat.min_r by lia. rewrite !firstn_all2 by lia. reflexivity.
Qed.
End Rd.
