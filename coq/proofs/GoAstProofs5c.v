(* GoAstProofs5c.v — the model-side bridge for the encryption sender: the specification functions es_write /
   es_close of GoAstProofs5a.v (which ARE encryptStream.Write / Close of /repo by go_encryptStream_Write /
   go_encryptStream_Close), run over the in-memory writer, flush exactly the blocks of the model's chunker
   (model/Chunker.v: cw_write, cw_close, cw_session) and emit exactly the packets of the model's encrypt_packets,
   i.e. the body of the model's seal_core.  Hypothesis on the crypto record: a secretbox is 16 bytes longer than
   its plaintext (crypto_ok.ok_sb_len).  TARGETS: es_write_model, es_close_model, es_session_model. *)
From Coq Require Import List String NArith ZArith Bool Lia.
From Coq.Strings Require Import Byte.
From SP Require Import Bytes Consts Params Msgpack Crypto Errors Nonce Packets Chunker Rand Encrypt
                       GoLang GoLang2 GoAst RandProofs ChunkerProofs GoAstProofs GoAstProofs2 GoAstProofs3.
From SP Require Import GoAstSend GoAstProofs5a.
Import ListNotations.
Local Open Scope string_scope.

(* ================= Write / Close against the model's chunker and packet encryption ================= *)
Lemma blk_Z : Z.of_nat blk = 1048576%Z.
Proof. unfold blk. apply Z2Nat.id. lia. Qed.
Lemma blk_pos : (0 < blk)%nat.
Proof. pose proof blk_Z. lia. Qed.
Lemma len_gt_blk (l : nat) : (1048576 <? Z.of_nat l)%Z = negb (Nat.leb l blk).
Proof.
  pose proof blk_Z as H. destruct (Nat.leb l blk) eqn:E; cbn [negb].
  - apply Nat.leb_le in E. lia.
  - apply Nat.leb_gt in E. lia.
Qed.

Lemma known_version_cases (v : version) : known_version v = true -> v = v1 \/ v = v2.
Proof.
  destruct v as [ma mi]. unfold known_version, known_versions. cbn [existsb]. unfold version_eqb. cbn [vmaj vmin].
  change (vmaj v1) with 1%Z. change (vmin v1) with 0%Z. change (vmaj v2) with 2%Z. change (vmin v2) with 0%Z.
  intros H. rewrite orb_false_r in H. apply orb_prop in H. destruct H as [H|H]; apply andb_prop in H; destruct H as [A B];
    apply Z.eqb_eq in A; apply Z.eqb_eq in B; subst; [left|right]; reflexivity.
Qed.

Section Model2.
Variable c : crypto.
Hypothesis Hsb : forall k n m, List.length (sb_seal c k n m) = (16 + List.length m)%nat.

(* a stream in good standing: in-memory writer, no stored error *)
Definition gst (v : version) (out pk buf hh : bytes) (mks : list bytes) (n : N) : es_state :=
  mkEs v (VBytes out) pk buf hh mks n None.

(* the packet the model's encrypt_packets emits for block number n *)
Definition packet (v : version) (pk hh : bytes) (mks : list bytes) (n : N) (chunk : bytes) (final : bool) : bytes :=
  let nonce := nonce_chunk_secretbox n in
  let ct := sb_seal c pk nonce chunk in
  match payload_hash c v hh nonce ct final with
  | Some ph => mp_encode (mv_enc_block v (map (fun mk => payload_authenticator c mk ph) mks) ct final)
  | None => []
  end.

Lemma encrypt_packets_cons (v : version) (pk hh : bytes) (mks : list bytes) (n : N) (chunk : bytes) (final : bool)
      (t : list (bytes * bool)) :
  v = v1 \/ v = v2 -> block_number_ok n = true ->
  encrypt_packets c v pk hh mks n ((chunk, final) :: t)
  = bind (encrypt_packets c v pk hh mks (n + 1) t) (fun rest => Ok (packet v pk hh mks n chunk final ++ rest)%list).
Proof.
  intros Hv Hb. cbn [encrypt_packets]. rewrite Hb. cbn [negb]. unfold packet.
  destruct Hv; subst v; unfold payload_hash; cbn [vmaj v1 v2]; reflexivity.
Qed.

Lemma es_block_good (v : version) (out pk buf hh : bytes) (mks : list bytes) (n : N) (final : bool) :
  v = v1 \/ v = v2 -> mks <> [] -> block_number_ok n = true ->
  read_ok v final 1048576 (Z.of_nat (List.length (firstn blk buf))) (Z.of_nat (List.length (skipn blk buf))) = true ->
  check_chunk_state v (List.length (firstn blk buf)) n final = Ok tt ->
  es_block c mem_enc (gst v out pk buf hh mks n) final
  = BRet None (gst v (out ++ packet v pk hh mks n (firstn blk buf) final)%list pk (skipn blk buf) hh mks (n + 1)).
Proof.
  intros Hv Hm Hb Hr Hc. unfold es_block, es_block_from, gst.
  cbn [es_v es_enc es_pk es_buf es_hh es_mks es_n es_err set_buf set_enc set_n].
  rewrite Hr, Hb. cbn [negb].
  assert (Hco : enc_chunk_ok v (sb_seal c pk (nonce_chunk_secretbox n) (firstn blk buf)) 16 n final = true).
  { unfold enc_chunk_ok. rewrite Hsb.
    replace (Z.to_nat (Z.of_nat (16 + List.length (firstn blk buf)) - 16)) with (List.length (firstn blk buf)) by lia.
    rewrite Hc. replace (Z.of_nat (16 + List.length (firstn blk buf)) <? 16)%Z with false by lia. reflexivity. }
  rewrite Hco. cbn [negb]. unfold packet.
  assert (Hve : version_eqb v v1 = true \/ version_eqb v v2 = true) by (destruct Hv; subst v; [left|right]; reflexivity).
  destruct (payload_hash c v hh (nonce_chunk_secretbox n) (sb_seal c pk (nonce_chunk_secretbox n) (firstn blk buf)) final) as [ph|] eqn:Hph.
  - rewrite mv_enc_block_go_model; [reflexivity|exact Hve|]. destruct mks; [congruence|discriminate].
  - exfalso. destruct Hv; subst v; unfold payload_hash in Hph; cbn [vmaj v1 v2] in Hph; discriminate.
Qed.


(* ---------- the flushing loop against the model's drain ---------- *)
(* the full blocks a buffer gives up, and what stays *)
Fixpoint blocks_of (fuel : nat) (buf : bytes) : list bytes * bytes :=
  match fuel with
  | O => ([], buf)
  | S f =>
    if Nat.leb (List.length buf) blk then ([], buf)
    else let r := blocks_of f (skipn blk buf) in (firstn blk buf :: fst r, snd r)
  end.

Lemma drain_blocks_of (fuel : nat) : forall (buf : bytes) (acc : list bytes),
  drain fuel blk buf acc = (rev acc ++ fst (blocks_of fuel buf), snd (blocks_of fuel buf))%list.
Proof.
  induction fuel as [|f IH]; intros buf acc; cbn [drain blocks_of].
  - rewrite rev_append_rev, !app_nil_r. reflexivity.
  - destruct (Nat.leb (List.length buf) blk).
    + rewrite rev_append_rev, !app_nil_r. reflexivity.
    + rewrite split_at_spec. rewrite IH. cbn [fst snd rev]. rewrite <- app_assoc. reflexivity.
Qed.

Lemma blocks_of_small (f : nat) (buf : bytes) : (List.length buf <= blk)%nat -> blocks_of f buf = ([], buf).
Proof.
  intros H. destruct f as [|f]; [reflexivity|]. cbn [blocks_of].
  rewrite (proj2 (Nat.leb_le _ _) H). reflexivity.
Qed.

Lemma blocks_of_fuel (f1 : nat) : forall (f2 : nat) (buf : bytes),
  (1 <= f1)%nat -> (1 <= f2)%nat -> (List.length buf <= f1 * blk)%nat -> (List.length buf <= f2 * blk)%nat ->
  blocks_of f1 buf = blocks_of f2 buf.
Proof.
  pose proof blk_pos as Hb.
  induction f1 as [|f1 IH]; intros f2 buf H1 H2 L1 L2; [lia|].
  destruct f2 as [|f2]; [lia|]. cbn [blocks_of].
  destruct (Nat.leb (List.length buf) blk) eqn:E; [reflexivity|].
  apply Nat.leb_gt in E.
  rewrite Nat.mul_succ_l in L1, L2.
  assert (Hs : List.length (skipn blk buf) = (List.length buf - blk)%nat) by apply skipn_length.
  assert (F1 : (1 <= f1)%nat) by (destruct f1; lia).
  assert (F2 : (1 <= f2)%nat) by (destruct f2; lia).
  rewrite (IH f2 (skipn blk buf)); [reflexivity| | | |]; lia.
Qed.

Lemma cw_write_blocks_of (buf p : bytes) :
  (List.length (buf ++ p) <= 296 * blk)%nat ->
  cw_write blk buf p = blocks_of 296 (buf ++ p)%list.
Proof.
  intros L. unfold cw_write. rewrite drain_blocks_of. cbn [rev app].
  pose proof blk_pos as Hb.
  rewrite <- surjective_pairing.
  destruct (buf ++ p)%list as [|b0 l] eqn:E.
  - rewrite !blocks_of_small by (cbn [List.length]; lia). reflexivity.
  - cbn [List.length] in *. apply blocks_of_fuel; cbn [List.length]; try lia. nia.
Qed.

(* the packets of a run of non-final blocks numbered from n *)
Fixpoint emit (v : version) (pk hh : bytes) (mks : list bytes) (n : N) (bs : list bytes) : bytes :=
  match bs with
  | [] => []
  | b :: t => (packet v pk hh mks n b false ++ emit v pk hh mks (n + 1) t)%list
  end.

Lemma encrypt_packets_nonfinal (v : version) (pk hh : bytes) (mks : list bytes) (bs : list bytes) :
  v = v1 \/ v = v2 -> forall (n : N) (t : list (bytes * bool)),
  (n + N.of_nat (List.length bs) <= 18446744073709551615)%N ->
  encrypt_packets c v pk hh mks n (map (fun b => (b, false)) bs ++ t)
  = bind (encrypt_packets c v pk hh mks (n + N.of_nat (List.length bs)) t) (fun rest => Ok (emit v pk hh mks n bs ++ rest)%list).
Proof.
  intros Hv. induction bs as [|b bs IH]; intros n t Hn; cbn [map app emit List.length] in *.
  - rewrite N.add_0_r. destruct (encrypt_packets c v pk hh mks n t); reflexivity.
  - rewrite encrypt_packets_cons; [|exact Hv|unfold block_number_ok; apply N.ltb_lt; lia].
    rewrite IH by lia. replace (n + 1 + N.of_nat (List.length bs))%N with (n + N.of_nat (S (List.length bs)))%N by lia.
    destruct (encrypt_packets c v pk hh mks (n + N.of_nat (S (List.length bs))) t); cbn [bind]; [|reflexivity].
    rewrite <- app_assoc. reflexivity.
Qed.

Lemma es_drain_good (v : version) (pk hh : bytes) (mks : list bytes) (ret : Z) :
  v = v1 \/ v = v2 -> mks <> [] ->
  forall (fuel : nat) (buf out : bytes) (n : N),
  (1 <= fuel)%nat -> (List.length buf <= fuel * blk)%nat ->
  (n + N.of_nat (List.length (fst (blocks_of fuel buf))) <= 18446744073709551615)%N ->
  es_drain c mem_enc fuel (gst v out pk buf hh mks n) ret
  = WRet ret None (gst v (out ++ emit v pk hh mks n (fst (blocks_of fuel buf)))%list pk (snd (blocks_of fuel buf)) hh mks
                       (n + N.of_nat (List.length (fst (blocks_of fuel buf))))).
Proof.
  intros Hv Hm. pose proof blk_pos as Hb. pose proof blk_Z as HbZ.
  induction fuel as [|f IH]; intros buf out n Hf L Hn; [lia|].
  cbn [es_drain blocks_of]. unfold gst at 1. cbn [es_buf]. rewrite len_gt_blk.
  cbn [blocks_of] in Hn.
  destruct (Nat.leb (List.length buf) blk) eqn:E; cbn [negb fst snd List.length] in *.
  - rewrite app_nil_r, N.add_0_r. reflexivity.
  - apply Nat.leb_gt in E.
    assert (Hfl : List.length (firstn blk buf) = blk) by (rewrite firstn_length; lia).
    assert (Hsl : List.length (skipn blk buf) = (List.length buf - blk)%nat) by apply skipn_length.
    fold (gst v out pk buf hh mks n).
    rewrite es_block_good; try assumption.
    + change (set_err (gst v (out ++ packet v pk hh mks n (firstn blk buf) false)%list pk (skipn blk buf) hh mks (n + 1)) None)
        with (gst v (out ++ packet v pk hh mks n (firstn blk buf) false)%list pk (skipn blk buf) hh mks (n + 1)).
      rewrite Nat.mul_succ_l in L.
      rewrite IH.
      * cbn [emit]. rewrite <- app_assoc. f_equal. f_equal. lia.
      * destruct f; lia.
      * lia.
      * lia.
    + unfold block_number_ok. apply N.ltb_lt. lia.
    + unfold read_ok. rewrite Hfl, HbZ, Hsl.
      replace (1048576 <? 1048576)%Z with false by lia. cbn [negb andb].
      destruct Hv; subst v.
      * change (version_eqb v1 v1) with true. cbv beta iota. reflexivity.
      * change (version_eqb v2 v1) with false. change (version_eqb v2 v2) with true. reflexivity.
    + rewrite Hfl. unfold check_chunk_state.
      assert (Hz : Nat.eqb blk 0 = false) by (apply Nat.eqb_neq; lia).
      destruct Hv; subst v; cbn [vmaj v1 v2]; rewrite Hz; reflexivity.
Qed.


(* (TARGET) *)
Theorem es_write_model (v : version) (pk hh : bytes) (mks : list bytes) (buf out : bytes) (n : N) (p : bytes) :
  v = v1 \/ v = v2 -> mks <> [] -> (List.length (buf ++ p) <= 296 * blk)%nat ->
  (n + N.of_nat (List.length (fst (cw_write blk buf p))) <= 18446744073709551615)%N ->
  es_write c mem_enc (gst v out pk buf hh mks n) p
  = WRet (Z.of_nat (List.length p)) None
         (gst v (out ++ emit v pk hh mks n (fst (cw_write blk buf p)))%list pk (snd (cw_write blk buf p)) hh mks
              (n + N.of_nat (List.length (fst (cw_write blk buf p))))).
Proof.
  intros Hv Hm L Hn. rewrite cw_write_blocks_of in * by exact L.
  unfold es_write, gst at 1. cbn [es_err es_buf set_buf es_v es_enc es_pk es_hh es_mks es_n].
  fold (gst v out pk (buf ++ p)%list hh mks n).
  apply es_drain_good; try assumption; lia.
Qed.

(* the packets of a plan numbered from n *)
Fixpoint emit_plan (v : version) (pk hh : bytes) (mks : list bytes) (n : N) (ps : list (bytes * bool)) : bytes :=
  match ps with
  | [] => []
  | (ch, f) :: t => (packet v pk hh mks n ch f ++ emit_plan v pk hh mks (n + 1) t)%list
  end.

Lemma emit_plan_nonfinal (v : version) (pk hh : bytes) (mks : list bytes) (bs : list bytes) : forall n,
  emit_plan v pk hh mks n (map (fun b => (b, false)) bs) = emit v pk hh mks n bs.
Proof. induction bs as [|b bs IH]; intros n; cbn [map emit emit_plan]; [reflexivity|]. rewrite IH. reflexivity. Qed.

Lemma emit_plan_app (v : version) (pk hh : bytes) (mks : list bytes) (a b : list (bytes * bool)) : forall n,
  emit_plan v pk hh mks n (a ++ b) = (emit_plan v pk hh mks n a ++ emit_plan v pk hh mks (n + N.of_nat (List.length a)) b)%list.
Proof.
  induction a as [|[ch f] a IH]; intros n; cbn [app emit_plan List.length].
  - rewrite N.add_0_r. reflexivity.
  - rewrite IH, <- app_assoc. do 3 f_equal. lia.
Qed.

Lemma encrypt_packets_emit_plan (v : version) (pk hh : bytes) (mks : list bytes) (ps : list (bytes * bool)) :
  v = v1 \/ v = v2 -> forall n, (n + N.of_nat (List.length ps) <= 18446744073709551615)%N ->
  encrypt_packets c v pk hh mks n ps = Ok (emit_plan v pk hh mks n ps).
Proof.
  intros Hv. induction ps as [|[ch f] ps IH]; intros n Hn; [reflexivity|].
  cbn [List.length] in Hn.
  rewrite encrypt_packets_cons; [|exact Hv|unfold block_number_ok; apply N.ltb_lt; lia].
  rewrite IH by lia. reflexivity.
Qed.

Lemma cw_close_small (v : version) (B : nat) (buf : bytes) : (List.length buf <= B)%nat ->
  cw_close v B buf
  = if (vmaj v =? 1)%Z then ((match buf with [] => [] | _ => [(buf, false)] end) ++ [([], true)])%list else [(buf, true)].
Proof.
  intros L. unfold cw_close. rewrite split_at_spec. cbn [fst]. rewrite firstn_all2 by exact L. reflexivity.
Qed.

Lemma es_block_small (v : version) (out pk buf hh : bytes) (mks : list bytes) (n : N) (final : bool) :
  v = v1 \/ v = v2 -> mks <> [] -> block_number_ok n = true -> (List.length buf <= blk)%nat ->
  read_ok v final 1048576 (Z.of_nat (List.length buf)) 0 = true ->
  check_chunk_state v (List.length buf) n final = Ok tt ->
  es_block c mem_enc (gst v out pk buf hh mks n) final
  = BRet None (gst v (out ++ packet v pk hh mks n buf final)%list pk [] hh mks (n + 1)).
Proof.
  intros Hv Hm Hb L Hr Hc. pose proof (es_block_good v out pk buf hh mks n final Hv Hm Hb) as G.
  rewrite firstn_all2, skipn_all2 in G by lia. apply G; assumption.
Qed.

Lemma es_close_v1_tail_good (pk hh : bytes) (mks : list bytes) (out' : bytes) (n' : N) :
  mks <> [] -> (n' < 18446744073709551615)%N ->
       es_close_v1_tail c mem_enc (gst v1 out' pk [] hh mks n')
       = CloseRet None (gst v1 (out' ++ packet v1 pk hh mks n' [] true)%list pk [] hh mks (n' + 1)).
Proof.
      intros Hm Hn'. unfold es_close_v1_tail.
      change (es_buf (gst v1 out' pk [] hh mks n')) with (@nil byte). cbn [List.length].
      change (0 <? Z.of_nat 0)%Z with false. cbv iota.
      rewrite es_block_small; [reflexivity|left; reflexivity|exact Hm|apply N.ltb_lt; exact Hn'
                              |cbn [List.length]; lia|reflexivity|reflexivity].
Qed.
(* (TARGET) *)
Theorem es_close_model (v : version) (pk hh : bytes) (mks : list bytes) (buf out : bytes) (n : N) :
  v = v1 \/ v = v2 -> mks <> [] -> (List.length buf <= blk)%nat -> (buf <> [] \/ n = 0%N) ->
  (n + N.of_nat (List.length (cw_close v blk buf)) <= 18446744073709551615)%N ->
  es_close c mem_enc (gst v out pk buf hh mks n)
  = CloseRet None (gst v (out ++ emit_plan v pk hh mks n (cw_close v blk buf))%list pk [] hh mks
                       (n + N.of_nat (List.length (cw_close v blk buf)))).
Proof.
  intros Hv Hm L Hinv Hn. pose proof blk_Z as HbZ.
  rewrite (cw_close_small v blk buf L) in Hn |- *.
  unfold es_close.
  destruct Hv as [-> | ->].
  - change (vmaj v1 =? 1)%Z with true in Hn |- *. cbv iota in Hn |- *.
    change (version_eqb (es_v (gst v1 out pk buf hh mks n)) v1) with true. cbv iota.
    change (es_buf (gst v1 out pk buf hh mks n)) with buf.
    destruct buf as [|b0 buf0].
    + cbn [app List.length emit_plan] in Hn |- *. change (0 <? Z.of_nat 0)%Z with false. cbv iota.
      rewrite es_close_v1_tail_good by (trivial; lia). rewrite app_nil_r. reflexivity.
    + remember (b0 :: buf0) as buf eqn:Ebuf. cbn [app List.length emit_plan] in Hn |- *.
      assert (Hl0 : (0 < List.length buf)%nat) by (subst buf; cbn [List.length]; lia).
      replace (0 <? Z.of_nat (List.length buf))%Z with true by lia. cbv iota.
      rewrite es_block_small; [|left; reflexivity|exact Hm|apply N.ltb_lt; lia|exact L| |].
      * rewrite es_close_v1_tail_good by (trivial; lia). rewrite app_nil_r, <- app_assoc. do 2 f_equal. lia.
      * unfold read_ok. change (version_eqb v1 v1) with true. cbv iota.
        replace (1048576 <? Z.of_nat (List.length buf))%Z with false by lia.
        change (0 <? 0)%Z with false. rewrite andb_false_r.
        replace (Z.of_nat (List.length buf) =? 0)%Z with false by lia. reflexivity.
      * unfold check_chunk_state. change (vmaj v1 =? 1)%Z with true. cbv iota.
        replace (Nat.eqb (List.length buf) 0) with false by (symmetry; apply Nat.eqb_neq; lia). reflexivity.
  - change (vmaj v2 =? 1)%Z with false in Hn |- *. cbv iota in Hn |- *.
    change (version_eqb (es_v (gst v2 out pk buf hh mks n)) v1) with false. cbv iota.
    unfold es_close_v2.
    change (version_eqb (es_v (gst v2 out pk buf hh mks n)) v2) with true. cbv iota.
    cbn [List.length emit_plan] in Hn |- *.
    rewrite es_block_small; [|right; reflexivity|exact Hm|apply N.ltb_lt; lia|exact L| |].
    + change (es_buf (gst v2 (out ++ packet v2 pk hh mks n buf true)%list pk [] hh mks (n + 1))) with (@nil byte).
      cbn [List.length]. change (0 <? Z.of_nat 0)%Z with false. cbv iota. rewrite app_nil_r. reflexivity.
    + unfold read_ok. change (version_eqb v2 v1) with false. change (version_eqb v2 v2) with true. cbv iota.
      replace (1048576 <? Z.of_nat (List.length buf))%Z with false by lia.
      change (0 <? 0)%Z with false. rewrite andb_false_r. reflexivity.
    + unfold check_chunk_state. change (vmaj v2 =? 1)%Z with false. change (vmaj v2 =? 2)%Z with true. cbv iota.
      destruct Hinv as [Hne| ->].
      * replace (Nat.eqb (List.length buf) 0) with false; [reflexivity|].
        symmetry. apply Nat.eqb_neq. destruct buf; [congruence|cbn [List.length]; lia].
      * cbn [N.eqb negb orb]. rewrite andb_false_r. reflexivity.
Qed.


Lemma blocks_of_props (fuel : nat) : forall buf : bytes,
  (1 <= fuel)%nat -> (List.length buf <= fuel * blk)%nat ->
  (List.length (snd (blocks_of fuel buf)) <= blk)%nat /\
  (fst (blocks_of fuel buf) = [] -> snd (blocks_of fuel buf) = buf) /\
  (fst (blocks_of fuel buf) <> [] -> snd (blocks_of fuel buf) <> []).
Proof.
  pose proof blk_pos as Hb.
  induction fuel as [|f IH]; intros buf Hf L; [lia|]. cbn [blocks_of].
  destruct (Nat.leb (List.length buf) blk) eqn:E; cbn [fst snd].
  - apply Nat.leb_le in E. split; [exact E|]. split; [reflexivity|congruence].
  - apply Nat.leb_gt in E. rewrite Nat.mul_succ_l in L.
    assert (Hs : List.length (skipn blk buf) = (List.length buf - blk)%nat) by apply skipn_length.
    assert (Hf1 : (1 <= f)%nat) by (destruct f; lia).
    destruct (IH (skipn blk buf) Hf1 ltac:(lia)) as (A & B & C).
    split; [exact A|]. split; [discriminate|]. intros _.
    destruct (fst (blocks_of f (skipn blk buf))) as [|x xs] eqn:Ef.
    + rewrite (B eq_refl). intros Hc. rewrite Hc in Hs. cbn [List.length] in Hs. lia.
    + apply C. discriminate.
Qed.

(* Write each piece, then Close *)
Fixpoint es_session (st : es_state) (pieces : list bytes) : cres :=
  match pieces with
  | [] => es_close c mem_enc st
  | p :: t =>
    match es_write c mem_enc st p with
    | WRet _ None st' => es_session st' t
    | WRet _ (Some e) st' => CloseRet (Some e) st'
    | WStuck w => CloseStuck w
    end
  end.

(* (TARGET) *)
Theorem es_session_model (v : version) (pk hh : bytes) (mks : list bytes) :
  v = v1 \/ v = v2 -> mks <> [] ->
  forall (pieces : list bytes) (buf out : bytes) (n : N),
  Forall (fun p : bytes => (List.length p <= 295 * blk)%nat) pieces ->
  (List.length buf <= blk)%nat -> (buf <> [] \/ n = 0%N) ->
  (n + N.of_nat (List.length (cw_session v blk buf pieces)) <= 18446744073709551615)%N ->
  es_session (gst v out pk buf hh mks n) pieces
  = CloseRet None (gst v (out ++ emit_plan v pk hh mks n (cw_session v blk buf pieces))%list pk [] hh mks
                       (n + N.of_nat (List.length (cw_session v blk buf pieces)))) /\
  encrypt_packets c v pk hh mks n (cw_session v blk buf pieces)
  = Ok (emit_plan v pk hh mks n (cw_session v blk buf pieces)).
Proof.
  intros Hv Hm. induction pieces as [|p t IH]; intros buf out n Hall L Hinv Hn.
  - cbn [es_session cw_session] in *. split; [apply es_close_model; assumption|].
    apply encrypt_packets_emit_plan; assumption.
  - split; [|apply encrypt_packets_emit_plan; assumption].
    cbn [es_session cw_session] in *.
    inversion Hall as [|p' t' Hp Ht]; subst p' t'.
    assert (Lbp : (List.length (buf ++ p) <= 296 * blk)%nat) by (rewrite app_length; lia).
    pose proof (cw_write_blocks_of buf p Lbp) as Ecw.
    destruct (blocks_of_props 296 (buf ++ p)%list ltac:(lia) Lbp) as (A & B & C).
    rewrite <- Ecw in A, B, C.
    destruct (cw_write blk buf p) as [bs buf'] eqn:E. cbn [fst snd] in *.
    rewrite app_length, map_length in Hn.
    pose proof (es_write_model v pk hh mks buf out n p Hv Hm Lbp) as Hw. rewrite E in Hw. cbn [fst snd] in Hw.
    assert (Hn1 : (n + N.of_nat (List.length bs) <= 18446744073709551615)%N) by (clear - Hn; lia).
    specialize (Hw Hn1). rewrite Hw. clear Hw.
    assert (Hinv' : buf' <> [] \/ (n + N.of_nat (List.length bs))%N = 0%N).
    { destruct bs as [|b0 bs0].
      - rewrite (B eq_refl). cbn [List.length]. destruct Hinv as [Hne| ->]; [left|].
        + destruct buf; [congruence|discriminate].
        + destruct (buf ++ p)%list eqn:Ebp; [right; reflexivity|left; discriminate].
      - left. apply C. discriminate. }
    destruct (IH buf' (out ++ emit v pk hh mks n bs)%list (n + N.of_nat (List.length bs))%N Ht A Hinv' ltac:(lia)) as [IH1 _].
    rewrite IH1. rewrite emit_plan_app, emit_plan_nonfinal, map_length, app_length, map_length, <- app_assoc.
    do 2 f_equal. lia.
Qed.

End Model2.
