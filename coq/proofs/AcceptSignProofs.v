(* AcceptSignProofs.v — C09: every message a spec-following sender can produce is accepted (attached and detached signatures).
   The GENERAL specification encoders of coq/spec/Spec.v are run through the implementation
   model's receivers.  Statements marked (TARGET) are used verbatim by props/. *)
From Coq Require Import List NArith ZArith Bool Lia ZifyN ZifyNat ZifyBool.
From Coq.Strings Require Import Byte.
From SP Require Import Bytes Params Msgpack Crypto Errors Nonce Packets Chunker Rand Sign Verify Encrypt Decrypt Signcrypt Spec
     MsgpackProofs ChunkerProofs SignProofs EncryptProofs SigncryptProofs AcceptDefs.
Import ListNotations.
Open Scope N_scope.

(* ================================================================== *)
(* General-purpose lemmas (no crypto involved)                         *)
(* ================================================================== *)

Lemma wf_all_Forall (l : list mval) : wf_all l <-> Forall wf l.
Proof.
  induction l as [|x t IH].
  - split; intro; [constructor | exact I].
  - change (wf_all (x :: t)) with (wf x /\ wf_all t). split.
    + intros [H1 H2]. constructor; [exact H1 | apply IH; exact H2].
    + intro H. inversion H; subst. split; [assumption | apply IH; assumption].
Qed.

Lemma wf_arr_iff (l : list mval) :
  wf (MArr l) <-> N.of_nat (length l) < 4294967296 /\ Forall wf l.
Proof.
  change (wf (MArr l)) with (N.of_nat (length l) < 4294967296 /\ wf_all l).
  rewrite wf_all_Forall. reflexivity.
Qed.

(* the literals of the specification text are the constants of the package *)
Lemma S_format_name_eq : S_format_name = format_name.
Proof. reflexivity. Qed.
Lemma S_mode_attached_eq : S_mode_attached = mt_attached.
Proof. reflexivity. Qed.
Lemma S_mode_detached_eq : S_mode_detached = mt_detached.
Proof. reflexivity. Qed.
Lemma S_attached_prefix_eq : S_attached_prefix = sig_attached_prefix.
Proof. reflexivity. Qed.
Lemma S_detached_prefix_eq : S_detached_prefix = sig_detached_prefix.
Proof. reflexivity. Qed.

Lemma S_max_chunk_N : N.of_nat S_max_chunk = 1048576.
Proof. unfold S_max_chunk. rewrite Z_nat_N. reflexivity. Qed.

Lemma S_max_chunk_bound (x : bytes) : (length x <= S_max_chunk)%nat -> len x < 4294967296.
Proof. intro H. unfold len. pose proof S_max_chunk_N. lia. Qed.

#[local] Opaque S_max_chunk.

(* the header view reads the five fields by index; trailing elements are ignored *)
Lemma view_sig_header_ext (f : bytes) (maj mi typ : Z) (pk nonce : bytes) (ex : list mval) :
  (maj <= 9223372036854775807)%Z -> (mi <= 9223372036854775807)%Z -> (typ <= 9223372036854775807)%Z ->
  view_sig_header (MArr ([MStr f; MArr [MInt maj; MInt mi]; MInt typ; MBin pk; MBin nonce] ++ ex)) =
  DOk (mkHeader f (mkV maj mi) typ pk nonce []).
Proof.
  intros H1 H2 H3.
  assert (E1 : (maj <=? 9223372036854775807)%Z = true) by (apply Z.leb_le; exact H1).
  assert (E2 : (mi <=? 9223372036854775807)%Z = true) by (apply Z.leb_le; exact H2).
  assert (E3 : (typ <=? 9223372036854775807)%Z = true) by (apply Z.leb_le; exact H3).
  unfold view_sig_header, view_version, field.
  cbn [as_array dbind app nth as_string as_int as_bytes].
  rewrite E1. cbn [dbind as_int nth]. rewrite E2. cbn [dbind as_int nth]. rewrite E3.
  reflexivity.
Qed.

Lemma validate_admits (vd : validator) (maj mi : Z) :
  (maj = 1 \/ maj = 2)%Z -> admits vd maj mi -> validate_version vd (mkV maj mi) = true.
Proof.
  intros Hm [->| ->].
  - destruct Hm as [->| ->]; reflexivity.
  - cbn [validate_version]. unfold version_eqb. rewrite !Z.eqb_refl. reflexivity.
Qed.

Lemma validate_spec_header (vd : validator) (maj mi typ : Z) (pk nonce : bytes) :
  (maj = 1 \/ maj = 2)%Z -> admits vd maj mi ->
  validate_sig_header vd typ (mkHeader S_format_name (mkV maj mi) typ pk nonce []) = Ok tt.
Proof.
  intros Hm Ha. unfold validate_sig_header. cbn [h_format h_version h_type].
  assert (E : bytes_eqb S_format_name format_name = true) by reflexivity.
  rewrite E. cbn [negb]. rewrite (validate_admits vd maj mi Hm Ha). cbn [negb].
  rewrite Z.eqb_refl. reflexivity.
Qed.

(* ---------- the chunkings a spec-following sender may choose ---------- *)
Definition chunk_sz (ch : bytes) : Prop := (1 <= List.length ch <= S_max_chunk)%nat.

Lemma ccs_v1_nonempty (mi : Z) (x : bytes) (n : N) :
  (1 <= length x)%nat -> check_chunk_state (mkV 1 mi) (length x) n false = Ok tt.
Proof. intro H. destruct x as [|b x]; [cbn [length] in H; lia|]. reflexivity. Qed.

Lemma ccs_v2_nonempty (mi : Z) (x : bytes) (n : N) (f : bool) :
  (1 <= length x)%nat -> check_chunk_state (mkV 2 mi) (length x) n f = Ok tt.
Proof. intro H. destruct x as [|b x]; [cbn [length] in H; lia|]. reflexivity. Qed.

Lemma len_nil_bound : len [] < 4294967296.
Proof. reflexivity. Qed.

Lemma pk_ok_v1 (mi : Z) (chunks : list bytes) : forall n,
  Forall chunk_sz chunks ->
  pk_ok (mkV 1 mi) n (map (fun ch => (ch, false)) chunks ++ [([], true)]).
Proof.
  induction chunks as [|x t IH]; intros n H.
  - cbn [map app pk_ok]. split; [reflexivity|]. split; [exact len_nil_bound|reflexivity].
  - inversion H as [|? ? Hx Ht]; subst. cbn [map app pk_ok]. destruct Hx as [Hx1 Hx2].
    split; [apply ccs_v1_nonempty; exact Hx1|].
    split; [apply S_max_chunk_bound; exact Hx2|]. apply IH. exact Ht.
Qed.

Lemma pk_ok_v2 (mi : Z) (chunks : list bytes) : forall n,
  chunks <> [] -> Forall chunk_sz chunks -> pk_ok (mkV 2 mi) n (S_flag_last chunks).
Proof.
  induction chunks as [|x t IH]; intros n Hne H; [congruence|].
  inversion H as [|? ? Hx Ht]; subst. destruct Hx as [Hx1 Hx2].
  destruct t as [|y t'].
  - cbn [S_flag_last pk_ok]. split; [apply ccs_v2_nonempty; exact Hx1|].
    split; [apply S_max_chunk_bound; exact Hx2|reflexivity].
  - change (S_flag_last (x :: y :: t')) with ((x, false) :: S_flag_last (y :: t')).
    cbn [pk_ok]. split; [apply ccs_v2_nonempty; exact Hx1|].
    split; [apply S_max_chunk_bound; exact Hx2|]. apply IH; [discriminate|exact Ht].
Qed.

Lemma pk_ok_v2_empty (mi : Z) : pk_ok (mkV 2 mi) 0 [([], true)].
Proof. cbn [pk_ok]. split; [reflexivity|]. split; [exact len_nil_bound|reflexivity]. Qed.

Lemma pk_ok_spec (maj mi : Z) (chunks : list bytes) :
  (maj = 1 \/ maj = 2)%Z -> S_chunks_ok maj chunks -> pk_ok (mkV maj mi) 0 (S_packets maj chunks).
Proof.
  intros [->| ->] H; unfold S_chunks_ok, S_packets in *.
  - change (1 =? 1)%Z with true in *. cbv iota in *. apply pk_ok_v1. exact H.
  - change (2 =? 1)%Z with false in *. cbv iota in *. destruct H as [->|[Hne H]].
    + exact (pk_ok_v2_empty mi).
    + apply pk_ok_v2; assumption.
Qed.

Lemma map_fst_flag_last (l : list bytes) : map fst (S_flag_last l) = l.
Proof.
  induction l as [|x t IH]; [reflexivity|]. destruct t as [|y t']; [reflexivity|].
  change (S_flag_last (x :: y :: t')) with ((x, false) :: S_flag_last (y :: t')).
  cbn [map fst]. rewrite IH. reflexivity.
Qed.

Lemma concat_fst_packets (maj : Z) (chunks : list bytes) :
  concat (map fst (S_packets maj chunks)) = concat chunks.
Proof.
  unfold S_packets. destruct (maj =? 1)%Z.
  - rewrite map_app, map_map. cbn [fst map]. rewrite map_id, concat_app.
    cbn [concat app]. rewrite app_nil_r. reflexivity.
  - rewrite map_fst_flag_last. reflexivity.
Qed.

(* ================================================================== *)

Section Acc.
Variable c : crypto.
Hypothesis Hc : crypto_ok c.

(* ---------- the header ---------- *)
Definition spec_hdr (p : S_sig) (mode : Z) : header :=
  mkHeader S_format_name (mkV (ss_major p) (ss_minor p)) mode (ed_pub c (ss_sk p)) (ss_nonce p) [].

Lemma wf_spec_sig_header (p : S_sig) (mode : Z) :
  (ss_major p = 1 \/ ss_major p = 2)%Z -> (0 <= ss_minor p <= 127)%Z -> (mode = 1 \/ mode = 2)%Z ->
  len (ss_nonce p) < 4294967296 -> extras_ok (ss_extra_hdr p) ->
  wf (S_sig_header_list c p mode).
Proof.
  intros Hmaj Hmin Hmode Hn [Hex Hlen]. unfold S_sig_header_list. apply wf_arr_iff. split.
  - rewrite app_length. cbn [length]. lia.
  - apply Forall_app. split; [|exact Hex].
    repeat apply Forall_cons; [ | | | | | apply Forall_nil].
    + cbn [wf]. vm_compute. reflexivity.
    + apply wf_arr_iff. split; [cbn [length]; lia|].
      repeat apply Forall_cons; [cbn [wf]; lia | cbn [wf]; lia | apply Forall_nil].
    + cbn [wf]. lia.
    + cbn [wf]. unfold len. rewrite (ok_ed_pub_len c Hc). lia.
    + cbn [wf]. exact Hn.
Qed.

Lemma view_spec_sig_header (p : S_sig) (mode : Z) :
  (ss_major p = 1 \/ ss_major p = 2)%Z -> (0 <= ss_minor p <= 127)%Z -> (mode = 1 \/ mode = 2)%Z ->
  view_sig_header (S_sig_header_list c p mode) = DOk (spec_hdr p mode).
Proof.
  intros Hmaj Hmin Hmode. unfold S_sig_header_list, spec_hdr.
  apply view_sig_header_ext; lia.
Qed.

(* newVerifyStream on a header written by a spec-following sender *)
Lemma verify_read_header_spec (vd : validator) (p : S_sig) (mode : Z) (body : bytes) :
  (ss_major p = 1 \/ ss_major p = 2)%Z -> (0 <= ss_minor p <= 127)%Z -> (mode = 1 \/ mode = 2)%Z ->
  len (ss_nonce p) < 4294967296 -> extras_ok (ss_extra_hdr p) ->
  len (mp_encode (S_sig_header_list c p mode)) < 4294967296 ->
  admits vd (ss_major p) (ss_minor p) ->
  verify_read_header c vd mode (mp_encode (MBin (mp_encode (S_sig_header_list c p mode))) ++ body) =
  Ok (spec_hdr p mode, sha512 c (mp_encode (S_sig_header_list c p mode)), body).
Proof.
  intros Hmaj Hmin Hmode Hn Hex Hlen Hvd. unfold verify_read_header.
  rewrite read_header_bytes_enc by exact Hlen.
  cbv beta iota delta [bind fst snd].
  rewrite decode_header_enc by (apply wf_spec_sig_header; assumption).
  rewrite view_spec_sig_header by assumption. cbn [of_dres].
  unfold spec_hdr at 1. rewrite validate_spec_header by assumption.
  reflexivity.
Qed.

(* ---------- payload packets ---------- *)
Definition spkt (p : S_sig) (sig chunk : bytes) (final : bool) : mval :=
  MArr ((if (ss_major p =? 1)%Z then [MBin sig; MBin chunk] else [MBool final; MBin sig; MBin chunk])
        ++ ss_extra_pkt p).

Definition spec_sig_hash (p : S_sig) (hh : bytes) (n : N) (chunk : bytes) (final : bool) : bytes :=
  if (ss_major p =? 1)%Z then sha512 c (hh ++ be64 n ++ chunk)
  else sha512 c (hh ++ be64 n ++ S_final_byte final ++ chunk).

Lemma S_sig_packets_cons (p : S_sig) (hh : bytes) (n : N) (chunk : bytes) (final : bool)
      (t : list (bytes * bool)) :
  S_sig_packets c p hh n ((chunk, final) :: t) =
  mp_encode (spkt p (ed_sign c (ss_sk p) (S_attached_prefix ++ spec_sig_hash p hh n chunk final)) chunk final)
  ++ S_sig_packets c p hh (n + 1) t.
Proof. reflexivity. Qed.

Lemma wf_spkt (p : S_sig) (sig chunk : bytes) (final : bool) :
  extras_ok (ss_extra_pkt p) -> len sig < 4294967296 -> len chunk < 4294967296 ->
  wf (spkt p sig chunk final).
Proof.
  intros [Hex Hl] Hs Hch. unfold spkt. apply wf_arr_iff. split.
  - rewrite app_length. destruct (ss_major p =? 1)%Z; cbn [length]; lia.
  - apply Forall_app. split; [|exact Hex].
    destruct (ss_major p =? 1)%Z; repeat apply Forall_cons; try apply Forall_nil;
      cbn [wf]; auto.
Qed.

Lemma view_spkt (p : S_sig) (sig chunk : bytes) (final : bool) (n : N) :
  check_chunk_state (mkV (ss_major p) (ss_minor p)) (length chunk) n final = Ok tt ->
  view_sig_block (mkV (ss_major p) (ss_minor p)) (spkt p sig chunk final) = DOk (sig, chunk, final).
Proof.
  intro Hs. unfold view_sig_block, spkt, check_chunk_state in *. cbn [vmaj] in *.
  destruct (ss_major p =? 1)%Z.
  - cbn [as_array dbind field nth app as_bytes].
    destruct chunk, final; cbn in Hs; try discriminate; reflexivity.
  - cbn [as_array dbind field nth app as_bool as_bytes]. reflexivity.
Qed.

Lemma attached_sig_input_spec (p : S_sig) (hh chunk : bytes) (n : N) (final : bool) :
  (ss_major p = 1 \/ ss_major p = 2)%Z ->
  attached_sig_input c (mkV (ss_major p) (ss_minor p)) hh chunk n final =
  Some (S_attached_prefix ++ spec_sig_hash p hh n chunk final).
Proof.
  intros [E|E]; unfold attached_sig_input, spec_sig_hash; cbn [vmaj]; rewrite E; reflexivity.
Qed.

(* one turn of the verifier's loop on a packet written by a spec-following sender *)
Lemma spec_loop_step (p : S_sig) (f : nat) (hh : bytes) (n : N) (chunk : bytes) (final : bool)
      (rest : bytes) (acc : list bytes) :
  (ss_major p = 1 \/ ss_major p = 2)%Z -> extras_ok (ss_extra_pkt p) ->
  check_chunk_state (mkV (ss_major p) (ss_minor p)) (length chunk) n final = Ok tt ->
  len chunk < 4294967296 ->
  verify_loop c (S f) (mkV (ss_major p) (ss_minor p)) (ed_pub c (ss_sk p)) hh n
    (mp_encode (spkt p (ed_sign c (ss_sk p) (S_attached_prefix ++ spec_sig_hash p hh n chunk final)) chunk final)
     ++ rest) acc =
  if final then mkOut (rev_append (chunk :: acc) []) (assert_end_of_stream rest)
  else verify_loop c f (mkV (ss_major p) (ss_minor p)) (ed_pub c (ss_sk p)) hh (n + 1) rest (chunk :: acc).
Proof.
  intros Hv Hex Hs Hl. cbn [verify_loop].
  rewrite read_packet_enc.
  2:{ apply wf_spkt; [exact Hex| |exact Hl]. unfold len. rewrite (ok_sig_len c Hc). lia. }
  rewrite (vmaj_ok_b (mkV (ss_major p) (ss_minor p)) Hv).
  rewrite (view_spkt p _ chunk final n Hs). cbn [of_dres].
  rewrite (attached_sig_input_spec p hh chunk n final Hv).
  rewrite (ok_ed c Hc). cbn [negb]. rewrite Hs. reflexivity.
Qed.

(* the spec sender's packets, read back by the verifier's loop *)
Lemma spec_verify_loop (p : S_sig) (hh : bytes) :
  (ss_major p = 1 \/ ss_major p = 2)%Z -> extras_ok (ss_extra_pkt p) ->
  forall (ps : list (bytes * bool)) (n : N), pk_ok (mkV (ss_major p) (ss_minor p)) n ps ->
    (length ps <= length (S_sig_packets c p hh n ps))%nat /\
    forall fuel acc, (length ps <= fuel)%nat ->
      verify_loop c fuel (mkV (ss_major p) (ss_minor p)) (ed_pub c (ss_sk p)) hh n
        (S_sig_packets c p hh n ps) acc = mkOut (rev acc ++ map fst ps) EOF.
Proof.
  intros Hv Hex. induction ps as [|[chunk final] t IH]; intros n Hok; [destruct Hok|].
  cbn [pk_ok] in Hok. destruct Hok as (Hs & Hl & Ht).
  rewrite S_sig_packets_cons.
  match goal with |- context[mp_encode ?m ++ _] => pose proof (mp_encode_len m) as Hm end.
  destruct final.
  - subst t. split.
    + rewrite app_length. cbn [length]. lia.
    + intros fuel acc Hf. destruct fuel as [|f]; [cbn [length] in Hf; lia|].
      change (S_sig_packets c p hh (n + 1) []) with (@nil byte).
      rewrite (spec_loop_step p f hh n chunk true [] acc Hv Hex Hs Hl).
      rewrite assert_end_of_stream_nil, rev_append_rev, app_nil_r. reflexivity.
  - destruct (IH (n + 1) Ht) as (Lb & Hloop). split.
    + rewrite app_length. cbn [length]. lia.
    + intros fuel acc Hf. destruct fuel as [|f]; [cbn [length] in Hf; lia|].
      rewrite (spec_loop_step p f hh n chunk false _ acc Hv Hex Hs Hl).
      rewrite Hloop by (cbn [length] in Hf; lia).
      cbn [rev map fst]. rewrite <- app_assoc. reflexivity.
Qed.

(* ---- attached signatures ---- *)
Definition sig_params_ok (p : S_sig) : Prop :=
  (ss_major p = 1 \/ ss_major p = 2)%Z /\ (0 <= ss_minor p <= 127)%Z /\
  len (ss_nonce p) < 4294967296 /\
  extras_ok (ss_extra_hdr p) /\ extras_ok (ss_extra_pkt p) /\
  S_chunks_ok (ss_major p) (ss_chunks p) /\
  N.of_nat (length (ss_chunks p)) < 18446744073709551614.

(* Why the EXTRA premise is needed: [sig_params_ok] does not bound the encoded header.
   Two extra header elements of 2^31 bytes each are allowed by [extras_ok] and make the
   header at least 2^32 bytes long, so that the bin32 length prefix of the outer object
   (be32, i.e. modulo 2^32) no longer describes it. *)
Lemma header_bound_not_implied_gen (k : nat) :
  N.of_nat k = 2147483648 ->
  let p := mkSSig 2 0 [] [] [[]] [] [MBin (repeat x00 k); MBin (repeat x00 k)] [] in
  sig_params_ok p /\ 4294967296 <= len (mp_encode (S_sig_header_list c p S_mode_attached)).
Proof.
  intros Hk p. split.
  - unfold sig_params_ok, p. cbn [ss_major ss_minor ss_nonce ss_extra_hdr ss_extra_pkt ss_chunks].
    split; [right; reflexivity|]. split; [lia|]. split; [exact len_nil_bound|].
    split; [|split; [|split]].
    + split; [|cbn [length]; lia].
      assert (W : wf (MBin (repeat x00 k))).
      { cbn [wf]. unfold len. rewrite repeat_length. lia. }
      repeat apply Forall_cons; [exact W|exact W|apply Forall_nil].
    + split; [apply Forall_nil|cbn [length]; lia].
    + unfold S_chunks_ok. left. reflexivity.
    + cbn [length]. lia.
  - unfold S_sig_header_list, p. cbn [ss_extra_hdr app]. rewrite mp_encode_arr.
    cbn [enc_list]. unfold len. rewrite !app_length.
    cbn [mp_encode]. rewrite !app_length, !repeat_length. lia.
Qed.

Lemma header_bound_not_implied :
  exists p, sig_params_ok p /\ ~ len (mp_encode (S_sig_header_list c p S_mode_attached)) < 4294967296.
Proof.
  eexists. destruct (header_bound_not_implied_gen _ (N2Nat.id 2147483648)) as [H1 H2].
  split; [exact H1|]. intro H. apply N.lt_nge in H. apply H. exact H2.
Qed.

(* (TARGET) — with one EXTRA premise, see below.
   EXTRA: the encoded header fits the outer bin object (bin32 carries at most 2^32-1 bytes).
   [sig_params_ok] does not imply it: the extra header elements are only required to be
   well-formed and fewer than 1000, and two extra bin elements of 2^31 bytes each already make
   the header 2^32 bytes or longer, whose bin32 length prefix wraps modulo 2^32. *)
Lemma spec_attached_accepted (p : S_sig) (kr : sigring) (vd : validator) :
  sig_params_ok p ->
  len (mp_encode (S_sig_header_list c p S_mode_attached)) < 4294967296 ->   (* EXTRA *)
  admits vd (ss_major p) (ss_minor p) -> In (ed_pub c (ss_sk p)) kr ->
  exists chunks,
    verify_stream c vd kr (S_encode_attached c p) = Ok (ed_pub c (ss_sk p), mkOut chunks EOF) /\
    concat chunks = concat (ss_chunks p) /\
    verify_all c vd kr (S_encode_attached c p) = Ok (ed_pub c (ss_sk p), concat (ss_chunks p)).
Proof.
  intros (Hmaj & Hmin & Hn & Hexh & Hexp & Hch & _) Hlen Hvd Hin.
  set (ps := S_packets (ss_major p) (ss_chunks p)).
  set (hdr := mp_encode (S_sig_header_list c p S_mode_attached)) in *.
  pose proof (pk_ok_spec (ss_major p) (ss_minor p) (ss_chunks p) Hmaj Hch) as Hok. fold ps in Hok.
  destruct (spec_verify_loop p (sha512 c hdr) Hmaj Hexp ps 0 Hok) as (Lb & Hloop).
  assert (Hstream : verify_stream c vd kr (S_encode_attached c p) =
                    Ok (ed_pub c (ss_sk p), mkOut (map fst ps) EOF)).
  { unfold verify_stream, S_encode_attached. fold hdr. fold ps.
    change mt_attached with S_mode_attached. unfold hdr.
    rewrite verify_read_header_spec; try assumption.
    2:{ left. reflexivity. }
    cbv beta iota delta [bind]. unfold spec_hdr. cbn [h_a h_version].
    rewrite lookup_signer_in by exact Hin.
    fold hdr. rewrite Hloop by lia. reflexivity. }
  exists (map fst ps). split; [exact Hstream|]. split.
  - unfold ps. apply concat_fst_packets.
  - unfold verify_all. rewrite Hstream. cbn [bind so_end so_chunks].
    unfold ps. rewrite concat_fst_packets. reflexivity.
Qed.

(* (TARGET) — with the same EXTRA premise (the encoded header fits the outer bin object;
   not implied by [extras_ok], see above). *)
Lemma spec_detached_accepted (p : S_sig) (kr : sigring) (vd : validator) :
  (ss_major p = 1 \/ ss_major p = 2)%Z -> (0 <= ss_minor p <= 127)%Z ->
  len (ss_nonce p) < 4294967296 -> extras_ok (ss_extra_hdr p) ->
  len (mp_encode (S_sig_header_list c p S_mode_detached)) < 4294967296 ->   (* EXTRA *)
  admits vd (ss_major p) (ss_minor p) -> In (ed_pub c (ss_sk p)) kr ->
  verify_detached c vd kr (ss_msg p) (S_encode_detached c p) = Ok (ed_pub c (ss_sk p)).
Proof.
  intros Hmaj Hmin Hn Hexh Hlen Hvd Hin.
  unfold verify_detached, S_encode_detached.
  change mt_detached with S_mode_detached.
  rewrite verify_read_header_spec; try assumption.
  2:{ right. reflexivity. }
  cbv beta iota delta [bind]. unfold spec_hdr. cbn [h_a h_version].
  match goal with |- context[mp_read (mp_encode ?m)] =>
    rewrite <- (app_nil_r (mp_encode m)); rewrite (mp_read_encode m [])
  end.
  2:{ cbn [wf]. unfold len. rewrite (ok_sig_len c Hc). lia. }
  cbn [as_bytes of_dres]. cbv beta iota delta [bind].
  rewrite lookup_signer_in by exact Hin.
  change (detached_sig_input c ?hh ?m) with (S_detached_prefix ++ sha512 c (hh ++ m)).
  rewrite (ok_ed c Hc). reflexivity.
Qed.

End Acc.
