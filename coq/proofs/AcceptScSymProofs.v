(* AcceptScSymProofs.v — C09 for SYMMETRIC signcryption recipients: every signcrypted message a
   spec-following sender can produce (coq/spec/Spec.v: any chunking, minor version, extra
   elements, recipient order) is accepted by the implementation model when the opener holds no
   box key and its resolver resolves identifiers of this message only to their genuine keys,
   at least the one of recipient i.  Companion of spec_signcryption_accepted_box
   (proofs/AcceptScProofs.v).  Statements marked (TARGET) are used verbatim by props/. *)
From Coq Require Import List NArith ZArith Bool Lia.
From Coq.Strings Require Import Byte.
From SP Require Import Bytes Params Msgpack Crypto Errors Nonce Packets Chunker Rand Verify Decrypt Signcrypt Spec
     AcceptDefs SigncryptProofs AcceptScProofs.
Import ListNotations.
Open Scope N_scope.

Section AccSym.
Variable c : crypto.
Hypothesis Hc : crypto_ok c.

(* the first resolvable entry is a genuine symmetric recipient, and its box opens *)
Lemma sps_try_sym_found (p : S_sc) (rsl : list (bytes * bytes)) : length (sc_pkey p) = 32%nat ->
  forall rs s i key ident,
  nth_error rs i = Some (S_SymR key ident) -> resolve rsl ident = Some key ->
  (forall j kid, nth_error (S_mapi (sp_kid c p) s rs) j = Some kid ->
     forall key, resolve rsl kid = Some key -> nth_error rs j = Some (S_SymR key kid)) ->
  sc_try_sym c rsl (dh_pub c (sc_eph p)) (sp_rcvs c p s rs) s = Ok (Some (sc_pkey p)).
Proof.
  intro Hpk. induction rs as [|r rs IH]; intros s i key ident Hi Hres Hgen.
  - destruct i; discriminate.
  - pose proof (Hgen 0%nat _ eq_refl) as Hg0.
    rewrite sp_rcvs_cons, sc_try_sym_cons.
    destruct (resolve rsl (sp_kid c p s r)) as [key'|] eqn:E.
    + specialize (Hg0 key' eq_refl). cbn [nth_error] in Hg0. apply sc_Some_inj in Hg0.
      destruct r as [pk|k id]; [discriminate|].
      cbn [sp_kid] in Hg0. assert (k = key') by congruence. subst key'.
      unfold sp_box. cbn [sp_dkey].
      rewrite (ok_sb c Hc), (sc_sym_key_ok (sc_pkey p) Hpk). reflexivity.
    + destruct i as [|i].
      * cbn [nth_error] in Hi. apply sc_Some_inj in Hi. subst r.
        cbn [sp_kid] in E. rewrite Hres in E. discriminate.
      * cbn [nth_error] in Hi.
        apply (IH (s + 1) i key ident Hi Hres).
        intros j kid Hj. exact (Hgen (S j) kid Hj).
Qed.

(* a resolver that knows only genuine (identifier, key) pairs of this message: whatever it
   resolves at header position j is the key of the symmetric recipient at position j *)
Definition S_resolver_genuine (rsl : list (bytes * bytes)) (p : S_sc) : Prop :=
  forall j kid, nth_error (S_sc_kids c p) j = Some kid ->
    forall key, resolve rsl kid = Some key -> nth_error (sc_rcpts p) j = Some (S_SymR key kid).

(* (TARGET) symmetric recipient at any position *)
Lemma spec_signcryption_accepted_sym (p : S_sc) (i : nat) (key ident : bytes) (rsl : list (bytes * bytes))
      (signers : sigring) :
  sc_params_ok c p ->
  nth_error (sc_rcpts p) i = Some (S_SymR key ident) ->
  resolve rsl ident = Some key ->
  S_resolver_genuine rsl p ->
  (forall s, sc_signer p = Some s -> In (ed_pub c s) signers) ->
  let kr := mkRing [] None in
  exists chunks,
      signcrypt_open_stream c kr signers (Some rsl) (S_encode_signcryption c p) =
        Ok (option_map (ed_pub c) (sc_signer p), mkOut chunks EOF) /\
      concat chunks = concat (sc_chunks p) /\
      signcrypt_open_all c kr signers (Some rsl) (S_encode_signcryption c p) =
        Ok (option_map (ed_pub c) (sc_signer p), concat (sc_chunks p)).
Proof.
  intros Hp Hi Hres Hgen Hsg kr.
  pose proof Hp as (Hmin & Hpk & Hne & Hxh & Hxr & Hxp & Hfit & Hck & Hcn & Hz).
  exists (sc_chunks p).
  assert (Hs : signcrypt_open_stream c kr signers (Some rsl) (S_encode_signcryption c p) =
               Ok (option_map (ed_pub c) (sc_signer p), mkOut (sc_chunks p) EOF)).
  { rewrite (sp_open_stream_eq c Hc) by exact Hp.
    unfold sc_find, kr. cbn [kr_keys map]. rewrite sc_try_box_nil. cbn [bind].
    rewrite (sps_try_sym_found p rsl Hpk (sc_rcpts p) 0 i key ident Hi Hres).
    2:{ intros j kid Hj. apply Hgen. rewrite (sp_sc_kids_eq c). exact Hj. }
    cbn [bind].
    rewrite (sc_sender_ok c Hc (sc_signer p) signers (sc_pkey p)).
    2:{ intros s Hs. split; [apply Hsg; exact Hs|apply Hz; exact Hs]. }
    cbn [bind fst snd].
    rewrite (sp_loop_chunks c Hc p (sha512 c (sp_hdr c p)) Hxp Hck Hcn). reflexivity. }
  split; [exact Hs|]. split; [reflexivity|].
  unfold signcrypt_open_all. rewrite Hs. reflexivity.
Qed.

End AccSym.
