(* WriteFaultProofs.v - property C14, WRITE side: "if the underlying writer fails on any one of its Write calls, some
   Write or Close of the encoding stream returns an error, so Close never reports success for a message that was
   not completely written" - as theorems about the specification functions that GoAstProofs5a / 5b / 5d / 6a / 6b tie to
   /repo's Go code (es_* = encryptStream, sas_* = signAttachedStream, sds_* = signDetachedStream, sss_* =
   signcryptSealStream, gw_* = the base-X stream encoder, ga_* = armorEncoderStream WITH THE STICKY-ERROR FIX this file's
   first version asked for: field `err`, checked first and set on every error return of Write and Close).  Nothing of
   those files is changed or re-proved; this file only reasons about their specification functions.

   WHAT IS TRUE AND WHAT IS NOT (summary; details below).
   * TRUE for all six streams, for EVERY behaviour of the writer: along any sequence of calls in which every call
     (constructor/init included) returned nil, the writer took exactly the complete message (NO SILENT LOSS), and a
     call during which the writer reports an error returns a non-nil error (ERROR RETURNED AT ONCE).
   * TRUE: encryptStream.Write, signcryptSealStream.Write, the base-X encoder (Write AND Close) and - since the fix - the
     armor stream (Write AND Close) are sticky.
   * The property as worded - "Close never reports success for a message that was not completely written" - for a
     caller who calls Close after a Write has returned an error:
     - is NOT a property of the three packet streams' own code.  encryptStream.Close and signcryptSealStream.Close never
       read the err field (es_close_ignores_err, sss_close_ignores_err); signAttachedStream has no err field.  A failed
       encryptBlock / signcryptBlock / signBlock has already taken its block off the buffer and has NOT advanced numBlocks / seqno (es_block_from_failed, sss_block_from_failed,
       sas_block_from_failed).  With an encoder step that refuses one packet (taking nothing) and works again:
           NewEncryptStream(v2); Write(1 MiB + 1 byte "...a") -> ErrIO;  Close() -> nil
       leaves in the writer, byte for byte, the complete, valid, authenticated message for the plaintext "a",
       encrypted under block number 0 - the nonce of the lost block - and Close reports success
       (ex_enc_close_after_failed_write; likewise ex_sc_close_after_failed_write, ex_sas_close_after_failed_write;
       vm_compute on the specification functions with real 1 MiB blocks, toy primitives).
     - HOLDS for the three packet streams as soon as the encoder step is STICKY ([sticky_step]: once it has reported
       an error it reports one on every later call): es_/sss_/sas_no_nil_close_after_error and
       es_/sss_/sas_close_nil_complete.  go-codec's Encoder (github.com/keybase/go-codec, codec/encode.go:
       Encode stores the error in e.err, MustEncode panics with it from then on) is sticky, and [codec s] is that
       encoder put in front of an arbitrary step s (codec_sticky, codec_honest).  OBSERVED on /repo with a writer
       that fails once (go run, scratch module): the sequence above gives Write -> "msgpack encode error: ErrIO",
       Close -> "msgpack encode error: msgpack encode error: ErrIO" for NewEncryptStream, NewSignStream and
       NewSigncryptSealStream.  So for these streams the property rests on an undocumented behaviour of the
       msgpack library, not on saltpack's err fields.
     - FAILED ON THE ORIGINAL CODE for the armor stream, which has no encoder above its writer and had no err field:
           NewArmor62EncoderStream(w, MessageTypeEncryption, ""); Write(32 x 'a') -> ErrIO (w fails at its 2nd call,
           the first word, taking nothing; every other call succeeds);  Close() -> nil
       and w held a well-formed armor WITHOUT its first 15 characters (observed on the unfixed /repo: accepted = "BEGIN
       SALTPACK ENCRYPTED MESSAGE. bXgPHA2GIodRKMW qFoG6wORij4M5. END SALTPACK ENCRYPTED MESSAGE.\n" instead of
       "... N5hE1K77FJnXznZ bXgPHA2GIodRKMW ...").  WITH THE FIX of /repo/armor.go (s.err; GoAstProofs5d.v ties the fixed
       source) the property HOLDS AS WORDED for the armor stream, WITH NO HYPOTHESIS beyond the writer being honest:
       Ar.ar_error_sticks (a Write or Close that returned an error has stored it; every later Write and Close returns it
       and hands nothing more to the writer), Ar.ar_no_nil_close_after_error, Ar.ar_close_nil_all_nil,
       Ar.ar_close_nil_complete; the same sequence now gives Write -> ErrIO, Close -> ErrIO and no further writer call
       (ex_ar_close_after_failed_write).  The first patch left Close's own four error returns unstored (Close -> err;
       Close -> nil with a word missing); the patch tied here stores them too (ex_ar_close_error_sticks).
       Inside the armored sender APIs the encryption/signing stream above it fails first (its sticky encoder), and
       closeForwarder returns that error: stack_close_nil_complete.

   THE SETTING.
   - packet streams (Enc, SignA, SignD, Sc): [step] = gval -> bytes -> gval * gerr is the section variable enc_step
     of GoAstProofs5a/6a/6b: what presenting ONE packet to the encoder object does (new object, error).
     HONEST-OR-FAILING ([honest written s]): forall o pkt o', s o pkt = (o', None) -> written o' = written o ++ pkt,
     for an observation [written] of the encoder object.  Nothing is assumed about a step that reports an error.
   - a SESSION ([session], built on [run]): constructor / init on the fresh object, then a list of calls
     [OpWrite p | OpClose] on the receiver object as each call leaves it, ALSO after an error; every returned error
     is collected ([Ret e]); a panic or a point where the specification function has no value ends the run
     ([Halt]).  When init / the constructor returns an error no stream object is returned and no call follows.
     [all_nil outs]: every collected entry is [Ret None].
   - INSTRUMENTED step ([logged s]): the object is [o; flag]; the flag is raised when s reports an error.
     [instr o] = [o; false], [saw_error] reads the flag.
   - base-X and armor (Bx, Ar): the writer is the CONCRETE one of GoAstProofs5b ([wr]: every call is logged, its error is
     the head of an arbitrary schedule, so it can fail at any call and recover); written_log = concatenation of
     the log, used only where no call failed.  A Write of the base-X encoder that returns nil is followed by the
     trailing copy ([pending_copy], the statement GoAstProofs5b could not run in the evaluator); one that returns an
     error returned before it.  The armor stream is [ga_write]/[ga_close] with the shared bytes.Buffer read as in
     GoAstProofs5b/5d; its object [ast] carries the sticky error s.err, which after every call is the error that call
     returned; a run ([ar_run] = the generic [run]) goes on after an error and after a Close.  What happens after a Close
     that SUCCEEDED is outside the property (s.err stays nil; a second Close would write the last characters and the
     footer again): the no-silent-loss theorem asks that Close, if called, is the last call ([close_last]).  5d has no
     specification function for newArmorEncoderStream: the session starts from the object it returns, over a
     writer that already holds header ++ ". ".

   TARGETS (all Qed, all closed under the global context; hypotheses are listed in full).
   1/3. NO SILENT LOSS
   - Enc.es_no_silent_loss: honest written s; session s (fresh v' w0) ... ops = (outs, st'); all_nil outs  ==>
       session mem_enc (fresh v' (VBytes (written w0))) ... ops = (outs, st' with encoder := VBytes (written (es_enc st'))).
       Reading: ANY sequence of calls; if all returned nil, the in-memory instance on the same inputs also returns
       nil everywhere and ends in the same object, its bytes being exactly what the writer took.
     Enc.es_no_silent_loss_pieces: the same for Write p1; ..; Write pn; Close on a writer with written w0 = [].
     No hypothesis on version, keys, counters, sizes, crypto record.
   - SignA.sas_no_silent_loss(_pieces), SignD.sds_no_silent_loss, Sc.sss_no_silent_loss(_pieces): the same for the
     other three packet streams (SignA has the parameter F = loop turns of the evaluator, any F).
   - Bx.bx_no_silent_loss: gobj_ok o, go_err o = None (what NewEncoder establishes: fresh_ok), 0 < ibl, 1 <= K; any
     calls, all nil ==> written_log after = written_log before ++ concat (bxe_run buffer ops) (the model's writes).
     Bx.bx_no_silent_loss_pieces: from NewEncoder, Write*; Close all nil ==> the writer holds BaseX.encode of the whole input.
   - Ar.ar_no_silent_loss: inv st (established by the constructor: fresh_inv; includes s.err = nil); any calls with Close,
     if any, last (close_last); all nil ==> the writer holds what it held ++ the model's output (ae_run).
     Ar.ar_no_silent_loss_pieces: ... = armor_seal input header footer.
   - Comp.enc_armor_no_silent_loss(_seal) (COMPOSITION): encryptStream whose step is one armorEncoderStream.Write
     ([arm_step]) over the base-X encoder over a scheduled writer; init, any calls, then Close of the armor stream;
     all nil ==> the writer holds Armor62Seal (armor_seal) of exactly the bytes the in-memory encryptStream produces
     for the same calls.  Hypotheses: the writer held header ++ ". " before; the final encoder object decodes to
     the armor object on which Close is called.
   4. ERROR RETURNED AT ONCE
   - Enc.es_write_reports / es_close_reports / es_init_reports, SignA.sas_write_reports / sas_close_reports /
     sas_new_reports, Sc.sss_write_reports / sss_close_reports / sss_init_reports, SignD.sds_new_reports:
     the call is run on [logged s] from an object with the flag down (es_enc st = instr o); if the flag is up
     afterwards, the call returned a non-nil error (constructors: if a stream is returned the flag is down).
     No other hypothesis.  Enc.es_logged_transparent, SignA.sas_logged_transparent, Sc.sss_logged_transparent: the
     instrumentation changes nothing: every call of any run on [logged s] returns what it returns on s, and the
     receiver objects differ only by the flag on the encoder (full simulation, *_bisim lemmas).
     SignD.sds_close_reports / sds_write_no_step: Close returns exactly its one step's error; Write makes no step.
   - Bx.bx_call_reports, Ar.ar_write_reports, Ar.ar_close_reports: a call uses j entries of the schedule; it returns nil
     IFF all j were nil, and an error it returns is one of them.  Hypotheses: gobj_ok/go_err = None, resp. inv (a call
     on a stream whose s.err is set makes no writer call at all: ar_sticky).
   5. STICKY / AFTER AN ERROR
   - Enc.es_sticky, Sc.sss_sticky: err set ==> every later Write of any run returns it and leaves the object
     untouched (nothing reaches the writer), Close calls in between do not clear it.  es_write_error_sticks /
     sss_write_error_sticks: a Write that returns an error has set it.  No hypothesis.
   - Enc.es_close_ignores_err, Sc.sss_close_ignores_err: Close on an object with err = e is Close on the object with
     err = nil (same packets, same result), e kept.  es_block_from_failed / sss_block_from_failed /
     SignA.sas_block_from_failed: state after a failed block.  Examples ex_*_close_after_failed_write: the witnesses.
   - Bx.bx_sticky, bx_error_sticks: with e.err set Write AND Close return it and do nothing; a call that returned an
     error has set it.  The base-X encoder and (since the fix) the armor stream are the two streams whose Close is sticky.
   - Ar.ar_sticky: with s.err set every Write AND Close of any run returns it and leaves the object (the writer's log
     included) untouched.  Ar.ar_error_sticks: a call - Write or Close - that returned an error has stored it, so the rest
     of any run returns that error and hands nothing more to the writer; Ar.ar_close_error_sticks: the instance for a
     failed Close (second Close, Write after Close).  NO hypothesis: any object, any writer, any calls.
   6. C14 AS WORDED, UNDER THE STICKY-ENCODER HYPOTHESIS ([sticky_step broken s]: a step that reports an error leaves a
      broken object, and on a broken object every step reports an error and leaves it broken)
   - Enc.es_no_nil_close_after_error, Sc.sss_no_nil_close_after_error, SignA.sas_no_nil_close_after_error: in any run,
     after a call that returned an error no later Close returns nil.  Hypotheses: sticky_step; Enc/Sc: [Inv st] on
     the starting object (err = nil, or the encoder is broken / the counter exhausted: true after init, init_inv).
   - Enc.es_close_nil_all_nil: init; Write*; Close all made (length of the result list) and the last entry nil ==>
     all entries nil.  Enc.es_close_nil_complete, Sc.sss_close_nil_complete, SignA.sas_close_nil_complete: with
     [honest] and a fresh writer in addition ==> the writer took the complete message (the conclusion of
     *_no_silent_loss_pieces).  SignD.sds_close_nil_all_nil: the same for the detached signer, with NO hypothesis on
     the step (Write makes no step, Close one).
   - Enc.es_close_nil_all_nil, Sc.sss_close_nil_all_nil, SignA.sas_close_nil_all_nil: the first half of the above alone
     (sticky_step only).
   - Ar.ar_no_nil_close_after_error: in any run of the armor stream, after a call that returned an error no later Close
     returns nil.  Ar.ar_close_nil_all_nil: Write*; Close: the final Close returned nil ==> every call returned nil.
     NO hypothesis (no sticky_step, no invariant: the stickiness is the stream's own).
     Ar.ar_close_nil_complete: NewArmor62EncoderStream (writer holds header ++ ". "); Write p1; ..; Write pn; Close over a
     writer with ANY schedule: the final Close returned nil ==> all nil AND the writer holds armor_seal (p1 ++ .. ++ pn)
     header footer.  Only hypothesis: what the writer held at the start.
   - Comp.sign_stack_close_nil_complete, Comp.signcrypt_stack_close_nil_complete: Comp.stack_close_nil_complete (next item)
     for the attached-signature and the signcryption stream.
   - Comp.stack_close_nil_complete: encryptStream over [codec arm_step] (go-codec's sticky encoder over the armor
     stream over the base-X encoder over a writer with any schedule): if all calls of the encryption stream were made,
     its Close returned nil and the armor stream's Close returned nil, then every call returned nil and the
     writer holds armor_seal of the in-memory ciphertext.  Hypotheses: the writer held header ++ ". "; the final
     encoder object is [armor object; flag] and decodes.
   Examples (vm_compute; non-vacuity): ex_enc_complete, ex_enc_fault_reported, ex_enc_logged, ex_sas_*, ex_sds_*,
   ex_sc_*, ex_bx_complete, ex_bx_fault_sticky, ex_ar_complete, ex_ar_close_after_failed_write (the former witness: Close now
   returns the stored error), ex_ar_close_error_sticks, ex_stack_complete, ex_stack_fault,
   ex_enc_close_after_failed_write_codec (the witness sequence with the sticky encoder in between: Close fails). *)
From Coq Require Import List String NArith ZArith Bool Lia.
From Coq.Strings Require Import Byte.
From SP Require Import Bytes Consts Params Msgpack Crypto Errors Nonce Packets Chunker Rand Encrypt Sign Signcrypt
                       BaseX Encodings Armor Streams StreamProofs ToyCrypto GoLang GoLang2.
From SP Require GoAstProofs5a GoAstProofs5b GoAstProofs5d GoAstProofs6a GoAstProofs6b.
Import ListNotations.

(* ================= the generic layer ================= *)
(* a Go error value: nil or a named error with its arguments (the same type as GoAstProofs5a/6a/6b.gerr) *)
Definition gerr := option (String.string * list gval).
(* what presenting one packet to the encoder object does: new object, error *)
Definition step := gval -> bytes -> gval * gerr.

(* the calls a user of an io.WriteCloser makes, and what one call gives back: the returned error, or the
   end of the run (a panic, or a point where the specification function has no value) *)
Inductive op := OpWrite (p : bytes) | OpClose.
Inductive outc := Ret (e : gerr) | Halt (w : String.string).

Section Run.
Variable S : Type.
Variable call : S -> op -> outc * S.
(* run the calls one after the other on the receiver object, whatever they return (a caller may keep calling
   after an error); every returned error is collected *)
Fixpoint run (st : S) (ops : list op) : list outc * S :=
  match ops with
  | [] => ([], st)
  | o :: t =>
    match call st o with
    | (Ret e, st') => let (r, st'') := run st' t in (Ret e :: r, st'')
    | (Halt w, st') => ([Halt w], st')
    end
  end.
End Run.
Arguments run {S} call st ops.

Definition all_nil (outs : list outc) : Prop := Forall (fun r => r = Ret None) outs.
(* Write p1; ...; Write pn; Close *)
Definition session_ops (pieces : list bytes) : list op := map OpWrite pieces ++ [OpClose].

Lemma all_nil_cons (r : outc) (t : list outc) : all_nil (r :: t) -> r = Ret None /\ all_nil t.
Proof. intros H. inversion H as [|x l Hx Hl]. split; assumption. Qed.

(* what the writes of a run return, given as a predicate on (calls, outcomes) *)
Fixpoint writes_return (e : gerr) (ops : list op) (outs : list outc) : Prop :=
  match ops, outs with
  | OpWrite _ :: t, r :: rt => r = Ret e /\ writes_return e t rt
  | OpClose :: t, _ :: rt => writes_return e t rt
  | _, _ => True
  end.

Lemma writes_return_nil (e : gerr) (ops : list op) : writes_return e ops [].
Proof. destruct ops as [|[p|] t]; exact I. Qed.

(* success simulation: whenever a call of the first machine returns nil, so does the same call of the
   second, and the states stay related *)
Section RunSim.
Variables S1 S2 : Type.
Variable call1 : S1 -> op -> outc * S1.
Variable call2 : S2 -> op -> outc * S2.
Variable rel : S1 -> S2 -> Prop.
Hypothesis Hcall : forall st1 st2 o st1', rel st1 st2 -> call1 st1 o = (Ret None, st1') ->
  exists st2', call2 st2 o = (Ret None, st2') /\ rel st1' st2'.

Lemma run_sim (ops : list op) : forall st1 st2 outs st1',
  rel st1 st2 -> run call1 st1 ops = (outs, st1') -> all_nil outs ->
  exists st2', run call2 st2 ops = (outs, st2') /\ rel st1' st2'.
Proof.
  induction ops as [|o t IH]; intros st1 st2 outs st1' Hr Hrun Hnil; cbn [run] in *.
  - injection Hrun as <- <-. exists st2. split; [reflexivity|exact Hr].
  - destruct (call1 st1 o) as [[e|w] sa] eqn:Ec.
    + destruct (run call1 sa t) as [r sb] eqn:Er. injection Hrun as <- <-.
      apply all_nil_cons in Hnil. destruct Hnil as [He Hnil]. injection He as ->.
      destruct (Hcall st1 st2 o sa Hr Ec) as (sa2 & Hc2 & Hr2). rewrite Hc2.
      destruct (IH sa sa2 r sb Hr2 Er Hnil) as (sb2 & Hrun2 & Hr3). rewrite Hrun2.
      exists sb2. split; [reflexivity|exact Hr3].
    + injection Hrun as <- <-. apply all_nil_cons in Hnil. destruct Hnil as [He _]. discriminate He.
Qed.
End RunSim.

Definition is_err (e : gerr) : bool := match e with Some _ => true | None => false end.

(* full simulation: the two machines return the same thing at every call, and the states stay related *)
Section RunBisim.
Variables S1 S2 : Type.
Variable call1 : S1 -> op -> outc * S1.
Variable call2 : S2 -> op -> outc * S2.
Variable rel : S1 -> S2 -> Prop.
Hypothesis Hcall : forall st1 st2 o, rel st1 st2 ->
  fst (call1 st1 o) = fst (call2 st2 o) /\ rel (snd (call1 st1 o)) (snd (call2 st2 o)).

Lemma run_bisim (ops : list op) : forall st1 st2, rel st1 st2 ->
  fst (run call1 st1 ops) = fst (run call2 st2 ops) /\ rel (snd (run call1 st1 ops)) (snd (run call2 st2 ops)).
Proof.
  induction ops as [|o t IH]; intros st1 st2 Hr; cbn [run]; [split; [reflexivity|exact Hr]|].
  destruct (Hcall st1 st2 o Hr) as [H1 H2].
  destruct (call1 st1 o) as [r1 sa]. destruct (call2 st2 o) as [r2 sa2]. cbn [fst snd] in *. subst r2.
  destruct r1 as [e|w]; [|split; [reflexivity|exact H2]].
  destruct (IH sa sa2 H2) as [I1 I2].
  destruct (run call1 sa t) as [r sb]. destruct (run call2 sa2 t) as [r' sb2]. cbn [fst snd] in *. subst r'.
  split; [reflexivity|exact I2].
Qed.
End RunBisim.

Definition step_bisim (R : gval -> gval -> Prop) (s1 s2 : step) : Prop :=
  forall o1 o2 pkt, R o1 o2 -> snd (s1 o1 pkt) = snd (s2 o2 pkt) /\ R (fst (s1 o1 pkt)) (fst (s2 o2 pkt)).

(* runs through states from which Close cannot succeed ([bad]), under an invariant [Inv]: after a call that
   returned an error, no later Close returns nil *)
Section RunBad.
Variable St : Type.
Variable call : St -> op -> outc * St.
Variables Inv bad : St -> Prop.
Hypothesis Hcall : forall st o e st', Inv st -> call st o = (Ret e, st') ->
  Inv st' /\ (bad st -> bad st') /\ (e <> None -> bad st') /\ (o = OpClose -> bad st -> e <> None).

Lemma run_bad_close (ops : list op) : forall st outs st', Inv st -> bad st -> run call st ops = (outs, st') ->
  forall j, nth_error ops j = Some OpClose -> nth_error outs j <> Some (Ret None).
Proof.
  induction ops as [|o t IH]; intros st outs st' Hi Hb; cbn [run].
  - intros _ j Hj. destruct j; discriminate Hj.
  - destruct (call st o) as [[e|w] sa] eqn:Ec.
    + destruct (Hcall st o e sa Hi Ec) as (Hi' & Hb' & _ & Hcl).
      destruct (run call sa t) as [r sb] eqn:Er. intros H j Hj. injection H as <- <-.
      destruct j as [|j]; cbn [nth_error] in *.
      * injection Hj as ->. intros H. injection H as ->. exact (Hcl eq_refl Hb eq_refl).
      * exact (IH sa r sb Hi' (Hb' Hb) Er j Hj).
    + intros H j Hj. injection H as <- <-. destruct j as [|j]; cbn [nth_error]; [discriminate|]. destruct j; discriminate.
Qed.

Theorem run_no_nil_close_after_error (ops : list op) : forall st outs st', Inv st -> run call st ops = (outs, st') ->
  forall i j e, (i < j)%nat -> nth_error outs i = Some (Ret (Some e)) -> nth_error ops j = Some OpClose ->
  nth_error outs j <> Some (Ret None).
Proof.
  induction ops as [|o t IH]; intros st outs st' Hi; cbn [run].
  - intros _ i j e _ _ Hj. destruct j; discriminate Hj.
  - destruct (call st o) as [[e0|w] sa] eqn:Ec.
    + destruct (Hcall st o e0 sa Hi Ec) as (Hi' & _ & Hbe & _).
      destruct (run call sa t) as [r sb] eqn:Er. intros H i j e Hij Hi0 Hj. injection H as <- <-.
      destruct j as [|j]; [inversion Hij|]. cbn [nth_error] in Hj |- *.
      destruct i as [|i]; cbn [nth_error] in Hi0.
      * injection Hi0 as ->. apply (run_bad_close t sa r sb Hi' (Hbe ltac:(discriminate)) Er j Hj).
      * apply (IH sa r sb Hi' Er i j e ltac:(lia) Hi0 Hj).
    + intros H i j e Hij Hi0 Hj. injection H as <- <-.
      destruct j as [|j]; [inversion Hij|]. cbn [nth_error]. destruct j; discriminate.
Qed.

(* ... hence: if all the calls were made and the final Close returned nil, every call returned nil *)
Lemma run_bad_last (t : list op) : forall st outs st', Inv st -> bad st ->
  run call st (t ++ [OpClose]) = (outs, st') -> List.length outs = S (List.length t) -> last outs (Halt EmptyString) <> Ret None.
Proof.
  intros st outs st' Hi Hb Hr Hl Hlast.
  assert (Hj : nth_error (t ++ [OpClose]) (List.length t) = Some OpClose).
  { rewrite nth_error_app2 by lia. rewrite Nat.sub_diag. reflexivity. }
  apply (run_bad_close _ st outs st' Hi Hb Hr _ Hj).
  clear - Hl Hlast. revert t Hl. induction outs as [|a outs IHo]; intros t Hl; [discriminate Hl|].
  destruct outs as [|b outs].
  - cbn in Hl. injection Hl as Hl. rewrite <- Hl. cbn in *. rewrite Hlast. reflexivity.
  - destruct t as [|x t]; [discriminate Hl|]. cbn [List.length nth_error] in *. apply IHo; [exact Hlast|lia].
Qed.

Theorem run_last_close_nil (ops : list op) : forall st outs st', Inv st ->
  run call st (ops ++ [OpClose]) = (outs, st') -> List.length outs = S (List.length ops) ->
  last outs (Halt EmptyString) = Ret None -> all_nil outs.
Proof.
  induction ops as [|o t IH]; intros st outs st' Hi; cbn [app].
  - cbn [run]. destruct (call st OpClose) as [[e|w] sa]; intros H Hl Hlast; injection H as <- <-; cbn [last] in Hlast.
    + rewrite Hlast. constructor; [reflexivity|constructor].
    + discriminate Hlast.
  - cbn [run]. destruct (call st o) as [[e|w] sa] eqn:Ec.
    + destruct (Hcall st o e sa Hi Ec) as (Hi' & _ & Hbe & _).
      destruct (run call sa (t ++ [OpClose])) as [r sb] eqn:Er. intros H Hl Hlast. injection H as <- <-.
      cbn [List.length] in Hl. injection Hl as Hl.
      assert (Hlast' : last r (Halt EmptyString) = Ret None).
      { destruct r as [|b r]; [discriminate Hl|]. exact Hlast. }
      destruct e as [e|].
      * exfalso. exact (run_bad_last t sa r sb Hi' (Hbe ltac:(discriminate)) Er Hl Hlast').
      * constructor; [reflexivity|]. exact (IH sa r sb Hi' Er Hl Hlast').
    + intros H Hl. injection H as <- <-. cbn [List.length] in Hl. destruct t; discriminate Hl.
Qed.
End RunBad.

(* A STICKY step (go-codec's Encoder: codec/encode.go stores the first error in e.err and MustEncode panics with it
   from then on): once it has reported an error it reports an error on every later call *)
Definition sticky_step (broken : gval -> Prop) (s : step) : Prop :=
  (forall o pkt, snd (s o pkt) <> None -> broken (fst (s o pkt))) /\
  (forall o pkt, broken o -> snd (s o pkt) <> None /\ broken (fst (s o pkt))).

(* the sticky encoder put in front of ANY step: the object is [o; broken?] *)
Definition codec (s : step) : step := fun o pkt =>
  match o with
  | VList [o0; VBool false] => let r := s o0 pkt in (VList [fst r; VBool (is_err (snd r))], snd r)
  | _ => (o, Some ("ErrEncoderBroken"%string, []))
  end.
Definition codec_obj (o : gval) : gval := VList [o; VBool false].
Definition codec_broken (o : gval) : Prop := forall o0, o <> codec_obj o0.
Definition codec_written (written : gval -> bytes) (o : gval) : bytes :=
  match o with VList [o0; VBool _] => written o0 | _ => [] end.

(* HONEST-OR-FAILING: a step that reports success has taken exactly the packet; nothing is assumed about a
   step that reports an error *)
Definition honest (written : gval -> bytes) (s : step) : Prop :=
  forall o pkt o', s o pkt = (o', None) -> written o' = written o ++ pkt.

(* the relation to the in-memory writer: its object is the bytes written so far *)
Definition mem_of (written : gval -> bytes) (o1 o2 : gval) : Prop := o2 = VBytes (written o1).

(* the shape of hypothesis every simulation lemma below takes *)
Definition step_sim (R : gval -> gval -> Prop) (s1 s2 : step) : Prop :=
  forall o1 o2 pkt, R o1 o2 -> snd (s1 o1 pkt) = None ->
    snd (s2 o2 pkt) = None /\ R (fst (s1 o1 pkt)) (fst (s2 o2 pkt)).

(* an INSTRUMENTED step: the object carries a flag "the step has reported an error" *)
Definition logged (s : step) : step := fun o pkt =>
  match o with
  | VList [o0; VBool b] => let r := s o0 pkt in (VList [fst r; VBool (b || is_err (snd r))], snd r)
  | _ => (o, Some ("ErrNotInstrumented"%string, []))
  end.
Definition instr (o : gval) : gval := VList [o; VBool false].
Definition saw_error (o : gval) : bool := match o with VList [_; VBool b] => b | _ => false end.
Definition clean_of (o1 o2 : gval) : Prop := o1 = instr o2.

Lemma logged_sim (s : step) : step_sim clean_of (logged s) s.
Proof.
  intros o1 o2 pkt -> H. unfold instr, logged in *. cbn [fst snd] in *.
  rewrite H. cbn [is_err orb]. split; reflexivity.
Qed.

(* the instrumented step is the step, on the object under the flag *)
Definition under_flag (o1 o2 : gval) : Prop := exists b, o1 = VList [o2; VBool b].
Lemma logged_bisim (s : step) : step_bisim under_flag (logged s) s.
Proof.
  intros o1 o2 pkt [b ->]. unfold logged. cbn [fst snd]. split; [reflexivity|]. eexists. reflexivity.
Qed.

Lemma classic_obj (o : gval) : (exists o0, o = codec_obj o0) \/ codec_broken o.
Proof.
  unfold codec_broken, codec_obj.
  destruct o as [z|b|b|f|l| |n a]; try (right; intros o0 H; discriminate H).
  destruct l as [|x l]; [right; intros o0 H; discriminate H|].
  destruct l as [|y l]; [right; intros o0 H; discriminate H|].
  destruct l; [|right; intros o0 H; discriminate H].
  destruct y as [z|b|b|f|l0| |n a]; try (right; intros o0 H; discriminate H).
  destruct b; [right; intros o0 H; discriminate H|]. left. exists x. reflexivity.
Qed.
Lemma codec_sticky (s : step) : sticky_step codec_broken (codec s).
Proof.
  assert (Hb : forall o, codec_broken o -> forall pkt, codec s o pkt = (o, Some ("ErrEncoderBroken"%string, []))).
  { intros o Hb pkt. unfold codec.
    destruct o as [z|b|b|f|l| |n a]; try reflexivity.
    destruct l as [|x l]; [reflexivity|]. destruct l as [|y l]; [reflexivity|].
    destruct y as [z|b|b|f|l0| |n a]; try reflexivity. destruct l; [|destruct b; reflexivity].
    destruct b; [reflexivity|]. exfalso. exact (Hb x eq_refl). }
  split.
  - intros o pkt He. destruct (classic_obj o) as [[o0 ->]|Hbr].
    + unfold codec, codec_obj in *. cbn [fst snd] in *. intros o1 H. injection H as _ H.
      destruct (snd (s o0 pkt)); [discriminate H|contradiction].
    + rewrite (Hb o Hbr pkt). exact Hbr.
  - intros o pkt Hbr. rewrite (Hb o Hbr pkt). cbn [fst snd]. split; [discriminate|exact Hbr].
Qed.
Lemma codec_honest (written : gval -> bytes) (s : step) : honest written s -> honest (codec_written written) (codec s).
Proof.
  intros Hh o pkt o' H. unfold codec in H.
  destruct o as [z|b|b|f|l| |n a]; try discriminate H.
  destruct l as [|x l]; [discriminate H|]. destruct l as [|y l]; [discriminate H|].
  destruct y as [z|b|b|f|l0| |n a]; try discriminate H. destruct l; [|destruct b; discriminate H].
  destruct b; [discriminate H|]. destruct (s x pkt) as [x' e] eqn:E. cbn [fst snd] in H. injection H as <- ->.
  cbn [codec_written]. exact (Hh _ _ _ E).
Qed.

(* test writers: the k-th call (from 0) fails after taking only the first [take] bytes of the packet, every other call
   succeeds; the object is {bytes taken so far, number of calls made} *)
Definition flaky_obj (out : bytes) (n : Z) : gval := VList [VBytes out; VInt n].
Definition flaky (k : Z) (take : nat) : step := fun o pkt =>
  match o with
  | VList [VBytes out; VInt n] =>
    if (n =? k)%Z then (flaky_obj (out ++ firstn take pkt) (n + 1), Some ("ErrIO"%string, []))
    else (flaky_obj (out ++ pkt) (n + 1), None)
  | _ => (o, Some ("ErrIO"%string, []))
  end.
Definition flaky_written (o : gval) : bytes := match o with VList [VBytes out; _] => out | _ => [] end.
Lemma flaky_honest (k : Z) (take : nat) : honest flaky_written (flaky k take).
Proof.
  intros o pkt o' H. unfold flaky in H.
  destruct o as [z|b|b|f|l| |n a]; try discriminate H.
  destruct l as [|x l]; [discriminate H|]. destruct x as [z|b|b|f|l0| |n a]; try discriminate H.
  destruct l as [|y l]; [discriminate H|]. destruct y as [z|b0|b0|f|l0| |n a]; try discriminate H.
  destruct l; [|discriminate H].
  destruct (z =? k)%Z; [discriminate H|]. injection H as <-. reflexivity.
Qed.


(* ================= encryptStream (/repo/encrypt.go; specification functions of GoAstProofs5a) ================= *)
Module Enc.
Import GoAstProofs5a.

Lemma mem_sim (written : gval -> bytes) (s : step) : honest written s -> step_sim (mem_of written) s mem_enc.
Proof.
  intros Hh o1 o2 pkt -> H. unfold mem_enc. cbn [fst snd]. split; [reflexivity|].
  unfold mem_of. destruct (s o1 pkt) as [o' e] eqn:E. cbn [fst snd] in *. subst e.
  rewrite (Hh _ _ _ E). reflexivity.
Qed.

Section S.
Variable c : crypto.

(* the receiver objects agree except for the encoder objects, which are related *)
Definition rel (R : gval -> gval -> Prop) (st1 st2 : es_state) : Prop :=
  R (es_enc st1) (es_enc st2) /\ st2 = set_enc st1 (es_enc st2).

Section Sim.
Variables s1 s2 : step.
Variable R : gval -> gval -> Prop.
Hypothesis Hsim : step_sim R s1 s2.

Lemma block_from_sim (st1 st2 : es_state) (f : bool) (pt rest : bytes) (st1' : es_state) :
  rel R st1 st2 -> es_block_from c s1 st1 f pt rest = BRet None st1' ->
  exists st2', es_block_from c s2 st2 f pt rest = BRet None st2' /\ rel R st1' st2'.
Proof.
  intros [HR Heq]. destruct st1 as [v w1 pk buf hh mks n err]. rewrite Heq. clear Heq.
  generalize dependent (es_enc st2). intros w2 HR. clear st2.
  unfold es_block_from, set_enc, set_buf, set_n.
  cbn [es_v es_enc es_pk es_buf es_hh es_mks es_n es_err] in *.
  destruct (negb (read_ok v f 1048576 (Z.of_nat (List.length pt)) (Z.of_nat (List.length rest)))); [discriminate|].
  destruct (negb (block_number_ok n)); [discriminate|].
  destruct (negb (enc_chunk_ok v (sb_seal c pk (nonce_chunk_secretbox n) pt) 16 n f)); [discriminate|].
  destruct (payload_hash c v hh (nonce_chunk_secretbox n) (sb_seal c pk (nonce_chunk_secretbox n) pt) f) as [ph|]; [|discriminate].
  match goal with |- context [s1 w1 ?p] => pose proof (Hsim w1 w2 p HR) as H; destruct (s1 w1 p) as [w1' e1]; destruct (s2 w2 p) as [w2' e2] end.
  cbn [fst snd] in *. destruct e1 as [e1|]; [discriminate|].
  destruct (H eq_refl) as [-> HR']. intros Hb. injection Hb as <-.
  eexists. split; [reflexivity|]. split; [exact HR'|reflexivity].
Qed.

Lemma rel_buf (st1 st2 : es_state) : rel R st1 st2 -> es_buf st2 = es_buf st1.
Proof. intros [_ ->]. reflexivity. Qed.

Lemma block_sim (st1 st2 : es_state) (f : bool) (st1' : es_state) :
  rel R st1 st2 -> es_block c s1 st1 f = BRet None st1' ->
  exists st2', es_block c s2 st2 f = BRet None st2' /\ rel R st1' st2'.
Proof.
  intros Hr. unfold es_block. rewrite (rel_buf _ _ Hr). apply block_from_sim. exact Hr.
Qed.

Lemma rel_set_err (st1 st2 : es_state) (e : gerr) : rel R st1 st2 -> rel R (set_err st1 e) (set_err st2 e).
Proof. intros [HR ->]. split; [exact HR|reflexivity]. Qed.
Lemma rel_set_buf (st1 st2 : es_state) (b : bytes) : rel R st1 st2 -> rel R (set_buf st1 b) (set_buf st2 b).
Proof. intros [HR ->]. split; [exact HR|reflexivity]. Qed.

Lemma drain_sim (fuel : nat) : forall (st1 st2 : es_state) (ret n : Z) (st1' : es_state),
  rel R st1 st2 -> es_drain c s1 fuel st1 ret = WRet n None st1' ->
  exists st2', es_drain c s2 fuel st2 ret = WRet n None st2' /\ rel R st1' st2'.
Proof.
  induction fuel as [|fuel IH]; intros st1 st2 ret n st1' Hr; cbn [es_drain]; [discriminate|].
  rewrite (rel_buf _ _ Hr).
  destruct (1048576 <? Z.of_nat (List.length (es_buf st1)))%Z.
  - destruct (es_block c s1 st1 false) as [w|e sa] eqn:Eb; [discriminate|].
    destruct e as [e|]; [discriminate|].
    destruct (block_sim _ _ _ _ Hr Eb) as (sa2 & Eb2 & Hr2). rewrite Eb2.
    apply IH. apply rel_set_err. exact Hr2.
  - intros H. injection H as <- <-. exists st2. split; [reflexivity|exact Hr].
Qed.

Lemma write_sim (st1 st2 : es_state) (p : bytes) (n : Z) (st1' : es_state) :
  rel R st1 st2 -> es_write c s1 st1 p = WRet n None st1' ->
  exists st2', es_write c s2 st2 p = WRet n None st2' /\ rel R st1' st2'.
Proof.
  intros Hr. unfold es_write.
  assert (He : es_err st2 = es_err st1) by (destruct Hr as [_ ->]; reflexivity).
  rewrite He, (rel_buf _ _ Hr). destruct (es_err st1); [discriminate|].
  apply drain_sim. apply rel_set_buf. exact Hr.
Qed.

Lemma close_sim (st1 st2 : es_state) (st1' : es_state) :
  rel R st1 st2 -> es_close c s1 st1 = CloseRet None st1' ->
  exists st2', es_close c s2 st2 = CloseRet None st2' /\ rel R st1' st2'.
Proof.
  intros Hr. unfold es_close, es_close_v2, es_close_v1_tail.
  assert (Hv : es_v st2 = es_v st1) by (destruct Hr as [_ ->]; reflexivity).
  rewrite Hv, (rel_buf _ _ Hr).
  destruct (version_eqb (es_v st1) v1).
  - destruct (0 <? Z.of_nat (List.length (es_buf st1)))%Z eqn:E0.
    + destruct (es_block c s1 st1 false) as [w|e sa] eqn:Eb; [discriminate|].
      destruct e as [e|]; [discriminate|].
      destruct (block_sim _ _ _ _ Hr Eb) as (sa2 & Eb2 & Hr2). rewrite Eb2, (rel_buf _ _ Hr2).
      destruct (0 <? Z.of_nat (List.length (es_buf sa)))%Z; [discriminate|].
      destruct (es_block c s1 sa true) as [w|e sb] eqn:Eb3; [discriminate|].
      intros H. injection H as -> ->.
      destruct (block_sim _ _ _ _ Hr2 Eb3) as (sb2 & Eb4 & Hr4). rewrite Eb4. exists sb2. split; [reflexivity|exact Hr4].
    + cbv beta iota. rewrite (rel_buf _ _ Hr), E0. destruct (es_block c s1 st1 true) as [w|e sb] eqn:Eb3; [discriminate|].
      intros H. injection H as -> ->.
      destruct (block_sim _ _ _ _ Hr Eb3) as (sb2 & Eb4 & Hr4). rewrite Eb4. exists sb2. split; [reflexivity|exact Hr4].
  - destruct (version_eqb (es_v st1) v2); [|discriminate].
    destruct (es_block c s1 st1 true) as [w|e sa] eqn:Eb; [discriminate|].
    destruct e as [e|]; [discriminate|].
    destruct (block_sim _ _ _ _ Hr Eb) as (sa2 & Eb2 & Hr2). rewrite Eb2, (rel_buf _ _ Hr2).
    destruct (0 <? Z.of_nat (List.length (es_buf sa)))%Z; [discriminate|].
    intros H. injection H as <-. exists sa2. split; [reflexivity|exact Hr2].
Qed.

Lemma init_sim (st1 st2 : es_state) (v : version) (sender : option bytes) (rcpts : list rcpt) (ra rb rc : rng)
      (st1' : es_state) (ra' rb' rc' : rng) :
  rel R st1 st2 -> es_init c s1 st1 v sender rcpts ra rb rc = IRet None st1' ra' rb' rc' ->
  exists st2', es_init c s2 st2 v sender rcpts ra rb rc = IRet None st2' ra' rb' rc' /\ rel R st1' st2'.
Proof.
  intros [HR Heq]. destruct st1 as [v0 w1 pk buf hh mks n err]. rewrite Heq. clear Heq.
  generalize dependent (es_enc st2). intros w2 HR. clear st2.
  unfold es_init, set_enc. cbn [es_v es_enc es_pk es_buf es_hh es_mks es_n es_err] in *.
  destruct (negb (known_version v)); [discriminate|].
  destruct (check_rcv_err rcpts); [discriminate|].
  destruct (2147483647 <? Z.of_nat (List.length rcpts))%Z; [discriminate|].
  destruct (shuffle rcpts ra) as [[rs ra1]|]; [|discriminate].
  destruct (read_full 32 rb) as [[eph rb1]|]; [|discriminate].
  destruct (read_full 32 rc) as [[pkey rc1]|]; [|discriminate].
  cbv zeta.
  match goal with |- context [s1 w1 ?p] => pose proof (Hsim w1 w2 p HR) as H; destruct (s1 w1 p) as [w1' e1]; destruct (s2 w2 p) as [w2' e2] end.
  cbn [fst snd] in *. destruct e1 as [e1|]; [discriminate|].
  destruct (H eq_refl) as [-> HR']. intros Hb. injection Hb as <- <- <- <-.
  eexists. split; [reflexivity|]. split; [exact HR'|reflexivity].
Qed.
End Sim.

(* ---------- the session ---------- *)
(* one call on the receiver object *)
Definition call (s : step) (st : es_state) (o : op) : outc * es_state :=
  match o with
  | OpWrite p =>
    match es_write c s st p with WStuck w => (Halt w, st) | WRet _ e st' => (Ret e, st') end
  | OpClose =>
    match es_close c s st with
    | CloseStuck w => (Halt w, st) | ClosePanic => (Halt "panic"%string, st) | CloseRet e st' => (Ret e, st')
    end
  end.

(* newEncryptStream (init on the fresh object; on an error no stream is returned, so no call can follow),
   then the calls: the error of init first, then one entry per call *)
Definition session (s : step) (st0 : es_state) (v : version) (sender : option bytes) (rcpts : list rcpt)
           (ra rb rc : rng) (ops : list op) : list outc * es_state :=
  match es_init c s st0 v sender rcpts ra rb rc with
  | IStuck w => ([Halt w], st0)
  | IRet (Some e) st1 _ _ _ => ([Ret (Some e)], st1)
  | IRet None st1 _ _ _ => let (r, st2) := run (call s) st1 ops in (Ret None :: r, st2)
  end.

(* the object newEncryptStream builds before init: version and encoder set, everything else zero *)
Definition fresh (v : version) (w : gval) : es_state := mkEs v w (zeros 32) [] (zeros 64) [] 0 None.

Lemma call_sim (s1 s2 : step) (R : gval -> gval -> Prop) : step_sim R s1 s2 ->
  forall st1 st2 o st1', rel R st1 st2 -> call s1 st1 o = (Ret None, st1') ->
  exists st2', call s2 st2 o = (Ret None, st2') /\ rel R st1' st2'.
Proof.
  intros Hsim st1 st2 o st1' Hr. destruct o as [p|]; cbn [call].
  - destruct (es_write c s1 st1 p) as [w|n e sa] eqn:Ew; [discriminate|].
    intros H. injection H as -> ->.
    destruct (write_sim s1 s2 R Hsim _ _ _ _ _ Hr Ew) as (sa2 & Ew2 & Hr2). rewrite Ew2.
    exists sa2. split; [reflexivity|exact Hr2].
  - destruct (es_close c s1 st1) as [w| |e sa] eqn:Ec; [discriminate|discriminate|].
    intros H. injection H as -> ->.
    destruct (close_sim s1 s2 R Hsim _ _ _ Hr Ec) as (sa2 & Ec2 & Hr2). rewrite Ec2.
    exists sa2. split; [reflexivity|exact Hr2].
Qed.

Lemma session_sim (s1 s2 : step) (R : gval -> gval -> Prop) : step_sim R s1 s2 ->
  forall st1 st2 v sender rcpts ra rb rc ops outs st1',
  rel R st1 st2 -> session s1 st1 v sender rcpts ra rb rc ops = (outs, st1') -> all_nil outs ->
  exists st2', session s2 st2 v sender rcpts ra rb rc ops = (outs, st2') /\ rel R st1' st2'.
Proof.
  intros Hsim st1 st2 v sender rcpts ra rb rc ops outs st1' Hr. unfold session.
  destruct (es_init c s1 st1 v sender rcpts ra rb rc) as [w|e sa ra' rb' rc'] eqn:Ei.
  - intros H Hn. injection H as <- <-. apply all_nil_cons in Hn. destruct Hn as [Hn _]. discriminate Hn.
  - destruct e as [e|].
    + intros H Hn. injection H as <- <-. apply all_nil_cons in Hn. destruct Hn as [Hn _]. discriminate Hn.
    + destruct (init_sim s1 s2 R Hsim _ _ _ _ _ _ _ _ _ _ _ _ Hr Ei) as (sa2 & Ei2 & Hr2). rewrite Ei2.
      destruct (run (call s1) sa ops) as [r sb] eqn:Er. intros H Hn. injection H as <- <-.
      apply all_nil_cons in Hn. destruct Hn as [_ Hn].
      destruct (run_sim _ _ (call s1) (call s2) (rel R) (call_sim s1 s2 R Hsim) ops sa sa2 r sb Hr2 Er Hn) as (sb2 & Er2 & Hr3).
      rewrite Er2. exists sb2. split; [reflexivity|exact Hr3].
Qed.

(* (TARGET) NO SILENT LOSS, any sequence of calls *)
Theorem es_no_silent_loss (written : gval -> bytes) (s : step) (w0 : gval) (v v' : version) (sender : option bytes)
        (rcpts : list rcpt) (ra rb rc : rng) (ops : list op) (outs : list outc) (st' : es_state) :
  honest written s ->
  session s (fresh v' w0) v sender rcpts ra rb rc ops = (outs, st') ->
  all_nil outs ->
  session mem_enc (fresh v' (VBytes (written w0))) v sender rcpts ra rb rc ops
  = (outs, set_enc st' (VBytes (written (es_enc st')))).
Proof.
  intros Hh Hs Hn.
  destruct (session_sim s mem_enc (mem_of written) (mem_sim written s Hh) (fresh v' w0) (fresh v' (VBytes (written w0)))
              v sender rcpts ra rb rc ops outs st' ltac:(split; reflexivity) Hs Hn) as (st2 & Hs2 & [HR Heq]).
  rewrite Hs2. f_equal. rewrite Heq. f_equal. exact HR.
Qed.


(* Write1; ...; Writen; Close on a fresh stream over a fresh writer: the bytes the writer took are the complete
   message, i.e. what the same calls leave in the in-memory writer *)
(* (TARGET) *)
Corollary es_no_silent_loss_pieces (written : gval -> bytes) (s : step) (w0 : gval) (v : version) (sender : option bytes)
        (rcpts : list rcpt) (ra rb rc : rng) (pieces : list bytes) (outs : list outc) (st' : es_state) :
  honest written s -> written w0 = [] ->
  session s (fresh v w0) v sender rcpts ra rb rc (session_ops pieces) = (outs, st') ->
  all_nil outs ->
  exists stm, session mem_enc (fresh v (VBytes [])) v sender rcpts ra rb rc (session_ops pieces) = (outs, stm) /\
              es_enc stm = VBytes (written (es_enc st')).
Proof.
  intros Hh Hw Hs Hn. pose proof (es_no_silent_loss written s w0 v v sender rcpts ra rb rc _ outs st' Hh Hs Hn) as H.
  rewrite Hw in H. eexists. split; [exact H|reflexivity].
Qed.

(* ---------- an error of the step is returned by the call during which it happens ---------- *)
Lemma rel_instr (st : es_state) (o : gval) : es_enc st = instr o -> rel clean_of st (set_enc st o).
Proof. intros H. split; [exact H|reflexivity]. Qed.
Lemma rel_clean_flag (st st2 : es_state) : rel clean_of st st2 -> saw_error (es_enc st) = false.
Proof. intros [H _]. rewrite H. reflexivity. Qed.

(* (TARGET) *)
Theorem es_write_reports (s : step) (st : es_state) (o : gval) (p : bytes) (n : Z) (e : gerr) (st' : es_state) :
  es_enc st = instr o -> es_write c (logged s) st p = WRet n e st' -> saw_error (es_enc st') = true -> e <> None.
Proof.
  intros He Hw Hs ->.
  destruct (write_sim (logged s) s clean_of (logged_sim s) _ _ _ _ _ (rel_instr st o He) Hw) as (st2 & _ & Hr).
  rewrite (rel_clean_flag _ _ Hr) in Hs. discriminate Hs.
Qed.
(* (TARGET) *)
Theorem es_close_reports (s : step) (st : es_state) (o : gval) (e : gerr) (st' : es_state) :
  es_enc st = instr o -> es_close c (logged s) st = CloseRet e st' -> saw_error (es_enc st') = true -> e <> None.
Proof.
  intros He Hw Hs ->.
  destruct (close_sim (logged s) s clean_of (logged_sim s) _ _ _ (rel_instr st o He) Hw) as (st2 & _ & Hr).
  rewrite (rel_clean_flag _ _ Hr) in Hs. discriminate Hs.
Qed.
(* (TARGET) *)
Theorem es_init_reports (s : step) (st : es_state) (o : gval) v sender rcpts ra rb rc (e : gerr) (st' : es_state) ra' rb' rc' :
  es_enc st = instr o -> es_init c (logged s) st v sender rcpts ra rb rc = IRet e st' ra' rb' rc' ->
  saw_error (es_enc st') = true -> e <> None.
Proof.
  intros He Hw Hs ->.
  destruct (init_sim (logged s) s clean_of (logged_sim s) _ _ _ _ _ _ _ _ _ _ _ _ (rel_instr st o He) Hw) as (st2 & _ & Hr).
  rewrite (rel_clean_flag _ _ Hr) in Hs. discriminate Hs.
Qed.
(* and a call on the instrumented step that returns nil is, step for step, the call on the step itself *)
Lemma es_write_logged_ok (s : step) (st : es_state) (o : gval) (p : bytes) (n : Z) (st' : es_state) :
  es_enc st = instr o -> es_write c (logged s) st p = WRet n None st' ->
  exists o', es_enc st' = instr o' /\ es_write c s (set_enc st o) p = WRet n None (set_enc st' o').
Proof.
  intros He Hw.
  destruct (write_sim (logged s) s clean_of (logged_sim s) _ _ _ _ _ (rel_instr st o He) Hw) as (st2 & Hw2 & [HR Heq]).
  exists (es_enc st2). split; [exact HR|]. rewrite Hw2, Heq at 1. reflexivity.
Qed.

(* ---------- full simulation: related steps with EQUAL errors give equal results at every call ---------- *)
Section Bisim.
Variables s1 s2 : step.
Variable R : gval -> gval -> Prop.
Hypothesis Hbis : step_bisim R s1 s2.

Definition brel (r1 r2 : bres) : Prop :=
  match r1, r2 with
  | BStuck w1, BStuck w2 => w1 = w2
  | BRet e1 a1, BRet e2 a2 => e1 = e2 /\ rel R a1 a2
  | _, _ => False
  end.
Definition wrel (r1 r2 : wres) : Prop :=
  match r1, r2 with
  | WStuck w1, WStuck w2 => w1 = w2
  | WRet n1 e1 a1, WRet n2 e2 a2 => n1 = n2 /\ e1 = e2 /\ rel R a1 a2
  | _, _ => False
  end.
Definition crel (r1 r2 : cres) : Prop :=
  match r1, r2 with
  | CloseStuck w1, CloseStuck w2 => w1 = w2
  | ClosePanic, ClosePanic => True
  | CloseRet e1 a1, CloseRet e2 a2 => e1 = e2 /\ rel R a1 a2
  | _, _ => False
  end.

Lemma block_from_bisim (st1 st2 : es_state) (f : bool) (pt rest : bytes) :
  rel R st1 st2 -> brel (es_block_from c s1 st1 f pt rest) (es_block_from c s2 st2 f pt rest).
Proof.
  intros [HR Heq]. destruct st1 as [v w1 pk buf hh mks n err]. rewrite Heq. clear Heq.
  generalize dependent (es_enc st2). intros w2 HR. clear st2.
  unfold es_block_from, set_enc, set_buf, set_n.
  cbn [es_v es_enc es_pk es_buf es_hh es_mks es_n es_err] in *.
  destruct (negb (read_ok v f 1048576 (Z.of_nat (List.length pt)) (Z.of_nat (List.length rest)))); [reflexivity|].
  destruct (negb (block_number_ok n)); [split; [reflexivity|split; [exact HR|reflexivity]]|].
  destruct (negb (enc_chunk_ok v (sb_seal c pk (nonce_chunk_secretbox n) pt) 16 n f)); [reflexivity|].
  destruct (payload_hash c v hh (nonce_chunk_secretbox n) (sb_seal c pk (nonce_chunk_secretbox n) pt) f) as [ph|]; [|reflexivity].
  match goal with |- context [s1 w1 ?p] => destruct (Hbis w1 w2 p HR) as [H1 H2]; destruct (s1 w1 p) as [w1' e1]; destruct (s2 w2 p) as [w2' e2] end.
  cbn [fst snd] in *. subst e2. destruct e1 as [e1|]; (split; [reflexivity|split; [exact H2|reflexivity]]).
Qed.
Lemma block_bisim (st1 st2 : es_state) (f : bool) :
  rel R st1 st2 -> brel (es_block c s1 st1 f) (es_block c s2 st2 f).
Proof. intros Hr. unfold es_block. rewrite (rel_buf R _ _ Hr). apply block_from_bisim. exact Hr. Qed.

Lemma drain_bisim (fuel : nat) : forall (st1 st2 : es_state) (ret : Z),
  rel R st1 st2 -> wrel (es_drain c s1 fuel st1 ret) (es_drain c s2 fuel st2 ret).
Proof.
  induction fuel as [|fuel IH]; intros st1 st2 ret Hr; cbn [es_drain]; [reflexivity|].
  rewrite (rel_buf R _ _ Hr).
  destruct (1048576 <? Z.of_nat (List.length (es_buf st1)))%Z; [|split; [reflexivity|split; [reflexivity|exact Hr]]].
  pose proof (block_bisim _ _ false Hr) as Hb.
  destruct (es_block c s1 st1 false) as [w|e sa]; destruct (es_block c s2 st2 false) as [w'|e' sa2]; cbn [brel] in Hb; try contradiction.
  - reflexivity.
  - destruct Hb as [<- Hr2]. destruct e as [e|].
    + split; [reflexivity|]. split; [reflexivity|]. apply rel_set_err. exact Hr2.
    + apply IH. apply rel_set_err. exact Hr2.
Qed.
Lemma write_bisim (st1 st2 : es_state) (p : bytes) :
  rel R st1 st2 -> wrel (es_write c s1 st1 p) (es_write c s2 st2 p).
Proof.
  intros Hr. unfold es_write.
  assert (He : es_err st2 = es_err st1) by (destruct Hr as [_ ->]; reflexivity).
  rewrite He, (rel_buf R _ _ Hr). destruct (es_err st1); [split; [reflexivity|split; [reflexivity|exact Hr]]|].
  apply drain_bisim. apply rel_set_buf. exact Hr.
Qed.
Lemma close_bisim (st1 st2 : es_state) :
  rel R st1 st2 -> crel (es_close c s1 st1) (es_close c s2 st2).
Proof.
  intros Hr. unfold es_close, es_close_v2, es_close_v1_tail.
  assert (Hv : es_v st2 = es_v st1) by (destruct Hr as [_ ->]; reflexivity).
  rewrite Hv, (rel_buf R _ _ Hr).
  assert (Hfin : forall a1 a2, rel R a1 a2 ->
            crel (if (0 <? Z.of_nat (List.length (es_buf a1)))%Z then ClosePanic
                  else match es_block c s1 a1 true with BStuck _ => CloseStuck "call" | BRet e st3 => CloseRet e st3 end)
                 (if (0 <? Z.of_nat (List.length (es_buf a2)))%Z then ClosePanic
                  else match es_block c s2 a2 true with BStuck _ => CloseStuck "call" | BRet e st3 => CloseRet e st3 end)).
  { intros a1 a2 Ha. rewrite (rel_buf R _ _ Ha). destruct (0 <? Z.of_nat (List.length (es_buf a1)))%Z; [exact I|].
    pose proof (block_bisim _ _ true Ha) as Hb.
    destruct (es_block c s1 a1 true) as [w|e sa]; destruct (es_block c s2 a2 true) as [w'|e' sa2]; cbn [brel] in Hb; try contradiction.
    - reflexivity.
    - exact Hb. }
  destruct (version_eqb (es_v st1) v1).
  - destruct (0 <? Z.of_nat (List.length (es_buf st1)))%Z eqn:E0.
    + pose proof (block_bisim _ _ false Hr) as Hb.
      destruct (es_block c s1 st1 false) as [w|e sa]; destruct (es_block c s2 st2 false) as [w'|e' sa2]; cbn [brel] in Hb; try contradiction.
      * reflexivity.
      * destruct Hb as [<- Hr2]. destruct e as [e|]; [split; [reflexivity|exact Hr2]|]. apply Hfin. exact Hr2.
    + apply Hfin. exact Hr.
  - destruct (version_eqb (es_v st1) v2); [|exact I].
    pose proof (block_bisim _ _ true Hr) as Hb.
    destruct (es_block c s1 st1 true) as [w|e sa]; destruct (es_block c s2 st2 true) as [w'|e' sa2]; cbn [brel] in Hb; try contradiction.
    + reflexivity.
    + destruct Hb as [<- Hr2]. destruct e as [e|]; [split; [reflexivity|exact Hr2]|].
      rewrite (rel_buf R _ _ Hr2). destruct (0 <? Z.of_nat (List.length (es_buf sa)))%Z; [exact I|split; [reflexivity|exact Hr2]].
Qed.

Lemma call_bisim (st1 st2 : es_state) (o : op) : rel R st1 st2 ->
  fst (call s1 st1 o) = fst (call s2 st2 o) /\ rel R (snd (call s1 st1 o)) (snd (call s2 st2 o)).
Proof.
  intros Hr. destruct o as [p|]; cbn [call].
  - pose proof (write_bisim _ _ p Hr) as Hw.
    destruct (es_write c s1 st1 p) as [w|n e sa]; destruct (es_write c s2 st2 p) as [w'|n' e' sa2]; cbn [wrel] in Hw; try contradiction.
    + subst w'. split; [reflexivity|exact Hr].
    + destruct Hw as (_ & <- & Hr2). split; [reflexivity|exact Hr2].
  - pose proof (close_bisim _ _ Hr) as Hc.
    destruct (es_close c s1 st1) as [w| |e sa]; destruct (es_close c s2 st2) as [w'| |e' sa2]; cbn [crel] in Hc; try contradiction.
    + subst w'. split; [reflexivity|exact Hr].
    + split; [reflexivity|exact Hr].
    + destruct Hc as [<- Hr2]. split; [reflexivity|exact Hr2].
Qed.
End Bisim.

(* (TARGET) the instrumentation is transparent: every call of a run on [logged s] returns what it returns on s, and the
   objects differ only by the flag on the encoder *)
Theorem es_logged_transparent (s : step) (st : es_state) (o : gval) (b : bool) (ops : list op) :
  es_enc st = VList [o; VBool b] ->
  fst (run (call (logged s)) st ops) = fst (run (call s) (set_enc st o) ops) /\
  rel under_flag (snd (run (call (logged s)) st ops)) (snd (run (call s) (set_enc st o) ops)).
Proof.
  intros He.
  apply (run_bisim _ _ (call (logged s)) (call s) (rel under_flag) (call_bisim (logged s) s under_flag (logged_bisim s))).
  split; [exists b; exact He|reflexivity].
Qed.

(* ---------- the sticky error of Write; Close does not look at it ---------- *)
(* (TARGET) a block whose packet the step refuses (or that overflows the counter) is gone from the buffer, and
   numBlocks - the nonce - is not advanced *)
Lemma es_block_from_failed (s : step) (st : es_state) (f : bool) (pt rest : bytes) (e : gerr) (st' : es_state) :
  es_block_from c s st f pt rest = BRet e st' -> e <> None ->
  es_buf st' = rest /\ es_n st' = es_n st.
Proof.
  destruct st as [v w pk buf hh mks n err]. unfold es_block_from, set_enc, set_buf, set_n.
  cbn [es_v es_enc es_pk es_buf es_hh es_mks es_n es_err].
  destruct (negb (read_ok v f 1048576 (Z.of_nat (List.length pt)) (Z.of_nat (List.length rest)))); [discriminate|].
  destruct (negb (block_number_ok n)); [intros H _; injection H as _ <-; split; reflexivity|].
  destruct (negb (enc_chunk_ok v (sb_seal c pk (nonce_chunk_secretbox n) pt) 16 n f)); [discriminate|].
  destruct (payload_hash c v hh (nonce_chunk_secretbox n) (sb_seal c pk (nonce_chunk_secretbox n) pt) f) as [ph|]; [|discriminate].
  match goal with |- context [s w ?p] => destruct (s w p) as [w' [e1|]] end; cbn [fst snd].
  - intros H _. injection H as _ <-. split; reflexivity.
  - intros H Hne. injection H as <- _. contradiction.
Qed.
Lemma es_write_sticky (s : step) (st : es_state) (p : bytes) (e : String.string * list gval) :
  es_err st = Some e -> es_write c s st p = WRet 0 (Some e) st.
Proof. intros H. unfold es_write. rewrite H. reflexivity. Qed.

Lemma es_drain_stores (s : step) (fuel : nat) : forall (st : es_state) (ret n : Z) e (st' : es_state),
  es_drain c s fuel st ret = WRet n (Some e) st' -> es_err st' = Some e.
Proof.
  induction fuel as [|fuel IH]; intros st ret n e st'; cbn [es_drain]; [discriminate|].
  destruct (1048576 <? Z.of_nat (List.length (es_buf st)))%Z; [|discriminate].
  destruct (es_block c s st false) as [w|e0 sa]; [discriminate|].
  destruct e0 as [e0|].
  - intros H. injection H as _ <- <-. reflexivity.
  - apply IH.
Qed.
Lemma es_write_stores (s : step) (st : es_state) (p : bytes) (n : Z) e (st' : es_state) :
  es_write c s st p = WRet n (Some e) st' -> es_err st' = Some e.
Proof.
  unfold es_write. destruct (es_err st) as [e0|] eqn:E.
  - intros H. injection H as _ <- <-. exact E.
  - apply es_drain_stores.
Qed.

Definition bmap (f : es_state -> es_state) (r : bres) : bres :=
  match r with BRet e st => BRet e (f st) | BStuck w => BStuck w end.
Definition cmap (f : es_state -> es_state) (r : cres) : cres :=
  match r with CloseRet e st => CloseRet e (f st) | CloseStuck w => CloseStuck w | ClosePanic => ClosePanic end.

Lemma es_block_from_ignores_err (s : step) (st : es_state) (f : bool) (e : gerr) (pt rest : bytes) :
  es_block_from c s (set_err st e) f pt rest = bmap (fun st' => set_err st' e) (es_block_from c s st f pt rest).
Proof.
  destruct st as [v w pk buf hh mks n err]. unfold es_block_from, set_err, set_buf, set_enc, set_n.
  cbn [es_v es_enc es_pk es_buf es_hh es_mks es_n es_err].
  destruct (negb (read_ok v f 1048576 (Z.of_nat (List.length pt)) (Z.of_nat (List.length rest)))); [reflexivity|].
  destruct (negb (block_number_ok n)); [reflexivity|].
  destruct (negb (enc_chunk_ok v (sb_seal c pk (nonce_chunk_secretbox n) pt) 16 n f)); [reflexivity|].
  destruct (payload_hash c v hh (nonce_chunk_secretbox n) (sb_seal c pk (nonce_chunk_secretbox n) pt) f) as [ph|]; [|reflexivity].
  match goal with |- context [s w ?p] => destruct (s w p) as [w' [e1|]] end; reflexivity.
Qed.
Lemma es_block_ignores_err (s : step) (st : es_state) (f : bool) (e : gerr) :
  es_block c s (set_err st e) f = bmap (fun st' => set_err st' e) (es_block c s st f).
Proof. unfold es_block. change (es_buf (set_err st e)) with (es_buf st). apply es_block_from_ignores_err. Qed.

(* (TARGET) Close never reads es.err: on an object whose err field is set it does exactly what it does on the
   same object with err = nil (and leaves err as it was) *)
Theorem es_close_ignores_err (s : step) (st : es_state) (e : gerr) :
  es_close c s (set_err st e) = cmap (fun st' => set_err st' e) (es_close c s st).
Proof.
  unfold es_close, es_close_v2, es_close_v1_tail.
  change (es_v (set_err st e)) with (es_v st). change (es_buf (set_err st e)) with (es_buf st).
  rewrite !es_block_ignores_err.
  destruct (version_eqb (es_v st) v1).
  - destruct (0 <? Z.of_nat (List.length (es_buf st)))%Z.
    + destruct (es_block c s st false) as [w|[e0|] sa]; cbn [bmap cmap]; try reflexivity.
      change (es_buf (set_err sa e)) with (es_buf sa). rewrite es_block_ignores_err.
      destruct (0 <? Z.of_nat (List.length (es_buf sa)))%Z; [reflexivity|].
      destruct (es_block c s sa true) as [w|e1 sb]; reflexivity.
    + cbn [bmap cmap]. change (es_buf (set_err st e)) with (es_buf st). rewrite es_block_ignores_err.
      destruct (0 <? Z.of_nat (List.length (es_buf st)))%Z; [reflexivity|].
      destruct (es_block c s st true) as [w|e1 sb]; reflexivity.
  - destruct (version_eqb (es_v st) v2); [|reflexivity].
    destruct (es_block c s st true) as [w|[e0|] sa]; cbn [bmap cmap]; try reflexivity.
    change (es_buf (set_err sa e)) with (es_buf sa).
    destruct (0 <? Z.of_nat (List.length (es_buf sa)))%Z; reflexivity.
Qed.

Lemma es_close_keeps_err (s : step) (st : es_state) (e : gerr) (st' : es_state) :
  es_close c s st = CloseRet e st' -> es_err st' = es_err st.
Proof.
  assert (Hst : st = set_err (set_err st None) (es_err st)) by (destruct st; reflexivity).
  rewrite Hst at 1. rewrite es_close_ignores_err.
  destruct (es_close c s (set_err st None)) as [w| |e1 sa]; cbn [cmap]; try discriminate.
  intros H. injection H as _ <-. reflexivity.
Qed.

(* (TARGET) STICKY: once es.err is set, every later Write returns that error and leaves the object (so the
   encoder and the writer behind it) untouched, whatever calls of Close come in between *)
Theorem es_sticky (s : step) (e : String.string * list gval) (ops : list op) : forall (st : es_state) outs st',
  es_err st = Some e -> run (call s) st ops = (outs, st') ->
  writes_return (Some e) ops outs /\ es_err st' = Some e.
Proof.
  induction ops as [|o t IH]; intros st outs st' He; cbn [run].
  - intros H. injection H as <- <-. split; [exact I|exact He].
  - destruct o as [p|]; cbn [call].
    + rewrite (es_write_sticky s st p e He).
      destruct (run (call s) st t) as [r sb] eqn:Er. intros H. injection H as <- <-.
      destruct (IH st r sb He Er) as [H1 H2]. split; [split; [reflexivity|exact H1]|exact H2].
    + destruct (es_close c s st) as [w| |e1 sa] eqn:Ec.
      * intros H. injection H as <- <-. split; [apply writes_return_nil|exact He].
      * intros H. injection H as <- <-. split; [apply writes_return_nil|exact He].
      * pose proof (es_close_keeps_err s st e1 sa Ec) as Hk. rewrite He in Hk.
        destruct (run (call s) sa t) as [r sb] eqn:Er. intros H. injection H as <- <-.
        destruct (IH sa r sb Hk Er) as [H1 H2]. split; [exact H1|exact H2].
Qed.
(* (TARGET) ... and es.err is set by the Write that returned the error *)
Theorem es_write_error_sticks (s : step) (st : es_state) (p : bytes) (n : Z) e (st1 : es_state) (ops : list op) outs st' :
  es_write c s st p = WRet n (Some e) st1 -> run (call s) st1 ops = (outs, st') ->
  writes_return (Some e) ops outs /\ (forall q, es_write c s st1 q = WRet 0 (Some e) st1).
Proof.
  intros Hw Hr. pose proof (es_write_stores s st p n e st1 Hw) as He.
  split; [exact (proj1 (es_sticky s e ops st1 outs st' He Hr))|].
  intros q. apply es_write_sticky. exact He.
Qed.


(* ---------- with a STICKY step (go-codec's Encoder), Close cannot succeed after an error ---------- *)
Section Sticky.
Variable s : step.
Variable broken : gval -> Prop.
Hypothesis Hst : sticky_step broken s.

(* states from which no packet can be emitted any more: the encoder is broken, or the packet counter is exhausted *)
Definition bad (st : es_state) : Prop := broken (es_enc st) \/ block_number_ok (es_n st) = false.
(* what init establishes and every call keeps: err is set only in such a state *)
Definition Inv (st : es_state) : Prop := es_err st = None \/ bad st.

Lemma block_from_bad (st : es_state) (f : bool) (pt rest : bytes) (e : gerr) (st' : es_state) :
  es_block_from c s st f pt rest = BRet e st' ->
  (e <> None -> bad st') /\ (bad st -> e <> None /\ bad st').
Proof.
  destruct Hst as [Hs1 Hs2].
  destruct st as [v w pk buf hh mks n err]. unfold bad, es_block_from, set_enc, set_buf, set_n.
  cbn [es_v es_enc es_pk es_buf es_hh es_mks es_n es_err].
  destruct (negb (read_ok v f 1048576 (Z.of_nat (List.length pt)) (Z.of_nat (List.length rest)))); [discriminate|].
  destruct (block_number_ok n) eqn:Hn; cbn [negb].
  2:{ intros H. injection H as <- <-. cbn [es_enc es_n]. split; [intros _; right; exact Hn|].
      intros _. split; [discriminate|right; exact Hn]. }
  destruct (negb (enc_chunk_ok v (sb_seal c pk (nonce_chunk_secretbox n) pt) 16 n f)); [discriminate|].
  destruct (payload_hash c v hh (nonce_chunk_secretbox n) (sb_seal c pk (nonce_chunk_secretbox n) pt) f) as [ph|]; [|discriminate].
  match goal with |- context [s w ?p] => pose proof (Hs1 w p) as H1; pose proof (Hs2 w p) as H2; destruct (s w p) as [w' [e1|]] end;
    cbn [fst snd] in *; intros H; injection H as <- <-; cbn [es_enc es_n].
  - assert (Hb : broken w') by (apply H1; discriminate).
    split; [intros _; left; exact Hb|]. intros _. split; [discriminate|left; exact Hb].
  - split; [intros Hc; contradiction|]. intros [Hb|Hb]; [|discriminate Hb].
    destruct (H2 Hb) as [Hc _]. contradiction.
Qed.
Lemma block_bad (st : es_state) (f : bool) (e : gerr) (st' : es_state) :
  es_block c s st f = BRet e st' -> (e <> None -> bad st') /\ (bad st -> e <> None /\ bad st').
Proof. unfold es_block. apply block_from_bad. Qed.

Lemma bad_set_err (st : es_state) (e : gerr) : bad (set_err st e) <-> bad st.
Proof. reflexivity. Qed.
Lemma bad_set_buf (st : es_state) (b : bytes) : bad (set_buf st b) <-> bad st.
Proof. reflexivity. Qed.

Lemma drain_bad (fuel : nat) : forall (st : es_state) (ret n : Z) (e : gerr) (st' : es_state),
  es_err st = None -> es_drain c s fuel st ret = WRet n e st' ->
  (bad st -> bad st') /\ (e <> None -> bad st') /\ (e = None -> es_err st' = None).
Proof.
  induction fuel as [|fuel IH]; intros st ret n e st' Herr; cbn [es_drain]; [discriminate|].
  destruct (1048576 <? Z.of_nat (List.length (es_buf st)))%Z.
  - destruct (es_block c s st false) as [w|e0 sa] eqn:Eb; [discriminate|].
    destruct (block_bad _ _ _ _ Eb) as [B1 B2].
    destruct e0 as [e0|].
    + intros H. injection H as _ <- <-. assert (Hb : bad sa) by (apply B1; discriminate).
      split; [intros _; exact Hb|]. split; [intros _; exact Hb|discriminate].
    + intros H. destruct (IH (set_err sa None) _ _ _ _ eq_refl H) as (I1 & I2 & I3).
      split; [intros Hb; destruct (B2 Hb) as [Hc _]; contradiction|]. split; [exact I2|exact I3].
  - intros H. injection H as _ <- <-. split; [auto|]. split; [intros Hc; contradiction|intros _; exact Herr].
Qed.

Lemma close_bad (st : es_state) (e : gerr) (st' : es_state) :
  es_close c s st = CloseRet e st' -> (e <> None -> bad st') /\ (bad st -> e <> None /\ bad st').
Proof.
  unfold es_close, es_close_v2, es_close_v1_tail.
  destruct (version_eqb (es_v st) v1).
  - destruct (0 <? Z.of_nat (List.length (es_buf st)))%Z.
    + destruct (es_block c s st false) as [w|e0 sa] eqn:Eb; [discriminate|].
      destruct (block_bad _ _ _ _ Eb) as [B1 B2].
      destruct e0 as [e0|].
      * intros H. injection H as <- <-. split; [exact B1|exact B2].
      * destruct (0 <? Z.of_nat (List.length (es_buf sa)))%Z; [discriminate|].
        destruct (es_block c s sa true) as [w|e1 sb] eqn:Eb2; [discriminate|].
        destruct (block_bad _ _ _ _ Eb2) as [C1 C2].
        intros H. injection H as <- <-. split; [exact C1|].
        intros Hb. destruct (B2 Hb) as [Hc _]. contradiction.
    + destruct (0 <? Z.of_nat (List.length (es_buf st)))%Z; [discriminate|].
      destruct (es_block c s st true) as [w|e1 sb] eqn:Eb2; [discriminate|].
      destruct (block_bad _ _ _ _ Eb2) as [C1 C2].
      intros H. injection H as <- <-. split; [exact C1|exact C2].
  - destruct (version_eqb (es_v st) v2); [|discriminate].
    destruct (es_block c s st true) as [w|e0 sa] eqn:Eb; [discriminate|].
    destruct (block_bad _ _ _ _ Eb) as [B1 B2].
    destruct e0 as [e0|].
    + intros H. injection H as <- <-. split; [exact B1|exact B2].
    + destruct (0 <? Z.of_nat (List.length (es_buf sa)))%Z; [discriminate|].
      intros H. injection H as <- <-. split; [exact B1|exact B2].
Qed.

Lemma call_bad (st : es_state) (o : op) (e : gerr) (st' : es_state) : Inv st -> call s st o = (Ret e, st') ->
  Inv st' /\ (bad st -> bad st') /\ (e <> None -> bad st') /\ (o = OpClose -> bad st -> e <> None).
Proof.
  intros Hi. destruct o as [p|]; cbn [call].
  - unfold es_write. destruct (es_err st) as [e0|] eqn:Ee.
    + intros H. injection H as <- <-. destruct Hi as [Hi|Hi]; [rewrite Ee in Hi; discriminate Hi|].
      split; [right; exact Hi|]. split; [auto|]. split; [intros _; exact Hi|discriminate].
    + destruct (es_drain c s 296 (set_buf st (es_buf st ++ p)) (Z.of_nat (List.length p))) as [w|n e1 sa] eqn:Ed; [discriminate|].
      intros H. injection H as <- <-.
      destruct (drain_bad 296 (set_buf st (es_buf st ++ p)) _ _ _ _ Ee Ed) as (D1 & D2 & D3).
      split; [destruct e1 as [e1|]; [right; apply D2; discriminate|left; apply D3; reflexivity]|].
      split; [exact D1|]. split; [exact D2|discriminate].
  - destruct (es_close c s st) as [w| |e1 sa] eqn:Ec; [discriminate|discriminate|].
    intros H. injection H as <- <-. destruct (close_bad _ _ _ Ec) as [C1 C2].
    pose proof (es_close_keeps_err s st e1 sa Ec) as Hk.
    split; [destruct Hi as [Hi|Hi]; [left; rewrite Hk; exact Hi|right; exact (proj2 (C2 Hi))]|].
    split; [intros Hb; exact (proj2 (C2 Hb))|]. split; [exact C1|]. intros _ Hb. exact (proj1 (C2 Hb)).
Qed.

(* (TARGET) with a sticky step: after a call that returned an error, no later Close returns nil *)
Theorem es_no_nil_close_after_error (st : es_state) (ops : list op) (outs : list outc) (st' : es_state) (i j : nat) e :
  Inv st -> run (call s) st ops = (outs, st') ->
  (i < j)%nat -> nth_error outs i = Some (Ret (Some e)) -> nth_error ops j = Some OpClose ->
  nth_error outs j <> Some (Ret None).
Proof.
  intros Hi Hr. exact (run_no_nil_close_after_error _ (call s) Inv bad call_bad ops st outs st' Hi Hr i j e).
Qed.

Lemma init_inv (st : es_state) v sender rcpts ra rb rc (e : gerr) (st1 : es_state) ra' rb' rc' :
  es_err st = None -> es_init c s st v sender rcpts ra rb rc = IRet e st1 ra' rb' rc' -> Inv st1.
Proof.
  intros He. unfold es_init, Inv.
  destruct (negb (known_version v)); [intros H; injection H as _ <- _ _ _; left; exact He|].
  destruct (check_rcv_err rcpts); [intros H; injection H as _ <- _ _ _; left; exact He|].
  destruct (2147483647 <? Z.of_nat (List.length rcpts))%Z; [discriminate|].
  destruct (shuffle rcpts ra) as [[rs ra1]|]; [|intros H; injection H as _ <- _ _ _; left; exact He].
  destruct (read_full 32 rb) as [[eph rb1]|]; [|intros H; injection H as _ <- _ _ _; left; exact He].
  destruct (read_full 32 rc) as [[pkey rc1]|]; [|intros H; injection H as _ <- _ _ _; left; exact He].
  cbv zeta. match goal with |- context [s ?w ?p] => destruct (s w p) as [w' [e1|]] end; cbn [fst snd];
    intros H; injection H as _ <- _ _ _; left; exact He.
Qed.
End Sticky.

(* (TARGET) with a sticky step: if init; Write p1; ..; Write pn; Close were all made and Close returned nil, every call
   returned nil *)
Theorem es_close_nil_all_nil (broken : gval -> Prop) (s : step) (st0 : es_state) (v : version)
        (sender : option bytes) (rcpts : list rcpt) (ra rb rc : rng) (pieces : list bytes) (outs : list outc) (st' : es_state) :
  sticky_step broken s -> es_err st0 = None ->
  session s st0 v sender rcpts ra rb rc (session_ops pieces) = (outs, st') ->
  List.length outs = S (S (List.length pieces)) -> last outs (Halt EmptyString) = Ret None ->
  all_nil outs.
Proof.
  intros Hst He0 Hs Hl Hlast.
  revert Hs. unfold session.
  destruct (es_init c s st0 v sender rcpts ra rb rc) as [w|e st1 ra' rb' rc'] eqn:Ei.
  - intros H. injection H as <- <-. discriminate Hl.
  - destruct e as [e|]; [intros H; injection H as <- <-; discriminate Hl|].
    destruct (run (call s) st1 (session_ops pieces)) as [r sb] eqn:Er. intros H. injection H as <- <-.
    cbn [List.length] in Hl. injection Hl as Hl.
    assert (Hlast' : last r (Halt EmptyString) = Ret None) by (destruct r; [discriminate Hl|exact Hlast]).
    constructor; [reflexivity|].
    unfold session_ops in Er.
    refine (run_last_close_nil _ (call s) (Inv broken) (bad broken) (call_bad s broken Hst) (map OpWrite pieces) st1 r sb _ Er _ Hlast').
    + exact (init_inv s broken st0 _ _ _ _ _ _ _ _ _ _ _ He0 Ei).
    + rewrite map_length. exact Hl.
Qed.

(* (TARGET) C14 AS WORDED, for a sticky honest step: if Write p1; ..; Write pn; Close were all made and Close
   returned nil, then every call returned nil and the writer took the complete message *)
Theorem es_close_nil_complete (written : gval -> bytes) (broken : gval -> Prop) (s : step) (w0 : gval) (v : version)
        (sender : option bytes) (rcpts : list rcpt) (ra rb rc : rng) (pieces : list bytes) (outs : list outc) (st' : es_state) :
  honest written s -> sticky_step broken s -> written w0 = [] ->
  session s (fresh v w0) v sender rcpts ra rb rc (session_ops pieces) = (outs, st') ->
  List.length outs = S (S (List.length pieces)) -> last outs (Halt EmptyString) = Ret None ->
  all_nil outs /\
  exists stm, session mem_enc (fresh v (VBytes [])) v sender rcpts ra rb rc (session_ops pieces) = (outs, stm) /\
              es_enc stm = VBytes (written (es_enc st')).
Proof.
  intros Hh Hst Hw Hs Hl Hlast.
  pose proof (es_close_nil_all_nil broken s (fresh v w0) v sender rcpts ra rb rc pieces outs st' Hst eq_refl Hs Hl Hlast) as Hn.
  split; [exact Hn|]. exact (es_no_silent_loss_pieces written s w0 v sender rcpts ra rb rc pieces outs st' Hh Hw Hs Hn).
Qed.


End S.

(* ---------- the statements on concrete writers (toy primitives of model/ToyCrypto.v; computed) ---------- *)
Definition ex_rcp : list rcpt := [(repeat x01 32, false)].
Definition ex_rnd : rng := repeat x07 200.
Definition ex_io : gerr := Some ("ErrIO"%string, []).
Definition ex_session (s : step) (w0 : gval) (ops : list op) : list outc * es_state :=
  session toy_crypto s (fresh v2 w0) v2 None ex_rcp ex_rnd ex_rnd ex_rnd ops.
Definition mem_bytes (st : es_state) : bytes := match es_enc st with VBytes o => o | _ => [] end.

(* a writer whose calls all succeed: every call returns nil and it holds the in-memory writer's bytes (the
   conclusion of es_no_silent_loss, evaluated) *)
Example ex_enc_complete :
  let r := ex_session (flaky 9 0) (flaky_obj [] 0) (session_ops [[x61; x62]; [x63]]) in
  let m := ex_session mem_enc (VBytes []) (session_ops [[x61; x62]; [x63]]) in
  fst r = [Ret None; Ret None; Ret None; Ret None] /\ fst m = fst r /\
  flaky_written (es_enc (snd r)) = mem_bytes (snd m) /\ List.length (mem_bytes (snd m)) = 244%nat.
Proof. vm_compute. repeat split; reflexivity. Qed.

(* the writer fails on the header: init returns the error (and no stream); on the only payload packet of a short
   message: the Writes only buffer and return nil, Close returns the error *)
Example ex_enc_fault_reported :
  fst (ex_session (flaky 0 3) (flaky_obj [] 0) (session_ops [[x61; x62]; [x63]])) = [Ret ex_io] /\
  fst (ex_session (flaky 1 3) (flaky_obj [] 0) (session_ops [[x61; x62]; [x63]])) = [Ret None; Ret None; Ret None; Ret ex_io].
Proof. vm_compute. split; reflexivity. Qed.

(* the instrumented step: the flag goes up in the call that returns the error *)
Example ex_enc_logged :
  let r := ex_session (logged (flaky 1 3)) (instr (flaky_obj [] 0)) (session_ops [[x61; x62]; [x63]]) in
  fst r = [Ret None; Ret None; Ret None; Ret ex_io] /\ saw_error (es_enc (snd r)) = true.
Proof. vm_compute. split; reflexivity. Qed.

(* the same calls with go-codec's sticky encoder between the stream and the failing step: Close fails too *)
Example ex_enc_close_after_failed_write_codec :
  let big := (repeat x00 1048576 ++ [x61])%list in
  fst (ex_session (codec (flaky 1 0)) (codec_obj (flaky_obj [] 0)) [OpWrite big; OpClose])
  = [Ret None; Ret ex_io; Ret (Some ("ErrEncoderBroken"%string, []))].
Proof. vm_compute. reflexivity. Qed.

(* FINDING (Close after a failed Write).  A message of 1 MiB + 1 byte, written in one Write.  The writer refuses the
   first payload packet (it takes nothing and reports an error) and works again afterwards.  Write returns the
   error and stores it in es.err; the block it had taken off the buffer is gone and numBlocks was not
   incremented.  Close does not look at es.err: it encrypts the ONE byte still buffered as the final block, with
   block number 0 again, and returns NIL.  The bytes the writer took are, byte for byte, the complete
   message the sender produces for the one-byte plaintext "a" (same header, same keys): a valid, authenticated
   saltpack message for a truncated plaintext, and Close reported success. *)
Example ex_enc_close_after_failed_write :
  let big := (repeat x00 1048576 ++ [x61])%list in
  let r := ex_session (flaky 1 0) (flaky_obj [] 0) [OpWrite big; OpClose] in
  let m := ex_session mem_enc (VBytes []) [OpWrite [x61]; OpClose] in
  fst r = [Ret None; Ret ex_io; Ret None] /\ es_err (snd r) = ex_io /\ es_n (snd r) = 1%N /\
  fst m = [Ret None; Ret None; Ret None] /\
  bytes_eqb (flaky_written (es_enc (snd r))) (mem_bytes (snd m)) = true.
Proof. vm_compute. repeat split; reflexivity. Qed.

End Enc.


(* ================= signAttachedStream (/repo/sign_stream.go; specification functions of GoAstProofs6a) ================= *)
Module SignA.
Import GoAstProofs6a.

Lemma mem_sim (written : gval -> bytes) (s : step) : honest written s -> step_sim (mem_of written) s mem_enc.
Proof.
  intros Hh o1 o2 pkt -> H. unfold mem_enc. cbn [fst snd]. split; [reflexivity|].
  unfold mem_of. destruct (s o1 pkt) as [o' e] eqn:E. cbn [fst snd] in *. subst e.
  rewrite (Hh _ _ _ E). reflexivity.
Qed.

Section S.
Variable c : crypto.
(* the number of turns the evaluator gives the loop of Write (297 for run_func2: go_signAttachedStream_Write_300) *)
Variable F : nat.

Definition rel (R : gval -> gval -> Prop) (st1 st2 : sas_state) : Prop :=
  R (sas_enc st1) (sas_enc st2) /\ st2 = set_enc st1 (sas_enc st2).

Section Sim.
Variables s1 s2 : step.
Variable R : gval -> gval -> Prop.
Hypothesis Hsim : step_sim R s1 s2.

Lemma block_from_sim (st1 st2 : sas_state) (f : bool) (ch rest : bytes) (st1' : sas_state) :
  rel R st1 st2 -> sas_block_from c s1 st1 f ch rest = BRet None st1' ->
  exists st2', sas_block_from c s2 st2 f ch rest = BRet None st2' /\ rel R st1' st2'.
Proof.
  intros [HR Heq]. destruct st1 as [v hh w1 sk buf n]. rewrite Heq. clear Heq.
  generalize dependent (sas_enc st2). intros w2 HR. clear st2.
  unfold sas_block_from, set_enc, set_buf, set_seq.
  cbn [sas_v sas_hh sas_enc sas_sk sas_buf sas_seq] in *.
  destruct (negb (read_ok v f 1048576 (Z.of_nat (List.length ch)) (Z.of_nat (List.length rest)))); [discriminate|].
  destruct (attached_sig_input c v hh ch n f) as [inp|]; [|discriminate].
  destruct (negb (chunk_ok v ch 0 n f)); [discriminate|].
  match goal with |- context [s1 w1 ?p] => pose proof (Hsim w1 w2 p HR) as H; destruct (s1 w1 p) as [w1' e1]; destruct (s2 w2 p) as [w2' e2] end.
  cbn [fst snd] in *. destruct e1 as [e1|]; [discriminate|].
  destruct (H eq_refl) as [-> HR']. intros Hb. injection Hb as <-.
  eexists. split; [reflexivity|]. split; [exact HR'|reflexivity].
Qed.

Lemma rel_buf (st1 st2 : sas_state) : rel R st1 st2 -> sas_buf st2 = sas_buf st1.
Proof. intros [_ ->]. reflexivity. Qed.

Lemma block_sim (st1 st2 : sas_state) (f : bool) (st1' : sas_state) :
  rel R st1 st2 -> sas_block c s1 st1 f = BRet None st1' ->
  exists st2', sas_block c s2 st2 f = BRet None st2' /\ rel R st1' st2'.
Proof.
  intros Hr. unfold sas_block. rewrite (rel_buf _ _ Hr). apply block_from_sim. exact Hr.
Qed.

Lemma rel_set_buf (st1 st2 : sas_state) (b : bytes) : rel R st1 st2 -> rel R (set_buf st1 b) (set_buf st2 b).
Proof. intros [HR ->]. split; [exact HR|reflexivity]. Qed.

Lemma drain_sim (fuel : nat) : forall (st1 st2 : sas_state) (ret n : Z) (st1' : sas_state),
  rel R st1 st2 -> sas_drain c s1 fuel st1 ret = WRet n None st1' ->
  exists st2', sas_drain c s2 fuel st2 ret = WRet n None st2' /\ rel R st1' st2'.
Proof.
  induction fuel as [|fuel IH]; intros st1 st2 ret n st1' Hr; cbn [sas_drain]; [discriminate|].
  rewrite (rel_buf _ _ Hr).
  destruct (1048576 <? Z.of_nat (List.length (sas_buf st1)))%Z.
  - destruct (sas_block c s1 st1 false) as [w|e sa] eqn:Eb; [discriminate|].
    destruct e as [e|]; [discriminate|].
    destruct (block_sim _ _ _ _ Hr Eb) as (sa2 & Eb2 & Hr2). rewrite Eb2.
    apply IH. exact Hr2.
  - intros H. injection H as <- <-. exists st2. split; [reflexivity|exact Hr].
Qed.

Lemma write_sim (st1 st2 : sas_state) (p : bytes) (n : Z) (st1' : sas_state) :
  rel R st1 st2 -> sas_write c s1 F st1 p = WRet n None st1' ->
  exists st2', sas_write c s2 F st2 p = WRet n None st2' /\ rel R st1' st2'.
Proof.
  intros Hr. unfold sas_write. rewrite (rel_buf _ _ Hr).
  apply drain_sim. apply rel_set_buf. exact Hr.
Qed.

Lemma close_sim (st1 st2 : sas_state) (st1' : sas_state) :
  rel R st1 st2 -> sas_close c s1 st1 = CloseRet None st1' ->
  exists st2', sas_close c s2 st2 = CloseRet None st2' /\ rel R st1' st2'.
Proof.
  intros Hr. unfold sas_close, sas_close_v1, sas_close_v2.
  assert (Hv : sas_v st2 = sas_v st1) by (destruct Hr as [_ ->]; reflexivity).
  rewrite Hv, (rel_buf _ _ Hr).
  destruct (version_eqb (sas_v st1) v1).
  - destruct (0 <? Z.of_nat (List.length (sas_buf st1)))%Z.
    + destruct (sas_block c s1 st1 false) as [w|e sa] eqn:Eb; [discriminate|].
      destruct e as [e|]; [discriminate|].
      destruct (block_sim _ _ _ _ Hr Eb) as (sa2 & Eb2 & Hr2). rewrite Eb2, (rel_buf _ _ Hr2).
      destruct (0 <? Z.of_nat (List.length (sas_buf sa)))%Z; [discriminate|].
      destruct (sas_block c s1 sa true) as [w|e sb] eqn:Eb3; [discriminate|].
      intros H. injection H as -> ->.
      destruct (block_sim _ _ _ _ Hr2 Eb3) as (sb2 & Eb4 & Hr4). rewrite Eb4. exists sb2. split; [reflexivity|exact Hr4].
    + destruct (sas_block c s1 st1 true) as [w|e sb] eqn:Eb3; [discriminate|].
      intros H. injection H as -> ->.
      destruct (block_sim _ _ _ _ Hr Eb3) as (sb2 & Eb4 & Hr4). rewrite Eb4. exists sb2. split; [reflexivity|exact Hr4].
  - destruct (version_eqb (sas_v st1) v2); [|discriminate].
    destruct (sas_block c s1 st1 true) as [w|e sa] eqn:Eb; [discriminate|].
    destruct e as [e|]; [discriminate|].
    destruct (block_sim _ _ _ _ Hr Eb) as (sa2 & Eb2 & Hr2). rewrite Eb2, (rel_buf _ _ Hr2).
    destruct (0 <? Z.of_nat (List.length (sas_buf sa)))%Z; [discriminate|].
    intros H. injection H as <-. exists sa2. split; [reflexivity|exact Hr2].
Qed.
End Sim.

(* newSignAttachedStream(version, w, signer), read back as the receiver object of the later calls *)
Definition new_state (s : step) (v : version) (w : gval) (signer : option bytes) (r : rng) : outc * option sas_state :=
  match sas_new c s v w signer r with
  | ORet [obj; VNil] => (Ret None, as_sas (sas_complete obj))
  | ORet [VNil; VErr n a] => (Ret (Some (n, a)), None)
  | _ => (Halt "new"%string, None)
  end.

Lemma new_sim (s1 s2 : step) (R : gval -> gval -> Prop) : step_sim R s1 s2 ->
  forall v w1 w2 signer r st1, R w1 w2 -> new_state s1 v w1 signer r = (Ret None, Some st1) ->
  exists st2, new_state s2 v w2 signer r = (Ret None, Some st2) /\ rel R st1 st2.
Proof.
  intros Hsim v w1 w2 signer r st1 HR. unfold new_state, sas_new.
  destruct (negb (known_version v)); [discriminate|].
  destruct signer as [sk|]; [|discriminate].
  destruct (read_full 16 r) as [[nonce r']|]; [|discriminate].
  cbv zeta.
  match goal with |- context [s1 w1 ?p] => pose proof (Hsim w1 w2 p HR) as H; destruct (s1 w1 p) as [w1' e1]; destruct (s2 w2 p) as [w2' e2] end.
  cbn [fst snd] in *. destruct e1 as [[n1 a1]|]; [discriminate|].
  destruct (H eq_refl) as [-> HR']. cbv beta iota.
  rewrite !sas_complete_new, !as_sas_g_sas. intros Hb. injection Hb as <-.
  eexists. split; [reflexivity|]. split; [exact HR'|reflexivity].
Qed.

(* ---------- the session ---------- *)
Definition call (s : step) (st : sas_state) (o : op) : outc * sas_state :=
  match o with
  | OpWrite p =>
    match sas_write c s F st p with WStuck w => (Halt w, st) | WRet _ e st' => (Ret e, st') end
  | OpClose =>
    match sas_close c s st with
    | CloseStuck w => (Halt w, st) | ClosePanic => (Halt "panic"%string, st) | CloseRet e st' => (Ret e, st')
    end
  end.

(* NewSignStream's constructor on the writer object w (its error first; on an error there is no stream), then
   the calls *)
Definition session (s : step) (v : version) (w : gval) (signer : option bytes) (r : rng) (ops : list op)
  : list outc * option sas_state :=
  match new_state s v w signer r with
  | (Ret None, Some st0) => let (rs, st) := run (call s) st0 ops in (Ret None :: rs, Some st)
  | (Ret None, None) => ([Halt "new"%string], None)
  | (o, _) => ([o], None)
  end.

Lemma call_sim (s1 s2 : step) (R : gval -> gval -> Prop) : step_sim R s1 s2 ->
  forall st1 st2 o st1', rel R st1 st2 -> call s1 st1 o = (Ret None, st1') ->
  exists st2', call s2 st2 o = (Ret None, st2') /\ rel R st1' st2'.
Proof.
  intros Hsim st1 st2 o st1' Hr. destruct o as [p|]; cbn [call].
  - destruct (sas_write c s1 F st1 p) as [w|n e sa] eqn:Ew; [discriminate|].
    intros H. injection H as -> ->.
    destruct (write_sim s1 s2 R Hsim _ _ _ _ _ Hr Ew) as (sa2 & Ew2 & Hr2). rewrite Ew2.
    exists sa2. split; [reflexivity|exact Hr2].
  - destruct (sas_close c s1 st1) as [w| |e sa] eqn:Ec; [discriminate|discriminate|].
    intros H. injection H as -> ->.
    destruct (close_sim s1 s2 R Hsim _ _ _ Hr Ec) as (sa2 & Ec2 & Hr2). rewrite Ec2.
    exists sa2. split; [reflexivity|exact Hr2].
Qed.

Lemma session_sim (s1 s2 : step) (R : gval -> gval -> Prop) : step_sim R s1 s2 ->
  forall v w1 w2 signer r ops outs st1',
  R w1 w2 -> session s1 v w1 signer r ops = (outs, st1') -> all_nil outs ->
  exists st1 st2, st1' = Some st1 /\ session s2 v w2 signer r ops = (outs, Some st2) /\ rel R st1 st2.
Proof.
  intros Hsim v w1 w2 signer r ops outs st1' HR. unfold session.
  destruct (new_state s1 v w1 signer r) as [o so] eqn:En.
  destruct o as [[e|]|w].
  - intros H Hn. exfalso. destruct so; injection H as <- <-; apply all_nil_cons in Hn; destruct Hn as [Hn _]; discriminate Hn.
  - destruct so as [sa|].
    + destruct (new_sim s1 s2 R Hsim v w1 w2 signer r sa HR En) as (sa2 & En2 & Hr2). rewrite En2.
      destruct (run (call s1) sa ops) as [rs sb] eqn:Er. intros H Hn. injection H as <- <-.
      apply all_nil_cons in Hn. destruct Hn as [_ Hn].
      destruct (run_sim _ _ (call s1) (call s2) (rel R) (call_sim s1 s2 R Hsim) ops sa sa2 rs sb Hr2 Er Hn) as (sb2 & Er2 & Hr3).
      rewrite Er2. exists sb, sb2. split; [reflexivity|]. split; [reflexivity|exact Hr3].
    + intros H Hn. exfalso. injection H as <- <-. apply all_nil_cons in Hn. destruct Hn as [Hn _]. discriminate Hn.
  - intros H Hn. exfalso. destruct so; injection H as <- <-; apply all_nil_cons in Hn; destruct Hn as [Hn _]; discriminate Hn.
Qed.

(* (TARGET) NO SILENT LOSS, any sequence of calls *)
Theorem sas_no_silent_loss (written : gval -> bytes) (s : step) (w0 : gval) (v : version) (signer : option bytes) (r : rng)
        (ops : list op) (outs : list outc) (st' : option sas_state) :
  honest written s ->
  session s v w0 signer r ops = (outs, st') ->
  all_nil outs ->
  exists st1, st' = Some st1 /\
    session mem_enc v (VBytes (written w0)) signer r ops = (outs, Some (set_enc st1 (VBytes (written (sas_enc st1))))).
Proof.
  intros Hh Hs Hn.
  destruct (session_sim s mem_enc (mem_of written) (mem_sim written s Hh) v w0 (VBytes (written w0)) signer r ops outs st'
              eq_refl Hs Hn) as (st1 & st2 & -> & Hs2 & [HR Heq]).
  exists st1. split; [reflexivity|]. rewrite Hs2. do 2 f_equal. rewrite Heq. f_equal. exact HR.
Qed.

(* (TARGET) Write1; ...; Writen; Close over a fresh writer *)
Corollary sas_no_silent_loss_pieces (written : gval -> bytes) (s : step) (w0 : gval) (v : version) (signer : option bytes) (r : rng)
        (pieces : list bytes) (outs : list outc) (st' : option sas_state) :
  honest written s -> written w0 = [] ->
  session s v w0 signer r (session_ops pieces) = (outs, st') ->
  all_nil outs ->
  exists st1 stm, st' = Some st1 /\ session mem_enc v (VBytes []) signer r (session_ops pieces) = (outs, Some stm) /\
                  sas_enc stm = VBytes (written (sas_enc st1)).
Proof.
  intros Hh Hw Hs Hn. destruct (sas_no_silent_loss written s w0 v signer r _ outs st' Hh Hs Hn) as (st1 & -> & H).
  rewrite Hw in H. exists st1. eexists. split; [reflexivity|]. split; [exact H|reflexivity].
Qed.

(* ---------- an error of the step is returned by the call during which it happens ---------- *)
Lemma rel_instr (st : sas_state) (o : gval) : sas_enc st = instr o -> rel clean_of st (set_enc st o).
Proof. intros H. split; [exact H|reflexivity]. Qed.
Lemma rel_clean_flag (st st2 : sas_state) : rel clean_of st st2 -> saw_error (sas_enc st) = false.
Proof. intros [H _]. rewrite H. reflexivity. Qed.

(* (TARGET) *)
Theorem sas_write_reports (s : step) (st : sas_state) (o : gval) (p : bytes) (n : Z) (e : gerr) (st' : sas_state) :
  sas_enc st = instr o -> sas_write c (logged s) F st p = WRet n e st' -> saw_error (sas_enc st') = true -> e <> None.
Proof.
  intros He Hw Hs ->.
  destruct (write_sim (logged s) s clean_of (logged_sim s) _ _ _ _ _ (rel_instr st o He) Hw) as (st2 & _ & Hr).
  rewrite (rel_clean_flag _ _ Hr) in Hs. discriminate Hs.
Qed.
(* (TARGET) *)
Theorem sas_close_reports (s : step) (st : sas_state) (o : gval) (e : gerr) (st' : sas_state) :
  sas_enc st = instr o -> sas_close c (logged s) st = CloseRet e st' -> saw_error (sas_enc st') = true -> e <> None.
Proof.
  intros He Hw Hs ->.
  destruct (close_sim (logged s) s clean_of (logged_sim s) _ _ _ (rel_instr st o He) Hw) as (st2 & _ & Hr).
  rewrite (rel_clean_flag _ _ Hr) in Hs. discriminate Hs.
Qed.
(* (TARGET) the constructor: if a stream object is returned, the step reported no error while the header was written *)
Theorem sas_new_reports (s : step) (v : version) (o : gval) (signer : option bytes) (r : rng) (st : sas_state) :
  new_state (logged s) v (instr o) signer r = (Ret None, Some st) -> saw_error (sas_enc st) = false.
Proof.
  intros Hn.
  destruct (new_sim (logged s) s clean_of (logged_sim s) v (instr o) o signer r st eq_refl Hn) as (st2 & _ & Hr).
  exact (rel_clean_flag _ _ Hr).
Qed.


(* ---------- full simulation: related steps with EQUAL errors give equal results at every call ---------- *)
Section Bisim.
Variables s1 s2 : step.
Variable R : gval -> gval -> Prop.
Hypothesis Hbis : step_bisim R s1 s2.

Definition brel (r1 r2 : bres) : Prop :=
  match r1, r2 with
  | BStuck w1, BStuck w2 => w1 = w2
  | BRet e1 a1, BRet e2 a2 => e1 = e2 /\ rel R a1 a2
  | _, _ => False
  end.
Definition wrel (r1 r2 : wres) : Prop :=
  match r1, r2 with
  | WStuck w1, WStuck w2 => w1 = w2
  | WRet n1 e1 a1, WRet n2 e2 a2 => n1 = n2 /\ e1 = e2 /\ rel R a1 a2
  | _, _ => False
  end.
Definition crel (r1 r2 : cres) : Prop :=
  match r1, r2 with
  | CloseStuck w1, CloseStuck w2 => w1 = w2
  | ClosePanic, ClosePanic => True
  | CloseRet e1 a1, CloseRet e2 a2 => e1 = e2 /\ rel R a1 a2
  | _, _ => False
  end.

Lemma block_from_bisim (st1 st2 : sas_state) (f : bool) (ch rest : bytes) :
  rel R st1 st2 -> brel (sas_block_from c s1 st1 f ch rest) (sas_block_from c s2 st2 f ch rest).
Proof.
  intros [HR Heq]. destruct st1 as [v hh w1 sk buf n]. rewrite Heq. clear Heq.
  generalize dependent (sas_enc st2). intros w2 HR. clear st2.
  unfold sas_block_from, set_enc, set_buf, set_seq.
  cbn [sas_v sas_hh sas_enc sas_sk sas_buf sas_seq] in *.
  destruct (negb (read_ok v f 1048576 (Z.of_nat (List.length ch)) (Z.of_nat (List.length rest)))); [reflexivity|].
  destruct (attached_sig_input c v hh ch n f) as [inp|]; [|reflexivity].
  destruct (negb (chunk_ok v ch 0 n f)); [reflexivity|].
  match goal with |- context [s1 w1 ?p] => destruct (Hbis w1 w2 p HR) as [H1 H2]; destruct (s1 w1 p) as [w1' e1]; destruct (s2 w2 p) as [w2' e2] end.
  cbn [fst snd] in *. subst e2. destruct e1 as [e1|]; (split; [reflexivity|split; [exact H2|reflexivity]]).
Qed.
Lemma block_bisim (st1 st2 : sas_state) (f : bool) :
  rel R st1 st2 -> brel (sas_block c s1 st1 f) (sas_block c s2 st2 f).
Proof. intros Hr. unfold sas_block. rewrite (rel_buf R _ _ Hr). apply block_from_bisim. exact Hr. Qed.

Lemma drain_bisim (fuel : nat) : forall (st1 st2 : sas_state) (ret : Z),
  rel R st1 st2 -> wrel (sas_drain c s1 fuel st1 ret) (sas_drain c s2 fuel st2 ret).
Proof.
  induction fuel as [|fuel IH]; intros st1 st2 ret Hr; cbn [sas_drain]; [reflexivity|].
  rewrite (rel_buf R _ _ Hr).
  destruct (1048576 <? Z.of_nat (List.length (sas_buf st1)))%Z; [|split; [reflexivity|split; [reflexivity|exact Hr]]].
  pose proof (block_bisim _ _ false Hr) as Hb.
  destruct (sas_block c s1 st1 false) as [w|e sa]; destruct (sas_block c s2 st2 false) as [w'|e' sa2]; cbn [brel] in Hb; try contradiction.
  - reflexivity.
  - destruct Hb as [<- Hr2]. destruct e as [e|].
    + split; [reflexivity|]. split; [reflexivity|exact Hr2].
    + apply IH. exact Hr2.
Qed.
Lemma write_bisim (st1 st2 : sas_state) (p : bytes) :
  rel R st1 st2 -> wrel (sas_write c s1 F st1 p) (sas_write c s2 F st2 p).
Proof.
  intros Hr. unfold sas_write. rewrite (rel_buf R _ _ Hr). apply drain_bisim. apply rel_set_buf. exact Hr.
Qed.
Lemma close_bisim (st1 st2 : sas_state) :
  rel R st1 st2 -> crel (sas_close c s1 st1) (sas_close c s2 st2).
Proof.
  intros Hr. unfold sas_close, sas_close_v1, sas_close_v2.
  assert (Hv : sas_v st2 = sas_v st1) by (destruct Hr as [_ ->]; reflexivity).
  rewrite Hv, (rel_buf R _ _ Hr).
  assert (Hfin : forall a1 a2, rel R a1 a2 ->
            crel (match sas_block c s1 a1 true with BStuck _ => CloseStuck "call" | BRet e st3 => CloseRet e st3 end)
                 (match sas_block c s2 a2 true with BStuck _ => CloseStuck "call" | BRet e st3 => CloseRet e st3 end)).
  { intros a1 a2 Ha. pose proof (block_bisim _ _ true Ha) as Hb.
    destruct (sas_block c s1 a1 true) as [w|e sa]; destruct (sas_block c s2 a2 true) as [w'|e' sa2]; cbn [brel] in Hb; try contradiction.
    - reflexivity.
    - exact Hb. }
  destruct (version_eqb (sas_v st1) v1).
  - destruct (0 <? Z.of_nat (List.length (sas_buf st1)))%Z.
    + pose proof (block_bisim _ _ false Hr) as Hb.
      destruct (sas_block c s1 st1 false) as [w|e sa]; destruct (sas_block c s2 st2 false) as [w'|e' sa2]; cbn [brel] in Hb; try contradiction.
      * reflexivity.
      * destruct Hb as [<- Hr2]. destruct e as [e|]; [split; [reflexivity|exact Hr2]|].
        rewrite (rel_buf R _ _ Hr2). destruct (0 <? Z.of_nat (List.length (sas_buf sa)))%Z; [exact I|]. apply Hfin. exact Hr2.
    + apply Hfin. exact Hr.
  - destruct (version_eqb (sas_v st1) v2); [|exact I].
    pose proof (block_bisim _ _ true Hr) as Hb.
    destruct (sas_block c s1 st1 true) as [w|e sa]; destruct (sas_block c s2 st2 true) as [w'|e' sa2]; cbn [brel] in Hb; try contradiction.
    + reflexivity.
    + destruct Hb as [<- Hr2]. destruct e as [e|]; [split; [reflexivity|exact Hr2]|].
      rewrite (rel_buf R _ _ Hr2). destruct (0 <? Z.of_nat (List.length (sas_buf sa)))%Z; [exact I|split; [reflexivity|exact Hr2]].
Qed.
End Bisim.

Lemma call_bisim (s1 s2 : step) (R : gval -> gval -> Prop) : step_bisim R s1 s2 ->
  forall st1 st2 o, rel R st1 st2 ->
  fst (call s1 st1 o) = fst (call s2 st2 o) /\ rel R (snd (call s1 st1 o)) (snd (call s2 st2 o)).
Proof.
  intros Hbis st1 st2 o Hr. destruct o as [p|]; cbn [call].
  - pose proof (write_bisim s1 s2 R Hbis _ _ p Hr) as Hw.
    destruct (sas_write c s1 F st1 p) as [w|n e sa]; destruct (sas_write c s2 F st2 p) as [w'|n' e' sa2]; cbn [wrel] in Hw; try contradiction.
    + subst w'. split; [reflexivity|exact Hr].
    + destruct Hw as (_ & <- & Hr2). split; [reflexivity|exact Hr2].
  - pose proof (close_bisim s1 s2 R Hbis _ _ Hr) as Hc.
    destruct (sas_close c s1 st1) as [w| |e sa]; destruct (sas_close c s2 st2) as [w'| |e' sa2]; cbn [crel] in Hc; try contradiction.
    + subst w'. split; [reflexivity|exact Hr].
    + split; [reflexivity|exact Hr].
    + destruct Hc as [<- Hr2]. split; [reflexivity|exact Hr2].
Qed.

(* (TARGET) the instrumentation is transparent *)
Theorem sas_logged_transparent (s : step) (st : sas_state) (o : gval) (b : bool) (ops : list op) :
  sas_enc st = VList [o; VBool b] ->
  fst (run (call (logged s)) st ops) = fst (run (call s) (set_enc st o) ops) /\
  rel under_flag (snd (run (call (logged s)) st ops)) (snd (run (call s) (set_enc st o) ops)).
Proof.
  intros He.
  apply (run_bisim _ _ (call (logged s)) (call s) (rel under_flag) (call_bisim (logged s) s under_flag (logged_bisim s))).
  split; [exists b; exact He|reflexivity].
Qed.

(* ---------- after an error: signAttachedStream has NO err field ---------- *)
(* (TARGET) NOT STICKY: there is no err field; a block whose packet the step refuses is gone from the buffer and seqno is
   not advanced, and the next Write or Close runs on the object as this leaves it ([call]/[run]) *)
Lemma sas_block_from_failed (s : step) (st : sas_state) (f : bool) (ch rest : bytes) (e : gerr) (st' : sas_state) :
  sas_block_from c s st f ch rest = BRet e st' -> e <> None ->
  sas_buf st' = rest /\ sas_seq st' = sas_seq st.
Proof.
  destruct st as [v hh w sk buf n]. unfold sas_block_from, set_enc, set_buf, set_seq.
  cbn [sas_v sas_hh sas_enc sas_sk sas_buf sas_seq].
  destruct (negb (read_ok v f 1048576 (Z.of_nat (List.length ch)) (Z.of_nat (List.length rest)))); [discriminate|].
  destruct (attached_sig_input c v hh ch n f) as [inp|]; [|discriminate].
  destruct (negb (chunk_ok v ch 0 n f)); [discriminate|].
  match goal with |- context [s w ?p] => destruct (s w p) as [w' [e1|]] end; cbn [fst snd].
  - intros H _. injection H as _ <-. split; reflexivity.
  - intros H Hne. injection H as <- _. contradiction.
Qed.

(* ---------- with a STICKY step (go-codec's Encoder), Close cannot succeed after an error ---------- *)
Section Sticky.
Variable s : step.
Variable broken : gval -> Prop.
Hypothesis Hst : sticky_step broken s.

Definition bad (st : sas_state) : Prop := broken (sas_enc st).

Lemma block_from_bad (st : sas_state) (f : bool) (ch rest : bytes) (e : gerr) (st' : sas_state) :
  sas_block_from c s st f ch rest = BRet e st' ->
  (e <> None -> bad st') /\ (bad st -> e <> None /\ bad st').
Proof.
  destruct Hst as [Hs1 Hs2].
  destruct st as [v hh w sk buf n]. unfold bad, sas_block_from, set_enc, set_buf, set_seq.
  cbn [sas_v sas_hh sas_enc sas_sk sas_buf sas_seq].
  destruct (negb (read_ok v f 1048576 (Z.of_nat (List.length ch)) (Z.of_nat (List.length rest)))); [discriminate|].
  destruct (attached_sig_input c v hh ch n f) as [inp|]; [|discriminate].
  destruct (negb (chunk_ok v ch 0 n f)); [discriminate|].
  match goal with |- context [s w ?p] => pose proof (Hs1 w p) as H1; pose proof (Hs2 w p) as H2; destruct (s w p) as [w' [e1|]] end;
    cbn [fst snd] in *; intros H; injection H as <- <-; cbn [sas_enc].
  - assert (Hb : broken w') by (apply H1; discriminate).
    split; [intros _; exact Hb|]. intros _. split; [discriminate|exact Hb].
  - split; [intros Hc; contradiction|]. intros Hb. destruct (H2 Hb) as [Hc _]. contradiction.
Qed.
Lemma block_bad (st : sas_state) (f : bool) (e : gerr) (st' : sas_state) :
  sas_block c s st f = BRet e st' -> (e <> None -> bad st') /\ (bad st -> e <> None /\ bad st').
Proof. unfold sas_block. apply block_from_bad. Qed.

Lemma drain_bad (fuel : nat) : forall (st : sas_state) (ret n : Z) (e : gerr) (st' : sas_state),
  sas_drain c s fuel st ret = WRet n e st' -> (bad st -> bad st') /\ (e <> None -> bad st').
Proof.
  induction fuel as [|fuel IH]; intros st ret n e st'; cbn [sas_drain]; [discriminate|].
  destruct (1048576 <? Z.of_nat (List.length (sas_buf st)))%Z.
  - destruct (sas_block c s st false) as [w|e0 sa] eqn:Eb; [discriminate|].
    destruct (block_bad _ _ _ _ Eb) as [B1 B2].
    destruct e0 as [e0|].
    + intros H. injection H as _ <- <-. assert (Hb : bad sa) by (apply B1; discriminate).
      split; intros _; exact Hb.
    + intros H. destruct (IH _ _ _ _ _ H) as (I1 & I2).
      split; [intros Hb; destruct (B2 Hb) as [Hc _]; contradiction|exact I2].
  - intros H. injection H as _ <- <-. split; [auto|intros Hc; contradiction].
Qed.

Lemma close_bad (st : sas_state) (e : gerr) (st' : sas_state) :
  sas_close c s st = CloseRet e st' -> (e <> None -> bad st') /\ (bad st -> e <> None /\ bad st').
Proof.
  unfold sas_close, sas_close_v1, sas_close_v2.
  destruct (version_eqb (sas_v st) v1).
  - destruct (0 <? Z.of_nat (List.length (sas_buf st)))%Z.
    + destruct (sas_block c s st false) as [w|e0 sa] eqn:Eb; [discriminate|].
      destruct (block_bad _ _ _ _ Eb) as [B1 B2].
      destruct e0 as [e0|].
      * intros H. injection H as <- <-. split; [exact B1|exact B2].
      * destruct (0 <? Z.of_nat (List.length (sas_buf sa)))%Z; [discriminate|].
        destruct (sas_block c s sa true) as [w|e1 sb] eqn:Eb2; [discriminate|].
        destruct (block_bad _ _ _ _ Eb2) as [C1 C2].
        intros H. injection H as <- <-. split; [exact C1|].
        intros Hb. destruct (B2 Hb) as [Hc _]. contradiction.
    + destruct (sas_block c s st true) as [w|e1 sb] eqn:Eb2; [discriminate|].
      destruct (block_bad _ _ _ _ Eb2) as [C1 C2].
      intros H. injection H as <- <-. split; [exact C1|exact C2].
  - destruct (version_eqb (sas_v st) v2); [|discriminate].
    destruct (sas_block c s st true) as [w|e0 sa] eqn:Eb; [discriminate|].
    destruct (block_bad _ _ _ _ Eb) as [B1 B2].
    destruct e0 as [e0|].
    + intros H. injection H as <- <-. split; [exact B1|exact B2].
    + destruct (0 <? Z.of_nat (List.length (sas_buf sa)))%Z; [discriminate|].
      intros H. injection H as <- <-. split; [exact B1|exact B2].
Qed.

Lemma call_bad (st : sas_state) (o : op) (e : gerr) (st' : sas_state) : True -> call s st o = (Ret e, st') ->
  True /\ (bad st -> bad st') /\ (e <> None -> bad st') /\ (o = OpClose -> bad st -> e <> None).
Proof.
  intros _. destruct o as [p|]; cbn [call].
  - unfold sas_write.
    destruct (sas_drain c s F (set_buf st (sas_buf st ++ p)) (Z.of_nat (List.length p))) as [w|n e1 sa] eqn:Ed; [discriminate|].
    intros H. injection H as <- <-. destruct (drain_bad _ _ _ _ _ _ Ed) as (D1 & D2).
    split; [exact I|]. split; [exact D1|]. split; [exact D2|discriminate].
  - destruct (sas_close c s st) as [w| |e1 sa] eqn:Ec; [discriminate|discriminate|].
    intros H. injection H as <- <-. destruct (close_bad _ _ _ Ec) as [C1 C2].
    split; [exact I|]. split; [intros Hb; exact (proj2 (C2 Hb))|]. split; [exact C1|]. intros _ Hb. exact (proj1 (C2 Hb)).
Qed.

(* (TARGET) with a sticky step: after a call that returned an error, no later Close returns nil *)
Theorem sas_no_nil_close_after_error (st : sas_state) (ops : list op) (outs : list outc) (st' : sas_state) (i j : nat) e :
  run (call s) st ops = (outs, st') ->
  (i < j)%nat -> nth_error outs i = Some (Ret (Some e)) -> nth_error ops j = Some OpClose ->
  nth_error outs j <> Some (Ret None).
Proof.
  intros Hr. exact (run_no_nil_close_after_error _ (call s) (fun _ => True) bad call_bad ops st outs st' I Hr i j e).
Qed.
End Sticky.

(* (TARGET) with a sticky step: if the constructor, Write p1; ..; Write pn and Close were all made and Close returned nil,
   every call returned nil *)
Theorem sas_close_nil_all_nil (broken : gval -> Prop) (s : step) (w0 : gval) (v : version)
        (signer : option bytes) (r : rng) (pieces : list bytes) (outs : list outc) (st' : option sas_state) :
  sticky_step broken s ->
  session s v w0 signer r (session_ops pieces) = (outs, st') ->
  List.length outs = S (S (List.length pieces)) -> last outs (Halt EmptyString) = Ret None ->
  all_nil outs.
Proof.
  intros Hst Hs Hl Hlast. revert Hs. unfold session.
  destruct (new_state s v w0 signer r) as [o so].
  destruct o as [[e|]|w]; try (intros H; destruct so; injection H as <- <-; discriminate Hl).
  destruct so as [st0|]; [|intros H; injection H as <- <-; discriminate Hl].
  destruct (run (call s) st0 (session_ops pieces)) as [rs sb] eqn:Er. intros H. injection H as <- <-.
  cbn [List.length] in Hl. injection Hl as Hl.
  assert (Hlast' : last rs (Halt EmptyString) = Ret None) by (destruct rs; [discriminate Hl|exact Hlast]).
  constructor; [reflexivity|].
  unfold session_ops in Er.
  refine (run_last_close_nil _ (call s) (fun _ => True) (bad broken) (call_bad s broken Hst) (map OpWrite pieces) st0 rs sb I Er _ Hlast').
  rewrite map_length. exact Hl.
Qed.

(* (TARGET) C14 AS WORDED, for a sticky honest step *)
Theorem sas_close_nil_complete (written : gval -> bytes) (broken : gval -> Prop) (s : step) (w0 : gval) (v : version)
        (signer : option bytes) (r : rng) (pieces : list bytes) (outs : list outc) (st' : option sas_state) :
  honest written s -> sticky_step broken s -> written w0 = [] ->
  session s v w0 signer r (session_ops pieces) = (outs, st') ->
  List.length outs = S (S (List.length pieces)) -> last outs (Halt EmptyString) = Ret None ->
  all_nil outs /\
  exists st1 stm, st' = Some st1 /\ session mem_enc v (VBytes []) signer r (session_ops pieces) = (outs, Some stm) /\
                  sas_enc stm = VBytes (written (sas_enc st1)).
Proof.
  intros Hh Hst Hw Hs Hl Hlast.
  pose proof (sas_close_nil_all_nil broken s w0 v signer r pieces outs st' Hst Hs Hl Hlast) as Hn.
  split; [exact Hn|]. exact (sas_no_silent_loss_pieces written s w0 v signer r pieces outs st' Hh Hw Hs Hn).
Qed.

End S.

(* ---------- the statements on concrete writers (toy primitives; computed) ---------- *)
Definition ex_sk : bytes := repeat x05 32.
Definition ex_rnd : rng := repeat x07 40.
Definition ex_io : gerr := Some ("ErrIO"%string, []).
Definition ex_session (s : step) (w0 : gval) (ops : list op) : list outc * option sas_state :=
  session toy_crypto 297 s v2 w0 (Some ex_sk) ex_rnd ops.
Definition enc_of (r : list outc * option sas_state) : gval := match snd r with Some st => sas_enc st | None => VNil end.
Definition mem_bytes (o : gval) : bytes := match o with VBytes b => b | _ => [] end.

Example ex_sas_complete :
  let r := ex_session (flaky 9 0) (flaky_obj [] 0) (session_ops [[x61; x62]; [x63]]) in
  let m := ex_session mem_enc (VBytes []) (session_ops [[x61; x62]; [x63]]) in
  fst r = [Ret None; Ret None; Ret None; Ret None] /\ fst m = fst r /\
  flaky_written (enc_of r) = mem_bytes (enc_of m) /\ List.length (mem_bytes (enc_of m)) = 141%nat.
Proof. vm_compute. repeat split; reflexivity. Qed.

Example ex_sas_fault_reported :
  fst (ex_session (flaky 0 3) (flaky_obj [] 0) (session_ops [[x61; x62]; [x63]])) = [Ret ex_io] /\
  fst (ex_session (flaky 1 3) (flaky_obj [] 0) (session_ops [[x61; x62]; [x63]])) = [Ret None; Ret None; Ret None; Ret ex_io].
Proof. vm_compute. split; reflexivity. Qed.

(* FINDING (no sticky error).  1 MiB + 1 byte in one Write; the writer refuses the first payload packet (takes
   nothing) and then works again.  Write returns the error; the block is gone and seqno stays 0.  Close signs
   the one byte left as the final block with seqno 0 and returns NIL: the writer holds, byte for byte, the
   complete attached-signature message for the plaintext "a". *)
Example ex_sas_close_after_failed_write :
  let big := (repeat x00 1048576 ++ [x61])%list in
  let r := ex_session (flaky 1 0) (flaky_obj [] 0) [OpWrite big; OpClose] in
  let m := ex_session mem_enc (VBytes []) [OpWrite [x61]; OpClose] in
  fst r = [Ret None; Ret ex_io; Ret None] /\ fst m = [Ret None; Ret None; Ret None] /\
  bytes_eqb (flaky_written (enc_of r)) (mem_bytes (enc_of m)) = true.
Proof. vm_compute. repeat split; reflexivity. Qed.
End SignA.


(* ================= signDetachedStream (/repo/sign_stream.go; GoAstProofs6a) ================= *)
(* Write only feeds the digest (go_signDetachedStream_Write: it returns nil and never touches the encoder); Close
   hands ONE packet to the encoder and returns what Encode returns (go_signDetachedStream_Close).  LIMIT taken over
   from GoAstProofs6a: the encoder object after Close is not observable through the evaluator; here it is the
   object the same [step] call returns (its first component), which is what [step] means. *)
Module SignD.
Import GoAstProofs6a.

Section S.
Variable c : crypto.

(* newSignDetachedStream, read back as the receiver object *)
Definition new_state (s : step) (v : version) (w : gval) (signer : option bytes) (r : rng) : outc * option sds_state :=
  match sds_new c s v w signer r with
  | ORet [VStruct [("encoder"%string, e); ("secretKey"%string, VStruct [("sk"%string, VBytes sk)]); ("hasher"%string, VBytes h)]; VNil] =>
    (Ret None, Some (mkSds e sk h))
  | ORet [VNil; VErr n a] => (Ret (Some (n, a)), None)
  | _ => (Halt "new"%string, None)
  end.

Definition sds_sig_packet (st : sds_state) : bytes :=
  mp_encode (MBin (ed_sign c (sds_sk st) (detached_sig_input_from_hash (sha512 c (sds_hashed st))))).

Definition call (s : step) (st : sds_state) (o : op) : outc * sds_state :=
  match o with
  | OpWrite p => (Ret None, mkSds (sds_enc st) (sds_sk st) (sds_hashed st ++ p))
  | OpClose => let r := s (sds_enc st) (sds_sig_packet st) in (Ret (snd r), mkSds (fst r) (sds_sk st) (sds_hashed st))
  end.

Definition session (s : step) (v : version) (w : gval) (signer : option bytes) (r : rng) (ops : list op)
  : list outc * option sds_state :=
  match new_state s v w signer r with
  | (Ret None, Some st0) => let (rs, st) := run (call s) st0 ops in (Ret None :: rs, Some st)
  | (Ret None, None) => ([Halt "new"%string], None)
  | (o, _) => ([o], None)
  end.

Definition set_enc (st : sds_state) (w : gval) : sds_state := mkSds w (sds_sk st) (sds_hashed st).
Definition rel (R : gval -> gval -> Prop) (st1 st2 : sds_state) : Prop :=
  R (sds_enc st1) (sds_enc st2) /\ st2 = set_enc st1 (sds_enc st2).

Lemma new_sim (s1 s2 : step) (R : gval -> gval -> Prop) : step_sim R s1 s2 ->
  forall v w1 w2 signer r st1, R w1 w2 -> new_state s1 v w1 signer r = (Ret None, Some st1) ->
  exists st2, new_state s2 v w2 signer r = (Ret None, Some st2) /\ rel R st1 st2.
Proof.
  intros Hsim v w1 w2 signer r st1 HR. unfold new_state, sds_new.
  destruct (negb (known_version v)); [discriminate|].
  destruct signer as [sk|]; [|discriminate].
  destruct (read_full 16 r) as [[nonce r']|]; [|discriminate].
  cbv zeta.
  match goal with |- context [s1 w1 ?p] => pose proof (Hsim w1 w2 p HR) as H; destruct (s1 w1 p) as [w1' e1]; destruct (s2 w2 p) as [w2' e2] end.
  cbn [fst snd] in *. destruct e1 as [[n1 a1]|]; [discriminate|].
  destruct (H eq_refl) as [-> HR']. cbv beta iota. unfold g_sds, g_sk. cbn [sds_enc sds_sk sds_hashed].
  intros Hb. injection Hb as <-.
  eexists. split; [reflexivity|]. split; [exact HR'|reflexivity].
Qed.

Lemma call_sim (s1 s2 : step) (R : gval -> gval -> Prop) : step_sim R s1 s2 ->
  forall st1 st2 o st1', rel R st1 st2 -> call s1 st1 o = (Ret None, st1') ->
  exists st2', call s2 st2 o = (Ret None, st2') /\ rel R st1' st2'.
Proof.
  intros Hsim st1 st2 o st1' [HR Heq]. destruct st1 as [w1 sk h]. rewrite Heq. clear Heq.
  generalize dependent (sds_enc st2). intros w2 HR. clear st2. cbn [sds_enc] in HR.
  destruct o as [p|]; cbn [call set_enc sds_enc sds_sk sds_hashed].
  - intros H. injection H as <-. eexists. split; [reflexivity|]. split; [exact HR|reflexivity].
  - unfold sds_sig_packet. cbn [set_enc sds_enc sds_sk sds_hashed].
    match goal with |- context [s1 w1 ?p] => pose proof (Hsim w1 w2 p HR) as H; destruct (s1 w1 p) as [w1' e1]; destruct (s2 w2 p) as [w2' e2] end.
    cbn [fst snd] in *. intros Hc. injection Hc as -> <-. destruct (H eq_refl) as [-> HR'].
    eexists. split; [reflexivity|]. split; [exact HR'|reflexivity].
Qed.

Lemma session_sim (s1 s2 : step) (R : gval -> gval -> Prop) : step_sim R s1 s2 ->
  forall v w1 w2 signer r ops outs st1',
  R w1 w2 -> session s1 v w1 signer r ops = (outs, st1') -> all_nil outs ->
  exists st1 st2, st1' = Some st1 /\ session s2 v w2 signer r ops = (outs, Some st2) /\ rel R st1 st2.
Proof.
  intros Hsim v w1 w2 signer r ops outs st1' HR. unfold session.
  destruct (new_state s1 v w1 signer r) as [o so] eqn:En.
  destruct o as [[e|]|w].
  - intros H Hn. exfalso. destruct so; injection H as <- <-; apply all_nil_cons in Hn; destruct Hn as [Hn _]; discriminate Hn.
  - destruct so as [sa|].
    + destruct (new_sim s1 s2 R Hsim v w1 w2 signer r sa HR En) as (sa2 & En2 & Hr2). rewrite En2.
      destruct (run (call s1) sa ops) as [rs sb] eqn:Er. intros H Hn. injection H as <- <-.
      apply all_nil_cons in Hn. destruct Hn as [_ Hn].
      destruct (run_sim _ _ (call s1) (call s2) (rel R) (call_sim s1 s2 R Hsim) ops sa sa2 rs sb Hr2 Er Hn) as (sb2 & Er2 & Hr3).
      rewrite Er2. exists sb, sb2. split; [reflexivity|]. split; [reflexivity|exact Hr3].
    + intros H Hn. exfalso. injection H as <- <-. apply all_nil_cons in Hn. destruct Hn as [Hn _]. discriminate Hn.
  - intros H Hn. exfalso. destruct so; injection H as <- <-; apply all_nil_cons in Hn; destruct Hn as [Hn _]; discriminate Hn.
Qed.

Lemma mem_sim (written : gval -> bytes) (s : step) : honest written s -> step_sim (mem_of written) s mem_enc.
Proof. exact (SignA.mem_sim written s). Qed.

(* (TARGET) NO SILENT LOSS *)
Theorem sds_no_silent_loss (written : gval -> bytes) (s : step) (w0 : gval) (v : version) (signer : option bytes) (r : rng)
        (ops : list op) (outs : list outc) (st' : option sds_state) :
  honest written s ->
  session s v w0 signer r ops = (outs, st') ->
  all_nil outs ->
  exists st1, st' = Some st1 /\
    session mem_enc v (VBytes (written w0)) signer r ops = (outs, Some (set_enc st1 (VBytes (written (sds_enc st1))))).
Proof.
  intros Hh Hs Hn.
  destruct (session_sim s mem_enc (mem_of written) (mem_sim written s Hh) v w0 (VBytes (written w0)) signer r ops outs st'
              eq_refl Hs Hn) as (st1 & st2 & -> & Hs2 & [HR Heq]).
  exists st1. split; [reflexivity|]. rewrite Hs2. do 2 f_equal. rewrite Heq. f_equal. exact HR.
Qed.

(* (TARGET) an error of the step is what the call returns: Close returns exactly the error of its one step, the
   constructor returns a stream only if the step took the header without an error, Write makes no step *)
Theorem sds_close_reports (s : step) (st : sds_state) :
  fst (call s st OpClose) = Ret (snd (s (sds_enc st) (sds_sig_packet st))).
Proof. reflexivity. Qed.
(* (TARGET) *)
Theorem sds_write_no_step (s : step) (st : sds_state) (p : bytes) :
  fst (call s st (OpWrite p)) = Ret None /\ sds_enc (snd (call s st (OpWrite p))) = sds_enc st.
Proof. split; reflexivity. Qed.
(* (TARGET) *)
Theorem sds_new_reports (s : step) (v : version) (o : gval) (signer : option bytes) (r : rng) (st : sds_state) :
  new_state (logged s) v (instr o) signer r = (Ret None, Some st) -> saw_error (sds_enc st) = false.
Proof.
  intros Hn.
  destruct (new_sim (logged s) s clean_of (logged_sim s) v (instr o) o signer r st eq_refl Hn) as (st2 & _ & [Hr _]).
  rewrite Hr. reflexivity.
Qed.

(* (TARGET) C14 AS WORDED (no hypothesis on the step: Write makes no step, Close makes one): if the constructor, the
   Writes and Close were all made and Close returned nil, every call returned nil *)
Lemma run_writes_close (s : step) (pieces : list bytes) : forall st rs sb,
  run (call s) st (map OpWrite pieces ++ [OpClose]) = (rs, sb) -> last rs (Halt EmptyString) = Ret None -> all_nil rs.
Proof.
  induction pieces as [|p t IH]; intros st rs sb; cbn [map app run call].
  - destruct (s (sds_enc st) (sds_sig_packet st)) as [o e]. cbn [fst snd]. intros H Hl. injection H as <- <-.
    cbn [last] in Hl. rewrite Hl. constructor; [reflexivity|constructor].
  - destruct (run (call s) _ (map OpWrite t ++ [OpClose])) as [r sb'] eqn:Er. intros H Hl. injection H as <- <-.
    assert (Hr : r <> []).
    { clear - Er. destruct t; cbn [map app run call] in Er.
      - destruct (s _ _). cbn [fst snd] in Er. injection Er as <- _. discriminate.
      - destruct (run _ _ _). injection Er as <- _. discriminate. }
    constructor; [reflexivity|]. apply (IH _ _ _ Er). destruct r; [contradiction|exact Hl].
Qed.
(* (TARGET) *)
Theorem sds_close_nil_all_nil (s : step) (v : version) (w0 : gval) (signer : option bytes) (r : rng) (pieces : list bytes)
        (outs : list outc) (st' : option sds_state) :
  session s v w0 signer r (session_ops pieces) = (outs, st') ->
  List.length outs = S (S (List.length pieces)) -> last outs (Halt EmptyString) = Ret None -> all_nil outs.
Proof.
  unfold session. destruct (new_state s v w0 signer r) as [o so].
  destruct o as [[e|]|w]; try (intros H Hl; destruct so; injection H as <- <-; discriminate Hl).
  destruct so as [st0|]; [|intros H Hl; injection H as <- <-; discriminate Hl].
  destruct (run (call s) st0 (session_ops pieces)) as [rs sb] eqn:Er. intros H Hl Hlast. injection H as <- <-.
  constructor; [reflexivity|]. apply (run_writes_close s pieces st0 rs sb Er).
  destruct rs; [discriminate Hl|exact Hlast].
Qed.
End S.

Example ex_sds_fault_reported :
  let ses s := fst (session toy_crypto s v2 (flaky_obj [] 0) (Some (repeat x05 32)) (repeat x07 40) (session_ops [[x61; x62]; [x63]])) in
  ses (flaky 9 0) = [Ret None; Ret None; Ret None; Ret None] /\
  ses (flaky 0 3) = [Ret (Some ("ErrIO"%string, []))] /\
  ses (flaky 1 3) = [Ret None; Ret None; Ret None; Ret (Some ("ErrIO"%string, []))].
Proof. vm_compute. repeat split; reflexivity. Qed.
End SignD.


(* ================= signcryptSealStream (/repo/signcrypt_seal.go; specification functions of GoAstProofs6b) ================= *)
Module Sc.
Import GoAstProofs6b.

Lemma mem_sim (written : gval -> bytes) (s : step) : honest written s -> step_sim (mem_of written) s mem_enc.
Proof.
  intros Hh o1 o2 pkt -> H. unfold mem_enc. cbn [fst snd]. split; [reflexivity|].
  unfold mem_of. destruct (s o1 pkt) as [o' e] eqn:E. cbn [fst snd] in *. subst e.
  rewrite (Hh _ _ _ E). reflexivity.
Qed.

Section S.
Variable c : crypto.

Definition rel (R : gval -> gval -> Prop) (st1 st2 : sss_state) : Prop :=
  R (ss_enc st1) (ss_enc st2) /\ st2 = set_enc st1 (ss_enc st2).

Section Sim.
Variables s1 s2 : step.
Variable R : gval -> gval -> Prop.
Hypothesis Hsim : step_sim R s1 s2.

Lemma block_from_sim (st1 st2 : sss_state) (f : bool) (pt rest : bytes) (st1' : sss_state) :
  rel R st1 st2 -> sss_block_from c s1 st1 f pt rest = BRet None st1' ->
  exists st2', sss_block_from c s2 st2 f pt rest = BRet None st2' /\ rel R st1' st2'.
Proof.
  intros [HR Heq]. destruct st1 as [v w1 k sg buf hh n err]. rewrite Heq. clear Heq.
  generalize dependent (ss_enc st2). intros w2 HR. clear st2.
  unfold sss_block_from, set_enc, set_buf, set_n.
  cbn [ss_v ss_enc ss_key ss_signer ss_buf ss_hh ss_n ss_err] in *.
  destruct (f && negb (Z.of_nat (List.length rest) =? 0)%Z); [discriminate|].
  destruct (negb (block_number_ok n)); [discriminate|].
  destruct (negb (enc_chunk_ok v (sc_chunk_ct c sg k hh n pt f) 16 n f)); [discriminate|].
  match goal with |- context [s1 w1 ?p] => pose proof (Hsim w1 w2 p HR) as H; destruct (s1 w1 p) as [w1' e1]; destruct (s2 w2 p) as [w2' e2] end.
  cbn [fst snd] in *. destruct e1 as [e1|]; [discriminate|].
  destruct (H eq_refl) as [-> HR']. intros Hb. injection Hb as <-.
  eexists. split; [reflexivity|]. split; [exact HR'|reflexivity].
Qed.

Lemma rel_buf (st1 st2 : sss_state) : rel R st1 st2 -> ss_buf st2 = ss_buf st1.
Proof. intros [_ ->]. reflexivity. Qed.

Lemma block_sim (st1 st2 : sss_state) (f : bool) (st1' : sss_state) :
  rel R st1 st2 -> sss_block c s1 st1 f = BRet None st1' ->
  exists st2', sss_block c s2 st2 f = BRet None st2' /\ rel R st1' st2'.
Proof.
  intros Hr. unfold sss_block. rewrite (rel_buf _ _ Hr). apply block_from_sim. exact Hr.
Qed.

Lemma rel_set_err (st1 st2 : sss_state) (e : gerr) : rel R st1 st2 -> rel R (set_err st1 e) (set_err st2 e).
Proof. intros [HR ->]. split; [exact HR|reflexivity]. Qed.
Lemma rel_set_buf (st1 st2 : sss_state) (b : bytes) : rel R st1 st2 -> rel R (set_buf st1 b) (set_buf st2 b).
Proof. intros [HR ->]. split; [exact HR|reflexivity]. Qed.

Lemma drain_sim (fuel : nat) : forall (st1 st2 : sss_state) (ret n : Z) (st1' : sss_state),
  rel R st1 st2 -> sss_drain c s1 fuel st1 ret = WRet n None st1' ->
  exists st2', sss_drain c s2 fuel st2 ret = WRet n None st2' /\ rel R st1' st2'.
Proof.
  induction fuel as [|fuel IH]; intros st1 st2 ret n st1' Hr; cbn [sss_drain]; [discriminate|].
  rewrite (rel_buf _ _ Hr).
  destruct (1048576 <? Z.of_nat (List.length (ss_buf st1)))%Z.
  - destruct (sss_block c s1 st1 false) as [w| |e sa] eqn:Eb; [discriminate|discriminate|].
    destruct e as [e|]; [discriminate|].
    destruct (block_sim _ _ _ _ Hr Eb) as (sa2 & Eb2 & Hr2). rewrite Eb2.
    apply IH. apply rel_set_err. exact Hr2.
  - intros H. injection H as <- <-. exists st2. split; [reflexivity|exact Hr].
Qed.

Lemma write_sim (st1 st2 : sss_state) (p : bytes) (n : Z) (st1' : sss_state) :
  rel R st1 st2 -> sss_write c s1 st1 p = WRet n None st1' ->
  exists st2', sss_write c s2 st2 p = WRet n None st2' /\ rel R st1' st2'.
Proof.
  intros Hr. unfold sss_write, sss_write_at.
  assert (He : ss_err st2 = ss_err st1) by (destruct Hr as [_ ->]; reflexivity).
  rewrite He, (rel_buf _ _ Hr). destruct (ss_err st1); [discriminate|].
  apply drain_sim. apply rel_set_buf. exact Hr.
Qed.

Lemma close_sim (st1 st2 : sss_state) (st1' : sss_state) :
  rel R st1 st2 -> sss_close c s1 st1 = CloseRet None st1' ->
  exists st2', sss_close c s2 st2 = CloseRet None st2' /\ rel R st1' st2'.
Proof.
  intros Hr. unfold sss_close.
  destruct (sss_block c s1 st1 true) as [w| |e sa] eqn:Eb; [discriminate|discriminate|].
  destruct e as [e|]; [discriminate|].
  destruct (block_sim _ _ _ _ Hr Eb) as (sa2 & Eb2 & Hr2). rewrite Eb2, (rel_buf _ _ Hr2).
  destruct (0 <? Z.of_nat (List.length (ss_buf sa)))%Z; [discriminate|].
  intros H. injection H as <-. exists sa2. split; [reflexivity|exact Hr2].
Qed.

Lemma init_sim (st1 st2 : sss_state) (boxes : list bytes) (syms : list (bytes * bytes)) (ra rk rb : bytes)
      (st1' : sss_state) (ra' rk' rb' : bytes) :
  rel R st1 st2 -> sss_init c s1 st1 boxes syms ra rk rb = IRet None st1' ra' rk' rb' ->
  exists st2', sss_init c s2 st2 boxes syms ra rk rb = IRet None st2' ra' rk' rb' /\ rel R st1' st2'.
Proof.
  intros [HR Heq]. destruct st1 as [v w1 k sg buf hh n err]. rewrite Heq. clear Heq.
  generalize dependent (ss_enc st2). intros w2 HR. clear st2.
  unfold sss_init, set_enc, set_hh, set_key. cbn [ss_v ss_enc ss_key ss_signer ss_buf ss_hh ss_n ss_err] in *.
  destruct (sc_check_receivers boxes syms) as [u|e0].
  2:{ destruct (check_err boxes syms); [discriminate|]. intros Hb. injection Hb as <- <- <- <-.
      eexists. split; [reflexivity|]. split; [exact HR|reflexivity]. }
  destruct (shuffle (all_rcpts boxes syms) ra) as [[rs ra1]|]; [|discriminate].
  destruct (read_full 32 rb) as [[eph rb1]|]; [|discriminate].
  destruct (read_full 32 rk) as [[key rk1]|]; [|discriminate].
  destruct (negb (Nat.eqb (List.length (sc_sender_pub_go c sg)) 32)); [discriminate|].
  cbv zeta.
  match goal with |- context [s1 w1 ?p] => pose proof (Hsim w1 w2 p HR) as H; destruct (s1 w1 p) as [w1' e1]; destruct (s2 w2 p) as [w2' e2] end.
  cbn [fst snd] in *. intros Hb. injection Hb as -> <- <- <- <-.
  destruct (H eq_refl) as [-> HR'].
  eexists. split; [reflexivity|]. split; [exact HR'|reflexivity].
Qed.
End Sim.

(* ---------- the session ---------- *)
Definition call (s : step) (st : sss_state) (o : op) : outc * sss_state :=
  match o with
  | OpWrite p =>
    match sss_write c s st p with WStuck w => (Halt w, st) | WRet _ e st' => (Ret e, st') end
  | OpClose =>
    match sss_close c s st with
    | CloseStuck w => (Halt w, st) | ClosePanic => (Halt "panic"%string, st) | CloseRet e st' => (Ret e, st')
    end
  end.

(* newSigncryptSealStream: init on the fresh object (no stream is returned on an error), then the calls *)
Definition session (s : step) (st0 : sss_state) (boxes : list bytes) (syms : list (bytes * bytes)) (ra rk rb : bytes)
           (ops : list op) : list outc * sss_state :=
  match sss_init c s st0 boxes syms ra rk rb with
  | IPanic => ([Halt "panic"%string], st0)
  | IRet (Some e) st1 _ _ _ => ([Ret (Some e)], st1)
  | IRet None st1 _ _ _ => let (r, st2) := run (call s) st1 ops in (Ret None :: r, st2)
  end.

(* the object newSigncryptSealStream builds before init *)
Definition fresh (w : gval) (signer : option bytes) : sss_state := mkSss v2 w (zeros 32) signer [] (zeros 64) 0 None.

Lemma call_sim (s1 s2 : step) (R : gval -> gval -> Prop) : step_sim R s1 s2 ->
  forall st1 st2 o st1', rel R st1 st2 -> call s1 st1 o = (Ret None, st1') ->
  exists st2', call s2 st2 o = (Ret None, st2') /\ rel R st1' st2'.
Proof.
  intros Hsim st1 st2 o st1' Hr. destruct o as [p|]; cbn [call].
  - destruct (sss_write c s1 st1 p) as [w|n e sa] eqn:Ew; [discriminate|].
    intros H. injection H as -> ->.
    destruct (write_sim s1 s2 R Hsim _ _ _ _ _ Hr Ew) as (sa2 & Ew2 & Hr2). rewrite Ew2.
    exists sa2. split; [reflexivity|exact Hr2].
  - destruct (sss_close c s1 st1) as [w| |e sa] eqn:Ec; [discriminate|discriminate|].
    intros H. injection H as -> ->.
    destruct (close_sim s1 s2 R Hsim _ _ _ Hr Ec) as (sa2 & Ec2 & Hr2). rewrite Ec2.
    exists sa2. split; [reflexivity|exact Hr2].
Qed.

Lemma session_sim (s1 s2 : step) (R : gval -> gval -> Prop) : step_sim R s1 s2 ->
  forall st1 st2 boxes syms ra rk rb ops outs st1',
  rel R st1 st2 -> session s1 st1 boxes syms ra rk rb ops = (outs, st1') -> all_nil outs ->
  exists st2', session s2 st2 boxes syms ra rk rb ops = (outs, st2') /\ rel R st1' st2'.
Proof.
  intros Hsim st1 st2 boxes syms ra rk rb ops outs st1' Hr. unfold session.
  destruct (sss_init c s1 st1 boxes syms ra rk rb) as [|e sa ra' rk' rb'] eqn:Ei.
  - intros H Hn. injection H as <- <-. apply all_nil_cons in Hn. destruct Hn as [Hn _]. discriminate Hn.
  - destruct e as [e|].
    + intros H Hn. injection H as <- <-. apply all_nil_cons in Hn. destruct Hn as [Hn _]. discriminate Hn.
    + destruct (init_sim s1 s2 R Hsim _ _ _ _ _ _ _ _ _ _ _ Hr Ei) as (sa2 & Ei2 & Hr2). rewrite Ei2.
      destruct (run (call s1) sa ops) as [r sb] eqn:Er. intros H Hn. injection H as <- <-.
      apply all_nil_cons in Hn. destruct Hn as [_ Hn].
      destruct (run_sim _ _ (call s1) (call s2) (rel R) (call_sim s1 s2 R Hsim) ops sa sa2 r sb Hr2 Er Hn) as (sb2 & Er2 & Hr3).
      rewrite Er2. exists sb2. split; [reflexivity|exact Hr3].
Qed.

(* (TARGET) NO SILENT LOSS, any sequence of calls *)
Theorem sss_no_silent_loss (written : gval -> bytes) (s : step) (w0 : gval) (signer : option bytes)
        (boxes : list bytes) (syms : list (bytes * bytes)) (ra rk rb : bytes) (ops : list op) (outs : list outc) (st' : sss_state) :
  honest written s ->
  session s (fresh w0 signer) boxes syms ra rk rb ops = (outs, st') ->
  all_nil outs ->
  session mem_enc (fresh (VBytes (written w0)) signer) boxes syms ra rk rb ops
  = (outs, set_enc st' (VBytes (written (ss_enc st')))).
Proof.
  intros Hh Hs Hn.
  destruct (session_sim s mem_enc (mem_of written) (mem_sim written s Hh) (fresh w0 signer) (fresh (VBytes (written w0)) signer)
              boxes syms ra rk rb ops outs st' ltac:(split; reflexivity) Hs Hn) as (st2 & Hs2 & [HR Heq]).
  rewrite Hs2. f_equal. rewrite Heq. f_equal. exact HR.
Qed.

(* (TARGET) Write1; ...; Writen; Close over a fresh writer *)
Corollary sss_no_silent_loss_pieces (written : gval -> bytes) (s : step) (w0 : gval) (signer : option bytes)
        (boxes : list bytes) (syms : list (bytes * bytes)) (ra rk rb : bytes) (pieces : list bytes) (outs : list outc) (st' : sss_state) :
  honest written s -> written w0 = [] ->
  session s (fresh w0 signer) boxes syms ra rk rb (session_ops pieces) = (outs, st') ->
  all_nil outs ->
  exists stm, session mem_enc (fresh (VBytes []) signer) boxes syms ra rk rb (session_ops pieces) = (outs, stm) /\
              ss_enc stm = VBytes (written (ss_enc st')).
Proof.
  intros Hh Hw Hs Hn. pose proof (sss_no_silent_loss written s w0 signer boxes syms ra rk rb _ outs st' Hh Hs Hn) as H.
  rewrite Hw in H. eexists. split; [exact H|reflexivity].
Qed.

(* ---------- an error of the step is returned by the call during which it happens ---------- *)
Lemma rel_instr (st : sss_state) (o : gval) : ss_enc st = instr o -> rel clean_of st (set_enc st o).
Proof. intros H. split; [exact H|reflexivity]. Qed.
Lemma rel_clean_flag (st st2 : sss_state) : rel clean_of st st2 -> saw_error (ss_enc st) = false.
Proof. intros [H _]. rewrite H. reflexivity. Qed.

(* (TARGET) *)
Theorem sss_write_reports (s : step) (st : sss_state) (o : gval) (p : bytes) (n : Z) (e : gerr) (st' : sss_state) :
  ss_enc st = instr o -> sss_write c (logged s) st p = WRet n e st' -> saw_error (ss_enc st') = true -> e <> None.
Proof.
  intros He Hw Hs ->.
  destruct (write_sim (logged s) s clean_of (logged_sim s) _ _ _ _ _ (rel_instr st o He) Hw) as (st2 & _ & Hr).
  rewrite (rel_clean_flag _ _ Hr) in Hs. discriminate Hs.
Qed.
(* (TARGET) *)
Theorem sss_close_reports (s : step) (st : sss_state) (o : gval) (e : gerr) (st' : sss_state) :
  ss_enc st = instr o -> sss_close c (logged s) st = CloseRet e st' -> saw_error (ss_enc st') = true -> e <> None.
Proof.
  intros He Hw Hs ->.
  destruct (close_sim (logged s) s clean_of (logged_sim s) _ _ _ (rel_instr st o He) Hw) as (st2 & _ & Hr).
  rewrite (rel_clean_flag _ _ Hr) in Hs. discriminate Hs.
Qed.
(* (TARGET) *)
Theorem sss_init_reports (s : step) (st : sss_state) (o : gval) boxes syms ra rk rb (e : gerr) (st' : sss_state) ra' rk' rb' :
  ss_enc st = instr o -> sss_init c (logged s) st boxes syms ra rk rb = IRet e st' ra' rk' rb' ->
  saw_error (ss_enc st') = true -> e <> None.
Proof.
  intros He Hw Hs ->.
  destruct (init_sim (logged s) s clean_of (logged_sim s) _ _ _ _ _ _ _ _ _ _ _ (rel_instr st o He) Hw) as (st2 & _ & Hr).
  rewrite (rel_clean_flag _ _ Hr) in Hs. discriminate Hs.
Qed.

(* ---------- full simulation: related steps with EQUAL errors give equal results at every call ---------- *)
Section Bisim.
Variables s1 s2 : step.
Variable R : gval -> gval -> Prop.
Hypothesis Hbis : step_bisim R s1 s2.

Definition brel (r1 r2 : bres) : Prop :=
  match r1, r2 with
  | BStuck w1, BStuck w2 => w1 = w2
  | BPanic, BPanic => True
  | BRet e1 a1, BRet e2 a2 => e1 = e2 /\ rel R a1 a2
  | _, _ => False
  end.
Definition wrel (r1 r2 : wres) : Prop :=
  match r1, r2 with
  | WStuck w1, WStuck w2 => w1 = w2
  | WRet n1 e1 a1, WRet n2 e2 a2 => n1 = n2 /\ e1 = e2 /\ rel R a1 a2
  | _, _ => False
  end.
Definition crel (r1 r2 : cres) : Prop :=
  match r1, r2 with
  | CloseStuck w1, CloseStuck w2 => w1 = w2
  | ClosePanic, ClosePanic => True
  | CloseRet e1 a1, CloseRet e2 a2 => e1 = e2 /\ rel R a1 a2
  | _, _ => False
  end.

Lemma block_from_bisim (st1 st2 : sss_state) (f : bool) (pt rest : bytes) :
  rel R st1 st2 -> brel (sss_block_from c s1 st1 f pt rest) (sss_block_from c s2 st2 f pt rest).
Proof.
  intros [HR Heq]. destruct st1 as [v w1 k sg buf hh n err]. rewrite Heq. clear Heq.
  generalize dependent (ss_enc st2). intros w2 HR. clear st2.
  unfold sss_block_from, set_enc, set_buf, set_n.
  cbn [ss_v ss_enc ss_key ss_signer ss_buf ss_hh ss_n ss_err] in *.
  destruct (f && negb (Z.of_nat (List.length rest) =? 0)%Z); [exact I|].
  destruct (negb (block_number_ok n)); [split; [reflexivity|split; [exact HR|reflexivity]]|].
  destruct (negb (enc_chunk_ok v (sc_chunk_ct c sg k hh n pt f) 16 n f)); [reflexivity|].
  match goal with |- context [s1 w1 ?p] => destruct (Hbis w1 w2 p HR) as [H1 H2]; destruct (s1 w1 p) as [w1' e1]; destruct (s2 w2 p) as [w2' e2] end.
  cbn [fst snd] in *. subst e2. destruct e1 as [e1|]; (split; [reflexivity|split; [exact H2|reflexivity]]).
Qed.
Lemma block_bisim (st1 st2 : sss_state) (f : bool) :
  rel R st1 st2 -> brel (sss_block c s1 st1 f) (sss_block c s2 st2 f).
Proof. intros Hr. unfold sss_block. rewrite (rel_buf R _ _ Hr). apply block_from_bisim. exact Hr. Qed.

Lemma drain_bisim (fuel : nat) : forall (st1 st2 : sss_state) (ret : Z),
  rel R st1 st2 -> wrel (sss_drain c s1 fuel st1 ret) (sss_drain c s2 fuel st2 ret).
Proof.
  induction fuel as [|fuel IH]; intros st1 st2 ret Hr; cbn [sss_drain]; [reflexivity|].
  rewrite (rel_buf R _ _ Hr).
  destruct (1048576 <? Z.of_nat (List.length (ss_buf st1)))%Z; [|split; [reflexivity|split; [reflexivity|exact Hr]]].
  pose proof (block_bisim _ _ false Hr) as Hb.
  destruct (sss_block c s1 st1 false) as [w| |e sa]; destruct (sss_block c s2 st2 false) as [w'| |e' sa2]; cbn [brel] in Hb; try contradiction.
  - reflexivity.
  - reflexivity.
  - destruct Hb as [<- Hr2]. destruct e as [e|].
    + split; [reflexivity|]. split; [reflexivity|]. apply rel_set_err. exact Hr2.
    + apply IH. apply rel_set_err. exact Hr2.
Qed.
Lemma write_bisim (st1 st2 : sss_state) (p : bytes) :
  rel R st1 st2 -> wrel (sss_write c s1 st1 p) (sss_write c s2 st2 p).
Proof.
  intros Hr. unfold sss_write, sss_write_at.
  assert (He : ss_err st2 = ss_err st1) by (destruct Hr as [_ ->]; reflexivity).
  rewrite He, (rel_buf R _ _ Hr). destruct (ss_err st1); [split; [reflexivity|split; [reflexivity|exact Hr]]|].
  apply drain_bisim. apply rel_set_buf. exact Hr.
Qed.
Lemma close_bisim (st1 st2 : sss_state) :
  rel R st1 st2 -> crel (sss_close c s1 st1) (sss_close c s2 st2).
Proof.
  intros Hr. unfold sss_close.
  pose proof (block_bisim _ _ true Hr) as Hb.
  destruct (sss_block c s1 st1 true) as [w| |e sa]; destruct (sss_block c s2 st2 true) as [w'| |e' sa2]; cbn [brel] in Hb; try contradiction.
  - reflexivity.
  - reflexivity.
  - destruct Hb as [<- Hr2]. destruct e as [e|]; [split; [reflexivity|exact Hr2]|].
    rewrite (rel_buf R _ _ Hr2). destruct (0 <? Z.of_nat (List.length (ss_buf sa)))%Z; [exact I|split; [reflexivity|exact Hr2]].
Qed.

Lemma call_bisim (st1 st2 : sss_state) (o : op) : rel R st1 st2 ->
  fst (call s1 st1 o) = fst (call s2 st2 o) /\ rel R (snd (call s1 st1 o)) (snd (call s2 st2 o)).
Proof.
  intros Hr. destruct o as [p|]; cbn [call].
  - pose proof (write_bisim _ _ p Hr) as Hw.
    destruct (sss_write c s1 st1 p) as [w|n e sa]; destruct (sss_write c s2 st2 p) as [w'|n' e' sa2]; cbn [wrel] in Hw; try contradiction.
    + subst w'. split; [reflexivity|exact Hr].
    + destruct Hw as (_ & <- & Hr2). split; [reflexivity|exact Hr2].
  - pose proof (close_bisim _ _ Hr) as Hc.
    destruct (sss_close c s1 st1) as [w| |e sa]; destruct (sss_close c s2 st2) as [w'| |e' sa2]; cbn [crel] in Hc; try contradiction.
    + subst w'. split; [reflexivity|exact Hr].
    + split; [reflexivity|exact Hr].
    + destruct Hc as [<- Hr2]. split; [reflexivity|exact Hr2].
Qed.
End Bisim.

(* (TARGET) the instrumentation is transparent *)
Theorem sss_logged_transparent (s : step) (st : sss_state) (o : gval) (b : bool) (ops : list op) :
  ss_enc st = VList [o; VBool b] ->
  fst (run (call (logged s)) st ops) = fst (run (call s) (set_enc st o) ops) /\
  rel under_flag (snd (run (call (logged s)) st ops)) (snd (run (call s) (set_enc st o) ops)).
Proof.
  intros He.
  apply (run_bisim _ _ (call (logged s)) (call s) (rel under_flag) (call_bisim (logged s) s under_flag (logged_bisim s))).
  split; [exists b; exact He|reflexivity].
Qed.

(* ---------- the sticky error of Write; Close does not look at it ---------- *)
(* (TARGET) a block whose packet the step refuses (or that overflows the counter) is gone from the buffer, and
   numBlocks - the nonce - is not advanced *)
Lemma sss_block_from_failed (s : step) (st : sss_state) (f : bool) (pt rest : bytes) (e : gerr) (st' : sss_state) :
  sss_block_from c s st f pt rest = BRet e st' -> e <> None ->
  ss_buf st' = rest /\ ss_n st' = ss_n st.
Proof.
  destruct st as [v w k sg buf hh n err]. unfold sss_block_from, set_enc, set_buf, set_n.
  cbn [ss_v ss_enc ss_key ss_signer ss_buf ss_hh ss_n ss_err].
  destruct (f && negb (Z.of_nat (List.length rest) =? 0)%Z); [discriminate|].
  destruct (negb (block_number_ok n)); [intros H _; injection H as _ <-; split; reflexivity|].
  destruct (negb (enc_chunk_ok v (sc_chunk_ct c sg k hh n pt f) 16 n f)); [discriminate|].
  match goal with |- context [s w ?p] => destruct (s w p) as [w' [e1|]] end; cbn [fst snd].
  - intros H _. injection H as _ <-. split; reflexivity.
  - intros H Hne. injection H as <- _. contradiction.
Qed.
Lemma sss_write_sticky (s : step) (st : sss_state) (p : bytes) (e : String.string * list gval) :
  ss_err st = Some e -> sss_write c s st p = WRet 0 (Some e) st.
Proof. intros H. unfold sss_write, sss_write_at. rewrite H. reflexivity. Qed.

Lemma sss_drain_stores (s : step) (fuel : nat) : forall (st : sss_state) (ret n : Z) e (st' : sss_state),
  sss_drain c s fuel st ret = WRet n (Some e) st' -> ss_err st' = Some e.
Proof.
  induction fuel as [|fuel IH]; intros st ret n e st'; cbn [sss_drain]; [discriminate|].
  destruct (1048576 <? Z.of_nat (List.length (ss_buf st)))%Z; [|discriminate].
  destruct (sss_block c s st false) as [w| |e0 sa]; [discriminate|discriminate|].
  destruct e0 as [e0|].
  - intros H. injection H as _ <- <-. reflexivity.
  - apply IH.
Qed.
Lemma sss_write_stores (s : step) (st : sss_state) (p : bytes) (n : Z) e (st' : sss_state) :
  sss_write c s st p = WRet n (Some e) st' -> ss_err st' = Some e.
Proof.
  unfold sss_write, sss_write_at. destruct (ss_err st) as [e0|] eqn:E.
  - intros H. injection H as _ <- <-. exact E.
  - apply sss_drain_stores.
Qed.

Definition bmap (f : sss_state -> sss_state) (r : bres) : bres :=
  match r with BRet e st => BRet e (f st) | BStuck w => BStuck w | BPanic => BPanic end.
Definition cmap (f : sss_state -> sss_state) (r : cres) : cres :=
  match r with CloseRet e st => CloseRet e (f st) | CloseStuck w => CloseStuck w | ClosePanic => ClosePanic end.

Lemma sss_block_from_ignores_err (s : step) (st : sss_state) (f : bool) (e : gerr) (pt rest : bytes) :
  sss_block_from c s (set_err st e) f pt rest = bmap (fun st' => set_err st' e) (sss_block_from c s st f pt rest).
Proof.
  destruct st as [v w k sg buf hh n err]. unfold sss_block_from, set_err, set_buf, set_enc, set_n.
  cbn [ss_v ss_enc ss_key ss_signer ss_buf ss_hh ss_n ss_err].
  destruct (f && negb (Z.of_nat (List.length rest) =? 0)%Z); [reflexivity|].
  destruct (negb (block_number_ok n)); [reflexivity|].
  destruct (negb (enc_chunk_ok v (sc_chunk_ct c sg k hh n pt f) 16 n f)); [reflexivity|].
  match goal with |- context [s w ?p] => destruct (s w p) as [w' [e1|]] end; reflexivity.
Qed.
Lemma sss_block_ignores_err (s : step) (st : sss_state) (f : bool) (e : gerr) :
  sss_block c s (set_err st e) f = bmap (fun st' => set_err st' e) (sss_block c s st f).
Proof. unfold sss_block. change (ss_buf (set_err st e)) with (ss_buf st). apply sss_block_from_ignores_err. Qed.

(* (TARGET) Close never reads sss.err *)
Theorem sss_close_ignores_err (s : step) (st : sss_state) (e : gerr) :
  sss_close c s (set_err st e) = cmap (fun st' => set_err st' e) (sss_close c s st).
Proof.
  unfold sss_close. rewrite sss_block_ignores_err.
  destruct (sss_block c s st true) as [w| |[e0|] sa]; cbn [bmap cmap]; try reflexivity.
  change (ss_buf (set_err sa e)) with (ss_buf sa).
  destruct (0 <? Z.of_nat (List.length (ss_buf sa)))%Z; reflexivity.
Qed.

Lemma sss_close_keeps_err (s : step) (st : sss_state) (e : gerr) (st' : sss_state) :
  sss_close c s st = CloseRet e st' -> ss_err st' = ss_err st.
Proof.
  assert (Hst : st = set_err (set_err st None) (ss_err st)) by (destruct st; reflexivity).
  rewrite Hst at 1. rewrite sss_close_ignores_err.
  destruct (sss_close c s (set_err st None)) as [w| |e1 sa]; cbn [cmap]; try discriminate.
  intros H. injection H as _ <-. reflexivity.
Qed.

(* (TARGET) STICKY: once sss.err is set every later Write returns it and leaves the object untouched *)
Theorem sss_sticky (s : step) (e : String.string * list gval) (ops : list op) : forall (st : sss_state) outs st',
  ss_err st = Some e -> run (call s) st ops = (outs, st') ->
  writes_return (Some e) ops outs /\ ss_err st' = Some e.
Proof.
  induction ops as [|o t IH]; intros st outs st' He; cbn [run].
  - intros H. injection H as <- <-. split; [exact I|exact He].
  - destruct o as [p|]; cbn [call].
    + rewrite (sss_write_sticky s st p e He).
      destruct (run (call s) st t) as [r sb] eqn:Er. intros H. injection H as <- <-.
      destruct (IH st r sb He Er) as [H1 H2]. split; [split; [reflexivity|exact H1]|exact H2].
    + destruct (sss_close c s st) as [w| |e1 sa] eqn:Ec.
      * intros H. injection H as <- <-. split; [apply writes_return_nil|exact He].
      * intros H. injection H as <- <-. split; [apply writes_return_nil|exact He].
      * pose proof (sss_close_keeps_err s st e1 sa Ec) as Hk. rewrite He in Hk.
        destruct (run (call s) sa t) as [r sb] eqn:Er. intros H. injection H as <- <-.
        destruct (IH sa r sb Hk Er) as [H1 H2]. split; [exact H1|exact H2].
Qed.
(* (TARGET) ... and sss.err is set by the Write that returned the error *)
Theorem sss_write_error_sticks (s : step) (st : sss_state) (p : bytes) (n : Z) e (st1 : sss_state) (ops : list op) outs st' :
  sss_write c s st p = WRet n (Some e) st1 -> run (call s) st1 ops = (outs, st') ->
  writes_return (Some e) ops outs /\ (forall q, sss_write c s st1 q = WRet 0 (Some e) st1).
Proof.
  intros Hw Hr. pose proof (sss_write_stores s st p n e st1 Hw) as He.
  split; [exact (proj1 (sss_sticky s e ops st1 outs st' He Hr))|].
  intros q. apply sss_write_sticky. exact He.
Qed.

(* ---------- with a STICKY step (go-codec's Encoder), Close cannot succeed after an error ---------- *)
Section Sticky.
Variable s : step.
Variable broken : gval -> Prop.
Hypothesis Hst : sticky_step broken s.

Definition bad (st : sss_state) : Prop := broken (ss_enc st) \/ block_number_ok (ss_n st) = false.
Definition Inv (st : sss_state) : Prop := ss_err st = None \/ bad st.

Lemma block_from_bad (st : sss_state) (f : bool) (pt rest : bytes) (e : gerr) (st' : sss_state) :
  sss_block_from c s st f pt rest = BRet e st' ->
  (e <> None -> bad st') /\ (bad st -> e <> None /\ bad st').
Proof.
  destruct Hst as [Hs1 Hs2].
  destruct st as [v w k sg buf hh n err]. unfold bad, sss_block_from, set_enc, set_buf, set_n.
  cbn [ss_v ss_enc ss_key ss_signer ss_buf ss_hh ss_n ss_err].
  destruct (f && negb (Z.of_nat (List.length rest) =? 0)%Z); [discriminate|].
  destruct (block_number_ok n) eqn:Hn; cbn [negb].
  2:{ intros H. injection H as <- <-. cbn [ss_enc ss_n]. split; [intros _; right; exact Hn|].
      intros _. split; [discriminate|right; exact Hn]. }
  destruct (negb (enc_chunk_ok v (sc_chunk_ct c sg k hh n pt f) 16 n f)); [discriminate|].
  match goal with |- context [s w ?p] => pose proof (Hs1 w p) as H1; pose proof (Hs2 w p) as H2; destruct (s w p) as [w' [e1|]] end;
    cbn [fst snd] in *; intros H; injection H as <- <-; cbn [ss_enc ss_n].
  - assert (Hb : broken w') by (apply H1; discriminate).
    split; [intros _; left; exact Hb|]. intros _. split; [discriminate|left; exact Hb].
  - split; [intros Hc; contradiction|]. intros [Hb|Hb]; [|discriminate Hb].
    destruct (H2 Hb) as [Hc _]. contradiction.
Qed.
Lemma block_bad (st : sss_state) (f : bool) (e : gerr) (st' : sss_state) :
  sss_block c s st f = BRet e st' -> (e <> None -> bad st') /\ (bad st -> e <> None /\ bad st').
Proof. unfold sss_block. apply block_from_bad. Qed.

Lemma drain_bad (fuel : nat) : forall (st : sss_state) (ret n : Z) (e : gerr) (st' : sss_state),
  ss_err st = None -> sss_drain c s fuel st ret = WRet n e st' ->
  (bad st -> bad st') /\ (e <> None -> bad st') /\ (e = None -> ss_err st' = None).
Proof.
  induction fuel as [|fuel IH]; intros st ret n e st' Herr; cbn [sss_drain]; [discriminate|].
  destruct (1048576 <? Z.of_nat (List.length (ss_buf st)))%Z.
  - destruct (sss_block c s st false) as [w| |e0 sa] eqn:Eb; [discriminate|discriminate|].
    destruct (block_bad _ _ _ _ Eb) as [B1 B2].
    destruct e0 as [e0|].
    + intros H. injection H as _ <- <-. assert (Hb : bad sa) by (apply B1; discriminate).
      split; [intros _; exact Hb|]. split; [intros _; exact Hb|discriminate].
    + intros H. destruct (IH (set_err sa None) _ _ _ _ eq_refl H) as (I1 & I2 & I3).
      split; [intros Hb; destruct (B2 Hb) as [Hc _]; contradiction|]. split; [exact I2|exact I3].
  - intros H. injection H as _ <- <-. split; [auto|]. split; [intros Hc; contradiction|intros _; exact Herr].
Qed.

Lemma close_bad (st : sss_state) (e : gerr) (st' : sss_state) :
  sss_close c s st = CloseRet e st' -> (e <> None -> bad st') /\ (bad st -> e <> None /\ bad st').
Proof.
  unfold sss_close.
  destruct (sss_block c s st true) as [w| |e0 sa] eqn:Eb; [discriminate|discriminate|].
  destruct (block_bad _ _ _ _ Eb) as [B1 B2].
  destruct e0 as [e0|].
  - intros H. injection H as <- <-. split; [exact B1|exact B2].
  - destruct (0 <? Z.of_nat (List.length (ss_buf sa)))%Z; [discriminate|].
    intros H. injection H as <- <-. split; [exact B1|exact B2].
Qed.

Lemma call_bad (st : sss_state) (o : op) (e : gerr) (st' : sss_state) : Inv st -> call s st o = (Ret e, st') ->
  Inv st' /\ (bad st -> bad st') /\ (e <> None -> bad st') /\ (o = OpClose -> bad st -> e <> None).
Proof.
  intros Hi. destruct o as [p|]; cbn [call].
  - unfold sss_write, sss_write_at. destruct (ss_err st) as [e0|] eqn:Ee.
    + intros H. injection H as <- <-. destruct Hi as [Hi|Hi]; [rewrite Ee in Hi; discriminate Hi|].
      split; [right; exact Hi|]. split; [auto|]. split; [intros _; exact Hi|discriminate].
    + destruct (sss_drain c s 296 (set_buf st (ss_buf st ++ p)) (Z.of_nat (List.length p))) as [w|n e1 sa] eqn:Ed; [discriminate|].
      intros H. injection H as <- <-.
      destruct (drain_bad 296 (set_buf st (ss_buf st ++ p)) _ _ _ _ Ee Ed) as (D1 & D2 & D3).
      split; [destruct e1 as [e1|]; [right; apply D2; discriminate|left; apply D3; reflexivity]|].
      split; [exact D1|]. split; [exact D2|discriminate].
  - destruct (sss_close c s st) as [w| |e1 sa] eqn:Ec; [discriminate|discriminate|].
    intros H. injection H as <- <-. destruct (close_bad _ _ _ Ec) as [C1 C2].
    pose proof (sss_close_keeps_err s st e1 sa Ec) as Hk.
    split; [destruct Hi as [Hi|Hi]; [left; rewrite Hk; exact Hi|right; exact (proj2 (C2 Hi))]|].
    split; [intros Hb; exact (proj2 (C2 Hb))|]. split; [exact C1|]. intros _ Hb. exact (proj1 (C2 Hb)).
Qed.

(* (TARGET) with a sticky step: after a call that returned an error, no later Close returns nil *)
Theorem sss_no_nil_close_after_error (st : sss_state) (ops : list op) (outs : list outc) (st' : sss_state) (i j : nat) e :
  Inv st -> run (call s) st ops = (outs, st') ->
  (i < j)%nat -> nth_error outs i = Some (Ret (Some e)) -> nth_error ops j = Some OpClose ->
  nth_error outs j <> Some (Ret None).
Proof.
  intros Hi Hr. exact (run_no_nil_close_after_error _ (call s) Inv bad call_bad ops st outs st' Hi Hr i j e).
Qed.

Lemma init_inv (st : sss_state) boxes syms ra rk rb (e : gerr) (st1 : sss_state) ra' rk' rb' :
  ss_err st = None -> sss_init c s st boxes syms ra rk rb = IRet e st1 ra' rk' rb' -> Inv st1.
Proof.
  intros He. unfold sss_init, Inv.
  destruct (sc_check_receivers boxes syms) as [u|e0]; [|intros H; injection H as _ <- _ _ _; left; exact He].
  destruct (shuffle (all_rcpts boxes syms) ra) as [[rs ra1]|]; [|intros H; injection H as _ <- _ _ _; left; exact He].
  destruct (read_full 32 rb) as [[eph rb1]|]; [|intros H; injection H as _ <- _ _ _; left; exact He].
  destruct (read_full 32 rk) as [[key rk1]|]; [|intros H; injection H as _ <- _ _ _; left; exact He].
  destruct (negb (Nat.eqb (List.length (sc_sender_pub_go c (ss_signer st))) 32)); [discriminate|].
  cbv zeta. intros H. injection H as _ <- _ _ _. left. exact He.
Qed.
End Sticky.

(* (TARGET) with a sticky step: if init; Write p1; ..; Write pn; Close were all made and Close returned nil, every call
   returned nil *)
Theorem sss_close_nil_all_nil (broken : gval -> Prop) (s : step) (st0 : sss_state)
        (boxes : list bytes) (syms : list (bytes * bytes)) (ra rk rb : bytes) (pieces : list bytes) (outs : list outc) (st' : sss_state) :
  sticky_step broken s -> ss_err st0 = None ->
  session s st0 boxes syms ra rk rb (session_ops pieces) = (outs, st') ->
  List.length outs = S (S (List.length pieces)) -> last outs (Halt EmptyString) = Ret None ->
  all_nil outs.
Proof.
  intros Hst He0 Hs Hl Hlast. revert Hs. unfold session.
  destruct (sss_init c s st0 boxes syms ra rk rb) as [|e st1 ra' rk' rb'] eqn:Ei.
  - intros H. injection H as <- <-. discriminate Hl.
  - destruct e as [e|]; [intros H; injection H as <- <-; discriminate Hl|].
    destruct (run (call s) st1 (session_ops pieces)) as [r sb] eqn:Er. intros H. injection H as <- <-.
    cbn [List.length] in Hl. injection Hl as Hl.
    assert (Hlast' : last r (Halt EmptyString) = Ret None) by (destruct r; [discriminate Hl|exact Hlast]).
    constructor; [reflexivity|].
    unfold session_ops in Er.
    refine (run_last_close_nil _ (call s) (Inv broken) (bad broken) (call_bad s broken Hst) (map OpWrite pieces) st1 r sb _ Er _ Hlast').
    + exact (init_inv s broken st0 _ _ _ _ _ _ _ _ _ _ He0 Ei).
    + rewrite map_length. exact Hl.
Qed.

(* (TARGET) C14 AS WORDED, for a sticky honest step: if Write p1; ..; Write pn; Close were all made and Close
   returned nil, then every call returned nil and the writer took the complete message *)
Theorem sss_close_nil_complete (written : gval -> bytes) (broken : gval -> Prop) (s : step) (w0 : gval) (signer : option bytes)
        (boxes : list bytes) (syms : list (bytes * bytes)) (ra rk rb : bytes) (pieces : list bytes) (outs : list outc) (st' : sss_state) :
  honest written s -> sticky_step broken s -> written w0 = [] ->
  session s (fresh w0 signer) boxes syms ra rk rb (session_ops pieces) = (outs, st') ->
  List.length outs = S (S (List.length pieces)) -> last outs (Halt EmptyString) = Ret None ->
  all_nil outs /\
  exists stm, session mem_enc (fresh (VBytes []) signer) boxes syms ra rk rb (session_ops pieces) = (outs, stm) /\
              ss_enc stm = VBytes (written (ss_enc st')).
Proof.
  intros Hh Hst Hw Hs Hl Hlast.
  pose proof (sss_close_nil_all_nil broken s (fresh w0 signer) boxes syms ra rk rb pieces outs st' Hst eq_refl Hs Hl Hlast) as Hn.
  split; [exact Hn|]. exact (sss_no_silent_loss_pieces written s w0 signer boxes syms ra rk rb pieces outs st' Hh Hw Hs Hn).
Qed.

End S.

(* ---------- the statements on concrete writers (toy primitives; computed) ---------- *)
Definition ex_io : gerr := Some ("ErrIO"%string, []).
Definition ex_session (s : step) (w0 : gval) (ops : list op) : list outc * sss_state :=
  session toy_crypto s (fresh w0 (Some (repeat x05 32))) [repeat x01 32] [] (repeat x07 200) (repeat x07 200) (repeat x07 200) ops.
Definition mem_bytes (st : sss_state) : bytes := match ss_enc st with VBytes o => o | _ => [] end.

Example ex_sc_complete :
  let r := ex_session (flaky 9 0) (flaky_obj [] 0) (session_ops [[x61; x62]; [x63]]) in
  let m := ex_session mem_enc (VBytes []) (session_ops [[x61; x62]; [x63]]) in
  fst r = [Ret None; Ret None; Ret None; Ret None] /\ fst m = fst r /\
  flaky_written (ss_enc (snd r)) = mem_bytes (snd m) /\ List.length (mem_bytes (snd m)) = 273%nat.
Proof. vm_compute. repeat split; reflexivity. Qed.

Example ex_sc_fault_reported :
  fst (ex_session (flaky 0 3) (flaky_obj [] 0) (session_ops [[x61; x62]; [x63]])) = [Ret ex_io] /\
  fst (ex_session (flaky 1 3) (flaky_obj [] 0) (session_ops [[x61; x62]; [x63]])) = [Ret None; Ret None; Ret None; Ret ex_io].
Proof. vm_compute. split; reflexivity. Qed.

(* FINDING (Close after a failed Write), as for encryptStream: 1 MiB + 1 byte in one Write, the writer refuses the
   first payload packet and then works again.  Write returns the error (sss.err set, the block gone, numBlocks
   still 0); Close signcrypts the one byte left as the final block number 0 and returns NIL; the writer holds,
   byte for byte, the complete signcrypted message for the plaintext "a". *)
Example ex_sc_close_after_failed_write :
  let big := (repeat x00 1048576 ++ [x61])%list in
  let r := ex_session (flaky 1 0) (flaky_obj [] 0) [OpWrite big; OpClose] in
  let m := ex_session mem_enc (VBytes []) [OpWrite [x61]; OpClose] in
  fst r = [Ret None; Ret ex_io; Ret None] /\ ss_err (snd r) = ex_io /\ ss_n (snd r) = 1%N /\
  fst m = [Ret None; Ret None; Ret None] /\
  bytes_eqb (flaky_written (ss_enc (snd r))) (mem_bytes (snd m)) = true.
Proof. vm_compute. repeat split; reflexivity. Qed.
End Sc.


(* ================= the base-X stream encoder (/repo/encoding/basex/stream.go; specification functions of GoAstProofs5b)
   ================= *)
(* Here the underlying io.Writer is CONCRETE (GoAstProofs5b.wr): every Write call is appended to w_log, whether it fails
   or not, and its error is the head of the schedule w_sched (an exhausted schedule never fails).  The schedule is
   arbitrary, so the writer may fail at any call and recover at any later one.  "The bytes written" are the
   concatenation of the log; that reading is exact when no call failed, which is what the theorems establish
   before using it. *)
Module Bx.
Import GoAstProofs5b GoAstProofs5d.

Definition werr (e : option String.string) : gerr := match e with Some x => Some (x, []) | None => None end.
Definition written_log (w : wr) : bytes := List.concat (w_log w).

(* the writer calls [calls], handed to the writer w: all succeeded, the writer is w' *)
Lemma run_calls_ok (calls : list bytes) (w : wr) (j : nat) (w' : wr) :
  run_calls calls w = (j, None, w') ->
  w_log w' = w_log w ++ calls /\ w_sched w' = skipn (List.length calls) (w_sched w).
Proof.
  intros H. pose proof (run_calls_log base62 128 ltac:(rewrite ibl62_nat; lia) ltac:(lia) calls w) as HL. rewrite H in HL. destruct HL as (H1 & H2 & H3 & H4).
  rewrite (H4 eq_refl) in H1, H2. rewrite firstn_all in H1. split; assumption.
Qed.

(* what the schedule says about a run of writer calls: nil is returned exactly when every entry used was nil,
   and an error returned is the entry of the last call made *)
Lemma run_calls_sched (calls : list bytes) : forall (w : wr),
  let '(j, e, w') := run_calls calls w in
  w_sched w' = skipn j (w_sched w) /\
  (e = None -> Forall (fun x => x = None) (firstn j (w_sched w))) /\
  (forall x, e = Some x -> In (Some x) (firstn j (w_sched w))).
Proof.
  induction calls as [|c0 t IH]; intros w; cbn [run_calls].
  - cbn [firstn skipn]. split; [reflexivity|]. split; [intros _; constructor|discriminate].
  - unfold wr_write. destruct (w_sched w) as [|er s] eqn:Es.
    + specialize (IH (mkWr (w_log w ++ [c0]) [])).
      destruct (run_calls t (mkWr (w_log w ++ [c0]) [])) as [[j e] w']. cbn [w_sched] in IH.
      destruct IH as (H1 & H2 & H3). rewrite skipn_nil in H1. rewrite firstn_nil in H2, H3.
      rewrite skipn_nil, firstn_nil. split; [exact H1|]. split; [intros _; constructor|exact H3].
    + destruct er as [x|].
      * cbn [w_sched firstn skipn]. split; [reflexivity|]. split; [discriminate|].
        intros x0 Hx. injection Hx as <-. left. reflexivity.
      * specialize (IH (mkWr (w_log w ++ [c0]) s)).
        destruct (run_calls t (mkWr (w_log w ++ [c0]) s)) as [[j e] w']. cbn [w_sched] in IH.
        destruct IH as (H1 & H2 & H3). cbn [firstn skipn]. split; [exact H1|]. split.
        -- intros He. constructor; [reflexivity|exact (H2 He)].
        -- intros x Hx. right. exact (H3 x Hx).
Qed.

Section S.
Variable en : encoding.
Variable K : nat.
Local Notation I := (ibl_nat en).
Local Notation O := (obl_nat en).
Hypothesis Hibl : (0 < I)%nat.
Hypothesis HK : (1 <= K)%nat.

(* one call on the encoder object.  A Write that returns nil has reached the trailing `copy` (pending_copy, the one
   statement GoAstProofs5b could not run in the evaluator); a Write that returns an error returned before it *)
Definition call (o : gobj) (c : op) : outc * gobj :=
  match c with
  | OpWrite p =>
    let '(n, er, o', p') := gw_write en K o p in
    (Ret (werr er), match er with None => pending_copy o' p' | Some _ => o' end)
  | OpClose => let (er, o') := gw_close en o in (Ret (werr er), o')
  end.

(* NewEncoder(enc, w) *)
Definition fresh (w : wr) : gobj := mkGo None (zeros I) 0 (zeros (K * O)) w.
Lemma fresh_ok (w : wr) : gobj_ok en K (fresh w).
Proof.
  unfold gobj_ok, fresh, zeros. cbn [go_buf go_out go_err go_nbuf]. rewrite !repeat_length.
  split; [reflexivity|]. split; [reflexivity|]. intros _. exact Hibl.
Qed.

(* the model's writes for a sequence of calls (a Close flushes and empties the buffer) *)
Fixpoint bxe_run (mb : bytes) (ops : list op) : list bytes :=
  match ops with
  | [] => []
  | OpWrite p :: t => let (ws, mb') := bxe_write en mb p in ws ++ bxe_run mb' t
  | OpClose :: t => bxe_close en mb ++ bxe_run [] t
  end.
Lemma bxe_run_session (pieces : list bytes) : forall mb, bxe_run mb (session_ops pieces) = bxe_session en mb pieces.
Proof.
  unfold session_ops. induction pieces as [|p t IH]; intros mb; cbn [map app bxe_run bxe_session].
  - apply app_nil_r.
  - destruct (bxe_write en mb p) as [ws mb']. rewrite IH. reflexivity.
Qed.

(* what the model says one call hands to the writer, and the buffer it leaves *)
Definition model_step (mb : bytes) (c : op) : list bytes * bytes :=
  match c with OpWrite p => bxe_write en mb p | OpClose => (bxe_close en mb, []) end.
Definition model_calls (mb : bytes) (c : op) : list bytes :=
  match c with OpWrite p => go_calls en K (fst (bxe_write en mb p)) | OpClose => bxe_close en mb end.

Lemma KO_pos : (0 < K * O)%nat.
Proof. pose proof (obl_nat_pos en Hibl). nia. Qed.

Lemma concat_model_calls (mb : bytes) (c : op) : List.concat (model_calls mb c) = List.concat (fst (model_step mb c)).
Proof. destruct c as [p|]; cbn [model_calls model_step fst]; [apply concat_go_calls, KO_pos|reflexivity]. Qed.

(* one call against the model: the Go code makes the model's writer calls in order up to and including the first
   that fails, returns that error (or nil) and stores it in e.err *)
Lemma call_model (o : gobj) (c : op) : gobj_ok en K o -> go_err o = None ->
  let mb := firstn (go_nbuf o) (go_buf o) in
  exists j erm,
    run_calls (model_calls mb c) (go_w o) = (j, erm, go_w (snd (call o c))) /\
    fst (call o c) = Ret (werr erm) /\ go_err (snd (call o c)) = erm /\
    (erm = None -> gobj_ok en K (snd (call o c)) /\
                   firstn (go_nbuf (snd (call o c))) (go_buf (snd (call o c))) = snd (model_step mb c)).
Proof.
  intros Hok Herr. cbv zeta. destruct c as [p|]; cbn [call model_calls model_step].
  - pose proof (gw_write_model en K Hibl HK o p Hok Herr) as HM. cbv zeta in HM.
    destruct (bxe_write en (firstn (go_nbuf o) (go_buf o)) p) as [ws mb']. cbn [fst snd].
    destruct (run_calls (go_calls en K ws) (go_w o)) as [[j erm] wm].
    destruct (gw_write en K o p) as [[[n er] o'] p'].
    destruct HM as (H1 & H2 & H3 & H4). subst er. exists j, erm. cbn [fst snd].
    destruct erm as [x|].
    + split; [rewrite H2; reflexivity|]. split; [reflexivity|]. split; [exact H3|discriminate].
    + destruct H4 as (_ & Hnb & Hfb & Hok').
      split; [unfold pending_copy; cbn [go_w]; rewrite H2; reflexivity|]. split; [reflexivity|].
      split; [unfold pending_copy; cbn [go_err]; exact H3|]. intros _. split; [exact Hok'|].
      unfold pending_copy in *. cbn [go_nbuf go_buf] in *. exact Hfb.
  - pose proof (gw_close_model en K Hibl HK o Hok Herr) as HM. cbv zeta in HM.
    destruct (run_calls (bxe_close en (firstn (go_nbuf o) (go_buf o))) (go_w o)) as [[j erm] wm].
    destruct (gw_close en o) as [er o'].
    destruct HM as (H1 & H2 & H3 & H4 & H5 & H6). subst er. exists j, erm. cbn [fst snd].
    split; [rewrite H2; reflexivity|]. split; [reflexivity|]. split; [exact H3|]. intros He.
    split.
    + unfold gobj_ok. rewrite H5, H6, H4. destruct Hok as (A & _ & _). split; [exact A|]. split; [reflexivity|]. intros _. exact Hibl.
    + rewrite H4. reflexivity.
Qed.

(* (TARGET) NO SILENT LOSS, any sequence of calls, any schedule of the writer *)
Theorem bx_no_silent_loss (ops : list op) : forall (o : gobj) (outs : list outc) (o' : gobj),
  gobj_ok en K o -> go_err o = None ->
  run call o ops = (outs, o') -> all_nil outs ->
  written_log (go_w o') = written_log (go_w o) ++ List.concat (bxe_run (firstn (go_nbuf o) (go_buf o)) ops) /\
  gobj_ok en K o' /\ go_err o' = None.
Proof.
  induction ops as [|c t IH]; intros o outs o' Hok Herr; cbn [run bxe_run].
  - intros H _. injection H as <- <-. cbn [List.concat]. rewrite app_nil_r. auto.
  - destruct (call_model o c Hok Herr) as (j & erm & Hrc & Hret & He & Hnext).
    destruct (call o c) as [r oa]. cbn [fst snd] in *. subst r.
    destruct (run call oa t) as [rs ob] eqn:Er. intros H Hn. injection H as <- <-.
    apply all_nil_cons in Hn. destruct Hn as [Hr Hn].
    destruct erm as [x|]; [discriminate Hr|]. destruct (Hnext eq_refl) as [Hoka Hmb].
    destruct (IH oa rs ob Hoka He Er Hn) as (Hlog & Hokb & Heb).
    split; [|split; assumption].
    rewrite Hlog, Hmb. destruct (run_calls_ok _ _ _ _ Hrc) as [Hl _].
    unfold written_log. rewrite Hl, concat_app, concat_model_calls, <- app_assoc. f_equal.
    destruct c as [p|]; cbn [model_step fst snd].
    + destruct (bxe_write en (firstn (go_nbuf o) (go_buf o)) p) as [ws mb']. cbn [fst snd]. rewrite concat_app. reflexivity.
    + rewrite concat_app. reflexivity.
Qed.

(* (TARGET) NewEncoder; Write1; ...; Writen; Close: if every call returned nil the writer holds exactly the
   base-X encoding of the whole input *)
Corollary bx_no_silent_loss_pieces (w : wr) (pieces : list bytes) (outs : list outc) (o' : gobj) :
  run call (fresh w) (session_ops pieces) = (outs, o') -> all_nil outs ->
  written_log (go_w o') = written_log w ++ BaseX.encode en (List.concat pieces).
Proof.
  intros Hr Hn. destruct (bx_no_silent_loss _ _ _ _ (fresh_ok w) eq_refl Hr Hn) as (H & _).
  rewrite H. cbn [fresh go_w go_nbuf firstn]. rewrite bxe_run_session, bxe_session_encode; [reflexivity|].
  unfold ibl_nat in Hibl. lia.
Qed.

(* (TARGET) ERROR RETURNED AT ONCE: a call that runs with e.err = nil uses some j entries of the writer's schedule;
   it returns nil exactly when all of them were nil, and an error it returns is one of them *)
Theorem bx_call_reports (o : gobj) (c : op) : gobj_ok en K o -> go_err o = None ->
  exists j erm, fst (call o c) = Ret (werr erm) /\
    w_sched (go_w (snd (call o c))) = skipn j (w_sched (go_w o)) /\
    (erm = None <-> Forall (fun x => x = None) (firstn j (w_sched (go_w o)))) /\
    (forall x, erm = Some x -> In (Some x) (firstn j (w_sched (go_w o)))).
Proof.
  intros Hok Herr. destruct (call_model o c Hok Herr) as (j & erm & Hrc & Hret & _).
  pose proof (run_calls_sched (model_calls (firstn (go_nbuf o) (go_buf o)) c) (go_w o)) as HS. rewrite Hrc in HS.
  destruct HS as (H1 & H2 & H3). exists j, erm. split; [exact Hret|]. split; [exact H1|]. split; [|exact H3].
  split; [exact H2|]. intros Hall. destruct erm as [x|]; [|reflexivity].
  exfalso. pose proof (H3 x eq_refl) as Hin. rewrite Forall_forall in Hall. discriminate (Hall _ Hin).
Qed.

(* (TARGET) STICKY: with e.err set, Write AND Close return it and do nothing; a call that returns an error has set it *)
Theorem bx_sticky (x : String.string) (ops : list op) : forall (o : gobj),
  go_err o = Some x -> run call o ops = (map (fun _ => Ret (werr (Some x))) ops, o).
Proof.
  induction ops as [|c t IH]; intros o He; cbn [run map]; [reflexivity|].
  assert (Hc : call o c = (Ret (werr (Some x)), o)).
  { destruct c as [p|]; cbn [call]; unfold gw_write, gw_close; rewrite He; reflexivity. }
  rewrite Hc, (IH o He). reflexivity.
Qed.
(* (TARGET) *)
Theorem bx_error_sticks (o : gobj) (c : op) (x : String.string * list gval) : gobj_ok en K o -> go_err o = None ->
  fst (call o c) = Ret (Some x) ->
  go_err (snd (call o c)) = Some (fst x) /\
  forall ops, run call (snd (call o c)) ops = (map (fun _ => Ret (Some x)) ops, snd (call o c)).
Proof.
  intros Hok Herr Hret. destruct (call_model o c Hok Herr) as (j & erm & _ & Hret' & He & _).
  rewrite Hret' in Hret. destruct erm as [y|]; [|discriminate Hret]. injection Hret as <-. cbn [fst].
  split; [exact He|]. intros ops. exact (bx_sticky y ops _ He).
Qed.
End S.

(* base62, the 128-block output buffer of NewEncoder; the writer fails at its 2nd call and works again afterwards *)
Definition ex_ops : list op := [OpWrite (repeat x61 40); OpWrite (repeat x62 30); OpClose].
Example ex_bx_complete :
  let r := run (call base62 128) (fresh base62 128 (mkWr [] [None; None; None])) ex_ops in
  fst r = [Ret None; Ret None; Ret None] /\
  written_log (go_w (snd r)) = BaseX.encode base62 (repeat x61 40 ++ repeat x62 30).
Proof. vm_compute. split; reflexivity. Qed.
Example ex_bx_fault_sticky :
  let r := run (call base62 128) (fresh base62 128 (mkWr [] [None; Some "ErrIO"%string; None])) ex_ops in
  fst r = [Ret None; Ret (Some ("ErrIO"%string, [])); Ret (Some ("ErrIO"%string, []))] /\
  List.length (w_log (go_w (snd r))) = 2%nat.
Proof. vm_compute. split; reflexivity. Qed.
End Bx.


(* ================= the armor encoder stream (/repo/armor.go WITH THE STICKY-ERROR FIX; specification functions ga_write /
   ga_close of GoAstProofs5d: armorEncoderStream.Write / Close over the base-X encoder that writes into the shared buffer;
   after every call s.err is the error the call returned) ================= *)
Module Ar.
Import GoAstProofs5b GoAstProofs5d.
Import Bx.

(* the armorEncoderStream object: the base-X encoder object, the pending characters (s.buf), nWords, the
   output writer s.encoded, the sticky error s.err *)
Record ast := mkAst { a_o : gobj; a_chars : bytes; a_k : N; a_w : wr; a_err : option String.string }.

Section S.
Variable footer : bytes.

(* one call; the error stored in s.err is the one returned (GoAstProofs5d: go_armor_Write_aliased / _Close_aliased /
   _Write_sticky / _Close_sticky) *)
Definition ar_write (st : ast) (p : bytes) : outc * ast :=
  let '(n, er, o2, chars', k', w') := ga_write (a_o st) (a_chars st) (a_k st) (a_w st) (a_err st) p in
  (Ret (werr er), mkAst o2 chars' k' w' er).
Definition ar_close (st : ast) : outc * ast :=
  let '(e, o2, chars2, k2, w4) := ga_close (a_o st) (a_chars st) (a_k st) (a_w st) (a_err st) footer in
  (Ret (werr e), mkAst o2 chars2 k2 w4 e).
Definition call (st : ast) (c : op) : outc * ast :=
  match c with OpWrite p => ar_write st p | OpClose => ar_close st end.

(* the calls, on the object as each call leaves it (also after an error, also after a Close): collected errors and
   the final object *)
Definition ar_run (st : ast) (ops : list op) : list outc * ast := run call st ops.

(* the object newArmorEncoderStream returns, over the writer w (which has already been handed the header) *)
Definition fresh (w : wr) : ast := mkAst (Bx.fresh base62 128 (mkWr [] [])) [] 0 w None.

(* what the constructor establishes and every call that returns nil keeps; s.err = nil is part of it *)
Definition inv (st : ast) : Prop :=
  gobj_ok base62 128 (a_o st) /\ go_err (a_o st) = None /\ go_w (a_o st) = mkWr [] [] /\ a_err st = None.
Definition model_of (st : ast) : ae_state := mkAe (firstn (go_nbuf (a_o st)) (go_buf (a_o st))) (a_chars st) (a_k st).

Lemma fresh_inv (w : wr) : inv (fresh w).
Proof.
  split; [|split; [reflexivity|split; reflexivity]]. apply (Bx.fresh_ok base62 128). rewrite ibl62_nat. lia.
Qed.

(* Close as the last call, if at all: what happens after a Close that SUCCEEDED (s.err stays nil, a second Close would
   write the footer again) is outside the property *)
Fixpoint close_last (ops : list op) : Prop :=
  match ops with
  | [] => True
  | OpWrite _ :: t => close_last t
  | OpClose :: t => t = []
  end.
Lemma close_last_session (pieces : list bytes) : close_last (session_ops pieces).
Proof. unfold session_ops. induction pieces as [|p t IH]; cbn [map app close_last]; [reflexivity|exact IH]. Qed.

(* the model's output for a sequence of calls (up to the first Close) *)
Fixpoint ae_run (st : ae_state) (ops : list op) : bytes :=
  match ops with
  | [] => []
  | OpWrite p :: t => let (o, st') := ae_write st p in o ++ ae_run st' t
  | OpClose :: _ => ae_close st footer
  end.
Lemma ae_run_session (pieces : list bytes) : forall st, ae_run st (session_ops pieces) = ae_session st pieces footer.
Proof.
  unfold session_ops. induction pieces as [|p t IH]; intros st; cbn [map app ae_run ae_session]; [reflexivity|].
  destruct (ae_write st p) as [o st']. rewrite IH. reflexivity.
Qed.

(* after every call s.err is the returned error *)
Lemma call_stores (st : ast) (c : op) : exists er, fst (call st c) = Ret (werr er) /\ a_err (snd (call st c)) = er.
Proof.
  destruct c as [p|]; cbn [call]; unfold ar_write, ar_close.
  - destruct (ga_write (a_o st) (a_chars st) (a_k st) (a_w st) (a_err st) p) as [[[[[n er] o2] chars'] k'] w'].
    exists er. split; reflexivity.
  - destruct (ga_close (a_o st) (a_chars st) (a_k st) (a_w st) (a_err st) footer) as [[[[e o2] chars2] k2] w4].
    exists e. split; reflexivity.
Qed.
(* with s.err set a call returns it and changes nothing *)
Lemma call_sticky (st : ast) (c : op) (x : String.string) : a_err st = Some x -> call st c = (Ret (werr (Some x)), st).
Proof.
  intros He. destruct st as [o chars k w e]. cbn [a_err] in He. subst e.
  destruct c as [p|]; cbn [call]; unfold ar_write, ar_close; cbn [a_o a_chars a_k a_w a_err];
    [rewrite ga_write_sticky|rewrite ga_close_sticky]; reflexivity.
Qed.

(* one Write against the model: the writer calls are a cutting of the model's output, made in order up to the first
   that fails, whose error is returned and stored; a Write that returns nil keeps the invariant *)
Lemma write_model (st : ast) (p : bytes) : inv st ->
  let (out, m') := ae_write (model_of st) p in
  exists (calls : list bytes) (j : nat) (er : option String.string),
    List.concat calls = out /\
    run_calls calls (a_w st) = (j, er, a_w (snd (ar_write st p))) /\
    fst (ar_write st p) = Ret (werr er) /\ a_err (snd (ar_write st p)) = er /\
    (er = None -> inv (snd (ar_write st p)) /\ model_of (snd (ar_write st p)) = m').
Proof.
  intros (Hok & Herr & Hw & He). destruct st as [o chars k w e]. cbn [a_o a_chars a_k a_w a_err] in *. subst e.
  pose proof (ga_write_model o chars k w p Hok Herr Hw) as HM. cbv zeta in HM.
  unfold model_of, ar_write. cbn [a_o a_chars a_k a_w a_err].
  destruct (ae_write (mkAe (firstn (go_nbuf o) (go_buf o)) chars k) p) as [out m'].
  destruct (ga_write o chars k w None p) as [[[[[n er] o2] chars'] k'] w'].
  destruct HM as (_ & Hok2 & Herr2 & Hw2 & Hbx & calls & j & Hcat & Hrc & Hst).
  exists calls, j, er. cbn [fst snd a_o a_chars a_k a_w a_err].
  split; [exact Hcat|]. split; [exact Hrc|]. split; [reflexivity|]. split; [reflexivity|].
  intros He. split; [split; [exact Hok2|split; [exact Herr2|split; [exact Hw2|exact He]]]|].
  destruct (Hst He) as [-> ->]. rewrite Hbx. destruct m'; reflexivity.
Qed.

Lemma close_model (st : ast) : inv st ->
  exists (calls : list bytes) (j : nat) (er : option String.string),
    List.concat calls = ae_close (model_of st) footer /\
    run_calls calls (a_w st) = (j, er, a_w (snd (ar_close st))) /\ fst (ar_close st) = Ret (werr er) /\
    a_err (snd (ar_close st)) = er.
Proof.
  intros (Hok & Herr & Hw & He). destruct st as [o chars k w e]. cbn [a_o a_chars a_k a_w a_err] in *. subst e.
  pose proof (ga_close_model o chars k w footer Hok Herr Hw) as HM. cbv zeta in HM.
  unfold model_of, ar_close. cbn [a_o a_chars a_k a_w a_err].
  destruct (ga_close o chars k w None footer) as [[[[e o2] chars2] k2] w4]. destruct HM as (calls & j & Hcat & Hrc).
  exists calls, j, e. cbn [fst snd a_w a_err]. split; [exact Hcat|]. split; [exact Hrc|]. split; reflexivity.
Qed.

(* (TARGET) NO SILENT LOSS, any schedule of the writer *)
Theorem ar_no_silent_loss (ops : list op) : forall (st : ast) (outs : list outc) (stf : ast),
  inv st -> close_last ops -> ar_run st ops = (outs, stf) -> all_nil outs ->
  written_log (a_w stf) = written_log (a_w st) ++ ae_run (model_of st) ops.
Proof.
  unfold ar_run. induction ops as [|c t IH]; intros st outs stf Hinv Hcl; cbn [run ae_run].
  - intros H _. injection H as <- <-. rewrite app_nil_r. reflexivity.
  - destruct c as [p|]; cbn [call close_last] in *.
    + pose proof (write_model st p Hinv) as HM.
      destruct (ae_write (model_of st) p) as [out m'].
      destruct HM as (calls & j & er & Hcat & Hrc & Hret & _ & Hm').
      destruct (ar_write st p) as [r st']. cbn [fst snd] in *. subst r.
      destruct (run call st' t) as [rs stf'] eqn:Er. intros H Hn. injection H as <- <-.
      apply all_nil_cons in Hn. destruct Hn as [Hr Hn]. destruct er as [x|]; [discriminate Hr|].
      destruct (Hm' eq_refl) as [Hinv' Hmo].
      rewrite (IH st' rs stf' Hinv' Hcl Er Hn), Hmo.
      destruct (run_calls_ok _ _ _ _ Hrc) as [Hl _]. unfold written_log. rewrite Hl, concat_app, Hcat, app_assoc. reflexivity.
    + subst t. destruct (close_model st Hinv) as (calls & j & er & Hcat & Hrc & Hret & _).
      destruct (ar_close st) as [r st4]. cbn [fst snd run] in *. subst r.
      intros H Hn. injection H as <- <-. apply all_nil_cons in Hn. destruct Hn as [Hr _].
      destruct er as [x|]; [discriminate Hr|].
      destruct (run_calls_ok _ _ _ _ Hrc) as [Hl _]. unfold written_log. rewrite Hl, concat_app, Hcat. reflexivity.
Qed.

(* (TARGET) NewArmor62EncoderStream (the header is already in the writer); Write1; ...; Writen; Close: if every
   call returned nil the writer holds the header followed by exactly the armor of the whole input *)
Corollary ar_no_silent_loss_pieces (header : bytes) (w : wr) (pieces : list bytes) (outs : list outc) (stf : ast) :
  written_log w = header ++ [dot; sp] ->
  ar_run (fresh w) (session_ops pieces) = (outs, stf) -> all_nil outs ->
  written_log (a_w stf) = armor_seal (List.concat pieces) header footer.
Proof.
  intros Hh Hr Hn. rewrite (ar_no_silent_loss _ _ _ _ (fresh_inv w) (close_last_session pieces) Hr Hn), ae_run_session.
  cbn [fresh a_w]. rewrite Hh, <- armor_stream_seal. unfold armor_stream, model_of. cbn [fresh a_o a_chars a_k Bx.fresh go_nbuf firstn].
  rewrite <- app_assoc. reflexivity.
Qed.

(* (TARGET) ERROR RETURNED AT ONCE: a call (on a stream without stored error) uses some j entries of the writer's schedule;
   it returns nil exactly when all of them were nil, and an error it returns is one of them *)
Theorem ar_write_reports (st : ast) (p : bytes) : inv st ->
  exists j er, fst (ar_write st p) = Ret (werr er) /\
    w_sched (a_w (snd (ar_write st p))) = skipn j (w_sched (a_w st)) /\
    (er = None <-> Forall (fun x => x = None) (firstn j (w_sched (a_w st)))) /\
    (forall x, er = Some x -> In (Some x) (firstn j (w_sched (a_w st)))).
Proof.
  intros Hinv. pose proof (write_model st p Hinv) as HM. destruct (ae_write (model_of st) p) as [out m'].
  destruct HM as (calls & j & er & _ & Hrc & Hret & _).
  pose proof (run_calls_sched calls (a_w st)) as HS. rewrite Hrc in HS. destruct HS as (H1 & H2 & H3).
  exists j, er. split; [exact Hret|]. split; [exact H1|]. split; [|exact H3].
  split; [exact H2|]. intros Hall. destruct er as [x|]; [|reflexivity].
  exfalso. pose proof (H3 x eq_refl) as Hin. rewrite Forall_forall in Hall. discriminate (Hall _ Hin).
Qed.
(* (TARGET) *)
Theorem ar_close_reports (st : ast) : inv st ->
  exists j er, fst (ar_close st) = Ret (werr er) /\
    w_sched (a_w (snd (ar_close st))) = skipn j (w_sched (a_w st)) /\
    (er = None <-> Forall (fun x => x = None) (firstn j (w_sched (a_w st)))) /\
    (forall x, er = Some x -> In (Some x) (firstn j (w_sched (a_w st)))).
Proof.
  intros Hinv. destruct (close_model st Hinv) as (calls & j & er & _ & Hrc & Hret & _).
  pose proof (run_calls_sched calls (a_w st)) as HS. rewrite Hrc in HS. destruct HS as (H1 & H2 & H3).
  exists j, er. split; [exact Hret|]. split; [exact H1|]. split; [|exact H3].
  split; [exact H2|]. intros Hall. destruct er as [x|]; [|reflexivity].
  exfalso. pose proof (H3 x eq_refl) as Hin. rewrite Forall_forall in Hall. discriminate (Hall _ Hin).
Qed.

(* (TARGET) STICKY (the fix): with s.err set, every later Write AND Close returns it and leaves the object - the writer in
   particular - untouched.  No hypothesis *)
Theorem ar_sticky (x : String.string) (ops : list op) : forall (st : ast),
  a_err st = Some x -> ar_run st ops = (map (fun _ => Ret (werr (Some x))) ops, st).
Proof.
  unfold ar_run. induction ops as [|c t IH]; intros st He; cbn [run map]; [reflexivity|].
  rewrite (call_sticky st c x He), (IH st He). reflexivity.
Qed.
(* (TARGET) a call - Write OR Close - that returned an error has stored it: every later Write and Close returns that same
   error and nothing more is handed to the writer (the object, hence the writer's log, stays as that call left it).
   No hypothesis at all: any object, any writer *)
Theorem ar_error_sticks (st : ast) (c : op) (x : String.string * list gval) :
  fst (call st c) = Ret (Some x) ->
  a_err (snd (call st c)) = Some (fst x) /\
  forall ops, ar_run (snd (call st c)) ops = (map (fun _ => Ret (Some x)) ops, snd (call st c)).
Proof.
  intros Hret. destruct (call_stores st c) as (er & Hr & He). rewrite Hr in Hret.
  destruct er as [y|]; [|discriminate Hret]. injection Hret as <-. cbn [fst].
  split; [exact He|]. intros ops. exact (ar_sticky y ops _ He).
Qed.
(* (TARGET) the instance for a failed Close: a second Close, or a Write after it, returns the stored error *)
Corollary ar_close_error_sticks (st : ast) (x : String.string * list gval) :
  fst (ar_close st) = Ret (Some x) ->
  forall ops, ar_run (snd (ar_close st)) ops = (map (fun _ => Ret (Some x)) ops, snd (ar_close st)).
Proof. intros H. exact (proj2 (ar_error_sticks st OpClose x H)). Qed.

(* the premise of the generic lemmas on runs: "bad" = s.err set *)
Lemma call_bad (st : ast) (c : op) (e : gerr) (st' : ast) : True -> call st c = (Ret e, st') ->
  True /\ (a_err st <> None -> a_err st' <> None) /\ (e <> None -> a_err st' <> None) /\
  (c = OpClose -> a_err st <> None -> e <> None).
Proof.
  intros _ Hc. split; [exact I|].
  assert (Hst : forall x, a_err st = Some x -> e = werr (Some x) /\ st' = st).
  { intros x Hx. rewrite (call_sticky st c x Hx) in Hc. injection Hc as <- <-. split; reflexivity. }
  split; [|split].
  - intros Hb. destruct (a_err st) as [x|] eqn:Ex; [|contradiction]. destruct (Hst x eq_refl) as [_ ->]. rewrite Ex. discriminate.
  - intros He. destruct (call_stores st c) as (er & Hr & Hs). rewrite Hc in Hr, Hs. cbn [fst snd] in *.
    injection Hr as ->. rewrite Hs. destruct er; [discriminate|contradiction].
  - intros _ Hb. destruct (a_err st) as [x|] eqn:Ex; [|contradiction]. destruct (Hst x eq_refl) as [-> _]. discriminate.
Qed.

(* no call ends a run: the result list is as long as the list of calls *)
Lemma ar_run_length (ops : list op) : forall st, List.length (fst (ar_run st ops)) = List.length ops.
Proof.
  unfold ar_run. induction ops as [|c t IH]; intros st; cbn [run]; [reflexivity|].
  destruct (call_stores st c) as (er & Hr & _). destruct (call st c) as [r st']. cbn [fst] in Hr. subst r.
  specialize (IH st'). destruct (run call st' t) as [rs stf]. cbn [fst List.length] in *. rewrite IH. reflexivity.
Qed.

(* (TARGET) C14: in ANY run (any object, any writer, any calls), after a call that returned an error no later Close
   returns nil.  No hypothesis *)
Theorem ar_no_nil_close_after_error (ops : list op) (st : ast) (outs : list outc) (stf : ast) :
  ar_run st ops = (outs, stf) ->
  forall i j e, (i < j)%nat -> nth_error outs i = Some (Ret (Some e)) -> nth_error ops j = Some OpClose ->
  nth_error outs j <> Some (Ret None).
Proof.
  intros Hr. exact (run_no_nil_close_after_error ast call (fun _ => True) (fun s => a_err s <> None) call_bad ops st outs stf I Hr).
Qed.

(* (TARGET) Write p1; ..; Write pn; Close: if the final Close returned nil, every call returned nil.  No hypothesis *)
Theorem ar_close_nil_all_nil (pieces : list bytes) (st : ast) (outs : list outc) (stf : ast) :
  ar_run st (session_ops pieces) = (outs, stf) -> last outs (Halt EmptyString) = Ret None -> all_nil outs.
Proof.
  intros Hr Hlast. unfold session_ops, ar_run in Hr.
  apply (run_last_close_nil ast call (fun _ => True) (fun s => a_err s <> None) call_bad (map OpWrite pieces) st outs stf I Hr);
    [|exact Hlast].
  pose proof (ar_run_length (map OpWrite pieces ++ [OpClose]) st) as HL. unfold ar_run in HL. rewrite Hr in HL. cbn [fst] in HL.
  rewrite HL, app_length. cbn [List.length]. lia.
Qed.

(* (TARGET) C14 AS WORDED for the armor stream: NewArmor62EncoderStream (header already written); Write p1; ..; Write pn;
   Close, over a writer with ANY schedule: if the final Close returned nil then every call returned nil and the
   writer holds exactly the armor of the whole input.  No hypothesis on the writer beyond its being the logging writer
   (what it is handed when it reports success is what it holds) *)
Theorem ar_close_nil_complete (header : bytes) (w : wr) (pieces : list bytes) (outs : list outc) (stf : ast) :
  written_log w = header ++ [dot; sp] ->
  ar_run (fresh w) (session_ops pieces) = (outs, stf) -> last outs (Halt EmptyString) = Ret None ->
  all_nil outs /\ written_log (a_w stf) = armor_seal (List.concat pieces) header footer.
Proof.
  intros Hh Hr Hlast. pose proof (ar_close_nil_all_nil pieces (fresh w) outs stf Hr Hlast) as Hn.
  split; [exact Hn|]. exact (ar_no_silent_loss_pieces header w pieces outs stf Hh Hr Hn).
Qed.
End S.

(* the bytes a scheduled writer ACCEPTED: the logged calls whose schedule entry was nil (entries beyond the
   schedule succeed) *)
Fixpoint took (sched : list (option String.string)) (log : list bytes) : bytes :=
  match log with
  | [] => []
  | b :: t =>
    match sched with
    | Some _ :: s => took s t
    | None :: s => b ++ took s t
    | [] => b ++ took [] t
    end
  end.

Definition ex_footer : bytes := [x45; x4e; x44].   (* "END" *)
Definition ex_in : bytes := repeat x61 32.

Example ex_ar_complete :
  let r := ar_run ex_footer (fresh (mkWr [] [None; None])) (session_ops [ex_in]) in
  fst r = [Ret None; Ret None] /\
  written_log (a_w (snd r)) = ae_session (mkAe [] [] 0) [ex_in] ex_footer.
Proof. vm_compute. split; reflexivity. Qed.

(* THE FORMER FINDING, NOW FIXED.  32 bytes give 43 characters: two words of 15 and 13 left.  The writer refuses the first
   word (its 2nd call: the header was its 1st; it takes nothing) and works again afterwards.  Write returns the
   error; the word has left s.buf and nWords counts it.  Before the fix Close then wrote the second word, the last
   characters and the footer and returned NIL for an armor without its first 15 characters.  Now Write has stored the
   error: Close returns it and hands NOTHING more to the writer (the log holds the one refused call; no footer) *)
Example ex_ar_close_after_failed_write :
  let sched := [Some "ErrIO"%string] in
  let r := ar_run ex_footer (fresh (mkWr [] sched)) (session_ops [ex_in]) in
  let good := ae_session (mkAe [] [] 0) [ex_in] ex_footer in
  fst r = [Ret (Some ("ErrIO"%string, [])); Ret (Some ("ErrIO"%string, []))] /\
  w_log (a_w (snd r)) = [firstn 15 good] /\ took sched (w_log (a_w (snd r))) = [] /\
  a_err (snd r) = Some "ErrIO"%string /\ List.length good = 52%nat.
Proof. vm_compute. repeat split; reflexivity. Qed.
(* a Close that fails (at the Write of the last characters, the writer's 5th call here) stores its error too: a second
   Close and a later Write return it, nothing more is written *)
Example ex_ar_close_error_sticks :
  let sched := [None; None; None; None; Some "ErrIO"%string] in
  let r := ar_run ex_footer (fresh (mkWr [] sched)) [OpWrite ex_in; OpClose; OpClose; OpWrite ex_in; OpClose] in
  fst r = [Ret None; Ret (Some ("ErrIO"%string, [])); Ret (Some ("ErrIO"%string, [])); Ret (Some ("ErrIO"%string, []));
           Ret (Some ("ErrIO"%string, []))] /\
  List.length (w_log (a_w (snd r))) = 5%nat.
Proof. vm_compute. split; reflexivity. Qed.
End Ar.


(* ================= COMPOSITION: encryptStream over the armor encoder over the base-X encoder over a writer =================
   (NewEncryptArmor62... : the encoder of the encryption stream writes into an armorEncoderStream; closing closes
   the encryption stream, then the armor stream).  The step of the encryption stream is ONE armorEncoderStream.Write of
   the packet bytes; the encoder object is the armor stream object ([g_ast], read back by [d_ast]). *)
Module Comp.
Import GoAstProofs5b GoAstProofs5d.
Import Bx.
Import Ar.

Definition g_e (e : option String.string) : gval := match e with None => VNil | Some x => VErr x [] end.
Definition g_w (w : wr) : gval := VList [VList (map VBytes (w_log w)); VList (map g_e (w_sched w))].
Definition g_go (o : gobj) : gval :=
  VList [g_e (go_err o); VBytes (go_buf o); VInt (Z.of_nat (go_nbuf o)); VBytes (go_out o); g_w (go_w o)].
Definition g_ast (st : ast) : gval :=
  VList [g_go (a_o st); VBytes (a_chars st); VInt (Z.of_N (a_k st)); g_w (a_w st); g_e (a_err st)].

Definition d_e (v : gval) : option (option String.string) :=
  match v with VNil => Some None | VErr x [] => Some (Some x) | _ => None end.
Fixpoint d_es (l : list gval) : option (list (option String.string)) :=
  match l with
  | [] => Some []
  | v :: t => match d_e v, d_es t with Some e, Some r => Some (e :: r) | _, _ => None end
  end.
Fixpoint d_bs (l : list gval) : option (list bytes) :=
  match l with
  | [] => Some []
  | VBytes b :: t => match d_bs t with Some r => Some (b :: r) | None => None end
  | _ => None
  end.
Definition d_w (v : gval) : option wr :=
  match v with
  | VList [VList l; VList s] => match d_bs l, d_es s with Some a, Some b => Some (mkWr a b) | _, _ => None end
  | _ => None
  end.
Definition d_go (v : gval) : option gobj :=
  match v with
  | VList [e; VBytes buf; VInt n; VBytes out; w] =>
    match d_e e, d_w w with Some e', Some w' => Some (mkGo e' buf (Z.to_nat n) out w') | _, _ => None end
  | _ => None
  end.
Definition d_ast (v : gval) : option ast :=
  match v with
  | VList [o; VBytes ch; VInt k; w; e] =>
    match d_go o, d_w w, d_e e with Some o', Some w', Some e' => Some (mkAst o' ch (Z.to_N k) w' e') | _, _, _ => None end
  | _ => None
  end.

Lemma d_e_g (e : option String.string) : d_e (g_e e) = Some e.
Proof. destruct e; reflexivity. Qed.
Lemma d_es_g (l : list (option String.string)) : d_es (map g_e l) = Some l.
Proof. induction l as [|e l IH]; cbn [map d_es]; [reflexivity|]. rewrite d_e_g, IH. reflexivity. Qed.
Lemma d_bs_g (l : list bytes) : d_bs (map VBytes l) = Some l.
Proof. induction l as [|b l IH]; cbn [map d_bs]; [reflexivity|]. rewrite IH. reflexivity. Qed.
Lemma d_w_g (w : wr) : d_w (g_w w) = Some w.
Proof. destruct w as [l s]. unfold g_w, d_w. cbn [w_log w_sched]. rewrite d_bs_g, d_es_g. reflexivity. Qed.
Lemma d_go_g (o : gobj) : d_go (g_go o) = Some o.
Proof. destruct o as [e buf n out w]. unfold g_go, d_go. cbn [go_err go_buf go_nbuf go_out go_w]. rewrite d_e_g, d_w_g, Nat2Z.id. reflexivity. Qed.
Lemma d_ast_g (st : ast) : d_ast (g_ast st) = Some st.
Proof. destruct st as [o ch k w e]. unfold g_ast, d_ast. cbn [a_o a_chars a_k a_w a_err]. rewrite d_go_g, d_w_g, d_e_g, N2Z.id. reflexivity. Qed.

(* encoder.Encode(packet) = one Write of the packet bytes into the armor stream (which now keeps its first error) *)
Definition arm_step : step := fun o pkt =>
  match d_ast o with
  | Some st =>
    let (r, st') := ar_write st pkt in
    (g_ast st', match r with Ret e => e | Halt w => Some (w, []) end)
  | None => (o, Some ("ErrObject"%string, []))
  end.

(* the model's armor encoder over a list of writes: its output and the state it is left in *)
Fixpoint ae_writes (m : ae_state) (pieces : list bytes) : bytes * ae_state :=
  match pieces with
  | [] => ([], m)
  | p :: t => let (o, m') := ae_write m p in let (o2, m'') := ae_writes m' t in (o ++ o2, m'')
  end.
Lemma ae_writes_snoc (ps : list bytes) (p : bytes) : forall m,
  ae_writes m (ps ++ [p]) =
  (fst (ae_writes m ps) ++ fst (ae_write (snd (ae_writes m ps)) p), snd (ae_write (snd (ae_writes m ps)) p)).
Proof.
  induction ps as [|q ps IH]; intros m; cbn [app ae_writes].
  - cbn [fst snd app]. destruct (ae_write m p) as [o m']. cbn [fst snd]. rewrite app_nil_r. reflexivity.
  - destruct (ae_write m q) as [o m']. rewrite IH. destruct (ae_writes m' ps) as [o2 m2]. cbn [fst snd].
    rewrite app_assoc. reflexivity.
Qed.
Lemma ae_session_writes (footer : bytes) (ps : list bytes) : forall m,
  ae_session m ps footer = fst (ae_writes m ps) ++ ae_close (snd (ae_writes m ps)) footer.
Proof.
  induction ps as [|q ps IH]; intros m; cbn [ae_session ae_writes]; [reflexivity|].
  destruct (ae_write m q) as [o m']. rewrite IH. destruct (ae_writes m' ps) as [o2 m2]. cbn [fst snd].
  rewrite app_assoc. reflexivity.
Qed.

Section S.
Variable W0 : bytes.              (* what the writer held when the armor stream was created: header and ". " *)

(* the armor stream object against the in-memory packet writer: the packets written so far ([pieces]) are exactly
   what the in-memory writer holds, the armor stream is in the model's state after them, and the writer holds
   the model's output for them *)
Definition R (o1 o2 : gval) : Prop :=
  exists (st : ast) (pieces : list bytes),
    o1 = g_ast st /\ inv st /\ o2 = VBytes (List.concat pieces) /\
    model_of st = snd (ae_writes (mkAe [] [] 0) pieces) /\
    written_log (a_w st) = W0 ++ fst (ae_writes (mkAe [] [] 0) pieces).

(* any in-memory packet writer: on the bytes written so far it appends and never fails (GoAstProofs5a/6a/6b.mem_enc) *)
Definition is_mem (m : step) : Prop := forall out p, m (VBytes out) p = (VBytes (out ++ p), None).
Lemma is_mem_5a : is_mem GoAstProofs5a.mem_enc. Proof. intros out p. reflexivity. Qed.
Lemma is_mem_6a : is_mem GoAstProofs6a.mem_enc. Proof. intros out p. reflexivity. Qed.
Lemma is_mem_6b : is_mem GoAstProofs6b.mem_enc. Proof. intros out p. reflexivity. Qed.

Lemma arm_sim_gen (m : step) : is_mem m -> step_sim R arm_step m.
Proof.
  intros Hmem o1 o2 pkt (st & pieces & -> & Hinv & -> & Hm & Hw). unfold arm_step. rewrite d_ast_g, Hmem.
  pose proof (write_model st pkt Hinv) as HM.
  destruct (ae_write (model_of st) pkt) as [out m'] eqn:Ew.
  destruct HM as (calls & j & er & Hcat & Hrc & Hret & _ & Hm').
  destruct (ar_write st pkt) as [r st']. cbn [fst snd] in *. subst r.
  intros He. destruct er as [x|]; [discriminate He|]. clear He.
  destruct (Hm' eq_refl) as [Hinv' Hmo].
  split; [reflexivity|].
  exists st', (pieces ++ [pkt]). split; [reflexivity|]. split; [exact Hinv'|].
  split; [rewrite concat_app; cbn [List.concat]; rewrite app_nil_r; reflexivity|].
  rewrite ae_writes_snoc, <- Hm, Ew. cbn [fst snd]. split; [exact Hmo|].
  destruct (run_calls_ok _ _ _ _ Hrc) as [Hl _]. unfold written_log in *. rewrite Hl, concat_app, Hcat, Hw, app_assoc. reflexivity.
Qed.
Lemma arm_sim : step_sim R arm_step GoAstProofs5a.mem_enc.
Proof. exact (arm_sim_gen _ is_mem_5a). Qed.

(* (TARGET) NO SILENT LOSS for the composed stack.  The writer w0 (any schedule) holds W0; the armor stream is created on
   it, the encryption stream on the armor stream; init, then any calls on the encryption stream, then Close of the
   armor stream.  If every one of these calls returned nil, the writer holds W0 followed by the armor (any
   footer) of exactly the message the in-memory encryption stream produces for the same calls. *)
Theorem enc_armor_no_silent_loss (c : crypto) (footer : bytes) (w0 : wr) (v : version) (sender : option bytes)
        (rcpts : list rcpt) (ra rb rc : rng) (ops : list op) (outs : list outc) (st' : GoAstProofs5a.es_state)
        (sta stf : ast) :
  written_log w0 = W0 ->
  Enc.session c arm_step (Enc.fresh v (g_ast (fresh w0))) v sender rcpts ra rb rc ops = (outs, st') ->
  all_nil outs ->
  d_ast (GoAstProofs5a.es_enc st') = Some sta ->
  ar_close footer sta = (Ret None, stf) ->
  exists (stm : GoAstProofs5a.es_state) (packets : list bytes),
    Enc.session c GoAstProofs5a.mem_enc (Enc.fresh v (VBytes [])) v sender rcpts ra rb rc ops = (outs, stm) /\
    GoAstProofs5a.es_enc stm = VBytes (List.concat packets) /\
    written_log (a_w stf) = W0 ++ ae_session (mkAe [] [] 0) packets footer.
Proof.
  intros HW Hs Hn Hd Hc.
  assert (HR0 : R (g_ast (fresh w0)) (VBytes [])).
  { exists (fresh w0), []. split; [reflexivity|]. split; [apply fresh_inv|]. split; [reflexivity|].
    split; [reflexivity|]. cbn [fresh a_w ae_writes fst]. rewrite app_nil_r. exact HW. }
  destruct (Enc.session_sim c arm_step GoAstProofs5a.mem_enc R arm_sim
              (Enc.fresh v (g_ast (fresh w0))) (Enc.fresh v (VBytes [])) v sender rcpts ra rb rc ops outs st'
              ltac:(split; [exact HR0|reflexivity]) Hs Hn) as (stm & Hsm & [HR _]).
  destruct HR as (st & pieces & He1 & Hinv & He2 & Hm & Hw).
  rewrite He1, d_ast_g in Hd. injection Hd as <-.
  exists stm, pieces. split; [exact Hsm|]. split; [exact He2|].
  destruct (close_model footer st Hinv) as (calls & j & er & Hcat & Hrc & Hret & _).
  rewrite Hc in Hret, Hrc. cbn [fst snd] in *. injection Hret as Her. destruct er as [x|]; [discriminate Her|].
  destruct (run_calls_ok _ _ _ _ Hrc) as [Hl _]. unfold written_log in *.
  rewrite Hl, concat_app, Hcat, Hw, Hm, ae_session_writes, app_assoc. reflexivity.
Qed.

End S.

(* (TARGET) the same with the header: the writer ends up holding Armor62Seal of the in-memory ciphertext *)
Corollary enc_armor_no_silent_loss_seal (c : crypto) (header footer : bytes) (w0 : wr) (v : version) (sender : option bytes)
        (rcpts : list rcpt) (ra rb rc : rng) (ops : list op) (outs : list outc) (st' : GoAstProofs5a.es_state)
        (sta stf : ast) :
  written_log w0 = header ++ [dot; sp] ->
  Enc.session c arm_step (Enc.fresh v (g_ast (fresh w0))) v sender rcpts ra rb rc ops = (outs, st') ->
  all_nil outs ->
  d_ast (GoAstProofs5a.es_enc st') = Some sta ->
  ar_close footer sta = (Ret None, stf) ->
  exists (stm : GoAstProofs5a.es_state) (msg : bytes),
    Enc.session c GoAstProofs5a.mem_enc (Enc.fresh v (VBytes [])) v sender rcpts ra rb rc ops = (outs, stm) /\
    GoAstProofs5a.es_enc stm = VBytes msg /\
    written_log (a_w stf) = armor_seal msg header footer.
Proof.
  intros HW Hs Hn Hd Hc.
  destruct (enc_armor_no_silent_loss (header ++ [dot; sp]) c footer w0 v sender rcpts ra rb rc ops outs st' sta stf HW Hs Hn Hd Hc)
    as (stm & packets & H1 & H2 & H3).
  exists stm, (List.concat packets). split; [exact H1|]. split; [exact H2|].
  rewrite H3, <- armor_stream_seal. unfold armor_stream. rewrite <- app_assoc. reflexivity.
Qed.

(* go-codec's sticky encoder between the encryption stream and the armor stream *)
Lemma codec_sim (R0 : gval -> gval -> Prop) (s1 s2 : step) : step_sim R0 s1 s2 ->
  step_sim (fun o1 o2 => exists a, o1 = codec_obj a /\ R0 a o2) (codec s1) s2.
Proof.
  intros Hsim o1 o2 pkt (a & -> & HR). unfold codec, codec_obj. cbn [fst snd]. intros He.
  destruct (Hsim a o2 pkt HR He) as [H1 H2]. split; [exact H1|].
  exists (fst (s1 a pkt)). rewrite He. split; [reflexivity|exact H2].
Qed.

(* (TARGET) C14 AS WORDED for the real stack: encryptStream, go-codec's sticky encoder ([codec]), the armor stream, the
   base-X encoder, a writer with any schedule.  If init, Write p1; ..; Write pn and Close of the encryption stream were
   all made, that Close returned nil, and Close of the armor stream returned nil, then every call returned nil
   and the writer holds exactly Armor62Seal of the complete ciphertext. *)
Theorem stack_close_nil_complete (c : crypto) (header footer : bytes) (w0 : wr) (v : version) (sender : option bytes)
        (rcpts : list rcpt) (ra rb rc : rng) (pieces : list bytes) (outs : list outc) (st' : GoAstProofs5a.es_state)
        (oa : gval) (b : bool) (sta stf : ast) :
  written_log w0 = header ++ [dot; sp] ->
  Enc.session c (codec arm_step) (Enc.fresh v (codec_obj (g_ast (fresh w0)))) v sender rcpts ra rb rc (session_ops pieces) = (outs, st') ->
  List.length outs = S (S (List.length pieces)) -> last outs (Halt EmptyString) = Ret None ->
  GoAstProofs5a.es_enc st' = VList [oa; VBool b] -> d_ast oa = Some sta ->
  ar_close footer sta = (Ret None, stf) ->
  all_nil outs /\
  exists (stm : GoAstProofs5a.es_state) (msg : bytes),
    Enc.session c GoAstProofs5a.mem_enc (Enc.fresh v (VBytes [])) v sender rcpts ra rb rc (session_ops pieces) = (outs, stm) /\
    GoAstProofs5a.es_enc stm = VBytes msg /\
    written_log (a_w stf) = armor_seal msg header footer.
Proof.
  intros HW Hs Hl Hlast Henc Hd Hc.
  pose proof (Enc.es_close_nil_all_nil c codec_broken (codec arm_step) (Enc.fresh v (codec_obj (g_ast (fresh w0))))
                v sender rcpts ra rb rc pieces outs st' (codec_sticky arm_step) eq_refl Hs Hl Hlast) as Hn.
  split; [exact Hn|].
  set (W0 := header ++ [dot; sp]) in *.
  assert (HR0 : exists a, codec_obj (g_ast (fresh w0)) = codec_obj a /\ R W0 a (VBytes [])).
  { exists (g_ast (fresh w0)). split; [reflexivity|].
    exists (fresh w0), []. split; [reflexivity|]. split; [apply fresh_inv|]. split; [reflexivity|].
    split; [reflexivity|]. cbn [fresh a_w ae_writes fst]. rewrite app_nil_r. exact HW. }
  destruct (Enc.session_sim c (codec arm_step) GoAstProofs5a.mem_enc _ (codec_sim (R W0) _ _ (arm_sim W0))
              (Enc.fresh v (codec_obj (g_ast (fresh w0)))) (Enc.fresh v (VBytes [])) v sender rcpts ra rb rc _ outs st'
              ltac:(split; [exact HR0|reflexivity]) Hs Hn) as (stm & Hsm & [HR _]).
  destruct HR as (a & Ha & st & packets & He1 & Hinv & He2 & Hm & Hw).
  rewrite Henc in Ha. unfold codec_obj in Ha. injection Ha as -> _.
  rewrite He1, d_ast_g in Hd. injection Hd as <-.
  exists stm, (List.concat packets). split; [exact Hsm|]. split; [exact He2|].
  destruct (close_model footer st Hinv) as (calls & j & er & Hcat & Hrc & Hret & _).
  rewrite Hc in Hret, Hrc. cbn [fst snd] in *. injection Hret as Her. destruct er as [x|]; [discriminate Her|].
  destruct (run_calls_ok _ _ _ _ Hrc) as [Hl' _]. unfold written_log in *.
  rewrite Hl', concat_app, Hcat, Hw, Hm, <- armor_stream_seal. unfold armor_stream. rewrite ae_session_writes.
  subst W0. rewrite <- !app_assoc. reflexivity.
Qed.

(* what the armor stream's Close leaves in the writer, given the relation R at the end of the packet stream *)
Lemma close_after_R (header footer : bytes) (oa o2 : gval) (sta stf : ast) :
  (exists a, VList [oa; VBool false] = codec_obj a /\ R (header ++ [dot; sp]) a o2) \/
  R (header ++ [dot; sp]) oa o2 ->
  d_ast oa = Some sta -> ar_close footer sta = (Ret None, stf) ->
  exists msg, o2 = VBytes msg /\ written_log (a_w stf) = armor_seal msg header footer.
Proof.
  intros HR Hd Hc.
  assert (HR' : R (header ++ [dot; sp]) oa o2).
  { destruct HR as [(a & Ha & HR)|HR]; [|exact HR]. unfold codec_obj in Ha. injection Ha as ->. exact HR. }
  destruct HR' as (st & packets & He1 & Hinv & He2 & Hm & Hw).
  rewrite He1, d_ast_g in Hd. injection Hd as <-.
  exists (List.concat packets). split; [exact He2|].
  destruct (close_model footer st Hinv) as (calls & j & er & Hcat & Hrc & Hret & _).
  rewrite Hc in Hret, Hrc. cbn [fst snd] in *. injection Hret as Her. destruct er as [x|]; [discriminate Her|].
  destruct (run_calls_ok _ _ _ _ Hrc) as [Hl' _]. unfold written_log in *.
  rewrite Hl', concat_app, Hcat, Hw, Hm, <- armor_stream_seal. unfold armor_stream. rewrite ae_session_writes.
  rewrite <- !app_assoc. reflexivity.
Qed.

Lemma R_fresh (W0 : bytes) (w0 : wr) : written_log w0 = W0 -> R W0 (g_ast (fresh w0)) (VBytes []).
Proof.
  intros HW. exists (fresh w0), []. split; [reflexivity|]. split; [apply fresh_inv|]. split; [reflexivity|].
  split; [reflexivity|]. cbn [fresh a_w ae_writes fst]. rewrite app_nil_r. exact HW.
Qed.

(* (TARGET) the same for the attached-signature stream (NewSignArmor62Stream) ... *)
Theorem sign_stack_close_nil_complete (c : crypto) (F : nat) (header footer : bytes) (w0 : wr) (v : version) (signer : option bytes)
        (r : rng) (pieces : list bytes) (outs : list outc) (st' : GoAstProofs6a.sas_state)
        (oa : gval) (sta stf : ast) :
  written_log w0 = header ++ [dot; sp] ->
  SignA.session c F (codec arm_step) v (codec_obj (g_ast (fresh w0))) signer r (session_ops pieces) = (outs, Some st') ->
  List.length outs = S (S (List.length pieces)) -> last outs (Halt EmptyString) = Ret None ->
  GoAstProofs6a.sas_enc st' = VList [oa; VBool false] -> d_ast oa = Some sta ->
  ar_close footer sta = (Ret None, stf) ->
  all_nil outs /\
  exists (stm : GoAstProofs6a.sas_state) (msg : bytes),
    SignA.session c F GoAstProofs6a.mem_enc v (VBytes []) signer r (session_ops pieces) = (outs, Some stm) /\
    GoAstProofs6a.sas_enc stm = VBytes msg /\
    written_log (a_w stf) = armor_seal msg header footer.
Proof.
  intros HW Hs Hl Hlast Henc Hd Hc.
  pose proof (SignA.sas_close_nil_all_nil c F codec_broken (codec arm_step) _ v signer r pieces outs _
                (codec_sticky arm_step) Hs Hl Hlast) as Hn.
  split; [exact Hn|].
  destruct (SignA.session_sim c F (codec arm_step) GoAstProofs6a.mem_enc _
              (codec_sim (R (header ++ [dot; sp])) _ _ (arm_sim_gen (header ++ [dot; sp]) _ is_mem_6a))
              v (codec_obj (g_ast (fresh w0))) (VBytes []) signer r _ outs _
              (ex_intro _ (g_ast (fresh w0)) (conj eq_refl (R_fresh _ w0 HW))) Hs Hn) as (st1 & stm & Hst1 & Hsm & [HR _]).
  injection Hst1 as <-. rewrite Henc in HR.
  destruct (close_after_R header footer oa _ sta stf (or_introl HR) Hd Hc) as (msg & Hmsg & Hwf).
  exists stm, msg. split; [exact Hsm|]. split; [exact Hmsg|exact Hwf].
Qed.

(* (TARGET) ... and for the signcryption stream (NewSigncryptArmor62SealStream) *)
Theorem signcrypt_stack_close_nil_complete (c : crypto) (header footer : bytes) (w0 : wr) (signer : option bytes)
        (boxes : list bytes) (syms : list (bytes * bytes)) (ra rk rb : bytes) (pieces : list bytes) (outs : list outc)
        (st' : GoAstProofs6b.sss_state) (oa : gval) (sta stf : ast) :
  written_log w0 = header ++ [dot; sp] ->
  Sc.session c (codec arm_step) (Sc.fresh (codec_obj (g_ast (fresh w0))) signer) boxes syms ra rk rb (session_ops pieces) = (outs, st') ->
  List.length outs = S (S (List.length pieces)) -> last outs (Halt EmptyString) = Ret None ->
  GoAstProofs6b.ss_enc st' = VList [oa; VBool false] -> d_ast oa = Some sta ->
  ar_close footer sta = (Ret None, stf) ->
  all_nil outs /\
  exists (stm : GoAstProofs6b.sss_state) (msg : bytes),
    Sc.session c GoAstProofs6b.mem_enc (Sc.fresh (VBytes []) signer) boxes syms ra rk rb (session_ops pieces) = (outs, stm) /\
    GoAstProofs6b.ss_enc stm = VBytes msg /\
    written_log (a_w stf) = armor_seal msg header footer.
Proof.
  intros HW Hs Hl Hlast Henc Hd Hc.
  pose proof (Sc.sss_close_nil_all_nil c codec_broken (codec arm_step) (Sc.fresh (codec_obj (g_ast (fresh w0))) signer)
                boxes syms ra rk rb pieces outs st' (codec_sticky arm_step) eq_refl Hs Hl Hlast) as Hn.
  split; [exact Hn|].
  destruct (Sc.session_sim c (codec arm_step) GoAstProofs6b.mem_enc _
              (codec_sim (R (header ++ [dot; sp])) _ _ (arm_sim_gen (header ++ [dot; sp]) _ is_mem_6b))
              (Sc.fresh (codec_obj (g_ast (fresh w0))) signer) (Sc.fresh (VBytes []) signer) boxes syms ra rk rb _ outs st'
              (conj (ex_intro _ (g_ast (fresh w0)) (conj eq_refl (R_fresh _ w0 HW))) eq_refl) Hs Hn) as (stm & Hsm & [HR _]).
  rewrite Henc in HR.
  destruct (close_after_R header footer oa _ sta stf (or_introl HR) Hd Hc) as (msg & Hmsg & Hwf).
  exists stm, msg. split; [exact Hsm|]. split; [exact Hmsg|exact Hwf].
Qed.

(* the composed stack on a concrete schedule: header, then every writer call succeeds; and a writer that fails once *)
Definition ex_stack (sched : list (option String.string)) (ops : list op) :=
  let w0 := mkWr [[x48; x2e; x20]] sched in      (* "H. " *)
  let r := Enc.session toy_crypto arm_step (Enc.fresh v2 (g_ast (fresh w0))) v2 None Enc.ex_rcp Enc.ex_rnd Enc.ex_rnd Enc.ex_rnd ops in
  match d_ast (GoAstProofs5a.es_enc (snd r)) with
  | Some sta => let (rc, stf) := ar_close [x46] sta in (fst r ++ [rc], Some (a_w stf))
  | None => (fst r, None)
  end.
Example ex_stack_complete :
  let m := Enc.ex_session GoAstProofs5a.mem_enc (VBytes []) (session_ops [[x61; x62]; [x63]]) in
  let r := ex_stack [] (session_ops [[x61; x62]; [x63]]) in
  fst r = [Ret None; Ret None; Ret None; Ret None; Ret None] /\
  option_map written_log (snd r) = Some (armor_seal (Enc.mem_bytes (snd m)) [x48] [x46]).
Proof. vm_compute. split; reflexivity. Qed.
(* a writer that fails once: at a call made during Close of the encryption stream, that Close returns the error, and
   the armor stream's Close, called all the same, returns the error its Write stored (before the fix it returned nil:
   no sticky error); at the very last call, the armor stream's Close returns it *)
Example ex_stack_fault :
  fst (ex_stack (repeat None 33 ++ [Some "ErrIO"%string]) (session_ops [[x61; x62]; [x63]]))
  = [Ret None; Ret None; Ret None; Ret (Some ("ErrIO"%string, [])); Ret (Some ("ErrIO"%string, []))] /\
  fst (ex_stack (repeat None 43 ++ [Some "ErrIO"%string]) (session_ops [[x61; x62]; [x63]]))
  = [Ret None; Ret None; Ret None; Ret None; Ret (Some ("ErrIO"%string, []))].
Proof. vm_compute. split; reflexivity. Qed.
End Comp.


(* ---------- every TARGET is closed under the global context ---------- *)
Print Assumptions Enc.es_no_silent_loss.
Print Assumptions Enc.es_no_silent_loss_pieces.
Print Assumptions Enc.es_write_reports.
Print Assumptions Enc.es_close_reports.
Print Assumptions Enc.es_init_reports.
Print Assumptions Enc.es_block_from_failed.
Print Assumptions Enc.es_close_ignores_err.
Print Assumptions Enc.es_sticky.
Print Assumptions Enc.es_write_error_sticks.
Print Assumptions SignA.sas_no_silent_loss.
Print Assumptions SignA.sas_no_silent_loss_pieces.
Print Assumptions SignA.sas_write_reports.
Print Assumptions SignA.sas_close_reports.
Print Assumptions SignA.sas_new_reports.
Print Assumptions SignA.sas_block_from_failed.
Print Assumptions SignD.sds_no_silent_loss.
Print Assumptions SignD.sds_close_reports.
Print Assumptions SignD.sds_write_no_step.
Print Assumptions SignD.sds_new_reports.
Print Assumptions Sc.sss_no_silent_loss.
Print Assumptions Sc.sss_no_silent_loss_pieces.
Print Assumptions Sc.sss_write_reports.
Print Assumptions Sc.sss_close_reports.
Print Assumptions Sc.sss_init_reports.
Print Assumptions Sc.sss_block_from_failed.
Print Assumptions Sc.sss_close_ignores_err.
Print Assumptions Sc.sss_sticky.
Print Assumptions Sc.sss_write_error_sticks.
Print Assumptions Bx.bx_no_silent_loss.
Print Assumptions Bx.bx_no_silent_loss_pieces.
Print Assumptions Bx.bx_call_reports.
Print Assumptions Bx.bx_sticky.
Print Assumptions Bx.bx_error_sticks.
Print Assumptions Ar.ar_no_silent_loss.
Print Assumptions Ar.ar_no_silent_loss_pieces.
Print Assumptions Ar.ar_write_reports.
Print Assumptions Ar.ar_close_reports.
Print Assumptions Ar.ar_sticky.
Print Assumptions Ar.ar_error_sticks.
Print Assumptions Ar.ar_close_error_sticks.
Print Assumptions Ar.ar_no_nil_close_after_error.
Print Assumptions Ar.ar_close_nil_all_nil.
Print Assumptions Ar.ar_close_nil_complete.
Print Assumptions Comp.enc_armor_no_silent_loss.
Print Assumptions Comp.enc_armor_no_silent_loss_seal.
Print Assumptions Enc.es_no_nil_close_after_error.
Print Assumptions Enc.es_close_nil_all_nil.
Print Assumptions Enc.es_close_nil_complete.
Print Assumptions Sc.sss_no_nil_close_after_error.
Print Assumptions Sc.sss_close_nil_complete.
Print Assumptions SignA.sas_no_nil_close_after_error.
Print Assumptions SignA.sas_close_nil_complete.
Print Assumptions SignD.sds_close_nil_all_nil.
Print Assumptions Comp.stack_close_nil_complete.
Print Assumptions codec_sticky.
Print Assumptions codec_honest.
Print Assumptions Enc.ex_enc_close_after_failed_write_codec.
Print Assumptions Enc.es_logged_transparent.
Print Assumptions SignA.sas_logged_transparent.
Print Assumptions Sc.sss_logged_transparent.
Print Assumptions SignA.sas_close_nil_all_nil.
Print Assumptions Sc.sss_close_nil_all_nil.
Print Assumptions Comp.sign_stack_close_nil_complete.
Print Assumptions Comp.signcrypt_stack_close_nil_complete.
Print Assumptions Enc.ex_enc_close_after_failed_write.
Print Assumptions SignA.ex_sas_close_after_failed_write.
Print Assumptions Sc.ex_sc_close_after_failed_write.
Print Assumptions Ar.ex_ar_close_after_failed_write.
Print Assumptions Ar.ex_ar_close_error_sticks.

(* NOT DONE (statements that would complete the picture):
   - "the complete message" is stated against the never-failing in-memory instance (mem_enc) of the SAME specification
     functions.  For signing and signcryption GoAstProofs6a/6b relate that instance to the model's senders
     (sas_session_model, sds_session_model, sss_session_model / sss_seal_core); the header of GoAstProofs5a announces
     es_write_model / es_close_model / es_session_model, but the compiled file has no such lemmas (only es_init_model),
     so for encryptStream the link "in-memory instance = model's seal body" is not available to cite;
   - go-codec's encoder itself (newEncoder over an io.Writer: it splits a packet over several Write calls - observed sizes
     1, 1, 184, 1, ... - and keeps its first error) is not modelled beyond [codec]: [step] abstracts it, as in
     GoAstProofs5a/6a/6b;
   - the detached signer over the armor stream (NewSignDetachedArmor62Stream): one packet at the constructor, one at
     Close; not stated separately;
   - the armor stream AFTER A Close THAT SUCCEEDED: s.err stays nil, so a second Close runs again (it writes the last
     characters and the footer a second time and can return nil); the fix is about errors and does not address it, and
     ar_no_silent_loss excludes it by [close_last].  Every other sequence of calls is covered (ar_error_sticks,
     ar_no_nil_close_after_error hold for ANY calls). *)
