(* SignAuthProofs.v — authenticity of attached and detached signatures as a
   reduction: whatever bytes are presented, what the verifier releases under an
   honest signer's key is a prefix of one message that key really signed as an
   attached-signature message (whole message iff clean end) — or the input
   yields a concrete break of Ed25519 / SHA-512 (a forged signature on a string
   the key never signed, or two different strings with the same hash).
   Statements marked (TARGET) are used verbatim by props/. *)
From Coq Require Import List NArith ZArith Bool Lia ZifyN ZifyNat ZifyBool.
From Coq.Strings Require Import Byte.
From SP Require Import Bytes Params Msgpack Crypto Errors Nonce Packets Chunker Rand Sign Verify
     MsgpackProofs ChunkerProofs SignProofs.
Import ListNotations.
Open Scope N_scope.

(* ================================================================== *)
(* (1) list / bytes utilities (no crypto involved)                     *)
(* ================================================================== *)

Definition bytes_eq_dec : forall a b : bytes, {a = b} + {a <> b} := list_eq_dec Byte.byte_eq_dec.

Definition is_nil (b : bytes) : bool := match b with [] => true | _ => false end.

Lemma app_len_inj {A} (a : list A) : forall a' b b',
  length a = length a' -> a ++ b = a' ++ b' -> a = a' /\ b = b'.
Proof.
  induction a as [|x a IH]; intros [|y a'] b b' Hl H; cbn [length app] in *; try discriminate.
  - auto.
  - injection H as -> H. apply IH in H; [|lia]. destruct H as [-> ->]. auto.
Qed.

Lemma pow256_8 : 256 ^ N.of_nat 8 = 18446744073709551616.
Proof. reflexivity. Qed.

Lemma be64_inj (i j : N) :
  i < 18446744073709551616 -> j < 18446744073709551616 -> be64 i = be64 j -> i = j.
Proof.
  intros Hi Hj E. unfold be64 in E.
  assert (Ei : be_val (be_bytes 8 i) = i) by (apply mp_be_val_be_bytes; rewrite pow256_8; exact Hi).
  assert (Ej : be_val (be_bytes 8 j) = j) by (apply mp_be_val_be_bytes; rewrite pow256_8; exact Hj).
  rewrite <- Ei, <- Ej, E. reflexivity.
Qed.

Lemma be64_length (i : N) : length (be64 i) = 8%nat.
Proof. unfold be64. apply mp_be_bytes_length. Qed.

Lemma nth_prefix {A} (rs : list A) : forall ps,
  (forall k x, nth_error rs k = Some x -> nth_error ps k = Some x) -> exists t, ps = rs ++ t.
Proof.
  induction rs as [|r rs IH]; intros ps H.
  - exists ps. reflexivity.
  - destruct ps as [|p ps].
    + specialize (H 0%nat r eq_refl). discriminate.
    + pose proof (H 0%nat r eq_refl) as H0. cbn [nth_error] in H0. injection H0 as ->.
      destruct (IH ps) as [t ->].
      * intros k x Hk. exact (H (S k) x Hk).
      * exists t. reflexivity.
Qed.

(* ---------- the three domain-separation strings ---------- *)
Lemma len_att_prefix : length sig_attached_prefix = 28%nat.
Proof. reflexivity. Qed.
Lemma len_det_prefix : length sig_detached_prefix = 28%nat.
Proof. reflexivity. Qed.
Lemma len_enc_prefix : length sig_encrypted_prefix = 29%nat.
Proof. reflexivity. Qed.
Lemma att_det_prefix_ne : sig_attached_prefix <> sig_detached_prefix.
Proof. vm_compute. discriminate. Qed.

(* ---------- decoding a header the honest signer wrote (any minor version) ---------- *)
Lemma as_int_ok (z : Z) : (z <= 9223372036854775807)%Z -> as_int (MInt z) = DOk z.
Proof. intro H. cbn [as_int]. destruct (Z.leb_spec z 9223372036854775807); [reflexivity|lia]. Qed.

Lemma mt_range (typ : Z) : typ = mt_attached \/ typ = mt_detached -> (1 <= typ <= 2)%Z.
Proof. intros [->| ->]; vm_compute; split; discriminate. Qed.

Lemma wf_sig_header_gen (v : version) (typ : Z) (pk nonce : bytes) :
  (vmaj v = 1 \/ vmaj v = 2)%Z -> (0 <= vmin v <= 127)%Z -> typ = mt_attached \/ typ = mt_detached ->
  len pk < 4294967296 -> len nonce < 4294967296 ->
  wf (mv_sig_header v typ pk nonce).
Proof.
  intros Hmaj Hmin Ht Hp Hn. unfold mv_sig_header, mv_version. cbn [wf length].
  assert (len format_name < 4294967296) by (vm_compute; reflexivity).
  pose proof (mt_range typ Ht).
  repeat split; try assumption; try lia.
Qed.

Lemma view_sig_header_gen (v : version) (typ : Z) (pk nonce : bytes) :
  (vmaj v = 1 \/ vmaj v = 2)%Z -> (0 <= vmin v <= 127)%Z -> typ = mt_attached \/ typ = mt_detached ->
  view_sig_header (mv_sig_header v typ pk nonce) = DOk (sig_hdr v typ pk nonce).
Proof.
  intros Hmaj Hmin Ht. pose proof (mt_range typ Ht).
  unfold view_sig_header, mv_sig_header, mv_version, view_version.
  cbn [as_array dbind field nth as_string as_bytes].
  rewrite !as_int_ok by lia. cbn [dbind].
  destruct v as [maj min]. reflexivity.
Qed.

Lemma decode_sig_header (v : version) (typ : Z) (pk nonce : bytes) (h : header) :
  (vmaj v = 1 \/ vmaj v = 2)%Z -> (0 <= vmin v <= 127)%Z -> typ = mt_attached \/ typ = mt_detached ->
  len pk < 4294967296 -> len nonce < 4294967296 ->
  decode_header view_sig_header (sig_header_bytes v typ pk nonce) = Ok h ->
  h = sig_hdr v typ pk nonce.
Proof.
  intros Hmaj Hmin Ht Hp Hn. unfold sig_header_bytes.
  rewrite decode_header_enc by (apply wf_sig_header_gen; assumption).
  rewrite view_sig_header_gen by assumption. cbn [of_dres]. intro E. injection E as <-. reflexivity.
Qed.

Lemma sig_header_bytes_nonnil (v : version) (typ : Z) (pk nonce : bytes) :
  sig_header_bytes v typ pk nonce <> [].
Proof.
  unfold sig_header_bytes. intro E.
  pose proof (mp_encode_len (mv_sig_header v typ pk nonce)) as H. rewrite E in H. cbn [length] in H. lia.
Qed.

(* ---------- what the verifier's readers guarantee ---------- *)
Lemma view_sig_block_v1 (v : version) (m : mval) (sig ch : bytes) (f : bool) :
  view_sig_block v m = DOk (sig, ch, f) -> (vmaj v = 1)%Z -> f = is_nil ch.
Proof.
  intros H E. unfold view_sig_block in H. rewrite E in H. change (1 =? 1)%Z with true in H.
  destruct (as_array m) as [l| |]; cbn [dbind] in H; try discriminate.
  destruct (as_bytes (field l 0)) as [s| |]; cbn [dbind] in H; try discriminate.
  destruct (as_bytes (field l 1)) as [k| |]; cbn [dbind] in H; try discriminate.
  injection H as _ <- <-. reflexivity.
Qed.

Lemma read_packet_suffix (input : bytes) (m : mval) (rest : bytes) :
  read_packet input = Ok (m, rest) -> (length rest < length input)%nat.
Proof.
  unfold read_packet. destruct (mp_read input) as [v r| | |] eqn:E; try discriminate.
  intro H. injection H as _ <-. apply mp_read_suffix in E as (pre & -> & Hp).
  rewrite app_length. lia.
Qed.

Lemma read_packet_not_eof (input : bytes) : read_packet input <> Err EOF.
Proof. unfold read_packet. destruct (mp_read input); discriminate. Qed.

Lemma read_header_bytes_suffix (input hb rest : bytes) :
  read_header_bytes input = Ok (hb, rest) -> (length rest <= length input)%nat.
Proof.
  unfold read_header_bytes. destruct (mp_read input) as [v r| | |] eqn:E; try discriminate.
  destruct (as_bytes v); try discriminate.
  intro H. injection H as _ <-. apply mp_read_suffix in E as (pre & -> & Hp).
  rewrite app_length. lia.
Qed.

Lemma check_chunk_state_not_eof (v : version) (l : nat) (i : N) (f : bool) :
  check_chunk_state v l i f <> Err EOF.
Proof.
  unfold check_chunk_state.
  repeat match goal with |- context[if ?b then _ else _] => destruct b end; discriminate.
Qed.

Lemma of_dres_not_eof {A} (d : dres A) : of_dres d <> Err EOF.
Proof. destruct d; discriminate. Qed.

Lemma lookup_signer_some (kr : sigring) (kid pk : bytes) : lookup_signer kr kid = Some pk -> pk = kid.
Proof.
  unfold lookup_signer. destruct (existsb _ kr); [|discriminate].
  intro H. injection H as <-. reflexivity.
Qed.


Section Auth.
Variable c : crypto.
Hypothesis Hsha : forall x, length (sha512 c x) = 64%nat.

(* ---- the honest history of one signing key ---- *)

(* everything a signing key was ever asked to sign by a spec-following saltpack
   sender (this library or any other): attached messages with ANY chunking and
   header nonce, detached signatures, and signcryption packets *)
Inductive sign_event :=
| EvAttached (v : version) (nonce : bytes) (packets : list (bytes * bool))
| EvDetached (v : version) (nonce msg : bytes)
| EvSigncrypt (hh nonce : bytes) (final : bool) (chunk : bytes).

Definition ev_header (pk : bytes) (e : sign_event) : bytes :=
  match e with
  | EvAttached v nonce _ => sig_header_bytes v mt_attached pk nonce
  | EvDetached v nonce _ => sig_header_bytes v mt_detached pk nonce
  | EvSigncrypt _ _ _ _ => []
  end.

Fixpoint attached_inputs (v : version) (hh : bytes) (seqno : N) (ps : list (bytes * bool)) : list bytes :=
  match ps with
  | [] => []
  | (chunk, final) :: t =>
    match attached_sig_input c v hh chunk seqno final with
    | Some i => i :: attached_inputs v hh (seqno + 1) t
    | None => attached_inputs v hh (seqno + 1) t
    end
  end.

(* the byte strings the key signed *)
Definition ev_inputs (pk : bytes) (e : sign_event) : list bytes :=
  match e with
  | EvAttached v nonce ps => attached_inputs v (sha512 c (ev_header pk e)) 0 ps
  | EvDetached v nonce msg => [detached_sig_input c (sha512 c (ev_header pk e)) msg]
  | EvSigncrypt hh nonce final chunk => [signcrypt_sig_input c hh nonce final chunk]
  end.
Definition signed_inputs (pk : bytes) (L : list sign_event) : list bytes := flat_map (ev_inputs pk) L.

(* a spec-following attached message: known major version, fewer than 2^64
   packets, the final flag on the last packet only (V1: the final packet is the
   empty one and no other packet is empty) *)
Definition flags_ok (ps : list (bytes * bool)) : Prop :=
  exists init lastp, ps = init ++ [lastp] /\ snd lastp = true /\ Forall (fun p => snd p = false) init.
Definition event_ok (e : sign_event) : Prop :=
  match e with
  | EvAttached v nonce ps =>
    (vmaj v = 1 \/ vmaj v = 2)%Z /\ (0 <= vmin v <= 127)%Z /\ len nonce < 4294967296 /\
    N.of_nat (length ps) < 18446744073709551616 /\ flags_ok ps /\
    ((vmaj v = 1)%Z -> Forall (fun p => snd p = match fst p with [] => true | _ => false end) ps)
  | EvDetached v nonce _ => (vmaj v = 1 \/ vmaj v = 2)%Z /\ (0 <= vmin v <= 127)%Z /\ len nonce < 4294967296
  | EvSigncrypt _ _ _ _ => True
  end.

(* honest headers never repeat (the header nonce is fresh, C18) *)
Definition headers_distinct (pk : bytes) (L : list sign_event) : Prop :=
  forall i j e1 e2, nth_error L i = Some e1 -> nth_error L j = Some e2 ->
    ev_header pk e1 <> [] -> ev_header pk e1 = ev_header pk e2 -> i = j.

(* ---- what a break looks like ---- *)
Inductive CryptoBreak (pk : bytes) (L : list sign_event) : Prop :=
| SigForgery (m s : bytes) :
    ed_verify c pk m s = true -> ~ In m (signed_inputs pk L) -> CryptoBreak pk L
| ShaCollision (x y : bytes) :
    x <> y -> sha512 c x = sha512 c y -> CryptoBreak pk L.

Fixpoint list_prefix {A} (p l : list A) : Prop :=
  match p, l with
  | [], _ => True
  | x :: p', y :: l' => x = y /\ list_prefix p' l'
  | _ :: _, [] => False
  end.

(* ================================================================== *)
(* Reduction machinery                                                 *)
(* ================================================================== *)

Lemma list_prefix_app {A} (p t : list A) : list_prefix p (p ++ t).
Proof. induction p as [|x p IH]; cbn [list_prefix app]; auto. Qed.

(* the final flag sits on the last packet only *)
Lemma flags_ok_last (init : list (bytes * bool)) (ch : bytes) (t : list (bytes * bool)) :
  flags_ok ((init ++ [(ch, true)]) ++ t) -> t = [].
Proof.
  intros (init' & lastp & E & _ & Hall).
  destruct t as [|y t0]; [reflexivity|exfalso].
  destruct (@exists_last _ (y :: t0)) as (t' & x & Et); [discriminate|].
  rewrite Et in E. rewrite app_assoc in E. apply app_inj_tail in E as [E _]. subst init'.
  rewrite !Forall_app in Hall. destruct Hall as [[_ Hall] _].
  inversion Hall as [|p l Hp Hl]; subst. cbn [snd] in Hp. discriminate.
Qed.

(* the hashed part of an attached-signature input, after the header hash *)
Definition att_body (v : version) (i : N) (f : bool) (ch : bytes) : bytes :=
  be64 i ++ (if (vmaj v =? 1)%Z then [] else final_byte f) ++ ch.

Lemma attached_input_eq (v : version) (hh ch : bytes) (i : N) (f : bool) (x : bytes) :
  attached_sig_input c v hh ch i f = Some x ->
  x = sig_attached_prefix ++ sha512 c (hh ++ att_body v i f ch) /\ (vmaj v = 1 \/ vmaj v = 2)%Z.
Proof.
  unfold attached_sig_input, att_body. destruct (Z.eqb_spec (vmaj v) 1) as [E1|E1].
  - intro H. injection H as <-. split; [reflexivity|left; exact E1].
  - destruct (Z.eqb_spec (vmaj v) 2) as [E2|E2]; [|discriminate].
    intro H. injection H as <-. split; [reflexivity|right; exact E2].
Qed.

Lemma attached_inputs_in (v : version) (hh x : bytes) : forall ps n,
  In x (attached_inputs v hh n ps) ->
  exists k ch f, nth_error ps k = Some (ch, f) /\
                 attached_sig_input c v hh ch (n + N.of_nat k) f = Some x.
Proof.
  induction ps as [|[ch f] t IH]; intros n H; cbn [attached_inputs] in H; [destruct H|].
  assert (Hrec : In x (attached_inputs v hh (n + 1) t) ->
                 exists k ch0 f0, nth_error ((ch, f) :: t) k = Some (ch0, f0) /\
                                  attached_sig_input c v hh ch0 (n + N.of_nat k) f0 = Some x).
  { intro H'. apply IH in H' as (k & ch' & f' & Hn & Hi). exists (S k), ch', f'.
    split; [exact Hn|]. replace (n + N.of_nat (S k)) with (n + 1 + N.of_nat k) by lia. exact Hi. }
  destruct (attached_sig_input c v hh ch n f) as [i|] eqn:E.
  - destruct H as [<-|H]; [|exact (Hrec H)].
    exists 0%nat, ch, f. split; [reflexivity|]. rewrite N.add_0_r. exact E.
  - exact (Hrec H).
Qed.

Section Red.
Variable pk : bytes.
Variable L : list sign_event.

Lemma sha_inj_or (x y : bytes) : sha512 c x = sha512 c y -> x = y \/ CryptoBreak pk L.
Proof.
  intro H. destruct (bytes_eq_dec x y) as [E|Hne]; [left; exact E|].
  right. exact (ShaCollision pk L x y Hne H).
Qed.

(* ---------- (2) domain separation: which honest event a signed string belongs to ---------- *)
Lemma in_signed_attached (d : bytes) : length d = 64%nat ->
  In (sig_attached_prefix ++ d) (signed_inputs pk L) ->
  exists v' nonce' ps' k ch' f',
    In (EvAttached v' nonce' ps') L /\ nth_error ps' k = Some (ch', f') /\
    d = sha512 c (sha512 c (sig_header_bytes v' mt_attached pk nonce') ++ att_body v' (N.of_nat k) f' ch').
Proof.
  intros HL Hin. unfold signed_inputs in Hin. apply in_flat_map in Hin as (e & He & Hin).
  destruct e as [v' nonce' ps'|v' nonce' msg'|hh' nonce' f' ch'].
  - cbn [ev_inputs ev_header] in Hin.
    apply attached_inputs_in in Hin as (k & ch' & f' & Hn & Hi).
    apply attached_input_eq in Hi as [Hi _]. apply app_inv_head in Hi. rewrite N.add_0_l in Hi.
    exists v', nonce', ps', k, ch', f'. auto.
  - cbn [ev_inputs In] in Hin. destruct Hin as [Hin|[]].
    unfold detached_sig_input, detached_sig_input_from_hash in Hin.
    apply app_len_inj in Hin as [Hp _]; [|reflexivity].
    exfalso. apply att_det_prefix_ne. symmetry. exact Hp.
  - cbn [ev_inputs In] in Hin. destruct Hin as [Hin|[]].
    unfold signcrypt_sig_input in Hin. apply (f_equal (@length byte)) in Hin.
    rewrite !app_length in Hin. rewrite HL, Hsha, len_att_prefix, len_enc_prefix in Hin.
    unfold final_byte in Hin. cbn [length] in Hin. lia.
Qed.

Lemma in_signed_detached (d : bytes) : length d = 64%nat ->
  In (sig_detached_prefix ++ d) (signed_inputs pk L) ->
  exists v' nonce' msg',
    In (EvDetached v' nonce' msg') L /\
    d = sha512 c (sha512 c (sig_header_bytes v' mt_detached pk nonce') ++ msg').
Proof.
  intros HL Hin. unfold signed_inputs in Hin. apply in_flat_map in Hin as (e & He & Hin).
  destruct e as [v' nonce' ps'|v' nonce' msg'|hh' nonce' f' ch'].
  - cbn [ev_inputs ev_header] in Hin.
    apply attached_inputs_in in Hin as (k & ch' & f' & Hn & Hi).
    apply attached_input_eq in Hi as [Hi _].
    apply app_len_inj in Hi as [Hp _]; [|reflexivity].
    exfalso. apply att_det_prefix_ne. symmetry. exact Hp.
  - cbn [ev_inputs In ev_header] in Hin. destruct Hin as [Hin|[]].
    unfold detached_sig_input, detached_sig_input_from_hash in Hin.
    apply app_inv_head in Hin. exists v', nonce', msg'. auto.
  - cbn [ev_inputs In] in Hin. destruct Hin as [Hin|[]].
    unfold signcrypt_sig_input in Hin. apply (f_equal (@length byte)) in Hin.
    rewrite !app_length in Hin. rewrite HL, Hsha, len_det_prefix, len_enc_prefix in Hin.
    unfold final_byte in Hin. cbn [length] in Hin. lia.
Qed.

(* ---------- (3) one packet ---------- *)

(* packet [i] carried (chunk, final) and a signature that verified under pk *)
Definition verified (v : version) (hh : bytes) (i : N) (ch : bytes) (f : bool) : Prop :=
  exists inp sig,
    attached_sig_input c v hh ch i f = Some inp /\ ed_verify c pk inp sig = true /\
    i < 18446744073709551616 /\ ((vmaj v = 1)%Z -> f = is_nil ch).

(* packet [i] of an honest attached message with header bytes [hb] is (chunk, final) *)
Definition pkt_auth (v : version) (hb : bytes) (i : N) (ch : bytes) (f : bool) : Prop :=
  exists nonce ps,
    In (EvAttached v nonce ps) L /\ sig_header_bytes v mt_attached pk nonce = hb /\
    nth_error ps (N.to_nat i) = Some (ch, f).

(* the header bytes determine the version the verifier works with *)
Definition hdr_version (hb : bytes) (v : version) : Prop :=
  forall v' nonce', (vmaj v' = 1 \/ vmaj v' = 2)%Z -> (0 <= vmin v' <= 127)%Z ->
    len nonce' < 4294967296 -> hb = sig_header_bytes v' mt_attached pk nonce' -> v' = v.

Lemma packet_reduction (v : version) (hb : bytes) (i : N) (ch : bytes) (f : bool) :
  Forall event_ok L -> hdr_version hb v ->
  verified v (sha512 c hb) i ch f -> pkt_auth v hb i ch f \/ CryptoBreak pk L.
Proof.
  intros Hok Hdec (inp & sig & Hi & Hv & Hlt & Hv1).
  destruct (in_dec bytes_eq_dec inp (signed_inputs pk L)) as [Hin|Hnin];
    [|right; exact (SigForgery pk L inp sig Hv Hnin)].
  apply attached_input_eq in Hi as [-> Hmaj].
  apply in_signed_attached in Hin; [|apply Hsha].
  destruct Hin as (v' & nonce' & ps' & k & ch' & f' & HinL & Hnth & Hd).
  apply sha_inj_or in Hd as [Hd|B]; [|right; exact B].
  apply app_len_inj in Hd as [Hh Hb]; [|rewrite !Hsha; reflexivity].
  apply sha_inj_or in Hh as [Hh|B]; [|right; exact B].
  pose proof (proj1 (Forall_forall _ _) Hok _ HinL) as Hev. cbn [event_ok] in Hev.
  destruct Hev as (Hmaj' & Hmin' & Hnl & Hpl & Hfl & Hv1').
  assert (Ev : v' = v) by (apply (Hdec v' nonce'); assumption). subst v'.
  unfold att_body in Hb. apply app_len_inj in Hb as [Hbe Hb]; [|rewrite !be64_length; reflexivity].
  assert (Hk : (k < length ps')%nat) by (apply nth_error_Some; congruence).
  assert (Ei : i = N.of_nat k) by (apply be64_inj; [exact Hlt|lia|exact Hbe]).
  subst i. left. exists nonce', ps'. split; [exact HinL|]. split; [symmetry; exact Hh|].
  rewrite Nat2N.id, Hnth.
  destruct (Z.eqb_spec (vmaj v) 1) as [E|E].
  - cbn [app] in Hb. subst ch'. rewrite (Hv1 E).
    specialize (Hv1' E). rewrite Forall_forall in Hv1'.
    apply nth_error_In in Hnth. apply Hv1' in Hnth. cbn [fst snd] in Hnth. rewrite Hnth. reflexivity.
  - unfold final_byte in Hb. cbn [app] in Hb. injection Hb as Hf ->.
    destruct f, f'; try discriminate; reflexivity.
Qed.

(* ---------- (4) the verifier's loop ---------- *)
Fixpoint rel (v : version) (hh : bytes) (n : N) (rs : list (bytes * bool)) : Prop :=
  match rs with
  | [] => True
  | (ch, f) :: t => verified v hh n ch f /\ rel v hh (n + 1) t
  end.

Definition ends_final (rs : list (bytes * bool)) : Prop :=
  exists init ch, rs = init ++ [(ch, true)].

Lemma verify_loop_inv (v : version) (hh : bytes) : forall fuel n input acc,
  N.of_nat (length input) + n < 18446744073709551616 ->
  exists rs,
    so_chunks (verify_loop c fuel v pk hh n input acc) = rev acc ++ map fst rs /\
    rel v hh n rs /\
    (so_end (verify_loop c fuel v pk hh n input acc) = EOF -> ends_final rs).
Proof.
  assert (Stop : forall (acc : list bytes) (e : err) n, e <> EOF ->
            exists rs, so_chunks (mkOut (rev_append acc []) e) = rev acc ++ map fst rs /\
                       rel v hh n rs /\ (so_end (mkOut (rev_append acc []) e) = EOF -> ends_final rs)).
  { intros acc e n He. exists []. cbn [so_chunks so_end map rel].
    rewrite rev_append_rev, !app_nil_r. split; [reflexivity|]. split; [exact I|].
    intro E. contradiction. }
  induction fuel as [|fuel IH]; intros n input acc Hlen; cbn [verify_loop].
  - apply Stop. discriminate.
  - destruct (read_packet input) as [[m rest]|e] eqn:Er.
    2:{ apply Stop. intros ->. exact (read_packet_not_eof input Er). }
    pose proof (read_packet_suffix input m rest Er) as Hrest.
    destruct (negb ((vmaj v =? 1)%Z || (vmaj v =? 2)%Z)) eqn:Evm; [apply Stop; discriminate|].
    destruct (of_dres (view_sig_block v m)) as [[[sig ch] f]|e] eqn:Ev.
    2:{ apply Stop. intros ->. exact (of_dres_not_eof _ Ev). }
    destruct (attached_sig_input c v hh ch n f) as [inp|] eqn:Ei; [|apply Stop; discriminate].
    destruct (ed_verify c pk inp sig) eqn:Es; cbn [negb]; [|apply Stop; discriminate].
    destruct (check_chunk_state v (length ch) n f) as [u|e] eqn:Ec.
    2:{ apply Stop. intros ->. exact (check_chunk_state_not_eof _ _ _ _ Ec). }
    assert (Hver : verified v hh n ch f).
    { exists inp, sig. split; [exact Ei|]. split; [exact Es|]. split; [lia|].
      intro E1. destruct (view_sig_block v m) as [[[s k] b]| |] eqn:Evb; cbn [of_dres] in Ev; try discriminate.
      injection Ev as -> -> ->. exact (view_sig_block_v1 v m sig ch f Evb E1). }
    destruct f.
    + exists [(ch, true)]. cbn [so_chunks so_end map fst rel].
      rewrite rev_append_rev, app_nil_r. cbn [rev]. split; [reflexivity|].
      split; [split; [exact Hver|exact I]|]. intros _. exists [], ch. reflexivity.
    + destruct (IH (n + 1) rest (ch :: acc)) as (rs & Hc & Hr & He); [lia|].
      exists ((ch, false) :: rs). rewrite Hc. cbn [rev map fst rel]. rewrite <- app_assoc.
      split; [reflexivity|]. split; [split; [exact Hver|exact Hr]|].
      intro E. destruct (He E) as (init & ch' & ->). exists ((ch, false) :: init), ch'. reflexivity.
Qed.

(* ---------- (5) assembly ---------- *)
Fixpoint auth_from (v : version) (hb : bytes) (n : N) (rs : list (bytes * bool)) : Prop :=
  match rs with
  | [] => True
  | (ch, f) :: t => pkt_auth v hb n ch f /\ auth_from v hb (n + 1) t
  end.

Lemma rel_auth (v : version) (hb : bytes) :
  Forall event_ok L -> hdr_version hb v ->
  forall rs n, rel v (sha512 c hb) n rs -> auth_from v hb n rs \/ CryptoBreak pk L.
Proof.
  intros Hok Hdec. induction rs as [|[ch f] t IH]; intros n H; cbn [rel auth_from] in *.
  - left. exact I.
  - destruct H as [H1 H2].
    destruct (packet_reduction v hb n ch f Hok Hdec H1) as [A|B]; [|right; exact B].
    destruct (IH (n + 1) H2) as [A'|B]; [|right; exact B].
    left. split; assumption.
Qed.

Lemma auth_from_nth (v : version) (hb : bytes) : forall rs n k ch f,
  auth_from v hb n rs -> nth_error rs k = Some (ch, f) -> pkt_auth v hb (n + N.of_nat k) ch f.
Proof.
  induction rs as [|[ch0 f0] t IH]; intros n k ch f H Hn; [destruct k; discriminate|].
  cbn [auth_from] in H. destruct H as [H1 H2]. destruct k as [|k]; cbn [nth_error] in Hn.
  - injection Hn as <- <-. rewrite N.add_0_r. exact H1.
  - replace (n + N.of_nat (S k)) with (n + 1 + N.of_nat k) by lia. exact (IH _ _ _ _ H2 Hn).
Qed.

Lemma assemble (v : version) (hb : bytes) (r0 : bytes * bool) (rs : list (bytes * bool)) :
  headers_distinct pk L -> Forall event_ok L -> auth_from v hb 0 (r0 :: rs) ->
  exists nonce ps t,
    In (EvAttached v nonce ps) L /\ ps = (r0 :: rs) ++ t /\ (ends_final (r0 :: rs) -> t = []).
Proof.
  intros Hd Hok Ha.
  destruct r0 as [ch0 f0].
  destruct (auth_from_nth v hb _ 0 0%nat ch0 f0 Ha eq_refl) as (nonce0 & ps0 & Hin0 & Hh0 & _).
  assert (Hall : forall k x, nth_error ((ch0, f0) :: rs) k = Some x -> nth_error ps0 k = Some x).
  { intros k [ch f] Hk.
    destruct (auth_from_nth v hb _ 0 k ch f Ha Hk) as (nonce & ps & Hin & Hh & Hn).
    rewrite N.add_0_l, Nat2N.id in Hn.
    destruct (In_nth_error _ _ Hin0) as [a Ea]. destruct (In_nth_error _ _ Hin) as [b Eb].
    assert (a = b).
    { apply (Hd a b _ _ Ea Eb); cbn [ev_header].
      - apply sig_header_bytes_nonnil.
      - congruence. }
    subst b. rewrite Ea in Eb. injection Eb as _ <-. exact Hn. }
  apply nth_prefix in Hall as [t Et].
  exists nonce0, ps0, t. split; [exact Hin0|]. split; [exact Et|].
  intros (init & ch & Ei).
  pose proof (proj1 (Forall_forall _ _) Hok _ Hin0) as Hev. cbn [event_ok] in Hev.
  destruct Hev as (_ & _ & _ & _ & Hfl & _).
  rewrite Et, Ei in Hfl. exact (flags_ok_last _ _ _ Hfl).
Qed.

End Red.

(* (TARGET) C06: whatever [input] is, if the attached-signature verifier returns
   signer key [pk] and releases chunks [so_chunks out], then EITHER there is one
   attached message in the key's honest history whose packets' chunks start with
   exactly the released chunks (so the released bytes are a prefix of its
   message), and a clean end (EOF) happens only when all of its chunks were
   released, OR the input breaks Ed25519 / SHA-512. *)
Lemma attached_authentic (vd : validator) (kr : sigring) (input : bytes) (pk : bytes) (out : stream_out)
      (L : list sign_event) :
  Forall event_ok L -> headers_distinct pk L ->
  N.of_nat (length input) < 18446744073709551616 -> len pk < 4294967296 ->
  verify_stream c vd kr input = Ok (pk, out) ->
  (so_chunks out = [] /\ so_end out <> EOF) \/
  (exists v nonce ps,
      In (EvAttached v nonce ps) L /\
      list_prefix (so_chunks out) (map fst ps) /\
      (so_end out = EOF -> so_chunks out = map fst ps))
  \/ CryptoBreak pk L.
Proof.
  intros Hok Hd Hlen Hpk Hv.
  unfold verify_stream, verify_read_header in Hv.
  destruct (read_header_bytes input) as [[hb rest]|e] eqn:Erh; cbv beta iota delta [bind fst snd] in Hv; [|discriminate].
  destruct (decode_header view_sig_header hb) as [h|e] eqn:Edh; cbv beta iota delta [bind] in Hv; [|discriminate].
  destruct (validate_sig_header vd mt_attached h) as [u|e]; cbv beta iota delta [bind] in Hv; [|discriminate].
  destruct (lookup_signer kr (h_a h)) as [pk'|] eqn:Elk; [|discriminate].
  remember (verify_loop c _ _ _ _ _ _ _) as lp eqn:Elp in Hv.
  injection Hv as -> <-. subst lp.
  pose proof (read_header_bytes_suffix _ _ _ Erh) as Hrest.
  assert (Hdec : hdr_version pk hb (h_version h)).
  { intros v' nonce' Hmaj Hmin Hn ->.
    apply decode_sig_header in Edh; try assumption; [|left; reflexivity].
    rewrite Edh. reflexivity. }
  destruct (verify_loop_inv pk (h_version h) (sha512 c hb) (S (length rest)) 0 rest [])
    as (rs & Hc & Hrel & Heof); [lia|].
  destruct (rel_auth pk L (h_version h) hb Hok Hdec rs 0 Hrel) as [Ha|B]; [|right; right; exact B].
  destruct rs as [|r0 rs].
  - left. split; [rewrite Hc; reflexivity|].
    intro E. destruct (Heof E) as (init & ch & E'). destruct init; discriminate.
  - right. left.
    destruct (assemble pk L _ _ _ _ Hd Hok Ha) as (nonce & ps & t & Hin & Et & Hfin).
    exists (h_version h), nonce, ps. split; [exact Hin|]. rewrite Hc. cbn [rev app]. split.
    + rewrite Et, map_app. apply list_prefix_app.
    + intro E. rewrite (Hfin (Heof E)) in Et. rewrite app_nil_r in Et. rewrite Et. reflexivity.
Qed.

(* (TARGET) C06: the all-at-once form returns a message only if the key signed
   exactly that message as one attached-signature message *)
Lemma attached_authentic_all (vd : validator) (kr : sigring) (input : bytes) (pk msg : bytes)
      (L : list sign_event) :
  Forall event_ok L -> headers_distinct pk L ->
  N.of_nat (length input) < 18446744073709551616 -> len pk < 4294967296 ->
  verify_all c vd kr input = Ok (pk, msg) ->
  (exists v nonce ps, In (EvAttached v nonce ps) L /\ msg = concat (map fst ps))
  \/ CryptoBreak pk L.
Proof.
  intros Hok Hd Hlen Hpk Hv. unfold verify_all in Hv.
  destruct (verify_stream c vd kr input) as [[pk' out]|e] eqn:Es; cbv beta iota delta [bind] in Hv; [|discriminate].
  destruct (so_end out) eqn:Ee; try discriminate.
  injection Hv as -> <-.
  destruct (attached_authentic vd kr input pk out L Hok Hd Hlen Hpk Es)
    as [[_ Hne]|[(v & nonce & ps & Hin & _ & Hall)|B]].
  - contradiction.
  - left. exists v, nonce, ps. split; [exact Hin|]. rewrite (Hall Ee). reflexivity.
  - right. exact B.
Qed.

(* (TARGET) C07: detached verification succeeds only for a (message, header) pair
   the key signed in detached mode under exactly that header *)
Lemma detached_authentic (vd : validator) (kr : sigring) (msg sigfile : bytes) (pk : bytes)
      (L : list sign_event) :
  Forall event_ok L -> len pk < 4294967296 ->
  verify_detached c vd kr msg sigfile = Ok pk ->
  (exists v nonce hdr rest,
      In (EvDetached v nonce msg) L /\
      read_header_bytes sigfile = Ok (hdr, rest) /\ hdr = sig_header_bytes v mt_detached pk nonce)
  \/ CryptoBreak pk L.
Proof.
  intros Hok Hpk Hv.
  unfold verify_detached, verify_read_header in Hv.
  destruct (read_header_bytes sigfile) as [[hb rest]|e] eqn:Erh; cbv beta iota delta [bind fst snd] in Hv; [|discriminate].
  destruct (decode_header view_sig_header hb) as [h|e] eqn:Edh; cbv beta iota delta [bind] in Hv; [|discriminate].
  destruct (validate_sig_header vd mt_detached h) as [u|e]; cbv beta iota delta [bind] in Hv; [|discriminate].
  destruct (mp_read rest) as [m r| | |]; try discriminate.
  destruct (of_dres (as_bytes m)) as [sig|e]; cbv beta iota delta [bind] in Hv; [|discriminate].
  destruct (lookup_signer kr (h_a h)) as [pk'|]; [|discriminate].
  destruct (ed_verify c pk' (detached_sig_input c (sha512 c hb) msg) sig) eqn:Es; [|discriminate].
  injection Hv as ->.
  destruct (in_dec bytes_eq_dec (detached_sig_input c (sha512 c hb) msg) (signed_inputs pk L))
    as [Hin|Hnin]; [|right; exact (SigForgery pk L _ sig Es Hnin)].
  unfold detached_sig_input, detached_sig_input_from_hash in Hin.
  apply in_signed_detached in Hin; [|apply Hsha].
  destruct Hin as (v' & nonce' & msg' & HinL & Hd).
  apply (sha_inj_or pk L) in Hd as [Hd|B]; [|right; exact B].
  apply app_len_inj in Hd as [Hh ->]; [|rewrite !Hsha; reflexivity].
  apply (sha_inj_or pk L) in Hh as [Hh|B]; [|right; exact B].
  left. exists v', nonce', hb, rest. auto.
Qed.

End Auth.
