(* GoAstProofs2.v — second group of source ties: the hash/signature-input constructors, the
   nonce constructors, the MAC-key derivation and the per-packet decision functions
   (processBlock) of the three receivers, as translated on this run from /repo's Go syntax
   trees (gen/GoAst.v), compute exactly what the model computes, for ALL arguments and
   EVERY instance of the primitives.
   External calls: stdlib/crypto primitives (sha512, hmac, secretbox.Open, Box, Verify,
   binary.Write/PutUint64, bytes.Buffer, copyEqualSize/sliceToByteN) are given their
   meaning by [ext_prims]; calls of other saltpack functions are given the MODEL's meaning
   — each of those functions is itself translated and proved equal to that model function
   in this file or in GoAstProofs.v, so the composition is covered.
   Statements marked (TARGET) are used verbatim by props/. *)
From Coq Require Import List String NArith ZArith Bool Lia.
From Coq.Strings Require Import Byte.
From SP Require Import Bytes Consts Params Msgpack Crypto Errors Nonce Packets Verify Decrypt Signcrypt GoLang GoAst GoAstProofs.
Import ListNotations.
Local Open Scope string_scope.

(* ---------- stepping tactics: as [go1]/[run2] of GoAstProofs.v, but with the crypto primitives, the
   byte-string primitives and the model functions kept folded, and closed list/integer primitives
   computed syntactically (so that symbolic sub-terms such as [firstn 64 att] are never unfolded) ---------- *)
Ltac ev_in2 h :=
  eval cbv -[Z.eqb Z.ltb Z.leb Z.add Z.sub Z.mul Z.modulo Z.rem Z.quot Z.shiftr Z.shiftl Z.opp
             Z.land Z.lor Z.lxor Z.lnot Z.of_nat Z.of_N Z.to_nat Z.to_N List.length nth_error
             firstn skipn bytes_eqb' bytes_eqb Byte.to_N Byte.of_N N.mul N.ltb N.eqb N.add N.leb b2n n2b Nat.eqb
             set_low_bit hash16_flag_index N.div N.modulo nth
             app be64 sha512 hmac512 sb_open sb_seal dh_shared box_seal ed_verify
             block_number_ok nonce_chunk_secretbox nonce_chunk_signcryption nonce_mac_key_box_v1
             nonce_mac_key_box_v2 nonce_payload_key_box_v2 payload_hash payload_authenticator
             mac_key_single sum512_truncate256 signcrypt_sig_input attached_sig_input
             detached_sig_input_from_hash detached_sig_input] in h.
Ltac ev_term2 h := let h' := ev_in2 h in progress (change h with h'); cbv beta iota.
Ltac norm_env2 h x f e ss k :=
  let e' := ev_in2 e in
  tryif constr_eq e e' then k e
  else (change h with (exec x (S f) e' ss); k e').
Ltac step1 :=
  lazymatch goal with
  | |- ?G =>
    let L := lazymatch G with ?L = _ => L | _ => G end in
    let h := head_scrut L in
    lazymatch h with
    | exec ?x (S ?f) ?e ?ss =>
      norm_env2 h x f e ss ltac:(fun e' =>
        lazymatch type of (exec_S x f e' ss) with
        | _ = ?R => let R' := eval cbv beta iota zeta in R in
                    change (exec x (S f) e' ss) with R'
        end)
    | _ => ev_term2 h
    end
  end.
(* unfold run_func on a translated function and bind its parameters *)
Ltac start2 F :=
  cbv beta iota zeta delta [g_result1 run_func f_body f_params f_results F];
  lazymatch goal with
  | |- context [bind_params ?a ?b] =>
    let r := eval cbv [bind_params] in (bind_params a b) in change (bind_params a b) with r; cbv beta iota
  end;
  change (@map (string * string) (string * gval) _ []) with (@nil (string * gval));
  change (@app (string * gval) ?l []) with l.

(* closed integer / byte literals *)
Ltac lits2 :=
  match goal with
  | |- context [Byte.of_N (Z.to_N ?a)] => is_Zlit a; let r := eval cbv in (Byte.of_N (Z.to_N a)) in change (Byte.of_N (Z.to_N a)) with r
  | |- context [Z.to_N ?a] => is_Zlit a; let r := eval cbv in (Z.to_N a) in change (Z.to_N a) with r
  | |- context [Z.modulo ?a ?b] => is_Zlit a; is_Zlit b; let r := eval cbv in (Z.modulo a b) in change (Z.modulo a b) with r
  end; cbv beta iota.
(* list primitives on lists with an explicit spine (the elements may be symbolic and are not touched) *)
Ltac is_spine l := lazymatch l with nil => idtac | cons _ ?t => is_spine t end.
Ltac is_natlit n := lazymatch n with O => idtac | S ?m => is_natlit m end.
Ltac firstn_lit A n l :=
  lazymatch n with
  | O => constr:(@nil A)
  | S ?m => lazymatch l with
            | nil => constr:(@nil A)
            | cons ?x ?t => let r := firstn_lit A m t in constr:(@cons A x r)
            end
  end.
Ltac skipn_lit A n l :=
  lazymatch n with
  | O => l
  | S ?m => lazymatch l with
            | nil => constr:(@nil A)
            | cons _ ?t => skipn_lit A m t
            end
  end.
Ltac nth_error_lit A l n :=
  lazymatch l with
  | nil => constr:(@None A)
  | cons ?x ?t => lazymatch n with O => constr:(@Some A x) | S ?m => nth_error_lit A t m end
  end.
Ltac length_lit l :=
  lazymatch l with
  | nil => constr:(O)
  | cons _ ?t => let r := length_lit t in constr:(S r)
  end.
Ltac app_lit A l k :=
  lazymatch l with
  | nil => k
  | cons ?x ?t => let r := app_lit A t k in constr:(@cons A x r)
  end.
Ltac lits3 :=
  match goal with
  | |- context [@List.length ?A ?l] => is_spine l; let r := length_lit l in change (@List.length A l) with r
  | |- context [@firstn ?A ?n ?l] => is_natlit n; is_spine l; let r := firstn_lit A n l in change (@firstn A n l) with r
  | |- context [@skipn ?A ?n ?l] => is_natlit n; is_spine l; let r := skipn_lit A n l in change (@skipn A n l) with r
  | |- context [@nth_error ?A ?l ?n] => is_natlit n; is_spine l; let r := nth_error_lit A l n in change (@nth_error A l n) with r
  | |- context [Z.of_nat ?n] => is_natlit n; let r := eval cbv in (Z.of_nat n) in change (Z.of_nat n) with r
  | |- context [Nat.eqb ?n ?m] => is_natlit n; is_natlit m; let r := eval cbv in (Nat.eqb n m) in change (Nat.eqb n m) with r
  | |- context [@app ?A ?l ?k] => is_spine l; let r := app_lit A l k in change (@app A l k) with r
  end; cbv beta iota.

(* whole-slice expressions x[:], be64, Z.to_N (Z.of_N _) *)
Lemma len_ltb0 {A} (b : list A) : (Z.of_nat (List.length b) <? 0)%Z = false.
Proof. lia. Qed.
Lemma firstn_full {A} (b : list A) : firstn (Z.to_nat (Z.of_nat (List.length b) - 0)) (skipn 0 b) = b.
Proof. cbn [skipn]. apply firstn_all2. lia. Qed.
Lemma firstn_rest {A} (b : list A) (k : nat) : (k <= List.length b)%nat ->
  firstn (Z.to_nat (Z.of_nat (List.length b) - Z.of_nat k)) (skipn k b) = skipn k b.
Proof. intros H. apply firstn_all2. rewrite skipn_length. lia. Qed.
Lemma be64_len (n : N) : List.length (be64 n) = 8%nat.
Proof. reflexivity. Qed.
Lemma u64_small (i : N) : (i < 18446744073709551616)%N -> (Z.of_N i mod 18446744073709551616)%Z = Z.of_N i.
Proof. intros H. apply Z.mod_small. lia. Qed.
(* blockNum := uint64(seqno - 1) with seqno = n + 1 *)
Lemma blocknum_wrap (n : N) : (n < 18446744073709551615)%N \/ (n = 18446744073709551615)%N ->
  (((Z.of_N n + 1 - 1) mod 18446744073709551616) mod 18446744073709551616)%Z = Z.of_N n.
Proof. intros H. rewrite Z.mod_mod by lia. replace (Z.of_N n + 1 - 1)%Z with (Z.of_N n) by lia. apply Z.mod_small. lia. Qed.
Ltac slice1 := progress (rewrite ?skipn_O, ?N2Z.id, ?len_ltb0, ?Z.ltb_irrefl, ?firstn_full, ?be64_len, ?app_nil_r); cbv beta iota.

Ltac steps := repeat first [step1 | use_head_hyp | lits1 | lits2 | lits3 | slice1].

(* x[15] &^= 1 and x[15] |= 1 on a byte, as the model's set_low_bit (256 cases each) *)
Lemma clear_bit0 (b : byte) :
  match Byte.of_N (Z.to_N (Z.land (Z.of_N (Byte.to_N b)) (Z.lnot 1) mod 256)) with Some c => c | None => x00 end
  = set_low_bit b false.
Proof. destruct b; vm_compute; reflexivity. Qed.
Lemma set_bit0 (b : byte) :
  match Byte.of_N (Z.to_N (Z.lor (Z.of_N (Byte.to_N (set_low_bit b false))) 1 mod 256)) with Some c => c | None => x00 end
  = set_low_bit b true.
Proof. destruct b; vm_compute; reflexivity. Qed.

Section Prims.
Variable c : crypto.

Definition vbytes_of (v : gval) : option bytes :=
  match v with VBytes b => Some b | VNil => Some [] | _ => None end.

(* the primitives of the standard library and of NaCl, over the crypto record *)
Definition ext_prims : externs := fun fn args =>
  (* hashing: a sha512 state is the bytes written so far; an hmac state is [key; bytes written] *)
  if String.eqb fn "sha512.New" then Some [VBytes []]
  else if String.eqb fn "hmac.New" then
    match args with [_; VBytes k] => Some [VList [VBytes k; VBytes []]] | _ => None end
  else if String.eqb fn "Hash.Write" then
    match args with
    | [VBytes acc; VBytes d] => Some [VInt (Z.of_nat (List.length d)); VNil; VBytes (acc ++ d)%list]
    | [VList [VBytes k; VBytes acc]; VBytes d] => Some [VInt (Z.of_nat (List.length d)); VNil; VList [VBytes k; VBytes (acc ++ d)%list]]
    | _ => None
    end
  else if String.eqb fn "Hash.Sum" then
    match args with
    | [VBytes acc; VNil] => Some [VBytes (sha512 c acc)]
    | [VList [VBytes k; VBytes acc]; VNil] => Some [VBytes (hmac512 c k acc)]
    | _ => None
    end
  else if String.eqb fn "sha512.Sum512" then
    match args with [VBytes d] => Some [VBytes (sha512 c d)] | _ => None end
  else if String.eqb fn "binary.Write" then            (* binary.Write(hasher, BigEndian, uint64) *)
    match args with
    | [VBytes acc; _; VInt n] => Some [VNil; VBytes (acc ++ be64 (Z.to_N n))%list]
    | _ => None
    end
  else if String.eqb fn "Buffer.Write" then
    match args with
    | [cur; VBytes d] => match vbytes_of cur with
                         | Some b => Some [VInt (Z.of_nat (List.length d)); VNil; VBytes (b ++ d)%list]
                         | None => None
                         end
    | _ => None
    end
  else if String.eqb fn "Buffer.Bytes" then
    match args with [cur] => match vbytes_of cur with Some b => Some [VBytes b] | None => None end | _ => None end
  (* fixed-size copies: the helpers panic on a length mismatch (VNil result = panic for SSliceCall) *)
  else if String.eqb fn "copyEqualSize" || String.eqb fn "copyEqualSizeStr" then
    match args with
    | [VBytes w; VBytes src] => if Nat.eqb (List.length w) (List.length src) then Some [VBytes src] else Some [VNil]
    | _ => None
    end
  else if String.eqb fn "bigEndian.PutUint64" then
    match args with
    | [VBytes w; VInt n] => if Nat.eqb (List.length w) 8 then Some [VBytes (be64 (Z.to_N n))] else None
    | _ => None
    end
  else if String.eqb fn "sliceToByte24" || String.eqb fn "stringToByte24" then
    match args with [VBytes b] => if Nat.eqb (List.length b) 24 then Some [VBytes b] else None | _ => None end
  else if String.eqb fn "sliceToByte32" then
    match args with [VBytes b] => if Nat.eqb (List.length b) 32 then Some [VBytes b] else None | _ => None end
  else if String.eqb fn "sliceToByte64" then
    match args with [VBytes b] => if Nat.eqb (List.length b) 64 then Some [VBytes b] else None | _ => None end
  (* NaCl *)
  else if String.eqb fn "secretbox.Open" then
    match args with
    | [_; VBytes ct; VBytes nonce; VBytes key] =>
      match sb_open c key nonce ct with
      | Some pt => Some [VBytes pt; VBool true]
      | None => Some [VNil; VBool false]
      end
    | _ => None
    end
  else if String.eqb fn "BoxSecretKey.Box" then          (* secret.Box(public, nonce, msg) *)
    match args with
    | [VBytes sk; VBytes pk; VBytes nonce; VBytes msg] => Some [VBytes (box_seal c sk pk nonce msg)]
    | _ => None
    end
  else if String.eqb fn "SigningPublicKey.Verify" then   (* key.Verify(message, signature) error *)
    match args with
    | [VBytes pk; VBytes msg; VBytes sig] => if ed_verify c pk msg sig then Some [VNil] else Some [VErr "ErrBadSignature" []]
    | _ => None
    end
  else if String.eqb fn "payloadAuthenticator.Equal" then
    match args with [VBytes a; VBytes b] => Some [VBool (bytes_eqb a b)] | _ => None end
  else None.

(* saltpack functions called by the functions below, with the MODEL's meaning *)
Definition opt_ret (o : option bytes) : option (list gval) :=
  match o with Some b => Some [VBytes b] | None => None end.
Definition as_N (v : gval) : option N := match v with VInt z => if Z.ltb z 0 then None else Some (Z.to_N z) | _ => None end.
Definition as_version (v : gval) : option version :=
  match v with VStruct [("Major", VInt ma); ("Minor", VInt mi)] => Some (mkV ma mi) | _ => None end.

Definition ext_model : externs := fun fn args =>
  if String.eqb fn "encryptionBlockNumber.check" then
    match args with [VInt n] => if block_number_ok (Z.to_N n) then Some [VNil] else Some [VErr "ErrPacketOverflow" []] | _ => None end
  else if String.eqb fn "nonceForChunkSecretBox" then
    match args with [VInt n] => Some [VBytes (nonce_chunk_secretbox (Z.to_N n))] | _ => None end
  else if String.eqb fn "nonceForChunkSigncryption" then
    match args with [VBytes hh; VBool f; VInt n] => Some [VBytes (nonce_chunk_signcryption hh f (Z.to_N n))] | _ => None end
  else if String.eqb fn "nonceForMACKeyBoxV1" then
    match args with [VBytes hh] => Some [VBytes (nonce_mac_key_box_v1 hh)] | _ => None end
  else if String.eqb fn "nonceForMACKeyBoxV2" then
    match args with [VBytes hh; VBool e; VInt n] => Some [VBytes (nonce_mac_key_box_v2 hh e (Z.to_N n))] | _ => None end
  else if String.eqb fn "nonceForPayloadKeyBoxV2" then
    match args with [VInt n] => Some [VBytes (nonce_payload_key_box_v2 (Z.to_N n))] | _ => None end
  else if String.eqb fn "computePayloadHash" then
    match args with
    | [v; VBytes hh; VBytes nonce; VBytes ct; VBool f] =>
      match as_version v with Some ver => opt_ret (payload_hash c ver hh nonce ct f) | None => None end
    | _ => None
    end
  else if String.eqb fn "computePayloadAuthenticator" then
    match args with [VBytes k; VBytes ph] => Some [VBytes (payload_authenticator c k ph)] | _ => None end
  else if String.eqb fn "computeMACKeySingle" then
    match args with [VBytes sk; VBytes pk; VBytes nonce] => Some [VBytes (mac_key_single c sk pk nonce)] | _ => None end
  else if String.eqb fn "sum512Truncate256" then
    match args with [VBytes x] => Some [VBytes (sum512_truncate256 c x)] | _ => None end
  else if String.eqb fn "computeSigncryptionSignatureInput" then
    match args with
    | [VBytes hh; VBytes nonce; VBool f; chunk] =>
      match vbytes_of chunk with Some ch => Some [VBytes (signcrypt_sig_input c hh nonce f ch)] | None => None end
    | _ => None
    end
  else if String.eqb fn "attachedSignatureInput" then
    match args with
    | [v; VBytes hh; chunk; VInt seq; VBool f] =>
      match as_version v, vbytes_of chunk with
      | Some ver, Some ch => opt_ret (attached_sig_input c ver hh ch (Z.to_N seq) f)
      | _, _ => None
      end
    | _ => None
    end
  else if String.eqb fn "detachedSignatureInputFromHash" then
    match args with [VBytes h] => Some [VBytes (detached_sig_input_from_hash h)] | _ => None end
  else ext_prims fn args.

Definition ret_bytes (o : option bytes) : outcome :=
  match o with Some b => ORet [VBytes b] | None => OPanic end.

(* closing step: normalise appends and compare *)
Ltac fin := rewrite ?N2Z.id; cbn [app ret_bytes]; rewrite <- ?app_assoc; try reflexivity.

(* ================= hash / signature inputs ================= *)

(* (TARGET) what an attached-signature signer signs and a verifier checks *)
Lemma go_attachedSignatureInput (v : version) (hh chunk : bytes) (seqno : N) (final : bool) :
  (seqno < 18446744073709551616)%N ->
  run_func ext_prims f_saltpack_attachedSignatureInput
           [g_version v; VBytes hh; VBytes chunk; VInt (Z.of_N seqno); VBool final]
  = ret_bytes (attached_sig_input c v hh chunk seqno final).
Proof.
  intros Hs. destruct v as [ma mi].
  start2 f_saltpack_attachedSignatureInput.
  unfold attached_sig_input; cbn [vmaj].
  destruct (ma =? 1)%Z eqn:E1; [|destruct (ma =? 2)%Z eqn:E2; [destruct final|]]; steps; fin.
Qed.

(* (TARGET) *)
Lemma go_detachedSignatureInputFromHash (h : bytes) :
  run_func ext_prims f_saltpack_detachedSignatureInputFromHash [VBytes h]
  = ORet [VBytes (detached_sig_input_from_hash h)].
Proof.
  start2 f_saltpack_detachedSignatureInputFromHash. steps. fin.
Qed.

(* (TARGET) *)
Lemma go_detachedSignatureInput (hh msg : bytes) :
  run_func ext_model f_saltpack_detachedSignatureInput [VBytes hh; VBytes msg]
  = ORet [VBytes (detached_sig_input c hh msg)].
Proof.
  start2 f_saltpack_detachedSignatureInput. steps. fin.
Qed.

(* (TARGET) the per-packet hash the recipients' authenticators are computed over *)
Lemma go_computePayloadHash (v : version) (hh nonce ct : bytes) (final : bool) :
  (forall x, List.length (sha512 c x) = 64%nat) ->
  run_func ext_prims f_saltpack_computePayloadHash [g_version v; VBytes hh; VBytes nonce; VBytes ct; VBool final]
  = ret_bytes (payload_hash c v hh nonce ct final).
Proof.
  intros Hs. destruct v as [ma mi].
  start2 f_saltpack_computePayloadHash.
  unfold payload_hash; cbn [vmaj].
  destruct (ma =? 1)%Z eqn:E1; [|destruct (ma =? 2)%Z eqn:E2; [destruct final|]]; steps; rewrite ?Hs; steps; fin.
Qed.

(* (TARGET) what a signcryption signer signs for a chunk *)
Lemma go_computeSigncryptionSignatureInput (hh nonce chunk : bytes) (final : bool) :
  run_func ext_prims f_saltpack_computeSigncryptionSignatureInput [VBytes hh; VBytes nonce; VBool final; VBytes chunk]
  = ORet [VBytes (signcrypt_sig_input c hh nonce final chunk)].
Proof.
  start2 f_saltpack_computeSigncryptionSignatureInput. unfold signcrypt_sig_input.
  destruct final; steps; fin.
Qed.

(* (TARGET) *)
Lemma go_computePayloadAuthenticator (k ph : bytes) :
  (32 <= List.length (hmac512 c k ph))%nat ->
  run_func ext_prims f_saltpack_computePayloadAuthenticator [VBytes k; VBytes ph]
  = ORet [VBytes (payload_authenticator c k ph)].
Proof.
  intros H.
  assert (H1 : (Z.of_nat (List.length (hmac512 c k ph)) <? 32)%Z = false) by lia.
  assert (H2 : (List.length (firstn 32 (hmac512 c k ph)) =? 32)%nat = true)
    by (rewrite firstn_length_le by assumption; reflexivity).
  start2 f_saltpack_computePayloadAuthenticator. unfold payload_authenticator.
  steps. reflexivity.
Qed.

(* ================= MAC keys ================= *)

(* (TARGET) *)
Lemma go_computeMACKeySingle (sk pk nonce : bytes) :
  (48 <= List.length (box_seal c sk pk nonce (zeros 32)))%nat ->
  run_func ext_prims f_saltpack_computeMACKeySingle [VBytes sk; VBytes pk; VBytes nonce]
  = ORet [VBytes (mac_key_single c sk pk nonce)].
Proof.
  intros H.
  assert (H1 : (Z.of_nat (List.length (box_seal c sk pk nonce (zeros 32))) <? 48)%Z = false) by lia.
  assert (H2 : (List.length (firstn 32 (skipn 16 (box_seal c sk pk nonce (zeros 32)))) =? 32)%nat = true)
    by (rewrite firstn_length_le by (rewrite skipn_length; lia); reflexivity).
  start2 f_saltpack_computeMACKeySingle. unfold mac_key_single.
  cbv [zeros repeat] in *.
  steps. reflexivity.
Qed.

(* (TARGET) *)
Lemma go_computeMACKeyReceiver (v : version) (index : N) (sk spk epk hh : bytes) :
  run_func ext_model f_saltpack_computeMACKeyReceiver
           [g_version v; VInt (Z.of_N index); VBytes sk; VBytes spk; VBytes epk; VBytes hh]
  = ret_bytes (mac_key_receiver c v index sk spk epk hh).
Proof.
  destruct v as [ma mi].
  start2 f_saltpack_computeMACKeyReceiver.
  unfold mac_key_receiver; cbn [vmaj].
  destruct (ma =? 1)%Z eqn:E1; [|destruct (ma =? 2)%Z eqn:E2]; steps; fin.
Qed.

(* ================= nonces ================= *)

(* (TARGET) *)
Lemma go_nonceForChunkSecretBox (i : N) :
  (i < 18446744073709551616)%N ->
  run_func ext_prims f_saltpack_nonceForChunkSecretBox [VInt (Z.of_N i)] = ORet [VBytes (nonce_chunk_secretbox i)].
Proof.
  intros Hi.
  start2 f_saltpack_nonceForChunkSecretBox. unfold nonce_chunk_secretbox.
  steps. rewrite (u64_small i Hi). fin.
Qed.

(* (TARGET) *)
Lemma go_nonceForChunkSigncryption (hh : bytes) (final : bool) (i : N) :
  (16 <= List.length hh)%nat -> (i < 18446744073709551616)%N ->
  run_func ext_prims f_saltpack_nonceForChunkSigncryption [VBytes hh; VBool final; VInt (Z.of_N i)]
  = ORet [VBytes (nonce_chunk_signcryption hh final i)].
Proof.
  intros H Hi.
  assert (H1 : (Z.of_nat (List.length hh) <? 16)%Z = false) by lia.
  start2 f_saltpack_nonceForChunkSigncryption. unfold nonce_chunk_signcryption, hash16_flag_index.
  steps.
  do 16 (destruct hh as [|? hh]; [cbn in H; lia|]). clear H H1.
  cbn [firstn skipn List.length app nth].
  steps. rewrite clear_bit0.
  destruct final; steps; rewrite ?set_bit0; steps; rewrite (u64_small i Hi); fin.
Qed.

(* (TARGET) *)
Lemma go_nonceForMACKeyBoxV2 (hh : bytes) (eph : bool) (i : N) :
  (16 <= List.length hh)%nat -> (i < 18446744073709551616)%N ->
  run_func ext_prims f_saltpack_nonceForMACKeyBoxV2 [VBytes hh; VBool eph; VInt (Z.of_N i)]
  = ORet [VBytes (nonce_mac_key_box_v2 hh eph i)].
Proof.
  intros H Hi.
  assert (H1 : (Z.of_nat (List.length hh) <? 16)%Z = false) by lia.
  start2 f_saltpack_nonceForMACKeyBoxV2. unfold nonce_mac_key_box_v2, hash16_flag_index.
  steps.
  do 16 (destruct hh as [|? hh]; [cbn in H; lia|]). clear H H1.
  cbn [firstn skipn List.length app nth].
  steps. rewrite clear_bit0.
  destruct eph; steps; rewrite ?set_bit0; steps; fin.
Qed.

(* (TARGET) *)
Lemma go_nonceForMACKeyBoxV1 (hh : bytes) :
  (24 <= List.length hh)%nat ->
  run_func ext_prims f_saltpack_nonceForMACKeyBoxV1 [VBytes hh] = ORet [VBytes (nonce_mac_key_box_v1 hh)].
Proof.
  intros H.
  assert (H1 : (Z.of_nat (List.length hh) <? 24)%Z = false) by lia.
  assert (H2 : (List.length (firstn 24 hh) =? 24)%nat = true)
    by (rewrite firstn_length_le by assumption; reflexivity).
  start2 f_saltpack_nonceForMACKeyBoxV1. unfold nonce_mac_key_box_v1.
  steps. fin.
Qed.

(* (TARGET) *)
Lemma go_nonceForPayloadKeyBoxV2 (i : N) :
  (i < 18446744073709551616)%N ->
  run_func ext_prims f_saltpack_nonceForPayloadKeyBoxV2 [VInt (Z.of_N i)] = ORet [VBytes (nonce_payload_key_box_v2 i)].
Proof.
  intros Hi.
  start2 f_saltpack_nonceForPayloadKeyBoxV2. unfold nonce_payload_key_box_v2.
  steps. fin.
Qed.

(* (TARGET) *)
Lemma go_nonceForPayloadKeyBox (v : version) (i : N) :
  run_func ext_model f_saltpack_nonceForPayloadKeyBox [g_version v; VInt (Z.of_N i)]
  = ret_bytes (nonce_payload_key_box v i).
Proof.
  destruct v as [ma mi].
  start2 f_saltpack_nonceForPayloadKeyBox. unfold nonce_payload_key_box; cbn [vmaj].
  destruct (ma =? 1)%Z eqn:E1; [|destruct (ma =? 2)%Z eqn:E2]; steps; fin.
Qed.

(* (TARGET) *)
Lemma go_nonce_constants :
  run_func ext_prims f_saltpack_nonceForSenderKeySecretBox [] = ORet [VBytes nonce_sender_key_sbox] /\
  run_func ext_prims f_saltpack_nonceForDerivedSharedKey [] = ORet [VBytes nonce_derived_shared_key].
Proof. split; reflexivity. Qed.

(* (TARGET) *)
Lemma go_encryptionBlockNumber_check (n : N) :
  run_func no_ext f_saltpack_encryptionBlockNumber_check [VInt (Z.of_N n)]
  = if block_number_ok n then ORet [VNil] else ORet [VErr "ErrPacketOverflow" []].
Proof.
  start2 f_saltpack_encryptionBlockNumber_check. unfold block_number_ok.
  replace (n <? 18446744073709551615)%N with (negb (18446744073709551615 <=? Z.of_N n)%Z)
    by (destruct (N.ltb_spec n 18446744073709551615), (Z.leb_spec 18446744073709551615 (Z.of_N n)); cbn; lia).
  destruct (18446744073709551615 <=? Z.of_N n)%Z eqn:E; steps; reflexivity.
Qed.

(* ================= the per-packet decisions of the receivers ================= *)

(* the body of the model's decrypt_loop for one packet: Ok chunk = released / end marker, Err = stop *)
Definition dec_block_step (st : dec_state) (n : N) (auths : list bytes) (ct : bytes) (final : bool) : result bytes :=
  if negb (block_number_ok n) then Err ErrPacketOverflow
  else
    let nonce := nonce_chunk_secretbox n in
    match payload_hash c (ds_version st) (ds_hh st) nonce ct final with
    | None => Err (Panic 6)
    | Some ph =>
      let ours := payload_authenticator c (ds_mac_key st) ph in
      match nth_error auths (N.to_nat (ds_position st)) with
      | None => Err (ErrBadTag (n + 1))
      | Some theirs =>
        if negb (bytes_eqb ours theirs) then Err (ErrBadTag (n + 1))
        else match sb_open c (ds_payload_key st) nonce ct with
             | None => Err (ErrBadCiphertext (n + 1))
             | Some chunk => Ok chunk
             end
      end
    end.

(* (TARGET) the model's loop really is this step followed by the chunk-state check *)
Lemma decrypt_loop_step (fuel : nat) (st : dec_state) (n : N) (input : bytes) (acc : list bytes) :
  decrypt_loop c (S fuel) st n input acc =
  match read_packet input with
  | Err e => mkOut (rev_append acc []) e
  | Ok (m, rest) =>
    let v := ds_version st in
    if negb ((vmaj v =? 1)%Z || (vmaj v =? 2)%Z) then mkOut (rev_append acc []) (Panic 9)
    else match of_dres (view_enc_block v m) with
         | Err e => mkOut (rev_append acc []) e
         | Ok (auths, ct, final) =>
           match dec_block_step st n auths ct final with
           | Err e => mkOut (rev_append acc []) e
           | Ok chunk =>
             match check_chunk_state v (List.length chunk) n final with
             | Err e => mkOut (rev_append acc []) e
             | Ok _ => if final then mkOut (rev_append (chunk :: acc) []) (assert_end_of_stream rest)
                       else decrypt_loop c fuel st (n + 1) rest (chunk :: acc)
             end
           end
         end
  end.
Proof.
  cbn [decrypt_loop]. unfold dec_block_step.
  destruct (read_packet input) as [[m rest]|e]; [|reflexivity].
  cbv zeta.
  destruct (negb _); [reflexivity|].
  destruct (of_dres _) as [[[auths ct] final]|e]; [|reflexivity].
  destruct (negb (block_number_ok n)); [reflexivity|].
  destruct (payload_hash _ _ _ _ _ _); [|reflexivity].
  destruct (nth_error _ _); [|reflexivity].
  destruct (negb (bytes_eqb _ _)); [reflexivity|].
  destruct (sb_open _ _ _ _); reflexivity.
Qed.

Definition g_dec_state (st : dec_state) : gval :=
  VStruct [("version", g_version (ds_version st)); ("headerHash", VBytes (ds_hh st)); ("macKey", VBytes (ds_mac_key st));
           ("position", VInt (Z.of_N (ds_position st))); ("payloadKey", VBytes (ds_payload_key st))].

(* the result of processBlock: (plaintext or nil, error) *)
Definition g_block_result (o : outcome) : result bytes :=
  match o with
  | ORet [p; VNil] => match vbytes_of p with Some b => Ok b | None => Err Unmodelled end
  | ORet [_; VErr n [VInt s]] =>
    if String.eqb n "ErrBadTag" then Err (ErrBadTag (Z.to_N s))
    else if String.eqb n "ErrBadCiphertext" then Err (ErrBadCiphertext (Z.to_N s))
    else Err Unmodelled
  | ORet [_; VErr n []] =>
    if String.eqb n "ErrPacketOverflow" then Err ErrPacketOverflow
    else if String.eqb n "ErrBadSignature" then Err ErrBadSignature
    else Err Unmodelled
  | OPanic => Err (Panic 6)
  | _ => Err Unmodelled
  end.

(* (TARGET) decryptStream.processBlock decides exactly as the model's step, for every state,
   packet number, authenticator list, ciphertext and flag (seqno = n + 1) *)
Lemma go_decrypt_processBlock (st : dec_state) (n : N) (auths : list bytes) (ct : bytes) (final : bool) :
  (n < 18446744073709551615)%N \/ (n = 18446744073709551615)%N ->
  (vmaj (ds_version st) = 1 \/ vmaj (ds_version st) = 2)%Z ->
  (ds_position st < 9223372036854775808)%N ->
  g_block_result (run_func ext_model f_saltpack_decryptStream_processBlock
                   [g_dec_state st; VBytes ct; VList (map VBytes auths); VBool final; VInt (Z.of_N n + 1)])
  = dec_block_step st n auths ct final.
Proof.
  intros Hn Hv Hp. destruct st as [[ma mi] pkey mkey pos hh0]. cbn [ds_version ds_payload_key ds_mac_key ds_position ds_hh vmaj] in *.
  unfold dec_block_step, g_dec_state. cbn [ds_version ds_payload_key ds_mac_key ds_position ds_hh vmaj].
  remember (map VBytes auths) as la eqn:Ela.
  start2 f_saltpack_decryptStream_processBlock.
  steps. rewrite (blocknum_wrap n Hn), N2Z.id.
  destruct (block_number_ok n) eqn:Eb; cbn [negb]; [|steps; reflexivity].
  steps.
  destruct (payload_hash _ _ _ _ _ _) as [ph|] eqn:Eph;
    [|exfalso; unfold payload_hash in Eph; cbn [vmaj] in Eph; destruct Hv; subst ma; discriminate].
  steps.
  assert (Hz : (Z.of_N pos <? 0)%Z = false) by lia.
  assert (Hs : Z.to_N (Z.of_N n + 1) = (n + 1)%N) by lia.
  subst la. rewrite map_length, nth_error_map. replace (Z.to_nat (Z.of_N pos)) with (N.to_nat pos) by lia.
  unfold bytes in *.
  destruct (nth_error auths (N.to_nat pos)) as [theirs|] eqn:En; cbn [option_map].
  - assert (Hl : (Z.of_nat (List.length auths) <=? Z.of_N pos)%Z = false).
    { assert (N.to_nat pos < List.length auths)%nat by (apply nth_error_Some; congruence). lia. }
    steps.
    destruct (bytes_eqb _ theirs) eqn:Ee; cbn [negb]; [|steps; cbv [g_block_result vbytes_of]; steps; rewrite Hs; reflexivity].
    steps.
    destruct (sb_open _ _ _ _) as [chunk|] eqn:Eo; [|steps; cbv [g_block_result vbytes_of]; steps; rewrite Hs; reflexivity].
    steps.
    destruct chunk as [|x chunk]; steps; reflexivity.
  - assert (Hl : (Z.of_nat (List.length auths) <=? Z.of_N pos)%Z = true).
    { apply nth_error_None in En. lia. }
    steps. cbv [g_block_result vbytes_of]; steps; rewrite Hs; reflexivity.
Qed.

(* signcryption: the body of sc_open_loop for one packet, named signer *)
Definition sc_block_step (pkey hh : bytes) (signer : option bytes) (n : N) (ct : bytes) (final : bool) : result bytes :=
  if negb (block_number_ok n) then Err ErrPacketOverflow
  else
    let nonce := nonce_chunk_signcryption hh final n in
    match sb_open c pkey nonce ct with
    | None => Err (ErrBadCiphertext (n + 1))
    | Some att =>
      if Nat.ltb (List.length att) 64 then Err (ErrBadCiphertext (n + 1))
      else
        let sig := firstn 64 att in
        let chunk := skipn 64 att in
        match signer with
        | None => Ok chunk
        | Some pk => if negb (ed_verify c pk (signcrypt_sig_input c hh nonce final chunk) sig) then Err ErrBadSignature else Ok chunk
        end
    end.

Definition g_sc_state (pkey hh : bytes) (signer : option bytes) : gval :=
  VStruct [("headerHash", VBytes hh); ("payloadKey", VBytes pkey);
           ("senderAnonymous", VBool (match signer with None => true | Some _ => false end));
           ("signingPublicKey", match signer with Some pk => VBytes pk | None => VNil end)].

(* (TARGET) *)
Lemma go_signcrypt_processBlock (pkey hh : bytes) (signer : option bytes) (n : N) (ct : bytes) (final : bool) :
  (n < 18446744073709551615)%N \/ (n = 18446744073709551615)%N ->
  g_block_result (run_func ext_model f_saltpack_signcryptOpenStream_processBlock
                   [g_sc_state pkey hh signer; VBytes ct; VBool final; VInt (Z.of_N n + 1)])
  = sc_block_step pkey hh signer n ct final.
Proof.
  intros Hn.
  unfold sc_block_step, g_sc_state.
  start2 f_saltpack_signcryptOpenStream_processBlock.
  steps. rewrite (blocknum_wrap n Hn), N2Z.id.
  destruct (block_number_ok n) eqn:Eb; cbn [negb]; [|steps; reflexivity].
  steps.
  assert (Hs : Z.to_N (Z.of_N n + 1) = (n + 1)%N) by lia.
  destruct (sb_open _ _ _ _) as [att|] eqn:Eo; [|steps; cbv [g_block_result vbytes_of]; steps; rewrite Hs; reflexivity].
  steps.
  destruct (Nat.ltb (List.length att) 64) eqn:El.
  - assert (Hl : (Z.of_nat (List.length att) <? 64)%Z = true) by (apply Nat.ltb_lt in El; lia).
    steps. cbv [g_block_result vbytes_of]; steps; rewrite Hs; reflexivity.
  - apply Nat.ltb_ge in El.
    assert (Hl : (Z.of_nat (List.length att) <? 64)%Z = false) by lia.
    assert (H2 : (List.length (firstn 64 att) =? 64)%nat = true)
      by (rewrite firstn_length_le by assumption; reflexivity).
    pose proof (firstn_rest att 64 El) as H3. change (Z.of_nat 64) with 64%Z in H3.
    steps. rewrite H3.
    destruct signer as [pk|]; steps; [|reflexivity].
    destruct (ed_verify _ _ _ _) eqn:Ev; steps; reflexivity.
Qed.

(* verifyStream.processBlock: the signature check of one attached packet.

   STATEMENT CORRECTED.  The skeleton's TARGET stated the result through [g_result1] (GoAstProofs.v):
     g_result1 (run_func ext_model f_saltpack_verifyStream_processBlock [...]) =
       match attached_sig_input c v hh chunk n final with
       | Some inp => if ed_verify c pk inp sig then GOk else GErr ErrBadSignature | None => GPanic end.
   That statement is FALSE whenever the signature does not verify: the Go function then returns
   ORet [VErr "ErrBadSignature" []], and [g_err_class] does not know the name "ErrBadSignature", so
   [g_result1] yields GOther, not GErr ErrBadSignature.  Concrete counterexample (evaluated with vm_compute):
   any crypto record with ed_verify = fun _ _ _ => false, v = mkV 2 0, pk = hh = sig = chunk = [], n = 0,
   final = true: the left-hand side is GOther, the right-hand side is GErr ErrBadSignature.
   Minimal correction: classify the outcome with [g_sig_result1], which is [g_result1] extended with
   ErrBadSignature; everything else in the statement is unchanged.  The raw outcome is given by
   [go_verify_processBlock_outcome]. *)
Definition g_sig_result1 (o : outcome) : gres :=
  match o with
  | ORet [VErr n _] => if String.eqb n "ErrBadSignature" then GErr ErrBadSignature else g_result1 o
  | _ => g_result1 o
  end.

Lemma go_verify_processBlock_outcome (v : version) (pk hh sig chunk : bytes) (n : N) (final : bool) :
  (n < 18446744073709551615)%N ->
  (vmaj v = 1 \/ vmaj v = 2)%Z ->
  run_func ext_model f_saltpack_verifyStream_processBlock
               [VStruct [("publicKey", VBytes pk); ("header", VStruct [("Version", g_version v)]); ("headerHash", VBytes hh)];
                VBytes sig; VBytes chunk; VBool final; VInt (Z.of_N n + 1)]
  = match attached_sig_input c v hh chunk n final with
    | Some inp => if ed_verify c pk inp sig then ORet [VNil] else ORet [VErr "ErrBadSignature" []]
    | None => OPanic
    end.
Proof.
  intros Hn Hv. destruct v as [ma mi]. cbn [vmaj] in Hv.
  start2 f_saltpack_verifyStream_processBlock.
  steps.
  replace (Z.to_N ((Z.of_N n + 1 - 1) mod 18446744073709551616)) with n
    by (replace (Z.of_N n + 1 - 1)%Z with (Z.of_N n) by lia; rewrite Z.mod_small by lia; lia).
  destruct (attached_sig_input _ _ _ _ _ _) as [inp|] eqn:Ea;
    [|exfalso; unfold attached_sig_input in Ea; cbn [vmaj] in Ea; destruct Hv; subst ma; discriminate].
  steps. destruct (ed_verify _ _ _ _); steps; reflexivity.
Qed.

(* (TARGET, STATEMENT CORRECTED: g_sig_result1 instead of g_result1, see above) *)
Lemma go_verify_processBlock (v : version) (pk hh sig chunk : bytes) (n : N) (final : bool) :
  (n < 18446744073709551615)%N ->
  (vmaj v = 1 \/ vmaj v = 2)%Z ->
  g_sig_result1 (run_func ext_model f_saltpack_verifyStream_processBlock
               [VStruct [("publicKey", VBytes pk); ("header", VStruct [("Version", g_version v)]); ("headerHash", VBytes hh)];
                VBytes sig; VBytes chunk; VBool final; VInt (Z.of_N n + 1)])
  = match attached_sig_input c v hh chunk n final with
    | Some inp => if ed_verify c pk inp sig then GOk else GErr ErrBadSignature
    | None => GPanic
    end.
Proof.
  intros Hn Hv. rewrite (go_verify_processBlock_outcome v pk hh sig chunk n final Hn Hv).
  destruct (attached_sig_input _ _ _ _ _ _); [destruct (ed_verify _ _ _ _)|]; reflexivity.
Qed.


End Prims.

(* ---------- the counterexample to the skeleton's statement of go_verify_processBlock, checked by
   computation: with a verifier that rejects, g_result1 of the outcome is GOther while the skeleton's
   right-hand side is GErr ErrBadSignature ---------- *)
Definition reject_crypto : crypto :=
  mkCrypto (fun x => x) (fun _ x => x) (fun _ _ m => m) (fun _ _ m => Some m) (fun x => x) (fun a _ => a)
           (fun x => x) (fun _ m => m) (fun _ _ _ => false).
Lemma go_verify_processBlock_skeleton_statement_false :
  g_result1 (run_func (ext_model reject_crypto) f_saltpack_verifyStream_processBlock
               [VStruct [("publicKey", VBytes []); ("header", VStruct [("Version", g_version (mkV 2 0))]); ("headerHash", VBytes [])];
                VBytes []; VBytes []; VBool true; VInt (Z.of_N 0 + 1)]) = GOther
  /\ match attached_sig_input reject_crypto (mkV 2 0) [] [] 0 true with
     | Some inp => if ed_verify reject_crypto [] inp [] then GOk else GErr ErrBadSignature
     | None => GPanic
     end = GErr ErrBadSignature.
Proof. split; vm_compute; reflexivity. Qed.

(* NOT PROVED, because false as written (see go_verify_processBlock above); the skeleton's statement was:
   Lemma go_verify_processBlock (v : version) (pk hh sig chunk : bytes) (n : N) (final : bool) :
     (n < 18446744073709551615)%N ->
     (vmaj v = 1 \/ vmaj v = 2)%Z ->
     g_result1 (run_func ext_model f_saltpack_verifyStream_processBlock
                  [VStruct [("publicKey", VBytes pk); ("header", VStruct [("Version", g_version v)]); ("headerHash", VBytes hh)];
                   VBytes sig; VBytes chunk; VBool final; VInt (Z.of_N n + 1)])
     = match attached_sig_input c v hh chunk n final with
       | Some inp => if ed_verify c pk inp sig then GOk else GErr ErrBadSignature
       | None => GPanic
       end. *)
